/-
  C15 — the REGENERATED `<Text as Drawable>::draw` equals the hand-written model, and the multi-line headline of
  C15 over the regenerated functions.

  `TextSrc.Text_Drawable_draw` is the translation of the `for (line, position) in self.lines() { next_position =
  draw_string(..)? }` loop of src/text/text.rs (tools/tr_textsrc.py): a fold over the regenerated `Text::lines()`
  with `(next_position, target)` as accumulator, calling the regenerated `draw_string`. With
  `Text_lines_src_eq_model` (Props/C15/Generated.lean) and `draw_string_src_eq_model` (Props/C14/Generated.lean) it
  equals the hand model's `TextLayout.draw`: returned position and calls appended to the target.
  Guard: `TextFits` = `LineFits` (measuring) and `DrawFits` (drawing) for the whole text; both are monotone in the
  length, so they cover every line.
-/
import EG.Props.C14.Generated
import EG.Props.C15.Generated
namespace EG.C15.Src
open EG EG.Font EG.TextLayout EG.RectSrcPrelude EG.TextSrcPrelude EG.Generated EG.C16.Src EG.C14.Src

/-- the casts of measuring and of drawing do not wrap for a text of this length (hence for each of its lines) -/
def TextFits (t : TextSrcPrelude.Text) : Prop :=
  LineFits t.character_style.font.f t.character_style.st t.text.length ∧ DrawFits t.character_style.font.f t.text.length
    ∧ AdvanceFits t.character_style.font.f ∧ GlyphsFit t.character_style.font.f t.text
instance (t : TextSrcPrelude.Text) : Decidable (TextFits t) := by unfold TextFits; exact inferInstance

example : TextFits ⟨[72, 105, 10, 33], ⟨3, 4⟩,
    ⟨⟨some 1, none, .none, .none⟩, ⟨⟨96, 54, 6, 9, 0, 6, 10, 1, 4, 1, fun c => c - 32⟩, fun _ => false⟩⟩,
    ⟨.center, .alphabetic, .percent 100⟩⟩ := by decide

/-- the body of the `for` loop of `draw` as the translator writes it -/
def drawStep (fuel : Nat) (t : TextSrcPrelude.Text) : Pt × List Call → List Nat × Pt → Pt × List Call :=
  fun (next_position, target) (line, position) =>
      let (next_position, target) := TextSrc.MonoTextStyle_TextRenderer_draw_string fuel (Text_character_style t) line position
        (TextStyle_baseline (Text_text_style t)) target
      (next_position, target)

theorem Text_draw_unfold (fuel : Nat) (t : TextSrcPrelude.Text) (target : List Call) :
    TextSrc.Text_Drawable_draw fuel t target =
      for_in (TextSrc.Text_lines t) (Text_position t, target) (drawStep fuel t) := rfl

/-- what `draw_string` needs of one line: enough fuel for its `2 * len + 1` line elements, no wrapping cast -/
def LineOK (fuel : Nat) (f : Font.MonoFont) (l : List Nat) : Prop :=
  2 * l.length + 1 ≤ fuel ∧ DrawFits f l.length ∧ GlyphsFit f l

theorem draw_fold_src_eq_model (fuel : Nat) (t : TextSrcPrelude.Text) (ls : List (List Nat × Pt)) (next : Pt)
    (target : List Call) (ha : AdvanceFits t.character_style.font.f)
    (h : ∀ l ∈ ls, LineOK fuel t.character_style.font.f l.1) :
    for_in ls (next, target) (drawStep fuel t) =
      ((drawLines t.character_style.font.f t.character_style.font.atlas t.character_style.st t.text_style.baseline ls next).2,
       target ++ (drawLines t.character_style.font.f t.character_style.font.atlas t.character_style.st
         t.text_style.baseline ls next).1) := by
  induction ls generalizing next target with
  | nil => simp [for_in, drawLines]
  | cons lp rest ih =>
    obtain ⟨line, p⟩ := lp
    obtain ⟨hf1, hf2, hf3⟩ := h (line, p) List.mem_cons_self
    have hd := draw_string_src_eq_model fuel t.character_style line p t.text_style.baseline target hf1 hf2 ha hf3
    simp only [for_in, List.foldl_cons, drawLines]
    have hstep : drawStep fuel t (next, target) (line, p) =
        ((t.character_style.font.f.drawString t.character_style.font.atlas t.character_style.st line p t.text_style.baseline).2,
         target ++ (t.character_style.font.f.drawString t.character_style.font.atlas t.character_style.st line p
           t.text_style.baseline).1) := by
      unfold drawStep
      simp only [Text_character_style, TextStyle_baseline, Text_text_style]
      rw [hd]
    rw [hstep]
    have := ih (t.character_style.font.f.drawString t.character_style.font.atlas t.character_style.st line p
        t.text_style.baseline).2 (target ++ (t.character_style.font.f.drawString t.character_style.font.atlas
        t.character_style.st line p t.text_style.baseline).1) (fun l hl => h l (List.mem_cons_of_mem _ hl))
    simp only [for_in] at this
    rw [this, List.append_assoc]

theorem mem_of_mem_stripCR (l : List Nat) (c : Nat) (h : c ∈ stripCR l) : c ∈ l := by
  unfold stripCR at h
  split at h
  · rw [List.dropLast_eq_take] at h; exact List.mem_of_mem_take h
  · exact h

theorem splitNL_subset (t : List Nat) : ∀ l ∈ splitNL t, ∀ c ∈ l, c ∈ t := by
  induction t with
  | nil => intro l hl c hc; simp [splitNL] at hl; simp [hl] at hc
  | cons d ds ih =>
    intro l hl c hc
    unfold splitNL at hl
    split at hl
    · rcases List.mem_cons.mp hl with h | h
      · simp [h] at hc
      · exact List.mem_cons_of_mem _ (ih l h c hc)
    · split at hl
      · rename_i l0 ls heq
        rcases List.mem_cons.mp hl with h | h
        · rw [h] at hc
          rcases List.mem_cons.mp hc with h2 | h2
          · rw [h2]; exact List.mem_cons_self
          · exact List.mem_cons_of_mem _ (ih l0 (by rw [heq]; exact List.mem_cons_self) c h2)
        · exact List.mem_cons_of_mem _ (ih l (by rw [heq]; exact List.mem_cons_of_mem _ h) c hc)
      · simp at hl; rw [hl] at hc; simp at hc; rw [hc]; exact List.mem_cons_self

/-- every line `lines()` yields is (a `\r`-stripped) segment of the text: not longer, no other characters -/
theorem linesGo_line_of_raw (f : Font.MonoFont) (st : Style) (ts : TextLayout.TextStyle) (raws : List (List Nat)) (pos : Pt) :
    ∀ lp ∈ linesGo f st ts pos raws, ∃ raw ∈ raws, lp.1 = stripCR raw := by
  induction raws generalizing pos with
  | nil => intro lp hlp; simp [linesGo] at hlp
  | cons raw rest ih =>
    intro lp hlp
    unfold linesGo at hlp
    rcases List.mem_cons.mp hlp with h1 | h1
    · exact ⟨raw, List.mem_cons_self, by rw [h1]⟩
    · obtain ⟨r, hr, he⟩ := ih _ lp h1
      exact ⟨r, List.mem_cons_of_mem _ hr, he⟩

theorem lines_ok (fuel : Nat) (t : TextSrcPrelude.Text) (hf : 2 * t.text.length + 1 ≤ fuel)
    (hd : DrawFits t.character_style.font.f t.text.length) (hg : GlyphsFit t.character_style.font.f t.text) :
    ∀ lp ∈ lines t.character_style.font.f t.toModel, LineOK fuel t.character_style.font.f lp.1 := by
  intro lp hlp
  obtain ⟨raw, hraw, he⟩ := linesGo_line_of_raw _ _ _ _ _ lp hlp
  have hlen : lp.1.length ≤ t.text.length := by
    rw [he]; exact Nat.le_trans (stripCR_length_le raw) (splitNL_length_le _ raw hraw)
  refine ⟨by omega, hd.mono hlen, ?_⟩
  intro c hc
  rw [he] at hc
  exact hg c (splitNL_subset _ raw hraw c (mem_of_mem_stripCR raw c hc))

/-- `<Text as Drawable>::draw` = the hand model's `draw`: the returned position, and the calls appended to the target;
for every `fuel` that covers the `2 * len + 1` line elements of the longest line. -/
theorem Text_draw_src_eq_model (fuel : Nat) (t : TextSrcPrelude.Text) (target : List Call) (h : TextFits t)
    (hf : 2 * t.text.length + 1 ≤ fuel) :
    TextSrc.Text_Drawable_draw fuel t target =
      ((draw t.character_style.font.f t.character_style.font.atlas t.toModel).2,
       target ++ (draw t.character_style.font.f t.character_style.font.atlas t.toModel).1) := by
  obtain ⟨hl, hd, ha, hg⟩ := h
  rw [Text_draw_unfold, Text_lines_src_eq_model t hl]
  unfold draw
  exact draw_fold_src_eq_model fuel t _ _ _ ha (lines_ok fuel t hf hd hg)

/-! ### the multi-line headline of C15, about the regenerated `draw` -/

/-- **A text containing `\n` = its lines drawn separately `line_height` apart** (regenerated `Text::draw`, on a
fresh target): the calls are, in order, the calls of drawing the i-th segment as a text of its own at
`(x, y + i * line_height)`. -/
theorem src_multiline_eq_lines (fuel : Nat) (t : TextSrcPrelude.Text) (h : TextFits t)
    (hf : 2 * t.text.length + 1 ≤ fuel) :
    (TextSrc.Text_Drawable_draw fuel t []).2 = ((splitNL t.text).mapIdx (fun i seg =>
      (draw t.character_style.font.f t.character_style.font.atlas
        ⟨seg, ⟨t.position.x, t.position.y + (i : Int) * TextSrc.Text_line_height t⟩, t.character_style.st,
          t.text_style⟩).1)).flatten := by
  rw [Text_draw_src_eq_model fuel t [] h hf, Text_line_height_src_eq_model]
  simp only [List.nil_append]
  exact C15.multiline_eq_lines _ _ _

/-- ... and the returned position is the position the LAST line's `draw_string` returns (the hand model's value). -/
theorem src_draw_returns (fuel : Nat) (t : TextSrcPrelude.Text) (target : List Call) (h : TextFits t)
    (hf : 2 * t.text.length + 1 ≤ fuel) :
    (TextSrc.Text_Drawable_draw fuel t target).1 =
      (draw t.character_style.font.f t.character_style.font.atlas t.toModel).2 := by
  rw [Text_draw_src_eq_model fuel t target h hf]

/-- recursive form with the returned position: `seg ++ "\n" ++ rest` = `seg` at `p`, then `rest` one `line_height`
lower; the returned position is the one of the last part (regenerated `draw`, both sides). -/
theorem src_multiline_step (fuel : Nat) (cs : MonoTextStyle) (seg rest : List Nat) (p : Pt) (ts : TextLayout.TextStyle)
    (hf : 2 * (seg ++ 10 :: rest).length + 1 ≤ fuel) (h10 : 10 ∉ seg)
    (h : TextFits ⟨seg ++ 10 :: rest, p, cs, ts⟩) (h1 : TextFits ⟨seg, p, cs, ts⟩)
    (h2 : TextFits ⟨rest, ⟨p.x, p.y + lineHeight cs.font.f ts⟩, cs, ts⟩) :
    TextSrc.Text_Drawable_draw fuel ⟨seg ++ 10 :: rest, p, cs, ts⟩ [] =
      ((TextSrc.Text_Drawable_draw fuel ⟨rest, ⟨p.x, p.y + lineHeight cs.font.f ts⟩, cs, ts⟩ []).1,
       (TextSrc.Text_Drawable_draw fuel ⟨seg, p, cs, ts⟩ []).2 ++
         (TextSrc.Text_Drawable_draw fuel ⟨rest, ⟨p.x, p.y + lineHeight cs.font.f ts⟩, cs, ts⟩ []).2) := by
  have hl : (seg ++ 10 :: rest).length = seg.length + rest.length + 1 := by simp; omega
  rw [Text_draw_src_eq_model fuel _ [] h hf, Text_draw_src_eq_model fuel _ [] h1 (by simp only at hf ⊢; omega),
    Text_draw_src_eq_model fuel _ [] h2 (by simp only at hf ⊢; omega)]
  simp only [List.nil_append]
  have := C15.multiline_step cs.font.f cs.font.atlas seg rest p cs.st ts h10
  simp only [Text.toModel]
  rw [this]

end EG.C15.Src
