/-
  C15 — the REGENERATED `<Text as Drawable>::draw` equals the hand-written model, and the multi-line headline of
  C15 over the regenerated functions.

  `TextSrc.Text_Drawable_draw` is the translation of the `for (line, position) in self.lines() { next_position =
  draw_string(..)? }` loop of src/text/text.rs (tools/tr_textsrc.py): a fold over the regenerated `Text::lines()`
  with `(next_position, target)` as accumulator, calling the regenerated `draw_string`. With
  `Text_lines_src_eq_model` (Props/C15/Generated.lean) and `draw_string_src_eq_model` (Props/C14/Generated.lean) it
  equals the hand model's `TextLayout.draw`: returned position and calls appended to the target.
  Guard: `TextFits` = `LineFits` (measuring) and `DrawFits` (drawing) for the whole text; both are monotone in the
  length, so they cover every line.
-/
import EG.Props.C14.Generated
import EG.Props.C15.Generated
namespace EG.C15.Src
open EG EG.Font EG.TextLayout EG.RectSrcPrelude EG.TextSrcPrelude EG.Generated EG.C16.Src EG.C14.Src

/-- the casts of measuring and of drawing do not wrap for a text of this length (hence for each of its lines) -/
def TextFits (t : TextSrcPrelude.Text) : Prop :=
  LineFits t.character_style.font.f t.character_style.st t.text.length ∧ DrawFits t.character_style.font.f t.text.length
instance (t : TextSrcPrelude.Text) : Decidable (TextFits t) := by unfold TextFits; exact inferInstance

example : TextFits ⟨[72, 105, 10, 33], ⟨3, 4⟩,
    ⟨⟨some 1, none, .none, .none⟩, ⟨⟨96, 54, 6, 9, 0, 6, 10, 1, 4, 1, fun c => c - 32⟩, fun _ => false⟩⟩,
    ⟨.center, .alphabetic, .percent 100⟩⟩ := by decide

/-- the body of the `for` loop of `draw` as the translator writes it -/
def drawStep (t : TextSrcPrelude.Text) : Pt × List Call → List Nat × Pt → Pt × List Call :=
  fun (next_position, target) (line, position) =>
      let (next_position, target) := TextSrc.MonoTextStyle_TextRenderer_draw_string (Text_character_style t) line position
        (TextStyle_baseline (Text_text_style t)) target
      (next_position, target)

theorem Text_draw_unfold (t : TextSrcPrelude.Text) (target : List Call) :
    TextSrc.Text_Drawable_draw t target = for_in (TextSrc.Text_lines t) (Text_position t, target) (drawStep t) := rfl

theorem draw_fold_src_eq_model (t : TextSrcPrelude.Text) (ls : List (List Nat × Pt)) (next : Pt) (target : List Call)
    (h : ∀ l ∈ ls, DrawFits t.character_style.font.f l.1.length) :
    for_in ls (next, target) (drawStep t) =
      ((drawLines t.character_style.font.f t.character_style.font.atlas t.character_style.st t.text_style.baseline ls next).2,
       target ++ (drawLines t.character_style.font.f t.character_style.font.atlas t.character_style.st
         t.text_style.baseline ls next).1) := by
  induction ls generalizing next target with
  | nil => simp [for_in, drawLines]
  | cons lp rest ih =>
    obtain ⟨line, p⟩ := lp
    have hd := draw_string_src_eq_model t.character_style line p t.text_style.baseline target
      (h (line, p) List.mem_cons_self)
    simp only [for_in, List.foldl_cons, drawLines]
    have hstep : drawStep t (next, target) (line, p) =
        ((t.character_style.font.f.drawString t.character_style.font.atlas t.character_style.st line p t.text_style.baseline).2,
         target ++ (t.character_style.font.f.drawString t.character_style.font.atlas t.character_style.st line p
           t.text_style.baseline).1) := by
      unfold drawStep
      simp only [Text_character_style, TextStyle_baseline, Text_text_style]
      rw [hd]
    rw [hstep]
    have := ih (t.character_style.font.f.drawString t.character_style.font.atlas t.character_style.st line p
        t.text_style.baseline).2 (target ++ (t.character_style.font.f.drawString t.character_style.font.atlas
        t.character_style.st line p t.text_style.baseline).1) (fun l hl => h l (List.mem_cons_of_mem _ hl))
    simp only [for_in] at this
    rw [this, List.append_assoc]

theorem linesGo_length_le (f : Font.MonoFont) (st : Style) (ts : TextLayout.TextStyle) (raws : List (List Nat)) (pos : Pt)
    (n : Nat) (h : ∀ l ∈ raws, l.length ≤ n) : ∀ lp ∈ linesGo f st ts pos raws, lp.1.length ≤ n := by
  induction raws generalizing pos with
  | nil => intro lp hlp; simp [linesGo] at hlp
  | cons raw rest ih =>
    intro lp hlp
    unfold linesGo at hlp
    rcases List.mem_cons.mp hlp with h1 | h1
    · rw [h1]; exact Nat.le_trans (stripCR_length_le raw) (h raw List.mem_cons_self)
    · exact ih _ (fun l hl => h l (List.mem_cons_of_mem _ hl)) lp h1

/-- `<Text as Drawable>::draw` = the hand model's `draw`: the returned position, and the calls appended to the target. -/
theorem Text_draw_src_eq_model (t : TextSrcPrelude.Text) (target : List Call) (h : TextFits t) :
    TextSrc.Text_Drawable_draw t target =
      ((draw t.character_style.font.f t.character_style.font.atlas t.toModel).2,
       target ++ (draw t.character_style.font.f t.character_style.font.atlas t.toModel).1) := by
  obtain ⟨hl, hd⟩ := h
  rw [Text_draw_unfold, Text_lines_src_eq_model t hl]
  unfold draw
  refine draw_fold_src_eq_model t _ _ _ (fun lp hlp => hd.mono ?_)
  exact linesGo_length_le t.character_style.font.f t.character_style.st t.text_style (splitNL t.text) t.position
    t.text.length (splitNL_length_le _) lp hlp

/-! ### the multi-line headline of C15, about the regenerated `draw` -/

/-- **A text containing `\n` = its lines drawn separately `line_height` apart** (regenerated `Text::draw`, on a
fresh target): the calls are, in order, the calls of drawing the i-th segment as a text of its own at
`(x, y + i * line_height)`. -/
theorem src_multiline_eq_lines (t : TextSrcPrelude.Text) (h : TextFits t) :
    (TextSrc.Text_Drawable_draw t []).2 = ((splitNL t.text).mapIdx (fun i seg =>
      (draw t.character_style.font.f t.character_style.font.atlas
        ⟨seg, ⟨t.position.x, t.position.y + (i : Int) * TextSrc.Text_line_height t⟩, t.character_style.st,
          t.text_style⟩).1)).flatten := by
  rw [Text_draw_src_eq_model t [] h, Text_line_height_src_eq_model]
  simp only [List.nil_append]
  exact C15.multiline_eq_lines _ _ _

/-- ... and the returned position is the position the LAST line's `draw_string` returns (the hand model's value). -/
theorem src_draw_returns (t : TextSrcPrelude.Text) (target : List Call) (h : TextFits t) :
    (TextSrc.Text_Drawable_draw t target).1 =
      (draw t.character_style.font.f t.character_style.font.atlas t.toModel).2 := by
  rw [Text_draw_src_eq_model t target h]

/-- recursive form with the returned position: `seg ++ "\n" ++ rest` = `seg` at `p`, then `rest` one `line_height`
lower; the returned position is the one of the last part (regenerated `draw`, both sides). -/
theorem src_multiline_step (cs : MonoTextStyle) (seg rest : List Nat) (p : Pt) (ts : TextLayout.TextStyle) (h10 : 10 ∉ seg)
    (h : TextFits ⟨seg ++ 10 :: rest, p, cs, ts⟩) (h1 : TextFits ⟨seg, p, cs, ts⟩)
    (h2 : TextFits ⟨rest, ⟨p.x, p.y + lineHeight cs.font.f ts⟩, cs, ts⟩) :
    TextSrc.Text_Drawable_draw ⟨seg ++ 10 :: rest, p, cs, ts⟩ [] =
      ((TextSrc.Text_Drawable_draw ⟨rest, ⟨p.x, p.y + lineHeight cs.font.f ts⟩, cs, ts⟩ []).1,
       (TextSrc.Text_Drawable_draw ⟨seg, p, cs, ts⟩ []).2 ++
         (TextSrc.Text_Drawable_draw ⟨rest, ⟨p.x, p.y + lineHeight cs.font.f ts⟩, cs, ts⟩ []).2) := by
  rw [Text_draw_src_eq_model _ [] h, Text_draw_src_eq_model _ [] h1, Text_draw_src_eq_model _ [] h2]
  simp only [List.nil_append]
  have := C15.multiline_step cs.font.f cs.font.atlas seg rest p cs.st ts h10
  simp only [Text.toModel]
  rw [this]

end EG.C15.Src
