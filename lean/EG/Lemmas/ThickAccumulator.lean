/-
  EG.Lemmas.ThickAccumulator — how `ParallelsIterator` accounts for thickness: one call of `next`
  adds one perpendicular step's thickness, while `next_parallel` may take several perpendicular
  steps (skipped `Extra` steps) - the mechanism of the known finding
  `C17:thick-band:wide-stroke-overcount`.
-/
import EG.Model.ThickLine
namespace EG
namespace Thick
open ParallelsIterator

/-- The fields `next_parallel` never touches. -/
def SameFrame (a b : ParallelsIterator) : Prop :=
  b.parallelParameters = a.parallelParameters ∧
  b.perpendicularParameters = a.perpendicularParameters ∧
  b.thicknessAccumulator = a.thicknessAccumulator ∧
  b.thicknessThreshold = a.thicknessThreshold ∧
  b.flip = a.flip ∧ b.nextSide = a.nextSide ∧ b.strokeOffset = a.strokeOffset

theorem SameFrame.refl (a : ParallelsIterator) : SameFrame a a := ⟨rfl, rfl, rfl, rfl, rfl, rfl, rfl⟩

theorem SameFrame.trans {a b c : ParallelsIterator} (h1 : SameFrame a b) (h2 : SameFrame b c) :
    SameFrame a c := by
  obtain ⟨a1, a2, a3, a4, a5, a6, a7⟩ := h1
  obtain ⟨b1, b2, b3, b4, b5, b6, b7⟩ := h2
  exact ⟨b1.trans a1, b2.trans a2, b3.trans a3, b4.trans a4, b5.trans a5, b6.trans a6, b7.trans a7⟩

theorem sameFrame_setSideError (it : ParallelsIterator) (s : LineSide) (e : Int) :
    SameFrame it (it.setSideError s e) := by
  cases s <;> exact ⟨rfl, rfl, rfl, rfl, rfl, rfl, rfl⟩

/-- One iteration of the `next_parallel` loop: the perpendicular step of `side`. -/
def perpStep (it : ParallelsIterator) (side : LineSide) : BresenhamPoint × ParallelsIterator :=
  match side with
  | .left =>
    let (p, b) := it.left.nextAll it.perpendicularParameters
    (p, { it with left := b })
  | .right =>
    let (p, b) := it.right.previousAll it.perpendicularParameters
    (p, { it with right := b })

theorem sameFrame_perpStep (it : ParallelsIterator) (s : LineSide) :
    SameFrame it (perpStep it s).2 := by
  cases s <;> exact ⟨rfl, rfl, rfl, rfl, rfl, rfl, rfl⟩

/-- `next_parallel` changes only the two perpendicular walks and the two parallel errors. -/
theorem nextParallelFuel_sameFrame : ∀ (fuel : Nat) (it : ParallelsIterator) (side : LineSide)
    (r : BresenhamPoint × Int) (it' : ParallelsIterator),
    nextParallelFuel fuel it side = some (r, it') → SameFrame it it' := by
  intro fuel
  induction fuel with
  | zero => intro it side r it' h; simp [nextParallelFuel] at h
  | succ n ih =>
    intro it side r it' h
    have hs := sameFrame_perpStep it side
    cases side
    all_goals
      simp only [nextParallelFuel] at h
      simp only [perpStep] at hs
      split at h
      · simp only [Option.some.injEq, Prod.mk.injEq] at h
        obtain ⟨-, rfl⟩ := h
        exact hs
      · split at h
        · split at h
          · simp only [Option.some.injEq, Prod.mk.injEq] at h
            obtain ⟨-, rfl⟩ := h
            exact hs.trans (sameFrame_setSideError _ _ _)
          · exact (hs.trans (sameFrame_setSideError _ _ _)).trans (ih _ _ _ _ h)
        · split at h
          · simp only [Option.some.injEq, Prod.mk.injEq] at h
            obtain ⟨-, rfl⟩ := h
            exact hs.trans (sameFrame_setSideError _ _ _)
          · exact (hs.trans (sameFrame_setSideError _ _ _)).trans (ih _ _ _ _ h)

/-- One call of `ParallelsIterator::next` that returns a parallel adds exactly one perpendicular
step's thickness to the accumulator, whatever `next_parallel` did. -/
theorem next_adds_one_step (it it' : ParallelsIterator) (b : Bresenham)
    (ty : ParallelLineType) (h : it.next = some (some (b, ty), it')) :
    it'.perpendicularParameters = it.perpendicularParameters ∧
    it'.thicknessAccumulator = it.thicknessAccumulator +
      (match ty with
       | .normal => it.perpendicularParameters.errorStep.minor
       | .extra => it.perpendicularParameters.errorStep.major) := by
  unfold ParallelsIterator.next at h
  split at h
  · simp at h
  · cases hnp : it.nextParallel it.nextSide with
    | none => rw [hnp] at h; simp at h
    | some v =>
      obtain ⟨⟨point, error⟩, it1⟩ := v
      rw [hnp] at h
      obtain ⟨f1, f2, f3, -, -, -, -⟩ := nextParallelFuel_sameFrame _ _ _ _ _ hnp
      cases point with
      | normal p =>
        simp only [Option.some.injEq, Prod.mk.injEq] at h
        obtain ⟨⟨-, rfl⟩, rfl⟩ := h
        split <;> simp only [f2, f3] <;> exact ⟨trivial, trivial⟩
      | extra p =>
        simp only [Option.some.injEq, Prod.mk.injEq] at h
        obtain ⟨⟨-, rfl⟩, rfl⟩ := h
        split <;> simp only [f2, f3] <;> exact ⟨trivial, trivial⟩

/-- A skipped `Extra` step on the left side (no flip: `increase_error` arm): the loop continues
with the left start point moved by the perpendicular `position_step.minor`; nothing else but the
left parallel error changes - in particular not the thickness accumulator. -/
theorem nextParallelFuel_skip_left (fuel : Nat) (it : ParallelsIterator)
    (hx : it.left.error > it.perpendicularParameters.errorThreshold)
    (hflip : it.flip = false)
    (hw : (it.parallelParameters.increaseError it.leftError).2 = false) :
    nextParallelFuel (fuel + 1) it .left =
      nextParallelFuel fuel
        { it with
          left := ⟨it.left.point + it.perpendicularParameters.positionStep.minor,
                   it.left.error - it.perpendicularParameters.errorStep.minor⟩
          leftError := (it.parallelParameters.increaseError it.leftError).1 } .left := by
  simp only [nextParallelFuel, Bresenham.nextAll, hx, ↓reduceIte, hflip, sideError, setSideError, hw,
    Bool.false_eq_true]

end Thick
end EG
