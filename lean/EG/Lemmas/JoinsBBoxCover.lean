/-
  EG.Lemmas.JoinsBBoxCover — the fold of the segment boxes (`foldEdgeBoxes`, the model of
  `styled_bounding_box` of stroked polylines and triangles) covers the END POINTS OF EVERY OUTLINE
  LINE of every segment of a chain of segments.

  The outline of a (non-skeleton) segment `⟨A, B⟩` consists of its two edges (end points = its four
  corners, inside its own `edges_bounding_box`), the start cap of `A` and the end cap of `B`. A cap
  of a join with a bevel / degenerate filler line is split at the MIDPOINT of that filler line, and
  the filler runs from `J.first_edge_end.side` (a corner of the segment BEFORE the join) to
  `J.second_edge_start.side` (a corner of the segment AFTER it): "other segments expand the box".
  So the midpoint lies in the envelope of the boxes of the two segments meeting at the join -
  except when one of the two is a skeleton segment (its box holds its right edge only) and the
  filler is on the LEFT side: that configuration is not covered by the argument and is the
  decidable guard `adjOK` (the midpoint is then checked directly).
-/
import EG.Lemmas.JoinsBox
import EG.Lemmas.JoinsPolyMove
set_option linter.unusedSimpArgs false
namespace EG
namespace Joins
open Thick (LineSide StrokeOffset)

/-! ### Boxes -/

/-- Both end points of the line lie in the rectangle. -/
def Covered (U : Rect) (l : Line) : Prop := U.contains l.start = true ∧ U.contains l.stop = true

/-- `Rectangle::contains` is convex along each axis. -/
theorem contains_between {U : Rect} {a b p : Pt} (ha : U.contains a = true) (hb : U.contains b = true)
    (hx : min a.x b.x ≤ p.x ∧ p.x ≤ max a.x b.x) (hy : min a.y b.y ≤ p.y ∧ p.y ≤ max a.y b.y) :
    U.contains p = true := by
  rw [Rect.contains_iff] at ha hb ⊢
  omega

theorem tdiv2_between (d : Int) :
    (0 ≤ d → 0 ≤ tdiv2 d ∧ tdiv2 d ≤ d) ∧ (d ≤ 0 → d ≤ tdiv2 d ∧ tdiv2 d ≤ 0) := by
  unfold tdiv2; split <;> omega

theorem midpoint_between (l : Line) :
    (min l.start.x l.stop.x ≤ (midpoint l).x ∧ (midpoint l).x ≤ max l.start.x l.stop.x) ∧
    (min l.start.y l.stop.y ≤ (midpoint l).y ∧ (midpoint l).y ≤ max l.start.y l.stop.y) := by
  unfold midpoint
  simp only [Pt.add_x, Pt.add_y, Pt.sub_x, Pt.sub_y]
  have hx := tdiv2_between (l.stop.x - l.start.x)
  have hy := tdiv2_between (l.stop.y - l.start.y)
  refine ⟨⟨?_, ?_⟩, ?_, ?_⟩ <;> omega

/-- The midpoint of a line whose end points are in the rectangle is in the rectangle. -/
theorem contains_midpoint {U : Rect} {l : Line} (h : Covered U l) : U.contains (midpoint l) = true :=
  contains_between h.1 h.2 (midpoint_between l).1 (midpoint_between l).2

/-- The box of the segment is inside `U`. -/
def BoxIn (U : Rect) (s : ThickSegment) : Prop :=
  ∀ p, s.edgesBoundingBox.contains p = true → U.contains p = true

/-! ### The fold covers every segment box -/

theorem edgesBoundingBox_bottomRight (s : ThickSegment) :
    ∃ br, s.edgesBoundingBox.bottomRight = some br ∧
      br.x = s.edgesBoundingBox.tl.x + s.edgesBoundingBox.size.w - 1 ∧
      br.y = s.edgesBoundingBox.tl.y + s.edgesBoundingBox.size.h - 1 ∧
      0 < s.edgesBoundingBox.size.w ∧ 0 < s.edgesBoundingBox.size.h := by
  have hsz : 0 < s.edgesBoundingBox.size.w ∧ 0 < s.edgesBoundingBox.size.h := by
    unfold ThickSegment.edgesBoundingBox lineBoundingBox
    cases h : s.isSkeleton <;>
      simp only [h, Bool.false_eq_true, ↓reduceIte, Rect.withCorners] <;> omega
  refine ⟨_, Rect.bottomRight_some hsz, rfl, rfl, hsz.1, hsz.2⟩

theorem boxStep_1x (acc : Pt × Pt) (s : ThickSegment) :
    (boxStep acc s).1.x = min acc.1.x s.edgesBoundingBox.tl.x := rfl
theorem boxStep_1y (acc : Pt × Pt) (s : ThickSegment) :
    (boxStep acc s).1.y = min acc.1.y s.edgesBoundingBox.tl.y := rfl
theorem boxStep_2x (acc : Pt × Pt) (s : ThickSegment) :
    (boxStep acc s).2.x = max acc.2.x (s.edgesBoundingBox.bottomRight.getD s.edgesBoundingBox.tl).x := rfl
theorem boxStep_2y (acc : Pt × Pt) (s : ThickSegment) :
    (boxStep acc s).2.y = max acc.2.y (s.edgesBoundingBox.bottomRight.getD s.edgesBoundingBox.tl).y := rfl

/-- The accumulator of the fold only grows. -/
theorem foldl_boxStep_mono (segs : List ThickSegment) (acc : Pt × Pt) :
    (segs.foldl boxStep acc).1.x ≤ acc.1.x ∧ (segs.foldl boxStep acc).1.y ≤ acc.1.y ∧
    acc.2.x ≤ (segs.foldl boxStep acc).2.x ∧ acc.2.y ≤ (segs.foldl boxStep acc).2.y := by
  induction segs generalizing acc with
  | nil => simp
  | cons s rest ih =>
    simp only [List.foldl_cons]
    obtain ⟨h1, h2, h3, h4⟩ := ih (boxStep acc s)
    rw [boxStep_1x] at h1
    rw [boxStep_1y] at h2
    rw [boxStep_2x] at h3
    rw [boxStep_2y] at h4
    omega

/-- The accumulator of the fold reaches every segment box. -/
theorem foldl_boxStep_covers (segs : List ThickSegment) (acc : Pt × Pt) (s : ThickSegment)
    (hs : s ∈ segs) :
    (segs.foldl boxStep acc).1.x ≤ s.edgesBoundingBox.tl.x ∧
    (segs.foldl boxStep acc).1.y ≤ s.edgesBoundingBox.tl.y ∧
    s.edgesBoundingBox.tl.x + s.edgesBoundingBox.size.w - 1 ≤ (segs.foldl boxStep acc).2.x ∧
    s.edgesBoundingBox.tl.y + s.edgesBoundingBox.size.h - 1 ≤ (segs.foldl boxStep acc).2.y := by
  induction segs generalizing acc with
  | nil => cases hs
  | cons s0 rest ih =>
    simp only [List.foldl_cons]
    rcases List.mem_cons.mp hs with rfl | hs
    · obtain ⟨h1, h2, h3, h4⟩ := foldl_boxStep_mono rest (boxStep acc s)
      obtain ⟨br, hbr, bx, by_, _, _⟩ := edgesBoundingBox_bottomRight s
      rw [boxStep_1x] at h1
      rw [boxStep_1y] at h2
      rw [boxStep_2x, hbr, Option.getD_some] at h3
      rw [boxStep_2y, hbr, Option.getD_some] at h4
      omega
    · exact ih (boxStep acc s0) hs

/-- **The fold of the segment boxes contains every segment box.** -/
theorem foldEdgeBoxes_boxIn (segs : List ThickSegment) (s : ThickSegment) (hs : s ∈ segs) :
    BoxIn (foldEdgeBoxes segs) s := by
  intro p hp
  rw [foldEdgeBoxes_eq, Rect.contains_withCorners]
  obtain ⟨h1, h2, h3, h4⟩ := foldl_boxStep_covers segs
    (⟨2147483647, 2147483647⟩, ⟨-2147483648, -2147483648⟩) s hs
  rw [Rect.contains_iff] at hp
  omega

/-! ### The corners of a segment and its box -/

theorem skeleton_box_start {U : Rect} {s : ThickSegment} (hb : BoxIn U s) (h : s.isSkeleton = true) :
    U.contains s.startJoin.secondEdgeStart.right = true :=
  hb _ (edgesBoundingBox_skeleton s h).1

theorem skeleton_box_stop {U : Rect} {s : ThickSegment} (hb : BoxIn U s) (h : s.isSkeleton = true) :
    U.contains s.endJoin.firstEdgeEnd.right = true :=
  hb _ (edgesBoundingBox_skeleton s h).2

theorem thick_box_corners {U : Rect} {s : ThickSegment} (hb : BoxIn U s) (h : s.isSkeleton = false) :
    U.contains s.startJoin.secondEdgeStart.right = true ∧
    U.contains s.endJoin.firstEdgeEnd.right = true ∧
    U.contains s.endJoin.firstEdgeEnd.left = true ∧
    U.contains s.startJoin.secondEdgeStart.left = true := by
  obtain ⟨h1, h2, h3, h4⟩ := edgesBoundingBox_thick s h
  exact ⟨hb _ h1, hb _ h2, hb _ h3, hb _ h4⟩

/-! ### Filler lines -/

/-- The side of the filler line of a join, if it has one. -/
def fillerSide (j : LineJoin) : Option LineSide :=
  match j.kind with
  | .bevel side | .degenerate side => some side
  | _ => none

theorem fillerLine_eq (j : LineJoin) :
    j.fillerLine = match fillerSide j with
      | some .left => some ⟨j.firstEdgeEnd.left, j.secondEdgeStart.left⟩
      | some .right => some ⟨j.firstEdgeEnd.right, j.secondEdgeStart.right⟩
      | none => none := by
  unfold LineJoin.fillerLine fillerSide
  cases j.kind with
  | miter => rfl
  | bevel side => cases side <;> rfl
  | degenerate side => cases side <;> rfl
  | colinear => rfl
  | start => rfl
  | stop => rfl

/-- The guard for two segments `s`, `s'` meeting at the join `s.end_join` (`= s'.start_join`):
either both or none of them are skeleton segments, or the join has no filler line on the LEFT side,
or the midpoint of that filler line lies in `U`. -/
def adjOK (U : Rect) (s s' : ThickSegment) : Bool :=
  (s.isSkeleton == s'.isSkeleton) ||
    match fillerSide s.endJoin with
    | some .left => U.contains (midpoint ⟨s.endJoin.firstEdgeEnd.left, s.endJoin.secondEdgeStart.left⟩)
    | _ => true

/-- **The midpoint of the filler line of the join between two adjacent segments whose boxes are in
`U` lies in `U`** (one of the two is not a skeleton segment; guard `adjOK`). -/
theorem filler_midpoint_covered {U : Rect} {s s' : ThickSegment} (hj : s.endJoin = s'.startJoin)
    (hb : BoxIn U s) (hb' : BoxIn U s') (hg : adjOK U s s' = true) (f : Line)
    (hf : s.endJoin.fillerLine = some f) (hsk : s.isSkeleton = false ∨ s'.isSkeleton = false) :
    U.contains (midpoint f) = true := by
  rw [fillerLine_eq] at hf
  unfold adjOK at hg
  cases hside : fillerSide s.endJoin with
  | none => rw [hside] at hf; cases hf
  | some side =>
    rw [hside] at hf hg
    cases h1 : s.isSkeleton with
    | false =>
      obtain ⟨_, c2, c3, _⟩ := thick_box_corners hb h1
      cases h2 : s'.isSkeleton with
      | false =>
        obtain ⟨d1, _, _, d4⟩ := thick_box_corners hb' h2
        rw [← hj] at d1 d4
        cases side with
        | left => cases hf; exact contains_midpoint ⟨c3, d4⟩
        | right => cases hf; exact contains_midpoint ⟨c2, d1⟩
      | true =>
        have d1 := skeleton_box_start hb' h2
        rw [← hj] at d1
        cases side with
        | left =>
          cases hf
          rw [h1, h2] at hg
          simpa using hg
        | right => cases hf; exact contains_midpoint ⟨c2, d1⟩
    | true =>
      have c2 := skeleton_box_stop hb h1
      have h2 : s'.isSkeleton = false := by
        rcases hsk with h | h
        · rw [h1] at h; cases h
        · exact h
      obtain ⟨d1, _, _, d4⟩ := thick_box_corners hb' h2
      rw [← hj] at d1 d4
      cases side with
      | left =>
        cases hf
        rw [h1, h2] at hg
        simpa using hg
      | right => cases hf; exact contains_midpoint ⟨c2, d1⟩

/-! ### The outline of one segment -/

/-- The cap lines of a join, as a list. -/
def capList (r : Line × Option Line) : List Line :=
  [r.1] ++ (match r.2 with | some l => [l] | none => [])

theorem outline_eq (s : ThickSegment) (h : s.isSkeleton = false) :
    s.outline = capList s.startJoin.startCapLines ++ capList s.endJoin.endCapLines ++
      [s.edges.1, s.edges.2] := by
  unfold ThickSegment.outline capList
  simp only [h, Bool.false_eq_true, ↓reduceIte, List.append_assoc]
  rfl

/-- The lines of a cap end in the two cap corners and (if the join has a filler line) the midpoint
of the filler line. -/
theorem cap_covered {U : Rect} (j : LineJoin) (c : EdgeCorners) (hl : U.contains c.left = true)
    (hr : U.contains c.right = true)
    (hm : ∀ f, j.fillerLine = some f → U.contains (midpoint f) = true) :
    ∀ l ∈ capList (j.cap c), Covered U l := by
  unfold LineJoin.cap capList
  cases hf : j.fillerLine with
  | none =>
    intro l hl'
    simp only [List.cons_append, List.nil_append, List.mem_cons, List.not_mem_nil, or_false] at hl'
    subst hl'
    exact ⟨hl, hr⟩
  | some f =>
    have hm' := hm f hf
    intro l hl'
    simp only [List.cons_append, List.nil_append, List.mem_cons, List.not_mem_nil, or_false] at hl'
    rcases hl' with rfl | rfl
    · exact ⟨hl, hm'⟩
    · exact ⟨hm', hr⟩

/-- **Every outline line of a segment ends in `U`**, when `U` contains the segment's box and the
midpoints of the filler lines of its two joins (the latter only for non-skeleton segments). -/
theorem outline_covered {U : Rect} (s : ThickSegment) (hb : BoxIn U s)
    (hA : s.isSkeleton = false → ∀ f, s.startJoin.fillerLine = some f → U.contains (midpoint f) = true)
    (hB : s.isSkeleton = false → ∀ f, s.endJoin.fillerLine = some f → U.contains (midpoint f) = true) :
    ∀ l ∈ s.outline, Covered U l := by
  cases h : s.isSkeleton with
  | true =>
    rw [outline_skeleton s h]
    intro l hl
    simp only [List.mem_cons, List.not_mem_nil, or_false] at hl
    subst hl
    exact ⟨skeleton_box_start hb h, skeleton_box_stop hb h⟩
  | false =>
    obtain ⟨c1, c2, c3, c4⟩ := thick_box_corners hb h
    rw [outline_eq s h]
    intro l hl
    simp only [List.mem_append] at hl
    rcases hl with (hl | hl) | hl
    · exact cap_covered s.startJoin s.startJoin.secondEdgeStart c4 c1 (hA h) l hl
    · exact cap_covered s.endJoin s.endJoin.firstEdgeEnd c3 c2 (hB h) l hl
    · simp only [List.mem_cons, List.not_mem_nil, or_false] at hl
      rcases hl with rfl | rfl
      · exact ⟨c1, c2⟩
      · exact ⟨c3, c4⟩

/-! ### Chains of segments -/

/-- Consecutive segments share their join. -/
def Linked : List ThickSegment → Prop
  | s :: s' :: rest => s.endJoin = s'.startJoin ∧ Linked (s' :: rest)
  | _ => True

/-- The guard `adjOK` for every pair of consecutive segments. -/
def chainOK (U : Rect) : List ThickSegment → Bool
  | s :: s' :: rest => adjOK U s s' && chainOK U (s' :: rest)
  | _ => true

/-- The midpoints of the filler lines of the start join of the first segment are in `U`. -/
def HeadOK (U : Rect) (segs : List ThickSegment) : Prop :=
  ∀ s, segs.head? = some s → s.isSkeleton = false →
    ∀ f, s.startJoin.fillerLine = some f → U.contains (midpoint f) = true

/-- The midpoints of the filler lines of the end join of the last segment are in `U`. -/
def LastOK (U : Rect) (segs : List ThickSegment) : Prop :=
  ∀ s, segs.getLast? = some s → s.isSkeleton = false →
    ∀ f, s.endJoin.fillerLine = some f → U.contains (midpoint f) = true

/-- **Every outline line of every segment of a linked chain ends in `U`.** -/
theorem chain_outline_covered (U : Rect) : ∀ (segs : List ThickSegment),
    Linked segs → chainOK U segs = true → (∀ s ∈ segs, BoxIn U s) → HeadOK U segs → LastOK U segs →
    ∀ s ∈ segs, ∀ l ∈ s.outline, Covered U l
  | [], _, _, _, _, _ => by intro s hs; cases hs
  | [s0], _, _, hb, hh, hl => by
    intro s hs
    simp only [List.mem_cons, List.not_mem_nil, or_false] at hs
    subst hs
    exact outline_covered s (hb s List.mem_cons_self) (hh s rfl) (hl s rfl)
  | s0 :: s1 :: rest, hlink, hok, hb, hh, hl => by
    obtain ⟨hj, hlink'⟩ := hlink
    have hok' : adjOK U s0 s1 = true ∧ chainOK U (s1 :: rest) = true := by
      simpa [chainOK] using hok
    have hb0 := hb s0 List.mem_cons_self
    have hb1 := hb s1 (List.mem_cons_of_mem _ List.mem_cons_self)
    intro s hs
    rcases List.mem_cons.mp hs with rfl | hs
    · exact outline_covered s hb0 (hh s rfl)
        (fun hsk f hf => filler_midpoint_covered hj hb0 hb1 hok'.1 f hf (Or.inl hsk))
    · refine chain_outline_covered U (s1 :: rest) hlink' hok'.2
        (fun t ht => hb t (List.mem_cons_of_mem _ ht)) ?_ ?_ s hs
      · intro t ht hsk f hf
        simp only [List.head?_cons, Option.some.injEq] at ht
        subst ht
        rw [← hj] at hf
        exact filler_midpoint_covered hj hb0 hb1 hok'.1 f hf (Or.inr hsk)
      · intro t ht
        exact hl t (by simpa [List.getLast?_cons_cons] using ht)

end Joins
end EG
