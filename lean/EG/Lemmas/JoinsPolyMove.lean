/-
  EG.Lemmas.JoinsPolyMove — a stroked polyline whose VERTICES are moved by `d`:
  the segment iterator yields the moved segments, the untranslated bounding box moves, the
  scanline iterators yield the moved scanlines, `draw_thick` fills the moved rectangles.
  Guards: `PolyNoSat` (no saturating cast in any join, before or after the move) and range
  conditions where the code uses `i32::MAX/MIN` sentinels or saturating row arithmetic.
-/
import EG.Lemmas.JoinsSegment
import EG.Model.ThickPolyline
set_option linter.unusedSimpArgs false
namespace EG
namespace Joins
open Thick (LineSide StrokeOffset)

/-- "No cast saturates in any join of the polyline, before or after the move by `d`." -/
def PolyNoSat (w : Nat) (d : Pt) : List Pt → Prop
  | a :: b :: c :: rest => JoinNoSat a b c w .none d ∧ PolyNoSat w d (b :: c :: rest)
  | _ => True

instance (w : Nat) (d : Pt) : (vs : List Pt) → Decidable (PolyNoSat w d vs)
  | [] => isTrue trivial
  | [_] => isTrue trivial
  | [_, _] => isTrue trivial
  | a :: b :: c :: rest =>
    have : Decidable (PolyNoSat w d (b :: c :: rest)) := instDecidablePolyNoSat w d (b :: c :: rest)
    by unfold PolyNoSat; exact inferInstance

/-- The window triple and the remaining slice, moved by `d`. -/
def shiftWin (r : (Pt × Pt × Pt) × List Pt) (d : Pt) : (Pt × Pt × Pt) × List Pt :=
  ((r.1.1 + d, r.1.2.1 + d, r.1.2.2 + d), r.2.map (· + d))

theorem windowsNext_map (vs : List Pt) (d : Pt) :
    windowsNext (vs.map (· + d)) = (windowsNext vs).map (shiftWin · d) := by
  rcases vs with _ | ⟨a, _ | ⟨b, _ | ⟨c, rest⟩⟩⟩ <;> rfl

theorem PolyNoSat_windowsNext {w : Nat} {d : Pt} {vs : List Pt} {t : Pt × Pt × Pt} {rest : List Pt}
    (h : windowsNext vs = some (t, rest)) (hns : PolyNoSat w d vs) :
    JoinNoSat t.1 t.2.1 t.2.2 w .none d ∧ PolyNoSat w d rest := by
  rcases vs with _ | ⟨a, _ | ⟨b, _ | ⟨c, r⟩⟩⟩
  · cases h
  · cases h
  · cases h
  · simp only [windowsNext, Option.some.injEq, Prod.mk.injEq] at h
    obtain ⟨rfl, rfl⟩ := h
    exact hns

/-- `ThickSegmentIter` moved by `d`. -/
def ThickSegmentIter.shift (it : ThickSegmentIter) (d : Pt) : ThickSegmentIter :=
  { windows := it.windows.map (· + d), startJoin := it.startJoin.translate d
    endJoin := it.endJoin.translate d, width := it.width, points := it.points.map (· + d)
    stop := it.stop }

theorem ThickSegmentIter.new_moved (vs : List Pt) (w : Nat) (d : Pt) (hn : 2 ≤ vs.length)
    (hns : PolyNoSat w d vs) :
    ThickSegmentIter.new (vs.map (· + d)) w = (ThickSegmentIter.new vs w).map (·.shift d) := by
  rcases vs with _ | ⟨a, _ | ⟨b, _ | ⟨c, rest⟩⟩⟩
  · simp at hn
  · simp at hn
  · show ThickSegmentIter.new [a + d, b + d] w = _
    unfold ThickSegmentIter.new
    simp only [windowsNext, start_translate, stop_translate]
    cases LineJoin.start a b w .none with
    | none => rfl
    | some j1 =>
      cases LineJoin.stop a b w .none with
      | none => rfl
      | some j2 => rfl
  · show ThickSegmentIter.new ((a + d) :: (b + d) :: (c + d) :: rest.map (· + d)) w = _
    unfold ThickSegmentIter.new
    simp only [windowsNext, start_translate, fromPoints_translate a b c w .none d hns.1]
    cases LineJoin.start a b w .none with
    | none => rfl
    | some j1 =>
      cases LineJoin.fromPoints a b c w .none with
      | none => rfl
      | some j2 => rfl

/-- One item of the segment iterator, moved by `d`. -/
def shiftSegItem (r : ThickSegment × ThickSegmentIter) (d : Pt) : ThickSegment × ThickSegmentIter :=
  (r.1.translate d, r.2.shift d)

theorem ThickSegmentIter.next_moved (it : ThickSegmentIter) (d : Pt)
    (hns : PolyNoSat it.width d it.windows) :
    (it.shift d).next = it.next.map (·.map (shiftSegItem · d)) := by
  unfold ThickSegmentIter.next
  have es : (it.shift d).stop = it.stop := rfl
  rw [es]
  by_cases hs : it.stop = true
  · simp only [hs, ↓reduceIte]; rfl
  · simp only [hs, Bool.false_eq_true, ↓reduceIte]
    have ew : (it.shift d).windows = it.windows.map (· + d) := rfl
    simp only [ew, windowsNext_map]
    cases hw : windowsNext it.windows with
    | some r =>
      obtain ⟨⟨a, b, c⟩, rest⟩ := r
      obtain ⟨hj, _⟩ := PolyNoSat_windowsNext hw hns
      simp only [Option.map_some, shiftWin]
      have ewd : (it.shift d).width = it.width := rfl
      rw [ewd, fromPoints_translate a b c it.width .none d hj]
      cases LineJoin.fromPoints a b c it.width .none with
      | none => rfl
      | some j => rfl
    | none =>
      simp only [Option.map_none]
      have ek : (it.shift d).endJoin.kind = it.endJoin.kind := rfl
      rw [ek]
      by_cases hk : (it.endJoin.kind != JoinKind.stop) = true
      · simp only [hk, ↓reduceIte]
        have ep : (it.shift d).points = it.points.map (· + d) := rfl
        simp only [ep, List.getElem?_map, List.length_map, List.getLast?_map]
        cases it.points[it.points.length - 2]? with
        | none => rfl
        | some p1 =>
          cases it.points.getLast? with
          | none => rfl
          | some p2 =>
            simp only [Option.map_some]
            have ewd : (it.shift d).width = it.width := rfl
            rw [ewd, stop_translate]
            cases LineJoin.stop p1 p2 it.width .none with
            | none => rfl
            | some j => rfl
      · simp only [hk, Bool.false_eq_true, ↓reduceIte]; rfl

theorem ThickSegmentIter.next_inv {it it' : ThickSegmentIter} {s : ThickSegment} {d : Pt}
    (h : it.next = some (some (s, it'))) (hns : PolyNoSat it.width d it.windows) :
    it'.width = it.width ∧ PolyNoSat it'.width d it'.windows := by
  unfold ThickSegmentIter.next at h
  by_cases hs : it.stop = true
  · simp only [hs, ↓reduceIte, Option.some.injEq, reduceCtorEq] at h
  · simp only [hs, Bool.false_eq_true, ↓reduceIte] at h
    cases hw : windowsNext it.windows with
    | some r =>
      obtain ⟨⟨a, b, c⟩, rest⟩ := r
      obtain ⟨_, hr⟩ := PolyNoSat_windowsNext hw hns
      rw [hw] at h
      simp only [] at h
      cases hj : LineJoin.fromPoints a b c it.width .none with
      | none => rw [hj] at h; cases h
      | some j =>
        rw [hj] at h
        simp only [Option.bind_eq_bind, Option.bind_some, pure, Option.some.injEq, Prod.mk.injEq] at h
        obtain ⟨_, rfl⟩ := h
        exact ⟨rfl, hr⟩
    | none =>
      rw [hw] at h
      simp only [] at h
      by_cases hk : (it.endJoin.kind != JoinKind.stop) = true
      · simp only [hk, ↓reduceIte] at h
        cases hp1 : it.points[it.points.length - 2]? with
        | none => rw [hp1] at h; simp only [Option.some.injEq, reduceCtorEq] at h
        | some p1 =>
          cases hp2 : it.points.getLast? with
          | none => rw [hp1, hp2] at h; simp only [Option.some.injEq, reduceCtorEq] at h
          | some p2 =>
            rw [hp1, hp2] at h
            simp only [] at h
            cases hj : LineJoin.stop p1 p2 it.width .none with
            | none => rw [hj] at h; cases h
            | some j =>
              rw [hj] at h
              simp only [Option.bind_eq_bind, Option.bind_some, pure, Option.some.injEq,
                Prod.mk.injEq] at h
              obtain ⟨_, rfl⟩ := h
              exact ⟨rfl, hns⟩
      · simp only [hk, Bool.false_eq_true, ↓reduceIte, Option.some.injEq, Prod.mk.injEq] at h
        obtain ⟨_, rfl⟩ := h
        exact ⟨rfl, hns⟩

theorem ThickSegmentIter.toListFuel_moved (fuel : Nat) (it : ThickSegmentIter) (d : Pt)
    (hns : PolyNoSat it.width d it.windows) :
    ThickSegmentIter.toListFuel fuel (it.shift d) =
      (ThickSegmentIter.toListFuel fuel it).map (·.map (·.translate d)) := by
  induction fuel generalizing it with
  | zero => rfl
  | succ fuel ih =>
    unfold ThickSegmentIter.toListFuel
    rw [ThickSegmentIter.next_moved it d hns]
    cases hn : it.next with
    | none => rfl
    | some r =>
      cases r with
      | none => rfl
      | some si =>
        obtain ⟨s, it'⟩ := si
        obtain ⟨_, hns'⟩ := ThickSegmentIter.next_inv hn hns
        simp only [Option.map_some, shiftSegItem, Option.bind_eq_bind, Option.bind_some, ih it' hns']
        cases ThickSegmentIter.toListFuel fuel it' with
        | none => rfl
        | some l => rfl

theorem ThickSegmentIter.new_inv {vs : List Pt} {w : Nat} {d : Pt} {it : ThickSegmentIter}
    (h : ThickSegmentIter.new vs w = some it) (hn : 2 ≤ vs.length) (hns : PolyNoSat w d vs) :
    PolyNoSat it.width d it.windows := by
  rcases vs with _ | ⟨a, _ | ⟨b, _ | ⟨c, rest⟩⟩⟩
  · simp at hn
  · simp at hn
  · unfold ThickSegmentIter.new at h
    simp only [windowsNext] at h
    cases h1 : LineJoin.start a b w .none with
    | none => rw [h1] at h; cases h
    | some j1 =>
      cases h2 : LineJoin.stop a b w .none with
      | none => rw [h1, h2] at h; cases h
      | some j2 =>
        rw [h1, h2] at h
        simp only [Option.bind_eq_bind, Option.bind_some, pure, Option.some.injEq] at h
        subst h
        trivial
  · unfold ThickSegmentIter.new at h
    simp only [windowsNext] at h
    cases h1 : LineJoin.start a b w .none with
    | none => rw [h1] at h; cases h
    | some j1 =>
      cases h2 : LineJoin.fromPoints a b c w .none with
      | none => rw [h1, h2] at h; cases h
      | some j2 =>
        rw [h1, h2] at h
        simp only [Option.bind_eq_bind, Option.bind_some, pure, Option.some.injEq] at h
        subst h
        exact hns.2

/-- **The segments of a polyline with moved vertices are the moved segments.** -/
theorem segments_moved (vs : List Pt) (w : Nat) (d : Pt) (hn : 2 ≤ vs.length)
    (hns : PolyNoSat w d vs) :
    ((ThickSegmentIter.new (vs.map (· + d)) w).bind ThickSegmentIter.toList) =
      ((ThickSegmentIter.new vs w).bind ThickSegmentIter.toList).map (·.map (·.translate d)) := by
  rw [ThickSegmentIter.new_moved vs w d hn hns]
  cases hi : ThickSegmentIter.new vs w with
  | none => rfl
  | some it =>
    simp only [Option.map_some, Option.bind_some]
    unfold ThickSegmentIter.toList
    have el : (it.shift d).points.length = it.points.length := by
      simp only [ThickSegmentIter.shift, List.length_map]
    rw [el]
    exact ThickSegmentIter.toListFuel_moved _ it d (ThickSegmentIter.new_inv hi hn hns)

/-! ### The fold of the segment boxes -/

/-- One step of the `fold` of `untranslated_bounding_box` / `styled_bounding_box`. -/
def boxStep (acc : Pt × Pt) (seg : ThickSegment) : Pt × Pt :=
  (acc.1.componentMin seg.edgesBoundingBox.tl,
   acc.2.componentMax (seg.edgesBoundingBox.bottomRight.getD seg.edgesBoundingBox.tl))

theorem foldEdgeBoxes_eq (segs : List ThickSegment) :
    foldEdgeBoxes segs =
      Rect.withCorners (segs.foldl boxStep (⟨2147483647, 2147483647⟩, ⟨-2147483648, -2147483648⟩)).1
        (segs.foldl boxStep (⟨2147483647, 2147483647⟩, ⟨-2147483648, -2147483648⟩)).2 := rfl

theorem boxStep_translate (acc : Pt × Pt) (seg : ThickSegment) (d : Pt) :
    boxStep (acc.1 + d, acc.2 + d) (seg.translate d) = ((boxStep acc seg).1 + d, (boxStep acc seg).2 + d) := by
  unfold boxStep
  rw [edgesBoundingBox_translate, Rect.bottomRight_translate]
  simp only [Rect.translate_tl, componentMin_add]
  cases seg.edgesBoundingBox.bottomRight with
  | none => simp only [Option.map_none, Option.getD_none, componentMax_add]
  | some br => simp only [Option.map_some, Option.getD_some, componentMax_add]

theorem foldl_boxStep_translate (segs : List ThickSegment) (acc : Pt × Pt) (d : Pt) :
    (segs.map (·.translate d)).foldl boxStep (acc.1 + d, acc.2 + d) =
      ((segs.foldl boxStep acc).1 + d, (segs.foldl boxStep acc).2 + d) := by
  induction segs generalizing acc with
  | nil => rfl
  | cons s rest ih =>
    simp only [List.map_cons, List.foldl_cons, boxStep_translate]
    exact ih (boxStep acc s)

/-- The `i32::MAX / i32::MIN` start values of the fold are absorbed by the first box, before and
after the move (true whenever the corners are `i32` values). -/
def SentinelOK (r : Rect) (d : Pt) : Prop :=
  let br := r.bottomRight.getD r.tl
  r.tl.x ≤ 2147483647 ∧ r.tl.y ≤ 2147483647 ∧ r.tl.x + d.x ≤ 2147483647 ∧ r.tl.y + d.y ≤ 2147483647 ∧
  -2147483648 ≤ br.x ∧ -2147483648 ≤ br.y ∧ -2147483648 ≤ br.x + d.x ∧ -2147483648 ≤ br.y + d.y

instance (r : Rect) (d : Pt) : Decidable (SentinelOK r d) := by
  unfold SentinelOK; exact inferInstance

theorem boxStep_init (seg : ThickSegment) (d : Pt) (h : SentinelOK seg.edgesBoundingBox d) :
    boxStep (⟨2147483647, 2147483647⟩, ⟨-2147483648, -2147483648⟩) (seg.translate d) =
      ((boxStep (⟨2147483647, 2147483647⟩, ⟨-2147483648, -2147483648⟩) seg).1 + d,
       (boxStep (⟨2147483647, 2147483647⟩, ⟨-2147483648, -2147483648⟩) seg).2 + d) := by
  unfold boxStep
  rw [edgesBoundingBox_translate, Rect.bottomRight_translate]
  unfold SentinelOK at h
  simp only [] at h
  obtain ⟨h1, h2, h3, h4, h5, h6, h7, h8⟩ := h
  cases hb : seg.edgesBoundingBox.bottomRight with
  | none =>
    rw [hb] at h5 h6 h7 h8
    simp only [Option.getD_none] at h5 h6 h7 h8
    simp only [Option.map_none, Option.getD_none, Rect.translate_tl, Prod.mk.injEq, Pt.ext_iff',
      Pt.componentMin, Pt.componentMax, Pt.add_x, Pt.add_y]
    refine ⟨⟨?_, ?_⟩, ?_, ?_⟩ <;> omega
  | some br =>
    rw [hb] at h5 h6 h7 h8
    simp only [Option.getD_some] at h5 h6 h7 h8
    simp only [Option.map_some, Option.getD_some, Rect.translate_tl, Prod.mk.injEq, Pt.ext_iff',
      Pt.componentMin, Pt.componentMax, Pt.add_x, Pt.add_y]
    refine ⟨⟨?_, ?_⟩, ?_, ?_⟩ <;> omega

/-- The fold of the boxes of the moved segments is the moved fold. -/
theorem foldEdgeBoxes_translate (s : ThickSegment) (rest : List ThickSegment) (d : Pt)
    (h : SentinelOK s.edgesBoundingBox d) :
    foldEdgeBoxes ((s :: rest).map (·.translate d)) = (foldEdgeBoxes (s :: rest)).translate d := by
  rw [foldEdgeBoxes_eq, foldEdgeBoxes_eq]
  simp only [List.map_cons, List.foldl_cons]
  rw [boxStep_init s d h, foldl_boxStep_translate, Rect.withCorners_translate]

/-! ### `untranslated_bounding_box` -/

/-- All segments of the stroked polyline (`none` = stuck). -/
def polySegments (vs : List Pt) (w : Nat) : Option (List ThickSegment) :=
  (ThickSegmentIter.new vs w).bind ThickSegmentIter.toList

theorem untranslatedBoundingBox_eq (pl : Polyline) (w : Nat) (h : w > 0 ∧ pl.vertices.length > 1) :
    untranslatedBoundingBox pl w = (polySegments pl.vertices w).map foldEdgeBoxes := by
  unfold untranslatedBoundingBox polySegments
  simp only [h, and_self, ↓reduceIte]
  cases ThickSegmentIter.new pl.vertices w with
  | none => rfl
  | some it =>
    simp only [Option.bind_eq_bind, Option.bind_some]
    cases it.toList with
    | none => rfl
    | some segs => rfl

/-- The first segment's box absorbs the sentinels of the fold (and there is a segment). -/
def BoxGuard (vs : List Pt) (w : Nat) (d : Pt) : Prop :=
  match polySegments vs w with
  | some (s :: _) => SentinelOK s.edgesBoundingBox d
  | some [] => False
  | none => True

instance (vs : List Pt) (w : Nat) (d : Pt) : Decidable (BoxGuard vs w d) := by
  unfold BoxGuard; split <;> exact inferInstance

/-- **The untranslated bounding box of a polyline with moved vertices is the moved box.** -/
theorem untranslatedBoundingBox_moved (vs : List Pt) (w : Nat) (d : Pt) (hw : 0 < w)
    (hn : 2 ≤ vs.length) (hns : PolyNoSat w d vs) (hg : BoxGuard vs w d) :
    untranslatedBoundingBox ⟨Pt.zero, vs.map (· + d)⟩ w =
      (untranslatedBoundingBox ⟨Pt.zero, vs⟩ w).map (·.translate d) := by
  rw [untranslatedBoundingBox_eq _ _ ⟨hw, by simp only [List.length_map]; omega⟩,
    untranslatedBoundingBox_eq _ _ ⟨hw, by show vs.length > 1; omega⟩]
  show (polySegments (vs.map (· + d)) w).map foldEdgeBoxes = _
  have hm : polySegments (vs.map (· + d)) w = (polySegments vs w).map (·.map (·.translate d)) :=
    segments_moved vs w d hn hns
  rw [hm]
  unfold BoxGuard at hg
  cases hp : polySegments vs w with
  | none => rfl
  | some segs =>
    rw [hp] at hg
    cases segs with
    | nil => exact absurd hg (by simp)
    | cons s rest =>
      simp only [Option.map_some, Option.some.injEq]
      exact foldEdgeBoxes_translate s rest d hg

end Joins
end EG
