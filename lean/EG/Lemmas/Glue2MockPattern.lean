/-
  EG.Lemmas.Glue2MockPattern — C20: the decision table of `from_pattern`'s four checks, and the
  framing of the `{:?}` text as a function of the printed rows.
-/
import EG.Lemmas.MockPatternText
namespace EG
namespace Mock

/-! ### `from_pattern`: which check fires -/

/-- `pattern.first().map_or(0, |row| row.len())` -/
def patWidth : List (List Char) → Nat
  | [] => 0
  | r :: _ => rowLen r

theorem convChar_none_iff (ct : CT) (c : Char) :
    convChar ct c = none ↔ c ≠ ' ' ∧ charToColor ct c = none := by
  unfold convChar
  by_cases hs : c = ' '
  · simp [hs]
  · cases hc : charToColor ct c <;> simp [hs]

theorem convRow_none_iff (ct : CT) : ∀ (r : List Char),
    convRow ct r = none ↔ ∃ c ∈ r, c ≠ ' ' ∧ charToColor ct c = none
  | [] => by simp [convRow]
  | c :: rest => by
    have ih := convRow_none_iff ct rest
    unfold convRow
    cases h1 : convChar ct c with
    | none =>
      simp only [List.mem_cons, true_iff]
      exact ⟨c, Or.inl rfl, (convChar_none_iff ct c).mp h1⟩
    | some v =>
      have hn : ¬ (c ≠ ' ' ∧ charToColor ct c = none) := by
        intro hc; rw [(convChar_none_iff ct c).mpr hc] at h1; cases h1
      cases h2 : convRow ct rest with
      | none =>
        simp only [true_iff]
        obtain ⟨c', hm, hc'⟩ := ih.mp h2
        exact ⟨c', List.mem_cons_of_mem _ hm, hc'⟩
      | some vs =>
        simp only [reduceCtorEq, false_iff]
        rintro ⟨c', hm, hc'⟩
        rcases List.mem_cons.mp hm with rfl | hm
        · exact hn hc'
        · have := ih.mpr ⟨c', hm, hc'⟩
          rw [h2] at this; cases this

/-- The conversion panics iff some character of some row is neither a space nor a character
`char_to_color` accepts. -/
theorem convRows_none_iff (ct : CT) : ∀ (pat : List (List Char)),
    convRows ct pat = none ↔ ∃ r ∈ pat, ∃ c ∈ r, c ≠ ' ' ∧ charToColor ct c = none
  | [] => by simp [convRows]
  | r :: rest => by
    have ih := convRows_none_iff ct rest
    unfold convRows
    cases h1 : convRow ct r with
    | none =>
      simp only [List.mem_cons, true_iff]
      exact ⟨r, Or.inl rfl, (convRow_none_iff ct r).mp h1⟩
    | some v =>
      have hn : ¬ (∃ c ∈ r, c ≠ ' ' ∧ charToColor ct c = none) := by
        intro hc; rw [(convRow_none_iff ct r).mpr hc] at h1; cases h1
      cases h2 : convRows ct rest with
      | none =>
        simp only [true_iff]
        obtain ⟨r', hm, hc'⟩ := ih.mp h2
        exact ⟨r', List.mem_cons_of_mem _ hm, hc'⟩
      | some vs =>
        simp only [reduceCtorEq, false_iff]
        rintro ⟨r', hm, hc'⟩
        rcases List.mem_cons.mp hm with rfl | hm
        · exact hn hc'
        · have := ih.mpr ⟨r', hm, hc'⟩
          rw [h2] at this; cases this

theorem fromPattern_unfold (ct : CT) (pattern : List (List Char)) :
    fromPattern ct pattern =
      if ¬ patWidth pattern ≤ 64 then .panicWidth
      else if ¬ pattern.length ≤ 64 then .panicHeight
      else if ¬ pattern.all (fun r => rowLen r == patWidth pattern) then .panicRow
      else match convRows ct pattern with
        | none => .panicChar
        | some rows => .ok ⟨cellsOfPattern rows, false, false⟩ := by
  cases pattern <;> rfl

theorem all_rows_iff (pattern : List (List Char)) (w : Nat) :
    pattern.all (fun r => rowLen r == w) = true ↔ ∀ r ∈ pattern, rowLen r = w := by
  simp [List.all_eq_true]

/-- **The decision table of `from_pattern`**: the four assertions in the order the code makes them —
width of the first row, number of rows, every row as wide as the first, every character convertible —
each outcome characterised by the inputs alone. -/
theorem fromPattern_decision (ct : CT) (pattern : List (List Char)) :
    (fromPattern ct pattern = .panicWidth ↔ 64 < patWidth pattern) ∧
    (fromPattern ct pattern = .panicHeight ↔ patWidth pattern ≤ 64 ∧ 64 < pattern.length) ∧
    (fromPattern ct pattern = .panicRow ↔ patWidth pattern ≤ 64 ∧ pattern.length ≤ 64 ∧
      ∃ r ∈ pattern, rowLen r ≠ patWidth pattern) ∧
    (fromPattern ct pattern = .panicChar ↔ patWidth pattern ≤ 64 ∧ pattern.length ≤ 64 ∧
      (∀ r ∈ pattern, rowLen r = patWidth pattern) ∧
      ∃ r ∈ pattern, ∃ c ∈ r, c ≠ ' ' ∧ charToColor ct c = none) ∧
    (∀ d, fromPattern ct pattern = .ok d ↔ patWidth pattern ≤ 64 ∧ pattern.length ≤ 64 ∧
      (∀ r ∈ pattern, rowLen r = patWidth pattern) ∧
      ∃ rows, convRows ct pattern = some rows ∧ d = ⟨cellsOfPattern rows, false, false⟩) := by
  rw [fromPattern_unfold]
  by_cases hw : patWidth pattern ≤ 64
  · rw [if_neg (fun h => h hw)]
    by_cases hh : pattern.length ≤ 64
    · rw [if_neg (fun h => h hh)]
      by_cases hr : pattern.all (fun r => rowLen r == patWidth pattern) = true
      · rw [if_neg (fun h => h hr)]
        have hr' := (all_rows_iff pattern _).mp hr
        have hnr : ¬ ∃ r ∈ pattern, rowLen r ≠ patWidth pattern := by
          rintro ⟨r, hm, hne⟩; exact hne (hr' r hm)
        cases hc : convRows ct pattern with
        | none =>
          have hx := (convRows_none_iff ct pattern).mp hc
          dsimp only
          refine ⟨⟨(fun h => by cases h), fun h => by omega⟩, ⟨(fun h => by cases h), fun h => by omega⟩,
            ⟨(fun h => by cases h), fun h => absurd h.2.2 hnr⟩,
            ⟨fun _ => ⟨hw, hh, hr', hx⟩, fun _ => rfl⟩, fun d => ⟨(fun h => by cases h), ?_⟩⟩
          rintro ⟨_, _, _, rows, h1, _⟩
          cases h1
        | some rows =>
          have hx : ¬ ∃ r ∈ pattern, ∃ c ∈ r, c ≠ ' ' ∧ charToColor ct c = none := by
            intro h; rw [(convRows_none_iff ct pattern).mpr h] at hc; cases hc
          dsimp only
          refine ⟨⟨(fun h => by cases h), fun h => by omega⟩, ⟨(fun h => by cases h), fun h => by omega⟩,
            ⟨(fun h => by cases h), fun h => absurd h.2.2 hnr⟩,
            ⟨(fun h => by cases h), fun h => absurd h.2.2.2 hx⟩, fun d => ⟨?_, ?_⟩⟩
          · intro h; cases h; exact ⟨hw, hh, hr', rows, rfl, rfl⟩
          · rintro ⟨_, _, _, rows', h1, rfl⟩; cases h1; rfl
      · rw [if_pos hr]
        have hr0 : ¬ ∀ r ∈ pattern, rowLen r = patWidth pattern := fun h => hr ((all_rows_iff pattern _).mpr h)
        have hex : ∃ r ∈ pattern, rowLen r ≠ patWidth pattern := by
          apply Classical.byContradiction
          intro hn
          apply hr0
          intro r hm
          apply Classical.byContradiction
          intro hne
          exact hn ⟨r, hm, hne⟩
        exact ⟨⟨(fun h => by cases h), fun h => by omega⟩, ⟨(fun h => by cases h), fun h => by omega⟩,
          ⟨fun _ => ⟨hw, hh, hex⟩, fun _ => rfl⟩,
          ⟨(fun h => by cases h), fun h => absurd h.2.2.1 hr0⟩,
          fun d => ⟨(fun h => by cases h), fun h => absurd h.2.2.1 hr0⟩⟩
    · rw [if_pos hh]
      exact ⟨⟨(fun h => by cases h), fun h => by omega⟩, ⟨fun _ => ⟨hw, by omega⟩, fun _ => rfl⟩,
        ⟨(fun h => by cases h), fun h => absurd h.2.1 hh⟩,
        ⟨(fun h => by cases h), fun h => absurd h.2.1 hh⟩,
        fun d => ⟨(fun h => by cases h), fun h => absurd h.2.1 hh⟩⟩
  · rw [if_pos hw]
    exact ⟨⟨fun _ => by omega, fun _ => rfl⟩, ⟨(fun h => by cases h), fun h => absurd h.1 hw⟩,
      ⟨(fun h => by cases h), fun h => absurd h.1 hw⟩,
      ⟨(fun h => by cases h), fun h => absurd h.1 hw⟩,
      fun d => ⟨(fun h => by cases h), fun h => absurd h.1 hw⟩⟩

/-! ### the `{:?}` text is the printed rows in a frame -/

/-- The complete `{:?}` text as a function of the printed rows alone: the header line, one line per
printed row, "(n empty rows skipped)" with `n = 64 - number of printed rows` iff `n > 0`, the closing
line. -/
def frameText (rows : List (List Char)) : String :=
  let body := String.join (rows.map (fun r => String.ofList r ++ "\n"))
  let n := 64 - rows.length
  let skipped := if n > 0 then "(" ++ toString n ++ " empty rows skipped)\n" else ""
  "MockDisplay[\n" ++ body ++ skipped ++ "]\n"

theorem debugRows_length (ct : CT) (d : MD) : (d.debugRows ct).length = 64 - d.emptyRows := by
  rw [debugRows_eq, List.length_map, List.length_take, rows_length]
  omega

theorem debugRows_row_length (ct : CT) (d : MD) : ∀ r ∈ d.debugRows ct, r.length = 64 := by
  intro r hr
  rw [debugRows_eq, List.mem_map] at hr
  obtain ⟨row, hrow, rfl⟩ := hr
  rw [List.length_map]
  exact rows_row_length d row (List.mem_of_mem_take hrow)

/-- **The `{:?}` text is the frame around the printed rows.** -/
theorem debugText_eq_frame (ct : CT) (d : MD) : d.debugText ct = frameText (d.debugRows ct) := by
  have hl := debugRows_length ct d
  have he := emptyRows_le d
  have hn : 64 - (d.debugRows ct).length = d.emptyRows := by omega
  unfold MD.debugText frameText
  simp only [hn]

end Mock
end EG
