/-
  EG.Lemmas.MockPattern — `ColorMapping` tables, `from_pattern` and the `Debug` rows of the
  `MockDisplay` model.
-/
import EG.Lemmas.MockArea
namespace EG
namespace Mock

/-! ### Character sets and colour sets of the twelve `ColorMapping` types (finite tables) -/

/-- The documented pattern characters of a colour type (module documentation of
src/mock_display/mod.rs), space excluded. -/
def charset : CT → List Char
  | .binary => ['.', '#']
  | .gray2 => ['0', '1', '2', '3']
  | .gray4 => ['0', '1', '2', '3', '4', '5', '6', '7', '8', '9', 'A', 'B', 'C', 'D', 'E', 'F']
  | .gray8 => ['0', '1', '2', '3', '4', '5', '6', '7', '8', '9', 'A', 'B', 'C', 'D', 'E', 'F']
  | _ => ['K', 'R', 'G', 'B', 'Y', 'M', 'C', 'W']

/-- The colours those characters stand for: the colour set of the type. -/
def palette (ct : CT) : List Color := (charset ct).filterMap (charToColor ct)

def allCT : List CT :=
  [.binary, .gray2, .gray4, .gray8, .rgb332, .rgb444, .rgb555, .bgr555, .rgb565, .bgr565, .rgb888, .bgr888]

theorem mem_allCT (ct : CT) : ct ∈ allCT := by cases ct <;> decide

/-- Every character of the set is accepted and printed back as itself. -/
theorem char_color_char : ∀ ct ∈ allCT, ∀ ch ∈ charset ct,
    (charToColor ct ch).map (colorToChar ct) = some ch := by decide +kernel

/-- Every colour of the set is printed as a one-byte character other than the space and read
back as itself. -/
theorem color_char_color : ∀ ct ∈ allCT, ∀ c ∈ palette ct,
    charToColor ct (colorToChar ct c) = some c ∧ colorToChar ct c ≠ ' ' ∧
      (colorToChar ct c).utf8Size = 1 ∧ c < 2 ^ ct.bits := by decide +kernel

/-- The colour sets are what the documentation says: all values of the types up to four bits, the
sixteen multiples of `0x11` for `Gray8`, eight colours for the RGB types. -/
theorem palette_small : palette .binary = [0, 1] ∧ palette .gray2 = [0, 1, 2, 3] ∧
    palette .gray4 = List.range 16 ∧ palette .gray8 = (List.range 16).map (· * 17) ∧
    palette .rgb565 = [0, 0xF800, 0x07E0, 0x001F, 0xFFE0, 0xF81F, 0x07FF, 0xFFFF] ∧
    palette .rgb888 = [0, 0xFF0000, 0x00FF00, 0x0000FF, 0xFFFF00, 0xFF00FF, 0x00FFFF, 0xFFFFFF] := by
  decide +kernel

/-! ### `chunks(64)` -/

theorem chunks64_length : ∀ (n : Nat) (l : List (Option Color)), (chunks64 l n).length = n
  | 0, _ => rfl
  | n + 1, l => by simp [chunks64, chunks64_length n]

theorem chunks64_flatten : ∀ (n : Nat) (l : List (Option Color)), l.length = 64 * n →
    (chunks64 l n).flatten = l
  | 0, l, h => by
    have : l = [] := List.eq_nil_of_length_eq_zero (by omega)
    subst this; rfl
  | n + 1, l, h => by
    unfold chunks64
    rw [List.flatten_cons, chunks64_flatten n (l.drop 64) (by rw [List.length_drop]; omega),
      List.take_append_drop]

theorem chunks64_row_length : ∀ (n : Nat) (l : List (Option Color)), l.length = 64 * n →
    ∀ r ∈ chunks64 l n, r.length = 64
  | 0, _, _, r, hr => by cases hr
  | n + 1, l, h, r, hr => by
    unfold chunks64 at hr
    rcases List.mem_cons.mp hr with rfl | hr'
    · rw [List.length_take]; omega
    · exact chunks64_row_length n (l.drop 64) (by rw [List.length_drop]; omega) r hr'

theorem rows_length (d : MD) : d.rows.length = 64 := chunks64_length _ _
theorem rows_flatten (d : MD) : d.rows.flatten = d.pixels.toList := chunks64_flatten 64 _ (by simp)
theorem rows_row_length (d : MD) : ∀ r ∈ d.rows, r.length = 64 := chunks64_row_length 64 _ (by simp)

/-! ### Trailing rows -/

theorem drop_append_len {α : Type} (A B : List α) : (A ++ B).drop ((A ++ B).length - B.length) = B := by
  have : (A ++ B).length - B.length = A.length := by simp
  rw [this, List.drop_left]

/-- `rchunks.take_while(P).count()`: that many trailing elements satisfy `P`. -/
theorem trailing_split {α : Type} (P : α → Bool) (L : List α) :
    (L.reverse.takeWhile P).length ≤ L.length ∧
    ∀ r ∈ L.drop (L.length - (L.reverse.takeWhile P).length), P r = true := by
  have hrev : L.reverse.takeWhile P ++ L.reverse.dropWhile P = L.reverse := List.takeWhile_append_dropWhile
  have hL : (L.reverse.dropWhile P).reverse ++ (L.reverse.takeWhile P).reverse = L := by
    have := congrArg List.reverse hrev
    rw [List.reverse_append, List.reverse_reverse] at this
    exact this
  have hlen : (L.reverse.dropWhile P).length + (L.reverse.takeWhile P).length = L.length := by
    have := congrArg List.length hL
    simpa using this
  refine ⟨by omega, ?_⟩
  intro r hr
  have hd := drop_append_len (L.reverse.dropWhile P).reverse (L.reverse.takeWhile P).reverse
  rw [hL, List.length_reverse] at hd
  rw [hd] at hr
  exact List.all_eq_true.mp List.all_takeWhile r (List.mem_reverse.mp hr)

theorem emptyRows_le (d : MD) : d.emptyRows ≤ 64 := by
  have := (trailing_split (fun row : List (Option Color) => row.all Option.isNone) d.rows).1
  rw [rows_length] at this; exact this

theorem emptyRows_tail (d : MD) : ∀ r ∈ d.rows.drop (64 - d.emptyRows), ∀ c ∈ r, c = none := by
  intro r hr c hc
  have := (trailing_split (fun row : List (Option Color) => row.all Option.isNone) d.rows).2 r
    (by rw [rows_length]; exact hr)
  simp only [List.all_eq_true] at this
  have := this c hc
  cases c with
  | none => rfl
  | some v => cases this

/-! ### `from_pattern` -/

/-- The character `Debug` prints for a cell. -/
def showCell (ct : CT) (c : Option Color) : Char :=
  match c with
  | none => ' '
  | some col => colorToChar ct col

theorem debugRows_eq (ct : CT) (d : MD) :
    d.debugRows ct = (d.rows.take (64 - d.emptyRows)).map (fun row => row.map (showCell ct)) := rfl

/-- A cell whose colour (if any) belongs to the colour set of the type. -/
def Good (ct : CT) (c : Option Color) : Prop := ∀ col, c = some col → col ∈ palette ct

theorem convChar_showCell (ct : CT) (c : Option Color) (h : Good ct c) :
    convChar ct (showCell ct c) = some c := by
  cases c with
  | none => rfl
  | some col =>
    obtain ⟨h1, h2, _, _⟩ := color_char_color ct (mem_allCT ct) col (h col rfl)
    unfold convChar showCell
    simp only [h2, ↓reduceIte, h1]

theorem utf8Size_showCell (ct : CT) (c : Option Color) (h : Good ct c) :
    (showCell ct c).utf8Size = 1 := by
  cases c with
  | none => show (' ' : Char).utf8Size = 1; decide
  | some col => exact (color_char_color ct (mem_allCT ct) col (h col rfl)).2.2.1

theorem convRow_show (ct : CT) : ∀ (row : List (Option Color)), (∀ c ∈ row, Good ct c) →
    convRow ct (row.map (showCell ct)) = some row
  | [], _ => rfl
  | c :: rest, h => by
    simp only [List.map_cons, convRow, convChar_showCell ct c (h c (by simp)),
      convRow_show ct rest (fun x hx => h x (by simp [hx]))]

theorem rowLen_show (ct : CT) : ∀ (row : List (Option Color)), (∀ c ∈ row, Good ct c) →
    rowLen (row.map (showCell ct)) = row.length
  | [], _ => rfl
  | c :: rest, h => by
    have ih := rowLen_show ct rest (fun x hx => h x (by simp [hx]))
    unfold rowLen at ih ⊢
    simp only [List.map_cons, List.sum_cons, List.length_cons, utf8Size_showCell ct c (h c (by simp)), ih]
    omega

theorem convRows_show (ct : CT) : ∀ (rows : List (List (Option Color))),
    (∀ r ∈ rows, ∀ c ∈ r, Good ct c) →
    convRows ct (rows.map (fun row => row.map (showCell ct))) = some rows
  | [], _ => rfl
  | r :: rest, h => by
    simp only [List.map_cons, convRows, convRow_show ct r (h r (by simp)),
      convRows_show ct rest (fun x hx => h x (by simp [hx]))]

/-- `from_pattern` on a well-formed pattern: rows of one width `w ≤ 64`, at most 64 rows, every
character convertible. -/
theorem fromPattern_ok (ct : CT) (pat : List (List Char)) (rows : List (List (Option Color)))
    (w : Nat) (hw : w ≤ 64) (h1 : ∀ r ∈ pat, rowLen r = w) (h2 : pat.length ≤ 64)
    (h3 : convRows ct pat = some rows) :
    fromPattern ct pat = .ok ⟨cellsOfPattern rows, false, false⟩ := by
  unfold fromPattern
  cases pat with
  | nil =>
    simp only [convRows] at h3
    cases h3
    simp [convRows]
  | cons r rest =>
    have hr : rowLen r = w := h1 r (by simp)
    have hall : (r :: rest).all (fun r' => rowLen r' == w) = true := by
      rw [List.all_eq_true]; intro x hx; simp [h1 x hx]
    simp only [hr, hw, not_true_eq_false, ↓reduceIte, h2, hall, h3]

theorem flatMap_padRow (L : List (List (Option Color))) (h : ∀ r ∈ L, r.length = 64) :
    L.flatMap padRow = L.flatten := by
  induction L with
  | nil => rfl
  | cons r rest ih =>
    have hr : padRow r = r := by
      unfold padRow
      exact List.take_left' (h r (by simp))
    rw [List.flatMap_cons, List.flatten_cons, hr, ih (fun x hx => h x (by simp [hx]))]

theorem take_pad (A Z : List (Option Color)) (hlen : A.length + Z.length = 4096)
    (hz : ∀ z ∈ Z, z = none) :
    (A ++ List.replicate 4096 none).take 4096 = A ++ Z := by
  have hZ : Z = List.replicate Z.length none := List.eq_replicate_iff.mpr ⟨rfl, hz⟩
  rw [List.take_append, List.take_of_length_le (by omega), List.take_replicate]
  congr 1
  rw [hZ]; simp; omega

/-- The cells `from_pattern` builds from the `Debug` rows are the cells of the display. -/
theorem cellsOfPattern_rows (d : MD) : cellsOfPattern (d.rows.take (64 - d.emptyRows)) = d.pixels := by
  apply Vector.toList_inj.mp
  have hto : (cellsOfPattern (d.rows.take (64 - d.emptyRows))).toList
      = patternColors (d.rows.take (64 - d.emptyRows)) := by
    unfold cellsOfPattern; simp
  rw [hto]
  unfold patternColors
  rw [flatMap_padRow _ (fun r hr => rows_row_length d r (List.mem_of_mem_take hr))]
  have hsplit : (d.rows.take (64 - d.emptyRows)).flatten ++ (d.rows.drop (64 - d.emptyRows)).flatten
      = d.pixels.toList := by
    rw [← List.flatten_append, List.take_append_drop, rows_flatten]
  rw [take_pad _ (d.rows.drop (64 - d.emptyRows)).flatten
    (by rw [← List.length_append, hsplit]; simp)
    (by
      intro z hz
      obtain ⟨r, hr, hzr⟩ := List.mem_flatten.mp hz
      exact emptyRows_tail d r hr z hzr)]
  exact hsplit

/-- **`from_pattern` of the `Debug` rows gives back the display** (its cells; a display made by
`from_pattern` has the default flags), when every colour on it belongs to the type's colour set. -/
theorem fromPattern_debugRows (ct : CT) (d : MD) (hg : ∀ c ∈ d.pixels.toList, Good ct c) :
    fromPattern ct (d.debugRows ct) = .ok ⟨d.pixels, false, false⟩ := by
  have hgr : ∀ r ∈ d.rows.take (64 - d.emptyRows), ∀ c ∈ r, Good ct c := by
    intro r hr c hc
    apply hg
    rw [← rows_flatten]
    exact List.mem_flatten.mpr ⟨r, List.mem_of_mem_take hr, hc⟩
  rw [debugRows_eq, fromPattern_ok ct _ (d.rows.take (64 - d.emptyRows)) 64 (by omega) ?_ ?_
    (convRows_show ct _ hgr), cellsOfPattern_rows]
  · intro r hr
    obtain ⟨row, hrow, rfl⟩ := List.mem_map.mp hr
    rw [rowLen_show ct row (hgr row hrow)]
    exact rows_row_length d row (List.mem_of_mem_take hrow)
  · rw [List.length_map, List.length_take, rows_length]; omega

/-- Cells of the pixel array are cells of the display. -/
theorem mem_pixels_toList (d : MD) (c : Option Color) (hc : c ∈ d.pixels.toList) :
    ∃ p, Inside p ∧ d.cell p = c := by
  obtain ⟨i, hi⟩ := List.mem_iff_getElem?.mp hc
  have hlt : i < 4096 := by
    obtain ⟨h, _⟩ := List.getElem?_eq_some_iff.mp hi
    simpa using h
  rw [pixels_toList_getElem? d hlt] at hi
  refine ⟨⟨((i % 64 : Nat) : Int), ((i / 64 : Nat) : Int)⟩, by unfold Inside; simp only; omega, ?_⟩
  unfold MD.cell idx
  simp only
  have e : (((i % 64 : Nat) : Int) + ((i / 64 : Nat) : Int) * 64).toNat = i := by omega
  rw [e]; simpa using hi

/-! ### Where `from_pattern` puts the characters -/

theorem padRow_length (r : List (Option Color)) : (padRow r).length = 64 := by
  unfold padRow; simp

theorem padRow_getElem? (r : List (Option Color)) {x : Nat} (hx : x < 64) :
    (padRow r)[x]? = some ((r[x]?).join) := by
  unfold padRow
  rw [List.getElem?_take_of_lt hx]
  by_cases h : x < r.length
  · rw [List.getElem?_append_left h, List.getElem?_eq_getElem h]; rfl
  · rw [List.getElem?_append_right (by omega), List.getElem?_replicate]
    have : r[x]? = none := List.getElem?_eq_none (by omega)
    rw [this, if_pos (by omega)]; rfl

theorem flatMap_padRow_length : ∀ (rows : List (List (Option Color))),
    (rows.flatMap padRow).length = 64 * rows.length
  | [] => rfl
  | r :: rest => by
    rw [List.flatMap_cons, List.length_append, padRow_length, flatMap_padRow_length rest, List.length_cons]
    omega

/-- Cell `(x, y)` of the colour stream `from_pattern` stores: character `x` of row `y`, `None`
beyond the pattern. -/
theorem patternColors_getElem? (rows : List (List (Option Color))) (hr : rows.length ≤ 64)
    {x y : Nat} (hx : x < 64) (hy : y < 64) :
    (patternColors rows)[x + y * 64]? = some (((rows[y]?).bind (fun r => r[x]?)).join) := by
  unfold patternColors
  rw [List.getElem?_take_of_lt (by omega)]
  have hlen := flatMap_padRow_length rows
  by_cases h : y < rows.length
  · rw [List.getElem?_append_left (by omega),
      getElem?_flatMap64 padRow rows (fun a _ => padRow_length a)]
    have e1 : (x + y * 64) / 64 = y := by omega
    have e2 : (x + y * 64) % 64 = x := by omega
    rw [e1, e2, List.getElem?_eq_getElem h]
    simp only [Option.bind_some]
    exact padRow_getElem? _ hx
  · rw [List.getElem?_append_right (by omega), List.getElem?_replicate]
    have : rows[y]? = none := List.getElem?_eq_none (by omega)
    rw [this, if_pos (by omega)]; rfl

theorem convRows_length (ct : CT) : ∀ (pat : List (List Char)) (rows : List (List (Option Color))),
    convRows ct pat = some rows → rows.length = pat.length
  | [], rows, h => by simp only [convRows] at h; cases h; rfl
  | r :: rest, rows, h => by
    simp only [convRows] at h
    cases h1 : convRow ct r with
    | none => rw [h1] at h; cases h
    | some v =>
      cases h2 : convRows ct rest with
      | none => rw [h1, h2] at h; cases h
      | some vs =>
        rw [h1, h2] at h; cases h
        simp [convRows_length ct rest vs h2]

theorem fromPattern_cells (ct : CT) (pat : List (List Char)) (rows : List (List (Option Color)))
    (w : Nat) (hw : w ≤ 64) (h1 : ∀ r ∈ pat, rowLen r = w) (h2 : pat.length ≤ 64)
    (h3 : convRows ct pat = some rows) :
    ∃ d, fromPattern ct pat = .ok d ∧ ∀ x y : Nat, x < 64 → y < 64 →
      d.getPixel ⟨(x : Int), (y : Int)⟩ = some (((rows[y]?).bind (fun r => r[x]?)).join) := by
  refine ⟨_, fromPattern_ok ct pat rows w hw h1 h2 h3, ?_⟩
  intro x y hx hy
  have hp : Inside ⟨(x : Int), (y : Int)⟩ := by unfold Inside; simp only; omega
  rw [getPixel_inside _ hp]
  congr 1
  unfold MD.cell
  have hi : idx ⟨(x : Int), (y : Int)⟩ = x + y * 64 := by unfold idx; simp only; omega
  rw [hi]
  have hl : x + y * 64 < 4096 := by omega
  have := pixels_toList_getElem? (⟨cellsOfPattern rows, false, false⟩ : MD) hl
  have hto : (cellsOfPattern rows).toList = patternColors rows := by unfold cellsOfPattern; simp
  simp only [hto] at this
  rw [patternColors_getElem? rows (by rw [convRows_length ct pat rows h3]; exact h2) hx hy] at this
  simpa using this.symm

end Mock
end EG
