/-
  EG.Lemmas.Ellipse — arithmetic of the ellipse hit test.
  `EllipseContains.contains` is `wb * X + wa * Y < threshold` with `X = x^2`, `Y = y^2` and weights
  `(1, 1)` in the equal-axes (circle) case, `(h^2, w^2)` otherwise. Symmetry, convexity,
  "nothing outside the box is hit", nestedness of concentric ellipses.
-/
import EG.Lemmas.Circle
import EG.Model.Ellipse
namespace EG

namespace EllipseContains

/-- weight of `y^2` -/
def wa (e : EllipseContains) : Nat := if e.a = e.b then 1 else e.a
/-- weight of `x^2` -/
def wb (e : EllipseContains) : Nat := if e.a = e.b then 1 else e.b

/-- The weighted squared distance compared with the threshold. -/
def wdist (e : EllipseContains) (p : Pt) : Int :=
  (e.wb : Int) * (p.x * p.x) + (e.wa : Int) * (p.y * p.y)

theorem wdist_nonneg (e : EllipseContains) (p : Pt) : 0 ≤ e.wdist p := by
  unfold wdist
  have h1 := mul_self_nonneg p.x
  have h2 := mul_self_nonneg p.y
  have h3 : (0 : Int) ≤ (e.wb : Int) := Int.natCast_nonneg _
  have h4 : (0 : Int) ≤ (e.wa : Int) := Int.natCast_nonneg _
  have := Int.mul_nonneg h3 h1
  have := Int.mul_nonneg h4 h2
  omega

theorem contains_iff {e : EllipseContains} {p : Pt} :
    e.contains p = true ↔ e.wdist p < (e.threshold : Int) := by
  unfold contains wdist wa wb
  have hx : (p.x ^ 2) = p.x * p.x := by rw [Int.pow_succ, Int.pow_succ, Int.pow_zero, Int.one_mul]
  have hy : (p.y ^ 2) = p.y * p.y := by rw [Int.pow_succ, Int.pow_succ, Int.pow_zero, Int.one_mul]
  have h1 := mul_self_nonneg p.x
  have h2 := mul_self_nonneg p.y
  dsimp only
  rw [hx, hy]
  by_cases hab : e.a = e.b
  · simp only [hab, ↓reduceIte, decide_eq_true_eq]
    omega
  · simp only [hab, ↓reduceIte, decide_eq_true_eq]
    have e1 : ((e.b * (p.x * p.x).toNat + e.a * (p.y * p.y).toNat : Nat) : Int) =
        (e.b : Int) * (p.x * p.x) + (e.a : Int) * (p.y * p.y) := by
      push_cast
      rw [Int.toNat_of_nonneg h1, Int.toNat_of_nonneg h2]
    omega

theorem new_a (s : Sz) : (new s).a = s.w * s.w := by
  unfold new; simp only [Nat.pow_succ, Nat.pow_zero, Nat.one_mul]
theorem new_b (s : Sz) : (new s).b = s.h * s.h := by
  unfold new; simp only [Nat.pow_succ, Nat.pow_zero, Nat.one_mul]

theorem mul_self_inj' {a b : Nat} (h : a * a = b * b) : a = b := by
  by_contra hne
  rcases Nat.lt_or_gt_of_ne hne with hlt | hlt
  · have := Nat.mul_self_lt_mul_self hlt; omega
  · have := Nat.mul_self_lt_mul_self hlt; omega

theorem new_eq_iff (s : Sz) : (new s).a = (new s).b ↔ s.w = s.h := by
  rw [new_a, new_b]
  constructor
  · exact mul_self_inj'
  · intro h; rw [h]

/-- Equal axes: weights 1, 1 and the circle threshold. -/
theorem new_circle {s : Sz} (h : s.w = s.h) :
    (new s).wa = 1 ∧ (new s).wb = 1 ∧ (new s).threshold = diameterToThreshold s.w := by
  have := (new_eq_iff s).mpr h
  unfold wa wb
  simp only [this, ↓reduceIte, true_and]
  unfold new; simp [h]

/-- Unequal axes: weights `w^2`, `h^2`, threshold `h^2 w^2`. -/
theorem new_ellipse {s : Sz} (h : s.w ≠ s.h) :
    (new s).wa = s.w * s.w ∧ (new s).wb = s.h * s.h ∧ (new s).threshold = s.h * s.h * (s.w * s.w) := by
  have : ¬ (new s).a = (new s).b := fun hc => h ((new_eq_iff s).mp hc)
  unfold wa wb
  simp only [this, ↓reduceIte]
  refine ⟨new_a s, new_b s, ?_⟩
  unfold new; simp only [h, ↓reduceIte, Nat.pow_succ, Nat.pow_zero, Nat.one_mul]

/-- In every case the test implies the ideal-ellipse inequality `h^2 X + w^2 Y < w^2 h^2`. -/
theorem ideal_of_contains {s : Sz} {p : Pt} (h : (new s).contains p = true) :
    ((s.h * s.h : Nat) : Int) * (p.x * p.x) + ((s.w * s.w : Nat) : Int) * (p.y * p.y) <
      ((s.h * s.h * (s.w * s.w) : Nat) : Int) := by
  rw [contains_iff] at h
  unfold wdist at h
  by_cases hs : s.w = s.h
  · obtain ⟨h1, h2, h3⟩ := new_circle hs
    rw [h1, h2, h3] at h
    have ht := threshold_le_sq s.w
    have ht' : ((diameterToThreshold s.w : Nat) : Int) ≤ ((s.w * s.w : Nat) : Int) := by exact_mod_cast ht
    rw [← hs]
    have hx := mul_self_nonneg p.x
    have hy := mul_self_nonneg p.y
    push_cast at h ht' ⊢
    have hw : (0 : Int) ≤ (s.w : Int) * (s.w : Int) := mul_self_nonneg _
    nlinarith [mul_le_mul_of_nonneg_left (by omega : p.x * p.x + p.y * p.y + 1 ≤ (s.w : Int) * s.w) hw]
  · obtain ⟨h1, h2, h3⟩ := new_ellipse hs
    rw [h1, h2, h3] at h
    exact h

end EllipseContains

/-! ### widening an ellipse keeps the points -/

theorem ellipse_widen_a {a a' b X Y : Int} (ha : 0 ≤ a) (hX : 0 ≤ X) (hb : 0 ≤ b)
    (h : b * X + a * Y < a * b) (haa : a ≤ a') : b * X + a' * Y < a' * b := by
  have hbX : 0 ≤ b * X := Int.mul_nonneg hb hX
  have hY : Y < b := by
    by_contra hc
    have : b ≤ Y := by omega
    have := mul_le_mul_of_nonneg_left this ha
    omega
  have := mul_le_mul_of_nonneg_right haa (by omega : (0 : Int) ≤ b - Y)
  nlinarith

/-- Concentric ideal ellipses: a smaller one (both half-axes) lies inside a larger one. -/
theorem ellipse_nested {a a' b b' X Y : Int} (ha : 0 ≤ a) (hb : 0 ≤ b) (hX : 0 ≤ X) (hY : 0 ≤ Y)
    (h : b * X + a * Y < a * b) (haa : a ≤ a') (hbb : b ≤ b') : b' * X + a' * Y < a' * b' := by
  have h1 := ellipse_widen_a ha hX hb h haa
  have h2 : a' * Y + b * X < b * a' := by rw [Int.mul_comm b a']; omega
  have h3 := ellipse_widen_a (a := b) (a' := b') (b := a') (X := Y) (Y := X) hb hY (by omega) h2 hbb
  rw [Int.mul_comm b' a'] at h3
  omega

namespace Ellipse

theorem center2x_x (e : Ellipse) : e.center2x.x = e.tl.x * 2 + ((e.size.w - 1 : Nat) : Int) := rfl
theorem center2x_y (e : Ellipse) : e.center2x.y = e.tl.y * 2 + ((e.size.h - 1 : Nat) : Int) := rfl

theorem hit_iff {c2 : Pt} {ec : EllipseContains} {x y : Int} :
    hit c2 ec y x = true ↔ ec.wdist ⟨x * 2 - c2.x, y * 2 - c2.y⟩ < (ec.threshold : Int) := by
  unfold hit; rw [EllipseContains.contains_iff]

/-- The `find` closure of the scanline iterator is `contains`. -/
theorem contains_eq_hit (e : Ellipse) (x y : Int) :
    e.contains ⟨x, y⟩ = hit e.center2x (EllipseContains.new e.size) y x := rfl

theorem contains_iff {e : Ellipse} {p : Pt} :
    e.contains p = true ↔ (EllipseContains.new e.size).wdist
      ⟨p.x * 2 - e.center2x.x, p.y * 2 - e.center2x.y⟩ < ((EllipseContains.new e.size).threshold : Int) := by
  cases p with
  | mk x y => rw [contains_eq_hit, hit_iff]

/-! ### symmetry and convexity of a row / a column -/

theorem hit_symConvex_row {c2 : Pt} (ec : EllipseContains) (y : Int) {a b : Int} (hc : c2.x = a + b - 1) :
    SymConvex (hit c2 ec y) a b := by
  have hwb : (0 : Int) ≤ (ec.wb : Int) := Int.natCast_nonneg _
  constructor
  · intro x
    rw [Bool.eq_iff_iff, hit_iff, hit_iff]
    unfold EllipseContains.wdist
    simp only
    have : ((a + b - 1 - x) * 2 - c2.x) * ((a + b - 1 - x) * 2 - c2.x) =
        (x * 2 - c2.x) * (x * 2 - c2.x) := by
      rw [← Int.neg_mul_neg]; congr 1 <;> omega
    rw [this]
  · intro x z hx h1 h2
    rw [hit_iff] at hx ⊢
    unfold EllipseContains.wdist at hx ⊢
    simp only at hx ⊢
    have := mul_self_le_of_abs_le (s := z * 2 - c2.x) (t := c2.x - x * 2) (by omega) (by omega)
    have e : (c2.x - x * 2) * (c2.x - x * 2) = (x * 2 - c2.x) * (x * 2 - c2.x) := by
      rw [← Int.neg_mul_neg]; congr 1 <;> omega
    rw [e] at this
    have := mul_le_mul_of_nonneg_left this hwb
    omega

theorem hit_symConvex_col {c2 : Pt} (ec : EllipseContains) (x : Int) {a b : Int} (hc : c2.y = a + b - 1) :
    SymConvex (fun y => hit c2 ec y x) a b := by
  have hwa : (0 : Int) ≤ (ec.wa : Int) := Int.natCast_nonneg _
  constructor
  · intro y
    rw [Bool.eq_iff_iff, hit_iff, hit_iff]
    unfold EllipseContains.wdist
    simp only
    have : ((a + b - 1 - y) * 2 - c2.y) * ((a + b - 1 - y) * 2 - c2.y) =
        (y * 2 - c2.y) * (y * 2 - c2.y) := by
      rw [← Int.neg_mul_neg]; congr 1 <;> omega
    rw [this]
  · intro y z hy h1 h2
    rw [hit_iff] at hy ⊢
    unfold EllipseContains.wdist at hy ⊢
    simp only at hy ⊢
    have := mul_self_le_of_abs_le (s := z * 2 - c2.y) (t := c2.y - y * 2) (by omega) (by omega)
    have e : (c2.y - y * 2) * (c2.y - y * 2) = (y * 2 - c2.y) * (y * 2 - c2.y) := by
      rw [← Int.neg_mul_neg]; congr 1 <;> omega
    rw [e] at this
    have := mul_le_mul_of_nonneg_left this hwa
    omega

theorem contains_mirror_x (e : Ellipse) (x y : Int) :
    e.contains ⟨e.center2x.x - x, y⟩ = e.contains ⟨x, y⟩ := by
  rw [Bool.eq_iff_iff, contains_iff, contains_iff]
  unfold EllipseContains.wdist
  simp only
  have : ((e.center2x.x - x) * 2 - e.center2x.x) * ((e.center2x.x - x) * 2 - e.center2x.x) =
      (x * 2 - e.center2x.x) * (x * 2 - e.center2x.x) := by
    rw [← Int.neg_mul_neg]; congr 1 <;> omega
  rw [this]

theorem contains_mirror_y (e : Ellipse) (x y : Int) :
    e.contains ⟨x, e.center2x.y - y⟩ = e.contains ⟨x, y⟩ := by
  rw [Bool.eq_iff_iff, contains_iff, contains_iff]
  unfold EllipseContains.wdist
  simp only
  have : ((e.center2x.y - y) * 2 - e.center2x.y) * ((e.center2x.y - y) * 2 - e.center2x.y) =
      (y * 2 - e.center2x.y) * (y * 2 - e.center2x.y) := by
    rw [← Int.neg_mul_neg]; congr 1 <;> omega
  rw [this]

theorem contains_convex_row {e : Ellipse} {y x1 x x2 : Int} (h1 : e.contains ⟨x1, y⟩ = true)
    (h2 : e.contains ⟨x2, y⟩ = true) (hx1 : x1 ≤ x) (hx2 : x ≤ x2) : e.contains ⟨x, y⟩ = true := by
  rw [contains_iff] at h1 h2 ⊢
  unfold EllipseContains.wdist at h1 h2 ⊢
  simp only at h1 h2 ⊢
  have hwb : (0 : Int) ≤ ((EllipseContains.new e.size).wb : Int) := Int.natCast_nonneg _
  rcases mul_self_le_max (s1 := x1 * 2 - e.center2x.x) (s := x * 2 - e.center2x.x)
    (s2 := x2 * 2 - e.center2x.x) (by omega) (by omega) with h | h <;>
  · have := mul_le_mul_of_nonneg_left h hwb
    omega

theorem contains_convex_col {e : Ellipse} {x y1 y y2 : Int} (h1 : e.contains ⟨x, y1⟩ = true)
    (h2 : e.contains ⟨x, y2⟩ = true) (hy1 : y1 ≤ y) (hy2 : y ≤ y2) : e.contains ⟨x, y⟩ = true := by
  rw [contains_iff] at h1 h2 ⊢
  unfold EllipseContains.wdist at h1 h2 ⊢
  simp only at h1 h2 ⊢
  have hwa : (0 : Int) ≤ ((EllipseContains.new e.size).wa : Int) := Int.natCast_nonneg _
  rcases mul_self_le_max (s1 := y1 * 2 - e.center2x.y) (s := y * 2 - e.center2x.y)
    (s2 := y2 * 2 - e.center2x.y) (by omega) (by omega) with h | h <;>
  · have := mul_le_mul_of_nonneg_left h hwa
    omega

/-! ### nothing outside the box is hit -/

/-- From the ideal inequality: `|x| < w` and `|y| < h`. -/
theorem ideal_bounds {w h : Nat} {x y : Int}
    (hi : ((h * h : Nat) : Int) * (x * x) + ((w * w : Nat) : Int) * (y * y) < ((h * h * (w * w) : Nat) : Int)) :
    -(w : Int) < x ∧ x < w ∧ -(h : Int) < y ∧ y < h := by
  push_cast at hi
  have hx := mul_self_nonneg x
  have hy := mul_self_nonneg y
  have hw : (0 : Int) ≤ (w : Int) * w := mul_self_nonneg _
  have hh : (0 : Int) ≤ (h : Int) * h := mul_self_nonneg _
  have h1 : x * x < (w : Int) * w := by
    by_contra hc
    have := mul_le_mul_of_nonneg_left (by omega : (w : Int) * w ≤ x * x) hh
    have := Int.mul_nonneg hw hy
    omega
  have h2 : y * y < (h : Int) * h := by
    by_contra hc
    have := mul_le_mul_of_nonneg_left (by omega : (h : Int) * h ≤ y * y) hw
    have := Int.mul_nonneg hh hx
    rw [Int.mul_comm ((h : Int) * h) ((w : Int) * w)] at hi
    omega
  have a1 := abs_lt_of_mul_self_lt (s := x) (d := (w : Int)) (by omega) h1
  have a2 := abs_lt_of_mul_self_lt (s := y) (d := (h : Int)) (by omega) h2
  omega

/-- `contains` is false outside the bounding box (as inequalities). -/
theorem contains_imp_box {e : Ellipse} {p : Pt} (h : e.contains p = true) :
    e.tl.x ≤ p.x ∧ p.x < e.tl.x + e.size.w ∧ e.tl.y ≤ p.y ∧ p.y < e.tl.y + e.size.h := by
  have hi := EllipseContains.ideal_of_contains (s := e.size)
    (p := ⟨p.x * 2 - e.center2x.x, p.y * 2 - e.center2x.y⟩) h
  have hb := ideal_bounds hi
  simp only at hb
  rw [center2x_x, center2x_y] at hb
  have hw : 1 ≤ e.size.w := by
    by_contra hc
    have : e.size.w = 0 := by omega
    rw [this] at hb; omega
  have hh : 1 ≤ e.size.h := by
    by_contra hc
    have : e.size.h = 0 := by omega
    rw [this] at hb; omega
  omega

theorem contains_imp_bbox {e : Ellipse} {p : Pt} (h : e.contains p = true) :
    e.boundingBox.contains p = true := by
  rw [Rect.contains_iff]
  exact contains_imp_box h

theorem contains_false_of_zero {e : Ellipse} (h : e.size.w = 0 ∨ e.size.h = 0) (p : Pt) :
    e.contains p = false := by
  cases hc : e.contains p with
  | false => rfl
  | true => have := contains_imp_box hc; omega

end Ellipse
end EG
