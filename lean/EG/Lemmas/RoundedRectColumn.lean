/-
  EG.Lemmas.RoundedRectColumn — every column of a rounded rectangle is one contiguous run:
  the corner tests are monotone in `|y|` as well, the top corners accept a set of rows that is closed
  towards the bottom edge of their box, the bottom corners towards the top edge.
-/
import EG.Lemmas.RoundedRectShape
namespace EG

/-- The ellipse test is monotone in `x^2` and `y^2`. -/
theorem EllipseContains.contains_mono2 (e : EllipseContains) {p q : Pt} (hx : q.x ^ 2 ≤ p.x ^ 2)
    (hy : q.y ^ 2 ≤ p.y ^ 2) (h : e.contains p = true) : e.contains q = true := by
  unfold EllipseContains.contains at h ⊢
  have hx' : (q.x ^ 2).toNat ≤ (p.x ^ 2).toNat := Int.toNat_le_toNat hx
  have hy' : (q.y ^ 2).toNat ≤ (p.y ^ 2).toNat := Int.toNat_le_toNat hy
  by_cases hab : e.a = e.b
  · simp only [hab, ↓reduceIte, decide_eq_true_eq] at h ⊢
    omega
  · simp only [hab, ↓reduceIte, decide_eq_true_eq] at h ⊢
    have h1 := Nat.mul_le_mul_left e.b hx'
    have h2 := Nat.mul_le_mul_left e.a hy'
    omega

namespace EllipseQuadrant

def rowsStart (q : EllipseQuadrant) : Int := q.bbox.tl.y
def rowsEnd (q : EllipseQuadrant) : Int := q.bbox.rowsEnd

/-- accepted points of a column are closed towards the bottom end of the box -/
def TopMono (q : EllipseQuadrant) : Prop :=
  ∀ x y y', q.rowsStart ≤ y → y ≤ y' → y' < q.rowsEnd →
    q.contains ⟨x, y⟩ = true → q.contains ⟨x, y'⟩ = true

/-- accepted points of a column are closed towards the top end of the box -/
def BottomMono (q : EllipseQuadrant) : Prop :=
  ∀ x y y', q.rowsStart ≤ y' → y' ≤ y → y < q.rowsEnd →
    q.contains ⟨x, y⟩ = true → q.contains ⟨x, y'⟩ = true

theorem new_rowsStart (tl : Pt) (r : Sz) (k : Quadrant) : (new tl r k).rowsStart = tl.y := rfl

theorem new_rowsEnd (tl : Pt) (r : Sz) (k : Quadrant) (h : (⟨tl, r⟩ : Rect).InRange) :
    (new tl r k).rowsEnd = tl.y + r.h := by
  unfold rowsEnd; rw [new_bbox, Rect.rowsEnd_eq h]

theorem new_center_y_top (tl : Pt) (r : Sz) (k : Quadrant) (hk : k = .topLeft ∨ k = .topRight)
    (hr : 1 ≤ r.h) : (new tl r k).center2x.y = tl.y * 2 + 2 * r.h - 1 := by
  rcases hk with rfl | rfl <;> simp only [new, ellipseCenter2x] <;> omega

theorem new_center_y_bottom (tl : Pt) (r : Sz) (k : Quadrant)
    (hk : k = .bottomLeft ∨ k = .bottomRight) (hr : 1 ≤ r.h) :
    (new tl r k).center2x.y = tl.y * 2 - 1 := by
  rcases hk with rfl | rfl <;> simp only [new, ellipseCenter2x] <;> omega

theorem new_topMono (tl : Pt) (r : Sz) (k : Quadrant) (hk : k = .topLeft ∨ k = .topRight)
    (h : (⟨tl, r⟩ : Rect).InRange) : (new tl r k).TopMono := by
  intro x y y' h1 h2 h3 hc
  rw [new_rowsStart] at h1
  rw [new_rowsEnd tl r k h] at h3
  have hr : 1 ≤ r.h := by omega
  unfold contains at hc ⊢
  apply EllipseContains.contains_mono2 _ ?_ ?_ hc
  · exact Int.le_refl _
  · simp only [new_center_y_top tl r k hk hr]
    exact int_sq_le_of_nonpos (by omega) (by omega)

theorem new_bottomMono (tl : Pt) (r : Sz) (k : Quadrant) (hk : k = .bottomLeft ∨ k = .bottomRight)
    (h : (⟨tl, r⟩ : Rect).InRange) : (new tl r k).BottomMono := by
  intro x y y' h1 h2 h3 hc
  rw [new_rowsStart] at h1
  rw [new_rowsEnd tl r k h] at h3
  have hr : 1 ≤ r.h := by omega
  unfold contains at hc ⊢
  apply EllipseContains.contains_mono2 _ ?_ ?_ hc
  · exact Int.le_refl _
  · simp only [new_center_y_bottom tl r k hk hr]
    exact int_sq_le_of_nonneg (by omega) (by omega)

end EllipseQuadrant

namespace RRContains

theorem leftCorner_top {c : RRContains} {y : Int} (h : y < c.slStart) :
    c.leftCorner y = some c.topLeft := by unfold leftCorner; rw [if_pos h]
theorem leftCorner_bottom {c : RRContains} {y : Int} (h1 : ¬ y < c.slStart) (h2 : y ≥ c.slEnd) :
    c.leftCorner y = some c.bottomLeft := by unfold leftCorner; rw [if_neg h1, if_pos h2]
theorem leftCorner_none {c : RRContains} {y : Int} (h1 : ¬ y < c.slStart) (h2 : ¬ y ≥ c.slEnd) :
    c.leftCorner y = none := by unfold leftCorner; rw [if_neg h1, if_neg h2]
theorem rightCorner_top {c : RRContains} {y : Int} (h : y < c.srStart) :
    c.rightCorner y = some c.topRight := by unfold rightCorner; rw [if_pos h]
theorem rightCorner_bottom {c : RRContains} {y : Int} (h1 : ¬ y < c.srStart) (h2 : y ≥ c.srEnd) :
    c.rightCorner y = some c.bottomRight := by unfold rightCorner; rw [if_neg h1, if_pos h2]
theorem rightCorner_none {c : RRContains} {y : Int} (h1 : ¬ y < c.srStart) (h2 : ¬ y ≥ c.srEnd) :
    c.rightCorner y = none := by unfold rightCorner; rw [if_neg h1, if_neg h2]

/-- Vertical geometry: the top corner boxes span the rows from the first row to the start of the
straight rows of their side, the bottom corner boxes from the end of the straight rows to the last
row; the corner tests are monotone towards the inner edges. -/
structure VGeo (c : RRContains) : Prop where
  tl : c.topLeft.rowsStart = c.rowsStart ∧ c.topLeft.rowsEnd = c.slStart ∧ c.topLeft.TopMono
  tr : c.topRight.rowsStart = c.rowsStart ∧ c.topRight.rowsEnd = c.srStart ∧ c.topRight.TopMono
  bl : c.bottomLeft.rowsStart = c.slEnd ∧ c.bottomLeft.rowsEnd = c.rowsEnd ∧ c.bottomLeft.BottomMono
  br : c.bottomRight.rowsStart = c.srEnd ∧ c.bottomRight.rowsEnd = c.rowsEnd ∧ c.bottomRight.BottomMono

/-- Every column is one contiguous run. -/
theorem column_contiguous {c : RRContains} (hv : c.VGeo) (x y1 y2 y : Int)
    (h1 : c.contains ⟨x, y1⟩ = true) (h2 : c.contains ⟨x, y2⟩ = true) (hy : y1 ≤ y ∧ y ≤ y2) :
    c.contains ⟨x, y⟩ = true := by
  rw [contains_iff] at h1 h2 ⊢
  obtain ⟨r1, c1, l1, rr1⟩ := h1
  obtain ⟨r2, _, l2, rr2⟩ := h2
  dsimp only at r1 c1 l1 rr1 r2 l2 rr2 ⊢
  refine ⟨by omega, c1, ?_, ?_⟩
  · intro q hq hx
    by_cases hz : y < c.slStart
    · rw [leftCorner_top hz] at hq; cases hq
      have := l1 c.topLeft (leftCorner_top (by omega)) hx
      exact hv.tl.2.2 x y1 y (by rw [hv.tl.1]; omega) hy.1 (by rw [hv.tl.2.1]; exact hz) this
    · by_cases hz2 : y ≥ c.slEnd
      · rw [leftCorner_bottom hz hz2] at hq; cases hq
        have := l2 c.bottomLeft (leftCorner_bottom (by omega) (by omega)) hx
        exact hv.bl.2.2 x y2 y (by rw [hv.bl.1]; omega) hy.2 (by rw [hv.bl.2.1]; omega) this
      · rw [leftCorner_none hz hz2] at hq; cases hq
  · intro q hq hx
    by_cases hz : y < c.srStart
    · rw [rightCorner_top hz] at hq; cases hq
      have := rr1 c.topRight (rightCorner_top (by omega)) hx
      exact hv.tr.2.2 x y1 y (by rw [hv.tr.1]; omega) hy.1 (by rw [hv.tr.2.1]; exact hz) this
    · by_cases hz2 : y ≥ c.srEnd
      · rw [rightCorner_bottom hz hz2] at hq; cases hq
        have := rr2 c.bottomRight (rightCorner_bottom (by omega) (by omega)) hx
        exact hv.br.2.2 x y2 y (by rw [hv.br.1]; omega) hy.2 (by rw [hv.br.2.1]; omega) this
      · rw [rightCorner_none hz hz2] at hq; cases hq

end RRContains

namespace RoundedRect

theorem new_vgeo (r : RoundedRect) (h : r.InRange) : (RRContains.new r).VGeo := by
  obtain ⟨c1, c2, c3, c4, c5, c6, c7, c8⟩ := CornerRadii.confine_radius_le r.corners r.rect.size
  obtain ⟨hrs, hre⟩ := new_rows r h
  have hR := h
  unfold InRange Rect.InRange inI32 at hR
  obtain ⟨⟨x1, x2⟩, ⟨y1, y2⟩, hw, hh, hxw, hyh⟩ := hR
  have itl : (⟨r.rect.tl, (r.corners.confine r.rect.size).tl⟩ : Rect).InRange := by
    unfold Rect.InRange inI32; dsimp only; omega
  have itr : (⟨⟨r.rect.tl.x + r.rect.size.w - (r.corners.confine r.rect.size).tr.w, r.rect.tl.y⟩,
      (r.corners.confine r.rect.size).tr⟩ : Rect).InRange := by
    unfold Rect.InRange inI32; dsimp only; omega
  have ibr : (⟨⟨r.rect.tl.x + r.rect.size.w - (r.corners.confine r.rect.size).br.w,
      r.rect.tl.y + r.rect.size.h - (r.corners.confine r.rect.size).br.h⟩,
      (r.corners.confine r.rect.size).br⟩ : Rect).InRange := by
    unfold Rect.InRange inI32; dsimp only; omega
  have ibl : (⟨⟨r.rect.tl.x, r.rect.tl.y + r.rect.size.h - (r.corners.confine r.rect.size).bl.h⟩,
      (r.corners.confine r.rect.size).bl⟩ : Rect).InRange := by
    unfold Rect.InRange inI32; dsimp only; omega
  have etl : (RRContains.new r).topLeft = r.cornerQuadrant .topLeft := rfl
  have etr : (RRContains.new r).topRight = r.cornerQuadrant .topRight := rfl
  have ebr : (RRContains.new r).bottomRight = r.cornerQuadrant .bottomRight := rfl
  have ebl : (RRContains.new r).bottomLeft = r.cornerQuadrant .bottomLeft := rfl
  refine ⟨?_, ?_, ?_, ?_⟩
  · rw [etl, cq_tl, EllipseQuadrant.new_rowsStart, EllipseQuadrant.new_rowsEnd _ _ _ itl, new_slStart, hrs]
    exact ⟨rfl, rfl, EllipseQuadrant.new_topMono _ _ _ (Or.inl rfl) itl⟩
  · rw [etr, cq_tr, EllipseQuadrant.new_rowsStart, EllipseQuadrant.new_rowsEnd _ _ _ itr, new_srStart, hrs]
    exact ⟨rfl, rfl, EllipseQuadrant.new_topMono _ _ _ (Or.inr rfl) itr⟩
  · rw [ebl, cq_bl, EllipseQuadrant.new_rowsStart, EllipseQuadrant.new_rowsEnd _ _ _ ibl, new_slEnd, hre]
    exact ⟨rfl, by dsimp only; omega, EllipseQuadrant.new_bottomMono _ _ _ (Or.inl rfl) ibl⟩
  · rw [ebr, cq_br, EllipseQuadrant.new_rowsStart, EllipseQuadrant.new_rowsEnd _ _ _ ibr, new_srEnd, hre]
    exact ⟨rfl, by dsimp only; omega, EllipseQuadrant.new_bottomMono _ _ _ (Or.inr rfl) ibr⟩

/-- Every column of a rounded rectangle is one contiguous run. -/
theorem column_contiguous (r : RoundedRect) (h : r.InRange) (x y1 y2 y : Int)
    (h1 : r.contains ⟨x, y1⟩ = true) (h2 : r.contains ⟨x, y2⟩ = true) (hy : y1 ≤ y ∧ y ≤ y2) :
    r.contains ⟨x, y⟩ = true :=
  RRContains.column_contiguous (new_vgeo r h) x y1 y2 y h1 h2 hy

end RoundedRect
end EG
