/-
  EG.Lemmas.TriangleContains — `Triangle::contains`: characterisation, bounding box, degenerate
  triangles, independence of the vertex order (the barycentric test is symmetric up to the sign of
  the area: the identities of EG.Lemmas.TriangleArith), the three-half-plane reading.
-/
import EG.Lemmas.Triangle
namespace EG
namespace Triangle

/-- `contains` as a proposition: inside the bounding box, non-zero area, and (closed barycentric
test, or on one of the three Bresenham edge lines of the sorted triangle). -/
theorem contains_iff (t : Triangle) (p : Pt) :
    t.contains p = true ↔
      t.boundingBox.contains p = true ∧ t.areaDoubled ≠ 0 ∧
        (t.isInside p = true ∨ p ∈ t.edgePoints) := by
  unfold contains containsWith
  by_cases hb : t.boundingBox.contains p = true
  · by_cases ha : t.areaDoubled = 0
    · simp [hb, ha]
    · by_cases hi : t.isInside p = true
      · simp [hb, ha, hi]
      · simp only [hb, ha, hi, Bool.not_true, Bool.false_eq_true, ↓reduceIte, List.any_eq_true,
          beq_iff_eq, ne_eq, not_false_eq_true, true_and, false_or]
        constructor
        · rintro ⟨q, hq, rfl⟩; exact hq
        · intro h; exact ⟨p, h, rfl⟩
  · simp [hb]

theorem contains_in_bbox (t : Triangle) (p : Pt) (h : t.contains p = true) :
    t.boundingBox.contains p = true := ((contains_iff t p).mp h).1

theorem contains_colinear_false (t : Triangle) (p : Pt) (h : t.areaDoubled = 0) :
    t.contains p = false := by
  cases hc : t.contains p with
  | false => rfl
  | true => exact absurd h ((contains_iff t p).mp hc).2.1

/-! ## the barycentric test under the two generating transpositions -/

theorem isInside_swap12 (a b c p : Pt) : isInside ⟨b, a, c⟩ p = isInside ⟨a, b, c⟩ p := by
  unfold isInside
  rw [baryS_swap12 a b c p, baryT_swap12 a b c p, areaDoubled_swap12 a b c]
  dsimp only
  generalize baryS ⟨a, b, c⟩ p = s
  generalize baryT ⟨a, b, c⟩ p = u
  generalize areaDoubled ⟨a, b, c⟩ = ar
  by_cases h1 : ar < 0
  · have h2 : ¬ (-ar < 0) := by omega
    simp only [h1, h2, ↓reduceIte]
    apply decide_eq_decide.mpr
    constructor <;> intro h <;> refine ⟨?_, ?_, ?_⟩ <;> omega
  · by_cases h3 : -ar < 0
    · simp only [h1, h3, ↓reduceIte]
      apply decide_eq_decide.mpr
      constructor <;> intro h <;> refine ⟨?_, ?_, ?_⟩ <;> omega
    · simp only [h1, h3, ↓reduceIte]
      apply decide_eq_decide.mpr
      constructor <;> intro h <;> refine ⟨?_, ?_, ?_⟩ <;> omega

theorem isInside_swap23 (a b c p : Pt) : isInside ⟨a, c, b⟩ p = isInside ⟨a, b, c⟩ p := by
  unfold isInside
  rw [baryS_swap23 a b c p, baryT_swap23 a b c p, areaDoubled_swap23 a b c]
  dsimp only
  generalize baryS ⟨a, b, c⟩ p = s
  generalize baryT ⟨a, b, c⟩ p = u
  generalize areaDoubled ⟨a, b, c⟩ = ar
  by_cases h1 : ar < 0
  · have h2 : ¬ (-ar < 0) := by omega
    simp only [h1, h2, ↓reduceIte]
    apply decide_eq_decide.mpr
    constructor <;> intro h <;> refine ⟨?_, ?_, ?_⟩ <;> omega
  · by_cases h3 : -ar < 0
    · simp only [h1, h3, ↓reduceIte]
      apply decide_eq_decide.mpr
      constructor <;> intro h <;> refine ⟨?_, ?_, ?_⟩ <;> omega
    · simp only [h1, h3, ↓reduceIte]
      apply decide_eq_decide.mpr
      constructor <;> intro h <;> refine ⟨?_, ?_, ?_⟩ <;> omega

/-- The barycentric test gives the same verdict for all six vertex orders. -/
theorem isInside_of_mem_orders {t t' : Triangle} (h : t' ∈ orders t) (p : Pt) :
    t'.isInside p = t.isInside p := by
  obtain ⟨a, b, c⟩ := t
  rcases mem_orders.mp h with rfl | rfl | rfl | rfl | rfl | rfl <;> dsimp only
  · exact isInside_swap23 a b c p
  · exact isInside_swap12 a b c p
  · rw [isInside_swap23 b a c, isInside_swap12 a b c]
  · rw [isInside_swap12 a c b, isInside_swap23 a b c]
  · rw [isInside_swap12 b c a, isInside_swap23 b a c, isInside_swap12 a b c]

/-- `contains` gives the same verdict for all six vertex orders. -/
theorem contains_of_mem_orders {t t' : Triangle} (h : t' ∈ orders t) (p : Pt) :
    t'.contains p = t.contains p := by
  unfold contains containsWith
  rw [boundingBox_of_mem_orders h, isInside_of_mem_orders h, edgePoints_of_mem_orders h]
  by_cases hz : t.areaDoubled = 0
  · have hz' := (areaDoubled_eq_zero_iff_of_mem_orders h).mpr hz
    simp only [hz, hz', ↓reduceIte]
  · have hz' : ¬ t'.areaDoubled = 0 := fun c => hz ((areaDoubled_eq_zero_iff_of_mem_orders h).mp c)
    simp only [hz, hz', ↓reduceIte]

/-! ## the barycentric test is the closed three-half-plane test -/

/-- `(b - a) × (p - a)`: twice the signed area of `a b p`. -/
def edgeFn (a b p : Pt) : Int := (b.x - a.x) * (p.y - a.y) - (b.y - a.y) * (p.x - a.x)

/-- For a non-degenerate triangle the `is_inside` block accepts exactly the points of the closed
mathematical triangle: the three edge functions `v1 v2`, `v2 v3`, `v3 v1` at `p` are all `≥ 0` or
all `≤ 0` (according to the orientation). -/
theorem isInside_iff_half_planes (t : Triangle) (p : Pt) (h : t.areaDoubled ≠ 0) :
    t.isInside p = true ↔
      (0 ≤ edgeFn t.v1 t.v2 p ∧ 0 ≤ edgeFn t.v2 t.v3 p ∧ 0 ≤ edgeFn t.v3 t.v1 p ∧
        0 < edgeFn t.v1 t.v2 t.v3) ∨
      (edgeFn t.v1 t.v2 p ≤ 0 ∧ edgeFn t.v2 t.v3 p ≤ 0 ∧ edgeFn t.v3 t.v1 p ≤ 0 ∧
        edgeFn t.v1 t.v2 t.v3 < 0) := by
  obtain ⟨a, b, c⟩ := t
  obtain ⟨e1, e2, e3, e4⟩ := bary_edge_functions a b c p
  have f1 : edgeFn a b p = baryT ⟨a, b, c⟩ p := by rw [e2]; rfl
  have f2 : edgeFn b c p = areaDoubled ⟨a, b, c⟩ - baryS ⟨a, b, c⟩ p - baryT ⟨a, b, c⟩ p := by
    rw [e3]; rfl
  have f3 : edgeFn c a p = baryS ⟨a, b, c⟩ p := by
    rw [baryS_eq_edge31]; rfl
  have f4 : edgeFn a b c = areaDoubled ⟨a, b, c⟩ := by rw [e4]; rfl
  dsimp only
  rw [f1, f2, f3, f4]
  unfold isInside
  dsimp only
  generalize baryS ⟨a, b, c⟩ p = s at *
  generalize baryT ⟨a, b, c⟩ p = u at *
  generalize areaDoubled ⟨a, b, c⟩ = ar at *
  by_cases h1 : ar < 0
  · simp only [h1, ↓reduceIte, decide_eq_true_eq, and_true]
    constructor
    · intro hh; right; refine ⟨?_, ?_, ?_⟩ <;> omega
    · rintro (hh | hh) <;> refine ⟨?_, ?_, ?_⟩ <;> omega
  · simp only [h1, ↓reduceIte, decide_eq_true_eq, and_false, or_false]
    constructor
    · intro hh; refine ⟨?_, ?_, ?_, ?_⟩ <;> omega
    · intro hh; refine ⟨?_, ?_, ?_⟩ <;> omega

end Triangle
end EG
