/-
  EG.Lemmas.RawBitsT2 — byte-level get/set law for 2 bit(s) per pixel, both data orders, by kernel
  evaluation over the whole domain (see RawBitsDef.lean).
-/
import EG.Lemmas.RawBitsDef
namespace EG.Raw

theorem byteLaw_2_le : byteLawCheck 2 .le = true := by decide +kernel
theorem byteLaw_2_be : byteLawCheck 2 .be = true := by decide +kernel

end EG.Raw
