/-
  EG.Lemmas.TriangleTranslate — translation commutes with everything the triangle code computes:
  `sorted_yx`, `area_doubled`, the bounding box, the Bresenham edge lines (`Line.points_translate`),
  `bresenham_intersection` / `scanline_intersection` (row spans move with the triangle),
  `points()` and `contains()`.
  The only non-equivariant ingredient is the saturating arithmetic of `Rectangle::rows()`; the
  theorem about `points()` therefore assumes `Rect.InRange` of both bounding boxes (no `i32`
  saturation), which display coordinates satisfy.
-/
import EG.Lemmas.LineProps
import EG.Lemmas.TrianglePoints
import EG.Lemmas.TriangleContains
namespace EG

theorem bne_add_right (a b c : Int) : (a + c != b + c) = (a != b) := by
  apply Bool.eq_iff_iff.mpr
  simp only [bne_iff_ne]; omega

theorem beq_add_right (a b c : Int) : (a + c == b + c) = (a == b) := by
  apply Bool.eq_iff_iff.mpr
  simp only [beq_iff_eq]; omega

theorem irange_add (a b k : Int) : irange (a + k) (b + k) = (irange a b).map (· + k) := by
  unfold irange
  have : (b + k - (a + k)).toNat = (b - a).toNat := by omega
  rw [this, List.map_map]
  apply List.map_congr_left
  intro i _
  simp only [Function.comp]; omega

theorem Pt.add_right_cancel' {p q d : Pt} : p + d = q + d ↔ p = q := by
  simp only [Pt.ext_iff', Pt.add_x, Pt.add_y]; omega

namespace Scanline

/-- `s'` is `s` moved by `d`; empty scanlines only have to agree on the row. -/
def Moved (d : Pt) (s s' : Scanline) : Prop :=
  s'.y = s.y + d.y ∧
    ((¬ s.xs < s.xe ∧ ¬ s'.xs < s'.xe) ∨ (s'.xs = s.xs + d.x ∧ s'.xe = s.xe + d.x))

theorem Moved.newEmpty (d : Pt) (y : Int) : Moved d (newEmpty y) (newEmpty (y + d.y)) := by
  unfold Moved Scanline.newEmpty; simp

theorem Moved.isEmpty {d : Pt} {s s' : Scanline} (h : Moved d s s') : s'.isEmpty = s.isEmpty := by
  unfold Scanline.isEmpty
  obtain ⟨_, h | h⟩ := h
  · simp [h.1, h.2]
  · apply congrArg; apply decide_eq_decide.mpr; omega

theorem Moved.extend {d : Pt} {s s' : Scanline} (h : Moved d s s') (x : Int) :
    Moved d (s.extend x) (s'.extend (x + d.x)) := by
  have he := h.isEmpty
  obtain ⟨hy, h⟩ := h
  unfold Scanline.extend
  rw [he]
  by_cases h0 : s.isEmpty = true
  · simp only [h0, ↓reduceIte]
    exact ⟨hy, Or.inr ⟨rfl, by dsimp only; omega⟩⟩
  · have hne : s.xs < s.xe := by
      unfold Scanline.isEmpty at h0; simpa using h0
    obtain h | ⟨h1, h2⟩ := h
    · exact absurd hne h.1
    · simp only [h0, Bool.false_eq_true, ↓reduceIte]
      by_cases c1 : x < s.xs
      · have c1' : x + d.x < s'.xs := by omega
        simp only [c1, c1', ↓reduceIte]
        exact ⟨hy, Or.inr ⟨rfl, h2⟩⟩
      · have c1' : ¬ x + d.x < s'.xs := by omega
        by_cases c2 : x ≥ s.xe
        · have c2' : x + d.x ≥ s'.xe := by omega
          simp only [c1, c1', c2, c2', ↓reduceIte]
          exact ⟨hy, Or.inr ⟨h1, by dsimp only; omega⟩⟩
        · have c2' : ¬ x + d.x ≥ s'.xe := by omega
          simp only [c1, c1', c2, c2', ↓reduceIte]
          exact ⟨hy, Or.inr ⟨h1, h2⟩⟩

theorem Moved.foldl (d : Pt) : ∀ (l : List Pt) (s s' : Scanline), Moved d s s' →
    Moved d (l.foldl (fun s p => s.extend p.x) s)
      ((l.map (· + d)).foldl (fun s p => s.extend p.x) s') := by
  intro l
  induction l with
  | nil => intro s s' h; exact h
  | cons p l ih =>
    intro s s' h
    simp only [List.map_cons, List.foldl_cons]
    exact ih _ _ (h.extend p.x)

/-- `bresenham_intersection` moves with the line and the scanline. -/
theorem Moved.bint {d : Pt} {s s' : Scanline} (h : Moved d s s') (l : Line) :
    Moved d (s.bint l) (s'.bint (l.translate d)) := by
  unfold Scanline.bint Scanline.bresenhamIntersection
  rw [Line.points_translate]
  have hy := h.1
  simp only [Line.translate, Pt.add_y, hy]
  have e1 : (l.start.y + d.y ≤ l.stop.y + d.y) ↔ (l.start.y ≤ l.stop.y) := by omega
  have e2 : (l.start.y + d.y ≤ s.y + d.y ∧ s.y + d.y ≤ l.stop.y + d.y) ↔
      (l.start.y ≤ s.y ∧ s.y ≤ l.stop.y) := by omega
  have e3 : (l.stop.y + d.y ≤ s.y + d.y ∧ s.y + d.y ≤ l.start.y + d.y) ↔
      (l.stop.y ≤ s.y ∧ s.y ≤ l.start.y) := by omega
  simp only [e1, e2, e3]
  have f1 : ((fun p : Pt => p.y != s.y + d.y) ∘ fun x => x + d) = fun p : Pt => p.y != s.y := by
    funext p; simp only [Function.comp, Pt.add_y]; exact bne_add_right _ _ _
  have f2 : ((fun p : Pt => p.y == s.y + d.y) ∘ fun x => x + d) = fun p : Pt => p.y == s.y := by
    funext p; simp only [Function.comp, Pt.add_y]; exact beq_add_right _ _ _
  have key : Moved d
      (List.foldl (fun s p => s.extend p.x) s
        (List.takeWhile (fun p => p.y == s.y) (List.dropWhile (fun p => p.y != s.y) l.points)))
      (List.foldl (fun s p => s.extend p.x) s'
        (List.takeWhile (fun p => p.y == s.y + d.y)
          (List.dropWhile (fun p => p.y != s.y + d.y) (List.map (fun x => x + d) l.points)))) := by
    rw [List.dropWhile_map, List.takeWhile_map, f1, f2]
    exact Moved.foldl d _ _ _ h
  split
  · split
    · exact h
    · exact key
  · split
    · exact h
    · exact key

theorem Moved.points {d : Pt} {s s' : Scanline} (h : Moved d s s') :
    s'.points = s.points.map (· + d) := by
  obtain ⟨hy, h | ⟨h1, h2⟩⟩ := h
  · rw [points_empty h.1, points_empty h.2]; rfl
  · unfold Scanline.points
    rw [h1, h2, irange_add, List.map_map, List.map_map]
    apply List.map_congr_left
    intro x _
    simp only [Function.comp, Pt.ext_iff', Pt.add_x, Pt.add_y, hy, and_self]

end Scanline

namespace Triangle

theorem yxLt_translate (p q d : Pt) : yxLt (p + d) (q + d) ↔ yxLt p q := by
  unfold yxLt; simp only [Pt.add_x, Pt.add_y]; omega

theorem sortTwoYx_translate (p q d : Pt) :
    sortTwoYx (p + d) (q + d) = ((sortTwoYx p q).1 + d, (sortTwoYx p q).2 + d) := by
  unfold sortTwoYx
  by_cases h : yxLt p q
  · have h' := (yxLt_translate p q d).mpr h
    simp only [h, h', ↓reduceIte]
  · have h' : ¬ yxLt (p + d) (q + d) := fun c => h ((yxLt_translate p q d).mp c)
    simp only [h, h', ↓reduceIte]

theorem sortedYx_translate (t : Triangle) (d : Pt) :
    (t.translate d).sortedYx = t.sortedYx.translate d := by
  unfold sortedYx translate
  simp only [sortTwoYx_translate]

theorem boundingBox_translate (t : Triangle) (d : Pt) :
    (t.translate d).boundingBox = t.boundingBox.translate d := by
  simp only [boundingBox, translate, Rect.translate, Rect.withCorners, Pt.add_x, Pt.add_y,
    Rect.mk.injEq, Sz.mk.injEq, Pt.ext_iff']
  refine ⟨⟨?_, ?_⟩, ?_, ?_⟩ <;> omega

theorem sortedClockwise_translate (t : Triangle) (d : Pt) :
    (t.translate d).sortedClockwise = t.sortedClockwise.translate d := by
  unfold sortedClockwise
  rw [areaDoubled_translate, sortedYx_translate]
  split
  · rfl
  · split <;> rfl

/-- The row span moves with the triangle. -/
theorem scanlineIntersection_translate (t : Triangle) (d : Pt) (y : Int) :
    Scanline.Moved d (t.scanlineIntersection y) ((t.translate d).scanlineIntersection (y + d.y)) := by
  unfold scanlineIntersection
  rw [areaDoubled_translate, sortedYx_translate]
  have h0 := Scanline.Moved.newEmpty d y
  split
  · exact h0.bint ⟨t.sortedYx.v1, t.sortedYx.v3⟩
  · exact ((h0.bint ⟨t.sortedYx.v1, t.sortedYx.v2⟩).bint ⟨t.sortedYx.v1, t.sortedYx.v3⟩).bint
      ⟨t.sortedYx.v2, t.sortedYx.v3⟩

theorem span_translate (t : Triangle) (d : Pt) (y : Int) :
    Scanline.Moved d (t.span y) ((t.translate d).span (y + d.y)) := by
  unfold span
  rw [sortedClockwise_translate]
  exact scanlineIntersection_translate _ d y

theorem untilEmpty_moved (d : Pt) (sp sp' : Int → Scanline)
    (h : ∀ y, Scanline.Moved d (sp y) (sp' (y + d.y))) : ∀ (ys : List Int),
    (untilEmpty sp' (ys.map (· + d.y))).flatMap Scanline.points =
      ((untilEmpty sp ys).flatMap Scanline.points).map (· + d) := by
  intro ys
  induction ys with
  | nil => rfl
  | cons y ys ih =>
    simp only [List.map_cons, untilEmpty]
    rw [(h y).isEmpty]
    by_cases he : (sp y).isEmpty = true
    · simp only [he, ↓reduceIte]; rfl
    · simp only [he, Bool.false_eq_true, ↓reduceIte, List.flatMap_cons, List.map_append, ih,
        (h y).points]

theorem rowsSpec_moved (d : Pt) (sp sp' : Int → Scanline)
    (h : ∀ y, Scanline.Moved d (sp y) (sp' (y + d.y))) (rs re : Int) :
    rowsSpec sp' (rs + d.y) (re + d.y) = (rowsSpec sp rs re).map (· + d) := by
  unfold rowsSpec seen
  have e : rs + d.y < re + d.y ↔ rs < re := by omega
  by_cases hr : rs < re
  · have hr' := e.mpr hr
    simp only [hr, hr', ↓reduceIte]
    rw [(h rs).isEmpty]
    have e2 : rs + d.y + 1 = rs + 1 + d.y := by omega
    rw [e2, irange_add]
    by_cases he : (sp rs).isEmpty = true
    · simp only [he, ↓reduceIte]
      exact untilEmpty_moved d sp sp' h _
    · simp only [he, Bool.false_eq_true, ↓reduceIte, List.flatMap_cons, List.map_append,
        untilEmpty_moved d sp sp' h, (h rs).points]
  · have hr' : ¬ rs + d.y < re + d.y := fun c => hr (e.mp c)
    simp only [hr, hr', ↓reduceIte, List.map_nil]

/-- **`points()` commutes with translation** (both bounding boxes within the `i32` range). -/
theorem points_translate (t : Triangle) (d : Pt) (h1 : t.boundingBox.InRange)
    (h2 : (t.translate d).boundingBox.InRange) :
    (t.translate d).points = t.points.map (· + d) := by
  rw [points_eq_take, points_eq_take, List.map_take]
  have hb := boundingBox_translate t d
  have e1 : (t.translate d).pointsBudget = t.pointsBudget := by
    unfold pointsBudget; rw [hb]; rfl
  have e2 : (t.translate d).boundingBox.tl.y = t.boundingBox.tl.y + d.y := by rw [hb]; rfl
  have e3 : (t.translate d).boundingBox.rowsEnd = t.boundingBox.rowsEnd + d.y := by
    rw [Rect.rowsEnd_eq h2, Rect.rowsEnd_eq h1, hb]
    simp only [Rect.translate, Pt.add_y]; omega
  rw [e1, e2, e3, rowsSpec_moved d t.span (t.translate d).span (span_translate t d)]

/-! ## `contains` -/

theorem isInside_translate (t : Triangle) (d p : Pt) :
    (t.translate d).isInside (p + d) = t.isInside p := by
  unfold isInside
  rw [baryS_translate, baryT_translate, areaDoubled_translate]

theorem edgePoints_translate (t : Triangle) (d : Pt) :
    (t.translate d).edgePoints = t.edgePoints.map (· + d) := by
  unfold edgePoints edgeLines
  rw [sortedYx_translate]
  simp only [translate, List.flatMap_cons, List.flatMap_nil, List.append_nil, List.map_append]
  have e : ∀ a b : Pt, Line.points ⟨a + d, b + d⟩ = (Line.points ⟨a, b⟩).map (· + d) :=
    fun a b => Line.points_translate ⟨a, b⟩ d
  rw [e, e, e]

theorem rect_contains_translate (r : Rect) (d p : Pt) :
    (r.translate d).contains (p + d) = r.contains p := by
  apply Bool.eq_iff_iff.mpr
  rw [Rect.contains_iff, Rect.contains_iff]
  simp only [Rect.translate, Pt.add_x, Pt.add_y]
  omega

/-- **`contains()` commutes with translation.** -/
theorem contains_translate (t : Triangle) (d p : Pt) :
    (t.translate d).contains (p + d) = t.contains p := by
  unfold contains containsWith
  rw [boundingBox_translate, rect_contains_translate, areaDoubled_translate, isInside_translate,
    edgePoints_translate]
  have e : (t.edgePoints.map (· + d)).any (fun q => q == p + d) = t.edgePoints.any (fun q => q == p) := by
    rw [List.any_map]
    apply congrArg (fun f => List.any t.edgePoints f)
    funext q
    apply Bool.eq_iff_iff.mpr
    simp only [Function.comp, beq_iff_eq]
    exact Pt.add_right_cancel'
  rw [e]

end Triangle
end EG
