/-
  EG.Lemmas.TextLayoutLines — `Text::lines()`: splitting at `\n`, positions `line_height` apart,
  `draw` as the concatenation of its lines, CR LF against LF.
-/
import EG.Lemmas.TextLayout
namespace EG
namespace TextLayout
open Font

/-! ### `split('\n')` -/

theorem splitNL_ne_nil : ∀ (t : List Nat), splitNL t ≠ []
  | [] => by simp [splitNL]
  | c :: cs => by
    unfold splitNL
    split
    · simp
    · split <;> simp

theorem splitNL_cons_nl (cs : List Nat) : splitNL (10 :: cs) = [] :: splitNL cs := by
  simp [splitNL]

/-- A character other than `\n` joins the first segment of the rest. -/
theorem splitNL_cons_ne (c : Nat) (cs : List Nat) (h : c ≠ 10) :
    ∃ l ls, splitNL cs = l :: ls ∧ splitNL (c :: cs) = (c :: l) :: ls := by
  cases hs : splitNL cs with
  | nil => exact absurd hs (splitNL_ne_nil cs)
  | cons l ls => exact ⟨l, ls, rfl, by simp [splitNL, h, hs]⟩

/-- A text without `\n` is one segment. -/
theorem splitNL_of_no_nl : ∀ (t : List Nat), 10 ∉ t → splitNL t = [t]
  | [], _ => rfl
  | c :: cs, h => by
    have hc : c ≠ 10 := fun e => h (by simp [e])
    have ih := splitNL_of_no_nl cs (fun e => h (List.mem_cons_of_mem _ e))
    simp [splitNL, hc, ih]

/-- Splitting `seg ++ "\n" ++ rest` where `seg` has no `\n`: `seg`, then the segments of `rest`. -/
theorem splitNL_append_nl : ∀ (seg rest : List Nat), 10 ∉ seg →
    splitNL (seg ++ 10 :: rest) = seg :: splitNL rest
  | [], rest, _ => by simp [splitNL]
  | c :: cs, rest, h => by
    have hc : c ≠ 10 := fun e => h (by simp [e])
    have ih := splitNL_append_nl cs rest (fun e => h (List.mem_cons_of_mem _ e))
    simp [splitNL, hc, ih]

/-- No segment contains `\n`. -/
theorem splitNL_no_nl : ∀ (t : List Nat), ∀ seg ∈ splitNL t, 10 ∉ seg
  | [], seg, h => by simp [splitNL] at h; simp [h]
  | c :: cs, seg, h => by
    by_cases hc : c = 10
    · subst hc
      rw [splitNL_cons_nl] at h
      rcases List.mem_cons.mp h with h | h
      · simp [h]
      · exact splitNL_no_nl cs seg h
    · obtain ⟨l, ls, h1, h2⟩ := splitNL_cons_ne c cs hc
      rw [h2] at h
      rcases List.mem_cons.mp h with h | h
      · subst h
        have := splitNL_no_nl cs l (by rw [h1]; simp)
        simp only [List.mem_cons, not_or]
        exact ⟨fun e => hc e.symm, this⟩
      · exact splitNL_no_nl cs seg (by rw [h1]; exact List.mem_cons_of_mem _ h)

/-! ### `strip_suffix('\r')` -/

theorem stripCR_nil : stripCR [] = [] := by simp [stripCR]

theorem stripCR_singleton (c : Nat) : stripCR [c] = if c = 13 then [] else [c] := by
  unfold stripCR; by_cases h : c = 13 <;> simp [h]

theorem stripCR_cons_cons (c c' : Nat) (cs : List Nat) : stripCR (c :: c' :: cs) = c :: stripCR (c' :: cs) := by
  unfold stripCR
  simp only [List.getLast?_cons_cons]
  split <;> simp [List.dropLast]

theorem stripCR_cons_of_ne_nil (c : Nat) (l : List Nat) (h : l ≠ []) : stripCR (c :: l) = c :: stripCR l := by
  cases l with
  | nil => exact absurd rfl h
  | cons c' cs => exact stripCR_cons_cons c c' cs

/-! ### `lines()`: positions -/

/-- The i-th remaining line is `i` line heights further down. -/
theorem linesGo_eq_mapIdx (f : MonoFont) (st : Style) (ts : TextStyle) : ∀ (segs : List (List Nat)) (p : Pt),
    linesGo f st ts p segs = segs.mapIdx (fun i seg =>
      (stripCR seg, alignedPos f st ts (stripCR seg) ⟨p.x, p.y + (i : Int) * lineHeight f ts⟩))
  | [], _ => by simp [linesGo]
  | seg :: rest, p => by
    rw [linesGo, linesGo_eq_mapIdx f st ts rest, List.mapIdx_cons]
    simp only [Int.natCast_zero, Int.zero_mul, Int.add_zero, List.cons.injEq, true_and]
    apply List.ext_getElem
    · simp
    · intro i h1 h2
      simp only [List.getElem_mapIdx]
      congr 3
      simp only [Int.natCast_add, Int.natCast_one, Int.add_mul, Int.one_mul]
      omega

theorem linesGo_append (f : MonoFont) (st : Style) (ts : TextStyle) : ∀ (a b : List (List Nat)) (p : Pt),
    linesGo f st ts p (a ++ b) =
      linesGo f st ts p a ++ linesGo f st ts ⟨p.x, p.y + (a.length : Int) * lineHeight f ts⟩ b
  | [], b, p => by simp [linesGo]
  | s :: a, b, p => by
    have e : (⟨p.x, p.y + lineHeight f ts + (a.length : Int) * lineHeight f ts⟩ : Pt) =
        ⟨p.x, p.y + ((a.length + 1 : Nat) : Int) * lineHeight f ts⟩ := by
      rw [Pt.ext_iff']
      refine ⟨rfl, ?_⟩
      simp only [Int.natCast_add, Int.natCast_one, Int.add_mul, Int.one_mul]
      omega
    simp only [List.cons_append, linesGo, linesGo_append f st ts a b, List.length_cons, e]

theorem linesGo_length (f : MonoFont) (st : Style) (ts : TextStyle) : ∀ (segs : List (List Nat)) (p : Pt),
    (linesGo f st ts p segs).length = segs.length
  | [], _ => rfl
  | _ :: rest, p => by simp [linesGo, linesGo_length f st ts rest]

theorem lines_ne_nil (f : MonoFont) (t : Text) : lines f t ≠ [] := by
  intro h
  have := congrArg List.length h
  simp only [lines, linesGo_length, List.length_nil] at this
  exact splitNL_ne_nil t.text (List.length_eq_zero_iff.mp this)

/-- A text without `\n` is one line at the aligned position. -/
theorem lines_single (f : MonoFont) (t : Text) (h : 10 ∉ t.text) :
    lines f t = [(stripCR t.text, alignedPos f t.style t.ts (stripCR t.text) t.position)] := by
  simp [lines, splitNL_of_no_nl t.text h, linesGo]

/-- The lines of `seg ++ "\n" ++ rest` are the line of `seg`, then the lines of `rest` one line
height further down. -/
theorem lines_append_nl (f : MonoFont) (seg rest : List Nat) (p : Pt) (st : Style) (ts : TextStyle)
    (h : 10 ∉ seg) :
    lines f ⟨seg ++ 10 :: rest, p, st, ts⟩ =
      lines f ⟨seg, p, st, ts⟩ ++ lines f ⟨rest, ⟨p.x, p.y + lineHeight f ts⟩, st, ts⟩ := by
  simp only [lines, splitNL_append_nl seg rest h, splitNL_of_no_nl seg h, linesGo, List.singleton_append]

/-! ### `draw` as the concatenation of its lines -/

theorem drawLines_append (f : MonoFont) (atlas : Pt → Bool) (st : Style) (bl : Baseline) :
    ∀ (a b : List (List Nat × Pt)) (n : Pt),
      drawLines f atlas st bl (a ++ b) n =
        ((drawLines f atlas st bl a n).1 ++ (drawLines f atlas st bl b (drawLines f atlas st bl a n).2).1,
         (drawLines f atlas st bl b (drawLines f atlas st bl a n).2).2)
  | [], b, n => by simp [drawLines]
  | (l, p) :: a, b, n => by
    simp only [List.cons_append, drawLines, drawLines_append f atlas st bl a b, List.append_assoc]

/-- With at least one line the initial value of `next_position` is dead. -/
theorem drawLines_indep (f : MonoFont) (atlas : Pt → Bool) (st : Style) (bl : Baseline)
    (ls : List (List Nat × Pt)) (h : ls ≠ []) (n n' : Pt) :
    drawLines f atlas st bl ls n = drawLines f atlas st bl ls n' := by
  cases ls with
  | nil => exact absurd rfl h
  | cons lp rest => obtain ⟨l, p⟩ := lp; simp [drawLines]

/-- The calls of `draw` are the calls of `draw_string` for every line, in order. -/
theorem drawLines_calls (f : MonoFont) (atlas : Pt → Bool) (st : Style) (bl : Baseline) :
    ∀ (ls : List (List Nat × Pt)) (n : Pt),
      (drawLines f atlas st bl ls n).1 = ls.flatMap (fun lp => (f.drawString atlas st lp.1 lp.2 bl).1)
  | [], _ => rfl
  | (l, p) :: rest, n => by simp [drawLines, drawLines_calls f atlas st bl rest]

/-- `draw` returns what `draw_string` returned for the last line. -/
theorem drawLines_next (f : MonoFont) (atlas : Pt → Bool) (st : Style) (bl : Baseline) :
    ∀ (ls : List (List Nat × Pt)) (n : Pt),
      (drawLines f atlas st bl ls n).2 =
        match ls.getLast? with
        | some lp => (f.drawString atlas st lp.1 lp.2 bl).2
        | none => n
  | [], _ => rfl
  | [(l, p)], n => by simp [drawLines]
  | (l, p) :: lp' :: rest, n => by
    have ih := drawLines_next f atlas st bl (lp' :: rest) (f.drawString atlas st l p bl).2
    simp only [drawLines, List.getLast?_cons_cons] at ih ⊢
    rw [ih]
    cases h : (lp' :: rest).getLast? with
    | none => simp at h
    | some x => rfl

/-- **`"seg\nrest"` = `seg`, then `rest` one line height further down** (calls and returned position). -/
theorem draw_append_nl (f : MonoFont) (atlas : Pt → Bool) (seg rest : List Nat) (p : Pt) (st : Style)
    (ts : TextStyle) (h : 10 ∉ seg) :
    draw f atlas ⟨seg ++ 10 :: rest, p, st, ts⟩ =
      ((draw f atlas ⟨seg, p, st, ts⟩).1 ++ (draw f atlas ⟨rest, ⟨p.x, p.y + lineHeight f ts⟩, st, ts⟩).1,
       (draw f atlas ⟨rest, ⟨p.x, p.y + lineHeight f ts⟩, st, ts⟩).2) := by
  unfold draw
  simp only [lines_append_nl f seg rest p st ts h, drawLines_append]
  have hne := lines_ne_nil f ⟨rest, ⟨p.x, p.y + lineHeight f ts⟩, st, ts⟩
  rw [drawLines_indep f atlas st ts.baseline _ hne _ (⟨p.x, p.y + lineHeight f ts⟩ : Pt)]

/-! ### CR LF against LF -/

/-- Every `\r\n` replaced by `\n` (left to right, like `str::replace`). -/
def crlfToLf : List Nat → List Nat
  | 13 :: 10 :: rest => 10 :: crlfToLf rest
  | c :: rest => c :: crlfToLf rest
  | [] => []

/-- `strip_suffix('\r')` on every segment but the last. -/
def stripAllButLast : List (List Nat) → List (List Nat)
  | [] => []
  | [l] => [l]
  | l :: l' :: ls => stripCR l :: stripAllButLast (l' :: ls)

theorem stripAllButLast_cons (l : List Nat) (ls : List (List Nat)) (h : ls ≠ []) :
    stripAllButLast (l :: ls) = stripCR l :: stripAllButLast ls := by
  cases ls with
  | nil => exact absurd rfl h
  | cons l' ls => rfl

theorem crlfToLf_cons_ne (c : Nat) (rest : List Nat) (h : c ≠ 13) :
    crlfToLf (c :: rest) = c :: crlfToLf rest := by
  exact crlfToLf.eq_2 c rest (by intro r hc; exact absurd hc h)

theorem crlfToLf_cr_ne (rest : List Nat) (h : rest.head? ≠ some 10) :
    crlfToLf (13 :: rest) = 13 :: crlfToLf rest := by
  cases rest with
  | nil => simp [crlfToLf]
  | cons c cs =>
    have hc : c ≠ 10 := by simpa using h
    exact crlfToLf.eq_2 13 (c :: cs) (by intro r _ he; simp at he; omega)

/-- Replacing `\r\n` by `\n` before splitting = splitting, then stripping one `\r` from every
segment that a `\n` ended. (Holds for every text.) -/
theorem splitNL_crlfToLf : ∀ (t : List Nat), splitNL (crlfToLf t) = stripAllButLast (splitNL t)
  | [] => by simp [crlfToLf, splitNL, stripAllButLast]
  | [c] => by
    by_cases h13 : c = 13
    · subst h13; simp [crlfToLf, splitNL, stripAllButLast]
    · rw [crlfToLf_cons_ne c [] h13]
      by_cases h10 : c = 10
      · subst h10; simp [crlfToLf, splitNL, stripAllButLast, stripCR]
      · simp [crlfToLf, splitNL, h10, stripAllButLast]
  | c :: c' :: rest => by
    have ih1 := splitNL_crlfToLf (c' :: rest)
    by_cases h13 : c = 13
    · subst h13
      by_cases h10 : c' = 10
      · subst h10
        have ih2 := splitNL_crlfToLf rest
        have e : crlfToLf (13 :: 10 :: rest) = 10 :: crlfToLf rest := by simp [crlfToLf]
        rw [e, splitNL_cons_nl, ih2]
        have e2 : splitNL (13 :: 10 :: rest) = [13] :: splitNL rest := by simp [splitNL]
        rw [e2, stripAllButLast_cons _ _ (splitNL_ne_nil rest)]
        simp [stripCR]
      · rw [crlfToLf_cr_ne (c' :: rest) (by simpa using h10)]
        obtain ⟨l, ls, h1, h2⟩ := splitNL_cons_ne 13 (crlfToLf (c' :: rest)) (by decide)
        obtain ⟨m, ms, h3, h4⟩ := splitNL_cons_ne 13 (c' :: rest) (by decide)
        obtain ⟨m', ms', h5, h6⟩ := splitNL_cons_ne c' rest h10
        rw [h2, h4]
        rw [h1, h3] at ih1
        rw [h6] at h3
        obtain ⟨rfl, rfl⟩ : c' :: m' = m ∧ ms' = ms := by simpa using h3
        cases ms' with
        | nil =>
          simp only [stripAllButLast] at ih1 ⊢
          obtain ⟨rfl, rfl⟩ : l = c' :: m' ∧ ls = [] := by simpa using ih1
          rfl
        | cons m2 ms2 =>
          simp only [stripAllButLast] at ih1 ⊢
          obtain ⟨rfl, rfl⟩ : l = stripCR (c' :: m') ∧ ls = stripAllButLast (m2 :: ms2) := by simpa using ih1
          rw [stripCR_cons_cons]
    · rw [crlfToLf_cons_ne c _ h13]
      by_cases h10 : c = 10
      · subst h10
        rw [splitNL_cons_nl, splitNL_cons_nl, ih1, stripAllButLast_cons _ _ (splitNL_ne_nil _), stripCR_nil]
      · obtain ⟨l, ls, h1, h2⟩ := splitNL_cons_ne c (crlfToLf (c' :: rest)) h10
        obtain ⟨m, ms, h3, h4⟩ := splitNL_cons_ne c (c' :: rest) h10
        rw [h2, h4]
        rw [h1, h3] at ih1
        cases ms with
        | nil =>
          simp only [stripAllButLast] at ih1 ⊢
          obtain ⟨rfl, rfl⟩ : l = m ∧ ls = [] := by simpa using ih1
          rfl
        | cons m2 ms2 =>
          simp only [stripAllButLast] at ih1 ⊢
          obtain ⟨rfl, rfl⟩ : l = stripCR m ∧ ls = stripAllButLast (m2 :: ms2) := by simpa using ih1
          -- `m` is not empty unless the rest starts with `\n`; either way the `\r` test is on `m`'s end
          by_cases hm : m = []
          · subst hm
            simp [stripCR_nil, stripCR_singleton, h13]
          · rw [stripCR_cons_of_ne_nil c m hm]

/-- The text contains `\r\r\n` somewhere. -/
def hasCRCRLF : List Nat → Bool
  | 13 :: 13 :: 10 :: _ => true
  | _ :: rest => hasCRCRLF rest
  | [] => false

theorem hasCRCRLF_tail (c : Nat) (rest : List Nat) (h : hasCRCRLF (c :: rest) = false) :
    hasCRCRLF rest = false := by
  cases hr : hasCRCRLF rest with
  | false => rfl
  | true =>
    unfold hasCRCRLF at h
    split at h
    · exact absurd h (by decide)
    · rename_i heq; simp at heq; obtain ⟨rfl, rfl⟩ := heq; rw [hr] at h; exact absurd h (by decide)
    · rename_i heq; simp at heq

/-- Stripping a second `\r` changes no segment that a `\n` ended. -/
def stableButLast : List (List Nat) → Prop
  | [] => True
  | [_] => True
  | l :: l' :: ls => stripCR (stripCR l) = stripCR l ∧ stableButLast (l' :: ls)

theorem stripCR_idem_cons (c : Nat) (l : List Nat) (h1 : l = [13] → c ≠ 13)
    (h2 : stripCR (stripCR l) = stripCR l) : stripCR (stripCR (c :: l)) = stripCR (c :: l) := by
  cases l with
  | nil => rw [stripCR_singleton]; split <;> simp [stripCR_nil, stripCR_singleton, *]
  | cons d l' =>
    cases l' with
    | nil =>
      rw [stripCR_cons_cons, stripCR_singleton]
      by_cases hd : d = 13
      · subst hd
        have := h1 rfl
        simp [stripCR_singleton, this]
      · simp [hd, stripCR_cons_cons, stripCR_singleton]
    | cons d' l'' =>
      have hne : stripCR (d :: d' :: l'') ≠ [] := by rw [stripCR_cons_cons]; simp
      rw [stripCR_cons_of_ne_nil c (d :: d' :: l'') (by simp), stripCR_cons_of_ne_nil c _ hne, h2]

/-- If the first segment of `rest` is followed by another one, `rest` starts with it and a `\n`. -/
theorem splitNL_cons_cons : ∀ (t : List Nat) (l l2 : List Nat) (ls : List (List Nat)),
    splitNL t = l :: l2 :: ls → ∃ rest, t = l ++ 10 :: rest
  | [], l, l2, ls, h => by simp [splitNL] at h
  | c :: cs, l, l2, ls, h => by
    by_cases hc : c = 10
    · subst hc
      rw [splitNL_cons_nl] at h
      obtain ⟨rfl, _⟩ : [] = l ∧ _ := by simpa using h
      exact ⟨cs, rfl⟩
    · obtain ⟨m, ms, h1, h2⟩ := splitNL_cons_ne c cs hc
      rw [h2] at h
      obtain ⟨rfl, rfl⟩ : c :: m = l ∧ ms = l2 :: ls := by simpa using h
      obtain ⟨rest, rfl⟩ := splitNL_cons_cons cs m l2 ls h1
      exact ⟨rest, rfl⟩

theorem stableButLast_splitNL : ∀ (t : List Nat), hasCRCRLF t = false → stableButLast (splitNL t)
  | [], _ => by simp [splitNL, stableButLast]
  | c :: rest, h => by
    have ih := stableButLast_splitNL rest (hasCRCRLF_tail c rest h)
    by_cases hc : c = 10
    · subst hc
      rw [splitNL_cons_nl]
      cases hs : splitNL rest with
      | nil => exact absurd hs (splitNL_ne_nil rest)
      | cons l ls =>
        rw [hs] at ih
        exact ⟨by simp [stripCR_nil], ih⟩
    · obtain ⟨l, ls, h1, h2⟩ := splitNL_cons_ne c rest hc
      rw [h2]
      rw [h1] at ih
      cases ls with
      | nil => trivial
      | cons l2 ls2 =>
        obtain ⟨ih1, ih2⟩ := ih
        refine ⟨stripCR_idem_cons c l ?_ ih1, ih2⟩
        intro hl hc13
        subst hl; subst hc13
        obtain ⟨r, rfl⟩ := splitNL_cons_cons rest [13] l2 ls2 h1
        simp [hasCRCRLF] at h

theorem linesGo_stripAllButLast (f : MonoFont) (st : Style) (ts : TextStyle) :
    ∀ (segs : List (List Nat)) (p : Pt), stableButLast segs →
      linesGo f st ts p (stripAllButLast segs) = linesGo f st ts p segs
  | [], _, _ => rfl
  | [_], _, _ => rfl
  | l :: l' :: ls, p, h => by
    obtain ⟨h1, h2⟩ := h
    simp only [stripAllButLast, linesGo, h1, linesGo_stripAllButLast f st ts (l' :: ls) _ h2]

/-- **CR LF = LF**: replacing every `\r\n` by `\n` changes neither the contents nor the positions of
the lines, for every alignment — provided no `\r\r\n` occurs (there the replacement would turn the
preceding `\r` into part of a new `\r\n`). -/
theorem lines_crlfToLf (f : MonoFont) (t : Text) (h : hasCRCRLF t.text = false) :
    lines f { t with text := crlfToLf t.text } = lines f t := by
  simp only [lines, splitNL_crlfToLf]
  exact linesGo_stripAllButLast f t.style t.ts _ _ (stableButLast_splitNL t.text h)

/-! ### Multi-line text = its segments drawn as separate texts -/

theorem draw_single (f : MonoFont) (atlas : Pt → Bool) (t : Text) (h : 10 ∉ t.text) :
    draw f atlas t =
      f.drawString atlas t.style (stripCR t.text) (alignedPos f t.style t.ts (stripCR t.text) t.position)
        t.ts.baseline := by
  simp [draw, lines_single f t h, drawLines]

theorem linesGo_calls_eq_segments (f : MonoFont) (atlas : Pt → Bool) (st : Style) (ts : TextStyle) :
    ∀ (segs : List (List Nat)) (p : Pt), (∀ seg ∈ segs, 10 ∉ seg) →
      (linesGo f st ts p segs).flatMap (fun lp => (f.drawString atlas st lp.1 lp.2 ts.baseline).1) =
        (segs.mapIdx (fun i seg =>
          (draw f atlas ⟨seg, ⟨p.x, p.y + (i : Int) * lineHeight f ts⟩, st, ts⟩).1)).flatten
  | [], _, _ => by simp [linesGo]
  | seg :: rest, p, h => by
    have hseg : 10 ∉ seg := h seg (by simp)
    have ih := linesGo_calls_eq_segments f atlas st ts rest ⟨p.x, p.y + lineHeight f ts⟩
      (fun s hs => h s (List.mem_cons_of_mem _ hs))
    rw [linesGo, List.flatMap_cons, ih, List.mapIdx_cons, List.flatten_cons]
    have e0 : (⟨p.x, p.y + ((0 : Nat) : Int) * lineHeight f ts⟩ : Pt) = p := by
      rw [Pt.ext_iff']; simp
    rw [e0, draw_single f atlas ⟨seg, p, st, ts⟩ hseg]
    congr 2
    apply List.ext_getElem
    · simp
    · intro i h1 h2
      simp only [List.getElem_mapIdx]
      have e : (⟨p.x, p.y + lineHeight f ts + (i : Int) * lineHeight f ts⟩ : Pt) =
          ⟨p.x, p.y + ((i + 1 : Nat) : Int) * lineHeight f ts⟩ := by
        rw [Pt.ext_iff']
        refine ⟨rfl, ?_⟩
        simp only [Int.natCast_add, Int.natCast_one, Int.add_mul, Int.one_mul]
        omega
      rw [e]

end TextLayout
end EG
