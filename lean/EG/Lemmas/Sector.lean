/-
  EG.Lemmas.Sector — the sector / arc point iterators equal their closed forms:
  `DistanceIterator` = the bounding box's points decorated with `(delta, distance)`, `find` =
  "first element of the filtered rest", `Sector::points() = bounding_box().points().filter(contains)`,
  `Arc::points() = bounding_box().points().filter(ring ∧ plane sector)`; the inner threshold of the
  arc is the membership test of `circle.offset(-1)`.
  The plane sector is an arbitrary parameter throughout.
-/
import EG.Lemmas.CirclePoints
import EG.Model.Sector
namespace EG

/-! ### the rectangle iterator: its budget bounds what is left; `points = pointsIt.rest` -/

theorem Rect.PointsIt.rest_length_lt_budget (it : Rect.PointsIt) : it.rest.length < it.budget := by
  unfold Rect.PointsIt.budget
  by_cases hy : it.y < it.yEnd
  · rw [Rect.PointsIt.rest_length it hy]
    have e : (it.yEnd - it.y).toNat = (it.yEnd - (it.y + 1)).toNat + 1 := by omega
    rw [e, Nat.succ_mul, Nat.mul_succ]
    omega
  · have : it.rest = [] := by simp [Rect.PointsIt.rest, hy]
    rw [this]
    simp

theorem Rect.pointsIt_rest (r : Rect) : r.pointsIt.rest = r.points := by
  rw [Rect.points_eq_spec]
  unfold Rect.pointsSpec Rect.pointsIt
  by_cases hz : r.isZeroSized = true
  · simp only [hz, if_true]
    rfl
  · simp only [hz]
    simp only [Bool.false_eq_true, if_false]
    simp only [Rect.PointsIt.rest, Rect.rows, Rect.columns, Rect.rowsEnd, Rect.columnsEnd]
    by_cases hy : r.tl.y < satAddI32 r.tl.y (satAsI32 r.size.h)
    · simp only [hy, ↓reduceIte]; rw [irange_cons hy]; simp
    · simp only [hy, ↓reduceIte]
      rw [irange_empty (a := r.tl.y) (b := satAddI32 r.tl.y (satAsI32 r.size.h)) (by omega)]; simp

/-! ### `DistanceIterator` -/

namespace DistIt

/-- Closed form of what the distance iterator still has to yield. -/
def rest (it : DistIt) : List DistItem := it.points.rest.map (item it.center2x)

theorem item_fst (c2 p : Pt) : (item c2 p).1 = p := rfl

theorem next_spec (it : DistIt) :
    match it.next with
    | some (x, it') => it.rest = x :: it'.rest
    | none => it.rest = [] := by
  unfold next
  have h := it.points.next_spec
  cases hpn : it.points.next with
  | none =>
    rw [hpn] at h
    simp only at h ⊢
    simp only [rest, h, List.map_nil]
  | some q =>
    obtain ⟨p, pts'⟩ := q
    rw [hpn] at h
    simp only at h ⊢
    simp only [rest, h, List.map_cons]

theorem next_budget (it : DistIt) :
    match it.next with
    | some (_, it') => it'.rest.length < it.rest.length
    | none => True := by
  have h := it.next_spec
  split <;> rename_i heq <;> rw [heq] at h <;> simp only at h
  · rw [h]; simp
  · trivial

/-- `find`: the first element of the filtered rest, leaving the filtered remainder. -/
theorem findFuel_spec (pred : DistItem → Bool) : ∀ (fuel : Nat) (it : DistIt), it.rest.length < fuel →
    match it.findFuel pred fuel with
    | some (x, it') => it.rest.filter pred = x :: it'.rest.filter pred
    | none => it.rest.filter pred = [] := by
  intro fuel
  induction fuel with
  | zero => intro it h; omega
  | succ fuel ih =>
    intro it h
    unfold findFuel
    have hn := it.next_spec
    cases hnx : it.next with
    | none =>
      rw [hnx] at hn
      simp only at hn ⊢
      rw [hn]; rfl
    | some q =>
      obtain ⟨x, it'⟩ := q
      rw [hnx] at hn
      simp only at hn ⊢
      rw [hn] at h ⊢
      by_cases hp : pred x = true
      · simp only [hp, ↓reduceIte, List.filter_cons_of_pos]
      · have hp' : pred x = false := by simpa using hp
        simp only [hp', Bool.false_eq_true, ↓reduceIte]
        rw [List.filter_cons_of_neg (by simp [hp'])]
        exact ih it' (by simpa using h)

theorem find_spec (pred : DistItem → Bool) (it : DistIt) :
    match it.find pred with
    | some (x, it') => it.rest.filter pred = x :: it'.rest.filter pred
    | none => it.rest.filter pred = [] :=
  findFuel_spec pred _ it (by unfold rest; rw [List.length_map]; exact it.points.rest_length_lt_budget)

theorem rest_new (c2 : Pt) (bb : Rect) : (new c2 bb).rest = bb.points.map (item c2) := by
  unfold rest new
  rw [Rect.pointsIt_rest]

theorem rest_length_lt_budget (it : DistIt) : it.rest.length < it.points.budget := by
  unfold rest; rw [List.length_map]; exact it.points.rest_length_lt_budget

end DistIt

/-- `((l.map (item c2)).filter pred).map fst = l.filter (pred ∘ item c2)` -/
theorem filter_items (c2 : Pt) (pred : DistItem → Bool) (l : List Pt) :
    ((l.map (DistIt.item c2)).filter pred).map (·.1) = l.filter (fun p => pred (DistIt.item c2 p)) := by
  induction l with
  | nil => rfl
  | cons p l ih =>
    simp only [List.map_cons]
    by_cases hp : pred (DistIt.item c2 p) = true
    · rw [List.filter_cons_of_pos hp, List.filter_cons_of_pos (by simpa using hp), List.map_cons, ih]
      rfl
    · have hp' : pred (DistIt.item c2 p) = false := by simpa using hp
      rw [List.filter_cons_of_neg (by simp [hp']), List.filter_cons_of_neg (by simp [hp']), ih]

/-- The `distance` component of an item passes `< T` iff the circle's scanline hit test does. -/
theorem item_dist_lt (c2 : Pt) (T : Nat) (p : Pt) :
    decide ((DistIt.item c2 p).2.2 < T) = Circle.hit c2 T p.y p.x := rfl

theorem item_delta (c2 p : Pt) : (DistIt.item c2 p).2.1 = (⟨p.x * 2, p.y * 2⟩ : Pt) - c2 := rfl

/-! ### `PlaneSector` -/

/-- `EntirePlane` accepts every point. -/
theorem PlaneSector.contains_of_entire {ps : PlaneSector} (h : ps.op = .entirePlane) (p : Pt) :
    ps.contains p = true := by
  unfold PlaneSector.contains PlaneSector.behindBisector
  simp [h, PlaneOp.execute]

/-! ### `Sector` -/

namespace Sector

theorem center2x_eq (s : Sector) : s.center2x = s.toCircle.center2x := rfl
theorem boundingBox_eq (s : Sector) : s.boundingBox = s.toCircle.boundingBox := rfl

/-- `contains` = circle hit test ∧ plane sector on `delta = 2p - center_2x`. -/
theorem contains_eq (s : Sector) (p : Pt) :
    s.contains p = (Circle.hit s.toCircle.center2x s.toCircle.threshold p.y p.x &&
      s.ps.contains ((⟨p.x * 2, p.y * 2⟩ : Pt) - s.toCircle.center2x)) := by
  unfold contains
  have : s.toCircle.contains p = Circle.hit s.toCircle.center2x s.toCircle.threshold p.y p.x :=
    Circle.contains_eq_hit s.toCircle p.x p.y
  rw [this, center2x_eq]
  cases Circle.hit s.toCircle.center2x s.toCircle.threshold p.y p.x <;> simp

theorem contains_iff (s : Sector) (p : Pt) :
    s.contains p = true ↔ s.toCircle.contains p = true ∧
      s.ps.contains ((⟨p.x * 2, p.y * 2⟩ : Pt) - s.toCircle.center2x) = true := by
  rw [contains_eq, Bool.and_eq_true, ← Circle.contains_eq_hit]

/-- The `find` closure on the item of `p` is `contains p`. -/
theorem pred_item (s : Sector) (p : Pt) :
    s.pointsIt.pred (DistIt.item s.toCircle.center2x p) = s.contains p := by
  rw [contains_eq]
  unfold PointsIt.pred pointsIt
  simp only [item_dist_lt, item_delta]

/-- Closed form of what the iterator state still has to yield. -/
def PointsIt.rest (it : PointsIt) : List Pt := (it.iter.rest.filter it.pred).map (·.1)

theorem PointsIt.next_spec (it : PointsIt) :
    match it.next with
    | some (p, it') => it.rest = p :: it'.rest
    | none => it.rest = [] := by
  unfold PointsIt.next
  have h := it.iter.find_spec it.pred
  cases hf : it.iter.find it.pred with
  | none =>
    rw [hf] at h
    simp only at h ⊢
    simp only [PointsIt.rest, h, List.map_nil]
  | some q =>
    obtain ⟨x, iter'⟩ := q
    rw [hf] at h
    simp only at h ⊢
    simp only [PointsIt.rest, h, List.map_cons]
    rfl

theorem PointsIt.toListFuel_eq : ∀ (fuel : Nat) (it : PointsIt), it.rest.length < fuel →
    it.toListFuel fuel = it.rest := by
  intro fuel
  induction fuel with
  | zero => intro it h; omega
  | succ fuel ih =>
    intro it h
    unfold PointsIt.toListFuel
    have := it.next_spec
    split <;> rename_i heq <;> rw [heq] at this <;> simp only at this
    · rw [this] at h ⊢
      rw [ih _ (by simpa using h)]
    · exact this.symm

theorem PointsIt.rest_length_le (it : PointsIt) : it.rest.length ≤ it.iter.rest.length := by
  unfold PointsIt.rest
  rw [List.length_map]
  exact List.length_filter_le _ _

/-- **`Sector::points()` is `bounding_box().points()` filtered by `contains()`** — for every
sector and every plane sector (no range condition: the iterator *is* the filtered box). -/
theorem points_eq_filter (s : Sector) : s.points = s.boundingBox.points.filter s.contains := by
  unfold points
  simp only
  rw [PointsIt.toListFuel_eq _ _ (by
    have h1 := s.pointsIt.rest_length_le
    have h2 := s.pointsIt.iter.rest_length_lt_budget
    omega)]
  unfold PointsIt.rest
  have hi : s.pointsIt.iter = DistIt.new s.toCircle.center2x s.toCircle.boundingBox := rfl
  rw [hi, DistIt.rest_new, filter_items, boundingBox_eq]
  congr 1
  funext p
  exact pred_item s p

theorem contains_imp_circle {s : Sector} {p : Pt} (h : s.contains p = true) :
    s.toCircle.contains p = true := ((contains_iff s p).mp h).1

theorem contains_imp_bbox {s : Sector} {p : Pt} (h : s.contains p = true) :
    s.boundingBox.contains p = true := by
  rw [boundingBox_eq]; exact Circle.contains_imp_bbox (contains_imp_circle h)

/-- With the `EntirePlane` operation `contains` is the circle's. -/
theorem contains_entire {s : Sector} (h : s.ps.op = .entirePlane) (p : Pt) :
    s.contains p = s.toCircle.contains p := by
  rw [contains_eq, ← Circle.contains_eq_hit, PlaneSector.contains_of_entire h, Bool.and_true]

/-- The plane sector only sees `delta`, so `contains` commutes with translation. -/
theorem contains_translate (s : Sector) (t p : Pt) :
    (s.translate t).contains (p + t) = s.contains p := by
  rw [contains_eq, contains_eq]
  have hc : (s.translate t).toCircle.center2x = s.toCircle.center2x + ⟨t.x * 2, t.y * 2⟩ := by
    unfold translate toCircle Circle.center2x
    rw [Pt.ext_iff']
    simp only [Pt.add_x, Pt.add_y]
    omega
  have hT : (s.translate t).toCircle.threshold = s.toCircle.threshold := rfl
  have hps : (s.translate t).ps = s.ps := rfl
  have hd : ((⟨(p + t).x * 2, (p + t).y * 2⟩ : Pt) - (s.toCircle.center2x + ⟨t.x * 2, t.y * 2⟩)) =
      (⟨p.x * 2, p.y * 2⟩ : Pt) - s.toCircle.center2x := by
    rw [Pt.ext_iff']
    simp only [Pt.sub_x, Pt.sub_y, Pt.add_x, Pt.add_y]
    omega
  rw [hc, hT, hps, hd]
  congr 1
  unfold Circle.hit
  simp only
  rw [hd]

end Sector

/-! ### `Arc` -/

namespace Arc

theorem boundingBox_eq (a : Arc) : a.boundingBox = a.toCircle.boundingBox := rfl

/-- `circle.offset(-1)` keeps `center_2x` (when it is not empty) and has diameter `d - 2`:
its membership test is the inner threshold on the outer circle's distance. -/
theorem inner_contains_iff (c : Circle) (p : Pt) :
    (c.offset (-1)).contains p = true ↔ dist2 c.center2x p < ((c.offset (-1)).threshold : Int) := by
  have hd : (c.offset (-1)).d = c.d - 2 := by
    unfold Circle.offset Circle.withCenter
    simp
  by_cases h3 : 3 ≤ c.d
  · rw [Circle.contains_iff]
    have hc : (c.offset (-1)).center2x = c.center2x := by
      have hx : (c.offset (-1)).tl.x = c.tl.x + ((c.d - 1) / 2 : Nat) - (((c.d - 2 - 1) / 2 : Nat) : Int) := by
        unfold Circle.offset Circle.withCenter Rect.withCenter Circle.center Rect.center Circle.boundingBox
          Rect.centerOffset
        simp
      have hy : (c.offset (-1)).tl.y = c.tl.y + ((c.d - 1) / 2 : Nat) - (((c.d - 2 - 1) / 2 : Nat) : Int) := by
        unfold Circle.offset Circle.withCenter Rect.withCenter Circle.center Rect.center Circle.boundingBox
          Rect.centerOffset
        simp
      rw [Pt.ext_iff', Circle.center2x_x, Circle.center2x_y, Circle.center2x_x, Circle.center2x_y, hx, hy, hd]
      omega
    rw [hc]
  · have h0 : (c.offset (-1)).d = 0 := by omega
    rw [Circle.contains_false_of_zero h0]
    have hT : (c.offset (-1)).threshold = 0 := by
      unfold Circle.threshold; rw [h0]; rfl
    rw [hT]
    have := dist2_nonneg c.center2x p
    constructor
    · intro h; cases h
    · intro h; simp only [Nat.cast_zero] at h; omega

/-- The predicate `Arc::points()` filters with, on points: outer circle, not the inner circle,
plane sector on `delta`. -/
def accepts (a : Arc) (p : Pt) : Bool :=
  a.toCircle.contains p && !(a.toCircle.offset (-1)).contains p &&
    a.ps.contains ((⟨p.x * 2, p.y * 2⟩ : Pt) - a.toCircle.center2x)

theorem item_dist_ge (c : Circle) (p : Pt) :
    decide ((DistIt.item c.center2x p).2.2 ≥ (c.offset (-1)).threshold) = !(c.offset (-1)).contains p := by
  rw [Bool.eq_iff_iff]
  simp only [decide_eq_true_eq, Bool.not_eq_true', ← Bool.not_eq_true, inner_contains_iff]
  have h0 := dist2_nonneg c.center2x p
  have : ((DistIt.item c.center2x p).2.2 : Int) = dist2 c.center2x p := by
    unfold DistIt.item
    simp only [lengthSquared, Pt.sub_x, Pt.sub_y]
    unfold dist2 at h0 ⊢
    omega
  omega

theorem pred_item (a : Arc) (p : Pt) :
    a.pointsIt.pred (DistIt.item a.toCircle.center2x p) = a.accepts p := by
  unfold accepts PointsIt.pred pointsIt
  simp only
  rw [item_dist_ge, item_dist_lt, item_delta, ← Circle.contains_eq_hit]

def PointsIt.rest (it : PointsIt) : List Pt := (it.iter.rest.filter it.pred).map (·.1)

theorem PointsIt.next_spec (it : PointsIt) :
    match it.next with
    | some (p, it') => it.rest = p :: it'.rest
    | none => it.rest = [] := by
  unfold PointsIt.next
  have h := it.iter.find_spec it.pred
  cases hf : it.iter.find it.pred with
  | none =>
    rw [hf] at h
    simp only at h ⊢
    simp only [PointsIt.rest, h, List.map_nil]
  | some q =>
    obtain ⟨x, iter'⟩ := q
    rw [hf] at h
    simp only at h ⊢
    simp only [PointsIt.rest, h, List.map_cons]
    rfl

theorem PointsIt.toListFuel_eq : ∀ (fuel : Nat) (it : PointsIt), it.rest.length < fuel →
    it.toListFuel fuel = it.rest := by
  intro fuel
  induction fuel with
  | zero => intro it h; omega
  | succ fuel ih =>
    intro it h
    unfold PointsIt.toListFuel
    have := it.next_spec
    split <;> rename_i heq <;> rw [heq] at this <;> simp only at this
    · rw [this] at h ⊢
      rw [ih _ (by simpa using h)]
    · exact this.symm

theorem PointsIt.rest_length_le (it : PointsIt) : it.rest.length ≤ it.iter.rest.length := by
  unfold PointsIt.rest
  rw [List.length_map]
  exact List.length_filter_le _ _

/-- **`Arc::points()` is `bounding_box().points()` filtered by "in the circle, not in
`circle.offset(-1)`, in the plane sector".** -/
theorem points_eq_filter (a : Arc) : a.points = a.boundingBox.points.filter a.accepts := by
  unfold points
  simp only
  rw [PointsIt.toListFuel_eq _ _ (by
    have h1 := a.pointsIt.rest_length_le
    have h2 := a.pointsIt.iter.rest_length_lt_budget
    omega)]
  unfold PointsIt.rest
  have hi : a.pointsIt.iter = DistIt.new a.toCircle.center2x a.toCircle.boundingBox := rfl
  rw [hi, DistIt.rest_new, filter_items, boundingBox_eq]
  congr 1
  funext p
  exact pred_item a p

theorem accepts_entire {a : Arc} (h : a.ps.op = .entirePlane) (p : Pt) :
    a.accepts p = (a.toCircle.contains p && !(a.toCircle.offset (-1)).contains p) := by
  unfold accepts
  rw [PlaneSector.contains_of_entire h, Bool.and_true]

end Arc
end EG
