/-
  EG.Lemmas.TriangleArith — the polynomial identities behind the triangle lemmas (`ring`):
  how `area_doubled` and the two barycentric numerators `s`, `t` of `contains` change under the two
  generating transpositions of the vertices and under translation.
-/
import EG.Model.Triangle
import Mathlib.Tactic.Ring
namespace EG
namespace Triangle

theorem areaDoubled_swap12 (a b c : Pt) : areaDoubled ⟨b, a, c⟩ = -areaDoubled ⟨a, b, c⟩ := by
  simp only [areaDoubled]; ring

theorem areaDoubled_swap23 (a b c : Pt) : areaDoubled ⟨a, c, b⟩ = -areaDoubled ⟨a, b, c⟩ := by
  simp only [areaDoubled]; ring

/-- Swapping the first two vertices: `s' = s + t - a`. -/
theorem baryS_swap12 (a b c p : Pt) :
    baryS ⟨b, a, c⟩ p = baryS ⟨a, b, c⟩ p + baryT ⟨a, b, c⟩ p - areaDoubled ⟨a, b, c⟩ := by
  simp only [baryS, baryT, areaDoubled]; ring

/-- Swapping the first two vertices: `t' = -t`. -/
theorem baryT_swap12 (a b c p : Pt) : baryT ⟨b, a, c⟩ p = -baryT ⟨a, b, c⟩ p := by
  simp only [baryT]; ring

/-- Swapping the last two vertices: `s' = -t`. -/
theorem baryS_swap23 (a b c p : Pt) : baryS ⟨a, c, b⟩ p = -baryT ⟨a, b, c⟩ p := by
  simp only [baryS, baryT]; ring

/-- Swapping the last two vertices: `t' = -s`. -/
theorem baryT_swap23 (a b c p : Pt) : baryT ⟨a, c, b⟩ p = -baryS ⟨a, b, c⟩ p := by
  simp only [baryS, baryT]; ring

theorem areaDoubled_translate (t : Triangle) (d : Pt) : (t.translate d).areaDoubled = t.areaDoubled := by
  simp only [areaDoubled, translate, Pt.add_x, Pt.add_y]; ring

theorem baryS_translate (t : Triangle) (d p : Pt) : (t.translate d).baryS (p + d) = t.baryS p := by
  simp only [baryS, translate, Pt.add_x, Pt.add_y]; ring

theorem baryT_translate (t : Triangle) (d p : Pt) : (t.translate d).baryT (p + d) = t.baryT p := by
  simp only [baryT, translate, Pt.add_x, Pt.add_y]; ring

/-- `s`, `t` and `a - s - t` are the three edge functions (twice the signed areas of `p` with an
edge): the barycentric test is the closed three-half-plane test. -/
theorem bary_edge_functions (a b c p : Pt) :
    baryS ⟨a, b, c⟩ p = (c.y - a.y) * (p.x - a.x) - (c.x - a.x) * (p.y - a.y) ∧
    baryT ⟨a, b, c⟩ p = (b.x - a.x) * (p.y - a.y) - (b.y - a.y) * (p.x - a.x) ∧
    areaDoubled ⟨a, b, c⟩ - baryS ⟨a, b, c⟩ p - baryT ⟨a, b, c⟩ p =
      (c.x - b.x) * (p.y - b.y) - (c.y - b.y) * (p.x - b.x) ∧
    areaDoubled ⟨a, b, c⟩ = (b.x - a.x) * (c.y - a.y) - (b.y - a.y) * (c.x - a.x) := by
  simp only [baryS, baryT, areaDoubled]
  refine ⟨?_, ?_, ?_, ?_⟩ <;> ring


/-- `s` is the edge function of the edge `v3 v1`. -/
theorem baryS_eq_edge31 (a b c p : Pt) :
    baryS ⟨a, b, c⟩ p = (a.x - c.x) * (p.y - c.y) - (a.y - c.y) * (p.x - c.x) := by
  simp only [baryS]; ring

end Triangle
end EG
