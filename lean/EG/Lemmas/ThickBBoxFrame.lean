/-
  EG.Lemmas.ThickBBoxFrame — the step vectors of a stroked line and of its perpendicular
  (`BresenhamParameters::new(line)`, `::new(line.perpendicular())`), as far as the bounding-box
  argument of thick lines needs them:
  * both pairs `(major, minor)` are unit vectors on the two different axes (`AxisPair`);
  * the perpendicular has the same major and minor lengths;
  * `mirror_extra_points` of the perpendicular decides on which side of the diagonal step the
    extra points lie: `major + minor` of the line is `minor' - major'` (mirrored) or
    `major' - minor'` (not mirrored) of the perpendicular - the reason why `Line::extents` may
    shorten an extra parallel by `major + minor`;
  * `delta = dmaj * major + dmin * minor`;
  * the quadrant `Cone` spanned by the perpendicular's two steps.
-/
import EG.Lemmas.ThickWidth1
namespace EG
namespace Thick
open Line

/-- Integer multiple of a vector. -/
def smul (k : Int) (v : Pt) : Pt := ⟨k * v.x, k * v.y⟩

@[simp] theorem smul_x (k : Int) (v : Pt) : (smul k v).x = k * v.x := rfl
@[simp] theorem smul_y (k : Int) (v : Pt) : (smul k v).y = k * v.y := rfl

/-- `A`, `a` are unit vectors on the two different axes. -/
def AxisPair (A a : Pt) : Prop :=
  ((A = ⟨0, 1⟩ ∨ A = ⟨0, -1⟩) ∧ (a = ⟨1, 0⟩ ∨ a = ⟨-1, 0⟩)) ∨
  ((A = ⟨1, 0⟩ ∨ A = ⟨-1, 0⟩) ∧ (a = ⟨0, 1⟩ ∨ a = ⟨0, -1⟩))

theorem sgn_eq (a : Int) : sgn a = 1 ∨ sgn a = -1 := by
  unfold sgn; split <;> simp

theorem axisPair_params (n : Line) : AxisPair (pmaj n) (pmin n) := by
  unfold pmaj pmin AxisPair
  by_cases h : yMajor n
  · simp only [h, ↓reduceIte]
    left
    rcases sgn_eq (dyOf n) with h1 | h1 <;> rcases sgn_eq (dxOf n) with h2 | h2 <;> simp [h1, h2]
  · simp only [h, ↓reduceIte]
    right
    rcases sgn_eq (dyOf n) with h1 | h1 <;> rcases sgn_eq (dxOf n) with h2 | h2 <;> simp [h1, h2]

theorem dxOf_perpendicular (n : Line) : dxOf n.perpendicular = dyOf n := by
  unfold dxOf dyOf Line.perpendicular
  simp only [Pt.add_x, Pt.sub_y]
  omega

theorem dyOf_perpendicular (n : Line) : dyOf n.perpendicular = -dxOf n := by
  unfold dxOf dyOf Line.perpendicular
  simp only [Pt.add_y, Pt.sub_x]
  omega

theorem aabs_neg (a : Int) : aabs (-a) = aabs a := by unfold aabs; split <;> split <;> omega

theorem dmin_perpendicular_bb (n : Line) : dmin n.perpendicular = dmin n := by
  have hpx := dxOf_perpendicular n
  have hpy := dyOf_perpendicular n
  unfold dmin
  by_cases h1 : yMajor n <;> by_cases h2 : yMajor n.perpendicular <;>
    simp only [h1, h2, ↓reduceIte, hpx, hpy, aabs_neg] <;>
    unfold yMajor at h1 h2 <;> rw [hpx, hpy, aabs_neg] at h2 <;> omega

theorem sgn_neg {a : Int} (h : a ≠ 0) : sgn (-a) = -sgn a := by
  unfold sgn; split <;> split <;> omega

/-- The `mirror_extra_points` relation (for lines that are not vertical). -/
theorem mirror_red (n : Line) (hx : dxOf n ≠ 0) :
    ((BresenhamParameters.new n.perpendicular).mirrorExtraPoints = true →
      pmaj n + pmin n = pmin n.perpendicular - pmaj n.perpendicular) ∧
    ((BresenhamParameters.new n.perpendicular).mirrorExtraPoints = false →
      pmaj n + pmin n = pmaj n.perpendicular - pmin n.perpendicular) := by
  have hpx := dxOf_perpendicular n
  have hpy := dyOf_perpendicular n
  rw [params_new]
  unfold BresenhamParameters.mirrorExtraPoints
  simp only
  unfold pmaj pmin
  by_cases h1 : yMajor n <;> by_cases h2 : yMajor n.perpendicular <;>
    simp only [h1, h2, ↓reduceIte, hpx, hpy, sgn_neg hx] <;>
    rcases sgn_eq (dxOf n) with s1 | s1 <;> rcases sgn_eq (dyOf n) with s2 | s2 <;>
    simp [s1, s2, Pt.ext_iff']

/-- `delta = dmaj * major + dmin * minor`. -/
theorem delta_decomp (n : Line) :
    n.stop - n.start = smul (dmaj n) (pmaj n) + smul (dmin n) (pmin n) := by
  have ha : ∀ a : Int, aabs a * sgn a = a := aabs_mul_sgn
  unfold dmaj dmin pmaj pmin
  by_cases h : yMajor n
  · simp only [h, ↓reduceIte, Pt.ext_iff', Pt.sub_x, Pt.sub_y, Pt.add_x, Pt.add_y, smul_x, smul_y,
      ha, Int.mul_zero, Int.zero_add, Int.add_zero]
    unfold dxOf dyOf
    exact ⟨rfl, rfl⟩
  · simp only [h, ↓reduceIte, Pt.ext_iff', Pt.sub_x, Pt.sub_y, Pt.add_x, Pt.add_y, smul_x, smul_y,
      ha, Int.mul_zero, Int.zero_add, Int.add_zero]
    unfold dxOf dyOf
    exact ⟨rfl, rfl⟩

/-- `dmin > 0` means that the line is not axis parallel. -/
theorem dmin_pos_iff (n : Line) : 0 < dmin n ↔ dxOf n ≠ 0 ∧ dyOf n ≠ 0 := by
  unfold dmin yMajor aabs
  split <;> split <;> (try split) <;> omega

/-! ### The quadrant spanned by the perpendicular's steps -/

/-- `v` lies in the (closed) quadrant spanned by the unit vectors `A`, `a` of different axes. -/
def Cone (A a v : Pt) : Prop := 0 ≤ (A + a).x * v.x ∧ 0 ≤ (A + a).y * v.y

theorem cone_zero (A a p : Pt) : Cone A a (p - p) := by
  unfold Cone; simp

theorem cone_major {A a : Pt} (h : AxisPair A a) (p : Pt) : Cone A a (p + A - p) := by
  unfold Cone
  rcases h with ⟨h1 | h1, h2 | h2⟩ | ⟨h1 | h1, h2 | h2⟩ <;> subst h1 <;> subst h2 <;>
    simp only [Pt.add_x, Pt.add_y, Pt.sub_x, Pt.sub_y] <;> omega

theorem cone_minor {A a : Pt} (h : AxisPair A a) (p : Pt) : Cone A a (p + a - p) := by
  unfold Cone
  rcases h with ⟨h1 | h1, h2 | h2⟩ | ⟨h1 | h1, h2 | h2⟩ <;> subst h1 <;> subst h2 <;>
    simp only [Pt.add_x, Pt.add_y, Pt.sub_x, Pt.sub_y] <;> omega

/-- The quadrant order is transitive. -/
theorem cone_trans {A a : Pt} (h : AxisPair A a) {p q r : Pt} (h1 : Cone A a (q - p))
    (h2 : Cone A a (r - q)) : Cone A a (r - p) := by
  unfold Cone at *
  rcases h with ⟨e1 | e1, e2 | e2⟩ | ⟨e1 | e1, e2 | e2⟩ <;> subst e1 <;> subst e2 <;>
    simp only [Pt.add_x, Pt.add_y, Pt.sub_x, Pt.sub_y] at * <;> omega

/-- Equal differences. -/
theorem cone_congr {A a v w : Pt} (h : Cone A a v) (e : v = w) : Cone A a w := e ▸ h

/-- A point between two others in the quadrant order lies coordinate-wise between them. -/
theorem between_of_cone {A a : Pt} (h : AxisPair A a) {p q r : Pt} (h1 : Cone A a (q - p))
    (h2 : Cone A a (r - q)) :
    (min p.x r.x ≤ q.x ∧ q.x ≤ max p.x r.x) ∧ (min p.y r.y ≤ q.y ∧ q.y ≤ max p.y r.y) := by
  unfold Cone at *
  rcases h with ⟨e1 | e1, e2 | e2⟩ | ⟨e1 | e1, e2 | e2⟩ <;> subst e1 <;> subst e2 <;>
    simp only [Pt.add_x, Pt.add_y, Pt.sub_x, Pt.sub_y] at * <;> omega

end Thick
end EG
