/-
  EG.Lemmas.Polyline — `polyline::Points` (state machine) = the union of the segment lines with
  each joint once.
-/
import EG.Lemmas.LineProps
import EG.Model.Polyline
namespace EG
namespace Polyline

/-- The segments after the first: each contributes its points without its first point. -/
def tailSegs (tr : Pt) : List Pt → List Pt
  | [] => []
  | [_] => []
  | a :: b :: rest => (Line.points ⟨a + tr, b + tr⟩).tail ++ tailSegs tr (b :: rest)

/-- Specification of `Polyline::points()`: `seg0.points ++ seg1.points.tail ++ seg2.points.tail ++ ..`
(nothing for fewer than two vertices). -/
def pointsSpec (pl : Polyline) : List Pt :=
  match pl.vertices with
  | [] => []
  | [_] => []
  | a :: b :: rest =>
    Line.points ⟨a + pl.translate, b + pl.translate⟩ ++ tailSegs pl.translate (b :: rest)

/-- Closed form of what the iterator state still has to yield. -/
def PointsIt.rest (it : PointsIt) : List Pt :=
  it.segmentIter.toList ++ tailSegs it.translate it.vertices

theorem line_next_some {it it' : Line.PointsIt} {p : Pt} (h : it.next = some (p, it')) :
    it.toList = p :: it'.toList := by
  unfold Line.PointsIt.next at h
  by_cases hr : it.pointsRemaining > 0
  · simp only [hr, ↓reduceIte, Option.some.injEq, Prod.mk.injEq] at h
    obtain ⟨rfl, rfl⟩ := h
    obtain ⟨n, hn⟩ : ∃ n, it.pointsRemaining = n + 1 := ⟨it.pointsRemaining - 1, by omega⟩
    unfold Line.PointsIt.toList
    rw [hn]
    simp only [Line.PointsIt.toListFuel, Line.PointsIt.next, hn, Nat.zero_lt_succ, ↓reduceIte,
      Nat.add_sub_cancel]
  · simp only [hr, ↓reduceIte] at h
    exact absurd h (by simp)

theorem line_next_none {it : Line.PointsIt} (h : it.next = none) : it.toList = [] := by
  unfold Line.PointsIt.next at h
  by_cases hr : it.pointsRemaining > 0
  · simp only [hr, ↓reduceIte] at h
    exact absurd h (by simp)
  · have : it.pointsRemaining = 0 := by omega
    unfold Line.PointsIt.toList
    rw [this]; rfl

/-- A fresh segment iterator yields its first point. -/
theorem line_pointsIt_next (l : Line) :
    ∃ p seg, (Line.pointsIt l).next = some (p, seg) ∧ Line.points l = p :: seg.toList := by
  have hpos : (Line.pointsIt l).pointsRemaining > 0 := by
    simp only [Line.pointsIt, majorLength]; omega
  have : ∃ r, (Line.pointsIt l).next = some r := by
    unfold Line.PointsIt.next
    simp only [hpos, ↓reduceIte]
    exact ⟨_, rfl⟩
  obtain ⟨⟨p, seg⟩, h⟩ := this
  exact ⟨p, seg, h, line_next_some h⟩

theorem PointsIt.nextFuel_spec : ∀ (fuel : Nat) (it : PointsIt), it.vertices.length < fuel →
    match it.nextFuel fuel with
    | some (p, it') => it.rest = p :: it'.rest
    | none => it.rest = [] := by
  intro fuel
  induction fuel with
  | zero => intro it h; omega
  | succ fuel ih =>
    intro it hlen
    unfold PointsIt.nextFuel
    cases hseg : it.segmentIter.next with
    | some r =>
      obtain ⟨p, seg⟩ := r
      simp only [PointsIt.rest, line_next_some hseg, List.cons_append]
    | none =>
      have hnil := line_next_none hseg
      cases hv : it.vertices with
      | nil => simp [PointsIt.rest, hnil, hv, tailSegs]
      | cons start rest =>
        cases hr : rest with
        | nil => simp [PointsIt.rest, hnil, hv, hr, tailSegs]
        | cons stop more =>
          simp only
          obtain ⟨p0, seg1, hn, hpts⟩ := line_pointsIt_next ⟨start + it.translate, stop + it.translate⟩
          -- first call of `next` inside `nth(1)`: the first point of the new segment, discarded
          have hfuel : ∃ f, fuel = f + 1 := ⟨fuel - 1, by rw [hv, hr] at hlen; simp at hlen; omega⟩
          obtain ⟨f, rfl⟩ := hfuel
          rw [PointsIt.nextFuel]
          simp only [hn]
          -- second call: by induction
          have := ih { vertices := stop :: more, translate := it.translate, segmentIter := seg1 }
            (by rw [hv, hr] at hlen; simp at hlen ⊢; omega)
          have hrest : it.rest =
              PointsIt.rest { vertices := stop :: more, translate := it.translate, segmentIter := seg1 } := by
            simp only [PointsIt.rest, hnil, hv, hr, tailSegs, hpts, List.tail_cons, List.nil_append]
          rw [hrest]
          exact this

theorem PointsIt.next_spec (it : PointsIt) :
    match it.next with
    | some (p, it') => it.rest = p :: it'.rest
    | none => it.rest = [] :=
  PointsIt.nextFuel_spec _ it (by omega)

theorem PointsIt.toListFuel_eq : ∀ (fuel : Nat) (it : PointsIt), it.rest.length < fuel →
    it.toListFuel fuel = it.rest := by
  intro fuel
  induction fuel with
  | zero => intro it h; omega
  | succ fuel ih =>
    intro it h
    unfold PointsIt.toListFuel
    have := it.next_spec
    split <;> rename_i heq <;> rw [heq] at this <;> simp only at this
    · rw [this] at h ⊢
      rw [ih _ (by simpa using h)]
    · exact this.symm

theorem tailSegs_length (tr : Pt) : ∀ vs : List Pt, (tailSegs tr vs).length < budget tr vs
  | [] => by simp [tailSegs, budget]
  | [_] => by simp [tailSegs, budget]
  | a :: b :: rest => by
    have ih := tailSegs_length tr (b :: rest)
    simp only [tailSegs, budget, List.length_append, List.length_tail, Line.points_length',
      Line.majorLength_eq]
    omega

theorem line_empty_toList : Line.PointsIt.empty.toList = [] := rfl

/-- The iterator yields exactly the union of the segment lines, each joint once. -/
theorem points_eq_spec (pl : Polyline) : pl.points = pl.pointsSpec := by
  unfold points pointsSpec pointsIt
  cases hv : pl.vertices with
  | nil =>
    simp only
    rw [PointsIt.toListFuel_eq] <;> simp [PointsIt.rest, line_empty_toList, tailSegs, budget]
  | cons a rest =>
    cases hr : rest with
    | nil =>
      simp only
      rw [PointsIt.toListFuel_eq] <;> simp [PointsIt.rest, line_empty_toList, tailSegs, budget]
    | cons b more =>
      simp only
      rw [PointsIt.toListFuel_eq]
      · rfl
      · have := tailSegs_length pl.translate (b :: more)
        simp only [PointsIt.rest, List.length_append, budget]
        have hl : (Line.pointsIt ⟨a + pl.translate, b + pl.translate⟩).toList.length =
            majorLength ⟨a + pl.translate, b + pl.translate⟩ := by
          have := Line.points_length' ⟨a + pl.translate, b + pl.translate⟩
          rw [Line.majorLength_eq]; exact this
        omega

end Polyline
end EG
