/-
  EG.Lemmas.StyledArcMap — the pixel map of a styled arc / sector, pointwise:
  `draw()` on a target with box `B` leaves at `p` exactly `styledExpected p` when `B` contains `p`
  and nothing otherwise. Uses the closed forms of EG.Lemmas.StyledArc / StyledArcSector and the fact
  that no point is offered twice.
-/
import EG.Lemmas.StyledArcSector
namespace EG
open EG.Tgt

/-- A single `draw_iter` call whose points are pairwise distinct: a written point inside the box
gets the colour written to it. -/
theorem apply_clip_of_mem (B : Rect) (ws : Writes) (p : Pt) (c : Color)
    (hn : (ws.map Prod.fst).Nodup) (hp : (p, c) ∈ ws) (hB : B.contains p = true) :
    PMap.empty.apply (clipWrites B ws) p = some c := by
  apply PMap.apply_nodup
  · have : ((clipWrites B ws).map Prod.fst).Sublist (ws.map Prod.fst) := by
      unfold clipWrites
      exact List.Sublist.map _ List.filter_sublist
    exact hn.sublist this
  · exact mem_clipWrites.mpr ⟨hp, hB⟩

/-- Nothing is painted outside the target box. -/
theorem apply_clip_outside (B : Rect) (ws : Writes) (p : Pt) (hB : ¬ B.contains p = true) :
    PMap.empty.apply (clipWrites B ws) p = none := by
  rw [PMap.apply_of_not_mem]
  · rfl
  · intro w hw e
    have := (mem_clipWrites.mp hw).2
    rw [e] at this
    exact hB this

namespace Arc

/-- What a styled arc paints at `p` on an unbounded target. -/
def styledExpected (st : Style) (a : Arc) (p : Pt) : Option Color :=
  if st.isTransparent then none
  else if (a.styledBoundingBox st).contains p = true ∧ a.strokeAccepts st p = true then st.stroke
  else none

theorem mem_styledPixels_iff (st : Style) (a : Arc) (h : (a.styledBoundingBox st).InRange) (w : Pt × Color) :
    w ∈ a.styledPixels st ↔ st.isTransparent = false ∧ (a.styledBoundingBox st).contains w.1 = true ∧
      a.strokeAccepts st w.1 = true ∧ st.stroke = some w.2 := by
  constructor
  · intro hw
    have h1 := mem_styledPixels_imp st a w hw
    refine ⟨?_, (Rect.mem_points h).mp h1.1, h1.2⟩
    cases ht : st.isTransparent with
    | false => rfl
    | true => rw [styledPixels_transparent st a ht] at hw; cases hw
  · rintro ⟨ht, hb, ha, hs⟩
    rw [styledPixels_eq, hs]
    simp only [ht, Bool.false_eq_true, ↓reduceIte]
    rw [List.mem_map]
    refine ⟨w.1, ?_, rfl⟩
    rw [List.mem_filter, ← styledBoundingBox_eq]
    exact ⟨(Rect.mem_points h).mpr hb, ha⟩

/-- **The pixel map of `draw()` of a styled arc, at every point.** -/
theorem draw_map (st : Style) (a : Arc) (B : Rect) (h : (a.styledBoundingBox st).InRange) (p : Pt) :
    runNative B (a.drawStyled st) p = if B.contains p = true then a.styledExpected st p else none := by
  have e : runNative B (a.drawStyled st) = PMap.empty.apply (clipWrites B (a.styledPixels st)) :=
    runNative_drawIter B _
  rw [e]
  by_cases hB : B.contains p = true
  · rw [if_pos hB]
    unfold styledExpected
    have hnd : ((a.styledPixels st).map Prod.fst).Nodup :=
      (Rect.points_nodup _).sublist (styledPixels_points_sublist st a)
    by_cases hex : ∃ c, (p, c) ∈ a.styledPixels st
    · obtain ⟨c, hc⟩ := hex
      rw [apply_clip_of_mem B _ p c hnd hc hB]
      have := (mem_styledPixels_iff st a h (p, c)).mp hc
      simp only at this
      rw [if_neg (by simp [this.1]), if_pos ⟨this.2.1, this.2.2.1⟩, this.2.2.2]
    · rw [apply_clip_none]
      · by_cases ht : st.isTransparent = true
        · rw [if_pos ht]
        · rw [if_neg ht]
          by_cases hacc : (a.styledBoundingBox st).contains p = true ∧ a.strokeAccepts st p = true
          · rw [if_pos hacc]
            cases hs : st.stroke with
            | none => rfl
            | some c =>
              exfalso
              apply hex
              refine ⟨c, (mem_styledPixels_iff st a h (p, c)).mpr ⟨?_, hacc.1, hacc.2, hs⟩⟩
              simpa using ht
          · rw [if_neg hacc]
      · intro w hw e
        apply hex
        exact ⟨w.2, by rw [← e]; exact hw⟩
  · rw [if_neg hB]
    exact apply_clip_outside B _ p hB

end Arc

namespace Sector

/-- What a styled sector paints at `p` on an unbounded target. -/
def styledExpected (st : Style) (s : Sector) (bevel : SectorBevel) (p : Pt) : Option Color :=
  if st.isTransparent then none
  else if (s.styledBoundingBox st).contains p = true then (s.pixelAt st bevel p).map (·.2)
  else none

theorem mem_styledPixels_iff (st : Style) (s : Sector) (bevel : SectorBevel)
    (h : (s.styledBoundingBox st).InRange) (w : Pt × Color) :
    w ∈ s.styledPixels st bevel ↔ st.isTransparent = false ∧ (s.styledBoundingBox st).contains w.1 = true ∧
      s.pixelAt st bevel w.1 = some w := by
  constructor
  · intro hw
    have h1 := mem_styledPixels_imp st s bevel w hw
    refine ⟨?_, (Rect.mem_points h).mp h1.1, h1.2⟩
    cases ht : st.isTransparent with
    | false => rfl
    | true => rw [styledPixels_transparent st s bevel ht] at hw; cases hw
  · rintro ⟨ht, hb, hp⟩
    rw [styledPixels_eq]
    simp only [ht, Bool.false_eq_true, ↓reduceIte]
    rw [List.mem_filterMap]
    refine ⟨w.1, ?_, hp⟩
    rw [← styledBoundingBox_eq]
    exact (Rect.mem_points h).mpr hb

/-- **The pixel map of `draw()` of a styled sector, at every point.** -/
theorem draw_map (st : Style) (s : Sector) (bevel : SectorBevel) (B : Rect)
    (h : (s.styledBoundingBox st).InRange) (p : Pt) :
    runNative B (s.drawStyled st bevel) p =
      if B.contains p = true then s.styledExpected st bevel p else none := by
  have e : runNative B (s.drawStyled st bevel) =
      PMap.empty.apply (clipWrites B (s.styledPixels st bevel)) := runNative_drawIter B _
  rw [e]
  by_cases hB : B.contains p = true
  · rw [if_pos hB]
    unfold styledExpected
    have hnd : ((s.styledPixels st bevel).map Prod.fst).Nodup :=
      (Rect.points_nodup _).sublist (styledPixels_points_sublist st s bevel)
    by_cases hex : ∃ c, (p, c) ∈ s.styledPixels st bevel
    · obtain ⟨c, hc⟩ := hex
      rw [apply_clip_of_mem B _ p c hnd hc hB]
      have := (mem_styledPixels_iff st s bevel h (p, c)).mp hc
      simp only at this
      rw [if_neg (by simp [this.1]), if_pos this.2.1, this.2.2]
      rfl
    · rw [apply_clip_none]
      · by_cases ht : st.isTransparent = true
        · rw [if_pos ht]
        · rw [if_neg ht]
          by_cases hb : (s.styledBoundingBox st).contains p = true
          · rw [if_pos hb]
            cases hp : s.pixelAt st bevel p with
            | none => rfl
            | some w =>
              exfalso
              apply hex
              have hf := pixelAt_fst st s bevel p w hp
              refine ⟨w.2, (mem_styledPixels_iff st s bevel h (p, w.2)).mpr ⟨by simpa using ht, hb, ?_⟩⟩
              simp only
              rw [hp, ← hf]
          · rw [if_neg hb]
      · intro w hw e
        apply hex
        exact ⟨w.2, by rw [← e]; exact hw⟩
  · rw [if_neg hB]
    exact apply_clip_outside B _ p hB

end Sector
end EG
