/-
  EG.Lemmas.CheckedDSMore — display-scale domains of the second group of C08 range theorems
  (triangles, rounded rectangles, sectors / arcs, scanline drawing) and their inclusion in the
  proof domains of the lemma files: `DS.tri` / `DS.xtri`, `DS.xrrect`, and the maps from
  `DS.circle` / `DS.xcircle` / `DS.xellipse` / `DS.width` / `DS.pt` into `Sec.*`, `RR.*`,
  `Chk.Ellipse.Dom`, `Joins.VDS`, `Triangle.SmallPt`.
-/
import EG.Lemmas.CheckedDS
import EG.Lemmas.CheckedRRect
import EG.Lemmas.CheckedSector
import EG.Lemmas.CheckedSegment
import EG.Lemmas.CheckedStyledScanline
import EG.Lemmas.CheckedTriangle
import EG.Lemmas.FixedTrig
namespace EG.DS
/-! from the header of Props/C08/Triangle.lean -/
/-- all three vertices within -1152 ..= 2176 -/
def xtri (t : Triangle) : Prop := xpt t.v1 ∧ xpt t.v2 ∧ xpt t.v3
/-- all three vertices within +-1024 (the property text) -/
def tri (t : Triangle) : Prop := pt t.v1 ∧ pt t.v2 ∧ pt t.v3
instance (t : Triangle) : Decidable (xtri t) := by unfold xtri; exact inferInstance
instance (t : Triangle) : Decidable (tri t) := by unfold tri; exact inferInstance
theorem tri_x {t : Triangle} (h : tri t) : xtri t := ⟨pt_x h.1, pt_x h.2.1, pt_x h.2.2⟩
theorem xpt_small {p : Pt} (h : xpt p) : Triangle.SmallPt p := by
  obtain ⟨⟨_, _⟩, ⟨_, _⟩⟩ := h
  unfold Triangle.SmallPt; omega

/-! from the header of Props/C08/RRect.lean -/
open EG.Chk
/-- stroke-area rectangle, arbitrary `u32` radii -/
def xrrect (r : RoundedRect) : Prop := xrect r.rect ∧ CornerRadii.InU32 r.corners
instance (r : RoundedRect) : Decidable (xrrect r) := by unfold xrrect; exact inferInstance
theorem xrect_RR {r : Rect} (h : xrect r) : RR.rect r := by
  obtain ⟨⟨⟨_, _⟩, ⟨_, _⟩⟩, ⟨_, _⟩⟩ := h
  unfold xsize at *
  unfold RR.rect; omega
theorem xpt_RR {p : Pt} (h : xpt p) : RR.probe p := by
  obtain ⟨⟨_, _⟩, ⟨_, _⟩⟩ := h
  unfold RR.probe; omega

/-! from the header of Props/C08/Sector.lean -/
open EG.Chk
theorem circle_base {c : Circle} (h : circle c) : Sec.base c := by
  obtain ⟨⟨⟨_, _⟩, ⟨_, _⟩⟩, hd⟩ := h
  unfold size at hd
  unfold Sec.base; omega
theorem xcircle_sec {c : Circle} (h : xcircle c) : Sec.circle c := by
  obtain ⟨⟨⟨_, _⟩, ⟨_, _⟩⟩, hd⟩ := h
  unfold xsize at hd
  unfold Sec.circle; omega
theorem width_sec {st : Style} (h : width st.width) : Sec.width st := by
  unfold width at h; unfold Sec.width; omega

/-! from the header of Props/C08/Scanlines.lean -/
open EG.Chk
theorem xellipse_dom {e : Ellipse} (h : xellipse e) : Chk.Ellipse.Dom e := by
  obtain ⟨⟨⟨_, _⟩, ⟨_, _⟩⟩, ⟨hw, hh⟩⟩ := h
  unfold xsize at hw hh
  unfold Chk.Ellipse.Dom; omega
theorem xcircle_sec' {c : Circle} (h : xcircle c) : Sec.circle c := by
  obtain ⟨⟨⟨_, _⟩, ⟨_, _⟩⟩, hd⟩ := h
  unfold xsize at hd
  unfold Sec.circle; omega
theorem pt_VDS {p : Pt} (h : pt p) : Joins.VDS p := h
end EG.DS
