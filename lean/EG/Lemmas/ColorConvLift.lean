/-
  EG.Lemmas.ColorConvLift — C13 statements about whole colours, lifted from the `convert_channel`
  table facts (EG.Lemmas.ColorConv) and the C12 lemmas about `new` / accessors (EG.Lemmas.Color).
-/
import EG.Lemmas.ColorConv
namespace EG.Conv
open EG EG.Generated EG.ColorSpec

/-! ### RGB -> RGB -/

theorem rgb_channelwise : ∀ x ∈ resolvedTable, x.kind = .rgbRgb → ∀ c, x.a.Valid c →
    x.b.chanR (x.apply c) = convertChannel x.a.maxR x.b.maxR (x.a.chanR c)
    ∧ x.b.chanG (x.apply c) = convertChannel x.a.maxG x.b.maxG (x.a.chanG c)
    ∧ x.b.chanB (x.apply c) = convertChannel x.a.maxB x.b.maxB (x.a.chanB c) := by
  intro x hx hk c hc
  obtain ⟨ha, hb, hka, hkb⟩ := typed_rgbRgb x hx hk
  rw [apply_rgbRgb hk]
  exact rgbToRgb_channels ha hb hka hkb c hc

theorem rgb_nearest : ∀ x ∈ resolvedTable, x.kind = .rgbRgb → ∀ c, x.a.Valid c →
    Nearest x.a.maxR x.b.maxR (x.a.chanR c) (x.b.chanR (x.apply c))
    ∧ Nearest x.a.maxG x.b.maxG (x.a.chanG c) (x.b.chanG (x.apply c))
    ∧ Nearest x.a.maxB x.b.maxB (x.a.chanB c) (x.b.chanB (x.apply c)) := by
  intro x hx hk c hc
  obtain ⟨ha, hb, hka, hkb⟩ := typed_rgbRgb x hx hk
  obtain ⟨h1, h2, h3⟩ := rgb_channelwise x hx hk c hc
  obtain ⟨_, hr, hg, hbl⟩ := Color.valid_eq_new _ ha hka c hc
  obtain ⟨ar, ag, ab, amr, amg, amb⟩ := rgb_max_table _ ha hka
  obtain ⟨_, _, _, bmr, bmg, bmb⟩ := rgb_max_table _ hb hkb
  rw [h1, h2, h3]
  exact ⟨cc_table_nearest _ amr _ bmr _ (mem_upTo.mpr (by omega)),
    cc_table_nearest _ amg _ bmg _ (mem_upTo.mpr (by omega)),
    cc_table_nearest _ amb _ bmb _ (mem_upTo.mpr (by omega))⟩

theorem rgb_monotone : ∀ x ∈ resolvedTable, x.kind = .rgbRgb → ∀ c c', x.a.Valid c → x.a.Valid c' →
    (x.a.chanR c ≤ x.a.chanR c' → x.b.chanR (x.apply c) ≤ x.b.chanR (x.apply c'))
    ∧ (x.a.chanG c ≤ x.a.chanG c' → x.b.chanG (x.apply c) ≤ x.b.chanG (x.apply c'))
    ∧ (x.a.chanB c ≤ x.a.chanB c' → x.b.chanB (x.apply c) ≤ x.b.chanB (x.apply c')) := by
  intro x hx hk c c' hc hc'
  obtain ⟨ha, hb, hka, hkb⟩ := typed_rgbRgb x hx hk
  obtain ⟨h1, h2, h3⟩ := rgb_channelwise x hx hk c hc
  obtain ⟨h1', h2', h3'⟩ := rgb_channelwise x hx hk c' hc'
  obtain ⟨_, hr, hg, hbl⟩ := Color.valid_eq_new _ ha hka c' hc'
  obtain ⟨ar, ag, ab, amr, amg, amb⟩ := rgb_max_table _ ha hka
  obtain ⟨_, _, _, bmr, bmg, bmb⟩ := rgb_max_table _ hb hkb
  rw [h1, h2, h3, h1', h2', h3']
  exact ⟨fun h => cc_monotone amr bmr _ (by omega) _ h, fun h => cc_monotone amg bmg _ (by omega) _ h,
    fun h => cc_monotone amb bmb _ (by omega) _ h⟩

theorem cc_same (F v : Nat) : convertChannel F F v = v := by
  unfold convertChannel; simp

/-- equal depth in every channel (RGB <-> BGR): all channels kept -/
theorem rgb_same_depth : ∀ x ∈ resolvedTable, x.kind = .rgbRgb →
    x.a.rbits = x.b.rbits → x.a.gbits = x.b.gbits → x.a.bbits = x.b.bbits → ∀ c, x.a.Valid c →
    x.b.chanR (x.apply c) = x.a.chanR c ∧ x.b.chanG (x.apply c) = x.a.chanG c
    ∧ x.b.chanB (x.apply c) = x.a.chanB c := by
  intro x hx hk e1 e2 e3 c hc
  obtain ⟨h1, h2, h3⟩ := rgb_channelwise x hx hk c hc
  rw [h1, h2, h3]
  simp only [maxR, maxG, maxB, e1, e2, e3, cc_same, and_self]

/-- to a type with at least as many bits in every channel and back: the identity -/
theorem rgb_widen_roundtrip : ∀ x ∈ resolvedTable, ∀ y ∈ resolvedTable, x.kind = .rgbRgb → y.kind = .rgbRgb →
    y.a = x.b → y.b = x.a → x.a.rbits ≤ x.b.rbits → x.a.gbits ≤ x.b.gbits → x.a.bbits ≤ x.b.bbits →
    ∀ c, x.a.Valid c → y.apply (x.apply c) = c := by
  intro x hx y hy hk hky eya eyb w1 w2 w3 c hc
  obtain ⟨ha, hb, hka, hkb⟩ := typed_rgbRgb x hx hk
  obtain ⟨h1, h2, h3⟩ := rgb_channelwise x hx hk c hc
  obtain ⟨hnew, hr, hg, hbl⟩ := Color.valid_eq_new _ ha hka c hc
  obtain ⟨ar, ag, ab, amr, amg, amb⟩ := rgb_max_table _ ha hka
  obtain ⟨br, bg, bb, bmr, bmg, bmb⟩ := rgb_max_table _ hb hkb
  rw [apply_rgbRgb hky, eya, eyb]
  unfold rgbToRgb
  rw [h1, h2, h3]
  rw [cc_table_widen_narrow _ amr _ bmr (le_of_succ_eq_pow ar br w1) _ (mem_upTo.mpr (by omega)),
    cc_table_widen_narrow _ amg _ bmg (le_of_succ_eq_pow ag bg w2) _ (mem_upTo.mpr (by omega)),
    cc_table_widen_narrow _ amb _ bmb (le_of_succ_eq_pow ab bb w3) _ (mem_upTo.mpr (by omega))]
  exact hnew.symm

/-! ### gray -> gray -/

theorem gray_channelwise : ∀ x ∈ resolvedTable, x.kind = .grayGray → ∀ c, x.a.Valid c →
    x.b.luma (x.apply c) = convertChannel (maxLuma x.a) (maxLuma x.b) (x.a.luma c) := by
  intro x hx hk c hc
  obtain ⟨ha, hb, hka, hkb⟩ := typed_grayGray x hx hk
  rw [apply_grayGray hk]
  exact grayToGray_luma ha hb hka hkb c hc

theorem gray_nearest : ∀ x ∈ resolvedTable, x.kind = .grayGray → ∀ c, x.a.Valid c →
    Nearest (maxLuma x.a) (maxLuma x.b) (x.a.luma c) (x.b.luma (x.apply c)) := by
  intro x hx hk c hc
  obtain ⟨ha, hb, hka, hkb⟩ := typed_grayGray x hx hk
  rw [gray_channelwise x hx hk c hc]
  exact cc_table_nearest _ (gray_max_table _ ha hka).2.1 _ (gray_max_table _ hb hkb).2.1 _
    (mem_upTo.mpr (valid_gray_le ha hka c hc))

theorem gray_monotone : ∀ x ∈ resolvedTable, x.kind = .grayGray → ∀ c c', x.a.Valid c → x.a.Valid c' →
    x.a.luma c ≤ x.a.luma c' → x.b.luma (x.apply c) ≤ x.b.luma (x.apply c') := by
  intro x hx hk c c' hc hc' h
  obtain ⟨ha, hb, hka, hkb⟩ := typed_grayGray x hx hk
  rw [gray_channelwise x hx hk c hc, gray_channelwise x hx hk c' hc']
  exact cc_monotone (gray_max_table _ ha hka).2.1 (gray_max_table _ hb hkb).2.1 _ (valid_gray_le ha hka c' hc') _ h

theorem gray_widen_roundtrip : ∀ x ∈ resolvedTable, ∀ y ∈ resolvedTable, x.kind = .grayGray → y.kind = .grayGray →
    y.a = x.b → y.b = x.a → x.a.rawBpp ≤ x.b.rawBpp → ∀ c, x.a.Valid c → y.apply (x.apply c) = c := by
  intro x hx y hy hk hky eya eyb w c hc
  obtain ⟨ha, hb, hka, hkb⟩ := typed_grayGray x hx hk
  obtain ⟨am, amm, _⟩ := gray_max_table _ ha hka
  obtain ⟨bm, bmm, _⟩ := gray_max_table _ hb hkb
  have h1 := gray_channelwise x hx hk c hc
  rw [apply_grayGray hky, eya, eyb]
  unfold grayToGray
  rw [h1, cc_table_widen_narrow _ amm _ bmm (le_of_succ_eq_pow am bm w) _ (mem_upTo.mpr (valid_gray_le ha hka c hc))]
  exact Color.grayNew_luma_id _ ha hka c hc

/-! ### gray -> RGB (and back) -/

/-- every channel is the luma scaled (by the same `convert_channel`) to that channel's width -/
theorem gray_rgb_equal_scaling : ∀ x ∈ resolvedTable, x.kind = .grayRgb → ∀ c, x.a.Valid c →
    (x.b.chanR (x.apply c) = convertChannel (maxLuma x.a) x.b.maxR (x.a.luma c)
     ∧ x.b.chanG (x.apply c) = convertChannel (maxLuma x.a) x.b.maxG (x.a.luma c)
     ∧ x.b.chanB (x.apply c) = convertChannel (maxLuma x.a) x.b.maxB (x.a.luma c))
    ∧ Nearest (maxLuma x.a) x.b.maxR (x.a.luma c) (x.b.chanR (x.apply c))
    ∧ Nearest (maxLuma x.a) x.b.maxG (x.a.luma c) (x.b.chanG (x.apply c))
    ∧ Nearest (maxLuma x.a) x.b.maxB (x.a.luma c) (x.b.chanB (x.apply c)) := by
  intro x hx hk c hc
  obtain ⟨ha, hb, hka, hkb⟩ := typed_grayRgb x hx hk
  obtain ⟨_, amm, _⟩ := gray_max_table _ ha hka
  obtain ⟨_, _, _, bmr, bmg, bmb⟩ := rgb_max_table _ hb hkb
  have hv := valid_gray_le ha hka c hc
  rw [apply_grayRgb hk]
  obtain ⟨h1, h2, h3⟩ := grayToRgb_channels ha hb hka hkb c hc
  refine ⟨⟨h1, h2, h3⟩, ?_, ?_, ?_⟩
  · rw [h1]; exact cc_table_nearest _ amm _ bmr _ (mem_upTo.mpr hv)
  · rw [h2]; exact cc_table_nearest _ amm _ bmg _ (mem_upTo.mpr hv)
  · rw [h3]; exact cc_table_nearest _ amm _ bmb _ (mem_upTo.mpr hv)

theorem gray_rgb_monotone : ∀ x ∈ resolvedTable, x.kind = .grayRgb → ∀ c c', x.a.Valid c → x.a.Valid c' →
    x.a.luma c ≤ x.a.luma c' →
    x.b.chanR (x.apply c) ≤ x.b.chanR (x.apply c') ∧ x.b.chanG (x.apply c) ≤ x.b.chanG (x.apply c')
    ∧ x.b.chanB (x.apply c) ≤ x.b.chanB (x.apply c') := by
  intro x hx hk c c' hc hc' h
  obtain ⟨ha, hb, hka, hkb⟩ := typed_grayRgb x hx hk
  obtain ⟨_, amm, _⟩ := gray_max_table _ ha hka
  obtain ⟨_, _, _, bmr, bmg, bmb⟩ := rgb_max_table _ hb hkb
  have hv := valid_gray_le ha hka c' hc'
  obtain ⟨⟨h1, h2, h3⟩, _⟩ := gray_rgb_equal_scaling x hx hk c hc
  obtain ⟨⟨h1', h2', h3'⟩, _⟩ := gray_rgb_equal_scaling x hx hk c' hc'
  rw [h1, h2, h3, h1', h2', h3']
  exact ⟨cc_monotone amm bmr _ hv _ h, cc_monotone amm bmg _ hv _ h, cc_monotone amm bmb _ hv _ h⟩

theorem gray_rgb_gray_roundtrip : ∀ x ∈ resolvedTable, ∀ y ∈ resolvedTable,
    x.kind = .grayRgb → y.kind = .rgbGray → y.a = x.b → y.b = x.a →
    x.a.rawBpp ≤ x.b.rbits → x.a.rawBpp ≤ x.b.gbits → x.a.rawBpp ≤ x.b.bbits →
    ∀ c, x.a.Valid c → y.apply (x.apply c) = c := by
  intro x hx y hy hk hky e1 e2 w1 w2 w3 c hc
  obtain ⟨ha, _, hka, _⟩ := typed_grayRgb x hx hk
  exact gray_rgb_gray_table x hx y hy hk hky e1 e2 w1 w2 w3 c (mem_upTo.mpr (valid_gray_le ha hka c hc))

/-! ### to binary -/

theorem gray_binary_threshold : ∀ x ∈ resolvedTable, x.kind = .grayBinary → ∀ c, x.a.Valid c →
    (x.apply c = 1 ↔ maxLuma x.a + 1 ≤ 2 * x.a.luma c) ∧ (x.apply c = 0 ∨ x.apply c = 1) := by
  intro x hx hk c hc
  obtain ⟨ha, hka, _⟩ := (typed_toBinary x hx).1 hk
  exact gray_binary_table x hx hk c (mem_upTo.mpr (valid_gray_le ha hka c hc))

/-- the luma `luma(Rgb888::from(c))` is a `u8`, so `128` is exactly the middle of its range -/
theorem rgbLuma_le (a v : ColorSpec) (c : Nat) : rgbLuma a v c ≤ 255 := by
  unfold rgbLuma lumaOf
  have := Nat.mod_lt ((v.chanR (toVia a v c) * lumaWR + v.chanG (toVia a v c) * lumaWG + v.chanB (toVia a v c) * lumaWB + lumaRound) / lumaDiv) (by decide : 0 < 256)
  omega

theorem rgb_binary_threshold : ∀ x ∈ resolvedTable, x.kind = .rgbBinary → ∀ c,
    (x.apply c = 1 ↔ 255 + 1 ≤ 2 * rgbLuma x.a x.via c) ∧ (x.apply c = 0 ∨ x.apply c = 1)
    ∧ rgbLuma x.a x.via c ≤ 255 := by
  intro x _ hk c
  rw [apply_rgbBinary hk]
  unfold rgbToBinary
  have h128 : rgbBinaryThreshold = 128 := rfl
  rw [h128]
  refine ⟨?_, ?_, rgbLuma_le _ _ _⟩
  · split <;> constructor <;> intro h <;> omega
  · split <;> omega

/-- ... and that luma is what the conversion to the 8-bit gray type returns -/
theorem rgb_gray8_is_luma : ∀ y ∈ resolvedTable, y.kind = .rgbGray → y.b = y.g8 → ∀ c,
    y.b.luma (y.apply c) = rgbLuma y.a y.via c := by
  intro y hy hk e c
  obtain ⟨_, _, _, hg, hgk, _⟩ := typed_via y hy
  rw [apply_rgbGray hk]
  unfold rgbToGray
  simp only [e, beq_self_eq_true, ↓reduceIte]
  have h8 : y.g8.rawBpp = 8 := by
    have : ∀ s ∈ colorTable, s.name = grayVia → s.rawBpp = 8 := by decide +kernel
    exact this _ hg (typed_via y hy).2.2.2.2.2.1
  rw [Color.gray_new_luma _ hg hgk _ (Nat.lt_of_le_of_lt (rgbLuma_le _ _ _) (by decide)), h8]
  exact Nat.mod_eq_of_lt (Nat.lt_of_le_of_lt (rgbLuma_le _ _ _) (by decide))

/-! ### RGB -> gray, RGB -> binary: monotone in every channel -/

theorem names_unique : ∀ s ∈ colorTable, ∀ t ∈ colorTable, s.name = t.name → s = t := by decide +kernel

theorem chan_le_255 (v : ColorSpec) (z : Nat) : v.chanR z ≤ 255 ∧ v.chanG z ≤ 255 ∧ v.chanB z ≤ 255 := by
  have h1 : v.chanR z ≤ v.maxR := Nat.and_le_right
  have h2 : v.chanG z ≤ v.maxG := Nat.and_le_right
  have h3 : v.chanB z ≤ v.maxB := Nat.and_le_right
  have m1 : v.maxR < 256 := maxChan_lt_256 _
  have m2 : v.maxG < 256 := maxChan_lt_256 _
  have m3 : v.maxB < 256 := maxChan_lt_256 _
  omega

theorem toVia_channels_mono {a v : ColorSpec} (ha : a ∈ colorTable) (hv : v ∈ colorTable)
    (hka : a.isRgb = true) (hkv : v.isRgb = true) (c c' : Nat) (hc : a.Valid c) (hc' : a.Valid c')
    (h1 : a.chanR c ≤ a.chanR c') (h2 : a.chanG c ≤ a.chanG c') (h3 : a.chanB c ≤ a.chanB c') :
    v.chanR (toVia a v c) ≤ v.chanR (toVia a v c') ∧ v.chanG (toVia a v c) ≤ v.chanG (toVia a v c')
    ∧ v.chanB (toVia a v c) ≤ v.chanB (toVia a v c') := by
  unfold toVia
  by_cases hn : a.name = v.name
  · have := names_unique a ha v hv hn
    subst this
    simp only [beq_self_eq_true, ↓reduceIte]
    exact ⟨h1, h2, h3⟩
  · have hb : (a.name == v.name) = false := by simp [hn]
    simp only [hb, Bool.false_eq_true, ↓reduceIte]
    obtain ⟨e1, e2, e3⟩ := rgbToRgb_channels ha hv hka hkv c hc
    obtain ⟨e1', e2', e3'⟩ := rgbToRgb_channels ha hv hka hkv c' hc'
    obtain ⟨_, hr, hg, hbl⟩ := Color.valid_eq_new _ ha hka c' hc'
    obtain ⟨ar, ag, ab, amr, amg, amb⟩ := rgb_max_table _ ha hka
    obtain ⟨_, _, _, vmr, vmg, vmb⟩ := rgb_max_table _ hv hkv
    rw [e1, e2, e3, e1', e2', e3']
    exact ⟨cc_monotone amr vmr _ (by omega) _ h1, cc_monotone amg vmg _ (by omega) _ h2,
      cc_monotone amb vmb _ (by omega) _ h3⟩

theorem lumaOf_mono (v : ColorSpec) (z z' : Nat) (h1 : v.chanR z ≤ v.chanR z') (h2 : v.chanG z ≤ v.chanG z')
    (h3 : v.chanB z ≤ v.chanB z') : lumaOf v z ≤ lumaOf v z' := by
  obtain ⟨a1, a2, a3⟩ := chan_le_255 v z
  obtain ⟨b1, b2, b3⟩ := chan_le_255 v z'
  simp only [lumaOf, lumaWR, lumaWG, lumaWB, lumaRound, lumaDiv]
  have hs : v.chanR z * 77 + v.chanG z * 150 + v.chanB z * 29 + 128
      ≤ v.chanR z' * 77 + v.chanG z' * 150 + v.chanB z' * 29 + 128 := by omega
  have hd := Nat.div_le_div_right (c := 256) hs
  have b1 : (v.chanR z * 77 + v.chanG z * 150 + v.chanB z * 29 + 128) / 256 < 256 := by omega
  have b2 : (v.chanR z' * 77 + v.chanG z' * 150 + v.chanB z' * 29 + 128) / 256 < 256 := by omega
  rw [Nat.mod_eq_of_lt b1, Nat.mod_eq_of_lt b2]
  exact hd

theorem rgbLuma_mono {a v : ColorSpec} (ha : a ∈ colorTable) (hv : v ∈ colorTable)
    (hka : a.isRgb = true) (hkv : v.isRgb = true) (c c' : Nat) (hc : a.Valid c) (hc' : a.Valid c')
    (h1 : a.chanR c ≤ a.chanR c') (h2 : a.chanG c ≤ a.chanG c') (h3 : a.chanB c ≤ a.chanB c') :
    rgbLuma a v c ≤ rgbLuma a v c' := by
  obtain ⟨m1, m2, m3⟩ := toVia_channels_mono ha hv hka hkv c c' hc hc' h1 h2 h3
  exact lumaOf_mono v _ _ m1 m2 m3

/-- raising source channels never lowers the gray result (in particular: monotone in each channel) -/
theorem rgb_gray_monotone : ∀ y ∈ resolvedTable, y.kind = .rgbGray → ∀ c c', y.a.Valid c → y.a.Valid c' →
    y.a.chanR c ≤ y.a.chanR c' → y.a.chanG c ≤ y.a.chanG c' → y.a.chanB c ≤ y.a.chanB c' →
    y.b.luma (y.apply c) ≤ y.b.luma (y.apply c') := by
  intro y hy hk c c' hc hc' h1 h2 h3
  obtain ⟨ha, hb, hka, hkb⟩ := typed_rgbGray y hy hk
  obtain ⟨hv, hkv, _, hg, hgk, hgn, _⟩ := typed_via y hy
  have hl := rgbLuma_mono ha hv hka hkv c c' hc hc' h1 h2 h3
  have h8 : y.g8.rawBpp = 8 := by
    have : ∀ s ∈ colorTable, s.name = grayVia → s.rawBpp = 8 := by decide +kernel
    exact this _ hg hgn
  have l1 := rgbLuma_le y.a y.via c
  have l2 := rgbLuma_le y.a y.via c'
  -- the intermediate Gray8 values are the lumas themselves
  have g1 : y.g8.grayNew (rgbLuma y.a y.via c) = rgbLuma y.a y.via c := by
    have := Color.gray_new_luma _ hg hgk (rgbLuma y.a y.via c) (by omega)
    rw [h8] at this; unfold luma at this; rw [this]; exact Nat.mod_eq_of_lt (by omega)
  have g2 : y.g8.grayNew (rgbLuma y.a y.via c') = rgbLuma y.a y.via c' := by
    have := Color.gray_new_luma _ hg hgk (rgbLuma y.a y.via c') (by omega)
    rw [h8] at this; unfold luma at this; rw [this]; exact Nat.mod_eq_of_lt (by omega)
  rw [apply_rgbGray hk, apply_rgbGray hk]
  unfold rgbToGray
  simp only [g1, g2]
  by_cases hn : y.b.name = y.g8.name
  · simp only [hn, beq_self_eq_true, ↓reduceIte]
    unfold luma; exact hl
  · have hbn : (y.b.name == y.g8.name) = false := by simp [hn]
    simp only [hbn, Bool.false_eq_true, ↓reduceIte]
    have v1 : y.g8.Valid (rgbLuma y.a y.via c) := by rw [← g1]; exact Color.grayNew_valid _ hg hgk _
    have v2 : y.g8.Valid (rgbLuma y.a y.via c') := by rw [← g2]; exact Color.grayNew_valid _ hg hgk _
    rw [grayToGray_luma hg hb hgk hkb _ v1, grayToGray_luma hg hb hgk hkb _ v2]
    exact cc_monotone (gray_max_table _ hg hgk).2.1 (gray_max_table _ hb hkb).2.1 _
      (valid_gray_le hg hgk _ v2) _ (by unfold luma; exact hl)

theorem rgb_binary_monotone : ∀ y ∈ resolvedTable, y.kind = .rgbBinary → ∀ c c', y.a.Valid c → y.a.Valid c' →
    y.a.chanR c ≤ y.a.chanR c' → y.a.chanG c ≤ y.a.chanG c' → y.a.chanB c ≤ y.a.chanB c' →
    y.apply c ≤ y.apply c' := by
  intro y hy hk c c' hc hc' h1 h2 h3
  obtain ⟨ha, hka, _⟩ := (typed_toBinary y hy).2 hk
  obtain ⟨hv, hkv, _⟩ := typed_via y hy
  have hl := rgbLuma_mono ha hv hka hkv c c' hc hc' h1 h2 h3
  rw [apply_rgbBinary hk, apply_rgbBinary hk]
  unfold rgbToBinary
  split <;> split <;> omega

end EG.Conv
