/-
  EG.Lemmas.JoinsBox — `ThickSegment::edges_bounding_box` and what `intersection(scanline_y)` paints.
  * the box contains the end points of the edges it is made of (both edges; for a skeleton segment
    the edge that is drawn);
  * the scanline of any segment lies inside the x-hull of the end points of its outline lines;
  * hence every pixel of a skeleton segment lies inside its box.
-/
import EG.Model.ThickSegment
import EG.Lemmas.Rect
import EG.Lemmas.Scanline
import EG.Props.C17
set_option linter.unusedSimpArgs false
namespace EG
namespace Joins
open Thick (LineSide StrokeOffset)

/-! ### The box contains the edge end points -/

theorem contains_lineBoundingBox_start (l : Line) : (lineBoundingBox l).contains l.start = true := by
  unfold lineBoundingBox; rw [Rect.contains_withCorners]; omega

theorem contains_lineBoundingBox_stop (l : Line) : (lineBoundingBox l).contains l.stop = true := by
  unfold lineBoundingBox; rw [Rect.contains_withCorners]; omega

/-- The four corner points of a (non-skeleton) segment's box. -/
theorem contains_box4 (a b c e p : Pt) (h : p = a ∨ p = b ∨ p = c ∨ p = e) :
    (Rect.withCorners (((a.componentMin b).componentMin c).componentMin e)
      (((a.componentMax b).componentMax c).componentMax e)).contains p = true := by
  rw [Rect.contains_withCorners]
  simp only [Pt.componentMin, Pt.componentMax]
  rcases h with rfl | rfl | rfl | rfl <;> omega

/-- **The box of a skeleton segment contains both end points of the edge that is drawn.** -/
theorem edgesBoundingBox_skeleton (s : ThickSegment) (h : s.isSkeleton = true) :
    s.edgesBoundingBox.contains s.edges.1.start = true ∧
    s.edgesBoundingBox.contains s.edges.1.stop = true := by
  unfold ThickSegment.edgesBoundingBox
  simp only [h, ↓reduceIte]
  exact ⟨contains_lineBoundingBox_start _, contains_lineBoundingBox_stop _⟩

/-- **The box of a non-skeleton segment contains the end points of both edges.** -/
theorem edgesBoundingBox_thick (s : ThickSegment) (h : s.isSkeleton = false) :
    s.edgesBoundingBox.contains s.edges.1.start = true ∧
    s.edgesBoundingBox.contains s.edges.1.stop = true ∧
    s.edgesBoundingBox.contains s.edges.2.start = true ∧
    s.edgesBoundingBox.contains s.edges.2.stop = true := by
  unfold ThickSegment.edgesBoundingBox
  simp only [h, Bool.false_eq_true, ↓reduceIte]
  refine ⟨?_, ?_, ?_, ?_⟩ <;> apply contains_box4 <;> simp

/-! ### Scanline hull -/

/-- The scanline is empty or lies within the columns `lo ..= hi`. -/
def Within (s : Scanline) (lo hi : Int) : Prop := s.isEmpty = true ∨ (lo ≤ s.xs ∧ s.xe ≤ hi + 1)

theorem isEmpty_iff (s : Scanline) : s.isEmpty = true ↔ ¬ s.xs < s.xe := by
  unfold Scanline.isEmpty; simp

theorem extend_y (s : Scanline) (x : Int) : (s.extend x).y = s.y := by
  unfold Scanline.extend; split
  · rfl
  · split
    · rfl
    · split <;> rfl

theorem extend_within (s : Scanline) (x lo hi : Int) (h : Within s lo hi) (h1 : lo ≤ x) (h2 : x ≤ hi) :
    Within (s.extend x) lo hi := by
  unfold Scanline.extend
  by_cases he : s.isEmpty = true
  · simp only [he, ↓reduceIte]; right; dsimp only; omega
  · have hne : ¬ s.isEmpty = true := he
    rcases h with h | ⟨h3, h4⟩
    · exact absurd h he
    · simp only [he, Bool.false_eq_true, ↓reduceIte]
      split
      · right; dsimp only; omega
      · split
        · right; dsimp only; omega
        · right; exact ⟨h3, h4⟩

theorem foldl_extend_within (ps : List Pt) (s : Scanline) (lo hi : Int)
    (hps : ∀ p ∈ ps, lo ≤ p.x ∧ p.x ≤ hi) (h : Within s lo hi) :
    Within (ps.foldl (fun s p => s.extend p.x) s) lo hi ∧
      (ps.foldl (fun s p => s.extend p.x) s).y = s.y := by
  induction ps generalizing s with
  | nil => exact ⟨h, rfl⟩
  | cons p ps ih =>
    simp only [List.foldl_cons]
    have hp := hps p (List.mem_cons_self)
    obtain ⟨a, b⟩ := ih (s.extend p.x) (fun q hq => hps q (List.mem_cons_of_mem _ hq))
      (extend_within s p.x lo hi h hp.1 hp.2)
    exact ⟨a, by rw [b, extend_y]⟩

/-- The row test of `bresenham_intersection`. -/
def inYb (s : Scanline) (l : Line) : Bool :=
  if l.start.y ≤ l.stop.y then decide (l.start.y ≤ s.y ∧ s.y ≤ l.stop.y)
  else decide (l.stop.y ≤ s.y ∧ s.y ≤ l.start.y)

theorem inYb_iff (s : Scanline) (l : Line) :
    inYb s l = true ↔ (min l.start.y l.stop.y ≤ s.y ∧ s.y ≤ max l.start.y l.stop.y) := by
  unfold inYb
  by_cases h : l.start.y ≤ l.stop.y
  · simp only [h, ↓reduceIte, decide_eq_true_eq]; omega
  · simp only [h, ↓reduceIte, decide_eq_true_eq]; omega

/-- The points of the line in the scanline's row, as `bresenham_intersection` selects them. -/
def rowPoints (s : Scanline) (l : Line) : List Pt :=
  ((Line.points l).dropWhile (fun p => p.y != s.y)).takeWhile (fun p => p.y == s.y)

theorem bint_eq (s : Scanline) (l : Line) :
    bint s l = if inYb s l then (rowPoints s l).foldl (fun s p => s.extend p.x) s else s := by
  unfold bint Scanline.bresenhamIntersection
  show (if inYb s l = true then (if (!inYb s l) = true then s else _) else s) = _
  by_cases h : inYb s l = true
  · simp only [h, ↓reduceIte, Bool.not_true, Bool.false_eq_true]; rfl
  · simp only [h, Bool.false_eq_true, ↓reduceIte]

/-- `bresenham_intersection` keeps the scanline inside any column range that contains the line's
two end points, and keeps its row. -/
theorem bint_within (s : Scanline) (l : Line) (lo hi : Int) (h : Within s lo hi)
    (h1 : lo ≤ l.start.x) (h2 : lo ≤ l.stop.x) (h3 : l.start.x ≤ hi) (h4 : l.stop.x ≤ hi) :
    Within (bint s l) lo hi ∧ (bint s l).y = s.y := by
  rw [bint_eq]
  by_cases hb : inYb s l = true
  · simp only [hb, ↓reduceIte]
    apply foldl_extend_within _ _ _ _ _ h
    intro p hp
    have hp' : p ∈ Line.points l :=
      (List.dropWhile_sublist _).subset ((List.takeWhile_sublist _).subset hp)
    have hb := C17.line_points_in_box l p hp'
    omega
  · simp only [hb, Bool.false_eq_true, ↓reduceIte]
    exact ⟨h, trivial⟩

/-- `bresenham_intersection` leaves the scanline untouched when its row is outside the line's rows. -/
theorem bint_of_not_inY (s : Scanline) (l : Line)
    (h : ¬ (min l.start.y l.stop.y ≤ s.y ∧ s.y ≤ max l.start.y l.stop.y)) : bint s l = s := by
  rw [bint_eq]
  have hb : ¬ inYb s l = true := fun c => h ((inYb_iff s l).mp c)
  simp only [hb, Bool.false_eq_true, ↓reduceIte]

theorem foldl_bint_within (ls : List Line) (s : Scanline) (lo hi : Int) (h : Within s lo hi)
    (hl : ∀ l ∈ ls, lo ≤ l.start.x ∧ lo ≤ l.stop.x ∧ l.start.x ≤ hi ∧ l.stop.x ≤ hi) :
    Within (ls.foldl bint s) lo hi ∧ (ls.foldl bint s).y = s.y := by
  induction ls generalizing s with
  | nil => exact ⟨h, rfl⟩
  | cons l ls ih =>
    simp only [List.foldl_cons]
    obtain ⟨a1, a2, a3, a4⟩ := hl l List.mem_cons_self
    obtain ⟨b1, b2⟩ := bint_within s l lo hi h a1 a2 a3 a4
    obtain ⟨c1, c2⟩ := ih (bint s l) b1 (fun m hm => hl m (List.mem_cons_of_mem _ hm))
    exact ⟨c1, by rw [c2, b2]⟩

/-- **The scanline of any thick segment stays inside the column hull of the end points of its
outline lines** (caps, filler half-lines and the two edges), and in its row. -/
theorem intersection_within_outline (s : ThickSegment) (y lo hi : Int)
    (hl : ∀ l ∈ s.outline, lo ≤ l.start.x ∧ lo ≤ l.stop.x ∧ l.start.x ≤ hi ∧ l.stop.x ≤ hi) :
    Within (s.intersection y) lo hi ∧ (s.intersection y).y = y := by
  unfold ThickSegment.intersection
  exact foldl_bint_within s.outline (Scanline.newEmpty y) lo hi (Or.inl rfl) hl

/-! ### Skeleton segments -/

theorem outline_skeleton (s : ThickSegment) (h : s.isSkeleton = true) : s.outline = [s.edges.1] := by
  unfold ThickSegment.outline; simp only [h, ↓reduceIte]

/-- A skeleton segment's scanline is the Bresenham intersection of the one edge that is drawn. -/
theorem intersection_skeleton (s : ThickSegment) (h : s.isSkeleton = true) (y : Int) :
    s.intersection y = bint (Scanline.newEmpty y) s.edges.1 := by
  unfold ThickSegment.intersection; rw [outline_skeleton s h]; rfl

/-- **Every pixel a skeleton segment paints lies inside its `edges_bounding_box`.** -/
theorem skeleton_pixels_in_box (s : ThickSegment) (h : s.isSkeleton = true) (y : Int) (p : Pt)
    (hp : p ∈ (s.intersection y).points) : s.edgesBoundingBox.contains p = true := by
  rw [intersection_skeleton s h] at hp
  have hbox : s.edgesBoundingBox = lineBoundingBox s.edges.1 := by
    unfold ThickSegment.edgesBoundingBox; simp only [h, ↓reduceIte]
  rw [hbox]
  generalize s.edges.1 = l at *
  unfold lineBoundingBox
  rw [Rect.contains_withCorners]
  have hw0 : Within (Scanline.newEmpty y) (min l.start.x l.stop.x) (max l.start.x l.stop.x) := by
    left; rfl
  obtain ⟨hw, hy⟩ := bint_within (Scanline.newEmpty y) l _ _ hw0 (by omega) (by omega) (by omega) (by omega)
  rw [Scanline.mem_points] at hp
  obtain ⟨py, px1, px2⟩ := hp
  have hne : ¬ (bint (Scanline.newEmpty y) l).isEmpty = true := by
    rw [isEmpty_iff]; omega
  rcases hw with hw | ⟨hw1, hw2⟩
  · exact absurd hw hne
  · by_cases hin : min l.start.y l.stop.y ≤ (Scanline.newEmpty y).y ∧ (Scanline.newEmpty y).y ≤ max l.start.y l.stop.y
    · rw [hy] at py
      refine ⟨by omega, by omega, by omega, by omega⟩
    · rw [bint_of_not_inY _ _ hin] at hne
      exact absurd rfl hne

end Joins
end EG
