/-
  EG.Lemmas.Rect — characterisation lemmas for the Rectangle model (one `_iff` per Boolean
  method), used by C01, C02, C03, C09, C16.
-/
import EG.Model.Rect
namespace EG
namespace Rect

theorem bottomRight_some {r : Rect} (h : 0 < r.size.w ∧ 0 < r.size.h) :
    r.bottomRight = some ⟨r.tl.x + (r.size.w : Int) - 1, r.tl.y + (r.size.h : Int) - 1⟩ := by
  unfold bottomRight; simp [h]

theorem bottomRight_none {r : Rect} (h : ¬ (0 < r.size.w ∧ 0 < r.size.h)) :
    r.bottomRight = none := by
  unfold bottomRight; simp only [gt_iff_lt]; rw [if_neg h]

theorem bottomRight_eq_none_iff {r : Rect} : r.bottomRight = none ↔ r.size.w = 0 ∨ r.size.h = 0 := by
  unfold bottomRight
  split <;> simp <;> omega

theorem isZeroSized_iff {r : Rect} : r.isZeroSized = true ↔ r.size.w = 0 ∨ r.size.h = 0 := by
  unfold isZeroSized; simp; omega

/-- `contains` means: top-left plus size, as a set of points. -/
theorem contains_iff {r : Rect} {p : Pt} :
    r.contains p = true ↔
      r.tl.x ≤ p.x ∧ p.x < r.tl.x + r.size.w ∧ r.tl.y ≤ p.y ∧ p.y < r.tl.y + r.size.h := by
  unfold contains
  by_cases hz : 0 < r.size.w ∧ 0 < r.size.h
  · rw [bottomRight_some hz]
    split <;> simp <;> omega
  · rw [bottomRight_none hz]
    split <;> simp <;> omega

theorem contains_false_of_zero {r : Rect} {p : Pt} (h : r.size.w = 0 ∨ r.size.h = 0) :
    r.contains p = false := by
  cases hc : r.contains p with
  | false => rfl
  | true => rw [contains_iff] at hc; omega

theorem overlaps_iff {f0 f1 s0 s1 : Int} (hf : f0 ≤ f1) (hs : s0 ≤ s1) :
    overlaps f0 f1 s0 s1 = true ↔ max f0 s0 ≤ min f1 s1 := by
  unfold overlaps; simp only [decide_eq_true_eq]; omega

theorem withCorners_tl_x (a b : Pt) : (withCorners a b).tl.x = min a.x b.x := rfl
theorem withCorners_tl_y (a b : Pt) : (withCorners a b).tl.y = min a.y b.y := rfl
theorem withCorners_w (a b : Pt) : ((withCorners a b).size.w : Int) = max a.x b.x - min a.x b.x + 1 := by
  simp only [withCorners]; omega
theorem withCorners_h (a b : Pt) : ((withCorners a b).size.h : Int) = max a.y b.y - min a.y b.y + 1 := by
  simp only [withCorners]; omega

theorem contains_withCorners {a b p : Pt} :
    (withCorners a b).contains p = true ↔
      min a.x b.x ≤ p.x ∧ p.x ≤ max a.x b.x ∧ min a.y b.y ≤ p.y ∧ p.y ≤ max a.y b.y := by
  rw [contains_iff, withCorners_tl_x, withCorners_tl_y, withCorners_w, withCorners_h]; omega

/-- **Intersection is the set of common points**, for all pairs of rectangles. -/
theorem mem_intersection (a b : Rect) (p : Pt) :
    (a.intersection b).contains p = true ↔ (a.contains p = true ∧ b.contains p = true) := by
  unfold intersection
  by_cases ha : 0 < a.size.w ∧ 0 < a.size.h <;> by_cases hb : 0 < b.size.w ∧ 0 < b.size.h
  · rw [bottomRight_some ha, bottomRight_some hb]
    simp only
    split
    · rename_i h
      rw [Bool.and_eq_true, overlaps_iff (by omega) (by omega), overlaps_iff (by omega) (by omega)] at h
      rw [contains_withCorners, contains_iff, contains_iff]
      simp only [Pt.componentMax, Pt.componentMin]
      omega
    · rename_i h
      rw [Bool.and_eq_true, overlaps_iff (by omega) (by omega), overlaps_iff (by omega) (by omega)] at h
      rw [contains_iff, contains_iff, contains_iff]
      simp only [zero, Pt.zero, Sz.zero]
      omega
  · rw [bottomRight_some ha, bottomRight_none hb]
    simp only
    have hbf : b.contains p = false := contains_false_of_zero (by omega)
    split
    · simp [hbf]
    · simp [hbf, contains_false_of_zero (r := zero) (Or.inl rfl)]
  · rw [bottomRight_none ha, bottomRight_some hb]
    simp only
    have haf : a.contains p = false := contains_false_of_zero (by omega)
    split
    · simp [haf]
    · simp [haf, contains_false_of_zero (r := zero) (Or.inl rfl)]
  · rw [bottomRight_none ha, bottomRight_none hb]
    have haf : a.contains p = false := contains_false_of_zero (by omega)
    simp [haf, contains_false_of_zero (r := zero) (Or.inl rfl)]


/-- The result of `intersection` is always one of: the common rectangle, an operand that is
zero sized, or `zero`. If there is no common point the result is zero sized. -/
theorem intersection_zero_of_disjoint (a b : Rect)
    (h : ∀ p, ¬ (a.contains p = true ∧ b.contains p = true)) :
    (a.intersection b).isZeroSized = true := by
  rw [isZeroSized_iff]
  unfold intersection
  by_cases ha : 0 < a.size.w ∧ 0 < a.size.h <;> by_cases hb : 0 < b.size.w ∧ 0 < b.size.h
  · rw [bottomRight_some ha, bottomRight_some hb]
    simp only
    split
    · rename_i ho
      rw [Bool.and_eq_true, overlaps_iff (by omega) (by omega), overlaps_iff (by omega) (by omega)] at ho
      exfalso
      apply h ⟨max a.tl.x b.tl.x, max a.tl.y b.tl.y⟩
      rw [contains_iff, contains_iff]
      simp only
      omega
    · simp [zero, Sz.zero]
  · rw [bottomRight_some ha, bottomRight_none hb]
    simp only
    split
    · omega
    · simp [zero, Sz.zero]
  · rw [bottomRight_none ha, bottomRight_some hb]
    simp only
    split
    · omega
    · simp [zero, Sz.zero]
  · rw [bottomRight_none ha, bottomRight_none hb]
    simp [zero, Sz.zero]

/-- Closed form of `intersection` when both operands are non-empty and share a point. -/
theorem intersection_eq_of_common (a b : Rect) (p : Pt)
    (hp : a.contains p = true ∧ b.contains p = true) :
    a.intersection b =
      ⟨⟨max a.tl.x b.tl.x, max a.tl.y b.tl.y⟩,
       ⟨(min (a.tl.x + a.size.w) (b.tl.x + b.size.w) - max a.tl.x b.tl.x).toNat,
        (min (a.tl.y + a.size.h) (b.tl.y + b.size.h) - max a.tl.y b.tl.y).toNat⟩⟩ := by
  obtain ⟨h1, h2⟩ := hp
  rw [contains_iff] at h1 h2
  have ha : 0 < a.size.w ∧ 0 < a.size.h := by omega
  have hb : 0 < b.size.w ∧ 0 < b.size.h := by omega
  unfold intersection
  rw [bottomRight_some ha, bottomRight_some hb]
  simp only
  have ho : (overlaps a.tl.x (a.tl.x + ↑a.size.w - 1) b.tl.x (b.tl.x + ↑b.size.w - 1) &&
      overlaps a.tl.y (a.tl.y + ↑a.size.h - 1) b.tl.y (b.tl.y + ↑b.size.h - 1)) = true := by
    rw [Bool.and_eq_true, overlaps_iff (by omega) (by omega), overlaps_iff (by omega) (by omega)]
    omega
  rw [if_pos ho]
  simp only [withCorners, Pt.componentMax, Pt.componentMin, Rect.mk.injEq, Pt.mk.injEq, Sz.mk.injEq]
  omega

/-! ### envelope -/

/-- No `u32 -> i32` saturation and no `i32` overflow when adding the size to the top-left
corner: what the real code needs anyway to avoid a panic in a checked build. -/
def InRange (r : Rect) : Prop :=
  inI32 r.tl.x ∧ inI32 r.tl.y ∧ r.size.w ≤ 2147483647 ∧ r.size.h ≤ 2147483647 ∧
    r.tl.x + r.size.w ≤ 2147483647 ∧ r.tl.y + r.size.h ≤ 2147483647

instance (r : Rect) : Decidable r.InRange := by unfold InRange; exact inferInstance

theorem satAsI32_of_le {n : Nat} (h : n ≤ 2147483647) : satAsI32 n = n := by
  unfold satAsI32; simp [h]

theorem InRange.w_le {r : Rect} (h : r.InRange) : r.size.w ≤ 2147483647 := by
  unfold InRange inI32 at h; omega
theorem InRange.h_le {r : Rect} (h : r.InRange) : r.size.h ≤ 2147483647 := by
  unfold InRange inI32 at h; omega

theorem tdiv2_nonneg {d : Int} (h : 0 ≤ d) : tdiv2 d = d / 2 := by unfold tdiv2; simp [h]

theorem anchorX_right {r : Rect} (h : r.size.w ≤ 2147483647) :
    r.anchorX .right = r.tl.x + max (r.size.w : Int) 1 - 1 := by
  simp only [anchorX, satAsI32_of_le h]; omega
theorem anchorY_bottom {r : Rect} (h : r.size.h ≤ 2147483647) :
    r.anchorY .bottom = r.tl.y + max (r.size.h : Int) 1 - 1 := by
  simp only [anchorY, satAsI32_of_le h]; omega
theorem anchorX_left (r : Rect) : r.anchorX .left = r.tl.x := by simp [anchorX]
theorem anchorY_top (r : Rect) : r.anchorY .top = r.tl.y := by simp [anchorY]
theorem anchorX_center {r : Rect} (h : r.size.w ≤ 2147483647) :
    r.anchorX .center = r.tl.x + (max (r.size.w : Int) 1 - 1) / 2 := by
  simp only [anchorX, satAsI32_of_le h]; rw [tdiv2_nonneg (by omega)]
theorem anchorY_center {r : Rect} (h : r.size.h ≤ 2147483647) :
    r.anchorY .center = r.tl.y + (max (r.size.h : Int) 1 - 1) / 2 := by
  simp only [anchorY, satAsI32_of_le h]; rw [tdiv2_nonneg (by omega)]

/-- The operand "treated as at least 1x1" (documented convention of `envelope`). -/
def atLeastOne (r : Rect) : Rect := ⟨r.tl, ⟨max r.size.w 1, max r.size.h 1⟩⟩

/-- Closed form of `envelope`. -/
theorem envelope_eq (a b : Rect) (ha : a.size.w ≤ 2147483647 ∧ a.size.h ≤ 2147483647)
    (hb : b.size.w ≤ 2147483647 ∧ b.size.h ≤ 2147483647) :
    a.envelope b =
      ⟨⟨min a.tl.x b.tl.x, min a.tl.y b.tl.y⟩,
       ⟨(max (a.tl.x + max (a.size.w : Int) 1) (b.tl.x + max (b.size.w : Int) 1) - min a.tl.x b.tl.x).toNat,
        (max (a.tl.y + max (a.size.h : Int) 1) (b.tl.y + max (b.size.h : Int) 1) - min a.tl.y b.tl.y).toNat⟩⟩ := by
  unfold envelope anchorPoint
  rw [anchorX_right ha.1, anchorX_right hb.1, anchorY_bottom ha.2, anchorY_bottom hb.2]
  simp only [withCorners, Pt.componentMax, Pt.componentMin, Rect.mk.injEq, Pt.mk.injEq, Sz.mk.injEq]
  omega

/-- `envelope` contains both operands (each treated as at least 1x1) ... -/
theorem envelope_contains (a b : Rect) (ha : a.size.w ≤ 2147483647 ∧ a.size.h ≤ 2147483647)
    (hb : b.size.w ≤ 2147483647 ∧ b.size.h ≤ 2147483647) (p : Pt)
    (hp : a.atLeastOne.contains p = true ∨ b.atLeastOne.contains p = true) :
    (a.envelope b).contains p = true := by
  rw [envelope_eq a b ha hb, contains_iff]
  rw [contains_iff, contains_iff] at hp
  simp only [atLeastOne] at hp ⊢
  omega

/-- ... and is the least such rectangle: any rectangle containing both contains the envelope. -/
theorem envelope_least (a b c : Rect) (ha : a.size.w ≤ 2147483647 ∧ a.size.h ≤ 2147483647)
    (hb : b.size.w ≤ 2147483647 ∧ b.size.h ≤ 2147483647)
    (hc : ∀ p, (a.atLeastOne.contains p = true ∨ b.atLeastOne.contains p = true) → c.contains p = true)
    (p : Pt) (hp : (a.envelope b).contains p = true) : c.contains p = true := by
  rw [envelope_eq a b ha hb, contains_iff] at hp
  simp only at hp
  -- the four extreme corners of the operands are in `c`
  have hca := fun q h => hc q (Or.inl h)
  have hcb := fun q h => hc q (Or.inr h)
  have a1 := hca a.tl (by rw [contains_iff]; simp only [atLeastOne]; omega)
  have a2 := hca ⟨a.tl.x + max (a.size.w : Int) 1 - 1, a.tl.y + max (a.size.h : Int) 1 - 1⟩
    (by rw [contains_iff]; simp only [atLeastOne]; omega)
  have b1 := hcb b.tl (by rw [contains_iff]; simp only [atLeastOne]; omega)
  have b2 := hcb ⟨b.tl.x + max (b.size.w : Int) 1 - 1, b.tl.y + max (b.size.h : Int) 1 - 1⟩
    (by rw [contains_iff]; simp only [atLeastOne]; omega)
  rw [contains_iff] at a1 a2 b1 b2 ⊢
  simp only at a2 b2
  omega

end Rect
end EG
