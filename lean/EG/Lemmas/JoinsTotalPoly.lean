/-
  EG.Lemmas.JoinsTotalPoly — the model of a stroked polyline is total: `styledBoundingBox`,
  `drawStyled` and `pixels` return `some` for every vertex list, `translate` and stroke width.
  * everything that calls `Line::extents` is total by EG.Lemmas.ExtentsTotal;
  * the `while let Some(segment)` loop of `ScanlineIntersections::next` runs once per remaining
    segment (fuel `remaining_points.len() + 1`);
  * the `loop` of `ScanlineIterator::next` is bounded by the step budget of the model: per row every
    call of the intersections iterator that returns a scanline lowers the measure `PolyIntersections.m`
    (at most `points.len()`, then one `None`), and a `None` moves to the next row
    (`PolyScanlines.mu`);
  * `toList` / `pixels` truncate at their budget (`some []` at fuel 0), they never return `none`.
-/
import EG.Lemmas.ExtentsTotal
import EG.Lemmas.JoinsPolyMove
namespace EG
namespace Joins
open Thick (LineSide StrokeOffset)

/-! ### `ThickSegmentIter` -/

theorem ThickSegmentIter.new_total (vs : List Pt) (w : Nat) : ∃ it, ThickSegmentIter.new vs w = some it := by
  rcases vs with _ | ⟨a, _ | ⟨b, _ | ⟨c, rest⟩⟩⟩
  · exact ⟨_, rfl⟩
  · exact ⟨_, rfl⟩
  · obtain ⟨j1, h1⟩ := start_total a b w .none
    obtain ⟨j2, h2⟩ := stop_total a b w .none
    simp only [ThickSegmentIter.new, windowsNext, h1, h2, Option.bind_eq_bind, Option.bind_some, pure]
    exact ⟨_, rfl⟩
  · obtain ⟨j1, h1⟩ := start_total a b w .none
    obtain ⟨j2, h2⟩ := fromPoints_total a b c w .none
    simp only [ThickSegmentIter.new, windowsNext, h1, h2, Option.bind_eq_bind, Option.bind_some, pure]
    exact ⟨_, rfl⟩

theorem ThickSegmentIter.next_total (it : ThickSegmentIter) : ∃ r, it.next = some r := by
  unfold ThickSegmentIter.next
  by_cases hs : it.stop = true
  · simp only [hs, ↓reduceIte]; exact ⟨_, rfl⟩
  · simp only [hs, Bool.false_eq_true, ↓reduceIte]
    cases hw : windowsNext it.windows with
    | some r =>
      obtain ⟨⟨a, b, c⟩, rest⟩ := r
      obtain ⟨j, hj⟩ := fromPoints_total a b c it.width .none
      simp only [hj, Option.bind_eq_bind, Option.bind_some, pure]
      exact ⟨_, rfl⟩
    | none =>
      simp only []
      split
      · split
        · rename_i a b _ _
          obtain ⟨j, hj⟩ := stop_total a b it.width .none
          simp only [hj, Option.bind_eq_bind, Option.bind_some, pure]
          exact ⟨_, rfl⟩
        · exact ⟨_, rfl⟩
      · exact ⟨_, rfl⟩

theorem ThickSegmentIter.toListFuel_total : ∀ (fuel : Nat) (it : ThickSegmentIter),
    ∃ l, it.toListFuel fuel = some l := by
  intro fuel
  induction fuel with
  | zero => intro it; exact ⟨[], rfl⟩
  | succ n ih =>
    intro it
    obtain ⟨r, hr⟩ := ThickSegmentIter.next_total it
    rw [ThickSegmentIter.toListFuel]
    simp only [hr, Option.bind_eq_bind, Option.bind_some]
    cases r with
    | none => exact ⟨[], rfl⟩
    | some p =>
      obtain ⟨s, it'⟩ := p
      obtain ⟨l, hl⟩ := ih it'
      simp only [hl, Option.bind_some, pure]
      exact ⟨_, rfl⟩

/-- All thick segments of a stroked polyline exist. -/
theorem polySegments_total (vs : List Pt) (w : Nat) : ∃ segs, polySegments vs w = some segs := by
  obtain ⟨it, hit⟩ := ThickSegmentIter.new_total vs w
  obtain ⟨l, hl⟩ := ThickSegmentIter.toListFuel_total (it.points.length + 1) it
  exact ⟨l, by unfold polySegments; rw [hit]; exact hl⟩

theorem untranslatedBoundingBox_total (pl : Polyline) (w : Nat) :
    ∃ r, untranslatedBoundingBox pl w = some r := by
  by_cases h : w > 0 ∧ pl.vertices.length > 1
  · obtain ⟨segs, hs⟩ := polySegments_total pl.vertices w
    rw [untranslatedBoundingBox_eq pl w h, hs]
    exact ⟨_, rfl⟩
  · unfold untranslatedBoundingBox
    simp only [h, ↓reduceIte]
    exact ⟨_, rfl⟩

/-- **`bounding_box()` of a stroked polyline is total.** -/
theorem styledBoundingBox_total (pl : Polyline) (w : Nat) : ∃ r, styledBoundingBox pl w = some r := by
  obtain ⟨r, hr⟩ := untranslatedBoundingBox_total pl w
  unfold styledBoundingBox
  simp only [hr, Option.bind_eq_bind, Option.bind_some, pure]
  exact ⟨_, rfl⟩


/-! ### `ScanlineIntersections` (polyline) -/

theorem tryTake_some {s r : Scanline} (h : s.tryTake.1 = some r) :
    s.isEmpty = false ∧ s.tryTake.2.isEmpty = true := by
  unfold Scanline.tryTake at h ⊢
  cases he : s.isEmpty with
  | true => simp [he] at h
  | false => simp [Scanline.isEmpty]

namespace PolyIntersections

theorem new_total (pts : List Pt) (w : Nat) (y : Int) :
    ∃ it, PolyIntersections.new pts w y = some it ∧ it.points = pts ∧ it.remainingPoints = pts ∧
      it.width = w ∧ it.scanline = Scanline.newEmpty y := by
  rcases pts with _ | ⟨a, _ | ⟨b, rest⟩⟩
  · exact ⟨_, rfl, rfl, rfl, rfl, rfl⟩
  · exact ⟨_, rfl, rfl, rfl, rfl, rfl⟩
  · obtain ⟨j, hj⟩ := start_total a b w .none
    simp only [PolyIntersections.new, hj, Option.map_some, Option.bind_eq_bind, Option.bind_some, pure]
    exact ⟨_, rfl, rfl, rfl, rfl, rfl⟩

/-- Bound on the number of further calls of `next` (within the row) that return a scanline. -/
def m (it : PolyIntersections) : Nat :=
  if it.nextStartJoin.isSome = true ∧ 2 ≤ it.remainingPoints.length then it.remainingPoints.length
  else if it.scanline.isEmpty then 0 else 1

theorem m_le (it : PolyIntersections) : m it ≤ it.remainingPoints.length + 1 := by
  unfold m; split
  · omega
  · split <;> omega

/-- `next_segment` never gets stuck: no segment is left, or the next one is returned and one
point is dropped. -/
theorem nextSegment_spec (it : PolyIntersections) :
    (¬ (it.nextStartJoin.isSome = true ∧ 2 ≤ it.remainingPoints.length) ∧ it.nextSegment = some none) ∨
    (it.nextStartJoin.isSome = true ∧ 2 ≤ it.remainingPoints.length ∧
      ∃ seg j, it.nextSegment = some (some (seg,
        { it with remainingPoints := it.remainingPoints.tail, nextStartJoin := some j }))) := by
  cases hj : it.nextStartJoin with
  | none => left; exact ⟨by simp, by unfold nextSegment; rw [hj]⟩
  | some sj =>
    rcases hR : it.remainingPoints with _ | ⟨a, _ | ⟨b, _ | ⟨c, rest⟩⟩⟩
    · left; exact ⟨by simp, by unfold nextSegment; rw [hj, hR]⟩
    · left; exact ⟨by simp, by unfold nextSegment; rw [hj, hR]⟩
    · right
      obtain ⟨j, hs⟩ := stop_total a b it.width .none
      refine ⟨rfl, by simp, ⟨sj, j⟩, j, ?_⟩
      unfold nextSegment
      rw [hj, hR]
      simp only [hs, Option.map_some, List.tail_cons]
    · right
      obtain ⟨j, hs⟩ := fromPoints_total a b c it.width .none
      refine ⟨rfl, by simp, ⟨sj, j⟩, j, ?_⟩
      unfold nextSegment
      rw [hj, hR]
      simp only [hs, Option.map_some, List.tail_cons]

/-- The `while let` loop of `next` never exhausts its fuel; what it returns keeps the point list,
and a returned scanline lowers `m`. -/
theorem nextFuel_spec : ∀ (fuel : Nat) (it : PolyIntersections),
    it.remainingPoints.length ≤ it.points.length → it.remainingPoints.length < fuel →
    ∃ r it', it.nextFuel fuel = some (r, it') ∧ it'.remainingPoints.length ≤ it'.points.length ∧
      it'.points = it.points ∧ it'.width = it.width ∧ (r.isSome = true → m it' < m it) := by
  intro fuel
  induction fuel with
  | zero => intro it _ h; omega
  | succ n ih =>
    intro it hlen hf
    rw [nextFuel]
    rcases nextSegment_spec it with ⟨hno, hs⟩ | ⟨hj, h2, seg, j, hs⟩
    · rw [hs]
      dsimp only
      refine ⟨_, _, rfl, hlen, rfl, rfl, ?_⟩
      intro hr
      cases hr' : it.scanline.tryTake.1 with
      | none => rw [hr'] at hr; cases hr
      | some r =>
        obtain ⟨e1, e2⟩ := tryTake_some hr'
        unfold m
        dsimp only
        simp only [hno, ↓reduceIte, e1, e2]
        decide
    · rw [hs]
      dsimp only
      have htl : it.remainingPoints.tail.length = it.remainingPoints.length - 1 := List.length_tail
      split
      · -- not extended: the accumulated scanline is returned
        refine ⟨_, _, rfl, by dsimp only; omega, rfl, rfl, fun _ => ?_⟩
        unfold m
        dsimp only
        simp only [hj, h2, and_self, ↓reduceIte, Option.isSome_some, true_and]
        split
        · omega
        · split <;> omega
      · -- extended: the loop goes on with one point less
        obtain ⟨r, it', h, hl', hp', hw', hm'⟩ := ih
          { it with remainingPoints := it.remainingPoints.tail, nextStartJoin := some j,
                    scanline := (it.scanline.tryExtend (seg.intersection it.scanline.y)).2 }
          (by dsimp only; omega) (by dsimp only; omega)
        refine ⟨r, it', h, hl', hp', hw', fun hr => ?_⟩
        have := hm' hr
        have hlt : m
            { it with remainingPoints := it.remainingPoints.tail, nextStartJoin := some j,
                      scanline := (it.scanline.tryExtend (seg.intersection it.scanline.y)).2 } < m it := by
          unfold m
          dsimp only
          simp only [hj, h2, and_self, ↓reduceIte, Option.isSome_some, true_and]
          split
          · omega
          · split <;> omega
        omega

theorem next_spec (it : PolyIntersections) (hlen : it.remainingPoints.length ≤ it.points.length) :
    ∃ r it', it.next = some (r, it') ∧ it'.remainingPoints.length ≤ it'.points.length ∧
      it'.points = it.points ∧ it'.width = it.width ∧ (r.isSome = true → m it' < m it) :=
  nextFuel_spec _ it hlen (by omega)

end PolyIntersections

/-! ### `ScanlineIterator` (polyline) -/

namespace PolyScanlines

/-- The invariant: the remaining points are at most the points. -/
def Ok (it : PolyScanlines) : Prop :=
  it.intersections.remainingPoints.length ≤ it.intersections.points.length

/-- Bound on the number of iterations of the `loop` of `next` still possible. -/
def mu (it : PolyScanlines) : Nat :=
  (it.rowsEnd - it.rowsStart).toNat * (it.intersections.points.length + 3) +
    PolyIntersections.m it.intersections + 1

theorem nextFuel_total : ∀ (fuel : Nat) (it : PolyScanlines), Ok it → mu it < fuel →
    ∃ r, it.nextFuel fuel = some r ∧ ∀ s it', r = some (s, it') → Ok it' := by
  intro fuel
  induction fuel with
  | zero => intro it _ h; omega
  | succ n ih =>
    intro it hok hf
    obtain ⟨r, ints', hn, hl', hp', hw', hm'⟩ := PolyIntersections.next_spec it.intersections hok
    rw [nextFuel, hn]
    cases r with
    | some nxt =>
      dsimp only
      have hm := hm' rfl
      split
      · exact ⟨_, rfl, fun s it' h => by
          simp only [Option.some.injEq, Prod.mk.injEq] at h
          obtain ⟨-, rfl⟩ := h
          exact hl'⟩
      · apply ih
        · exact hl'
        · unfold mu at hf ⊢
          dsimp only
          rw [hp']
          omega
    | none =>
      dsimp only
      split
      · rename_i hrows
        obtain ⟨ints2, h2, e1, e2, e3, e4⟩ :=
          PolyIntersections.new_total ints'.points ints'.width it.rowsStart
        have hreset : ints'.resetWithNewScanline it.rowsStart = some ints2 := h2
        rw [hreset]
        dsimp only
        apply ih
        · show ints2.remainingPoints.length ≤ ints2.points.length
          rw [e1, e2]
        · have hm2 : PolyIntersections.m ints2 ≤ ints2.points.length := by
            unfold PolyIntersections.m
            rw [e2, e4, e1]
            split
            · exact Nat.le_refl _
            · simp [Scanline.newEmpty, Scanline.isEmpty]
          unfold mu at hf ⊢
          dsimp only
          rw [e1, hp'] at hm2 ⊢
          obtain ⟨k, hk⟩ : ∃ k : Nat, (it.rowsEnd - it.rowsStart).toNat = k + 1 :=
            ⟨(it.rowsEnd - it.rowsStart).toNat - 1, by omega⟩
          have hk' : (it.rowsEnd - (it.rowsStart + 1)).toNat = k := by omega
          rw [hk, Nat.succ_mul] at hf
          rw [hk']
          omega
      · exact ⟨_, rfl, fun s it' h => by cases h⟩

theorem mu_lt_stepBudget (it : PolyScanlines) (hok : Ok it) : mu it < it.stepBudget := by
  have := PolyIntersections.m_le it.intersections
  unfold Ok at hok
  unfold mu stepBudget
  rw [Nat.add_mul]
  omega

/-- `ScanlineIterator::next` never exhausts the step budget of the model. -/
theorem next_total (it : PolyScanlines) (hok : Ok it) :
    ∃ r, it.next = some r ∧ ∀ s it', r = some (s, it') → Ok it' :=
  nextFuel_total _ it hok (mu_lt_stepBudget it hok)

theorem toListFuel_total : ∀ (fuel : Nat) (it : PolyScanlines), Ok it →
    ∃ l, it.toListFuel fuel = some l := by
  intro fuel
  induction fuel with
  | zero => intro it _; exact ⟨[], rfl⟩
  | succ n ih =>
    intro it hok
    obtain ⟨r, hr, hinv⟩ := next_total it hok
    rw [toListFuel]
    simp only [hr, Option.bind_eq_bind, Option.bind_some]
    cases r with
    | none => exact ⟨[], rfl⟩
    | some p =>
      obtain ⟨s, it'⟩ := p
      obtain ⟨l, hl⟩ := ih it' (hinv s it' rfl)
      simp only [hl, Option.bind_some, pure]
      exact ⟨_, rfl⟩

theorem new_total (pl : Polyline) (w : Nat) : ∃ it, PolyScanlines.new pl w = some it ∧ Ok it := by
  obtain ⟨bb, hbb⟩ := untranslatedBoundingBox_total pl w
  unfold PolyScanlines.new
  simp only [hbb, Option.bind_eq_bind, Option.bind_some]
  split
  · obtain ⟨ints, h, e1, e2, e3, e4⟩ := PolyIntersections.new_total pl.vertices w bb.tl.y
    simp only [h, Option.bind_some, pure]
    exact ⟨_, rfl, by show ints.remainingPoints.length ≤ ints.points.length; rw [e1, e2]⟩
  · exact ⟨_, rfl, Nat.le_refl _⟩

end PolyScanlines

/-- The `fill_solid` rectangles of `draw_thick` exist. -/
theorem drawThickRects_total (pl : Polyline) (w : Nat) : ∃ rs, drawThickRects pl w = some rs := by
  obtain ⟨it, hit, hok⟩ := PolyScanlines.new_total pl w
  obtain ⟨l, hl⟩ := PolyScanlines.toListFuel_total it.stepBudget it hok
  have hl' : it.toList = some l := hl
  unfold drawThickRects
  simp only [hit, hl', Option.bind_eq_bind, Option.bind_some, pure]
  exact ⟨_, rfl⟩

/-- **`draw` of a stroked polyline is total** (every width, vertex list and `translate`). -/
theorem drawStyled_total (pl : Polyline) (w : Nat) : ∃ d, drawStyled pl w = some d := by
  unfold drawStyled
  split
  · exact ⟨_, rfl⟩
  · exact ⟨_, rfl⟩
  · obtain ⟨rs, hrs⟩ := drawThickRects_total pl w
    simp only [hrs, Option.bind_eq_bind, Option.bind_some]
    split <;> exact ⟨_, rfl⟩

/-! ### `StyledPixelsIterator` (polyline, `Thick` arm) -/

namespace PolyThickPixels

theorem new_total (pl : Polyline) (w : Nat) :
    ∃ it, PolyThickPixels.new pl w = some it ∧ PolyScanlines.Ok it.scanlineIter := by
  obtain ⟨si, hsi, hok⟩ := PolyScanlines.new_total pl w
  obtain ⟨r, hr, hinv⟩ := PolyScanlines.next_total si hok
  unfold PolyThickPixels.new
  simp only [hsi, hr, Option.bind_eq_bind, Option.bind_some]
  cases r with
  | none => exact ⟨_, rfl, hok⟩
  | some p =>
    obtain ⟨li, si'⟩ := p
    exact ⟨_, rfl, hinv li si' rfl⟩

theorem next_total (it : PolyThickPixels) (hok : PolyScanlines.Ok it.scanlineIter) :
    ∃ r, it.next = some r ∧ ∀ p it', r = some (p, it') → PolyScanlines.Ok it'.scanlineIter := by
  unfold PolyThickPixels.next
  cases hl : it.lineIter.next with
  | some q =>
    obtain ⟨p, li⟩ := q
    exact ⟨_, rfl, fun p it' h => by
      simp only [Option.some.injEq, Prod.mk.injEq] at h
      obtain ⟨-, rfl⟩ := h
      exact hok⟩
  | none =>
    obtain ⟨r, hr, hinv⟩ := PolyScanlines.next_total it.scanlineIter hok
    simp only [hr, Option.bind_eq_bind, Option.bind_some]
    cases r with
    | none => exact ⟨_, rfl, fun p it' h => by cases h⟩
    | some q =>
      obtain ⟨li, si⟩ := q
      dsimp only
      cases li.next with
      | none => exact ⟨_, rfl, fun p it' h => by cases h⟩
      | some q2 =>
        obtain ⟨p, li2⟩ := q2
        exact ⟨_, rfl, fun p it' h => by
          simp only [Option.some.injEq, Prod.mk.injEq] at h
          obtain ⟨-, rfl⟩ := h
          exact hinv li si rfl⟩

theorem toListFuel_total : ∀ (fuel : Nat) (it : PolyThickPixels), PolyScanlines.Ok it.scanlineIter →
    ∃ l, it.toListFuel fuel = some l := by
  intro fuel
  induction fuel with
  | zero => intro it _; exact ⟨[], rfl⟩
  | succ n ih =>
    intro it hok
    obtain ⟨r, hr, hinv⟩ := next_total it hok
    rw [toListFuel]
    simp only [hr, Option.bind_eq_bind, Option.bind_some]
    cases r with
    | none => exact ⟨[], rfl⟩
    | some p =>
      obtain ⟨s, it'⟩ := p
      obtain ⟨l, hl⟩ := ih it' (hinv s it' rfl)
      simp only [hl, Option.bind_some, pure]
      exact ⟨_, rfl⟩

end PolyThickPixels

theorem polyPixelFuel_total (pl : Polyline) (w : Nat) : ∃ n, polyPixelFuel pl w = some n := by
  obtain ⟨it, hit, hok⟩ := PolyScanlines.new_total pl w
  obtain ⟨l, hl⟩ := PolyScanlines.toListFuel_total it.stepBudget it hok
  have hl' : it.toList = some l := hl
  unfold polyPixelFuel
  simp only [hit, hl', Option.bind_eq_bind, Option.bind_some, pure]
  exact ⟨_, rfl⟩

/-- **`pixels()` of a stroked polyline is total** (every width, vertex list and `translate`). -/
theorem pixels_total (pl : Polyline) (w : Nat) : ∃ ps, pixels pl w = some ps := by
  unfold pixels
  split
  · exact ⟨_, rfl⟩
  · exact ⟨_, rfl⟩
  · obtain ⟨n, hn⟩ := polyPixelFuel_total pl w
    obtain ⟨it, hit, hok⟩ := PolyThickPixels.new_total pl w
    simp only [hn, hit, Option.bind_eq_bind, Option.bind_some]
    exact PolyThickPixels.toListFuel_total _ it hok

end Joins
end EG
