/-
  EG.Lemmas.ImageRawRows — rows are padded to whole bytes: pixel `(x, y)` of an image is pixel `x`
  of the byte slice `data[y * bytes_per_row .. (y + 1) * bytes_per_row]`, for every depth and both
  data orders.
-/
import EG.Lemmas.ImageRaw
namespace EG.Img
open EG EG.Raw

/-- The bytes of row `y`. -/
def ImageRaw.rowBytes (im : ImageRaw) (y : Nat) : List Nat :=
  (im.data.drop (y * bytesPerRow im.size.w im.bits)).take (bytesPerRow im.size.w im.bits)

theorem getElem?_row (data : List Nat) (start n i : Nat) (h : i < n) :
    ((data.drop start).take n)[i]? = data[start + i]? := by
  rw [List.getElem?_take]
  simp only [h, ↓reduceIte, List.getElem?_drop]

theorem loadBits_row (bits ppb : Nat) (o : Order) (data : List Nat) (bpr x y : Nat)
    (hppb : 8 / bits = ppb) (hpos : 0 < ppb) (hx : x / ppb < bpr) :
    loadBits bits o data (x + y * (bpr * ppb)) = loadBits bits o ((data.drop (y * bpr)).take bpr) x := by
  unfold loadBits bitPosition
  simp only [hppb]
  have e : y * (bpr * ppb) = (y * bpr) * ppb := by rw [Nat.mul_assoc]
  have h1 : (x + y * (bpr * ppb)) / ppb = y * bpr + x / ppb := by
    rw [e, Nat.add_mul_div_right _ _ hpos]; omega
  have h2 : (x + y * (bpr * ppb)) % ppb = x % ppb := by
    rw [e, Nat.add_mul_mod_self_right]
  rw [h1, h2, getElem?_row _ _ _ _ hx]

theorem take_drop_row (data : List Nat) (n w x y : Nat) (hx : x < w) :
    ((data.drop (y * (w * n))).take (w * n) |>.drop (x * n)).take n = (data.drop ((x + y * w) * n)).take n := by
  rw [List.drop_take, List.take_take, List.drop_drop]
  have h1 : (x + 1) * n ≤ w * n := Nat.mul_le_mul_right _ hx
  rw [Nat.succ_mul] at h1
  have h2 : min n (w * n - x * n) = n := by omega
  have h3 : y * (w * n) + x * n = (x + y * w) * n := by
    rw [Nat.add_mul, Nat.mul_assoc]; omega
  rw [h2, h3]

theorem loadBytes_row (n : Nat) (o : Order) (data : List Nat) (w x y : Nat) (hn : 0 < n) (hx : x < w)
    (hlen : (y + 1) * (w * n) ≤ data.length) :
    loadBytes n o data (x + y * w) = loadBytes n o ((data.drop (y * (w * n))).take (w * n)) x := by
  have h1 : (x + 1) * n ≤ w * n := Nat.mul_le_mul_right _ hx
  rw [Nat.succ_mul] at h1
  rw [Nat.succ_mul] at hlen
  have h3 : (x + y * w) * n = y * (w * n) + x * n := by
    rw [Nat.add_mul, Nat.mul_assoc]; omega
  unfold loadBytes sliceFrom slicePrefix
  have c1 : (x + y * w) * n ≤ data.length := by omega
  have c2 : n ≤ (data.drop ((x + y * w) * n)).length := by rw [List.length_drop]; omega
  have hrl : ((data.drop (y * (w * n))).take (w * n)).length = w * n := by
    rw [List.length_take, List.length_drop]; omega
  have c3 : x * n ≤ ((data.drop (y * (w * n))).take (w * n)).length := by rw [hrl]; omega
  have c4 : n ≤ (((data.drop (y * (w * n))).take (w * n)).drop (x * n)).length := by
    rw [List.length_drop, hrl]; omega
  simp only [c1, c2, c3, c4, ↓reduceIte, take_drop_row data n w x y hx]

/-- **Rows are padded to whole bytes**: pixel `(x, y)` is pixel `x` of the bytes of row `y`. -/
theorem ImageRaw.pixel_row_aligned {im : ImageRaw} (hw : im.WF) {x y : Nat} (hx : x < im.size.w)
    (hy : y < im.size.h) :
    im.pixel ⟨x, y⟩ = load im.bits im.order (im.rowBytes y) x := by
  rw [ImageRaw.pixel_eq hw]
  have hc : im.boundingBox.contains ⟨x, y⟩ = true := by
    rw [ImageRaw.contains_boundingBox]; simp only; omega
  simp only [hc, ↓reduceIte, Int.toNat_natCast]
  have hlen := hw.len
  have hrows : (y + 1) * bytesPerRow im.size.w im.bits ≤ im.data.length := by
    rw [hlen, Nat.mul_comm (bytesPerRow im.size.w im.bits) im.size.h]; exact Nat.mul_le_mul_right _ hy
  unfold ImageRaw.rowBytes ImageRaw.dataWidth load
  rcases validBits_cases hw.bits with h | h | h | h | h | h | h <;> rw [h] at hrows ⊢
  · simp only [show (1:Nat) < 8 from by omega, ↓reduceIte]
    exact loadBits_row 1 8 _ _ _ x y (by decide) (by omega) (by unfold bytesPerRow; omega)
  · simp only [show (2:Nat) < 8 from by omega, ↓reduceIte]
    exact loadBits_row 2 4 _ _ _ x y (by decide) (by omega) (by unfold bytesPerRow; omega)
  · simp only [show (4:Nat) < 8 from by omega, ↓reduceIte]
    exact loadBits_row 4 2 _ _ _ x y (by decide) (by omega) (by unfold bytesPerRow; omega)
  · simp only [show ¬ (8:Nat) < 8 from by omega, ↓reduceIte, loadU8]
    have e : bytesPerRow im.size.w 8 = im.size.w := by unfold bytesPerRow; omega
    rw [e, getElem?_row _ _ _ _ hx, Nat.add_comm]
  · simp only [show ¬ (16:Nat) < 8 from by omega, show ¬ (16:Nat) = 8 from by omega, ↓reduceIte]
    have e : bytesPerRow im.size.w 16 = im.size.w * (16 / 8) := by unfold bytesPerRow; omega
    rw [e] at hrows ⊢
    exact loadBytes_row _ _ _ _ x y (by decide) hx hrows
  · simp only [show ¬ (24:Nat) < 8 from by omega, show ¬ (24:Nat) = 8 from by omega, ↓reduceIte]
    have e : bytesPerRow im.size.w 24 = im.size.w * (24 / 8) := by unfold bytesPerRow; omega
    rw [e] at hrows ⊢
    exact loadBytes_row _ _ _ _ x y (by decide) hx hrows
  · simp only [show ¬ (32:Nat) < 8 from by omega, show ¬ (32:Nat) = 8 from by omega, ↓reduceIte]
    have e : bytesPerRow im.size.w 32 = im.size.w * (32 / 8) := by unfold bytesPerRow; omega
    rw [e] at hrows ⊢
    exact loadBytes_row _ _ _ _ x y (by decide) hx hrows

end EG.Img
