/-
  EG.Lemmas.CheckedStyledScanline — range theorems of scanline-based styled drawing
  (Model/CheckedStyledScanline.lean): `StyledScanline` draws, the mirrored-range search, the
  circle and ellipse `Scanlines` / `StyledScanlines` iterators.

  Domains: circles `Sec.circle` (corner within +-4096, diameter up to 4097), ellipses with corner
  within +-4096 and sides up to 4097; the invariants `Circle.SLOk` / `Ellipse.SLOk` say that rows
  and columns stay within -8192 ..= 8193 and the doubled centre within +-16383.
-/
import EG.Lemmas.CheckedSector
import EG.Lemmas.CheckedRRect
import EG.Lemmas.Scanline
import EG.Lemmas.CheckedScanline
import EG.Model.CheckedStyledScanline
namespace EG.Chk
open EG

namespace StyledScanline

theorem drawOne_ok {s : EG.Scanline} (h1 : -1073741823 ≤ s.xs ∧ s.xs ≤ 1073741823)
    (h2 : -1073741823 ≤ s.xe ∧ s.xe ≤ 1073741823) (c : Color) : drawOne s c = some (s.draw c) := by
  unfold drawOne EG.Scanline.draw
  rw [EG.Chk.Scanline.drawRect_ok h1 h2]
  simp only [Option.bind_eq_bind, Option.bind_some]
  cases s.isEmpty <;> rfl

/-- all four ends of a styled scanline within `|x| < 2^30` -/
def Ends (s : EG.StyledScanline) : Prop :=
  (-1073741823 ≤ s.ss ∧ s.ss ≤ 1073741823) ∧ (-1073741823 ≤ s.se ∧ s.se ≤ 1073741823) ∧
  (-1073741823 ≤ s.fs ∧ s.fs ≤ 1073741823) ∧ (-1073741823 ≤ s.fe ∧ s.fe ≤ 1073741823)
instance (s : EG.StyledScanline) : Decidable (Ends s) := by unfold Ends; exact inferInstance

theorem drawStroke_ok {s : EG.StyledScanline} (h : Ends s) (sc : Color) :
    drawStroke s sc = some (s.drawStroke sc) := by
  obtain ⟨h1, h2, h3, h4⟩ := h
  unfold drawStroke EG.StyledScanline.drawStroke
  rw [drawOne_ok (s := s.strokeLeft) h1 h3, drawOne_ok (s := s.strokeRight) h4 h2]
  rfl

theorem drawStrokeAndFill_ok {s : EG.StyledScanline} (h : Ends s) (sc fc : Color) :
    drawStrokeAndFill s sc fc = some (s.drawStrokeAndFill sc fc) := by
  obtain ⟨h1, h2, h3, h4⟩ := h
  unfold drawStrokeAndFill EG.StyledScanline.drawStrokeAndFill
  rw [drawOne_ok (s := s.strokeLeft) h1 h3, drawOne_ok (s := s.fill) h3 h4,
    drawOne_ok (s := s.strokeRight) h4 h2]
  rfl

end StyledScanline

/-- The mirrored-range search for a predicate that is fine on the whole range, ends within
`|x| <= 2^30`. -/
theorem mirroredRange_ok {pred : Int → Option Bool} {p : Int → Bool} {a b : Int}
    (hp : ∀ x, a ≤ x → x < b → pred x = some (p x))
    (ha : -1073741824 ≤ a ∧ a ≤ 1073741824) (hb : -1073741824 ≤ b ∧ b ≤ 1073741824) :
    mirroredRange pred a b = some (EG.mirroredRange p a b) := by
  unfold mirroredRange EG.mirroredRange
  rw [rangeFind_ok hp]
  simp only [Option.bind_eq_bind, Option.bind_some]
  cases hf : EG.rangeFind p a b with
  | none => rfl
  | some x =>
    obtain ⟨h1, h2, _, _⟩ := rangeFind_some.1 hf
    simp only [Option.map_some]
    chk_simp

/-- The result of the mirrored-range search lies inside the range. -/
theorem mirroredRange_bounds {p : Int → Bool} {a b : Int} {r : Int × Int}
    (h : EG.mirroredRange p a b = some r) : a ≤ r.1 ∧ r.1 < b ∧ a < r.2 ∧ r.2 ≤ b := by
  unfold EG.mirroredRange at h
  cases hf : EG.rangeFind p a b with
  | none => rw [hf] at h; cases h
  | some x =>
    obtain ⟨h1, h2, _, _⟩ := rangeFind_some.1 hf
    rw [hf] at h
    simp only [Option.map_some, Option.some.injEq] at h
    rw [← h]
    simp only
    omega

/-! ## Circles -/

namespace Circle

theorem hit_ok {c : Pt} (hcx : -16383 ≤ c.x ∧ c.x ≤ 16383) (hcy : -16383 ≤ c.y ∧ c.y ≤ 16383)
    (th : Nat) {x y : Int} (hx : -8192 ≤ x ∧ x ≤ 8192) (hy : -8192 ≤ y ∧ y ≤ 8192) :
    hit c th y x = some (EG.Circle.hit c th y x) := by
  obtain ⟨_, _⟩ := hcx
  obtain ⟨_, _⟩ := hcy
  obtain ⟨_, _⟩ := hx
  obtain ⟨_, _⟩ := hy
  unfold hit EG.Circle.hit
  rw [ptMul_ok (by simp only; omega) (by simp only; omega)]
  simp only [Option.bind_eq_bind, Option.bind_some]
  rw [ptSub_ok (by simp only; omega) (by simp only; omega)]
  simp only [Option.bind_some]
  rw [lengthSquared_ok (by simp only [Pt.sub_x]; omega) (by simp only [Pt.sub_y]; omega)]
  simp only [Option.bind_some, Option.pure_def]
  have hn : 0 ≤ EG.lengthSquared ((⟨x * 2, y * 2⟩ : Pt) - c) := by
    unfold EG.lengthSquared
    have := sq_nonneg' ((⟨x * 2, y * 2⟩ : Pt) - c).x
    have := sq_nonneg' ((⟨x * 2, y * 2⟩ : Pt) - c).y
    omega
  rw [i32AsU32_nonneg hn]

/-- invariant of `circle::Scanlines` -/
structure SLOk (it : EG.Circle.ScanlinesIt) : Prop where
  xs : -8192 ≤ it.xs
  xe : it.xe ≤ 8193
  le : it.xs ≤ it.xe
  y : -8192 ≤ it.y
  ye : it.yEnd ≤ 8193
  cx : -16383 ≤ it.center2x.x ∧ it.center2x.x ≤ 16383
  cy : -16383 ≤ it.center2x.y ∧ it.center2x.y ≤ 16383

theorem box_ends {tl : Pt} {d : Nat} (hx : -4096 ≤ tl.x ∧ tl.x ≤ 4096) (hy : -4096 ≤ tl.y ∧ tl.y ≤ 4096)
    (hw : d ≤ 4097) :
    (⟨tl, ⟨d, d⟩⟩ : Rect).columnsEnd = tl.x + d ∧ (⟨tl, ⟨d, d⟩⟩ : Rect).rowsEnd = tl.y + d := by
  have e : satAsI32 d = d := by unfold satAsI32; rw [if_pos (by omega)]
  unfold Rect.columnsEnd Rect.rowsEnd
  simp only [e]
  unfold satAddI32
  constructor
  · rw [if_neg (by omega), if_neg (by omega)]
  · rw [if_neg (by omega), if_neg (by omega)]

/-- **`Scanlines::new`** of a circle of the shape domain. -/
theorem scanlines_ok {c : EG.Circle} (h : Sec.circle c) :
    scanlines c = some c.scanlines ∧ SLOk c.scanlines := by
  obtain ⟨hx, hy, hd⟩ := h
  obtain ⟨ce, re⟩ := box_ends hx hy hd
  constructor
  · unfold scanlines EG.Circle.scanlines
    rw [Circle.center2x_ok (by unfold W.pt W.coord; omega) (by unfold W.size; omega),
      diameterToThreshold_ok (by omega)]
    rfl
  · unfold EG.Circle.scanlines EG.Circle.boundingBox
    refine ⟨by simp only; omega, by simp only [ce]; omega, by simp only [ce]; omega, by simp only; omega, by simp only [re]; omega, ?_, ?_⟩
    · simp only [EG.Circle.center2x]; omega
    · simp only [EG.Circle.center2x]; omega

theorem row_ok {it : EG.Circle.ScanlinesIt} (hi : SLOk it) {y : Int} (hy : -8192 ≤ y ∧ y ≤ 8192) :
    row it y = some (it.row y) := by
  have := hi.xs; have := hi.xe; have := hi.le
  unfold row EG.Circle.ScanlinesIt.row
  rw [mirroredRange_ok (p := EG.Circle.hit it.center2x it.threshold y)
    (fun x h1 h2 => hit_ok hi.cx hi.cy _ (by omega) hy) (by omega) (by omega)]
  rfl

/-- A scanline the iterator yields lies inside its columns. -/
theorem row_bounds {it : EG.Circle.ScanlinesIt} {y : Int} {s : EG.Scanline} (h : it.row y = some s) :
    s.y = y ∧ it.xs ≤ s.xs ∧ s.xs < it.xe ∧ it.xs < s.xe ∧ s.xe ≤ it.xe := by
  unfold EG.Circle.ScanlinesIt.row at h
  cases hm : EG.mirroredRange (EG.Circle.hit it.center2x it.threshold y) it.xs it.xe with
  | none => rw [hm] at h; cases h
  | some r =>
    have hb := mirroredRange_bounds hm
    rw [hm] at h
    simp only [Option.map_some, Option.some.injEq] at h
    rw [← h]
    exact ⟨rfl, hb.1, hb.2.1, hb.2.2.1, hb.2.2.2⟩

/-- **`circle::Scanlines::next`**: one step, and the invariant is kept. -/
theorem next_ok {it : EG.Circle.ScanlinesIt} (hi : SLOk it) :
    next it = some it.next ∧ SLOk it.next.2 := by
  have := hi.y; have := hi.ye
  unfold next EG.Circle.ScanlinesIt.next
  split
  · rw [row_ok hi (by omega)]
    exact ⟨rfl, ⟨hi.xs, hi.xe, hi.le, by simp only; omega, hi.ye, hi.cx, hi.cy⟩⟩
  · exact ⟨rfl, hi⟩

/-- invariant of `circle::styled::StyledScanlines` -/
def StyledOk (it : EG.Circle.StyledScanlinesIt) : Prop := SLOk it.scanlines

theorem styledScanlines_ok {sa fa : EG.Circle} (hs : Sec.circle sa) (hf : fa.d ≤ 65535) :
    styledScanlines sa fa = some (EG.Circle.styledScanlines sa fa) ∧
    StyledOk (EG.Circle.styledScanlines sa fa) := by
  obtain ⟨e, ok⟩ := scanlines_ok hs
  constructor
  · unfold styledScanlines EG.Circle.styledScanlines
    rw [e, diameterToThreshold_ok hf]
    rfl
  · exact ok

theorem style_ok {it : EG.Circle.StyledScanlinesIt} (hi : StyledOk it) {s : EG.Scanline}
    (hy : -8192 ≤ s.y ∧ s.y ≤ 8192) (hxs : it.scanlines.xs ≤ s.xs) (hxe : s.xe ≤ it.scanlines.xe) :
    style it s = some (it.style s) := by
  have := hi.xs; have := hi.xe
  unfold style EG.Circle.StyledScanlinesIt.style
  by_cases hemp : s.xs < s.xe
  · rw [mirroredRange_ok (p := EG.Circle.hit it.scanlines.center2x it.fillThreshold s.y)
      (fun x h1 h2 => hit_ok hi.cx hi.cy _ (by omega) hy) (by omega) (by omega)]
    rfl
  · -- an empty stroke scanline: nothing is probed
    have e1 : rangeFind (hit it.scanlines.center2x it.fillThreshold s.y) s.xs s.xe = some none := by
      unfold rangeFind
      have : (s.xe - s.xs).toNat = 0 := by omega
      rw [this]; rfl
    have e2 : EG.rangeFind (EG.Circle.hit it.scanlines.center2x it.fillThreshold s.y) s.xs s.xe = none := by
      unfold EG.rangeFind
      rw [irange_empty (a := s.xs) (b := s.xe) (by omega)]; rfl
    unfold mirroredRange EG.mirroredRange
    rw [e1, e2]
    rfl

/-- **`circle::styled::StyledScanlines::next`**: one step, the invariant is kept, and the ends
of the styled scanline it yields are within -8192 ..= 8193. -/
theorem styledNext_ok {it : EG.Circle.StyledScanlinesIt} (hi : StyledOk it) :
    styledNext it = some it.next ∧ StyledOk it.next.2 ∧
    ∀ s, it.next.1 = some s → StyledScanline.Ends s := by
  obtain ⟨e, ok⟩ := next_ok hi
  have hxs := hi.xs; have hxe := hi.xe; have hyy := hi.y; have hye := hi.ye
  unfold styledNext EG.Circle.StyledScanlinesIt.next
  rw [e]
  simp only [Option.bind_eq_bind, Option.bind_some]
  cases hn : it.scanlines.next with
  | mk r sl' =>
    rw [hn] at ok
    cases r with
    | none => exact ⟨rfl, ok, fun _ h => by cases h⟩
    | some s =>
      simp only
      -- the scanline came from row `it.scanlines.y`
      have hrow : it.scanlines.y < it.scanlines.yEnd ∧ it.scanlines.row it.scanlines.y = some s := by
        unfold EG.Circle.ScanlinesIt.next at hn
        split at hn
        · simp only [Prod.mk.injEq] at hn; exact ⟨by assumption, hn.1⟩
        · simp only [Prod.mk.injEq] at hn; cases hn.1
      obtain ⟨hlt, hr⟩ := hrow
      obtain ⟨b1, b2, b2', b3', b3⟩ := row_bounds hr
      rw [style_ok hi (by omega) b2 b3]
      refine ⟨rfl, ok, ?_⟩
      intro st hst
      simp only [Option.some.injEq] at hst
      rw [← hst]
      unfold EG.Circle.StyledScanlinesIt.style EG.StyledScanline.new
      cases hm : EG.mirroredRange (EG.Circle.hit it.scanlines.center2x it.fillThreshold s.y) s.xs s.xe with
      | none =>
        simp only
        unfold StyledScanline.Ends
        simp only
        omega
      | some r =>
        have hb := mirroredRange_bounds hm
        obtain ⟨ra, rb⟩ := r
        simp only at hb ⊢
        unfold StyledScanline.Ends
        simp only
        omega

end Circle

/-! ## Ellipses -/

namespace Ellipse

/-- invariant of `ellipse::Scanlines`: also the `EllipseContains` constants are `u32` -/
structure SLOk (it : EG.Ellipse.ScanlinesIt) : Prop where
  xs : -8192 ≤ it.xs
  xe : it.xe ≤ 8193
  le : it.xs ≤ it.xe
  y : -8192 ≤ it.y
  ye : it.yEnd ≤ 8193
  cx : -16383 ≤ it.center2x.x ∧ it.center2x.x ≤ 16383
  cy : -16383 ≤ it.center2x.y ∧ it.center2x.y ≤ 16383
  a : it.ec.a ≤ 4294967295
  b : it.ec.b ≤ 4294967295

theorem hitScaled_ok {cx : Int} (hcx : -16383 ≤ cx ∧ cx ≤ 16383) {ec : EG.EllipseContains}
    (ha : ec.a ≤ 4294967295) (hb : ec.b ≤ 4294967295) {sy x : Int} (hsy : -32767 ≤ sy ∧ sy ≤ 32767)
    (hx : -8192 ≤ x ∧ x ≤ 8192) :
    hitScaled cx ec sy x = some (ec.contains ⟨x * 2 - cx, sy⟩) := by
  obtain ⟨_, _⟩ := hcx
  obtain ⟨_, _⟩ := hx
  obtain ⟨_, _⟩ := hsy
  unfold hitScaled
  chk_simp
  exact EllipseContains.contains_ok ha hb (by simp only; omega) (by simp only; omega)

/-- The row search with the constants of any `EllipseContains` built from `u32` squares. -/
theorem rowOf_ok {c : Pt} (hcx : -16383 ≤ c.x ∧ c.x ≤ 16383) (hcy : -16383 ≤ c.y ∧ c.y ≤ 16383)
    {ec : EG.EllipseContains} (ha : ec.a ≤ 4294967295) (hb : ec.b ≤ 4294967295) {xs xe y : Int}
    (hxs : -8192 ≤ xs) (hxe : xe ≤ 8193) (hy : -8192 ≤ y ∧ y ≤ 8192) :
    rowOf c ec xs xe y = some (EG.mirroredRange (EG.Ellipse.hit c ec y) xs xe) := by
  obtain ⟨_, _⟩ := hcy
  obtain ⟨_, _⟩ := hy
  unfold rowOf
  chk_simp
  by_cases hemp : xs < xe
  · exact mirroredRange_ok (p := EG.Ellipse.hit c ec y)
      (fun x h1 h2 => hitScaled_ok hcx ha hb (by omega) (by omega)) (by omega) (by omega)
  · have e1 : rangeFind (hitScaled c.x ec (y * 2 - c.y)) xs xe = some none := by
      unfold rangeFind
      have : (xe - xs).toNat = 0 := by omega
      rw [this]; rfl
    have e2 : EG.rangeFind (EG.Ellipse.hit c ec y) xs xe = none := by
      unfold EG.rangeFind
      rw [irange_empty (a := xs) (b := xe) (by omega)]; rfl
    unfold mirroredRange EG.mirroredRange
    rw [e1, e2]
    rfl

/-- ellipses of the shape domain: corner within +-4096, sides up to 4097 -/
def Dom (e : EG.Ellipse) : Prop :=
  (-4096 ≤ e.tl.x ∧ e.tl.x ≤ 4096) ∧ (-4096 ≤ e.tl.y ∧ e.tl.y ≤ 4096) ∧ e.size.w ≤ 4097 ∧ e.size.h ≤ 4097
instance (e : EG.Ellipse) : Decidable (Dom e) := by unfold Dom; exact inferInstance

theorem new_ab {s : Sz} (hw : s.w ≤ 65535) (hh : s.h ≤ 65535) :
    (EG.EllipseContains.new s).a ≤ 4294967295 ∧ (EG.EllipseContains.new s).b ≤ 4294967295 := by
  have h1 : s.w * s.w ≤ 65535 * 65535 := nat_sq_le hw
  have h2 : s.h * s.h ≤ 65535 * 65535 := nat_sq_le hh
  simp only [EG.EllipseContains.new, pow2_nat]
  omega

/-- **`Scanlines::new`** of an ellipse of the shape domain. -/
theorem scanlines_ok {e : EG.Ellipse} (h : Dom e) :
    scanlines e = some e.scanlines ∧ SLOk e.scanlines := by
  obtain ⟨hx, hy, hw, hh⟩ := h
  obtain ⟨ha, hb⟩ := new_ab (s := e.size) (by omega) (by omega)
  have e1 : satAsI32 e.size.h = e.size.h := by unfold satAsI32; rw [if_pos (by omega)]
  have e2 : satAsI32 e.size.w = e.size.w := by unfold satAsI32; rw [if_pos (by omega)]
  have ce : e.boundingBox.columnsEnd = e.tl.x + e.size.w := by
    unfold Rect.columnsEnd EG.Ellipse.boundingBox; simp only [e2]
    unfold satAddI32; rw [if_neg (by omega), if_neg (by omega)]
  have re : e.boundingBox.rowsEnd = e.tl.y + e.size.h := by
    unfold Rect.rowsEnd EG.Ellipse.boundingBox; simp only [e1]
    unfold satAddI32; rw [if_neg (by omega), if_neg (by omega)]
  constructor
  · unfold scanlines EG.Ellipse.scanlines
    rw [Ellipse.center2x_ok (by unfold W.pt W.coord; omega) (by unfold W.sz W.size; omega),
      EllipseContains.new_ok (by omega) (by omega)]
    rfl
  · unfold EG.Ellipse.scanlines
    refine ⟨by simp only [EG.Ellipse.boundingBox]; omega, by simp only [ce]; omega,
      by show e.boundingBox.tl.x ≤ e.boundingBox.columnsEnd; rw [ce]; show e.tl.x ≤ _; omega,
      by simp only [EG.Ellipse.boundingBox]; omega, by simp only [re]; omega, ?_, ?_, ha, hb⟩
    · simp only [EG.Ellipse.center2x, EG.Ellipse.center2xOf]; omega
    · simp only [EG.Ellipse.center2x, EG.Ellipse.center2xOf]; omega

/-- **`ellipse::Scanlines::next`** (`rows.find_map`): any number of skipped rows, and the
invariant is kept. -/
theorem nextFuel_ok : ∀ (fuel : Nat) (it : EG.Ellipse.ScanlinesIt), SLOk it →
    nextFuel fuel it = some (it.nextFuel fuel) ∧ SLOk (it.nextFuel fuel).2 := by
  intro fuel
  induction fuel with
  | zero => intro it hi; exact ⟨rfl, hi⟩
  | succ fuel ih =>
    intro it hi
    have := hi.y; have := hi.ye
    unfold nextFuel EG.Ellipse.ScanlinesIt.nextFuel
    split
    · rw [rowOf_ok hi.cx hi.cy hi.a hi.b hi.xs hi.xe (by omega)]
      simp only [Option.bind_eq_bind, Option.bind_some, EG.Ellipse.ScanlinesIt.row]
      have hi' : SLOk { it with y := it.y + 1 } :=
        ⟨hi.xs, hi.xe, hi.le, by simp only; omega, hi.ye, hi.cx, hi.cy, hi.a, hi.b⟩
      cases EG.mirroredRange (EG.Ellipse.hit it.center2x it.ec it.y) it.xs it.xe with
      | none => simp only [Option.map_none]; exact ih _ hi'
      | some r => simp only [Option.map_some]; exact ⟨rfl, hi'⟩
    · exact ⟨rfl, hi⟩

theorem next_ok {it : EG.Ellipse.ScanlinesIt} (hi : SLOk it) :
    next it = some it.next ∧ SLOk it.next.2 := nextFuel_ok _ it hi

/-- invariant of `ellipse::styled::StyledScanlines` -/
structure StyledOk (it : EG.Ellipse.StyledScanlinesIt) : Prop where
  sl : SLOk it.scanlines
  a : it.fillArea.a ≤ 4294967295
  b : it.fillArea.b ≤ 4294967295

theorem styledScanlines_ok {sa fa : EG.Ellipse} (hs : Dom sa) (hw : fa.size.w ≤ 65535)
    (hh : fa.size.h ≤ 65535) :
    styledScanlines sa fa = some (EG.Ellipse.styledScanlines sa fa) ∧
    StyledOk (EG.Ellipse.styledScanlines sa fa) := by
  obtain ⟨e, ok⟩ := scanlines_ok hs
  obtain ⟨ha, hb⟩ := new_ab hw hh
  constructor
  · unfold styledScanlines EG.Ellipse.styledScanlines
    rw [e, EllipseContains.new_ok hw hh]
    rfl
  · exact ⟨ok, ha, hb⟩

/-- The fill-range search along a stroke scanline inside the columns. -/
theorem style_ok {it : EG.Ellipse.StyledScanlinesIt} (hi : StyledOk it) {s : EG.Scanline}
    (hy : -8192 ≤ s.y ∧ s.y ≤ 8192) (hxs : it.scanlines.xs ≤ s.xs) (hxe : s.xe ≤ it.scanlines.xe) :
    style it s = some (it.style s) := by
  have := hi.sl.xs; have := hi.sl.xe
  unfold style EG.Ellipse.StyledScanlinesIt.style
  rw [rowOf_ok hi.sl.cx hi.sl.cy hi.a hi.b (by omega) (by omega) hy]
  rfl

/-- The scanline `next` yields comes from a remaining row and lies inside the columns. -/
theorem nextFuel_bounds : ∀ (fuel : Nat) (it : EG.Ellipse.ScanlinesIt) (s : EG.Scanline),
    (it.nextFuel fuel).1 = some s →
    (it.y ≤ s.y ∧ s.y < it.yEnd) ∧ it.xs ≤ s.xs ∧ s.xs < it.xe ∧ it.xs < s.xe ∧ s.xe ≤ it.xe := by
  intro fuel
  induction fuel with
  | zero => intro it s h; cases h
  | succ fuel ih =>
    intro it s h
    unfold EG.Ellipse.ScanlinesIt.nextFuel at h
    split at h
    · rename_i hlt
      unfold EG.Ellipse.ScanlinesIt.row at h
      cases hm : EG.mirroredRange (EG.Ellipse.hit it.center2x it.ec it.y) it.xs it.xe with
      | none =>
        rw [hm] at h
        simp only [Option.map_none] at h
        have := ih { it with y := it.y + 1 } s h
        simp only at this
        omega
      | some r =>
        have hb := mirroredRange_bounds hm
        rw [hm] at h
        simp only [Option.map_some, Option.some.injEq] at h
        rw [← h]
        exact ⟨⟨Int.le_refl _, hlt⟩, hb.1, hb.2.1, hb.2.2.1, hb.2.2.2⟩
    · cases h

/-- **`ellipse::styled::StyledScanlines::next`**: one step, the invariant is kept, and the ends
of the styled scanline it yields are within -8192 ..= 8193. -/
theorem styledNext_ok {it : EG.Ellipse.StyledScanlinesIt} (hi : StyledOk it) :
    styledNext it = some it.next ∧ StyledOk it.next.2 ∧
    ∀ s, it.next.1 = some s → StyledScanline.Ends s := by
  obtain ⟨e, ok⟩ := next_ok hi.sl
  have hxs := hi.sl.xs; have hxe := hi.sl.xe; have hyy := hi.sl.y; have hye := hi.sl.ye
  unfold styledNext EG.Ellipse.StyledScanlinesIt.next
  rw [e]
  simp only [Option.bind_eq_bind, Option.bind_some]
  cases hn : it.scanlines.next with
  | mk r sl' =>
    rw [hn] at ok
    cases r with
    | none => exact ⟨rfl, ⟨ok, hi.a, hi.b⟩, fun _ h => by cases h⟩
    | some s =>
      simp only
      have hb := nextFuel_bounds _ it.scanlines s (by
        have : (it.scanlines.nextFuel ((it.scanlines.yEnd - it.scanlines.y).toNat + 1)).1 = some s := by
          have := congrArg Prod.fst hn
          exact this
        exact this)
      obtain ⟨⟨y1, y2⟩, b2, b2', b3', b3⟩ := hb
      rw [style_ok hi (by omega) b2 b3]
      refine ⟨rfl, ⟨ok, hi.a, hi.b⟩, ?_⟩
      intro st hst
      simp only [Option.some.injEq] at hst
      rw [← hst]
      unfold EG.Ellipse.StyledScanlinesIt.style EG.StyledScanline.new
      cases hm : EG.mirroredRange (EG.Ellipse.hit it.scanlines.center2x it.fillArea s.y) s.xs s.xe with
      | none =>
        simp only
        unfold StyledScanline.Ends
        simp only
        omega
      | some r =>
        have hb := mirroredRange_bounds hm
        obtain ⟨ra, rb⟩ := r
        simp only at hb ⊢
        unfold StyledScanline.Ends
        simp only
        omega

end Ellipse
end EG.Chk
