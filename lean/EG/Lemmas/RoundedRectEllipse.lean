/-
  EG.Lemmas.RoundedRectEllipse — even sides, every radius half a side: the rounded rectangle is the
  ellipse of the same box. All four corner quadrants then carry the same `EllipseContains` and the
  same doubled centre as `Ellipse::contains` of the bounding box, and every point of the box lies in
  a corner box.
-/
import EG.Lemmas.RoundedRectColumn
namespace EG
namespace RoundedRect

/-- The rounded rectangle with sides `2a x 2b` and every corner radius `(a, b)`. -/
def halfRadii (tl : Pt) (a b : Nat) : RoundedRect := ⟨⟨tl, ⟨a * 2, b * 2⟩⟩, CornerRadii.new ⟨a, b⟩⟩

/-- `Ellipse::contains` of the ellipse `Ellipse::new(tl, Size::new(2a, 2b))`:
`EllipseContains::new(size).contains(point * 2 - center_2x(top_left, size))`. -/
def ellipseTest (tl : Pt) (a b : Nat) (p : Pt) : Bool :=
  (EllipseContains.new ⟨a * 2, b * 2⟩).contains
    ⟨p.x * 2 - (EllipseQuadrant.ellipseCenter2x tl ⟨a * 2, b * 2⟩).x,
     p.y * 2 - (EllipseQuadrant.ellipseCenter2x tl ⟨a * 2, b * 2⟩).y⟩

theorem half_confine (tl : Pt) (a b : Nat) :
    (halfRadii tl a b).corners.confine (halfRadii tl a b).rect.size = CornerRadii.new ⟨a, b⟩ :=
  CornerRadii.confine_noop' _ _ (by
    unfold CornerRadii.Fits halfRadii CornerRadii.new; dsimp only; omega)

/-- Every corner quadrant has the ellipse's doubled centre and the ellipse's `EllipseContains`. -/
theorem half_center (tl : Pt) (a b : Nat) (k : Quadrant) :
    ((halfRadii tl a b).cornerQuadrant k).center2x = EllipseQuadrant.ellipseCenter2x tl ⟨a * 2, b * 2⟩ ∧
    ((halfRadii tl a b).cornerQuadrant k).ellipse = EllipseContains.new ⟨a * 2, b * 2⟩ := by
  cases k
  · rw [cq_tl, half_confine]; exact ⟨rfl, rfl⟩
  · rw [cq_tr, half_confine]
    refine ⟨?_, rfl⟩
    rw [Pt.ext_iff']
    simp only [EllipseQuadrant.new, EllipseQuadrant.ellipseCenter2x, halfRadii, CornerRadii.new]
    constructor <;> first | trivial | rfl | omega
  · rw [cq_br, half_confine]
    refine ⟨?_, rfl⟩
    rw [Pt.ext_iff']
    simp only [EllipseQuadrant.new, EllipseQuadrant.ellipseCenter2x, halfRadii, CornerRadii.new]
    constructor <;> first | trivial | rfl | omega
  · rw [cq_bl, half_confine]
    refine ⟨?_, rfl⟩
    rw [Pt.ext_iff']
    simp only [EllipseQuadrant.new, EllipseQuadrant.ellipseCenter2x, halfRadii, CornerRadii.new]
    constructor <;> first | trivial | rfl | omega

theorem half_quadrant (tl : Pt) (a b : Nat) (k : Quadrant) (p : Pt) :
    ((halfRadii tl a b).cornerQuadrant k).contains p = ellipseTest tl a b p := by
  obtain ⟨e1, e2⟩ := half_center tl a b k
  unfold EllipseQuadrant.contains ellipseTest
  rw [e1, e2]

theorem half_straight (tl : Pt) (a b : Nat) (h : (halfRadii tl a b).InRange) :
    (RRContains.new (halfRadii tl a b)).slStart = tl.y + b ∧
    (RRContains.new (halfRadii tl a b)).slEnd = tl.y + b ∧
    (RRContains.new (halfRadii tl a b)).srStart = tl.y + b ∧
    (RRContains.new (halfRadii tl a b)).srEnd = tl.y + b := by
  obtain ⟨r1, r2⟩ := new_rows _ h
  refine ⟨?_, ?_, ?_, ?_⟩
  · rw [new_slStart, r1, half_confine]; rfl
  · rw [new_slEnd, r2, half_confine]; simp only [halfRadii, CornerRadii.new]; omega
  · rw [new_srStart, r1, half_confine]; rfl
  · rw [new_srEnd, r2, half_confine]; simp only [halfRadii, CornerRadii.new]; omega

theorem half_cols (tl : Pt) (a b : Nat) (h : (halfRadii tl a b).InRange) :
    (RRContains.new (halfRadii tl a b)).topLeft.colsEnd = tl.x + a ∧
    (RRContains.new (halfRadii tl a b)).bottomLeft.colsEnd = tl.x + a ∧
    (RRContains.new (halfRadii tl a b)).topRight.colsStart = tl.x + a ∧
    (RRContains.new (halfRadii tl a b)).bottomRight.colsStart = tl.x + a := by
  have hR := h
  unfold InRange Rect.InRange inI32 halfRadii at hR
  dsimp only at hR
  have etl : (RRContains.new (halfRadii tl a b)).topLeft = (halfRadii tl a b).cornerQuadrant .topLeft := rfl
  have etr : (RRContains.new (halfRadii tl a b)).topRight = (halfRadii tl a b).cornerQuadrant .topRight := rfl
  have ebr : (RRContains.new (halfRadii tl a b)).bottomRight = (halfRadii tl a b).cornerQuadrant .bottomRight := rfl
  have ebl : (RRContains.new (halfRadii tl a b)).bottomLeft = (halfRadii tl a b).cornerQuadrant .bottomLeft := rfl
  refine ⟨?_, ?_, ?_, ?_⟩
  · rw [etl, cq_tl, half_confine, EllipseQuadrant.new_colsEnd _ _ _ (by
      unfold Rect.InRange inI32; simp only [halfRadii, CornerRadii.new]; omega)]
    rfl
  · rw [ebl, cq_bl, half_confine, EllipseQuadrant.new_colsEnd _ _ _ (by
      unfold Rect.InRange inI32; simp only [halfRadii, CornerRadii.new]; omega)]
    rfl
  · rw [etr, cq_tr, half_confine, EllipseQuadrant.new_colsStart]
    simp only [halfRadii, CornerRadii.new]; omega
  · rw [ebr, cq_br, half_confine, EllipseQuadrant.new_colsStart]
    simp only [halfRadii, CornerRadii.new]; omega

/-- **Even sides, every radius half a side: `contains` is the ellipse's `contains`** on the
bounding box. -/
theorem half_radii_contains (tl : Pt) (a b : Nat) (h : (halfRadii tl a b).InRange) (p : Pt)
    (hb : (halfRadii tl a b).boundingBox.contains p = true) :
    (halfRadii tl a b).contains p = ellipseTest tl a b p := by
  have hl : ∀ q, (RRContains.new (halfRadii tl a b)).leftCorner p.y = some q →
      q.contains p = ellipseTest tl a b p := by
    intro q hq
    unfold RRContains.leftCorner at hq
    split at hq
    · cases hq; exact half_quadrant tl a b .topLeft p
    · split at hq
      · cases hq; exact half_quadrant tl a b .bottomLeft p
      · cases hq
  have hr : ∀ q, (RRContains.new (halfRadii tl a b)).rightCorner p.y = some q →
      q.contains p = ellipseTest tl a b p := by
    intro q hq
    unfold RRContains.rightCorner at hq
    split at hq
    · cases hq; exact half_quadrant tl a b .topRight p
    · split at hq
      · cases hq; exact half_quadrant tl a b .bottomRight p
      · cases hq
  rw [Bool.eq_iff_iff, contains_corners _ h p hb]
  constructor
  · rintro ⟨h1, h2⟩
    obtain ⟨s1, s2, s3, s4⟩ := half_straight tl a b h
    obtain ⟨c1, c2, c3, c4⟩ := half_cols tl a b h
    by_cases hx : p.x < tl.x + a
    · by_cases hy : p.y < tl.y + b
      · have hc := RRContains.leftCorner_top (c := RRContains.new (halfRadii tl a b)) (y := p.y)
          (by rw [s1]; exact hy)
        rw [← hl _ hc]; exact h1 _ hc (by rw [c1]; exact hx)
      · have hc := RRContains.leftCorner_bottom (c := RRContains.new (halfRadii tl a b)) (y := p.y)
          (by rw [s1]; exact hy) (by rw [s2]; omega)
        rw [← hl _ hc]; exact h1 _ hc (by rw [c2]; exact hx)
    · by_cases hy : p.y < tl.y + b
      · have hc := RRContains.rightCorner_top (c := RRContains.new (halfRadii tl a b)) (y := p.y)
          (by rw [s3]; exact hy)
        rw [← hr _ hc]; exact h2 _ hc (by rw [c3]; omega)
      · have hc := RRContains.rightCorner_bottom (c := RRContains.new (halfRadii tl a b)) (y := p.y)
          (by rw [s3]; exact hy) (by rw [s4]; omega)
        rw [← hr _ hc]; exact h2 _ hc (by rw [c4]; omega)
  · intro he
    exact ⟨fun q hq _ => by rw [hl q hq]; exact he, fun q hq _ => by rw [hr q hq]; exact he⟩

end RoundedRect
end EG
