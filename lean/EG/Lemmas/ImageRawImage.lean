/-
  EG.Lemmas.ImageRawImage — consequences of `Drawable.draw_spec` / `Image.runNative_draw` used by
  the property files C09, C01, C02, C07 (image parts): cropped-image view of sub-images, nesting,
  `with_center`, translation, bounding box, and the example image of the non-vacuity checks.
-/
import EG.Lemmas.ImageRawSub
namespace EG.Img
open EG EG.Raw

/-! ### the example image (the 9x3 one bit per pixel image of the crate's own tests) -/

def exIm : ImageRaw := ⟨1, .le, [0xAA, 0x00, 0x55, 0xFF, 0xAA, 0x80], ⟨9, 3⟩⟩

theorem exIm_wf : exIm.WF :=
  ⟨by decide, by decide, by decide, by decide, by unfold Fits; decide⟩

/-- a 24 bit big endian 2x2 image -/
def exIm24 : ImageRaw := ⟨24, .be, [1, 2, 3, 4, 5, 6, 7, 8, 9, 10, 11, 12], ⟨2, 2⟩⟩

theorem exIm24_wf : exIm24.WF :=
  ⟨by decide, by decide, by decide, by decide, by unfold Fits; decide⟩

/-- Every call a good drawable makes is a `fill_contiguous` of its box with exactly
`width * height` colours. -/
theorem Drawable.stream_length {d : Drawable} (h : d.Good) {a : Rect} {cs : List Color}
    (hc : Call.fillContiguous a cs ∈ d.draw) :
    a = d.boundingBox ∧ cs.length = a.size.w * a.size.h := by
  rcases Drawable.draw_spec h with ⟨cs', h1, _, h3⟩ | ⟨h1, _⟩
  · rw [h1, List.mem_singleton] at hc
    cases hc
    exact ⟨rfl, h3⟩
  · rw [h1] at hc; cases hc

namespace Image

theorem boundingBox_new (d : Drawable) (o : Pt) : (Image.new d o).boundingBox = ⟨o, d.size⟩ := by
  simp only [boundingBox, new, Drawable.boundingBox, Rect.translate, pt_zero_add]

/-- Default (draw_iter only) target: the same map. -/
theorem runDefault_draw (i : Image) (hg : i.drawable.Good) (hr : i.boundingBox.InRange) (B : Rect) (q : Pt) :
    runDefault B i.draw q = if B.contains q = true then i.picture q else none := by
  rw [runDefault_eq_runNative i hg, runNative_draw i hg hr]

/-- Everything drawn lies inside `bounding_box()`. -/
theorem drawn_in_boundingBox (i : Image) (hg : i.drawable.Good) (hr : i.boundingBox.InRange) (B : Rect)
    (q : Pt) (h : runNative B i.draw q ≠ none) : i.boundingBox.contains q = true ∧ B.contains q = true := by
  rw [runNative_draw i hg hr] at h
  unfold picture at h
  by_cases hb : B.contains q = true
  · by_cases hc : i.boundingBox.contains q = true
    · exact ⟨hc, hb⟩
    · simp [hb, hc] at h
  · simp [hb] at h

/-- Every call an image makes is a `fill_contiguous` of its bounding box (at most one). -/
theorem calls_are_bbox_fills (i : Image) (hg : i.drawable.Good) :
    (∃ cs, i.draw = [Call.fillContiguous i.boundingBox cs] ∧ cs.length = i.drawable.size.w * i.drawable.size.h)
      ∨ i.draw = [] := by
  unfold draw
  rcases Drawable.draw_spec hg with ⟨cs, h1, _, h3⟩ | ⟨h1, _⟩
  · left; exact ⟨cs, by rw [h1]; rfl, h3⟩
  · right; rw [h1]; rfl

/-! ### sub-image = cropped image -/

/-- The picture of `Image::new(&parent.sub_image(area), o)`: inside the box `(o, clipped size)`
target point `q` shows the parent's picture at `clipped.top_left + (q - o)`. -/
theorem picture_subImage (d : Drawable) (area : Rect) (o q : Pt) :
    (Image.new (d.subImage area) o).picture q =
      if (⟨o, (d.boundingBox.intersection area).size⟩ : Rect).contains q = true then
        d.pixelSpec ((d.boundingBox.intersection area).tl + (q - o))
      else none := by
  unfold picture
  rw [boundingBox_new]
  simp only [new, Drawable.subImage, Drawable.size, Drawable.pixelSpec]
  by_cases hc : (⟨o, (d.boundingBox.intersection area).size⟩ : Rect).contains q = true
  · have hc' : (⟨Pt.zero, (d.boundingBox.intersection area).size⟩ : Rect).contains (q - o) = true := by
      rw [Rect.contains_iff] at hc ⊢
      simp only [Pt.zero, Pt.sub_x, Pt.sub_y] at hc ⊢
      omega
    simp only [hc, hc', ↓reduceIte]
  · simp only [hc, Bool.false_eq_true, ↓reduceIte]

/-! ### nesting -/

theorem pixelSpec_sub_sub (d : Drawable) (A1 A2 : Rect) (hok : Drawable.AreaOk A1.size A2) (p : Pt)
    (hp : (⟨Pt.zero, A2.size⟩ : Rect).contains p = true) :
    (Drawable.sub (Drawable.sub d A1) A2).pixelSpec p = d.pixelSpec (A1.tl + (A2.tl + p)) := by
  simp only [Drawable.pixelSpec, hp, ↓reduceIte]
  rw [Rect.contains_iff] at hp
  simp only [Pt.zero] at hp
  have hin : (⟨Pt.zero, A1.size⟩ : Rect).contains (A2.tl + p) = true := by
    rcases hok with hz | hok
    · rw [Rect.isZeroSized_iff] at hz; omega
    · rw [Rect.contains_iff]; simp only [Pt.zero, Pt.add_x, Pt.add_y]; omega
  simp only [hin, ↓reduceIte]

/-- Nested sub-images compose: the inner area is clipped to the outer sub-image's box and re-based
by the outer area's corner. -/
theorem nested_pixelSpec (d : Drawable) (a1 a2 : Rect) (p : Pt)
    (hp : ((d.subImage a1).subImage a2).boundingBox.contains p = true) :
    ((d.subImage a1).subImage a2).pixelSpec p =
      d.pixelSpec ((d.boundingBox.intersection a1).tl +
        (((d.subImage a1).boundingBox.intersection a2).tl + p)) :=
  pixelSpec_sub_sub d _ _ (Drawable.areaOk_intersection (d.subImage a1).size a2) p hp

/-! ### `with_center` -/

theorem withCenter_boundingBox (d : Drawable) (c : Pt) :
    (Image.withCenter d c).boundingBox = Rect.withCenter c d.size := by
  simp only [boundingBox, withCenter, Drawable.boundingBox, Rect.translate, pt_zero_add]
  rfl

theorem withCenter_center (d : Drawable) (c : Pt) : (Image.withCenter d c).boundingBox.center = c := by
  rw [withCenter_boundingBox]
  cases c
  simp only [Rect.withCenter, Rect.center, Rect.centerOffset, Pt.mk.injEq]
  omega

/-! ### translation -/

theorem translatedCall_comp (a b : Pt) (c : Call) :
    translatedCall b (translatedCall a c) = translatedCall (a + b) c := by
  cases c with
  | drawIter px =>
    simp only [translatedCall, List.map_map, Call.drawIter.injEq]
    apply List.map_congr_left
    intro w _
    simp only [Function.comp, pt_add_assoc]
  | fillContiguous area cs => simp only [translatedCall, rect_translate_translate]
  | fillSolid area col => simp only [translatedCall, rect_translate_translate]
  | clear col => rfl

/-- The translated image makes the same calls, moved by `d` (for every drawable). -/
theorem translate_draw (i : Image) (d : Pt) : (i.translate d).draw = i.draw.map (translatedCall d) := by
  simp only [draw, translate, List.map_map]
  apply List.map_congr_left
  intro c _
  simp only [Function.comp, translatedCall_comp]

theorem translate_boundingBox (i : Image) (d : Pt) :
    (i.translate d).boundingBox = i.boundingBox.translate d := by
  simp only [boundingBox, translate, rect_translate_translate]

theorem translateMut_eq (i : Image) (d : Pt) : i.translateMut d = i.translate d := rfl

theorem translate_picture (i : Image) (d q : Pt) : (i.translate d).picture (q + d) = i.picture q := by
  unfold picture
  rw [translate_boundingBox]
  have hc : (i.boundingBox.translate d).contains (q + d) = i.boundingBox.contains q := by
    rw [Bool.eq_iff_iff, Rect.contains_iff, Rect.contains_iff]
    simp only [Rect.translate, Pt.add_x, Pt.add_y]
    omega
  have hp : q + d - (i.translate d).offset = q - i.offset := by
    rw [Pt.ext_iff']
    simp only [translate, Pt.add_x, Pt.add_y, Pt.sub_x, Pt.sub_y]
    omega
  rw [hc, hp]
  rfl

/-- **Rendering commutes with translation**: on a target moved along, the translated image leaves
the picture shifted by `d`. -/
theorem translate_run (i : Image) (hg : i.drawable.Good) (d : Pt) (hr : i.boundingBox.InRange)
    (hr' : (i.translate d).boundingBox.InRange) (B : Rect) (q : Pt) :
    runNative (B.translate d) (i.translate d).draw (q + d) = runNative B i.draw q := by
  rw [runNative_draw (i.translate d) hg hr', runNative_draw i hg hr, translate_picture]
  have hc : (B.translate d).contains (q + d) = B.contains q := by
    rw [Bool.eq_iff_iff, Rect.contains_iff, Rect.contains_iff]
    simp only [Rect.translate, Pt.add_x, Pt.add_y]
    omega
  rw [hc]

end Image
end EG.Img
