/-
  EG.Lemmas.CheckedDS — the display-scale hypotheses of property C08 as explicit decidable
  predicates, and their inclusion in the proof domains `W` (linear kernels, 2^28) and `S`
  (quadratic kernels of circles / ellipses).

  `DS.*`   the property text: coordinates within +-1024, sizes up to 1024, stroke widths 0..=128.
  `DS.x*`  what the library derives from such inputs: stroke areas (`offset` by at most the stroke
           width: top-left corners down to -1024 - 128, sizes up to 1024 + 2 * 128), every point of
           such an area (up to 1024 + 1024 + 128), stroke offsets in -128..=128.
  Every `DS.foo` implies `DS.xfoo`; the theorems are stated for the larger `x` domain.
-/
import EG.Lemmas.CheckedShapes
namespace EG.DS
open EG

def coord (x : Int) : Prop := -1024 ≤ x ∧ x ≤ 1024
def size (n : Nat) : Prop := n ≤ 1024
def width (w : Nat) : Prop := w ≤ 128
def pt (p : Pt) : Prop := coord p.x ∧ coord p.y
def sz (s : Sz) : Prop := size s.w ∧ size s.h
def rect (r : Rect) : Prop := pt r.tl ∧ sz r.size

/-- coordinates of stroke areas and of their points: `-1024 - 128 ..= 1024 + 1024 + 128` -/
def xcoord (x : Int) : Prop := -1152 ≤ x ∧ x ≤ 2176
/-- sizes of stroke areas: `<= 1024 + 2 * 128` -/
def xsize (n : Nat) : Prop := n ≤ 1280
/-- stroke / fill offsets: `-128 ..= 128` -/
def offs (o : Int) : Prop := -128 ≤ o ∧ o ≤ 128
def xpt (p : Pt) : Prop := xcoord p.x ∧ xcoord p.y
def xsz (s : Sz) : Prop := xsize s.w ∧ xsize s.h
def xrect (r : Rect) : Prop := xpt r.tl ∧ xsz r.size
def circle (c : Circle) : Prop := pt c.tl ∧ size c.d
def xcircle (c : Circle) : Prop := xpt c.tl ∧ xsize c.d
def ellipse (e : Ellipse) : Prop := pt e.tl ∧ sz e.size
def xellipse (e : Ellipse) : Prop := xpt e.tl ∧ xsz e.size

instance (x : Int) : Decidable (coord x) := by unfold coord; exact inferInstance
instance (n : Nat) : Decidable (size n) := by unfold size; exact inferInstance
instance (n : Nat) : Decidable (width n) := by unfold width; exact inferInstance
instance (p : Pt) : Decidable (pt p) := by unfold pt; exact inferInstance
instance (s : Sz) : Decidable (sz s) := by unfold sz; exact inferInstance
instance (r : Rect) : Decidable (rect r) := by unfold rect; exact inferInstance
instance (x : Int) : Decidable (xcoord x) := by unfold xcoord; exact inferInstance
instance (n : Nat) : Decidable (xsize n) := by unfold xsize; exact inferInstance
instance (o : Int) : Decidable (offs o) := by unfold offs; exact inferInstance
instance (p : Pt) : Decidable (xpt p) := by unfold xpt; exact inferInstance
instance (s : Sz) : Decidable (xsz s) := by unfold xsz; exact inferInstance
instance (r : Rect) : Decidable (xrect r) := by unfold xrect; exact inferInstance
instance (c : Circle) : Decidable (circle c) := by unfold circle; exact inferInstance
instance (c : Circle) : Decidable (xcircle c) := by unfold xcircle; exact inferInstance
instance (e : Ellipse) : Decidable (ellipse e) := by unfold ellipse; exact inferInstance
instance (e : Ellipse) : Decidable (xellipse e) := by unfold xellipse; exact inferInstance

theorem coord_x {x : Int} (h : coord x) : xcoord x := by unfold coord at h; unfold xcoord; omega
theorem size_x {n : Nat} (h : size n) : xsize n := by unfold size at h; unfold xsize; omega
theorem pt_x {p : Pt} (h : pt p) : xpt p := ⟨coord_x h.1, coord_x h.2⟩
theorem sz_x {s : Sz} (h : sz s) : xsz s := ⟨size_x h.1, size_x h.2⟩
theorem rect_x {r : Rect} (h : rect r) : xrect r := ⟨pt_x h.1, sz_x h.2⟩
theorem circle_x {c : Circle} (h : circle c) : xcircle c := ⟨pt_x h.1, size_x h.2⟩
theorem ellipse_x {e : Ellipse} (h : ellipse e) : xellipse e := ⟨pt_x h.1, sz_x h.2⟩
/-- a stroke width is a stroke offset -/
theorem width_offs {w : Nat} (h : width w) : offs (w : Int) ∧ offs (-(w : Int)) := by
  unfold width at h; unfold offs; omega

open EG.Chk
theorem xcoord_W {x : Int} (h : xcoord x) : W.coord x := by unfold xcoord at h; unfold W.coord; omega
theorem xsize_W {n : Nat} (h : xsize n) : W.size n := by unfold xsize at h; unfold W.size; omega
theorem offs_W {o : Int} (h : offs o) : W.coord o := by unfold offs at h; unfold W.coord; omega
theorem xpt_W {p : Pt} (h : xpt p) : W.pt p := ⟨xcoord_W h.1, xcoord_W h.2⟩
theorem xsz_W {s : Sz} (h : xsz s) : W.sz s := ⟨xsize_W h.1, xsize_W h.2⟩
theorem xrect_W {r : Rect} (h : xrect r) : W.rect r := ⟨xpt_W h.1, xsz_W h.2⟩
theorem xcoord_S {x : Int} (h : xcoord x) : S.coord x := by unfold xcoord at h; unfold S.coord; omega
theorem xcoord_probe {x : Int} (h : xcoord x) : S.probe x := by unfold xcoord at h; unfold S.probe; omega
theorem xsize_S {n : Nat} (h : xsize n) : S.size n := by unfold xsize at h; unfold S.size; omega

end EG.DS
