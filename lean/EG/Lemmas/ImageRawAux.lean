/-
  EG.Lemmas.ImageRawAux — facts about the raw `load` / `Iter` model (EG.Model.Raw) that the image
  lemmas need: `load` is `none` exactly beyond the whole pixels of the buffer, `nth` from any state
  reads `load (index + n)`, and small list helpers (`somePrefix`).
-/
import EG.Model.ImageRaw
namespace EG.Img
open EG EG.Raw

theorem validBits_cases {bits : Nat} (h : validBits bits = true) :
    bits = 1 ∨ bits = 2 ∨ bits = 4 ∨ bits = 8 ∨ bits = 16 ∨ bits = 24 ∨ bits = 32 := by
  simp only [validBits, Bool.or_eq_true, beq_iff_eq] at h
  omega

/-- `load` fails exactly beyond the whole pixels the buffer holds. -/
theorem load_eq_none_iff {bits : Nat} (hb : validBits bits = true) (o : Order) (buf : List Nat) (k : Nat) :
    load bits o buf k = none ↔ pixelCount bits buf.length ≤ k := by
  rcases validBits_cases hb with h | h | h | h | h | h | h <;> subst h
  · simp only [load, loadBits, bitPosition, pixelCount]
    simp only [show (1:Nat) < 8 from by omega, ↓reduceIte]
    cases hx : buf[k / (8 / 1)]? with
    | none => simp only [true_iff]; rw [List.getElem?_eq_none_iff] at hx; omega
    | some b => simp only [reduceCtorEq, false_iff]; have := (List.getElem?_eq_some_iff.mp hx).1; omega
  · simp only [load, loadBits, bitPosition, pixelCount]
    simp only [show (2:Nat) < 8 from by omega, ↓reduceIte]
    cases hx : buf[k / (8 / 2)]? with
    | none => simp only [true_iff]; rw [List.getElem?_eq_none_iff] at hx; omega
    | some b => simp only [reduceCtorEq, false_iff]; have := (List.getElem?_eq_some_iff.mp hx).1; omega
  · simp only [load, loadBits, bitPosition, pixelCount]
    simp only [show (4:Nat) < 8 from by omega, ↓reduceIte]
    cases hx : buf[k / (8 / 4)]? with
    | none => simp only [true_iff]; rw [List.getElem?_eq_none_iff] at hx; omega
    | some b => simp only [reduceCtorEq, false_iff]; have := (List.getElem?_eq_some_iff.mp hx).1; omega
  · simp only [load, loadU8, pixelCount]
    simp only [show ¬ ((8:Nat) < 8) from by omega, ↓reduceIte]
    rw [List.getElem?_eq_none_iff]; omega
  · simp only [load, loadBytes, sliceFrom, slicePrefix, pixelCount]
    simp only [show ¬ ((16:Nat) < 8) from by omega, show ¬ ((16:Nat) = 8) from by omega, ↓reduceIte]
    by_cases h1 : k * (16 / 8) ≤ buf.length
    · simp only [h1, ↓reduceIte, List.length_drop]
      by_cases h2 : 16 / 8 ≤ buf.length - k * (16 / 8)
      · simp only [h2, ↓reduceIte, reduceCtorEq, false_iff]; omega
      · simp only [h2, ↓reduceIte, true_iff]; omega
    · simp only [h1, ↓reduceIte, true_iff]; omega
  · simp only [load, loadBytes, sliceFrom, slicePrefix, pixelCount]
    simp only [show ¬ ((24:Nat) < 8) from by omega, show ¬ ((24:Nat) = 8) from by omega, ↓reduceIte]
    by_cases h1 : k * (24 / 8) ≤ buf.length
    · simp only [h1, ↓reduceIte, List.length_drop]
      by_cases h2 : 24 / 8 ≤ buf.length - k * (24 / 8)
      · simp only [h2, ↓reduceIte, reduceCtorEq, false_iff]; omega
      · simp only [h2, ↓reduceIte, true_iff]; omega
    · simp only [h1, ↓reduceIte, true_iff]; omega
  · simp only [load, loadBytes, sliceFrom, slicePrefix, pixelCount]
    simp only [show ¬ ((32:Nat) < 8) from by omega, show ¬ ((32:Nat) = 8) from by omega, ↓reduceIte]
    by_cases h1 : k * (32 / 8) ≤ buf.length
    · simp only [h1, ↓reduceIte, List.length_drop]
      by_cases h2 : 32 / 8 ≤ buf.length - k * (32 / 8)
      · simp only [h2, ↓reduceIte, reduceCtorEq, false_iff]; omega
      · simp only [h2, ↓reduceIte, true_iff]; omega
    · simp only [h1, ↓reduceIte, true_iff]; omega

theorem load_isSome_iff {bits : Nat} (hb : validBits bits = true) (o : Order) (buf : List Nat) (k : Nat) :
    (load bits o buf k).isSome = true ↔ k < pixelCount bits buf.length := by
  have := load_eq_none_iff hb o buf k
  cases h : load bits o buf k with
  | none => simp only [Option.isSome_none, Bool.false_eq_true, false_iff]; rw [h] at this; simp at this; omega
  | some v => simp only [Option.isSome_some, true_iff]; rw [h] at this; simp at this; omega

/-! ### `Iter.next` / `Iter.nth` in terms of `load` -/

/-- The buffer holds at most `usize::MAX` pixels: true of every Rust slice for depths >= 8
(`len <= isize::MAX`); for sub-byte depths it says `len * (8 / bits) <= usize::MAX`. Under it the
saturating addition in `nth` is invisible. -/
def Fits (bits : Nat) (data : List Nat) : Prop := pixelCount bits data.length ≤ usizeMax

theorem iter_next_some {it : Iter} {v : Nat} (h : load it.bits it.order it.data it.index = some v) :
    it.next = (some v, { it with index := it.index + 1 }) := by
  simp only [Iter.next, h]

theorem iter_next_none {it : Iter} (h : load it.bits it.order it.data it.index = none) :
    it.next = (none, it) := by
  simp only [Iter.next, h]

theorem iter_nth_fst {it : Iter} (hb : validBits it.bits = true) (hf : Fits it.bits it.data) (n : Nat) :
    (it.nth n).1 = load it.bits it.order it.data (it.index + n) := by
  unfold Iter.nth satAddUsize
  by_cases hs : it.index + n ≤ usizeMax
  · simp only [hs, ↓reduceIte]
    cases h : load it.bits it.order it.data (it.index + n) with
    | none => rw [iter_next_none (by exact h)]
    | some v => rw [iter_next_some (by exact h)]
  · simp only [hs, ↓reduceIte]
    have h1 : load it.bits it.order it.data usizeMax = none := by
      rw [load_eq_none_iff hb]; exact hf
    have h2 : load it.bits it.order it.data (it.index + n) = none := by
      rw [load_eq_none_iff hb]; unfold Fits at hf; omega
    rw [iter_next_none (by exact h1), h2]

theorem iter_nth_some {it : Iter} (hb : validBits it.bits = true) (hf : Fits it.bits it.data) {n v : Nat}
    (h : load it.bits it.order it.data (it.index + n) = some v) :
    it.nth n = (some v, { it with index := it.index + n + 1 }) := by
  have hlt : it.index + n < pixelCount it.bits it.data.length := by
    rw [← load_isSome_iff hb it.order, h]; rfl
  unfold Fits at hf
  unfold Iter.nth satAddUsize
  have hs : it.index + n ≤ usizeMax := by omega
  simp only [hs, ↓reduceIte]
  rw [iter_next_some (by exact h)]

/-! ### `somePrefix`: the items a `for` loop sees of a sequence of `Option`s -/

def somePrefix {α : Type} : List (Option α) → List α
  | [] => []
  | none :: _ => []
  | some a :: l => a :: somePrefix l

theorem somePrefix_map_some {α : Type} (l : List (Option α)) (h : ∀ x ∈ l, x ≠ none) :
    (somePrefix l).map some = l := by
  induction l with
  | nil => rfl
  | cons a l ih =>
    cases a with
    | none => exact absurd rfl (h none List.mem_cons_self)
    | some a =>
      simp only [somePrefix, List.map_cons]
      rw [ih (fun x hx => h x (List.mem_cons_of_mem _ hx))]

end EG.Img
