/-
  EG.Lemmas.SectorAngular — what the angular claims of C18 need from arithmetic:
  * the error-propagation lemma: normal vectors within `eps` (componentwise) of the exact scaled
    normals move the signed distance `delta · n` by at most `eps (|dx| + |dy|)` — over ANY ordered
    commutative ring `K` (so in particular over the reals, with `N = 1024 (-sin t, cos t)`);
  * hence the half-plane tests of `PlaneSector::contains` agree with the exact half planes for
    every point further than that from the boundary line;
  * the bisector test of the repaired `PlaneSector::contains` is implied by the two half-plane
    tests whenever the two normals are not parallel (correctly oriented, positive dot product), and
    for parallel, equally directed normals `contains` is "on the line, on the forward side";
  * `Sector.contains` / `points` commute with translation (export for C07).
-/
import EG.Lemmas.Sector
import Mathlib.Tactic.Ring
namespace EG

/-! ### error propagation, over any ordered commutative ring -/

section Generic
variable {K : Type} [CommRing K] [LinearOrder K] [IsStrictOrderedRing K]

theorem abs_mul_le_of_abs_le (a b eps : K) (hb : |b| ≤ eps) : |a * b| ≤ |a| * eps := by
  obtain ⟨h1, h2⟩ := abs_le.mp hb
  rcases le_total 0 a with ha | ha
  · rw [abs_of_nonneg ha, abs_le]
    constructor
    · nlinarith [mul_nonneg ha (by linarith : (0 : K) ≤ b + eps)]
    · nlinarith [mul_nonneg ha (by linarith : (0 : K) ≤ eps - b)]
  · rw [abs_of_nonpos ha, abs_le]
    constructor
    · nlinarith [mul_nonneg (by linarith : (0 : K) ≤ -a) (by linarith : (0 : K) ≤ eps - b)]
    · nlinarith [mul_nonneg (by linarith : (0 : K) ≤ -a) (by linarith : (0 : K) ≤ b + eps)]

/-- **Error propagation**: `|delta · n − delta · N| ≤ eps (|dx| + |dy|)` when `n` is within `eps`
of `N` componentwise. -/
theorem dot_error_generic (dx dy nx ny Nx Ny eps : K) (hx : |nx - Nx| ≤ eps) (hy : |ny - Ny| ≤ eps) :
    |(dx * nx + dy * ny) - (dx * Nx + dy * Ny)| ≤ eps * (|dx| + |dy|) := by
  have e : (dx * nx + dy * ny) - (dx * Nx + dy * Ny) = dx * (nx - Nx) + dy * (ny - Ny) := by ring
  rw [e]
  have h1 := abs_mul_le_of_abs_le dx (nx - Nx) eps hx
  have h2 := abs_mul_le_of_abs_le dy (ny - Ny) eps hy
  have h3 := abs_add_le (dx * (nx - Nx)) (dy * (ny - Ny))
  have e2 : eps * (|dx| + |dy|) = |dx| * eps + |dy| * eps := by ring
  linarith

/-- The integer normal vector `n` is within `eps` (componentwise) of the exact scaled normal `N`. -/
def NormalWithin (n : Pt) (N : K × K) (eps : K) : Prop :=
  |(n.x : K) - N.1| ≤ eps ∧ |(n.y : K) - N.2| ≤ eps

/-- Exact signed distance (scaled like `N`) of `delta` from the line with normal `N`. -/
def exactDist (N : K × K) (delta : Pt) : K := (delta.x : K) * N.1 + (delta.y : K) * N.2

/-- `|delta| _1` in `K`. -/
def norm1 (delta : Pt) : K := |(delta.x : K)| + |(delta.y : K)|

/-- **Error propagation for `OriginLinearEquation::distance`.** -/
theorem distance_error (n : Pt) (N : K × K) (eps : K) (h : NormalWithin n N eps) (delta : Pt) :
    |((PlaneSector.distance n delta : Int) : K) - exactDist N delta| ≤ eps * norm1 delta := by
  unfold PlaneSector.distance dotProduct exactDist norm1
  push_cast
  exact dot_error_generic _ _ _ _ _ _ _ h.1 h.2

/-- A point whose exact distance is at least `eps |delta|_1` on the right side passes
`check_side(.., Right)`; one that far on the other side fails it. Same for `Left`. -/
theorem checkRight_of_margin (n : Pt) (N : K × K) (eps : K) (h : NormalWithin n N eps) (delta : Pt)
    (hm : eps * norm1 delta ≤ exactDist N delta) : PlaneSector.checkRight n delta = true := by
  have he := abs_le.mp (distance_error n N eps h delta)
  unfold PlaneSector.checkRight
  rw [decide_eq_true_iff]
  have : (0 : K) ≤ ((PlaneSector.distance n delta : Int) : K) := by linarith [he.1]
  exact_mod_cast this

theorem checkRight_false_of_margin (n : Pt) (N : K × K) (eps : K) (h : NormalWithin n N eps) (delta : Pt)
    (hm : exactDist N delta < -(eps * norm1 delta)) : PlaneSector.checkRight n delta = false := by
  have he := abs_le.mp (distance_error n N eps h delta)
  unfold PlaneSector.checkRight
  rw [decide_eq_false_iff_not]
  have : ((PlaneSector.distance n delta : Int) : K) < 0 := by linarith [he.2]
  have : PlaneSector.distance n delta < 0 := by exact_mod_cast this
  omega

theorem checkLeft_of_margin (n : Pt) (N : K × K) (eps : K) (h : NormalWithin n N eps) (delta : Pt)
    (hm : exactDist N delta ≤ -(eps * norm1 delta)) : PlaneSector.checkLeft n delta = true := by
  have he := abs_le.mp (distance_error n N eps h delta)
  unfold PlaneSector.checkLeft
  rw [decide_eq_true_iff]
  have : ((PlaneSector.distance n delta : Int) : K) ≤ 0 := by linarith [he.2]
  exact_mod_cast this

theorem checkLeft_false_of_margin (n : Pt) (N : K × K) (eps : K) (h : NormalWithin n N eps) (delta : Pt)
    (hm : eps * norm1 delta < exactDist N delta) : PlaneSector.checkLeft n delta = false := by
  have he := abs_le.mp (distance_error n N eps h delta)
  unfold PlaneSector.checkLeft
  rw [decide_eq_false_iff_not]
  have : (0 : K) < ((PlaneSector.distance n delta : Int) : K) := by linarith [he.1]
  have : 0 < PlaneSector.distance n delta := by exact_mod_cast this
  omega

end Generic

/-! ### the bisector test of the repaired `PlaneSector::contains` -/

/-- Cone decomposition: for correctly oriented (`cross(right, left) > 0`, i.e. the end ray is less
than 180 degrees clockwise-on-screen after the start ray), equally directed normals, a point in
both half planes is on the bisector's side. -/
theorem bisector_nonneg (px py lx ly rx ry : Int) (hc : rx * ly - ry * lx > 0)
    (hd : lx * rx + ly * ry > 0) (h1 : px * lx + py * ly ≤ 0) (h2 : px * rx + py * ry ≥ 0) :
    px * (ly + ry) + py * (-(lx + rx)) ≥ 0 := by
  have id : (rx * ly - ry * lx) * (px * (ly + ry) + py * (-(lx + rx))) =
      (-(px * lx + py * ly)) * ((rx * rx + ry * ry) + (lx * rx + ly * ry)) +
      (px * rx + py * ry) * ((lx * lx + ly * ly) + (lx * rx + ly * ry)) := by ring
  have hA : 0 ≤ (-(px * lx + py * ly)) * ((rx * rx + ry * ry) + (lx * rx + ly * ry)) :=
    mul_nonneg (by omega) (by nlinarith [mul_self_nonneg rx, mul_self_nonneg ry])
  have hB : 0 ≤ (px * rx + py * ry) * ((lx * lx + ly * ly) + (lx * rx + ly * ry)) :=
    mul_nonneg (by omega) (by nlinarith [mul_self_nonneg lx, mul_self_nonneg ly])
  by_contra hneg
  have : (rx * ly - ry * lx) * (px * (ly + ry) + py * (-(lx + rx))) < 0 :=
    mul_neg_of_pos_of_neg hc (by omega)
  omega

namespace PlaneSector

/-- `cross(right, left)`: positive iff the left (end) ray is less than half a turn after the right
(start) ray in the direction of the sweep. -/
def cross (ps : PlaneSector) : Int := ps.right.x * ps.left.y - ps.right.y * ps.left.x

/-- The plane sector before the repair: just the two half-plane tests. -/
def containsPlain (ps : PlaneSector) (p : Pt) : Bool :=
  ps.op.execute (checkLeft ps.left p) (checkRight ps.right p)

/-- **For non-parallel (correctly oriented) normals the bisector test is implied by the two
half-plane tests**: the repaired `contains` is the plain one. -/
theorem contains_eq_plain_of_cross_pos (ps : PlaneSector) (hc : 0 < ps.cross) (p : Pt) :
    ps.contains p = ps.containsPlain p := by
  unfold contains containsPlain
  by_cases hb : ps.behindBisector p = true
  · -- then one of the half-plane tests fails
    simp only [hb, ↓reduceIte]
    unfold behindBisector at hb
    by_cases hop : ps.op = .intersection
    · simp only [hop, ↓reduceIte] at hb
      by_cases hd : dotProduct ps.left ps.right > 0
      · simp only [hd, ↓reduceIte, decide_eq_true_eq] at hb
        rw [hop]
        simp only [PlaneOp.execute]
        cases h1 : checkLeft ps.left p <;> cases h2 : checkRight ps.right p <;> simp
        unfold checkLeft distance dotProduct at h1
        unfold checkRight distance dotProduct at h2
        rw [decide_eq_true_iff] at h1 h2
        unfold dotProduct at hb hd
        unfold cross at hc
        have := bisector_nonneg p.x p.y ps.left.x ps.left.y ps.right.x ps.right.y hc hd h1 h2
        simp only at hb
        omega
      · simp only [hd, ↓reduceIte] at hb
        cases hb
    · simp only [hop, ↓reduceIte] at hb
      cases hb
  · simp only [hb]
    rfl

/-- Operations other than `Intersection`, and intersections of half planes whose normals do not
point the same way (sweeps of 90 degrees and more), never use the bisector test. -/
theorem contains_eq_plain_of_dot_nonpos (ps : PlaneSector)
    (h : ps.op ≠ .intersection ∨ dotProduct ps.left ps.right ≤ 0) (p : Pt) :
    ps.contains p = ps.containsPlain p := by
  unfold contains containsPlain behindBisector
  rcases h with h | h
  · simp [h]
  · have : ¬ dotProduct ps.left ps.right > 0 := by omega
    simp [this]

/-- **Parallel, equally directed normals** (sweep 0, or too small to be resolved): the repaired
`contains` accepts exactly the points on the common boundary line that lie on the forward side —
the ray, not the whole line through the centre (which is what the plain test accepts). -/
theorem contains_parallel_iff (ps : PlaneSector) (hop : ps.op = .intersection)
    (hpar : ps.left = ps.right) (hnz : ps.left ≠ ⟨0, 0⟩) (p : Pt) :
    ps.contains p = true ↔
      dotProduct p ps.left = 0 ∧ 0 ≤ dotProduct p ⟨ps.left.y, -ps.left.x⟩ := by
  have hd : dotProduct ps.left ps.right > 0 := by
    rw [← hpar]
    unfold dotProduct
    have hx := mul_self_nonneg ps.left.x
    have hy := mul_self_nonneg ps.left.y
    by_contra hcon
    have h0x : ps.left.x * ps.left.x = 0 := by omega
    have h0y : ps.left.y * ps.left.y = 0 := by omega
    have hx0 : ps.left.x = 0 := by rcases Int.mul_eq_zero.mp h0x with h | h <;> exact h
    have hy0 : ps.left.y = 0 := by rcases Int.mul_eq_zero.mp h0y with h | h <;> exact h
    apply hnz
    rw [Pt.ext_iff']
    exact ⟨hx0, hy0⟩
  unfold contains behindBisector
  simp only [hop, ↓reduceIte, hd, PlaneOp.execute]
  rw [← hpar]
  unfold checkLeft checkRight distance
  unfold dotProduct at *
  simp only
  have e2 : p.x * (ps.left.y + ps.left.y) + p.y * -(ps.left.x + ps.left.x) =
      2 * (p.x * ps.left.y + p.y * -ps.left.x) := by ring
  by_cases hb : p.x * (ps.left.y + ps.left.y) + p.y * -(ps.left.x + ps.left.x) < 0
  · simp only [hb, decide_true, ↓reduceIte, Bool.false_eq_true, false_iff]
    intro hcon
    omega
  · simp only [hb, decide_false, Bool.false_eq_true, ↓reduceIte, Bool.and_eq_true, decide_eq_true_eq]
    constructor
    · intro h; refine ⟨by omega, by omega⟩
    · intro h; refine ⟨by omega, by omega⟩

end PlaneSector

/-! ### the plane sector is exact beyond the error margin -/

section Margin
variable {K : Type} [CommRing K] [LinearOrder K] [IsStrictOrderedRing K]

/-- `|dx| + |dy| ≤ 181` for every pixel of a circle of diameter up to 128 (doubled coordinates). -/
theorem norm1_le_181 (delta : Pt) (h : delta.x * delta.x + delta.y * delta.y < 128 * 128) :
    norm1 (K := K) delta ≤ 181 := by
  have hi : |delta.x| + |delta.y| ≤ 181 := by
    by_contra hc
    have h1 : 182 ≤ |delta.x| + |delta.y| := by omega
    have hx : |delta.x| * |delta.x| = delta.x * delta.x := by
      rcases le_total 0 delta.x with h0 | h0
      · rw [abs_of_nonneg h0]
      · rw [abs_of_nonpos h0]; ring
    have hy : |delta.y| * |delta.y| = delta.y * delta.y := by
      rcases le_total 0 delta.y with h0 | h0
      · rw [abs_of_nonneg h0]
      · rw [abs_of_nonpos h0]; ring
    nlinarith [abs_nonneg delta.x, abs_nonneg delta.y, mul_self_nonneg (|delta.x| - |delta.y|)]
  unfold norm1
  have : |(delta.x : K)| + |(delta.y : K)| = ((|delta.x| + |delta.y| : Int) : K) := by
    push_cast
    rfl
  rw [this]
  exact_mod_cast hi

theorem norm1_nonneg (delta : Pt) : (0 : K) ≤ norm1 delta := by
  unfold norm1
  have := abs_nonneg (delta.x : K)
  have := abs_nonneg (delta.y : K)
  linarith

/-- With both normals within `eps` of the exact scaled normals `Nl`, `Nr`, and `m` at least the
error margin `eps |delta|_1`: a point at least `m` inside the exact sweep (measured from the two
boundary LINES, in the scale of `N`) passes the plain half-plane test, a point more than `m`
outside fails it. -/
theorem containsPlain_of_margin (ps : PlaneSector) (Nl Nr : K × K) (eps m : K)
    (hl : NormalWithin ps.left Nl eps) (hr : NormalWithin ps.right Nr eps) (delta : Pt)
    (hm : eps * norm1 delta ≤ m) :
    (ps.op = .intersection →
      (exactDist Nl delta ≤ -m ∧ m ≤ exactDist Nr delta → ps.containsPlain delta = true) ∧
      (m < exactDist Nl delta ∨ exactDist Nr delta < -m → ps.containsPlain delta = false)) ∧
    (ps.op = .union →
      (exactDist Nl delta ≤ -m ∨ m ≤ exactDist Nr delta → ps.containsPlain delta = true) ∧
      (m < exactDist Nl delta ∧ exactDist Nr delta < -m → ps.containsPlain delta = false)) := by
  have L1 := checkLeft_of_margin ps.left Nl eps hl delta
  have L0 := checkLeft_false_of_margin ps.left Nl eps hl delta
  have R1 := checkRight_of_margin ps.right Nr eps hr delta
  have R0 := checkRight_false_of_margin ps.right Nr eps hr delta
  unfold PlaneSector.containsPlain
  refine ⟨fun hop => ⟨?_, ?_⟩, fun hop => ⟨?_, ?_⟩⟩ <;> rw [hop] <;> simp only [PlaneOp.execute]
  · rintro ⟨h1, h2⟩
    rw [L1 (by linarith), R1 (by linarith)]; rfl
  · rintro (h | h)
    · rw [L0 (by linarith)]; rfl
    · rw [R0 (by linarith)]; simp
  · rintro (h | h)
    · rw [L1 (by linarith)]; rfl
    · rw [R1 (by linarith)]; simp
  · rintro ⟨h1, h2⟩
    rw [L0 (by linarith), R0 (by linarith)]; rfl

/-- The margin for the property's numbers: normals accurate to `eps ≤ 16` (of 1024) and a circle of
diameter up to 128 give an error margin below `3 * 1024`, i.e. 3 half-pixel units = 1.5 px. -/
theorem margin_le_3072 (n : Pt) (N : K × K) (eps : K) (h : NormalWithin n N eps) (he : eps ≤ 16)
    (delta : Pt) (hd : delta.x * delta.x + delta.y * delta.y < 128 * 128) :
    eps * norm1 delta ≤ 3072 := by
  have h0 : 0 ≤ eps := le_trans (abs_nonneg _) h.1
  have h1 := norm1_le_181 (K := K) delta hd
  have h2 := norm1_nonneg (K := K) delta
  nlinarith [mul_le_mul he h1 h2 (by linarith : (0 : K) ≤ 16)]

end Margin

/-! ### translation (export for C07) -/

namespace Sector

theorem translate_boundingBox (s : Sector) (t : Pt) :
    (s.translate t).boundingBox = s.boundingBox.translate t := rfl

/-- `points()` of the translated sector are the translated points, in the same order — under the
no-saturation guard of the two bounding boxes (`Rect.points` of a saturating box is clipped). -/
theorem points_translate (s : Sector) (t : Pt) (h1 : s.toCircle.InRange)
    (h2 : (s.translate t).toCircle.InRange) :
    (s.translate t).points = s.points.map (· + t) := by
  rw [points_eq_filter, points_eq_filter, translate_boundingBox]
  have hp : (s.boundingBox.translate t).points = s.boundingBox.points.map (· + t) := by
    rw [Rect.points_eq_spec, Rect.points_eq_spec]
    unfold Rect.pointsSpec
    have hz : (s.boundingBox.translate t).isZeroSized = s.boundingBox.isZeroSized := rfl
    rw [hz]
    by_cases hzz : s.boundingBox.isZeroSized = true
    · simp [hzz]
    · simp only [hzz, Bool.false_eq_true, ↓reduceIte]
      have hr1 := Rect.rowsEnd_eq h1
      have hc1 := Rect.columnsEnd_eq h1
      have hr2 := Rect.rowsEnd_eq h2
      have hc2 := Rect.columnsEnd_eq h2
      unfold Rect.rowsEnd at hr1 hr2; unfold Rect.columnsEnd at hc1 hc2
      have e1 : (s.translate t).toCircle.boundingBox = s.boundingBox.translate t := rfl
      have e2 : s.toCircle.boundingBox = s.boundingBox := rfl
      rw [e1] at hr2 hc2
      rw [e2] at hr1 hc1
      simp only [Rect.rows, Rect.columns, hr1, hc1, hr2, hc2]
      simp only [Rect.translate, Pt.add_x, Pt.add_y]
      have shift : ∀ (a b c : Int), irange (a + c) (b + c) = (irange a b).map (· + c) := by
        intro a b c
        unfold irange
        rw [List.map_map]
        have : (b + c - (a + c)).toNat = (b - a).toNat := by omega
        rw [this]
        apply List.map_congr_left
        intro i _
        simp only [Function.comp]
        omega
      have ey : s.boundingBox.tl.y + t.y + ↑s.boundingBox.size.h = (s.boundingBox.tl.y + ↑s.boundingBox.size.h) + t.y := by omega
      have ex : s.boundingBox.tl.x + t.x + ↑s.boundingBox.size.w = (s.boundingBox.tl.x + ↑s.boundingBox.size.w) + t.x := by omega
      rw [ey, ex, shift, shift]
      simp only [List.flatMap_map, List.map_flatMap, List.map_map]
      rfl
  rw [hp, List.filter_map]
  congr 1
  apply List.filter_congr
  intro p _
  exact contains_translate s t p

end Sector
end EG

namespace EG
/-- Export for C07: the plane sector sees only `delta`, so `contains` commutes with translation. -/
theorem sector_contains_translate (s : Sector) (t p : Pt) :
    (s.translate t).contains (p + t) = s.contains p := Sector.contains_translate s t p

/-- Export for C07: `points()` of the translated sector = translated `points()`, same order. -/
theorem sector_points_translate (s : Sector) (t : Pt) (h1 : s.toCircle.InRange)
    (h2 : (s.translate t).toCircle.InRange) : (s.translate t).points = s.points.map (· + t) :=
  Sector.points_translate s t h1 h2
end EG
