/-
  EG.Lemmas.ThickGeoFrame — the linear functionals in which the geometry of a stroked line is
  measured, and their values on the two steps of the perpendicular walk.

  With `M`, `m` the major / minor unit steps of the line and `D >= d >= 0` its major / minor lengths
  (`delta = D M + d m`):
    amaj p = M . p        the coordinate of `p` along the line's major axis
    amin p = m . p        the coordinate along its minor axis
    dt   p = D amaj p + d amin p  = delta . p          (`dot` of the oracle, up to the origin)
    ph   p = 2 d amaj p - 2 D amin p                    (= -+ 2 cross(p): the Bresenham error form)
  A major step of a parallel changes `ph` by `2 d` (= `error_step.major`), a minor step by `-2 D`
  (= `-error_step.minor`): along a parallel `error - ph(point)` is constant.

  `FrameOK`: the values of `ph` and `dt` on the perpendicular's steps `M'`, `m'`, together with the
  two Booleans the code derives from the step vectors (`flip`, `mirror_extra_points`). Four oblique
  configurations (perpendicular major axis = the line's minor axis, or - for diagonals, where both
  count as y-major - the line's major axis; each with or without mirroring) and the axis-parallel one.
-/
import EG.Lemmas.ThickBBoxMain
set_option linter.unusedSimpArgs false
namespace EG
namespace Thick
open Line

namespace StrokeCtx

def amaj (c : StrokeCtx) (p : Pt) : Int := c.M.x * p.x + c.M.y * p.y
def amin (c : StrokeCtx) (p : Pt) : Int := c.m.x * p.x + c.m.y * p.y
/-- `delta . p`. -/
def dt (c : StrokeCtx) (p : Pt) : Int := c.D * c.amaj p + c.d * c.amin p
/-- The error form: `2 d amaj - 2 D amin`. -/
def ph (c : StrokeCtx) (p : Pt) : Int := 2 * c.d * c.amaj p - 2 * c.D * c.amin p

theorem amaj_add (c : StrokeCtx) (p q : Pt) : c.amaj (p + q) = c.amaj p + c.amaj q := by
  unfold amaj; simp only [Pt.add_x, Pt.add_y, Int.mul_add]; omega
theorem amaj_sub (c : StrokeCtx) (p q : Pt) : c.amaj (p - q) = c.amaj p - c.amaj q := by
  unfold amaj; simp only [Pt.sub_x, Pt.sub_y, Int.mul_sub]; omega
theorem amin_add (c : StrokeCtx) (p q : Pt) : c.amin (p + q) = c.amin p + c.amin q := by
  unfold amin; simp only [Pt.add_x, Pt.add_y, Int.mul_add]; omega
theorem amin_sub (c : StrokeCtx) (p q : Pt) : c.amin (p - q) = c.amin p - c.amin q := by
  unfold amin; simp only [Pt.sub_x, Pt.sub_y, Int.mul_sub]; omega

theorem dt_add (c : StrokeCtx) (p q : Pt) : c.dt (p + q) = c.dt p + c.dt q := by
  unfold dt; rw [amaj_add, amin_add, Int.mul_add, Int.mul_add]; omega
theorem dt_sub (c : StrokeCtx) (p q : Pt) : c.dt (p - q) = c.dt p - c.dt q := by
  unfold dt; rw [amaj_sub, amin_sub, Int.mul_sub, Int.mul_sub]; omega
theorem ph_add (c : StrokeCtx) (p q : Pt) : c.ph (p + q) = c.ph p + c.ph q := by
  unfold ph; rw [amaj_add, amin_add, Int.mul_add, Int.mul_add]; omega
theorem ph_sub (c : StrokeCtx) (p q : Pt) : c.ph (p - q) = c.ph p - c.ph q := by
  unfold ph; rw [amaj_sub, amin_sub, Int.mul_sub, Int.mul_sub]; omega

theorem amaj_M {c : StrokeCtx} (h : AxisPair c.M c.m) : c.amaj c.M = 1 := by
  unfold amaj
  rcases h with ⟨e1 | e1, e2 | e2⟩ | ⟨e1 | e1, e2 | e2⟩ <;> rw [e1] <;> decide
theorem amaj_m {c : StrokeCtx} (h : AxisPair c.M c.m) : c.amaj c.m = 0 := by
  unfold amaj
  rcases h with ⟨e1 | e1, e2 | e2⟩ | ⟨e1 | e1, e2 | e2⟩ <;> rw [e1, e2] <;> decide
theorem amin_M {c : StrokeCtx} (h : AxisPair c.M c.m) : c.amin c.M = 0 := by
  unfold amin
  rcases h with ⟨e1 | e1, e2 | e2⟩ | ⟨e1 | e1, e2 | e2⟩ <;> rw [e1, e2] <;> decide
theorem amin_m {c : StrokeCtx} (h : AxisPair c.M c.m) : c.amin c.m = 1 := by
  unfold amin
  rcases h with ⟨e1 | e1, e2 | e2⟩ | ⟨e1 | e1, e2 | e2⟩ <;> rw [e2] <;> decide

theorem ph_M {c : StrokeCtx} (h : AxisPair c.M c.m) : c.ph c.M = 2 * c.d := by
  unfold ph; rw [amaj_M h, amin_M h]; omega
theorem ph_m {c : StrokeCtx} (h : AxisPair c.M c.m) : c.ph c.m = -(2 * c.D) := by
  unfold ph; rw [amaj_m h, amin_m h]; omega
theorem dt_M {c : StrokeCtx} (h : AxisPair c.M c.m) : c.dt c.M = c.D := by
  unfold dt; rw [amaj_M h, amin_M h]; omega
theorem dt_m {c : StrokeCtx} (h : AxisPair c.M c.m) : c.dt c.m = c.d := by
  unfold dt; rw [amaj_m h, amin_m h]; omega

/-- A point is determined by its two coordinates. -/
theorem pt_eq_of_coords {c : StrokeCtx} (h : AxisPair c.M c.m) {p q : Pt}
    (h1 : c.amaj p = c.amaj q) (h2 : c.amin p = c.amin q) : p = q := by
  unfold amaj at h1
  unfold amin at h2
  rw [Pt.ext_iff']
  rcases h with ⟨e1 | e1, e2 | e2⟩ | ⟨e1 | e1, e2 | e2⟩ <;> rw [e1] at h1 <;> rw [e2] at h2 <;>
    simp only at h1 h2 <;> omega

/-- The values of the two forms on the steps of the perpendicular walk (see the file header). -/
def FrameOK (c : StrokeCtx) (flip : Bool) : Prop :=
  (c.d = 0 ∧ (c.ph c.M' = 2 * c.D ∨ c.ph c.M' = -(2 * c.D)) ∧ c.dt c.M' = 0) ∨
  (0 < c.d ∧ c.perp.mirrorExtraPoints = true ∧ flip = false ∧
    c.ph c.M' = 2 * c.D ∧ c.ph c.m' = 2 * c.d ∧ c.dt c.M' = -c.d ∧ c.dt c.m' = c.D) ∨
  (0 < c.d ∧ c.perp.mirrorExtraPoints = false ∧ flip = true ∧
    c.ph c.M' = -(2 * c.D) ∧ c.ph c.m' = -(2 * c.d) ∧ c.dt c.M' = c.d ∧ c.dt c.m' = -c.D) ∨
  (0 < c.d ∧ c.D = c.d ∧ c.perp.mirrorExtraPoints = true ∧ flip = false ∧
    c.ph c.M' = -(2 * c.D) ∧ c.ph c.m' = -(2 * c.D) ∧ c.dt c.M' = -c.D ∧ c.dt c.m' = c.D) ∨
  (0 < c.d ∧ c.D = c.d ∧ c.perp.mirrorExtraPoints = false ∧ flip = false ∧
    c.ph c.M' = 2 * c.D ∧ c.ph c.m' = 2 * c.D ∧ c.dt c.M' = c.D ∧ c.dt c.m' = -c.D)

end StrokeCtx

/-- The `flip` flag `ParallelsIterator::new` computes. -/
def flipOf (l : Line) : Bool :=
  decide ((BresenhamParameters.new (paramLine l).perpendicular).positionStep.minor =
    -(BresenhamParameters.new (paramLine l)).positionStep.major)

theorem sgn_mul_self (a : Int) : sgn a * sgn a = 1 := by
  rcases sgn_eq a with h | h <;> rw [h] <;> decide

theorem aabs_zero_iff (a : Int) : aabs a = 0 ↔ a = 0 := by unfold aabs; split <;> omega

theorem neg_pt (a b : Int) : -(⟨a, b⟩ : Pt) = ⟨-a, -b⟩ := rfl

theorem sgn_abs_cases (x : Int) :
    (0 < x ∧ sgn x = 1 ∧ aabs x = x ∧ sgn (-x) = -1 ∧ aabs (-x) = x) ∨
    (x = 0 ∧ sgn x = 1 ∧ aabs x = 0 ∧ sgn (-x) = 1 ∧ aabs (-x) = 0) ∨
    (x < 0 ∧ sgn x = -1 ∧ aabs x = -x ∧ sgn (-x) = 1 ∧ aabs (-x) = -x) := by
  unfold sgn aabs
  rcases Int.lt_trichotomy 0 x with h | h | h
  · left; refine ⟨h, ?_, ?_, ?_, ?_⟩ <;> split <;> omega
  · right; left; subst h; decide
  · right; right; refine ⟨h, ?_, ?_, ?_, ?_⟩ <;> split <;> omega

open StrokeCtx in
/-- The frame of a non-degenerate line (all octants, by cases on the signs of `dx`, `dy`). -/
theorem frameOK_of (n : Line) (hn : n.start ≠ n.stop) :
    FrameOK ⟨dmaj n, dmin n, pmaj n, pmin n, pmaj n.perpendicular, pmin n.perpendicular⟩
      (decide (pmin n.perpendicular = -pmaj n)) := by
  have hpx := dxOf_perpendicular n
  have hpy := dyOf_perpendicular n
  have hne : dxOf n ≠ 0 ∨ dyOf n ≠ 0 := by
    by_contra hc
    apply hn
    rw [Pt.ext_iff']
    unfold dxOf dyOf at hc
    omega
  unfold FrameOK ph dt amaj amin StrokeCtx.perp BresenhamParameters.mirrorExtraPoints
  simp only
  unfold pmaj pmin dmaj dmin
  by_cases h1 : yMajor n <;> by_cases h2 : yMajor n.perpendicular <;>
    simp only [h1, h2, ↓reduceIte, hpx, hpy, neg_pt] <;>
    unfold yMajor at h1 h2 <;> rw [hpx, hpy] at h2 <;>
    rcases sgn_abs_cases (dxOf n) with ⟨a0, a1, a2, a3, a4⟩ | ⟨a0, a1, a2, a3, a4⟩ | ⟨a0, a1, a2, a3, a4⟩ <;>
    rcases sgn_abs_cases (dyOf n) with ⟨b0, b1, b2, b3, b4⟩ | ⟨b0, b1, b2, b3, b4⟩ | ⟨b0, b1, b2, b3, b4⟩ <;>
    simp only [a1, a2, a3, a4, b1, b2, b3, b4] at h1 h2 ⊢ <;>
    simp [Pt.ext_iff'] <;> omega

theorem frameOK_ctxOf (l : Line) : (ctxOf l).FrameOK (flipOf l) := by
  have h := frameOK_of (paramLine l) (paramLine_nondeg l)
  unfold flipOf
  rw [params_new, params_new]
  exact h

/-- The fresh iterator of `ParallelsIterator::new(line, t, StrokeOffset::None)`, field by field. -/
theorem new_fields (l : Line) (t : Int) :
    ∃ it, ParallelsIterator.new l t .none = some it ∧ it.flip = flipOf l ∧ it.nextSide = .right ∧
      it.strokeOffset = .none ∧ it.parallelParameters = (ctxOf l).pp ∧
      it.perpendicularParameters = (ctxOf l).perp ∧
      it.left = ⟨l.start + (ctxOf l).M', 2 * (ctxOf l).d⟩ ∧ it.leftError = 0 ∧
      it.right = ⟨l.start, 0⟩ ∧ it.rightError = 0 ∧
      it.thicknessAccumulator = (ctxOf l).D + (ctxOf l).d ∧
      it.thicknessThreshold = t * 2 * (t * 2) *
        (dxOf (paramLine l) * dxOf (paramLine l) + dyOf (paramLine l) * dyOf (paramLine l)) := by
  obtain ⟨it, hnew, hr, hre, hs, hso, hpp, hperp, hacc, hthr⟩ := new_any l t
  refine ⟨it, hnew, ?_, hs, hso, by rw [hpp, ctxOf_pp], by rw [hperp, ctxOf_perp], ?_, ?_, hr, hre,
    hacc, hthr⟩
  all_goals
    have hthr0 : 0 ≤ (BresenhamParameters.new (paramLine l).perpendicular).errorThreshold := by
      rw [params_new]; exact dmaj_nonneg _
    unfold ParallelsIterator.new at hnew
    simp only [LineSide.swap] at hnew
    rw [nextParallel_left_fresh _ l.start rfl hthr0] at hnew
    simp only [Option.some.injEq] at hnew
    rw [← hnew]
  · rfl
  · show (⟨l.start + (BresenhamParameters.new (paramLine l).perpendicular).positionStep.major,
      0 + (BresenhamParameters.new (paramLine l).perpendicular).errorStep.major⟩ : Bresenham) = _
    rw [← ctxOf_perp]
    show (⟨l.start + (ctxOf l).M', 0 + 2 * (ctxOf l).d⟩ : Bresenham) = _
    rw [Int.zero_add]

end Thick
end EG
