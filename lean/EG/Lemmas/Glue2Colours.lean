/-
  EG.Lemmas.Glue2Colours — helper for the colour glue of C10 (Props/C10/Colours.lean).
-/
import EG.Model.Target
namespace EG.Glue2
open EG

/-- The last write to a point is one of the writes. -/
theorem lastWrite_mem (ws : Writes) (p : Pt) (c : Color) (h : lastWrite ws p = some c) : (p, c) ∈ ws := by
  unfold lastWrite at h
  split at h
  · rename_i w hf
    cases h
    have hm := List.mem_of_find?_eq_some hf
    have hp := List.find?_some hf
    simp only [beq_iff_eq] at hp
    rw [List.mem_reverse] at hm
    rw [← hp]; exact hm
  · cases h

end EG.Glue2
