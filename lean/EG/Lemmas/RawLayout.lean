/-
  EG.Lemmas.RawLayout — where the bits / bytes of pixel `i` live (the documented layout).
-/
import EG.Lemmas.RawLoadStore
namespace EG.Raw

/-- `LittleEndianMsb0`: slot `s` of a byte occupies the bits just below `8 - bits * s`
(most significant bits first). -/
theorem slotShift_le {bits : Nat} (h : subByte bits) {s : Nat} (hs : s < 8 / bits) :
    slotShift bits .le s = 8 - bits * (s + 1) := by
  unfold slotShift Order.alt
  rcases h with rfl | rfl | rfl <;> simp only [Nat.reduceDiv, Bool.false_eq_true, ↓reduceIte] at hs ⊢ <;> omega

/-- `BigEndianLsb0`: slot `s` starts at bit `bits * s` (least significant bits first). -/
theorem slotShift_be (bits s : Nat) : slotShift bits .be s = bits * s := by
  unfold slotShift Order.alt
  simp only [↓reduceIte, Nat.mul_comm]

/-- Bit `k` of the value loaded for pixel `i` is bit `bit_index + k` of byte `i / pixels_per_byte`. -/
theorem loadBits_testBit {bits : Nat} {o : Order} {buf : List Nat} {i v : Nat}
    (hl : loadBits bits o buf i = some v) {k : Nat} (hk : k < bits) :
    ∃ b, buf[i / (8 / bits)]? = some b ∧
      v.testBit k = b.testBit (slotShift bits o (i % (8 / bits)) + k) := by
  by_cases hlt : i / (8 / bits) < buf.length
  · rw [loadBits_of_lt hlt] at hl
    cases hl
    refine ⟨buf[i / (8 / bits)], List.getElem?_eq_getElem hlt, ?_⟩
    rw [loadByte_testBit]
    simp only [hk, decide_true, Bool.true_and]
  · rw [loadBits_of_ge (by omega)] at hl; cases hl

/-- Byte `j` (base-256 digit `j`) of the value loaded for pixel `i` is the byte at offset `j`
(little endian) resp. `n - 1 - j` (big endian) of the pixel's `n` bytes. -/
theorem loadBytes_digit {n : Nat} {o : Order} {buf : List Nat} {i v : Nat} (hw : BytesOk buf)
    (hl : loadBytes n o buf i = some v) {j : Nat} (hj : j < n) :
    buf[i * n + (if o.alt then n - 1 - j else j)]? = some (v / 256 ^ j % 256) := by
  by_cases hle : i * n + n ≤ buf.length
  · rw [loadBytes_of_le hle] at hl
    cases hl
    have hlen : ((buf.drop (i * n)).take n).length = n := by
      simp only [List.length_take, List.length_drop]; omega
    have hok : BytesOk ((buf.drop (i * n)).take n) := (hw.drop _).take _
    have hget : ∀ m, (hm : m < n) → ((buf.drop (i * n)).take n)[m]'(by omega) = buf[i * n + m]'(by omega) := by
      intro m hm
      simp only [List.getElem_take, List.getElem_drop]
    unfold decodeBytes
    cases o with
    | le =>
      simp only [Order.alt, Bool.false_eq_true, ↓reduceIte]
      rw [List.getElem?_eq_getElem (by omega), ← hget j hj,
        fromLe_digit _ hok j (by omega)]
    | be =>
      simp only [Order.alt, ↓reduceIte, fromBe]
      have hokr : BytesOk ((buf.drop (i * n)).take n).reverse :=
        fun x hx => hok x (List.mem_reverse.mp hx)
      have := fromLe_digit _ hokr j (by rw [List.length_reverse]; omega)
      rw [← this, List.getElem_reverse, List.getElem?_eq_getElem (by omega), ← hget (n - 1 - j) (by omega)]
      simp only [hlen]
  · rw [loadBytes_of_gt (by omega)] at hl; cases hl

/-- Bit `p` of base-256 digit `j` of `v` is bit `8 j + p` of `v`. -/
theorem digit_testBit (v j p : Nat) (hp : p < 8) :
    (v / 256 ^ j % 256).testBit p = v.testBit (8 * j + p) := by
  have h256 : (256 : Nat) = 2 ^ 8 := by decide
  have hpow : (256 : Nat) ^ j = 2 ^ (8 * j) := by rw [h256, ← Nat.pow_mul]
  rw [hpow, h256, Nat.testBit_mod_two_pow, ← Nat.shiftRight_eq_div_pow, Nat.testBit_shiftRight]
  simp [hp]

/-- Bit `k` of the value loaded for pixel `i` is bit `k % 8` of the byte at offset `k / 8`
(little endian) resp. `n - 1 - k / 8` (big endian) of the pixel's `n` bytes. -/
theorem loadBytes_testBit {n : Nat} {o : Order} {buf : List Nat} {i v : Nat} (hw : BytesOk buf)
    (hl : loadBytes n o buf i = some v) {k : Nat} (hk : k < 8 * n) :
    ∃ b, buf[i * n + (if o.alt then n - 1 - k / 8 else k / 8)]? = some b ∧
      v.testBit k = b.testBit (k % 8) := by
  refine ⟨_, loadBytes_digit hw hl (j := k / 8) (by omega), ?_⟩
  rw [digit_testBit v (k / 8) (k % 8) (Nat.mod_lt _ (by decide))]
  congr 1
  omega

end EG.Raw
