/-
  EG.Lemmas.Circle — arithmetic of the circle hit test.
  `dist2 c2 p` is the squared distance, in doubled coordinates, between the centre of pixel `p`
  and the centre `c2 / 2 + (1/2, 1/2)` of the shape; `contains` / the scanline `find` closure are
  `dist2 < threshold`. Symmetry, convexity, "every row and column of the box has a hit",
  "nothing outside the box is hit", monotonicity of the threshold.
-/
import EG.Lemmas.Scanline
import EG.Model.Circle
import Mathlib.Tactic.Linarith
namespace EG

/-- Squared distance (x 4) between pixel centre and shape centre, in doubled coordinates. -/
def dist2 (c2 : Pt) (p : Pt) : Int :=
  (p.x * 2 - c2.x) * (p.x * 2 - c2.x) + (p.y * 2 - c2.y) * (p.y * 2 - c2.y)

theorem dist2_nonneg (c2 p : Pt) : 0 ≤ dist2 c2 p := by
  unfold dist2
  nlinarith [mul_self_nonneg (p.x * 2 - c2.x), mul_self_nonneg (p.y * 2 - c2.y)]

/-! ### small facts about squares -/

theorem mul_self_le_of_abs_le {s t : Int} (h1 : s ≤ t) (h2 : -t ≤ s) : s * s ≤ t * t := by
  nlinarith [mul_nonneg (by linarith : (0 : Int) ≤ t - s) (by linarith : (0 : Int) ≤ t + s)]

theorem abs_lt_of_mul_self_lt {s : Int} {d : Int} (hd : 0 ≤ d) (h : s * s < d * d) : -d < s ∧ s < d := by
  constructor
  · by_contra hc
    have : d ≤ -s := by omega
    nlinarith [mul_self_le_of_abs_le (s := d) (t := -s) this (by omega)]
  · by_contra hc
    have : d ≤ s := by omega
    nlinarith [mul_self_le_of_abs_le (s := d) (t := s) this (by omega)]

/-- Between two values the square is at most the larger of the two squares. -/
theorem mul_self_le_max {s1 s s2 : Int} (h1 : s1 ≤ s) (h2 : s ≤ s2) :
    s * s ≤ s1 * s1 ∨ s * s ≤ s2 * s2 := by
  by_cases h : 0 ≤ s
  · right; exact mul_self_le_of_abs_le h2 (by omega)
  · left
    have := mul_self_le_of_abs_le (s := -s) (t := -s1) (by omega) (by omega)
    rwa [Int.neg_mul_neg, Int.neg_mul_neg] at this

/-! ### threshold -/

theorem threshold_le_sq (d : Nat) : diameterToThreshold d ≤ d * d := by
  unfold diameterToThreshold; split <;> omega

theorem threshold_zero : diameterToThreshold 0 = 0 := rfl

theorem threshold_of_gt4 {d : Nat} (h : 4 < d) : diameterToThreshold d = d * d := by
  unfold diameterToThreshold; rw [if_neg (by omega)]

theorem threshold_mono {d1 d2 : Nat} (h : d1 ≤ d2) : diameterToThreshold d1 ≤ diameterToThreshold d2 := by
  by_cases h2 : d2 ≤ 4
  · have : d1 = 0 ∨ d1 = 1 ∨ d1 = 2 ∨ d1 = 3 ∨ d1 = 4 := by omega
    have : d2 = 0 ∨ d2 = 1 ∨ d2 = 2 ∨ d2 = 3 ∨ d2 = 4 := by omega
    rcases ‹d1 = 0 ∨ _› with rfl | rfl | rfl | rfl | rfl <;>
      rcases ‹d2 = 0 ∨ _› with rfl | rfl | rfl | rfl | rfl <;> first | omega | decide
  · rw [threshold_of_gt4 (d := d2) (by omega)]
    by_cases h1 : d1 ≤ 4
    · have h5 : 5 ≤ d2 := by omega
      have := threshold_le_sq d1
      have : d1 * d1 ≤ 4 * 4 := Nat.mul_le_mul h1 h1
      have : 5 * 5 ≤ d2 * d2 := Nat.mul_le_mul h5 h5
      omega
    · rw [threshold_of_gt4 (d := d1) (by omega)]
      exact Nat.mul_le_mul h h

/-- `(d-1)^2 + ((d-1) mod 2) < threshold d`: the pixel next to the centre line in the outermost
row is inside. The four small diameters by case analysis. -/
theorem edge_lt_threshold {d : Nat} (hd : 1 ≤ d) :
    (d - 1) * (d - 1) + (d - 1) % 2 < diameterToThreshold d := by
  by_cases h : d ≤ 4
  · have : d = 1 ∨ d = 2 ∨ d = 3 ∨ d = 4 := by omega
    rcases this with rfl | rfl | rfl | rfl <;> decide
  · rw [threshold_of_gt4 (by omega)]
    obtain ⟨e, rfl⟩ : ∃ e, d = e + 1 := ⟨d - 1, by omega⟩
    simp only [Nat.add_sub_cancel, Nat.mul_add, Nat.add_mul]
    omega

/-! ### `contains`, `hit` -/

namespace Circle

theorem center2x_x (c : Circle) : c.center2x.x = c.tl.x * 2 + ((c.d - 1 : Nat) : Int) := rfl
theorem center2x_y (c : Circle) : c.center2x.y = c.tl.y * 2 + ((c.d - 1 : Nat) : Int) := rfl

theorem hit_iff {c2 : Pt} {T : Nat} {x y : Int} :
    hit c2 T y x = true ↔ dist2 c2 ⟨x, y⟩ < (T : Int) := by
  unfold hit
  dsimp only
  rw [decide_eq_true_iff]
  simp only [lengthSquared, Pt.sub_x, Pt.sub_y]
  have := dist2_nonneg c2 ⟨x, y⟩
  unfold dist2 at this ⊢
  simp only at this ⊢
  omega

/-- `contains` is the strict threshold test on `dist2`. -/
theorem contains_iff {c : Circle} {p : Pt} :
    c.contains p = true ↔ dist2 c.center2x p < (c.threshold : Int) := by
  unfold contains
  dsimp only
  rw [decide_eq_true_iff]
  simp only [lengthSquared, Pt.sub_x, Pt.sub_y]
  have := dist2_nonneg c.center2x p
  unfold dist2 at this ⊢
  have e1 : (c.center2x.x - p.x * 2) * (c.center2x.x - p.x * 2) =
      (p.x * 2 - c.center2x.x) * (p.x * 2 - c.center2x.x) := by
    rw [← Int.neg_mul_neg]; congr 1 <;> omega
  have e2 : (c.center2x.y - p.y * 2) * (c.center2x.y - p.y * 2) =
      (p.y * 2 - c.center2x.y) * (p.y * 2 - c.center2x.y) := by
    rw [← Int.neg_mul_neg]; congr 1 <;> omega
  rw [e1, e2]
  omega

/-- The `find` closure of the scanline iterator is `contains`. -/
theorem contains_eq_hit (c : Circle) (x y : Int) :
    c.contains ⟨x, y⟩ = hit c.center2x c.threshold y x := by
  rw [Bool.eq_iff_iff, contains_iff, hit_iff]

/-! ### symmetry and convexity of a row / a column -/

theorem hit_symConvex_row {c2 : Pt} (T : Nat) (y : Int) {a b : Int} (hc : c2.x = a + b - 1) :
    SymConvex (hit c2 T y) a b := by
  constructor
  · intro x
    rw [Bool.eq_iff_iff, hit_iff, hit_iff]
    unfold dist2
    simp only
    have : ((a + b - 1 - x) * 2 - c2.x) * ((a + b - 1 - x) * 2 - c2.x) =
        (x * 2 - c2.x) * (x * 2 - c2.x) := by
      rw [← Int.neg_mul_neg]; congr 1 <;> omega
    rw [this]
  · intro x z hx h1 h2
    rw [hit_iff] at hx ⊢
    unfold dist2 at hx ⊢
    simp only at hx ⊢
    have := mul_self_le_of_abs_le (s := z * 2 - c2.x) (t := c2.x - x * 2) (by omega) (by omega)
    have e : (c2.x - x * 2) * (c2.x - x * 2) = (x * 2 - c2.x) * (x * 2 - c2.x) := by
      rw [← Int.neg_mul_neg]; congr 1 <;> omega
    omega

theorem hit_symConvex_col {c2 : Pt} (T : Nat) (x : Int) {a b : Int} (hc : c2.y = a + b - 1) :
    SymConvex (fun y => hit c2 T y x) a b := by
  constructor
  · intro y
    rw [Bool.eq_iff_iff, hit_iff, hit_iff]
    unfold dist2
    simp only
    have : ((a + b - 1 - y) * 2 - c2.y) * ((a + b - 1 - y) * 2 - c2.y) =
        (y * 2 - c2.y) * (y * 2 - c2.y) := by
      rw [← Int.neg_mul_neg]; congr 1 <;> omega
    rw [this]
  · intro y z hy h1 h2
    rw [hit_iff] at hy ⊢
    unfold dist2 at hy ⊢
    simp only at hy ⊢
    have := mul_self_le_of_abs_le (s := z * 2 - c2.y) (t := c2.y - y * 2) (by omega) (by omega)
    have e : (c2.y - y * 2) * (c2.y - y * 2) = (y * 2 - c2.y) * (y * 2 - c2.y) := by
      rw [← Int.neg_mul_neg]; congr 1 <;> omega
    omega

/-- Mirror symmetry of `dist2` in x and in y. -/
theorem dist2_mirror_x (c2 : Pt) (x y : Int) : dist2 c2 ⟨c2.x - x, y⟩ = dist2 c2 ⟨x, y⟩ := by
  unfold dist2
  simp only
  have : ((c2.x - x) * 2 - c2.x) * ((c2.x - x) * 2 - c2.x) = (x * 2 - c2.x) * (x * 2 - c2.x) := by
    rw [← Int.neg_mul_neg]; congr 1 <;> omega
  rw [this]

theorem dist2_mirror_y (c2 : Pt) (x y : Int) : dist2 c2 ⟨x, c2.y - y⟩ = dist2 c2 ⟨x, y⟩ := by
  unfold dist2
  simp only
  have : ((c2.y - y) * 2 - c2.y) * ((c2.y - y) * 2 - c2.y) = (y * 2 - c2.y) * (y * 2 - c2.y) := by
    rw [← Int.neg_mul_neg]; congr 1 <;> omega
  rw [this]

/-! ### every row / column of the box has a hit; nothing outside the box is hit -/

/-- In doubled coordinates the centre column is at most one half-step left of the centre. -/
theorem center_offset_sq (d : Nat) (t : Int) :
    ((t + ((d - 1) / 2 : Nat)) * 2 - (t * 2 + ((d - 1 : Nat) : Int))) *
      ((t + ((d - 1) / 2 : Nat)) * 2 - (t * 2 + ((d - 1 : Nat) : Int))) = (((d - 1) % 2 : Nat) : Int) := by
  have h : (t + ((d - 1) / 2 : Nat)) * 2 - (t * 2 + ((d - 1 : Nat) : Int)) = -(((d - 1) % 2 : Nat) : Int) := by
    omega
  rw [h, Int.neg_mul_neg]
  have : (d - 1) % 2 = 0 ∨ (d - 1) % 2 = 1 := by omega
  rcases this with h0 | h0 <;> rw [h0] <;> rfl

/-- The centre column meets every row of the bounding box. -/
theorem center_col_hit {c : Circle} {y : Int} (h1 : c.tl.y ≤ y) (h2 : y < c.tl.y + c.d) :
    c.contains ⟨c.tl.x + ((c.d - 1) / 2 : Nat), y⟩ = true := by
  have hd : 1 ≤ c.d := by omega
  rw [contains_iff]
  unfold dist2
  simp only [center2x_x, center2x_y]
  rw [center_offset_sq]
  have hb := mul_self_le_of_abs_le (s := y * 2 - (c.tl.y * 2 + ((c.d - 1 : Nat) : Int)))
    (t := ((c.d - 1 : Nat) : Int)) (by omega) (by omega)
  have := edge_lt_threshold hd
  unfold threshold
  have e : (((c.d - 1) * (c.d - 1) + (c.d - 1) % 2 : Nat) : Int) =
      ((c.d - 1 : Nat) : Int) * ((c.d - 1 : Nat) : Int) + (((c.d - 1) % 2 : Nat) : Int) := by
    push_cast; rfl
  omega

/-- The centre row meets every column of the bounding box. -/
theorem center_row_hit {c : Circle} {x : Int} (h1 : c.tl.x ≤ x) (h2 : x < c.tl.x + c.d) :
    c.contains ⟨x, c.tl.y + ((c.d - 1) / 2 : Nat)⟩ = true := by
  have hd : 1 ≤ c.d := by omega
  rw [contains_iff]
  unfold dist2
  simp only [center2x_x, center2x_y]
  rw [center_offset_sq]
  have hb := mul_self_le_of_abs_le (s := x * 2 - (c.tl.x * 2 + ((c.d - 1 : Nat) : Int)))
    (t := ((c.d - 1 : Nat) : Int)) (by omega) (by omega)
  have := edge_lt_threshold hd
  unfold threshold
  have e : (((c.d - 1) * (c.d - 1) + (c.d - 1) % 2 : Nat) : Int) =
      ((c.d - 1 : Nat) : Int) * ((c.d - 1 : Nat) : Int) + (((c.d - 1) % 2 : Nat) : Int) := by
    push_cast; rfl
  omega

/-- `contains` is false outside the bounding box (as inequalities). -/
theorem contains_imp_box {c : Circle} {p : Pt} (h : c.contains p = true) :
    c.tl.x ≤ p.x ∧ p.x < c.tl.x + c.d ∧ c.tl.y ≤ p.y ∧ p.y < c.tl.y + c.d := by
  rw [contains_iff] at h
  have hT : (c.threshold : Int) ≤ (c.d : Int) * (c.d : Int) := by
    have := threshold_le_sq c.d
    unfold threshold
    exact_mod_cast this
  unfold dist2 at h
  have hx0 := mul_self_nonneg (p.x * 2 - c.center2x.x)
  have hy0 := mul_self_nonneg (p.y * 2 - c.center2x.y)
  have hx := abs_lt_of_mul_self_lt (s := p.x * 2 - c.center2x.x) (d := (c.d : Int)) (by omega) (by omega)
  have hy := abs_lt_of_mul_self_lt (s := p.y * 2 - c.center2x.y) (d := (c.d : Int)) (by omega) (by omega)
  rw [center2x_x] at hx
  rw [center2x_y] at hy
  have hd : 1 ≤ c.d := by
    by_contra hc
    have : c.d = 0 := by omega
    rw [this] at hx; omega
  omega

theorem contains_imp_bbox {c : Circle} {p : Pt} (h : c.contains p = true) :
    c.boundingBox.contains p = true := by
  rw [Rect.contains_iff]
  exact contains_imp_box h

/-! ### rows and columns are convex; the empty circle -/

theorem contains_convex_row {c : Circle} {y x1 x x2 : Int} (h1 : c.contains ⟨x1, y⟩ = true)
    (h2 : c.contains ⟨x2, y⟩ = true) (hx1 : x1 ≤ x) (hx2 : x ≤ x2) : c.contains ⟨x, y⟩ = true := by
  rw [contains_iff] at h1 h2 ⊢
  unfold dist2 at h1 h2 ⊢
  simp only at h1 h2 ⊢
  rcases mul_self_le_max (s1 := x1 * 2 - c.center2x.x) (s := x * 2 - c.center2x.x)
    (s2 := x2 * 2 - c.center2x.x) (by omega) (by omega) with h | h <;> omega

theorem contains_convex_col {c : Circle} {x y1 y y2 : Int} (h1 : c.contains ⟨x, y1⟩ = true)
    (h2 : c.contains ⟨x, y2⟩ = true) (hy1 : y1 ≤ y) (hy2 : y ≤ y2) : c.contains ⟨x, y⟩ = true := by
  rw [contains_iff] at h1 h2 ⊢
  unfold dist2 at h1 h2 ⊢
  simp only at h1 h2 ⊢
  rcases mul_self_le_max (s1 := y1 * 2 - c.center2x.y) (s := y * 2 - c.center2x.y)
    (s2 := y2 * 2 - c.center2x.y) (by omega) (by omega) with h | h <;> omega

theorem contains_false_of_zero {c : Circle} (h : c.d = 0) (p : Pt) : c.contains p = false := by
  cases hc : c.contains p with
  | false => rfl
  | true => have := contains_imp_box hc; omega

theorem contains_mirror_x (c : Circle) (x y : Int) :
    c.contains ⟨c.center2x.x - x, y⟩ = c.contains ⟨x, y⟩ := by
  rw [Bool.eq_iff_iff, contains_iff, contains_iff, dist2_mirror_x]

theorem contains_mirror_y (c : Circle) (x y : Int) :
    c.contains ⟨x, c.center2x.y - y⟩ = c.contains ⟨x, y⟩ := by
  rw [Bool.eq_iff_iff, contains_iff, contains_iff, dist2_mirror_y]

/-- All pixels whose centre is within `r - 1/2` of the centre are inside (all diameters). -/
theorem inner_lt_threshold {d : Nat} (hd : 1 ≤ d) : (d - 1) * (d - 1) < diameterToThreshold d := by
  have := edge_lt_threshold hd; omega

end Circle
end EG
