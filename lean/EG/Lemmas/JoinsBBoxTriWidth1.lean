/-
  EG.Lemmas.JoinsBBoxTriWidth1 — a triangle with stroke width 1 (any alignment, `i32` vertices):
  every edge segment is a skeleton segment whose one outline line runs between two vertices
  (EG.Lemmas.JoinsBBoxWidth1Off), so `TriCtx` holds for the plain vertex box.
-/
import EG.Lemmas.JoinsBBoxTriMain
import EG.Lemmas.JoinsBBoxWidth1Off
set_option linter.unusedSimpArgs false
namespace EG
namespace Joins
open Thick (LineSide StrokeOffset)

/-- The three vertices have `i32` coordinates. -/
def TriI32 (t : Tri) : Prop :=
  (inI32 t.v1.x ∧ inI32 t.v1.y) ∧ (inI32 t.v2.x ∧ inI32 t.v2.y) ∧ (inI32 t.v3.x ∧ inI32 t.v3.y)

instance (t : Tri) : Decidable (TriI32 t) := by unfold TriI32; exact inferInstance

theorem vertex_cases (t : Tri) (i : Nat) : t.vertex i = t.v1 ∨ t.vertex i = t.v2 ∨ t.vertex i = t.v3 := by
  obtain ⟨h0, h1, h2⟩ := vertex_mod t i
  have h : i % 3 = 0 ∨ i % 3 = 1 ∨ i % 3 = 2 := by omega
  rcases h with h | h | h
  · left; exact h0 h
  · right; left; exact h1 h
  · right; right; exact h2 h

/-- `TriCtx` for stroke width 1 and the plain vertex box. -/
theorem triCtx_width1 (t : Tri) (off : StrokeOffset) (hi : TriI32 t) (collapsed hasFill : Bool) :
    TriCtx t.sortedClockwise 1 off t.boundingBox.tl.x
      (t.boundingBox.tl.x + t.boundingBox.size.w - 1) collapsed hasFill := by
  have hv := triCtx_vertexBox_verts t
  have hi' := sortedClockwise_all (fun p => inI32 p.x ∧ inI32 p.y) t hi.1 hi.2.1 hi.2.2
  have hvert : ∀ i, (inI32 (t.sortedClockwise.vertex i).x ∧ inI32 (t.sortedClockwise.vertex i).y) ∧
      (t.boundingBox.tl.x ≤ (t.sortedClockwise.vertex i).x ∧
        (t.sortedClockwise.vertex i).x ≤ t.boundingBox.tl.x + t.boundingBox.size.w - 1) := by
    intro i
    rcases vertex_cases t.sortedClockwise i with h | h | h <;> rw [h]
    · exact ⟨hi'.1, hv.1⟩
    · exact ⟨hi'.2.1, hv.2.1⟩
    · exact ⟨hi'.2.2, hv.2.2⟩
  constructor
  · intro _ _ idx a b ha hb
    obtain ⟨⟨m1, m2⟩, mc⟩ := hvert (idx + 1)
    obtain ⟨⟨n1, n2⟩, nc⟩ := hvert (idx + 1 + 1)
    obtain ⟨j, hj, c1, c2⟩ := fromPoints_width1_off (t.sortedClockwise.vertex idx)
      (t.sortedClockwise.vertex (idx + 1)) (t.sortedClockwise.vertex (idx + 2)) off m1 m2
    obtain ⟨k, hk, d1, _⟩ := fromPoints_width1_off (t.sortedClockwise.vertex (idx + 1))
      (t.sortedClockwise.vertex (idx + 1 + 1)) (t.sortedClockwise.vertex (idx + 1 + 2)) off n1 n2
    have ea : a = j := by rw [hj] at ha; exact (Option.some.inj ha).symm
    have eb : b = k := by rw [hk] at hb; exact (Option.some.inj hb).symm
    subst ea eb
    have hs : (ThickSegment.mk a b).isSkeleton = true := by
      unfold ThickSegment.isSkeleton; simp only [c1]; exact beq_self_eq_true _
    intro l hl
    rw [outline_skeleton _ hs] at hl
    simp only [List.mem_cons, List.not_mem_nil, or_false] at hl
    subst hl
    unfold ThickSegment.edges
    simp only [c2, d1]
    omega
  · intro _
    exact hv

end Joins
end EG
