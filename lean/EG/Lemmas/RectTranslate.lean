/-
  EG.Lemmas.RectTranslate — every `Rect` operation commutes with translation
  (`Rectangle::translate` moves `top_left`, all other formulas are relative to it). Used by C07.
  Where the real code saturates (`points`, `rows`, `columns`: `saturating_add` / `saturating_as`)
  the statement carries `Rect.InRange` for the rectangle before and after the move.
-/
import EG.Lemmas.RectPoints
namespace EG

theorem Pt.add_sub_cancel' (p d : Pt) : p + d - d = p := by
  rw [Pt.ext_iff']; simp only [Pt.sub_x, Pt.add_x, Pt.sub_y, Pt.add_y]; omega

theorem Pt.sub_add_cancel' (p d : Pt) : p - d + d = p := by
  rw [Pt.ext_iff']; simp only [Pt.sub_x, Pt.add_x, Pt.sub_y, Pt.add_y]; omega

theorem Pt.eq_add_iff (p q d : Pt) : p = q + d ↔ p - d = q := by
  rw [Pt.ext_iff', Pt.ext_iff']; simp only [Pt.sub_x, Pt.add_x, Pt.sub_y, Pt.add_y]; omega

theorem Pt.add_zero' (p : Pt) : p + (⟨0, 0⟩ : Pt) = p := by
  rw [Pt.ext_iff']; simp

theorem irange_shift (a b d : Int) : irange (a + d) (b + d) = (irange a b).map (fun x => x + d) := by
  unfold irange
  have : (b + d - (a + d)).toNat = (b - a).toNat := by omega
  rw [this, List.map_map]
  apply List.map_congr_left
  intro i _
  simp only [Function.comp]
  omega

namespace Rect

@[simp] theorem translate_tl (r : Rect) (d : Pt) : (r.translate d).tl = r.tl + d := rfl
@[simp] theorem translate_size (r : Rect) (d : Pt) : (r.translate d).size = r.size := rfl

theorem translate_zero (r : Rect) : r.translate ⟨0, 0⟩ = r := by
  cases r; simp [translate, Pt.add_zero']

theorem translate_translate (r : Rect) (d e : Pt) :
    (r.translate d).translate e = r.translate (d + e) := by
  simp only [translate, Rect.mk.injEq, and_true]
  rw [Pt.ext_iff']; simp only [Pt.add_x, Pt.add_y]; omega

/-- `contains` of the moved rectangle at the moved point. -/
theorem contains_translate (r : Rect) (d p : Pt) :
    (r.translate d).contains (p + d) = r.contains p := by
  rw [Bool.eq_iff_iff, contains_iff, contains_iff]
  simp only [translate_tl, translate_size, Pt.add_x, Pt.add_y]
  omega

theorem contains_translate' (r : Rect) (d p : Pt) :
    (r.translate d).contains p = r.contains (p - d) := by
  rw [← contains_translate r d (p - d), Pt.sub_add_cancel']

theorem isZeroSized_translate (r : Rect) (d : Pt) : (r.translate d).isZeroSized = r.isZeroSized := rfl

theorem bottomRight_translate (r : Rect) (d : Pt) :
    (r.translate d).bottomRight = r.bottomRight.map (fun p => p + d) := by
  unfold bottomRight
  simp only [translate_size, translate_tl]
  by_cases h : r.size.w > 0 ∧ r.size.h > 0
  · simp only [h, and_self, ↓reduceIte, Option.map_some, Option.some.injEq]
    rw [Pt.ext_iff']; simp only [Pt.add_x, Pt.add_y]; omega
  · simp only [h, ↓reduceIte, Option.map_none]

theorem center_translate (r : Rect) (d : Pt) : (r.translate d).center = r.center + d := by
  unfold center
  rw [Pt.ext_iff']
  simp only [translate_tl, translate_size, Pt.add_x, Pt.add_y]
  omega

theorem withCenter_translate (c d : Pt) (s : Sz) :
    withCenter (c + d) s = (withCenter c s).translate d := by
  simp only [withCenter, translate, Rect.mk.injEq, and_true]
  rw [Pt.ext_iff']; simp only [Pt.add_x, Pt.add_y]; omega

/-- `offset` (grow / shrink about the centre) commutes with translation, for every offset. -/
theorem offset_translate (r : Rect) (d : Pt) (n : Int) :
    (r.translate d).offset n = (r.offset n).translate d := by
  unfold offset
  by_cases h : n ≥ 0
  · simp only [h, ↓reduceIte, translate_size, translate, Rect.mk.injEq, and_true]
    rw [Pt.ext_iff']; simp only [Pt.add_x, Pt.add_y, Pt.sub_x, Pt.sub_y]; omega
  · simp only [h, ↓reduceIte, translate_size, center_translate, withCenter_translate]

theorem withCorners_translate (a b d : Pt) :
    withCorners (a + d) (b + d) = (withCorners a b).translate d := by
  simp only [withCorners, translate, Rect.mk.injEq, Sz.mk.injEq, Pt.add_x, Pt.add_y]
  refine ⟨?_, ?_, ?_⟩
  · rw [Pt.ext_iff']; simp only [Pt.add_x, Pt.add_y]; omega
  · omega
  · omega

theorem overlaps_shift (f0 f1 s0 s1 d : Int) :
    overlaps (f0 + d) (f1 + d) (s0 + d) (s1 + d) = overlaps f0 f1 s0 s1 := by
  unfold overlaps
  rw [Bool.eq_iff_iff]
  simp only [decide_eq_true_eq]
  omega

/-- The common points of two moved rectangles are the moved common points. -/
theorem intersection_translate_contains (a b : Rect) (d p : Pt) :
    ((a.translate d).intersection (b.translate d)).contains (p + d) =
      (a.intersection b).contains p := by
  rw [Bool.eq_iff_iff, mem_intersection, mem_intersection, contains_translate, contains_translate]

/-- `intersection` itself commutes with translation whenever it returns one of its computed
rectangles; in the arms that return `Rectangle::zero()` (no common point) it returns
`Rectangle::zero()` for the moved pair as well — `zero()` is at the origin and does not move. -/
theorem intersection_translate (a b : Rect) (d : Pt) :
    (a.translate d).intersection (b.translate d) = (a.intersection b).translate d ∨
    ((a.translate d).intersection (b.translate d) = zero ∧ a.intersection b = zero) := by
  unfold intersection
  rw [bottomRight_translate, bottomRight_translate]
  cases hb : b.bottomRight <;> cases ha : a.bottomRight <;> simp only [Option.map_some, Option.map_none]
  · simp
  · have hc : (a.translate d).contains (b.translate d).tl = a.contains b.tl := by
      rw [translate_tl, contains_translate]
    rw [hc]
    cases a.contains b.tl
    · right; exact ⟨rfl, rfl⟩
    · left; rfl
  · have hc : (b.translate d).contains (a.translate d).tl = b.contains a.tl := by
      rw [translate_tl, contains_translate]
    rw [hc]
    cases b.contains a.tl
    · right; exact ⟨rfl, rfl⟩
    · left; rfl
  · rename_i obr sbr
    simp only [translate_tl, Pt.add_x, Pt.add_y, overlaps_shift]
    cases (overlaps a.tl.x sbr.x b.tl.x obr.x && overlaps a.tl.y sbr.y b.tl.y obr.y)
    · right; exact ⟨rfl, rfl⟩
    · left
      simp only [↓reduceIte]
      rw [← withCorners_translate]
      congr 1
      · rw [Pt.ext_iff']; simp only [Pt.componentMax, Pt.add_x, Pt.add_y]; omega
      · rw [Pt.ext_iff']; simp only [Pt.componentMin, Pt.add_x, Pt.add_y]; omega

/-- `points()` of the moved rectangle are the moved points, in the same order (both rectangles
within the `i32` range, where `rows()`/`columns()` do not saturate). -/
theorem pointsSpec_translate (r : Rect) (d : Pt) (h : r.InRange) (h' : (r.translate d).InRange) :
    (r.translate d).pointsSpec = r.pointsSpec.map (fun p => p + d) := by
  unfold pointsSpec
  rw [isZeroSized_translate]
  by_cases hz : r.isZeroSized = true
  · simp [hz]
  · simp only [hz, Bool.false_eq_true, ↓reduceIte]
    have hr := rowsEnd_eq h
    have hc := columnsEnd_eq h
    have hr' := rowsEnd_eq h'
    have hc' := columnsEnd_eq h'
    unfold rowsEnd at hr hr'; unfold columnsEnd at hc hc'
    simp only [translate_tl, translate_size, Pt.add_x, Pt.add_y] at hr' hc'
    simp only [rows, columns, hr, hc, hr', hc', translate_tl, translate_size, Pt.add_x, Pt.add_y]
    have e1 : r.tl.y + d.y + ↑r.size.h = (r.tl.y + ↑r.size.h) + d.y := by omega
    have e2 : r.tl.x + d.x + ↑r.size.w = (r.tl.x + ↑r.size.w) + d.x := by omega
    rw [e1, e2, irange_shift, irange_shift]
    simp only [List.flatMap_map, List.map_flatMap, List.map_map]
    rfl

theorem points_translate (r : Rect) (d : Pt) (h : r.InRange) (h' : (r.translate d).InRange) :
    (r.translate d).points = r.points.map (fun p => p + d) := by
  rw [points_eq_spec, points_eq_spec, pointsSpec_translate r d h h']

end Rect
end EG
