/-
  EG.Lemmas.RawBitsT4 — byte-level get/set law for 4 bit(s) per pixel, both data orders, by kernel
  evaluation over the whole domain (see RawBitsDef.lean).
-/
import EG.Lemmas.RawBitsDef
namespace EG.Raw

theorem byteLaw_4_le : byteLawCheck 4 .le = true := by decide +kernel
theorem byteLaw_4_be : byteLawCheck 4 .be = true := by decide +kernel

end EG.Raw
