/-
  EG.Lemmas.LinePoints — `Line::points()` (state machine) = closed form
  `(List.range n).map (ptAt l)`.
-/
import EG.Lemmas.Line
namespace EG
namespace Line

/-- Point returned by call `k` of a Bresenham walk from `s` (generic parameters). -/
def ptAtG (s pmaj pmin : Pt) (dmaj dmin : Int) (k : Nat) : Pt :=
  ⟨s.x + (k : Int) * pmaj.x + mAt dmaj dmin k * pmin.x,
   s.y + (k : Int) * pmaj.y + mAt dmaj dmin k * pmin.y⟩

theorem succ_mul' (k : Nat) (a : Int) : ((k + 1 : Nat) : Int) * a = (k : Int) * a + a := by
  rw [Int.natCast_succ, Int.add_mul, Int.one_mul]

theorem toListFuel_closed (P : BresenhamParameters) (s : Pt) (dmaj dmin : Int)
    (hT : P.errorThreshold = dmaj) (hM : P.errorStep.major = 2 * dmin)
    (hm : P.errorStep.minor = 2 * dmaj) :
    ∀ (fuel k : Nat) (b : Bresenham),
      b.point = ⟨s.x + (k : Int) * P.positionStep.major.x + mPre dmaj dmin k * P.positionStep.minor.x,
                 s.y + (k : Int) * P.positionStep.major.y + mPre dmaj dmin k * P.positionStep.minor.y⟩ →
      b.error = 2 * (dmin * (k : Int) - dmaj * mPre dmaj dmin k) →
      PointsIt.toListFuel fuel ⟨P, b, fuel⟩ =
        (List.range' k fuel).map (ptAtG s P.positionStep.major P.positionStep.minor dmaj dmin) := by
  intro fuel
  induction fuel with
  | zero => intro k b _ _; simp [PointsIt.toListFuel]
  | succ fuel ih =>
    intro k b hp he
    obtain ⟨bp, be⟩ := b
    simp only at hp he
    subst hp he
    rw [List.range'_succ, List.map_cons]
    unfold PointsIt.toListFuel
    simp only [PointsIt.next, Nat.zero_lt_succ, ↓reduceIte, Bresenham.next, hT, hM, hm,
      Nat.add_sub_cancel]
    rcases bump_cases dmaj dmin k (mPre dmaj dmin k) with ⟨hc, hb⟩ | ⟨hc, hb⟩
    · simp only [hc, ↓reduceIte]
      have hmk : mAt dmaj dmin k = mPre dmaj dmin k + 1 := hb
      congr 1
      · simp only [ptAtG, hmk, Pt.ext_iff', Pt.add_x, Pt.add_y, Int.add_mul, Int.one_mul]
        refine ⟨?_, ?_⟩ <;> omega
      · apply ih (k + 1)
        · simp only [mPre_succ, hmk, Pt.ext_iff', Pt.add_x, Pt.add_y, Int.add_mul, Int.one_mul,
            succ_mul']
          refine ⟨?_, ?_⟩ <;> omega
        · simp only [mPre_succ, hmk, Int.mul_add, Int.mul_one, Int.natCast_succ]
          omega
    · have hc' : ¬ (2 * (dmin * (k : Int) - dmaj * mPre dmaj dmin k) > dmaj) := by omega
      simp only [hc', ↓reduceIte]
      have hmk : mAt dmaj dmin k = mPre dmaj dmin k := hb
      congr 1
      · simp only [ptAtG, hmk]
      · apply ih (k + 1)
        · simp only [mPre_succ, hmk, Pt.ext_iff', Pt.add_x, Pt.add_y, succ_mul']
          refine ⟨?_, ?_⟩ <;> omega
        · simp only [mPre_succ, hmk, Int.mul_add, Int.mul_one, Int.natCast_succ]
          omega

end Line
end EG

namespace EG
namespace Line

/-! ## The parameters of a concrete line -/

def aabs (a : Int) : Int := if a < 0 then -a else a
def sgn (a : Int) : Int := if a ≥ 0 then 1 else -1
def dxOf (l : Line) : Int := l.stop.x - l.start.x
def dyOf (l : Line) : Int := l.stop.y - l.start.y
/-- The y axis is the major axis (the tie `|dy| = |dx|` counts as y-major, as in the code). -/
def yMajor (l : Line) : Prop := aabs (dyOf l) ≥ aabs (dxOf l)
instance (l : Line) : Decidable (yMajor l) :=
  inferInstanceAs (Decidable (aabs (dyOf l) ≥ aabs (dxOf l)))
def dmaj (l : Line) : Int := if yMajor l then aabs (dyOf l) else aabs (dxOf l)
def dmin (l : Line) : Int := if yMajor l then aabs (dxOf l) else aabs (dyOf l)
def pmaj (l : Line) : Pt := if yMajor l then ⟨0, sgn (dyOf l)⟩ else ⟨sgn (dxOf l), 0⟩
def pmin (l : Line) : Pt := if yMajor l then ⟨sgn (dxOf l), 0⟩ else ⟨0, sgn (dyOf l)⟩

/-- The point returned by the `k`-th call of `next` (k = 0, 1, ..). -/
def ptAt (l : Line) (k : Nat) : Pt := ptAtG l.start (pmaj l) (pmin l) (dmaj l) (dmin l) k

theorem params_new (l : Line) :
    BresenhamParameters.new l = ⟨dmaj l, ⟨2 * dmin l, 2 * dmaj l⟩, ⟨pmaj l, pmin l⟩⟩ := by
  unfold BresenhamParameters.new dmaj dmin pmaj pmin
  by_cases h : yMajor l
  · have h' : (l.stop - l.start).abs.y ≥ (l.stop - l.start).abs.x := h
    simp only [h, ↓reduceIte]
    rw [if_pos h']
    rfl
  · have h' : ¬ (l.stop - l.start).abs.y ≥ (l.stop - l.start).abs.x := h
    simp only [h, ↓reduceIte]
    rw [if_neg h']
    rfl

theorem dmin_nonneg (l : Line) : 0 ≤ dmin l := by
  unfold dmin aabs; omega
theorem dmin_le_dmaj (l : Line) : dmin l ≤ dmaj l := by
  unfold dmin dmaj
  by_cases h : yMajor l
  · simp only [h, ↓reduceIte]; exact h
  · simp only [h, ↓reduceIte]; unfold yMajor at h; omega
theorem dmaj_nonneg (l : Line) : 0 ≤ dmaj l := by
  have := dmin_nonneg l; have := dmin_le_dmaj l; omega

theorem majorLength_eq (l : Line) : majorLength l = (dmaj l).toNat + 1 := by
  unfold majorLength dmaj yMajor aabs dxOf dyOf
  simp only [Pt.abs, Pt.sub_x, Pt.sub_y]
  omega

/-- `Line::points()` in closed form. -/
theorem points_eq (l : Line) : points l = (List.range ((dmaj l).toNat + 1)).map (ptAt l) := by
  unfold points PointsIt.toList pointsIt
  simp only [majorLength_eq, params_new]
  rw [toListFuel_closed _ l.start (dmaj l) (dmin l) rfl rfl rfl _ 0]
  · rw [List.range_eq_range']; rfl
  · simp [Bresenham.new, mPre]
  · simp [Bresenham.new, mPre]

theorem points_length' (l : Line) : (points l).length = (dmaj l).toNat + 1 := by
  rw [points_eq]; simp

theorem points_getElem (l : Line) (i : Nat) (h : i < (points l).length) :
    (points l)[i] = ptAt l i := by
  simp [points_eq]

theorem mem_points {l : Line} {p : Pt} :
    p ∈ points l ↔ ∃ k : Nat, (k : Int) ≤ dmaj l ∧ p = ptAt l k := by
  rw [points_eq]
  simp only [List.mem_map, List.mem_range]
  have := dmaj_nonneg l
  constructor
  · rintro ⟨k, hk, rfl⟩; exact ⟨k, by omega, rfl⟩
  · rintro ⟨k, hk, rfl⟩; exact ⟨k, by omega, rfl⟩

end Line
end EG
