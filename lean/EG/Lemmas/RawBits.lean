/-
  EG.Lemmas.RawBits — the byte-level get/set law of the sub-byte raw types, read back from the
  kernel-evaluated tables (RawBitsT1/T2/T4) as a quantified statement.
-/
import EG.Lemmas.RawBitsT1
import EG.Lemmas.RawBitsT2
import EG.Lemmas.RawBitsT4
namespace EG.Raw

/-- The sub-byte depths. -/
def subByte (bits : Nat) : Prop := bits = 1 ∨ bits = 2 ∨ bits = 4
instance (bits : Nat) : Decidable (subByte bits) := by unfold subByte; exact inferInstance

theorem byteLaw (bits : Nat) (o : Order) (h : subByte bits) : byteLawCheck bits o = true := by
  rcases h with rfl | rfl | rfl <;> cases o
  · exact byteLaw_1_le
  · exact byteLaw_1_be
  · exact byteLaw_2_le
  · exact byteLaw_2_be
  · exact byteLaw_4_le
  · exact byteLaw_4_be

/-- The table, read back as a quantified statement. -/
theorem byteLaw_spec {bits : Nat} {o : Order} (h : subByte bits) {b k v : Nat}
    (hb : b < 256) (hk : k < 8 / bits) (hv : v < 2 ^ bits) :
    storeByte bits (slotShift bits o k) v b < 256 ∧
    loadByte bits (slotShift bits o k) (storeByte bits (slotShift bits o k) v b) = v ∧
    (∀ k', k' < 8 / bits → k' ≠ k →
      loadByte bits (slotShift bits o k') (storeByte bits (slotShift bits o k) v b)
        = loadByte bits (slotShift bits o k') b) ∧
    (∀ p, p < 8 →
      (storeByte bits (slotShift bits o k) v b).testBit p =
        if slotShift bits o k ≤ p ∧ p < slotShift bits o k + bits then v.testBit (p - slotShift bits o k)
        else b.testBit p) := by
  have := byteLaw bits o h
  unfold byteLawCheck at this
  simp only [List.all_eq_true, List.mem_range, Bool.and_eq_true, decide_eq_true_eq, beq_iff_eq,
    Bool.or_eq_true] at this
  obtain ⟨⟨⟨h1, h2⟩, h3⟩, h4⟩ := this b hb k hk v hv
  refine ⟨h1, h2, ?_, ?_⟩
  · intro k' hk' hne
    rcases h3 k' hk' with h | h
    · exact absurd h hne
    · exact h
  · intro p hp
    have := h4 p hp
    split at this <;> rename_i hc
    · rw [if_pos hc]; exact (beq_iff_eq.mp this)
    · rw [if_neg hc]; exact (beq_iff_eq.mp this)

end EG.Raw
