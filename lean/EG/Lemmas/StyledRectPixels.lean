/-
  EG.Lemmas.StyledRectPixels — the `StyledPixelsIterator` state machine equals its closed form:
  `pixelsList = pixelsSpec` (the points of the stroke area mapped through the colour choice,
  colourless points skipped).
-/
import EG.Model.StyledRect
import EG.Lemmas.RectPoints
namespace EG

namespace Rect

theorem PointsIt.rest_length_lt_budget (it : PointsIt) : it.rest.length < it.budget := by
  unfold PointsIt.budget
  by_cases hy : it.y < it.yEnd
  · rw [PointsIt.rest_length _ hy]
    have h1 : (it.yEnd - it.y).toNat = (it.yEnd - (it.y + 1)).toNat + 1 := by omega
    rw [h1]
    have h2 : (it.yEnd - (it.y + 1)).toNat * (it.xEnd - it.xStart).toNat ≤
        ((it.yEnd - (it.y + 1)).toNat + 1) * ((it.xEnd - it.xStart).toNat + 1) :=
      Nat.mul_le_mul (Nat.le_succ _) (Nat.le_succ _)
    omega
  · simp [PointsIt.rest, hy]

/-- `points()` is the closed form of the initial iterator state. -/
theorem points_eq_rest (r : Rect) : r.points = r.pointsIt.rest := by
  unfold points
  apply PointsIt.toListFuel_eq
  unfold pointsIt
  by_cases hz : r.isZeroSized = true
  · simp [hz, PointsIt.rest, PointsIt.empty]
  · simp only [hz, Bool.false_eq_true, ↓reduceIte]
    by_cases hy : r.tl.y < r.rowsEnd
    · rw [PointsIt.rest_length _ hy]
      dsimp only
      have : (r.rowsEnd - r.tl.y).toNat = (r.rowsEnd - (r.tl.y + 1)).toNat + 1 := by omega
      rw [this, Nat.succ_mul]; omega
    · simp [PointsIt.rest, hy]

theorem PointsIt.empty_rest : PointsIt.empty.rest = [] := by
  simp [PointsIt.rest, PointsIt.empty]

end Rect

namespace StyledRect
open Rect

/-- The loop body as a partial function on points. -/
def PixelsIt.pixelAt (it : PixelsIt) (p : Pt) : Option (Pt × Color) :=
  match it.colorAt p with
  | some c => some (p, c)
  | none => none

/-- Closed form of what the iterator state still has to yield. -/
def PixelsIt.rest (it : PixelsIt) : Writes := it.iter.rest.filterMap it.pixelAt

theorem PixelsIt.nextFuel_spec : ∀ (fuel : Nat) (it : PixelsIt), it.iter.rest.length < fuel →
    match it.nextFuel fuel with
    | some (w, it') => it.rest = w :: it'.rest ∧ it'.iter.rest.length < it.iter.rest.length
    | none => it.rest = [] := by
  intro fuel
  induction fuel with
  | zero => intro it h; omega
  | succ fuel ih =>
    intro it h
    unfold PixelsIt.nextFuel
    have hn := it.iter.next_spec
    cases hnx : it.iter.next with
    | none =>
      rw [hnx] at hn
      simp only at hn ⊢
      simp [PixelsIt.rest, hn]
    | some pi =>
      obtain ⟨p, iter'⟩ := pi
      rw [hnx] at hn
      simp only at hn ⊢
      cases hc : it.colorAt p with
      | some c =>
        simp only
        refine ⟨?_, ?_⟩
        · simp only [PixelsIt.rest, hn, List.filterMap_cons, PixelsIt.pixelAt, hc]
          rfl
        · rw [hn]; simp
      | none =>
        simp only
        have hlen : iter'.rest.length < fuel := by rw [hn] at h; simpa using h
        have := ih { it with iter := iter' } hlen
        have hrest : it.rest = ({ it with iter := iter' } : PixelsIt).rest := by
          simp only [PixelsIt.rest, hn, List.filterMap_cons, PixelsIt.pixelAt, hc]
          rfl
        rw [hrest]
        cases hnf : PixelsIt.nextFuel fuel { it with iter := iter' } with
        | none => rw [hnf] at this; exact this
        | some wi =>
          obtain ⟨w, it'⟩ := wi
          rw [hnf] at this
          simp only at this ⊢
          refine ⟨this.1, ?_⟩
          have := this.2
          rw [hn]
          simp only [List.length_cons]
          omega

theorem PixelsIt.next_spec (it : PixelsIt) :
    match it.next with
    | some (w, it') => it.rest = w :: it'.rest ∧ it'.iter.rest.length < it.iter.rest.length
    | none => it.rest = [] :=
  PixelsIt.nextFuel_spec _ it it.iter.rest_length_lt_budget

theorem PixelsIt.toListFuel_eq : ∀ (fuel : Nat) (it : PixelsIt), it.iter.rest.length < fuel →
    it.toListFuel fuel = it.rest := by
  intro fuel
  induction fuel with
  | zero => intro it h; omega
  | succ fuel ih =>
    intro it h
    unfold PixelsIt.toListFuel
    have := it.next_spec
    cases hnx : it.next with
    | none => rw [hnx] at this; exact this.symm
    | some wi =>
      obtain ⟨w, it'⟩ := wi
      rw [hnx] at this
      simp only at this ⊢
      rw [this.1, ih it' (by omega)]

/-- **The `StyledPixelsIterator` yields exactly its closed form**, for every rectangle and style. -/
theorem pixelsList_eq_spec (s : Style) (r : Rect) : pixelsList s r = pixelsSpec s r := by
  unfold pixelsList pixelsSpec
  simp only
  rw [PixelsIt.toListFuel_eq _ _ (pixelsIt s r).iter.rest_length_lt_budget]
  unfold PixelsIt.rest pixelsIt
  have hf : ∀ (it : PointsIt),
      PixelsIt.pixelAt { iter := it, strokeColor := s.stroke, fillArea := fillArea s r, fillColor := s.fill }
        = pixelOf s r := by
    intro it
    funext p
    simp only [PixelsIt.pixelAt, PixelsIt.colorAt, pixelOf]
    rfl
  simp only [hf]
  by_cases ht : s.isTransparent = true
  · simp [ht, PointsIt.empty_rest]
  · have ht' : s.isTransparent = false := by simpa using ht
    simp only [ht', Bool.not_false, ↓reduceIte, points_eq_rest]

end StyledRect
end EG
