/-
  EG.Lemmas.ImageRawDraw — the colour stream `ImageRaw::draw` / `draw_sub_image` hand to
  `fill_contiguous`: for a buffer accepted by `new` it is exactly the `width * height` pixels of
  the area, row-major.
-/
import EG.Lemmas.ImageRawStream
namespace EG.Img
open EG EG.Raw

theorem originRect_inRange {sz : Sz} (hw : sz.w ≤ 2147483647) (hh : sz.h ≤ 2147483647) :
    (⟨Pt.zero, sz⟩ : Rect).InRange := by
  unfold Rect.InRange inI32; simp only [Pt.zero]; omega

/-- `pointsSpec` of a box at the origin, mapped. -/
theorem pointsSpec_origin_map {β : Type} {sz : Sz} (hw : sz.w ≤ 2147483647) (hh : sz.h ≤ 2147483647)
    (F : Pt → β) :
    (Rect.pointsSpec ⟨Pt.zero, sz⟩).map F =
      if sz.w > 0 ∧ sz.h > 0 then
        (irange 0 (0 + (sz.h : Int))).flatMap (fun y => (irange 0 (0 + (sz.w : Int))).map (fun x => F ⟨x, y⟩))
      else [] := by
  have hr : satAddI32 0 (satAsI32 sz.h) = 0 + (sz.h : Int) := by
    unfold satAddI32 satAsI32; split <;> split <;> (try split) <;> omega
  have hc : satAddI32 0 (satAsI32 sz.w) = 0 + (sz.w : Int) := by
    unfold satAddI32 satAsI32; split <;> split <;> (try split) <;> omega
  unfold Rect.pointsSpec Rect.rows Rect.columns
  simp only [Pt.zero, hr, hc]
  by_cases hz : sz.w > 0 ∧ sz.h > 0
  · have hnz : (⟨⟨0, 0⟩, sz⟩ : Rect).isZeroSized = false := by
      cases h : (⟨⟨0, 0⟩, sz⟩ : Rect).isZeroSized with
      | false => rfl
      | true => rw [Rect.isZeroSized_iff] at h; simp only at h; omega
    simp only [hnz, hz, and_self, ↓reduceIte, Bool.false_eq_true, List.map_flatMap, List.map_map]
    rfl
  · have hnz : (⟨⟨0, 0⟩, sz⟩ : Rect).isZeroSized = true := by
      rw [Rect.isZeroSized_iff]; simp only; omega
    simp only [hnz, hz, ↓reduceIte, List.map_nil]

namespace ImageRaw

/-- The stream made for an area `(ax, ay) + sz` inside the image: its pixels, row-major. -/
theorem stream_eq {im : ImageRaw} (hw : im.WF) (ax ay : Nat) (sz : Sz)
    (hx : ax + sz.w ≤ im.size.w) (hy : ay + sz.h ≤ im.size.h)
    (hi : ay * im.dataWidth + ax ≤ pixelCount im.bits im.data.length) :
    ((CP.new im sz (ay * im.dataWidth + ax) (im.dataWidth - sz.w)).toList).map some =
      (Rect.pointsSpec ⟨Pt.zero, sz⟩).map (fun p => im.pixel ((⟨ax, ay⟩ : Pt) + p)) := by
  have hwi := hw.wI32
  have hhi := hw.hI32
  rw [CP.new_toList im hw.bits hw.fits sz _ _ hi, pointsSpec_origin_map (by omega) (by omega)]
  by_cases hz : sz.w > 0 ∧ sz.h > 0
  · simp only [hz, and_self, ↓reduceIte]
    have hdw := width_le_dataWidth hw.bits
    have hst : sz.w + (im.dataWidth - sz.w) = im.dataWidth := by omega
    rw [hst]
    -- every index read lies inside the buffer
    have hin : ∀ r j, r < sz.h → j < sz.w →
        ay * im.dataWidth + ax + r * im.dataWidth + j = (ax + j) + (ay + r) * im.dataWidth := by
      intro r j _ _; rw [Nat.add_mul]; omega
    rw [somePrefix_map_some]
    · apply rowsFrom_map
      intro r j hr hj
      rw [pixel_eq hw]
      have hc : im.boundingBox.contains ((⟨ax, ay⟩ : Pt) + ⟨0 + (j : Int), 0 + (r : Int)⟩) = true := by
        rw [contains_boundingBox]; simp only [Pt.add_x, Pt.add_y]; omega
      simp only [hc, ↓reduceIte, Pt.add_x, Pt.add_y]
      have e1 : ((ax : Int) + (0 + (j : Int))).toNat = ax + j := by omega
      have e2 : ((ay : Int) + (0 + (r : Int))).toNat = ay + r := by omega
      rw [e1, e2, hin r j hr hj]
    · intro x hx'
      rw [List.mem_map] at hx'
      obtain ⟨k, hk, rfl⟩ := hx'
      obtain ⟨r, j, hr, hj, rfl⟩ := rowsFrom_mem _ _ _ hk
      rw [hin r j hr hj, Ne, load_eq_none_iff hw.bits]
      have := index_lt hw (x := ax + j) (y := ay + r) (by omega) (by omega)
      omega
  · simp only [hz, ↓reduceIte, List.map_nil, somePrefix]

theorem stream_length {im : ImageRaw} (hw : im.WF) (ax ay : Nat) (sz : Sz)
    (hx : ax + sz.w ≤ im.size.w) (hy : ay + sz.h ≤ im.size.h)
    (hi : ay * im.dataWidth + ax ≤ pixelCount im.bits im.data.length) :
    ((CP.new im sz (ay * im.dataWidth + ax) (im.dataWidth - sz.w)).toList).length = sz.w * sz.h := by
  have h := congrArg List.length (stream_eq hw ax ay sz hx hy hi)
  rw [List.length_map, List.length_map, ← Rect.points_eq_spec,
    Rect.points_length (originRect_inRange (by have := hw.wI32; omega) (by have := hw.hI32; omega))] at h
  exact h

/-- `draw_sub_image` accepts exactly the non-empty areas that lie inside the image. -/
def Accepts (im : ImageRaw) (a : Rect) : Prop :=
  0 < a.size.w ∧ 0 < a.size.h ∧ 0 ≤ a.tl.x ∧ 0 ≤ a.tl.y ∧
    a.tl.x + a.size.w ≤ im.size.w ∧ a.tl.y + a.size.h ≤ im.size.h

instance (im : ImageRaw) (a : Rect) : Decidable (im.Accepts a) := by unfold Accepts; exact inferInstance

theorem drawSubImage_reject {im : ImageRaw} {a : Rect} (h : ¬ im.Accepts a) : im.drawSubImage a = [] := by
  unfold drawSubImage
  have : a.isZeroSized = true ∨ a.tl.x < 0 ∨ a.tl.y < 0 ∨ a.tl.x.toNat + a.size.w > im.size.w ∨
      a.tl.y.toNat + a.size.h > im.size.h := by
    unfold Accepts at h
    by_cases hz : a.isZeroSized = true
    · exact Or.inl hz
    · rw [Rect.isZeroSized_iff] at hz; omega
  simp only [this, ↓reduceIte]

/-- An accepted area is drawn by one `fill_contiguous` of the origin box of its size with exactly
its `width * height` pixels, row-major. -/
theorem drawSubImage_accept {im : ImageRaw} (hw : im.WF) {a : Rect} (h : im.Accepts a) :
    ∃ cs, im.drawSubImage a = [Call.fillContiguous ⟨Pt.zero, a.size⟩ cs] ∧
      cs.map some = (Rect.pointsSpec ⟨Pt.zero, a.size⟩).map (fun p => im.pixel (a.tl + p)) ∧
      cs.length = a.size.w * a.size.h := by
  obtain ⟨h1, h2, h3, h4, h5, h6⟩ := h
  unfold drawSubImage
  have hn : ¬ (a.isZeroSized = true ∨ a.tl.x < 0 ∨ a.tl.y < 0 ∨ a.tl.x.toNat + a.size.w > im.size.w ∨
      a.tl.y.toNat + a.size.h > im.size.h) := by
    rw [Rect.isZeroSized_iff]; omega
  simp only [hn, ↓reduceIte]
  have hx : a.tl.x.toNat + a.size.w ≤ im.size.w := by omega
  have hy : a.tl.y.toNat + a.size.h ≤ im.size.h := by omega
  have hi : a.tl.y.toNat * im.dataWidth + a.tl.x.toNat ≤ pixelCount im.bits im.data.length := by
    have := index_lt hw (x := a.tl.x.toNat) (y := a.tl.y.toNat) (by omega) (by omega)
    omega
  refine ⟨_, rfl, ?_, stream_length hw _ _ _ hx hy hi⟩
  rw [stream_eq hw _ _ _ hx hy hi]
  have : (⟨(a.tl.x.toNat : Int), (a.tl.y.toNat : Int)⟩ : Pt) = a.tl := by
    rw [Pt.ext_iff']; simp only; omega
  rw [this]

/-- The whole image is drawn by one `fill_contiguous` of its bounding box with exactly its
`width * height` pixels, row-major. -/
theorem draw_eq {im : ImageRaw} (hw : im.WF) :
    ∃ cs, im.draw = [Call.fillContiguous im.boundingBox cs] ∧
      cs.map some = im.boundingBox.pointsSpec.map im.pixel ∧
      cs.length = im.size.w * im.size.h := by
  unfold draw
  have e : (0 : Nat) * im.dataWidth + 0 = 0 := by omega
  have h1 := stream_eq hw 0 0 im.size (by omega) (by omega) (by omega)
  have h2 := stream_length hw 0 0 im.size (by omega) (by omega) (by omega)
  rw [e] at h1 h2
  refine ⟨_, rfl, ?_, h2⟩
  rw [h1]
  unfold boundingBox
  apply List.map_congr_left
  intro p _
  congr 1
  rw [Pt.ext_iff']; simp

end ImageRaw
end EG.Img
