/-
  EG.Lemmas.SineTable — accuracy of the 91-entry `SIN` table of the `fixed_point` build against the
  REAL sine: `|SIN[k] - 65536 * Real.sin (k * π / 180)| <= 1/2` for `k = 0..90`, i.e. every entry is
  the correctly rounded value (the largest deviation is 0.4954 at 83 degrees).

  Method: certified interval arithmetic in integers scaled by `M = 2^40`.
    * base: `sin 1°` from `Real.sin_bound` (`|sin x - (x - x^3/6)| <= |x|^5 / 100`) and Mathlib's 20
      decimals of π; `cos 1° = 1 - 2 sin^2 (1/2)°` from the same bound at half a degree;
    * step: the addition formulas `sin (a + 1°)`, `cos (a + 1°)` on intervals with non-negative end
      points (first quadrant), rounded outward to multiples of `1/M` (`step_valid`);
    * `iter k` = `k` steps from `(sin 0, cos 0) = (0, 1)`; `valid_iter` by induction;
    * the comparison of `iter k` with the table entry is a finite check (`decide +kernel`).
  The interval widths stay below `5511 / 2^40` (3.3e-4 of a table unit).

  This is the only file of the project that imports Mathlib's analysis library (`Real.sin`, π); nothing
  but EG/Props/C18/SineTable.lean depends on it.
-/
import Mathlib.Analysis.Real.Pi.Bounds
import EG.Generated.TrigTable
namespace EG.SineTable
open Real EG.Generated

/-! ### Taylor bounds at small angles -/

theorem sin_small_bounds {x xl xh : ℝ} (h0 : 0 ≤ xl) (h1 : xl ≤ x) (h2 : x ≤ xh) (h3 : xh ≤ 1) (hx : 0 < x) :
    xl - xh ^ 3 / 6 - xh ^ 5 / 100 ≤ sin x ∧ sin x ≤ xh - xl ^ 3 / 6 + xh ^ 5 / 100 := by
  have hb := Real.sin_bound (x := x) (by rw [abs_of_pos hx]; linarith)
  rw [abs_of_pos hx, abs_le] at hb
  have p3l : xl ^ 3 ≤ x ^ 3 := pow_le_pow_left₀ h0 h1 3
  have p3h : x ^ 3 ≤ xh ^ 3 := pow_le_pow_left₀ hx.le h2 3
  have p5h : x ^ 5 ≤ xh ^ 5 := pow_le_pow_left₀ hx.le h2 5
  constructor <;> linarith [hb.1, hb.2]

/-- `sin 1°`, scaled by `2^40`. -/
theorem sin_one_deg :
    (19189123777 : ℝ) ≤ 1099511627776 * sin (π / 180) ∧ 1099511627776 * sin (π / 180) ≤ 19189123814 := by
  have hl := Real.pi_gt_d20
  have hh := Real.pi_lt_d20
  have h := sin_small_bounds (x := π / 180) (xl := 3.14159265358979323846 / 180)
    (xh := 3.14159265358979323847 / 180) (by norm_num) (by linarith) (by linarith) (by norm_num) (by positivity)
  constructor
  · have : (19189123777 : ℝ) ≤ 1099511627776 * (3.14159265358979323846 / 180 -
        (3.14159265358979323847 / 180) ^ 3 / 6 - (3.14159265358979323847 / 180) ^ 5 / 100) := by norm_num
    linarith [h.1]
  · have : 1099511627776 * (3.14159265358979323847 / 180 -
        (3.14159265358979323846 / 180) ^ 3 / 6 + (3.14159265358979323847 / 180) ^ 5 / 100) ≤ (19189123814 : ℝ) := by
      norm_num
    linarith [h.2]

/-- `sin (1/2)°` to 18 decimals. -/
theorem sin_half_deg :
    (0.008726535497446084613672 : ℝ) ≤ sin (π / 360) ∧ sin (π / 360) ≤ 0.008726535498458285831074 := by
  have hl := Real.pi_gt_d20
  have hh := Real.pi_lt_d20
  have h := sin_small_bounds (x := π / 360) (xl := 3.14159265358979323846 / 360)
    (xh := 3.14159265358979323847 / 360) (by norm_num) (by linarith) (by linarith) (by norm_num) (by positivity)
  constructor
  · have : (0.008726535497446084613672 : ℝ) ≤ 3.14159265358979323846 / 360 -
        (3.14159265358979323847 / 360) ^ 3 / 6 - (3.14159265358979323847 / 360) ^ 5 / 100 := by norm_num
    linarith [h.1]
  · have : 3.14159265358979323847 / 360 -
        (3.14159265358979323846 / 360) ^ 3 / 6 + (3.14159265358979323847 / 360) ^ 5 / 100 ≤
        (0.008726535498458285831074 : ℝ) := by norm_num
    linarith [h.2]

/-- `cos 1° = 1 - 2 sin^2 (1/2)°`, scaled by `2^40`. -/
theorem cos_one_deg :
    (1099344166829 : ℝ) ≤ 1099511627776 * cos (π / 180) ∧ 1099511627776 * cos (π / 180) ≤ 1099344166830 := by
  have e : π / 180 = 2 * (π / 360) := by ring
  rw [e, cos_two_mul, cos_sq']
  obtain ⟨ha, hb⟩ := sin_half_deg
  have h1 : sin (π / 360) ^ 2 ≤ (0.008726535498458285831074 : ℝ) ^ 2 :=
    pow_le_pow_left₀ (by linarith) hb 2
  have h2 : (0.008726535497446084613672 : ℝ) ^ 2 ≤ sin (π / 360) ^ 2 :=
    pow_le_pow_left₀ (by norm_num) ha 2
  constructor
  · have : (1099344166829 : ℝ) ≤ 1099511627776 * (2 * (1 - (0.008726535498458285831074 : ℝ) ^ 2) - 1) := by
      norm_num
    linarith
  · have : 1099511627776 * (2 * (1 - (0.008726535497446084613672 : ℝ) ^ 2) - 1) ≤ (1099344166830 : ℝ) := by
      norm_num
    linarith

/-! ### interval arithmetic in integers scaled by `2^40` -/

/-- the scale -/
def M : Int := 1099511627776
def s1Lo : Int := 19189123777
def s1Hi : Int := 19189123814
def c1Lo : Int := 1099344166829
def c1Hi : Int := 1099344166830

/-- Enclosures `sLo/M <= sin a <= sHi/M`, `cLo/M <= cos a <= cHi/M`. -/
structure Iv where
  sLo : Int
  sHi : Int
  cLo : Int
  cHi : Int
  deriving DecidableEq, Repr

/-- One degree further (addition formulas, all end points non-negative), rounded outward. -/
def step (v : Iv) : Iv :=
  ⟨(v.sLo * c1Lo + v.cLo * s1Lo) / M, -((-(v.sHi * c1Hi + v.cHi * s1Hi)) / M),
   (v.cLo * c1Lo - v.sHi * s1Hi) / M, -((-(v.cHi * c1Hi - v.sLo * s1Lo)) / M)⟩

def iter : Nat → Iv
  | 0 => ⟨0, 0, M, M⟩
  | k + 1 => step (iter k)

def Valid (a : ℝ) (v : Iv) : Prop :=
  (v.sLo : ℝ) ≤ 1099511627776 * sin a ∧ 1099511627776 * sin a ≤ (v.sHi : ℝ) ∧
  (v.cLo : ℝ) ≤ 1099511627776 * cos a ∧ 1099511627776 * cos a ≤ (v.cHi : ℝ)

theorem floor_mul_le (x : Int) : ((x / M : Int) : ℝ) * 1099511627776 ≤ (x : ℝ) := by
  have h : x / M * M ≤ x := Int.ediv_mul_le x (by decide)
  have h' : ((x / M * M : Int) : ℝ) ≤ (x : ℝ) := by exact_mod_cast h
  have e : ((M : Int) : ℝ) = 1099511627776 := by unfold M; norm_num
  rw [Int.cast_mul, e] at h'
  exact h'

theorem le_ceil_mul (x : Int) : (x : ℝ) ≤ ((-((-x) / M) : Int) : ℝ) * 1099511627776 := by
  have h : x ≤ -((-x) / M) * M := by unfold M; omega
  have h' : (x : ℝ) ≤ ((-((-x) / M) * M : Int) : ℝ) := by exact_mod_cast h
  have e : ((M : Int) : ℝ) = 1099511627776 := by unfold M; norm_num
  rw [Int.cast_mul, e] at h'
  exact h'

theorem step_valid (a : ℝ) (v : Iv) (hv : Valid a v) (hs : 0 ≤ v.sLo) (hc : 0 ≤ v.cLo) :
    Valid (a + π / 180) (step v) := by
  obtain ⟨h1, h2, h3, h4⟩ := hv
  obtain ⟨p1, p2⟩ := sin_one_deg
  obtain ⟨q1, q2⟩ := cos_one_deg
  have hs' : (0 : ℝ) ≤ (v.sLo : ℝ) := by exact_mod_cast hs
  have hc' : (0 : ℝ) ≤ (v.cLo : ℝ) := by exact_mod_cast hc
  have es1l : ((s1Lo : Int) : ℝ) = 19189123777 := by unfold s1Lo; norm_num
  have es1h : ((s1Hi : Int) : ℝ) = 19189123814 := by unfold s1Hi; norm_num
  have ec1l : ((c1Lo : Int) : ℝ) = 1099344166829 := by unfold c1Lo; norm_num
  have ec1h : ((c1Hi : Int) : ℝ) = 1099344166830 := by unfold c1Hi; norm_num
  -- abbreviations
  set S := 1099511627776 * sin a with hS
  set C := 1099511627776 * cos a with hC
  set s := 1099511627776 * sin (π / 180) with hs1
  set c := 1099511627776 * cos (π / 180) with hc1
  have S0 : 0 ≤ S := le_trans hs' h1
  have C0 : 0 ≤ C := le_trans hc' h3
  have s0 : 0 ≤ s := le_trans (by norm_num) p1
  have c0 : 0 ≤ c := le_trans (by norm_num) q1
  have sH0 : (0 : ℝ) ≤ (v.sHi : ℝ) := le_trans S0 h2
  have cH0 : (0 : ℝ) ≤ (v.cHi : ℝ) := le_trans C0 h4
  -- products
  have m1 : (v.sLo : ℝ) * 1099344166829 ≤ S * c := mul_le_mul h1 q1 (by norm_num) S0
  have m2 : (v.cLo : ℝ) * 19189123777 ≤ C * s := mul_le_mul h3 p1 (by norm_num) C0
  have m3 : S * c ≤ (v.sHi : ℝ) * 1099344166830 := mul_le_mul h2 q2 c0 sH0
  have m4 : C * s ≤ (v.cHi : ℝ) * 19189123814 := mul_le_mul h4 p2 s0 cH0
  have m5 : (v.cLo : ℝ) * 1099344166829 ≤ C * c := mul_le_mul h3 q1 (by norm_num) C0
  have m6 : S * s ≤ (v.sHi : ℝ) * 19189123814 := mul_le_mul h2 p2 s0 sH0
  have m7 : C * c ≤ (v.cHi : ℝ) * 1099344166830 := mul_le_mul h4 q2 c0 cH0
  have m8 : (v.sLo : ℝ) * 19189123777 ≤ S * s := mul_le_mul h1 p1 (by norm_num) S0
  have idS : 1099511627776 * (sin a * cos (π / 180) + cos a * sin (π / 180)) * 1099511627776 = S * c + C * s := by
    rw [hS, hC, hs1, hc1]; ring
  have idC : 1099511627776 * (cos a * cos (π / 180) - sin a * sin (π / 180)) * 1099511627776 = C * c - S * s := by
    rw [hS, hC, hs1, hc1]; ring
  have Mpos : (0 : ℝ) < 1099511627776 := by norm_num
  unfold Valid step
  rw [sin_add, cos_add]
  simp only
  refine ⟨?_, ?_, ?_, ?_⟩
  · have f := floor_mul_le (v.sLo * c1Lo + v.cLo * s1Lo)
    rw [Int.cast_add, Int.cast_mul, Int.cast_mul, es1l, ec1l] at f
    apply le_of_mul_le_mul_right _ Mpos
    rw [idS]; linarith
  · have f := le_ceil_mul (v.sHi * c1Hi + v.cHi * s1Hi)
    rw [Int.cast_add, Int.cast_mul, Int.cast_mul, es1h, ec1h] at f
    apply le_of_mul_le_mul_right _ Mpos
    rw [idS]; linarith
  · have f := floor_mul_le (v.cLo * c1Lo - v.sHi * s1Hi)
    rw [Int.cast_sub, Int.cast_mul, Int.cast_mul, es1h, ec1l] at f
    apply le_of_mul_le_mul_right _ Mpos
    rw [idC]; linarith
  · have f := le_ceil_mul (v.cHi * c1Hi - v.sLo * s1Lo)
    rw [Int.cast_sub, Int.cast_mul, Int.cast_mul, es1l, ec1h] at f
    apply le_of_mul_le_mul_right _ Mpos
    rw [idC]; linarith

/-- In the first quadrant the lower end points stay non-negative (what `step_valid` needs). -/
theorem iter_nonneg : ∀ k : Nat, k < 90 → 0 ≤ (iter k).sLo ∧ 0 ≤ (iter k).cLo := by decide +kernel

theorem valid_iter : ∀ k : Nat, k ≤ 90 → Valid ((k : ℝ) * (π / 180)) (iter k)
  | 0, _ => by
    unfold Valid iter M
    simp
  | k + 1, hk => by
    have ih := valid_iter k (by omega)
    obtain ⟨n1, n2⟩ := iter_nonneg k (by omega)
    have := step_valid _ _ ih n1 n2
    have e : ((k + 1 : Nat) : ℝ) * (π / 180) = (k : ℝ) * (π / 180) + π / 180 := by push_cast; ring
    rw [e]
    exact this

/-- The table entry against the enclosure of `sin k°`: both ends within half a unit. -/
theorem table_check : ∀ k : Nat, k < 91 →
    (2 * sinTable.getD k 0 - 1) * M ≤ 131072 * (iter k).sLo ∧
    131072 * (iter k).sHi ≤ (2 * sinTable.getD k 0 + 1) * M := by decide +kernel

/-- **Every table entry is the correctly rounded sine.** -/
theorem sine_table_accurate (k : Nat) (hk : k ≤ 90) :
    |((sinTable.getD k 0 : Int) : ℝ) - 65536 * Real.sin ((k : ℝ) * π / 180)| ≤ 1 / 2 := by
  obtain ⟨v1, v2, _, _⟩ := valid_iter k hk
  obtain ⟨c1, c2⟩ := table_check k (by omega)
  have eM : ((M : Int) : ℝ) = 1099511627776 := by unfold M; norm_num
  have c1' : ((((2 * sinTable.getD k 0 - 1) * M : Int)) : ℝ) ≤ ((131072 * (iter k).sLo : Int) : ℝ) := by
    exact_mod_cast c1
  have c2' : ((131072 * (iter k).sHi : Int) : ℝ) ≤ ((((2 * sinTable.getD k 0 + 1) * M : Int)) : ℝ) := by
    exact_mod_cast c2
  push_cast at c1' c2'
  rw [eM] at c1' c2'
  have e : (k : ℝ) * π / 180 = (k : ℝ) * (π / 180) := by ring
  rw [e, abs_le]
  constructor <;> linarith

end EG.SineTable
