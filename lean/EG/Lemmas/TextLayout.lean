/-
  EG.Lemmas.TextLayout — `draw_string` against `measure_string`: the closed form of
  `line_elements` / `draw_string_binary` (calls and returned position), the returned position of
  `draw_string`, widths, alignment and baseline arithmetic.
-/
import EG.Model.TextLayout
import EG.Lemmas.Rect
namespace EG
namespace TextLayout
open Font

/-! ### Widths -/

theorem bbWidth_zero (f : MonoFont) : bbWidth f 0 = 0 := by simp [bbWidth]

/-- `n + 1` characters are `n + 1` cells and `n` gaps. -/
theorem bbWidth_succ (f : MonoFont) (n : Nat) : bbWidth f (n + 1) = (n + 1) * f.cw + n * f.spacing := by
  unfold bbWidth
  rw [Nat.mul_add, Nat.add_mul n 1 f.spacing]
  omega

theorem bbWidth_succ_succ (f : MonoFont) (n : Nat) :
    bbWidth f (n + 2) = f.cw + f.spacing + bbWidth f (n + 1) := by
  rw [bbWidth_succ, bbWidth_succ, Nat.add_mul (n + 1) 1 f.cw, Nat.add_mul n 1 f.spacing]
  omega

/-- Without character spacing widths add up. -/
theorem bbWidth_add (f : MonoFont) (h : f.spacing = 0) (a b : Nat) :
    bbWidth f (a + b) = bbWidth f a + bbWidth f b := by
  unfold bbWidth
  rw [h, Nat.add_mul]
  omega

/-! ### `line_elements` in closed form -/

/-- What the `for` loop of `draw_string_binary` sees: cells `cw + spacing` apart, a spacing element
after every character but the last, `Done` at the end of the last cell. -/
def elemSpec (f : MonoFont) (pos : Pt) : List Nat → List (Pt × Elem)
  | [] => [(pos, .done)]
  | [c] => [(pos, .char c), (⟨pos.x + (f.cw : Int), pos.y⟩, .done)]
  | c :: c' :: cs =>
    (pos, .char c) :: (⟨pos.x + (f.cw : Int), pos.y⟩, .spacing) ::
      elemSpec f ⟨pos.x + (f.cw : Int) + (f.spacing : Int), pos.y⟩ (c' :: cs)

theorem toListFuel_eq_elemSpec (f : MonoFont) : ∀ (text : List Nat) (pos : Pt) (fuel : Nat),
    2 * text.length + 1 ≤ fuel → (⟨pos, text, false⟩ : LineIt).toListFuel f fuel = elemSpec f pos text
  | [], pos, fuel, h => by
    obtain ⟨k, rfl⟩ : ∃ k, fuel = k + 1 := ⟨fuel - 1, by omega⟩
    simp [LineIt.toListFuel, LineIt.next, elemSpec]
  | [c], pos, fuel, h => by
    obtain ⟨k, rfl⟩ : ∃ k, fuel = k + 2 := ⟨fuel - 2, by simp at h; omega⟩
    simp [LineIt.toListFuel, LineIt.next, elemSpec]
  | c :: c' :: cs, pos, fuel, h => by
    obtain ⟨k, rfl⟩ : ∃ k, fuel = k + 2 := ⟨fuel - 2, by simp at h; omega⟩
    have ih := toListFuel_eq_elemSpec f (c' :: cs) ⟨pos.x + (f.cw : Int) + (f.spacing : Int), pos.y⟩ k
      (by simp at h ⊢; omega)
    simp [LineIt.toListFuel, LineIt.next, elemSpec, ih]

theorem lineElements_eq_elemSpec (f : MonoFont) (pos : Pt) (text : List Nat) :
    lineElements f pos text = elemSpec f pos text :=
  toListFuel_eq_elemSpec f text pos _ (Nat.le_refl _)

/-- The `Done` element sits `bbWidth` right of the start: `n` cells and `n - 1` gaps. -/
theorem elemSpec_done (f : MonoFont) : ∀ (text : List Nat) (pos : Pt),
    (elemSpec f pos text).find? (fun e => e.2 == Elem.done) =
      some (⟨pos.x + (bbWidth f text.length : Nat), pos.y⟩, .done)
  | [], pos => by simp [elemSpec, bbWidth_zero]
  | [c], pos => by
    have : bbWidth f 1 = f.cw := by simpa using bbWidth_succ f 0
    simp [elemSpec, this]
  | c :: c' :: cs, pos => by
    have ih := elemSpec_done f (c' :: cs) ⟨pos.x + (f.cw : Int) + (f.spacing : Int), pos.y⟩
    have hne1 : ((Elem.char c) == Elem.done) = false := by simp
    have hne2 : (Elem.spacing == Elem.done) = false := by decide
    simp only [elemSpec, List.find?_cons, hne1, hne2]
    rw [ih]
    simp only [List.length_cons]
    have := bbWidth_succ_succ f cs.length
    rw [this]
    simp only [Int.natCast_add]
    congr 2
    rw [Pt.ext_iff']
    constructor <;> simp only <;> omega

/-! ### `draw_string_binary` in closed form -/

/-- The fill of the gap after a character. -/
def gapCalls (f : MonoFont) (hasBg : Bool) (p : Pt) : List BCall :=
  if f.spacing > 0 ∧ hasBg then [BCall.fillSolid ⟨p, ⟨f.spacing, f.ch⟩⟩ false] else []

/-- Calls of `draw_string_binary` on the binary target, by recursion on the text. -/
def binCalls (f : MonoFont) (atlas : Pt → Bool) (hasBg : Bool) (pos : Pt) : List Nat → List BCall
  | [] => []
  | [c] => f.glyphCalls atlas c pos
  | c :: c' :: cs =>
    f.glyphCalls atlas c pos ++ gapCalls f hasBg ⟨pos.x + (f.cw : Int), pos.y⟩ ++
      binCalls f atlas hasBg ⟨pos.x + (f.cw : Int) + (f.spacing : Int), pos.y⟩ (c' :: cs)

theorem flatMap_elemSpec (f : MonoFont) (atlas : Pt → Bool) (hasBg : Bool) : ∀ (text : List Nat) (pos : Pt),
    (elemSpec f pos text).flatMap (f.elemCalls atlas hasBg) = binCalls f atlas hasBg pos text
  | [], _ => by simp [elemSpec, binCalls, MonoFont.elemCalls]
  | [c], _ => by simp [elemSpec, binCalls, MonoFont.elemCalls]
  | c :: c' :: cs, pos => by
    have ih := flatMap_elemSpec f atlas hasBg (c' :: cs) ⟨pos.x + (f.cw : Int) + (f.spacing : Int), pos.y⟩
    simp only [elemSpec, binCalls, List.flatMap_cons, ih, MonoFont.elemCalls, gapCalls, List.append_assoc]

/-- `draw_string_binary` makes the calls `binCalls` and returns the point `bbWidth` right of the start. -/
theorem drawStringBinary_closed (f : MonoFont) (atlas : Pt → Bool) (hasBg : Bool) (text : List Nat) (pos : Pt) :
    f.drawStringBinary atlas hasBg text pos =
      (binCalls f atlas hasBg pos text, ⟨pos.x + (bbWidth f text.length : Nat), pos.y⟩) := by
  unfold MonoFont.drawStringBinary
  simp only [lineElements_eq_elemSpec, flatMap_elemSpec, elemSpec_done]

/-! ### What `draw_string` returns -/

/-- x advance of `draw_string`: with a text or background colour the glyph loop (`n` cells, `n - 1`
gaps); with neither, `(cw + spacing) * n` (the `(None, None)` arm). -/
def drawAdvance (f : MonoFont) (st : Style) (n : Nat) : Nat :=
  match st.textColor, st.bgColor with
  | none, none => (f.cw + f.spacing) * n
  | _, _ => bbWidth f n

theorem drawString_next (f : MonoFont) (atlas : Pt → Bool) (st : Style) (text : List Nat) (position : Pt)
    (bl : Baseline) :
    (f.drawString atlas st text position bl).2 =
      ⟨position.x + (drawAdvance f st text.length : Nat), position.y⟩ := by
  unfold MonoFont.drawString drawAdvance
  cases htc : st.textColor <;> cases hbg : st.bgColor <;>
    simp only [drawStringBinary_closed] <;> rw [Pt.ext_iff'] <;> constructor <;> simp only <;> omega

/-- The two advances agree as soon as a colour is set, the font has no spacing, or the text is empty. -/
theorem drawAdvance_eq_bbWidth (f : MonoFont) (st : Style) (n : Nat)
    (h : st.textColor ≠ none ∨ st.bgColor ≠ none ∨ f.spacing = 0 ∨ n = 0) :
    drawAdvance f st n = bbWidth f n := by
  unfold drawAdvance
  cases htc : st.textColor <;> cases hbg : st.bgColor <;> simp only
  rcases h with h | h | h | h
  · exact absurd htc h
  · exact absurd hbg h
  · unfold bbWidth; rw [h, Nat.mul_comm]; omega
  · subst h; simp [bbWidth]

/-- The remaining case: neither colour, spacing, at least one character — one trailing spacing more. -/
theorem drawAdvance_transparent (f : MonoFont) (st : Style) (n : Nat)
    (htc : st.textColor = none) (hbg : st.bgColor = none) (hn : 0 < n) :
    drawAdvance f st n = bbWidth f n + f.spacing := by
  unfold drawAdvance bbWidth
  rw [htc, hbg]
  simp only
  obtain ⟨k, rfl⟩ : ∃ k, n = k + 1 := ⟨n - 1, by omega⟩
  rw [Nat.mul_comm, Nat.add_mul k 1, Nat.mul_add k]
  omega

/-! ### The calls of `draw_string` in closed form -/

/-- The glyph part: the binary-target calls lowered through the colour mode of the style. -/
def glyphPartCalls (f : MonoFont) (atlas : Pt → Bool) (st : Style) (text : List Nat) (pos : Pt) : List Call :=
  match st.textColor, st.bgColor with
  | some tc, some bc => (binCalls f atlas true pos text).flatMap (Mode.both tc bc).lower
  | some tc, none => (binCalls f atlas false pos text).flatMap (Mode.fg tc).lower
  | none, some bc => (binCalls f atlas true pos text).flatMap (Mode.bg bc).lower
  | none, none => []

def decoPartCalls (f : MonoFont) (st : Style) (n : Nat) (pos : Pt) : List Call :=
  if 0 < drawAdvance f st n then f.drawDecorations st (drawAdvance f st n) pos else []

theorem deco_if (f : MonoFont) (st : Style) (x : Int) (W : Nat) (q : Pt) :
    (if x + (W : Int) > x then f.drawDecorations st (x + (W : Int) - x).toNat q else []) =
      if 0 < W then f.drawDecorations st W q else [] := by
  by_cases h : 0 < W
  · rw [if_pos (by omega), if_pos h]
    congr 1
    omega
  · rw [if_neg (by omega), if_neg h]

theorem drawString_calls (f : MonoFont) (atlas : Pt → Bool) (st : Style) (text : List Nat) (position : Pt)
    (bl : Baseline) :
    (f.drawString atlas st text position bl).1 =
      glyphPartCalls f atlas st text ⟨position.x, position.y - f.baselineOffset bl⟩ ++
        decoPartCalls f st text.length ⟨position.x, position.y - f.baselineOffset bl⟩ := by
  unfold MonoFont.drawString glyphPartCalls decoPartCalls drawAdvance
  cases htc : st.textColor <;> cases hbg : st.bgColor <;>
    simp only [drawStringBinary_closed] <;> congr 1 <;> exact deco_if f st _ _ _
theorem measureString_next (f : MonoFont) (st : Style) (text : List Nat) (position : Pt) (bl : Baseline) :
    (measureString f st text position bl).next = ⟨position.x + (bbWidth f text.length : Nat), position.y⟩ := rfl

theorem measureString_bbox (f : MonoFont) (st : Style) (text : List Nat) (position : Pt) (bl : Baseline) :
    (measureString f st text position bl).bbox =
      ⟨⟨position.x, position.y - f.baselineOffset bl⟩, ⟨bbWidth f text.length, bbHeight f st⟩⟩ := rfl

/-! ### Alignment -/

theorem alignedPos_y (f : MonoFont) (st : Style) (ts : TextStyle) (line : List Nat) (p : Pt) :
    (alignedPos f st ts line p).y = p.y := by
  unfold alignedPos
  cases ts.alignment <;> simp [measureString, Pt.zero, tdiv2]

theorem alignedPos_left (f : MonoFont) (st : Style) (ts : TextStyle) (line : List Nat) (p : Pt)
    (h : ts.alignment = .left) : alignedPos f st ts line p = p := by
  unfold alignedPos; rw [h]

theorem alignedPos_right_x (f : MonoFont) (st : Style) (ts : TextStyle) (line : List Nat) (p : Pt)
    (h : ts.alignment = .right) :
    (alignedPos f st ts line p).x = p.x - ((bbWidth f line.length : Nat) - 1) := by
  unfold alignedPos; rw [h]; simp [measureString, Pt.zero]

theorem alignedPos_center_x (f : MonoFont) (st : Style) (ts : TextStyle) (line : List Nat) (p : Pt)
    (h : ts.alignment = .center) :
    (alignedPos f st ts line p).x = p.x - tdiv2 ((bbWidth f line.length : Nat) - 1) := by
  unfold alignedPos; rw [h]; simp [measureString, Pt.zero]

/-! ### Baseline offsets without saturation -/

/-- The font's character height and baseline fit `i32` (true of every real font; `saturating_as`
does nothing then). -/
def MetricsInRange (f : MonoFont) : Prop := f.ch ≤ 2147483648 ∧ f.baseline ≤ 2147483647
instance (f : MonoFont) : Decidable (MetricsInRange f) := by unfold MetricsInRange; exact inferInstance

theorem baselineOffset_documented (f : MonoFont) (h : MetricsInRange f) (bl : Baseline) :
    f.baselineOffset bl =
      match bl with
      | .top => 0
      | .bottom => ((f.ch - 1 : Nat) : Int)
      | .middle => (((f.ch - 1) / 2 : Nat) : Int)
      | .alphabetic => (f.baseline : Int) := by
  unfold MetricsInRange at h
  cases bl <;> simp only [MonoFont.baselineOffset, satAsI32] <;> split <;> omega

end TextLayout
end EG
