/-
  EG.Lemmas.GlueChainPicture — from call lists to pictures for chained text drawing.

  `EG.C15.chaining_cells / chaining_decorations / chaining_next` say that drawing `s1` and then `s2`
  at the returned position issues the same glyph calls as drawing `s1 ++ s2`, and that the decoration
  rectangle of the whole is the union of the two parts. The two call LISTS differ though: chained
  drawing is `glyphs(s1), deco(s1), glyphs(s2), deco(s2)`, the whole text `glyphs(s1), glyphs(s2),
  deco(s1 ++ s2)`. Here the pixel maps (`runNative` / `runDefault`: last write wins) of the two lists
  are shown equal: everything `s2` issues lies at columns `>= X` (the returned x position), the
  decorations of `s1` at columns `< X`, so the reordering is invisible, and two adjacent solid
  rectangles of one colour paint what the one rectangle over both widths paints.
-/
import EG.Lemmas.TextLayoutChain
import EG.Lemmas.TextLayoutBox
import EG.Lemmas.PMap
import EG.Lemmas.FontText
namespace EG.Glue
open EG EG.Tgt EG.Font EG.TextLayout

/-! ### Last write of a call list on a native target -/

/-- The colour the call list leaves at `q` on an empty native-fill target with box `B`. -/
def lw (B : Rect) (calls : List Call) (q : Pt) : Option Color :=
  lastWrite (calls.flatMap (Call.writesNative B)) q

theorem runNative_eq_lw (B : Rect) (calls : List Call) (q : Pt) : runNative B calls q = lw B calls q := by
  unfold runNative lw; exact PMap.empty_apply _ _

theorem lw_nil (B : Rect) (q : Pt) : lw B [] q = none := rfl

theorem lw_append (B : Rect) (a b : List Call) (q : Pt) : lw B (a ++ b) q = (lw B b q).or (lw B a q) := by
  unfold lw; rw [List.flatMap_append, lastWrite_append]

theorem lw_fillSolid (B a : Rect) (c : Color) (ha : a.InRange) (q : Pt) :
    lw B [Call.fillSolid a c] q = if a.contains q = true ∧ B.contains q = true then some c else none := by
  have h := PMap.apply_fillSolid PMap.empty B a c ha q
  rw [PMap.empty_apply] at h
  unfold lw
  simp only [List.flatMap_cons, List.flatMap_nil, List.append_nil]
  rw [h]; rfl

theorem lastWrite_eq_none_of_forall {ws : Writes} {q : Pt} (h : ∀ w ∈ ws, w.1 ≠ q) : lastWrite ws q = none := by
  unfold lastWrite
  have : ws.reverse.find? (fun w => w.1 == q) = none := by
    rw [List.find?_eq_none]
    intro w hw
    simp only [beq_iff_eq]
    exact h w (List.mem_reverse.mp hw)
  rw [this]

/-- Calls that stay inside a box `R` leave every point outside `R` untouched. -/
theorem lw_none_of_callIn {R : Rect} (hb : LowerBound R) (B : Rect) {calls : List Call}
    (hc : ∀ c ∈ calls, CallIn R c) {q : Pt} (hq : ¬ R.contains q = true) : lw B calls q = none := by
  apply lastWrite_eq_none_of_forall
  intro w hw e
  obtain ⟨c, hc1, hc2⟩ := List.mem_flatMap.mp hw
  unfold Call.writesNative at hc2
  have hw' := (mem_clipWrites.mp hc2).1
  have := CallIn.writesNative hb B (hc c hc1) w hw'
  rw [e] at this
  exact hq this

/-! ### Decorations -/

/-- What one decoration rectangle gives the point `q` (`d` = its effective colour). -/
def decoAt (B : Rect) (d : Option Color) (r : Rect) (q : Pt) : Option Color :=
  match d with
  | some c => if r.contains q = true ∧ B.contains q = true then some c else none
  | none => none

theorem lw_drawDecorations (B : Rect) (f : MonoFont) (st : Style) (W : Nat) (pos : Pt)
    (h : DecoInRange f pos W) (q : Pt) :
    lw B (f.drawDecorations st W pos) q =
      (decoAt B (st.underline.effective st.textColor) (decoRect f.ulOff f.ulH pos W) q).or
        (decoAt B (st.strikethrough.effective st.textColor) (decoRect f.stOff f.stH pos W) q) := by
  unfold MonoFont.drawDecorations
  rw [lw_append]
  cases st.strikethrough.effective st.textColor <;> cases st.underline.effective st.textColor <;>
    simp only [decoAt, lw_nil, lw_fillSolid _ _ _ h.1, lw_fillSolid _ _ _ h.2]

theorem decoAt_zero_width (B : Rect) (d : Option Color) (off hgt : Nat) (pos q : Pt) :
    decoAt B d (decoRect off hgt pos 0) q = none := by
  unfold decoAt
  cases d with
  | none => rfl
  | some c =>
    have : ¬ (decoRect off hgt pos 0).contains q = true := by
      rw [Rect.contains_iff]; simp only [decoRect]; omega
    simp only [this, Bool.false_eq_true, false_and, ↓reduceIte]

/-- The decoration part of `draw_string` (drawn only for a positive width — a zero-width rectangle
would paint nothing anyway). -/
theorem lw_decoPart (B : Rect) (f : MonoFont) (st : Style) (W : Nat) (pos : Pt)
    (h : DecoInRange f pos W) (q : Pt) :
    lw B (if 0 < W then f.drawDecorations st W pos else []) q =
      (decoAt B (st.underline.effective st.textColor) (decoRect f.ulOff f.ulH pos W) q).or
        (decoAt B (st.strikethrough.effective st.textColor) (decoRect f.stOff f.stH pos W) q) := by
  by_cases hW : 0 < W
  · rw [if_pos hW]; exact lw_drawDecorations B f st W pos h q
  · have : W = 0 := by omega
    subst this
    simp only [Nat.lt_irrefl, ↓reduceIte, lw_nil, decoAt_zero_width, Option.or_none]

/-- Two adjacent rectangles of one colour against the rectangle over both widths, per point: left
of the seam the whole is the first part and the second part paints nothing ... -/
theorem decoAt_split_left (B : Rect) (d : Option Color) (off hgt : Nat) (pos : Pt) (W1 W2 : Nat) (q : Pt)
    (hq : q.x < pos.x + (W1 : Int)) :
    decoAt B d (decoRect off hgt pos (W1 + W2)) q = decoAt B d (decoRect off hgt pos W1) q ∧
      decoAt B d (decoRect off hgt ⟨pos.x + (W1 : Int), pos.y⟩ W2) q = none := by
  unfold decoAt
  cases d with
  | none => exact ⟨rfl, rfl⟩
  | some c =>
    have e1 : (decoRect off hgt pos (W1 + W2)).contains q = true ↔ (decoRect off hgt pos W1).contains q = true := by
      simp only [Rect.contains_iff, decoRect, Int.natCast_add]; omega
    have e2 : ¬ (decoRect off hgt ⟨pos.x + (W1 : Int), pos.y⟩ W2).contains q = true := by
      simp only [Rect.contains_iff, decoRect]; omega
    simp only [e1, e2, Bool.false_eq_true, false_and, ↓reduceIte, and_self]

/-- ... and from the seam on the whole is the second part and the first part paints nothing. -/
theorem decoAt_split_right (B : Rect) (d : Option Color) (off hgt : Nat) (pos : Pt) (W1 W2 : Nat) (q : Pt)
    (hq : pos.x + (W1 : Int) ≤ q.x) :
    decoAt B d (decoRect off hgt pos (W1 + W2)) q =
        decoAt B d (decoRect off hgt ⟨pos.x + (W1 : Int), pos.y⟩ W2) q ∧
      decoAt B d (decoRect off hgt pos W1) q = none := by
  unfold decoAt
  cases d with
  | none => exact ⟨rfl, rfl⟩
  | some c =>
    have e1 : (decoRect off hgt pos (W1 + W2)).contains q = true ↔
        (decoRect off hgt ⟨pos.x + (W1 : Int), pos.y⟩ W2).contains q = true := by
      simp only [Rect.contains_iff, decoRect, Int.natCast_add]; omega
    have e2 : ¬ (decoRect off hgt pos W1).contains q = true := by
      simp only [Rect.contains_iff, decoRect]; omega
    simp only [e1, e2, Bool.false_eq_true, false_and, ↓reduceIte, and_self]

/-- The parts of an in-range decoration are in range. -/
theorem decoInRange_split (f : MonoFont) (pos : Pt) (W1 W2 : Nat) (h : DecoInRange f pos (W1 + W2)) :
    DecoInRange f pos W1 ∧ DecoInRange f ⟨pos.x + (W1 : Int), pos.y⟩ W2 := by
  unfold DecoInRange Rect.InRange inI32 decoRect at *
  simp only [Int.natCast_add] at h
  simp only
  omega

/-! ### Glyph part -/

theorem glyphPartCalls_append (f : MonoFont) (h : f.spacing = 0) (atlas : Pt → Bool) (st : Style)
    (s1 s2 : List Nat) (pos : Pt) :
    glyphPartCalls f atlas st (s1 ++ s2) pos =
      glyphPartCalls f atlas st s1 pos ++
        glyphPartCalls f atlas st s2 ⟨pos.x + (bbWidth f s1.length : Nat), pos.y⟩ := by
  unfold glyphPartCalls
  cases st.textColor <;> cases st.bgColor <;>
    simp only [binCalls_append f h, List.flatMap_append, List.append_nil]

/-- Nothing the glyph part of a text started at `pos` issues lies left of `pos.x`. -/
theorem lw_glyphPart_left (B : Rect) (f : MonoFont) (atlas : Pt → Bool) (st : Style) (text : List Nat)
    (pos : Pt) (hx : -2147483648 ≤ pos.x) (hy : -2147483648 ≤ pos.y) (q : Pt) (hq : q.x < pos.x) :
    lw B (glyphPartCalls f atlas st text pos) q = none := by
  have hb : LowerBound ⟨pos, ⟨bbWidth f text.length, bbHeight f st⟩⟩ := fun _ => ⟨hx, hy⟩
  apply lw_none_of_callIn hb B (glyphPartCalls_in_box f atlas st text pos hb)
  rw [Rect.contains_iff]; simp only; omega

/-! ### The two pictures -/

/-- **Picture of chained drawing = picture of the whole**, at the level of the closed-form call
lists: `glyphs(s1) ++ deco(W1) ++ glyphs(s2 at X) ++ deco(W2 at X)` and
`glyphs(s1 ++ s2) ++ deco(W1 + W2)` leave the same colour at every point. -/
theorem chain_lw (B : Rect) (f : MonoFont) (h : f.spacing = 0) (atlas : Pt → Bool) (st : Style)
    (s1 s2 : List Nat) (pos : Pt) (hx : -2147483648 ≤ pos.x) (hy : -2147483648 ≤ pos.y)
    (hd : DecoInRange f pos (bbWidth f s1.length + bbWidth f s2.length)) (q : Pt) :
    lw B ((glyphPartCalls f atlas st s1 pos ++
            (if 0 < bbWidth f s1.length then f.drawDecorations st (bbWidth f s1.length) pos else [])) ++
          (glyphPartCalls f atlas st s2 ⟨pos.x + (bbWidth f s1.length : Nat), pos.y⟩ ++
            (if 0 < bbWidth f s2.length then
              f.drawDecorations st (bbWidth f s2.length) ⟨pos.x + (bbWidth f s1.length : Nat), pos.y⟩ else []))) q =
      lw B (glyphPartCalls f atlas st (s1 ++ s2) pos ++
          (if 0 < bbWidth f s1.length + bbWidth f s2.length then
            f.drawDecorations st (bbWidth f s1.length + bbWidth f s2.length) pos else [])) q := by
  obtain ⟨hd1, hd2⟩ := decoInRange_split f pos _ _ hd
  rw [glyphPartCalls_append f h]
  simp only [lw_append, lw_decoPart B f st _ _ hd1, lw_decoPart B f st _ _ hd2, lw_decoPart B f st _ _ hd]
  by_cases hq : q.x < pos.x + (bbWidth f s1.length : Int)
  · have hg := lw_glyphPart_left B f atlas st s2 ⟨pos.x + (bbWidth f s1.length : Nat), pos.y⟩
      (by simp only; omega) hy q hq
    obtain ⟨eu, eu0⟩ := decoAt_split_left B (st.underline.effective st.textColor) f.ulOff f.ulH pos
      (bbWidth f s1.length) (bbWidth f s2.length) q hq
    obtain ⟨es, es0⟩ := decoAt_split_left B (st.strikethrough.effective st.textColor) f.stOff f.stH pos
      (bbWidth f s1.length) (bbWidth f s2.length) q hq
    rw [hg, eu, eu0, es, es0]
    simp only [Option.or_none, Option.none_or]
  · have hq' : pos.x + (bbWidth f s1.length : Int) ≤ q.x := by omega
    obtain ⟨eu, eu0⟩ := decoAt_split_right B (st.underline.effective st.textColor) f.ulOff f.ulH pos
      (bbWidth f s1.length) (bbWidth f s2.length) q hq'
    obtain ⟨es, es0⟩ := decoAt_split_right B (st.strikethrough.effective st.textColor) f.stOff f.stH pos
      (bbWidth f s1.length) (bbWidth f s2.length) q hq'
    rw [eu, eu0, es, es0]
    simp only [Option.or_none, Option.none_or, Option.or_assoc]

end EG.Glue
