/-
  EG.Lemmas.DrawProg — facts about the interpreter `runFaulty` of EG/Model/DrawProg.lean alone.

  These are DEFINITIONAL in character: `runFaultyFrom` is defined so that a step flagged
  `propagated = true` ends the run, so "all flags true ⇒ the run ends at the failing call" says
  nothing about the library. They are kept out of `EG/Props/C04.lean` (they are not property
  theorems); `EG.C04.prefix_law_sites` uses them with flags that come from the generated call-site
  table.
-/
import EG.Model.DrawProg
namespace EG.DrawProg
open EG

theorem runFaultyFrom_all_propagated (k : Nat) :
    ∀ (p : List Step) (i : Nat), (∀ s ∈ p, s.propagated = true) → i ≤ k → k < i + p.length →
      runFaultyFrom k i p = ⟨k - i + 1, (runClean p).take (k - i), some k⟩ := by
  intro p
  induction p with
  | nil => intro i _ h1 h2; simp at h2; omega
  | cons s rest ih =>
    intro i hall h1 h2
    unfold runFaultyFrom
    by_cases hik : i = k
    · subst hik
      have hs : s.propagated = true := hall s List.mem_cons_self
      simp [hs, runClean]
    · rw [if_neg hik]
      have hlen : k < (i + 1) + rest.length := by simp at h2; omega
      rw [ih (i + 1) (fun t ht => hall t (List.mem_cons_of_mem _ ht)) (by omega) hlen]
      have h3 : k - i = (k - (i + 1)) + 1 := by omega
      simp only [runClean, List.map_cons, Outcome.mk.injEq, and_true]
      constructor
      · omega
      · rw [h3, List.take_succ_cons]

/-- (definitional) In the interpreter, if every step is flagged as propagating, failing call `k`
returns error `k`, attempts `k + 1` calls and logs the first `k` calls of the fault-free run. -/
theorem interp_prefix_of_all_flags (p : List Step) (k : Nat) (hall : ∀ s ∈ p, s.propagated = true)
    (hk : k < (runClean p).length) :
    (runFaulty k p).result = some k ∧
    (runFaulty k p).attempted = k + 1 ∧
    (runFaulty k p).log = (runClean p).take k := by
  have hk' : k < 0 + p.length := by simpa [runClean] using hk
  unfold runFaulty
  rw [runFaultyFrom_all_propagated k p 0 hall (Nat.zero_le _) hk']
  simp

/-- (definitional, sanity of the interpreter) failing a call index that is never reached gives the
fault-free log and no error, whatever the flags. -/
theorem interp_no_fault_clean (p : List Step) (k : Nat) (hk : (runClean p).length ≤ k) :
    (runFaulty k p).result = none ∧ (runFaulty k p).log = runClean p := by
  suffices h : ∀ (p : List Step) (i : Nat), i + p.length ≤ k →
      (runFaultyFrom k i p).result = none ∧ (runFaultyFrom k i p).log = runClean p by
    exact h p 0 (by simpa [runClean] using hk)
  intro p
  induction p with
  | nil => intro i _; simp [runFaultyFrom, runClean]
  | cons s rest ih =>
    intro i hi
    simp only [List.length_cons] at hi
    unfold runFaultyFrom
    rw [if_neg (by omega)]
    have := ih (i + 1) (by omega)
    simp [runClean, this.1] at this ⊢
    exact this

/-- (definitional, sanity of the interpreter) a non-propagated error is observable: the next call
is still made and the error is lost. -/
theorem interp_unflagged_continues (c1 c2 : Call) (b : Bool) :
    (runFaulty 0 [⟨c1, false⟩, ⟨c2, b⟩]).attempted = 2 ∧
    (runFaulty 0 [⟨c1, false⟩, ⟨c2, b⟩]).result = none := by
  simp [runFaulty, runFaultyFrom]

end EG.DrawProg
