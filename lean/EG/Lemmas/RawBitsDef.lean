/-
  EG.Lemmas.RawBitsDef — the byte-level get/set law of the sub-byte raw types (RawU1, RawU2,
  RawU4) as a Boolean table check. The tables themselves are decided by kernel evaluation over the
  WHOLE domain (every old byte x every slot x every value x every other slot / bit position) in
  EG/Lemmas/RawBitsT{1,2,4}.lean, one file per depth so that they build in parallel.
-/
import EG.Model.Raw
namespace EG.Raw

/-- `bit_index` of slot `k` (= `index % pixels_per_byte`) of a byte. -/
def slotShift (bits : Nat) (o : Order) (k : Nat) : Nat :=
  (if o.alt then k else (8 / bits - 1) - k) * bits

theorem bitPosition_eq (bits : Nat) (o : Order) (i : Nat) :
    bitPosition bits o i = (i / (8 / bits), slotShift bits o (i % (8 / bits))) := rfl

/-- The complete byte-level law for one depth and order, as a Boolean table check:
for every old byte `b`, slot `k`, value `v` with `nb := storeByte .. v b`:
`nb < 256`; loading slot `k` gives `v`; loading any other slot `k'` gives what it gave before;
bit `sh + j` of `nb` is bit `j` of `v`; every bit outside `[sh, sh + bits)` is the old bit. -/
def byteLawCheck (bits : Nat) (o : Order) : Bool :=
  (List.range 256).all fun b =>
    (List.range (8 / bits)).all fun k =>
      (List.range (2 ^ bits)).all fun v =>
        let sh := slotShift bits o k
        let nb := storeByte bits sh v b
        decide (nb < 256) && (loadByte bits sh nb == v) &&
        ((List.range (8 / bits)).all fun k' =>
          k' == k || loadByte bits (slotShift bits o k') nb == loadByte bits (slotShift bits o k') b) &&
        ((List.range 8).all fun p =>
          if sh ≤ p ∧ p < sh + bits then nb.testBit p == v.testBit (p - sh)
          else nb.testBit p == b.testBit p)

end EG.Raw
