/-
  EG.Lemmas.TriangleOutline — the one-pixel outline (`StyledPixelsIterator` with stroke width 1, no
  fill, `StrokeOffset::None`) is the union of the three edge lines of the `sorted_clockwise`
  triangle.

  Part 1: `edge_intersections` — the `left` / `right` merging of the three per-edge scanlines of a
  row loses nothing, provided the three scanlines are not pairwise separated (then the third one
  would be dropped by the ignored result of `right.try_extend`); for a triangle two of the three
  edges of a row always share a vertex of that row.
-/
import EG.Lemmas.TriangleLineAny
namespace EG

namespace Scanline

/-- Two non-empty column ranges overlap or are adjacent. -/
def Touch (s o : Scanline) : Prop := s.xs < s.xe ∧ o.xs < o.xe ∧ o.xs ≤ s.xe ∧ s.xs ≤ o.xe

theorem touches_iff (s o : Scanline) : s.touches o = true ↔ Touch s o := by
  unfold touches Touch isEmpty
  by_cases h1 : s.xs < s.xe <;> by_cases h2 : o.xs < o.xe <;>
    simp only [h1, h2, decide_true, decide_false, Bool.not_true, Bool.not_false, Bool.or_false,
      Bool.or_true, ↓reduceIte, Bool.false_eq_true, false_and, and_false, true_and,
      Bool.or_eq_true, decide_eq_true_eq]
  omega

theorem tryExtend_fst (s o : Scanline) : (s.tryExtend o).1 = s.touches o := by
  unfold tryExtend; split <;> simp_all

theorem tryExtend_of_touch {s o : Scanline} (h : Touch s o) :
    (s.tryExtend o).2.y = s.y ∧ ∀ x, (s.tryExtend o).2.Covers x ↔ s.Covers x ∨ o.Covers x := by
  have ht := (touches_iff s o).mpr h
  unfold tryExtend
  simp only [ht, ↓reduceIte, true_and]
  intro x
  unfold Touch at h
  unfold Covers
  dsimp only
  omega

theorem tryExtend_of_not_touch {s o : Scanline} (h : ¬ Touch s o) : (s.tryExtend o).2 = s := by
  have ht : s.touches o = false := by
    cases hc : s.touches o with
    | false => rfl
    | true => exact absurd ((touches_iff s o).mp hc) h
  unfold tryExtend
  simp only [ht, Bool.false_eq_true, ↓reduceIte]

theorem not_covers_of_empty {s : Scanline} (h : ¬ s.xs < s.xe) (x : Int) : ¬ s.Covers x := by
  unfold Covers; omega

end Scanline

namespace EdgeIt
open Scanline

/-- The body of the `while idx < 3` loop. -/
def stepState (seg : Nat → Scanline) (s : EdgeIt) : EdgeIt :=
  let scanline := seg s.idx
  let s := { s with idx := s.idx + 1 }
  if !s.left.isEmpty then
    let r := s.left.tryExtend scanline
    if r.1 then { s with left := r.2 }
    else if !s.right.isEmpty then { s with right := (s.right.tryExtend scanline).2 }
    else { s with right := scanline }
  else { s with left := scanline }

theorem loop_succ (seg : Nat → Scanline) (fuel : Nat) (s : EdgeIt) :
    loop seg (fuel + 1) s = if s.idx < 3 then loop seg fuel (stepState seg s) else s := by
  unfold stepState
  conv => lhs; unfold loop
  dsimp only
  split
  · split
    · split
      · rfl
      · split <;> rfl
    · rfl
  · rfl

/-- What one round of the loop does, in terms of covered columns. -/
theorem stepState_spec (seg : Nat → Scanline) (s : EdgeIt) :
    let c := seg s.idx
    let s' := stepState seg s
    s'.idx = s.idx + 1 ∧
    -- rows are kept
    (∀ y, s.left.y = y → s.right.y = y → c.y = y → s'.left.y = y ∧ s'.right.y = y) ∧
    -- nothing is invented
    (∀ x, s'.left.Covers x ∨ s'.right.Covers x → s.left.Covers x ∨ s.right.Covers x ∨ c.Covers x) ∧
    -- nothing is lost, unless the new scanline is separated from both non-empty sides
    (¬ (s.left.xs < s.left.xe ∧ s.right.xs < s.right.xe ∧ c.xs < c.xe ∧ ¬ Touch s.left c ∧
        ¬ Touch s.right c) →
      ∀ x, s.left.Covers x ∨ s.right.Covers x ∨ c.Covers x → s'.left.Covers x ∨ s'.right.Covers x) ∧
    -- where a non-empty `right` comes from when there was none before
    (¬ s.right.xs < s.right.xe → s'.right.xs < s'.right.xe →
      s'.left = s.left ∧ s'.right = c ∧ s.left.xs < s.left.xe ∧ ¬ Touch s.left c) ∧
    -- an empty `left` is replaced
    (¬ s.left.xs < s.left.xe → s'.left = c ∧ s'.right = s.right) := by
  intro c s'
  have hc : c = seg s.idx := rfl
  have hs' : s' = stepState seg s := rfl
  unfold stepState at hs'
  dsimp only at hs'
  rw [← hc] at hs'
  by_cases hl : s.left.xs < s.left.xe
  · have hle : s.left.isEmpty = false := (isEmpty_false_iff _).mpr hl
    simp only [hle, Bool.not_false, ↓reduceIte, tryExtend_fst] at hs'
    by_cases ht : Touch s.left c
    · have htt := (touches_iff s.left c).mpr ht
      simp only [htt, ↓reduceIte] at hs'
      obtain ⟨ey, ec⟩ := tryExtend_of_touch ht
      rw [hs']
      dsimp only
      refine ⟨rfl, ?_, ?_, ?_, ?_, ?_⟩
      · intro y h1 h2 _; exact ⟨by rw [ey]; exact h1, h2⟩
      · intro x hx
        rcases hx with hx | hx
        · rcases (ec x).mp hx with h | h
          · exact Or.inl h
          · exact Or.inr (Or.inr h)
        · exact Or.inr (Or.inl hx)
      · intro _ x hx
        rcases hx with hx | hx | hx
        · exact Or.inl ((ec x).mpr (Or.inl hx))
        · exact Or.inr hx
        · exact Or.inl ((ec x).mpr (Or.inr hx))
      · intro h1 h2; exact absurd h2 h1
      · intro h1; exact absurd hl h1
    · have htt : s.left.touches c = false := by
        cases hcc : s.left.touches c with
        | false => rfl
        | true => exact absurd ((touches_iff _ _).mp hcc) ht
      simp only [htt, Bool.false_eq_true, ↓reduceIte] at hs'
      by_cases hr : s.right.xs < s.right.xe
      · have hre : s.right.isEmpty = false := (isEmpty_false_iff _).mpr hr
        simp only [hre, Bool.not_false, ↓reduceIte] at hs'
        by_cases ht2 : Touch s.right c
        · obtain ⟨ey, ec⟩ := tryExtend_of_touch ht2
          rw [hs']
          dsimp only
          refine ⟨rfl, ?_, ?_, ?_, ?_, ?_⟩
          · intro y h1 h2 _; exact ⟨h1, by rw [ey]; exact h2⟩
          · intro x hx
            rcases hx with hx | hx
            · exact Or.inl hx
            · rcases (ec x).mp hx with h | h
              · exact Or.inr (Or.inl h)
              · exact Or.inr (Or.inr h)
          · intro _ x hx
            rcases hx with hx | hx | hx
            · exact Or.inl hx
            · exact Or.inr ((ec x).mpr (Or.inl hx))
            · exact Or.inr ((ec x).mpr (Or.inr hx))
          · intro h1 _; exact absurd hr h1
          · intro h1; exact absurd hl h1
        · rw [tryExtend_of_not_touch ht2] at hs'
          rw [hs']
          dsimp only
          refine ⟨rfl, ?_, ?_, ?_, ?_, ?_⟩
          · intro y h1 h2 _; exact ⟨h1, h2⟩
          · intro x hx
            rcases hx with hx | hx
            · exact Or.inl hx
            · exact Or.inr (Or.inl hx)
          · intro hnd x hx
            rcases hx with hx | hx | hx
            · exact Or.inl hx
            · exact Or.inr hx
            · exfalso
              apply hnd
              exact ⟨hl, hr, by unfold Covers at hx; omega, ht, ht2⟩
          · intro h1 _; exact absurd hr h1
          · intro h1; exact absurd hl h1
      · have hre : s.right.isEmpty = true := (isEmpty_iff _).mpr hr
        simp only [hre, Bool.not_true, Bool.false_eq_true, ↓reduceIte] at hs'
        rw [hs']
        dsimp only
        refine ⟨rfl, ?_, ?_, ?_, ?_, ?_⟩
        · intro y h1 _ h3; exact ⟨h1, h3⟩
        · intro x hx
          rcases hx with hx | hx
          · exact Or.inl hx
          · exact Or.inr (Or.inr hx)
        · intro _ x hx
          rcases hx with hx | hx | hx
          · exact Or.inl hx
          · exact absurd hx (not_covers_of_empty hr x)
          · exact Or.inr hx
        · intro _ _; exact ⟨rfl, rfl, hl, ht⟩
        · intro h1; exact absurd hl h1
  · have hle : s.left.isEmpty = true := (isEmpty_iff _).mpr hl
    simp only [hle, Bool.not_true, Bool.false_eq_true, ↓reduceIte] at hs'
    rw [hs']
    dsimp only
    refine ⟨rfl, ?_, ?_, ?_, ?_, ?_⟩
    · intro y _ h2 h3; exact ⟨h3, h2⟩
    · intro x hx
      rcases hx with hx | hx
      · exact Or.inr (Or.inr hx)
      · exact Or.inr (Or.inl hx)
    · intro _ x hx
      rcases hx with hx | hx | hx
      · exact absurd hx (not_covers_of_empty hl x)
      · exact Or.inr hx
      · exact Or.inl hx
    · intro h1 h2; exact absurd h2 h1
    · intro _; exact ⟨rfl, rfl⟩


/-- The part of the closure after the `while` loop: merge `right` into `left` if they touch, then
hand out `left`, else `right`. -/
def finish (y : Int) (s : EdgeIt) : Option Scanline × EdgeIt :=
  let r := s.left.tryExtend s.right
  let s := if r.1 then { s with left := r.2, right := Scanline.newEmpty y } else s
  let l := s.left.tryTake
  match l.1 with
  | some x => (some x, { s with left := l.2 })
  | none =>
    let rr := s.right.tryTake
    (rr.1, { s with left := l.2, right := rr.2 })

theorem next_eq_finish (seg : Nat → Scanline) (y : Int) (s : EdgeIt) :
    next 1 seg y s = finish y (loop seg 3 s) := by
  rfl

theorem loop_of_idx_ge (seg : Nat → Scanline) (fuel : Nat) (s : EdgeIt) (h : 3 ≤ s.idx) :
    loop seg fuel s = s := by
  cases fuel with
  | zero => rfl
  | succ f => rw [loop_succ]; simp only [show ¬ s.idx < 3 by omega, ↓reduceIte]

/-- The scanline pieces of a row, in the order `ScanlineIntersections` hands them out. -/
def rowPend (seg : Nat → Scanline) (y : Int) : List Scanline :=
  let r1 := next 1 seg y ⟨0, Scanline.newEmpty y, Scanline.newEmpty y⟩
  let r2 := next 1 seg y r1.2
  r1.1.toList ++ r2.1.toList

/-- `finish` twice: the pieces are the non-empty ones of `left`, `right` (merged if they touch). -/
theorem finish_twice (y : Int) (s : EdgeIt) (h3 : s.idx = 3) (seg : Nat → Scanline)
    (hy : s.left.y = y ∧ s.right.y = y) :
    let r1 := finish y s
    let r2 := next 1 seg y r1.2
    (∀ p ∈ r1.1.toList ++ r2.1.toList, p.xs < p.xe ∧ p.y = y) ∧
    (∀ x, (∃ p ∈ r1.1.toList ++ r2.1.toList, p.Covers x) ↔ s.left.Covers x ∨ s.right.Covers x) := by
  intro r1 r2
  have hr1 : r1 = finish y s := rfl
  have hr2 : r2 = next 1 seg y r1.2 := rfl
  -- the state after the merge
  obtain ⟨s4, hs4i, hs4y, hs4c, hfin⟩ : ∃ s4 : EdgeIt, s4.idx = 3 ∧ (s4.left.y = y ∧ s4.right.y = y) ∧
      (∀ x, s4.left.Covers x ∨ s4.right.Covers x ↔ s.left.Covers x ∨ s.right.Covers x) ∧
      (¬ Touch s4.left s4.right) ∧
      finish y s = (match s4.left.tryTake.1 with
        | some x => (some x, { s4 with left := s4.left.tryTake.2 })
        | none => (s4.right.tryTake.1, { s4 with left := s4.left.tryTake.2, right := s4.right.tryTake.2 })) := by
    by_cases ht : Touch s.left s.right
    · obtain ⟨ey, ec⟩ := tryExtend_of_touch ht
      refine ⟨{ s with left := (s.left.tryExtend s.right).2, right := Scanline.newEmpty y }, h3,
        ⟨by dsimp only; rw [ey]; exact hy.1, rfl⟩, ?_, ?_, ?_⟩
      · intro x
        dsimp only
        rw [ec x]
        have : ¬ (Scanline.newEmpty y).Covers x := not_covers_of_empty (by simp [Scanline.newEmpty]) x
        constructor
        · rintro (h | h)
          · exact h
          · exact absurd h this
        · intro h; exact Or.inl h
      · dsimp only; unfold Touch Scanline.newEmpty; dsimp only; omega
      · unfold finish
        simp only [tryExtend_fst, (touches_iff _ _).mpr ht, ↓reduceIte]
    · refine ⟨s, h3, hy, fun x => Iff.rfl, ht, ?_⟩
      have htt : s.left.touches s.right = false := by
        cases hc : s.left.touches s.right with
        | false => rfl
        | true => exact absurd ((touches_iff _ _).mp hc) ht
      unfold finish
      simp only [tryExtend_fst, htt, Bool.false_eq_true, ↓reduceIte]
  obtain ⟨hnt, hfin⟩ := hfin
  rw [hfin] at hr1
  by_cases hl : s4.left.xs < s4.left.xe
  · -- `left` is handed out first, `right` (if any) second
    have hle : s4.left.isEmpty = false := (isEmpty_false_iff _).mpr hl
    rw [tryTake_of_nonempty hle] at hr1
    dsimp only at hr1
    have e1 : r1.1 = some s4.left := by rw [hr1]
    have e2 : r1.2 = { s4 with left := ⟨s4.left.y, 0, 0⟩ } := by rw [hr1]
    rw [e2, next_eq_finish, loop_of_idx_ge _ _ _ (by dsimp only; omega)] at hr2
    have hcl : ¬ Touch (⟨s4.left.y, 0, 0⟩ : Scanline) s4.right := by unfold Touch; dsimp only; omega
    have hclt : (⟨s4.left.y, 0, 0⟩ : Scanline).touches s4.right = false := by
      cases hc : (⟨s4.left.y, 0, 0⟩ : Scanline).touches s4.right with
      | false => rfl
      | true => exact absurd ((touches_iff _ _).mp hc) hcl
    unfold finish at hr2
    simp only [tryExtend_fst, hclt, Bool.false_eq_true, ↓reduceIte,
      tryTake_of_empty (cleared_isEmpty s4.left.y)] at hr2
    by_cases hr : s4.right.xs < s4.right.xe
    · have hre : s4.right.isEmpty = false := (isEmpty_false_iff _).mpr hr
      rw [tryTake_of_nonempty hre] at hr2
      have e3 : r2.1 = some s4.right := by rw [hr2]
      rw [e1, e3]
      simp only [Option.toList_some, List.cons_append, List.nil_append, List.mem_cons,
        List.mem_nil_iff, or_false]
      refine ⟨?_, ?_⟩
      · rintro p (rfl | rfl)
        · exact ⟨hl, hs4y.1⟩
        · exact ⟨hr, hs4y.2⟩
      · intro x
        rw [← hs4c x]
        constructor
        · rintro ⟨p, rfl | rfl, hp⟩
          · exact Or.inl hp
          · exact Or.inr hp
        · rintro (h | h)
          · exact ⟨_, Or.inl rfl, h⟩
          · exact ⟨_, Or.inr rfl, h⟩
    · have hre : s4.right.isEmpty = true := (isEmpty_iff _).mpr hr
      rw [tryTake_of_empty hre] at hr2
      have e3 : r2.1 = none := by rw [hr2]
      rw [e1, e3]
      simp only [Option.toList_some, Option.toList_none, List.append_nil, List.mem_cons,
        List.mem_nil_iff, or_false]
      refine ⟨?_, ?_⟩
      · rintro p rfl
        exact ⟨hl, hs4y.1⟩
      · intro x
        rw [← hs4c x]
        constructor
        · rintro ⟨p, rfl, hp⟩; exact Or.inl hp
        · rintro (h | h)
          · exact ⟨_, rfl, h⟩
          · exact absurd h (not_covers_of_empty hr x)
  · -- `left` is empty: `right` (if any) is handed out, nothing follows
    have hle : s4.left.isEmpty = true := (isEmpty_iff _).mpr hl
    rw [tryTake_of_empty hle] at hr1
    dsimp only at hr1
    by_cases hr : s4.right.xs < s4.right.xe
    · have hre : s4.right.isEmpty = false := (isEmpty_false_iff _).mpr hr
      rw [tryTake_of_nonempty hre] at hr1
      have e1 : r1.1 = some s4.right := by rw [hr1]
      have e2 : r1.2 = { s4 with left := s4.left, right := ⟨s4.right.y, 0, 0⟩ } := by rw [hr1]
      rw [e2, next_eq_finish, loop_of_idx_ge _ _ _ (by dsimp only; omega)] at hr2
      have hcl : ¬ Touch s4.left (⟨s4.right.y, 0, 0⟩ : Scanline) := by unfold Touch; dsimp only; omega
      have hclt : s4.left.touches (⟨s4.right.y, 0, 0⟩ : Scanline) = false := by
        cases hc : s4.left.touches (⟨s4.right.y, 0, 0⟩ : Scanline) with
        | false => rfl
        | true => exact absurd ((touches_iff _ _).mp hc) hcl
      unfold finish at hr2
      simp only [tryExtend_fst, hclt, Bool.false_eq_true, ↓reduceIte, tryTake_of_empty hle,
        tryTake_of_empty (cleared_isEmpty s4.right.y)] at hr2
      have e3 : r2.1 = none := by rw [hr2]
      rw [e1, e3]
      simp only [Option.toList_some, Option.toList_none, List.append_nil, List.mem_cons,
        List.mem_nil_iff, or_false]
      refine ⟨?_, ?_⟩
      · rintro p rfl
        exact ⟨hr, hs4y.2⟩
      · intro x
        rw [← hs4c x]
        constructor
        · rintro ⟨p, rfl, hp⟩; exact Or.inr hp
        · rintro (h | h)
          · exact absurd h (not_covers_of_empty hl x)
          · exact ⟨_, rfl, h⟩
    · have hre : s4.right.isEmpty = true := (isEmpty_iff _).mpr hr
      rw [tryTake_of_empty hre] at hr1
      have e1 : r1.1 = none := by rw [hr1]
      have e2 : r1.2 = s4 := by rw [hr1]
      rw [e2, next_eq_finish, loop_of_idx_ge _ _ _ (by omega)] at hr2
      have htt : s4.left.touches s4.right = false := by
        cases hc : s4.left.touches s4.right with
        | false => rfl
        | true => exact absurd ((touches_iff _ _).mp hc) hnt
      unfold finish at hr2
      simp only [tryExtend_fst, htt, Bool.false_eq_true, ↓reduceIte, tryTake_of_empty hle,
        tryTake_of_empty hre] at hr2
      have e3 : r2.1 = none := by rw [hr2]
      rw [e1, e3]
      simp only [Option.toList_none, List.append_nil, List.not_mem_nil, false_and, exists_false,
        false_iff, not_or]
      refine ⟨fun p hp => absurd hp (by simp), ?_⟩
      intro x
      rw [← not_or, ← hs4c x]
      rintro (h | h)
      · exact not_covers_of_empty hl x h
      · exact not_covers_of_empty hr x h


/-- **The pieces of a row cover exactly what the three per-edge scanlines cover**, provided the
three are not non-empty and pairwise separated. -/
theorem rowPend_spec (seg : Nat → Scanline) (y : Int) (hy : ∀ i, (seg i).y = y)
    (H : ¬ ((seg 0).xs < (seg 0).xe ∧ (seg 1).xs < (seg 1).xe ∧ (seg 2).xs < (seg 2).xe ∧
      ¬ Touch (seg 0) (seg 1) ∧ ¬ Touch (seg 0) (seg 2) ∧ ¬ Touch (seg 1) (seg 2))) :
    (∀ p ∈ rowPend seg y, p.xs < p.xe ∧ p.y = y) ∧
    (∀ x, (∃ p ∈ rowPend seg y, p.Covers x) ↔
      (seg 0).Covers x ∨ (seg 1).Covers x ∨ (seg 2).Covers x) := by
  let s0 : EdgeIt := ⟨0, Scanline.newEmpty y, Scanline.newEmpty y⟩
  let s1 := stepState seg s0
  let s2 := stepState seg s1
  let s3 := stepState seg s2
  have hne : ¬ ((Scanline.newEmpty y).xs < (Scanline.newEmpty y).xe) := by simp [Scanline.newEmpty]
  obtain ⟨i1, y1, a1, b1, c1, d1⟩ := stepState_spec seg s0
  obtain ⟨i2, y2, a2, b2, c2, d2⟩ := stepState_spec seg s1
  obtain ⟨i3, y3, a3, b3, c3, d3⟩ := stepState_spec seg s2
  have hi1 : s1.idx = 1 := i1
  have hi2 : s2.idx = 2 := by rw [show s2.idx = s1.idx + 1 from i2, hi1]
  have hi3 : s3.idx = 3 := by rw [show s3.idx = s2.idx + 1 from i3, hi2]
  have hloop : loop seg 3 s0 = s3 := by
    rw [loop_succ, if_pos (show s0.idx < 3 from Nat.zero_lt_succ 2), loop_succ,
      if_pos (show s1.idx < 3 by rw [hi1]; omega), loop_succ,
      if_pos (show s2.idx < 3 by rw [hi2]; omega)]
    rfl
  rw [show s0.idx = 0 from rfl] at y1 a1 b1 c1 d1
  rw [hi1] at y2 a2 b2 c2 d2
  rw [hi2] at y3 a3 b3 c3 d3
  -- rows
  have hy1 := y1 y rfl rfl (hy 0)
  have hy2 := y2 y hy1.1 hy1.2 (hy 1)
  have hy3 := y3 y hy2.1 hy2.2 (hy 2)
  -- the state after the first round
  obtain ⟨e1l, e1r⟩ := d1 hne
  have hr1 : ¬ s1.right.xs < s1.right.xe := by rw [e1r]; exact hne
  -- no scanline is dropped in the third round
  have hnd : ¬ (s2.left.xs < s2.left.xe ∧ s2.right.xs < s2.right.xe ∧ (seg 2).xs < (seg 2).xe ∧
      ¬ Touch s2.left (seg 2) ∧ ¬ Touch s2.right (seg 2)) := by
    rintro ⟨_, h2r, hC, t1, t2⟩
    obtain ⟨el, er, hA, tAB⟩ := c2 hr1 h2r
    rw [el, e1l] at t1
    rw [er] at t2 h2r
    rw [e1l] at hA tAB
    exact H ⟨hA, h2r, hC, tAB, t1, t2⟩
  have cov3 : ∀ x, s3.left.Covers x ∨ s3.right.Covers x ↔
      (seg 0).Covers x ∨ (seg 1).Covers x ∨ (seg 2).Covers x := by
    intro x
    have n0 : ¬ (Scanline.newEmpty y).Covers x := not_covers_of_empty hne x
    constructor
    · intro h
      rcases a3 x h with h | h | h
      · rcases a2 x (Or.inl h) with h | h | h
        · rcases a1 x (Or.inl h) with h | h | h
          · exact absurd h n0
          · exact absurd h n0
          · exact Or.inl h
        · rcases a1 x (Or.inr h) with h | h | h
          · exact absurd h n0
          · exact absurd h n0
          · exact Or.inl h
        · exact Or.inr (Or.inl h)
      · rcases a2 x (Or.inr h) with h | h | h
        · rcases a1 x (Or.inl h) with h | h | h
          · exact absurd h n0
          · exact absurd h n0
          · exact Or.inl h
        · rcases a1 x (Or.inr h) with h | h | h
          · exact absurd h n0
          · exact absurd h n0
          · exact Or.inl h
        · exact Or.inr (Or.inl h)
      · exact Or.inr (Or.inr h)
    · intro h
      have nd1 : ¬ (s0.left.xs < s0.left.xe ∧ s0.right.xs < s0.right.xe ∧ (seg 0).xs < (seg 0).xe ∧
          ¬ Touch s0.left (seg 0) ∧ ¬ Touch s0.right (seg 0)) := fun c => hne c.1
      have nd2 : ¬ (s1.left.xs < s1.left.xe ∧ s1.right.xs < s1.right.xe ∧ (seg 1).xs < (seg 1).xe ∧
          ¬ Touch s1.left (seg 1) ∧ ¬ Touch s1.right (seg 1)) := fun c => hr1 c.2.1
      rcases h with h | h | h
      · have h1 := b1 nd1 x (Or.inr (Or.inr h))
        have h2 : s2.left.Covers x ∨ s2.right.Covers x := by
          rcases h1 with h1 | h1
          · exact b2 nd2 x (Or.inl h1)
          · exact b2 nd2 x (Or.inr (Or.inl h1))
        rcases h2 with h2 | h2
        · exact b3 hnd x (Or.inl h2)
        · exact b3 hnd x (Or.inr (Or.inl h2))
      · have h2 := b2 nd2 x (Or.inr (Or.inr h))
        rcases h2 with h2 | h2
        · exact b3 hnd x (Or.inl h2)
        · exact b3 hnd x (Or.inr (Or.inl h2))
      · exact b3 hnd x (Or.inr (Or.inr h))
  have hft := finish_twice y s3 hi3 seg hy3
  have hrp : rowPend seg y = (finish y s3).1.toList ++ (next 1 seg y (finish y s3).2).1.toList := by
    unfold rowPend
    dsimp only
    rw [next_eq_finish, hloop]
  rw [hrp]
  refine ⟨hft.1, ?_⟩
  intro x
  rw [hft.2 x, cov3 x]

end EdgeIt
end EG
