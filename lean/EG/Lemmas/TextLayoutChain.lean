/-
  EG.Lemmas.TextLayoutChain — chaining for fonts without character spacing: drawing `s1` and then
  `s2` at the returned position makes the same glyph calls and returns the same position as drawing
  `s1 ++ s2`; the decoration rectangle of the whole is the union of the two parts.
-/
import EG.Lemmas.TextLayoutLines
namespace EG
namespace TextLayout
open Font

theorem gapCalls_of_no_spacing (f : MonoFont) (h : f.spacing = 0) (hasBg : Bool) (p : Pt) :
    gapCalls f hasBg p = [] := by
  unfold gapCalls; simp [h]

/-- Without spacing the binary-target calls of `s1 ++ s2` are those of `s1`, then those of `s2`
started where `s1` ended. -/
theorem binCalls_append (f : MonoFont) (h : f.spacing = 0) (atlas : Pt → Bool) (hasBg : Bool) :
    ∀ (s1 s2 : List Nat) (pos : Pt),
      binCalls f atlas hasBg pos (s1 ++ s2) =
        binCalls f atlas hasBg pos s1 ++
          binCalls f atlas hasBg ⟨pos.x + (bbWidth f s1.length : Nat), pos.y⟩ s2
  | [], s2, pos => by
    have : (⟨pos.x + ((bbWidth f 0 : Nat) : Int), pos.y⟩ : Pt) = pos := by
      rw [Pt.ext_iff']; simp [bbWidth_zero]
    simp [binCalls, this]
  | [c], s2, pos => by
    have hw : bbWidth f 1 = f.cw := by simpa using bbWidth_succ f 0
    cases s2 with
    | nil => simp [binCalls]
    | cons c' cs =>
      simp only [List.singleton_append, binCalls, gapCalls_of_no_spacing f h, List.append_nil,
        List.length_singleton, hw, h, Int.natCast_zero, Int.add_zero]
  | c :: c' :: cs, s2, pos => by
    have ih := binCalls_append f h atlas hasBg (c' :: cs) s2 ⟨pos.x + (f.cw : Int) + (f.spacing : Int), pos.y⟩
    have hw := bbWidth_succ_succ f cs.length
    have e : (⟨pos.x + (f.cw : Int) + (f.spacing : Int) + ((bbWidth f (c' :: cs).length : Nat) : Int), pos.y⟩ : Pt) =
        ⟨pos.x + ((bbWidth f (c :: c' :: cs).length : Nat) : Int), pos.y⟩ := by
      rw [Pt.ext_iff']
      refine ⟨?_, rfl⟩
      simp only [List.length_cons, hw, Int.natCast_add]
      omega
    simp only [List.cons_append, binCalls, List.append_assoc] at ih ⊢
    rw [ih, e]

theorem drawAdvance_add (f : MonoFont) (h : f.spacing = 0) (st : Style) (a b : Nat) :
    drawAdvance f st (a + b) = drawAdvance f st a + drawAdvance f st b := by
  unfold drawAdvance
  cases st.textColor <;> cases st.bgColor <;> simp only [bbWidth_add f h, Nat.mul_add]

/-- Returned positions chain (no spacing): `draw_string(s1 ++ s2, p)` returns what
`draw_string(s2, draw_string(s1, p))` returns. -/
theorem drawString_next_append (f : MonoFont) (h : f.spacing = 0) (atlas : Pt → Bool) (st : Style)
    (s1 s2 : List Nat) (p : Pt) (bl : Baseline) :
    (f.drawString atlas st (s1 ++ s2) p bl).2 =
      (f.drawString atlas st s2 (f.drawString atlas st s1 p bl).2 bl).2 := by
  simp only [drawString_next, List.length_append, drawAdvance_add f h]
  rw [Pt.ext_iff']
  refine ⟨?_, rfl⟩
  simp only [Int.natCast_add]
  omega

/-- A decoration rectangle over `w1 + w2` columns is the union of the rectangle over the first
`w1` columns and the one over the next `w2` columns. -/
theorem decoRect_split (off h : Nat) (pos : Pt) (w1 w2 : Nat) (q : Pt) :
    (decoRect off h pos (w1 + w2)).contains q = true ↔
      (decoRect off h pos w1).contains q = true ∨
        (decoRect off h ⟨pos.x + (w1 : Int), pos.y⟩ w2).contains q = true := by
  simp only [Rect.contains_iff, decoRect, Int.natCast_add]
  omega

/-! ### `strip_suffix('\r')` and concatenation -/

theorem stripCR_append (s1 s2 : List Nat) (h : s2 ≠ []) : stripCR (s1 ++ s2) = s1 ++ stripCR s2 := by
  induction s1 with
  | nil => rfl
  | cons c s1 ih =>
    rw [List.cons_append, stripCR_cons_of_ne_nil c (s1 ++ s2) (by simp [h]), ih, List.cons_append]

theorem stripCR_of_not_cr (s : List Nat) (h : s.getLast? ≠ some 13) : stripCR s = s := by
  unfold stripCR; simp [h]

theorem stripCR_append_length (s1 s2 : List Nat) (h : s1.getLast? ≠ some 13) :
    (stripCR (s1 ++ s2)).length = (stripCR s1).length + (stripCR s2).length := by
  rw [stripCR_of_not_cr s1 h]
  by_cases h2 : s2 = []
  · subst h2; simp [stripCR_of_not_cr s1 h, stripCR_nil]
  · rw [stripCR_append s1 s2 h2, List.length_append]

end TextLayout
end EG
