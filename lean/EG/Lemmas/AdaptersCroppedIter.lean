/-
  EG.Lemmas.AdaptersCroppedIter — the `Cropped` colour iterator (state machine) equals its closed form
  for streams of any length.
-/
import EG.Lemmas.RectPoints
import EG.Model.CroppedIter
namespace EG
namespace CropIt

/-- Closed form of what the iterator state still has to yield: the rest of the current row, then
`w` colours after every `rowSkip` skipped ones. -/
def spec (it : CropIt) : List Color :=
  if it.y ≥ it.h ∨ it.w = 0 then []
  else it.rest.take (it.w - it.x) ++
    (List.range (it.h - it.y - 1)).flatMap
      (fun j => (it.rest.drop ((it.w - it.x) + it.rowSkip + j * (it.w + it.rowSkip))).take it.w)

theorem flatMap_eq_nil_of {α β : Type} (l : List α) (f : α → List β) (h : ∀ a ∈ l, f a = []) :
    l.flatMap f = [] := by
  rw [List.flatMap_eq_nil_iff]; exact h

theorem flatMap_congr' {α β : Type} (l : List α) (f g : α → List β) (h : ∀ a ∈ l, f a = g a) :
    l.flatMap f = l.flatMap g := by
  induction l with
  | nil => rfl
  | cons a l ih =>
    simp only [List.flatMap_cons]
    rw [h a List.mem_cons_self, ih (fun b hb => h b (List.mem_cons_of_mem _ hb))]

theorem next_spec (it : CropIt) (hx : it.x ≤ it.w) :
    match it.next with
    | some (c, it') => it.spec = c :: it'.spec ∧ it'.x ≤ it'.w ∧ it'.rest.length < it.rest.length
    | none => it.spec = [] := by
  unfold next
  by_cases h0 : it.y ≥ it.h ∨ it.w = 0
  · simp only [h0, ↓reduceIte]; simp [spec, h0]
  · simp only [h0, ↓reduceIte]
    by_cases hxw : it.x < it.w
    · simp only [hxw, ↓reduceIte]
      cases hr : it.rest with
      | nil =>
        simp only [spec, h0, ↓reduceIte, hr, List.take_nil, List.drop_nil, List.nil_append]
        exact flatMap_eq_nil_of _ _ (fun _ _ => rfl)
      | cons c r =>
        simp only
        refine ⟨?_, by omega, by simp⟩
        simp only [spec, h0, ↓reduceIte, hr]
        have h1 : it.w - it.x = (it.w - (it.x + 1)) + 1 := by omega
        rw [h1, List.take_succ_cons, List.cons_append]
        congr 2
        apply flatMap_congr'
        intro j _
        have : it.w - (it.x + 1) + 1 + it.rowSkip + j * (it.w + it.rowSkip)
            = (it.w - (it.x + 1) + it.rowSkip + j * (it.w + it.rowSkip)) + 1 := by omega
        rw [this, List.drop_succ_cons]
    · simp only [hxw, ↓reduceIte]
      have hxe : it.w - it.x = 0 := by omega
      by_cases hy : it.y + 1 < it.h
      · simp only [hy, ↓reduceIte]
        cases hr : it.rest.drop it.rowSkip with
        | nil =>
          simp only [spec, h0, ↓reduceIte, hxe, List.take_zero, List.nil_append, Nat.zero_add]
          apply flatMap_eq_nil_of
          intro j _
          rw [← List.drop_drop, hr]; simp
        | cons c r =>
          simp only
          have h0' : ¬ (it.y + 1 ≥ it.h ∨ it.w = 0) := by omega
          refine ⟨?_, by omega, ?_⟩
          · simp only [spec, h0, h0', ↓reduceIte, hxe, List.take_zero, List.nil_append, Nat.zero_add]
            have hh : it.h - it.y - 1 = (it.h - (it.y + 1) - 1) + 1 := by omega
            rw [hh, List.range_succ_eq_map, List.flatMap_cons, List.flatMap_map]
            simp only [Nat.zero_mul, Nat.add_zero]
            rw [hr]
            have hw : it.w = (it.w - 1) + 1 := by omega
            conv => lhs; arg 1; rw [hw, List.take_succ_cons]
            rw [List.cons_append]
            congr 2
            apply flatMap_congr'
            intro j _
            have : it.rowSkip + (j + 1) * (it.w + it.rowSkip)
                = (it.w - 1 + it.rowSkip + j * (it.w + it.rowSkip) + 1) + it.rowSkip := by
              rw [Nat.succ_mul]; omega
            rw [this, Nat.add_comm _ it.rowSkip, ← List.drop_drop, hr, List.drop_succ_cons]
          · have := congrArg List.length hr
            simp only [List.length_drop, List.length_cons] at this
            omega
      · simp only [hy, ↓reduceIte]
        have : it.h - it.y - 1 = 0 := by omega
        simp [spec, h0, hxe, this]

theorem toListFuel_eq : ∀ (fuel : Nat) (it : CropIt), it.x ≤ it.w → it.rest.length < fuel →
    it.toListFuel fuel = it.spec := by
  intro fuel
  induction fuel with
  | zero => intro it _ h; omega
  | succ fuel ih =>
    intro it hx h
    unfold toListFuel
    have := it.next_spec hx
    split <;> rename_i heq <;> rw [heq] at this <;> simp only at this
    · rw [this.1, ih _ this.2.1 (by omega)]
    · exact this.symm

theorem toList_eq_spec (it : CropIt) (hx : it.x ≤ it.w) : it.toList = it.spec :=
  toListFuel_eq _ it hx (by omega)

/-- The crop used by `new` lies inside `0..size` whenever it has points; so it is at most as wide
as `size` unless it is zero-height (where `Rectangle::intersection` returns its operand). -/
theorem cropOf_bounds (size : Sz) (cropArea : Rect) (hw : 0 < (cropOf size cropArea).size.w)
    (hh : 0 < (cropOf size cropArea).size.h) :
    0 ≤ (cropOf size cropArea).tl.x ∧ 0 ≤ (cropOf size cropArea).tl.y ∧
    (cropOf size cropArea).tl.x + (cropOf size cropArea).size.w ≤ size.w ∧
    (cropOf size cropArea).tl.y + (cropOf size cropArea).size.h ≤ size.h := by
  have h1 := (Rect.mem_intersection (Rect.mk Pt.zero size) cropArea (cropOf size cropArea).tl).mp
    (by rw [Rect.contains_iff]; unfold cropOf at hw hh ⊢; omega)
  have h2 := (Rect.mem_intersection (Rect.mk Pt.zero size) cropArea
      ⟨(cropOf size cropArea).tl.x + (cropOf size cropArea).size.w - 1,
       (cropOf size cropArea).tl.y + (cropOf size cropArea).size.h - 1⟩).mp
    (by rw [Rect.contains_iff]; unfold cropOf at hw hh ⊢; simp only; omega)
  have h1' := h1.1; have h2' := h2.1
  rw [Rect.contains_iff] at h1' h2'
  simp only [Pt.zero] at h1' h2'
  omega

theorem cropOf_w_le (size : Sz) (cropArea : Rect) :
    (cropOf size cropArea).size.w ≤ size.w ∨ (cropOf size cropArea).size.h = 0 := by
  by_cases hh : (cropOf size cropArea).size.h = 0
  · exact Or.inr hh
  · by_cases hw : (cropOf size cropArea).size.w = 0
    · left; omega
    · have := cropOf_bounds size cropArea (by omega) (by omega); left; omega

end CropIt

/-- `Cropped::new` with the intersected crop area given. -/
def CropIt.newOf (cs : List Color) (W : Nat) (crop : Rect) : CropIt :=
  let initialSkip := crop.tl.y.toNat * W + crop.tl.x.toNat
  { rest := if initialSkip > 0 then cs.drop (initialSkip - 1 + 1) else cs
    x := 0, y := 0, w := crop.size.w, h := crop.size.h
    rowSkip := W - crop.size.w }

theorem CropIt.new_eq (cs : List Color) (size : Sz) (cropArea : Rect) :
    CropIt.new cs size cropArea = CropIt.newOf cs size.w (CropIt.cropOf size cropArea) := rfl

theorem CropIt.newOf_spec (cs : List Color) (W : Nat) (crop : Rect)
    (hle : crop.size.w ≤ W ∨ crop.size.h = 0) :
    (CropIt.newOf cs W crop).spec = (List.range crop.size.h).flatMap
      (fun j => (cs.drop ((crop.tl.y.toNat + j) * W + crop.tl.x.toNat)).take crop.size.w) := by
  simp only [CropIt.spec, CropIt.newOf]
  by_cases h0 : 0 ≥ crop.size.h ∨ crop.size.w = 0
  · simp only [h0, ↓reduceIte]
    rcases h0 with h0 | h0
    · have : crop.size.h = 0 := by omega
      simp [this]
    · symm; apply CropIt.flatMap_eq_nil_of; intro j _; simp [h0]
  · simp only [h0, ↓reduceIte]
    have hw : crop.size.w ≤ W := by omega
    have hrest : (if crop.tl.y.toNat * W + crop.tl.x.toNat > 0
        then List.drop (crop.tl.y.toNat * W + crop.tl.x.toNat - 1 + 1) cs else cs)
        = cs.drop (crop.tl.y.toNat * W + crop.tl.x.toNat) := by
      split
      · congr 1; omega
      · have : crop.tl.y.toNat * W + crop.tl.x.toNat = 0 := by omega
        rw [this]; rfl
    rw [hrest]
    have hh : crop.size.h = (crop.size.h - 0 - 1) + 1 := by omega
    conv => rhs; rw [hh, List.range_succ_eq_map, List.flatMap_cons, List.flatMap_map]
    simp only [Nat.sub_zero, Nat.add_zero]
    congr 1
    apply CropIt.flatMap_congr'
    intro j _
    simp only [List.drop_drop]
    congr 2
    have : crop.size.w + (W - crop.size.w) = W := by omega
    rw [this, Nat.add_mul, Nat.succ_mul]
    omega

/-- **`Cropped` yields exactly rows `y0..y0+h` / columns `x0..x0+w` of the row-major stream**, for
every size, crop area and stream length (short streams truncate at the right place). -/
theorem croppedList_eq_spec (cs : List Color) (size : Sz) (cropArea : Rect) :
    croppedList cs size cropArea = croppedSpec cs size cropArea := by
  unfold croppedList croppedSpec
  rw [CropIt.toList_eq_spec _ (by simp [CropIt.new]), CropIt.new_eq,
    CropIt.newOf_spec _ _ _ (CropIt.cropOf_w_le size cropArea)]

end EG

namespace EG

/-- The top-left corner of the crop used by `Cropped::new` is never negative, so the casts
`crop_area.top_left.y as usize`, `.x as usize` of the real code never wrap (`toNat` in the model
is the identity on these values). -/
theorem CropIt.cropOf_tl_nonneg (size : Sz) (cropArea : Rect) :
    0 ≤ (CropIt.cropOf size cropArea).tl.x ∧ 0 ≤ (CropIt.cropOf size cropArea).tl.y := by
  unfold CropIt.cropOf Rect.intersection
  by_cases ha : 0 < size.w ∧ 0 < size.h <;> by_cases hb : 0 < cropArea.size.w ∧ 0 < cropArea.size.h
  · rw [Rect.bottomRight_some (r := ⟨Pt.zero, size⟩) ha, Rect.bottomRight_some hb]
    simp only
    split
    · rename_i ho
      simp only [Pt.zero] at ho
      rw [Bool.and_eq_true, Rect.overlaps_iff (by omega) (by omega),
        Rect.overlaps_iff (by omega) (by omega)] at ho
      simp only [Rect.withCorners, Pt.componentMax, Pt.componentMin, Pt.zero]; omega
    · simp [Rect.zero, Pt.zero]
  · rw [Rect.bottomRight_some (r := ⟨Pt.zero, size⟩) ha, Rect.bottomRight_none hb]
    simp only
    split
    · rename_i hc; rw [Rect.contains_iff] at hc; simp only [Pt.zero] at hc; omega
    · simp [Rect.zero, Pt.zero]
  · rw [Rect.bottomRight_none (r := ⟨Pt.zero, size⟩) ha, Rect.bottomRight_some hb]
    simp only
    split
    · simp [Pt.zero]
    · simp [Rect.zero, Pt.zero]
  · rw [Rect.bottomRight_none (r := ⟨Pt.zero, size⟩) ha, Rect.bottomRight_none hb]
    simp [Rect.zero, Pt.zero]

end EG
