/-
  EG.Lemmas.ThickGeoMid — the middle slab of a stroked line.
  With `T(q) = 2 (dt q - dt start) - L2` the middle slab of the oracle is `T(q)^2 <= 4 L2`
  (projection within one pixel of the midpoint).
  * `parPts_ivt`: along a parallel `T` grows by at most `2 (D + d) <= 2 sqrt2 L` per point, so a
    parallel that starts below the upper edge of the slab and ends above its lower edge has a
    point in it;
  * `par_mid`: every parallel of a stroke (non-zero length) has a point in the middle slab;
  * `thickPoints_mid_extent`: the points found in the outermost left and right parallels are more
    than `2 D (N - 2)` apart in `ph` (`N` parallels), and `N` is bounded below by the accumulator.
-/
import EG.Lemmas.ThickGeoBand
set_option linter.unusedSimpArgs false
set_option linter.unnecessarySeqFocus false
namespace EG
namespace Thick
open ParallelsIterator StrokeCtx Line

/-- `t <= 2 L`, `t >= -2 L`, `|t| <= 2 L` for `S = L^2`, without square roots. -/
def HiP (S t : Int) : Prop := t ≤ 0 ∨ t * t ≤ 4 * S
def LoP (S t : Int) : Prop := 0 ≤ t ∨ t * t ≤ 4 * S
def MidP (S t : Int) : Prop := t * t ≤ 4 * S

theorem mid_of_hi_lo {S t : Int} (hS : 0 ≤ S) (h1 : HiP S t) (h2 : LoP S t) : MidP S t := by
  unfold HiP LoP MidP at *
  rcases h1 with h1 | h1
  · rcases h2 with h2 | h2
    · have : t = 0 := by omega
      subst this; omega
    · exact h2
  · exact h1

/-- One step along a parallel cannot jump over the slab. -/
theorem hi_step (S t0 sg t1 : Int) (hS : 0 < S) (h0 : ¬ LoP S t0) (_hs0 : 0 ≤ sg)
    (hs : sg * sg ≤ 8 * S) (h1 : t1 = t0 + sg) : HiP S t1 := by
  unfold LoP at h0
  unfold HiP
  by_contra hc
  have ht0 : t0 < 0 := by omega
  have ht0' : 4 * S < t0 * t0 := by omega
  have ht1 : 0 < t1 := by omega
  have ht1' : 4 * S < t1 * t1 := by omega
  -- u = -t0 > 0, sg = t1 + u
  have hu : 4 * S < (-t0) * (-t0) := by rw [Int.neg_mul_neg]; exact ht0'
  have hprod : 4 * S < t1 * (-t0) := by
    by_contra hp
    have hp' : t1 * (-t0) ≤ 4 * S := by omega
    have h0' : 0 ≤ t1 * (-t0) := Int.mul_nonneg (by omega) (by omega)
    have h2 : (t1 * (-t0)) * (t1 * (-t0)) ≤ (4 * S) * (4 * S) := Int.mul_le_mul hp' hp' h0' (by omega)
    have h3 : (4 * S) * (4 * S) < (t1 * t1) * ((-t0) * (-t0)) := by
      have a1 : (4 * S) * (4 * S) < (t1 * t1) * (4 * S) := by nlinarith
      have a2 : (t1 * t1) * (4 * S) ≤ (t1 * t1) * ((-t0) * (-t0)) :=
        Int.mul_le_mul_of_nonneg_left (by omega) (by omega)
      omega
    nlinarith
  have : sg * sg = t1 * t1 + 2 * (t1 * (-t0)) + (-t0) * (-t0) := by rw [show sg = t1 + -t0 by omega]; ring
  omega

namespace StrokeCtx
/-- `T(q) = 2 (dt q - dt start) - L2`. -/
def tmid (c : StrokeCtx) (s q : Pt) : Int := 2 * (c.dt q - c.dt s) - (c.D * c.D + c.d * c.d)
end StrokeCtx

theorem next_pt_cases (c : StrokeCtx) (b : Bresenham) :
    ((b.next c.pp).1 = b.point ∨ (b.next c.pp).1 = b.point + c.m) ∧
    (b.next c.pp).2.point = (b.next c.pp).1 + c.M := by
  unfold Bresenham.next StrokeCtx.pp
  by_cases hE : b.error > c.D
  · simp only [hE, ↓reduceIte]; exact ⟨Or.inr trivial, trivial⟩
  · simp only [hE, ↓reduceIte]; exact ⟨Or.inl trivial, trivial⟩

/-- **Intermediate value along a parallel.** -/
theorem parPts_ivt (c : StrokeCtx) (hv : c.Valid) (s : Pt) :
    ∀ (n : Nat) (b : Bresenham),
    HiP (c.D * c.D + c.d * c.d) (c.tmid s (b.next c.pp).1) →
    (∃ q ∈ parPts n b c.pp, MidP (c.D * c.D + c.d * c.d) (c.tmid s q)) ∨
    (∀ q ∈ parPts n b c.pp, ¬ LoP (c.D * c.D + c.d * c.d) (c.tmid s q))
  | 0, _, _ => Or.inr (fun q hq => by cases hq)
  | n + 1, b, hhi => by
    have hD := hv.hD
    have hd0 := hv.hd0
    have hdD := hv.hdD
    have hS : 0 < c.D * c.D + c.d * c.d := by nlinarith
    unfold parPts
    by_cases hlo : LoP (c.D * c.D + c.d * c.d) (c.tmid s (b.next c.pp).1)
    · exact Or.inl ⟨_, List.mem_cons_self, mid_of_hi_lo (by omega) hhi hlo⟩
    · -- the next point is at most `D + d` further along the line
      obtain ⟨_, h2⟩ := next_pt_cases c b
      obtain ⟨h3, _⟩ := next_pt_cases c (b.next c.pp).2
      have hstep : ∃ sg, 0 ≤ sg ∧ sg * sg ≤ 8 * (c.D * c.D + c.d * c.d) ∧
          c.tmid s ((b.next c.pp).2.next c.pp).1 = c.tmid s (b.next c.pp).1 + sg := by
        have e1 := dt_M hv.ax
        have e2 := dt_m hv.ax
        rcases h3 with h3 | h3
        · refine ⟨2 * c.D, by omega, by nlinarith, ?_⟩
          unfold StrokeCtx.tmid; rw [h3, h2, dt_add, e1]; omega
        · refine ⟨2 * (c.D + c.d), by omega, by nlinarith, ?_⟩
          unfold StrokeCtx.tmid; rw [h3, h2, dt_add, dt_add, e1, e2]; omega
      obtain ⟨sg, g1, g2, g3⟩ := hstep
      have hhi' := hi_step _ _ sg _ hS hlo g1 g2 g3
      rcases parPts_ivt c hv s n (b.next c.pp).2 hhi' with ⟨q, hq, hm⟩ | hall
      · exact Or.inl ⟨q, List.mem_cons_of_mem _ hq, hm⟩
      · right
        intro q hq
        rcases List.mem_cons.mp hq with rfl | hq
        · exact hlo
        · exact hall q hq

theorem amaj_smul (c : StrokeCtx) (k : Int) (v : Pt) : c.amaj (smul k v) = k * c.amaj v := by
  unfold amaj; simp only [smul_x, smul_y]; ring
theorem amin_smul (c : StrokeCtx) (k : Int) (v : Pt) : c.amin (smul k v) = k * c.amin v := by
  unfold amin; simp only [smul_x, smul_y]; ring

/-- The coordinates of `delta` in the line's frame. -/
theorem delta_coords (l : Line) :
    (ctxOf l).amaj ((paramLine l).stop - (paramLine l).start) = (ctxOf l).D ∧
    (ctxOf l).amin ((paramLine l).stop - (paramLine l).start) = (ctxOf l).d := by
  have hv := ctxOf_valid l
  have h : (paramLine l).stop - (paramLine l).start =
      smul (ctxOf l).D (ctxOf l).M + smul (ctxOf l).d (ctxOf l).m := delta_decomp (paramLine l)
  rw [h, amaj_add, amin_add, amaj_smul, amaj_smul, amin_smul, amin_smul, amaj_M hv.ax, amaj_m hv.ax,
    amin_M hv.ax, amin_m hv.ax]
  constructor <;> omega

/-- **Every parallel of a stroke of non-zero length has a point in the middle slab.** -/
theorem par_mid (l : Line) (hnd : l.start ≠ l.stop) (K : Int) (b : Bresenham) (ty : ParallelLineType)
    (hok : ParOK (ctxOf l) l.start K b ty) :
    ∃ q ∈ parPts (lenOf (majorLength l) ty) b (ctxOf l).pp,
      MidP ((ctxOf l).D * (ctxOf l).D + (ctxOf l).d * (ctxOf l).d) ((ctxOf l).tmid l.start q) := by
  have hv := ctxOf_valid l
  have hD := hv.hD
  have hd0 := hv.hd0
  have hdD := hv.hdD
  obtain ⟨e1, e2⟩ := parOK_err hv hok
  have hp : paramLine l = l := by simp [paramLine, hnd]
  have hDl : (ctxOf l).D = dmaj l := by unfold ctxOf; rw [hp]
  have hlen : (majorLength l : Int) = (ctxOf l).D + 1 := by
    rw [majorLength_eq, hDl]; have := dmaj_nonneg l; omega
  obtain ⟨hca, hci⟩ := delta_coords l
  have hS1 : (ctxOf l).D + 2 * (ctxOf l).d - 1 ≤
      (ctxOf l).D * (ctxOf l).D + (ctxOf l).d * (ctxOf l).d := by nlinarith
  have hS2 : (ctxOf l).D ≤ (ctxOf l).D * (ctxOf l).D + (ctxOf l).d * (ctxOf l).d := by nlinarith
  have hS3 : 1 ≤ (ctxOf l).D * (ctxOf l).D + (ctxOf l).d * (ctxOf l).d := by nlinarith
  obtain ⟨hK, _, o1, o2⟩ := hok
  have heD : b.error ≤ (ctxOf l).D := by
    cases ty with
    | normal => exact (o1 rfl).1
    | extra => have := (o2 rfl).1; omega
  -- the first point is the start of the parallel, below the upper edge of the slab
  have hfirst : (b.next (ctxOf l).pp).1 = b.point := by
    unfold Bresenham.next StrokeCtx.pp
    have : ¬ b.error > (ctxOf l).D := by omega
    simp only [this, ↓reduceIte]
  have hhi : HiP ((ctxOf l).D * (ctxOf l).D + (ctxOf l).d * (ctxOf l).d)
      ((ctxOf l).tmid l.start (b.next (ctxOf l).pp).1) := by
    rw [hfirst]
    unfold HiP StrokeCtx.tmid
    have hle : 2 * ((ctxOf l).dt b.point - (ctxOf l).dt l.start) ≤ (ctxOf l).D + 2 * (ctxOf l).d := by
      cases ty with
      | normal => have := (o1 rfl).2.2; omega
      | extra => exact (o2 rfl).2.2.2
    by_cases h0 : 2 * ((ctxOf l).dt b.point - (ctxOf l).dt l.start) -
        ((ctxOf l).D * (ctxOf l).D + (ctxOf l).d * (ctxOf l).d) ≤ 0
    · exact Or.inl h0
    · right
      have : 2 * ((ctxOf l).dt b.point - (ctxOf l).dt l.start) -
          ((ctxOf l).D * (ctxOf l).D + (ctxOf l).d * (ctxOf l).d) = 1 := by omega
      rw [this]; omega
  rcases parPts_ivt (ctxOf l) hv l.start _ b hhi with h | hall
  · exact h
  · exfalso
    -- the last point of the parallel lies above the lower edge of the slab
    have hdtD : (ctxOf l).dt ((paramLine l).stop - (paramLine l).start) =
        (ctxOf l).D * (ctxOf l).D + (ctxOf l).d * (ctxOf l).d := by
      unfold dt; rw [hca, hci]
    have hphD : (ctxOf l).ph ((paramLine l).stop - (paramLine l).start) = 0 := by
      unfold ph; rw [hca, hci]; ring
    have eM1 := amaj_M hv.ax
    have eM2 := amaj_m hv.ax
    cases ty with
    | normal =>
      obtain ⟨_, g1, _⟩ := o1 rfl
      have hmem : b.point + ((paramLine l).stop - (paramLine l).start) ∈
          parPts (lenOf (majorLength l) .normal) b (ctxOf l).pp := by
        apply parPts_complete (ctxOf l) hv _ b e1 e2
        · rw [amaj_add, hca]; omega
        · rw [amaj_add, hca]; show _ < _ + ((majorLength l : Nat) : Int); omega
        · unfold InBandK bandK; rw [ph_add, hphD]; constructor <;> omega
      apply hall _ hmem
      unfold LoP StrokeCtx.tmid
      rw [dt_add, hdtD]
      left; omega
    | extra =>
      obtain ⟨g0, _, g1, _⟩ := o2 rfl
      have hmem : b.point + ((paramLine l).stop - (paramLine l).start) - ((ctxOf l).M + (ctxOf l).m) ∈
          parPts (lenOf (majorLength l) .extra) b (ctxOf l).pp := by
        apply parPts_complete (ctxOf l) hv _ b e1 e2
        · rw [amaj_sub, amaj_add, amaj_add, hca, eM1, eM2]; omega
        · rw [amaj_sub, amaj_add, amaj_add, hca, eM1, eM2]
          show _ < _ + ((majorLength l - 1 : Nat) : Int); omega
        · unfold InBandK bandK
          rw [ph_sub, ph_add, ph_add, hphD, ph_M hv.ax, ph_m hv.ax]; constructor <;> omega
      apply hall _ hmem
      unfold LoP StrokeCtx.tmid
      rw [dt_sub, dt_add, dt_add, hdtD, dt_M hv.ax, dt_m hv.ax]
      by_cases h0 : 0 ≤ 2 * ((ctxOf l).dt b.point + ((ctxOf l).D * (ctxOf l).D + (ctxOf l).d * (ctxOf l).d) -
          ((ctxOf l).D + (ctxOf l).d) - (ctxOf l).dt l.start) -
          ((ctxOf l).D * (ctxOf l).D + (ctxOf l).d * (ctxOf l).d)
      · exact Or.inl h0
      · right
        have : 2 * ((ctxOf l).dt b.point + ((ctxOf l).D * (ctxOf l).D + (ctxOf l).d * (ctxOf l).d) -
          ((ctxOf l).D + (ctxOf l).d) - (ctxOf l).dt l.start) -
          ((ctxOf l).D * (ctxOf l).D + (ctxOf l).d * (ctxOf l).d) = -1 := by omega
        rw [this]; omega

/-- The accumulator bound turned into a lower bound on the extent, without square roots. -/
theorem extent_arith (D d S w A Z : Int) (hD : 0 < D) (hd0 : 0 ≤ d) (hdD : d ≤ D)
    (hS : S = D * D + d * d) (hw : 3 ≤ w) (hA0 : 0 ≤ A) (hA : A * A > w * 2 * (w * 2) * S)
    (hZ0 : 0 ≤ Z) (hZ : A < Z + 5 * D + d) : (2 * w - 6) * (2 * w - 6) * S ≤ Z * Z := by
  by_contra hc
  have hS0 : 0 ≤ S := by rw [hS]; nlinarith
  have h1 : Z * Z ≤ (2 * w - 6) * (2 * w - 6) * S := by omega
  have h2 : (5 * D + d) * (5 * D + d) ≤ 6 * 6 * S := by rw [hS]; nlinarith
  have h3 := sq_add_le Z (5 * D + d) (2 * w - 6) 6 S hZ0 (by omega) (by omega) (by omega) hS0 h1 h2
  have h4 : A * A ≤ (Z + (5 * D + d)) * (Z + (5 * D + d)) :=
    Int.mul_le_mul (by omega) (by omega) hA0 (by omega)
  have h5 : (2 * w - 6 + 6) * (2 * w - 6 + 6) = w * 2 * (w * 2) := by ring
  rw [h5] at h3
  omega

/-- **The middle slab of a stroked line**: there are two pixels `q1`, `q2` in the middle slab whose
band values `X = ph q - ph start` (`= -+ 2 cross`) differ by at least `2 (w - 3) L`:
`(X1 - X2)^2 >= (2 w - 6)^2 L2` for `w >= 3`. -/
theorem thickPoints_mid_extent (l : Line) (hnd : l.start ≠ l.stop) (w : Nat) (hw : 1 ≤ w)
    (hw2 : w ≤ 2147483647) (ps : List Pt) (hps : thickPoints l w = some ps) :
    ∃ q1 ∈ ps, ∃ q2 ∈ ps,
      MidP ((ctxOf l).D * (ctxOf l).D + (ctxOf l).d * (ctxOf l).d) ((ctxOf l).tmid l.start q1) ∧
      MidP ((ctxOf l).D * (ctxOf l).D + (ctxOf l).d * (ctxOf l).d) ((ctxOf l).tmid l.start q2) ∧
      (3 ≤ w → (2 * (w : Int) - 6) * (2 * (w : Int) - 6) *
          ((ctxOf l).D * (ctxOf l).D + (ctxOf l).d * (ctxOf l).d) ≤
        ((ctxOf l).ph q1 - (ctxOf l).ph q2) * ((ctxOf l).ph q1 - (ctxOf l).ph q2)) := by
  have hv := ctxOf_valid l
  have hD := hv.hD
  have hd0 := hv.hd0
  have hdD := hv.hdD
  have hfr := frameOK_ctxOf l
  have hsat : satAsI32 w = (w : Int) := by unfold satAsI32; simp only [hw2, ↓reduceIte]
  obtain ⟨it, xs, hnew, hrun, rfl⟩ := thickPoints_run l w (by omega) ps hps
  obtain ⟨it', hnew', hside, hg, hacc, hthr⟩ := new_ninv l (satAsI32 w)
  rw [hnew] at hnew'
  simp only [Option.some.injEq] at hnew'
  subst hnew'
  rw [hsat, L2_eq] at hthr
  obtain ⟨nL, nR, A, _, _, hlr, hA0, hA, hAle, hcov⟩ := run_cover (ctxOf l) hv _ hfr l.start _ hrun 0 0 hg
    (Or.inl ⟨hside, rfl⟩) hthr (by rw [hacc]; simp) (by rw [hacc]; omega)
  -- at least the centre line has been yielded
  have hnR : 1 ≤ nR := by
    by_contra hc
    have h0 : nR = 0 := by omega
    have h1 : nL = 0 := by rcases hlr with h | h <;> omega
    rw [h0, h1] at hAle
    simp only [Nat.cast_zero, Int.add_zero, Int.mul_zero] at hAle
    have h2 : A * A ≤ ((ctxOf l).D + (ctxOf l).d) * ((ctxOf l).D + (ctxOf l).d) :=
      Int.mul_le_mul hAle hAle hA0 (by omega)
    have h3 : ((ctxOf l).D + (ctxOf l).d) * ((ctxOf l).D + (ctxOf l).d) ≤
        1 * 2 * (1 * 2) * ((ctxOf l).D * (ctxOf l).D + (ctxOf l).d * (ctxOf l).d) := by nlinarith
    have h4 : (1 : Int) * 2 * (1 * 2) ≤ (w : Int) * 2 * ((w : Int) * 2) := by
      have : (1 : Int) ≤ w := by omega
      nlinarith
    have h5 := Int.mul_le_mul_of_nonneg_right h4
      (show 0 ≤ (ctxOf l).D * (ctxOf l).D + (ctxOf l).d * (ctxOf l).d by nlinarith)
    omega
  -- the outermost left and right bands
  obtain ⟨x1, hx1, hok1⟩ := hcov (nL : Int) (by
    by_cases h0 : nL = 0
    · right; rw [h0]; simp; omega
    · left; constructor <;> simp <;> omega)
  obtain ⟨x2, hx2, hok2⟩ := hcov (1 - (nR : Int)) (by right; simp; omega)
  obtain ⟨q1, hq1, hm1⟩ := par_mid l hnd _ x1.2.1 x1.2.2 hok1
  obtain ⟨q2, hq2, hm2⟩ := par_mid l hnd _ x2.2.1 x2.2.2 hok2
  refine ⟨q1, List.mem_flatMap.mpr ⟨x1, hx1, hq1⟩, q2, List.mem_flatMap.mpr ⟨x2, hx2, hq2⟩, hm1, hm2, ?_⟩
  intro hw3
  obtain ⟨a1, a2⟩ := parPts_band hv hok1 _ q1 hq1
  obtain ⟨a3, a4⟩ := parPts_band hv hok2 _ q2 hq2
  -- |X1 - X2| > 2 D (N - 2)
  obtain ⟨Z, hZ0, hZZ, hZ1, hZ2⟩ := abs_exists ((ctxOf l).ph q1 - (ctxOf l).ph q2)
  rw [← hZZ]
  apply extent_arith (ctxOf l).D (ctxOf l).d _ w A Z hD hd0 hdD rfl (by omega) hA0 hA hZ0
  have hN : (ctxOf l).D * ((nL : Int) + nR) = (ctxOf l).D * nL + (ctxOf l).D * nR := Int.mul_add _ _ _
  rcases tau_cases hfr with ht | ht <;> rw [ht] at a1 a2 a3 a4 <;> nlinarith

end Thick
end EG
