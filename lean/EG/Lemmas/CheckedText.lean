/-
  EG.Lemmas.CheckedText — range theorems of the text metrics (`LineHeight::to_absolute`,
  `measure_string`, the alignment shift and the line advance of `Text::lines()`,
  `Text::bounding_box()`), for texts of `k` lines of `n` characters in a monospaced font.

  Text domain `T` (display scale: positions +-1024, line height <= 1024 px or 400 % of a glyph
  height <= 1024, i.e. <= 4096):
    positions within +-2^20, line height (after `to_absolute`) <= 2^20, at most 1024 lines,
    line width `n * (cw + sp) <= 2^27` (e.g. 65536 characters of 2048 px), glyph height <= 2^20.
-/
import EG.Lemmas.Checked
import EG.Model.CheckedData
namespace EG.Chk.TextM
open EG EG.Chk EG.TextM

/-- closes goals `some <point / rect expression> = some <the same, spelled differently>` -/
macro "pt_close" : tactic =>
  `(tactic| (simp only [Option.some.injEq, Prod.mk.injEq, Rect.mk.injEq, Sz.mk.injEq, Pt.ext_iff',
      Pt.sub_x, Pt.sub_y, Pt.add_x, Pt.add_y, Pt.zero, Int.zero_add, Int.sub_zero, and_true, true_and] <;> omega))

theorem tdiv2_zero : tdiv2 (0 : Int) = 0 := by decide

/-- `base * percent` fits `u32` (nothing to check for `LineHeight::Pixels`). -/
def PercentFits (base : Nat) : LineHeight → Prop
  | .pixels _ => True
  | .percent p => base * p ≤ 4294967295

theorem toAbsolute_ok {lh : LineHeight} {base : Nat}
    (h : PercentFits base lh) :
    toAbsolute lh base = some (EG.TextM.toAbsolute lh base) := by
  unfold toAbsolute EG.TextM.toAbsolute
  cases lh with
  | pixels px => rfl
  | percent p => simp only [PercentFits] at h ⊢; chk_simp

theorem lineHeight_ok {m : Metrics} {lh : LineHeight}
    (h : PercentFits m.ch lh) :
    lineHeight m lh = some (EG.TextM.lineHeight m lh) := by
  unfold lineHeight EG.TextM.lineHeight
  rw [toAbsolute_ok h]; rfl

theorem lineWidth_ok {m : Metrics} {n : Nat} (hn : n ≤ 4294967295)
    (h : n * (m.cw + m.sp) ≤ 4294967295) (hs : m.cw + m.sp ≤ 4294967295) :
    lineWidth m n = some (EG.TextM.lineWidth m n) := by
  unfold lineWidth EG.TextM.lineWidth
  have : n % 4294967296 = n := Nat.mod_eq_of_lt (by omega)
  rw [this]
  chk_simp

theorem satAsI32_bounds (n : Nat) : 0 ≤ satAsI32 n ∧ satAsI32 n ≤ 2147483647 ∧ satAsI32 n ≤ n := by
  unfold satAsI32; split <;> omega

theorem baselineOffset_bounds (m : Metrics) (bl : Baseline) :
    0 ≤ baselineOffset m bl ∧ baselineOffset m bl ≤ max (m.ch : Int) m.bl := by
  unfold baselineOffset
  cases bl <;> simp only
  · omega
  · have := satAsI32_bounds (m.ch - 1); omega
  · have := satAsI32_bounds ((m.ch - 1) / 2); omega
  · have := satAsI32_bounds m.bl; omega

/-- `measure_string` at any position within +-2^29, for glyph heights / baselines up to 2^29
and line widths up to 2^29. -/
theorem measureString_ok {m : Metrics} {bl : Baseline} {n : Nat} {p : Pt}
    (hp : (-536870912 ≤ p.x ∧ p.x ≤ 536870912) ∧ (-1200000000 ≤ p.y ∧ p.y ≤ 1200000000))
    (hm : m.ch ≤ 536870912 ∧ m.bl ≤ 536870912) (hn : n ≤ 4294967295)
    (hw : n * (m.cw + m.sp) ≤ 536870912) (hs : m.cw + m.sp ≤ 4294967295) :
    measureString m bl n p =
      some (⟨⟨p.x, p.y - baselineOffset m bl⟩, ⟨EG.TextM.lineWidth m n, m.ch⟩⟩,
            ⟨p.x + EG.TextM.lineWidth m n, p.y⟩) := by
  obtain ⟨⟨_, _⟩, ⟨_, _⟩⟩ := hp
  have hb := baselineOffset_bounds m bl
  have hlw : EG.TextM.lineWidth m n ≤ 536870912 := by unfold EG.TextM.lineWidth; omega
  unfold measureString
  rw [ptSub_ok (by simp only; omega) (by simp only; omega)]
  rw [lineWidth_ok hn (by omega) hs]
  chk_simp
  rw [ptAddSize_ok (by simp only; omega) (by simp only; omega) (by simp only; omega) (by simp only; omega)]
  chk_simp
  pt_close

/-- The alignment shift of `Text::lines()`. -/
theorem alignedPos_ok {m : Metrics} {bl : Baseline} (al : Alignment) {n : Nat} {p : Pt}
    (hp : (-1073741824 ≤ p.x ∧ p.x ≤ 1073741824) ∧ (-2147483648 ≤ p.y ∧ p.y ≤ 2147483647))
    (hm : m.ch ≤ 536870912 ∧ m.bl ≤ 536870912) (hn : n ≤ 4294967295)
    (hw : n * (m.cw + m.sp) ≤ 536870912) (hs : m.cw + m.sp ≤ 4294967295) :
    alignedPos m bl al p n =
      some (match al with
        | .left => p
        | .right => ⟨p.x - ((EG.TextM.lineWidth m n : Int) - 1), p.y⟩
        | .center => ⟨p.x - tdiv2 ((EG.TextM.lineWidth m n : Int) - 1), p.y⟩) := by
  obtain ⟨⟨_, _⟩, ⟨_, _⟩⟩ := hp
  have hlw : EG.TextM.lineWidth m n ≤ 536870912 := by unfold EG.TextM.lineWidth; omega
  unfold alignedPos
  cases al with
  | left => rfl
  | right =>
    simp only
    rw [measureString_ok (by simp [Pt.zero]) hm hn hw hs]
    chk_simp
    rw [ptSub_ok (by simp only [Pt.zero]; omega) (by simp only [Pt.zero]; omega)]
    chk_simp
    rw [ptSub_ok (by simp only [Pt.sub_x, Pt.zero]; omega) (by simp only [Pt.sub_y, Pt.zero]; omega)]
    pt_close
  | center =>
    simp only
    rw [measureString_ok (by simp [Pt.zero]) hm hn hw hs]
    chk_simp
    rw [ptSub_ok (by simp only [Pt.zero]; omega) (by simp only [Pt.zero]; omega)]
    chk_simp
    have ht : ∀ d : Int, -1 ≤ d → d ≤ 536870912 → -1 ≤ tdiv2 d ∧ tdiv2 d ≤ 536870912 := by
      intro d h1 h2; unfold tdiv2; split <;> omega
    have h1 := ht ((EG.TextM.lineWidth m n : Int) - 1) (by omega) (by omega)
    have h0 : tdiv2 (0 - 0 : Int) = 0 := by decide
    rw [ptSub_ok (by simp only [Pt.sub_x, Pt.zero, Int.zero_add]; omega)
      (by simp only [Pt.sub_y, Pt.zero, h0]; omega)]
    simp only [Pt.sub_y, Pt.zero, Int.sub_zero, tdiv2_zero]
    pt_close

/-- The text domain. -/
structure InDomain (m : Metrics) (lh : LineHeight) (pos : Pt) (k n : Nat) : Prop where
  px : -1048576 ≤ pos.x ∧ pos.x ≤ 1048576
  py : -1048576 ≤ pos.y ∧ pos.y ≤ 1048576
  lhv : match lh with | .pixels px => px ≤ 1048576 | .percent p => m.ch * p ≤ 104857600
  lines : k ≤ 1024
  chars : n ≤ 4294967295
  width : n * (m.cw + m.sp) ≤ 134217728
  cell : m.cw + m.sp ≤ 4294967295
  glyph : m.ch ≤ 1048576 ∧ m.bl ≤ 1048576

theorem InDomain.lineHeight_le {m : Metrics} {lh : LineHeight} {pos : Pt} {k n : Nat}
    (h : InDomain m lh pos k n) :
    0 ≤ EG.TextM.lineHeight m lh ∧ EG.TextM.lineHeight m lh ≤ 1048576 := by
  have hl := h.lhv
  unfold EG.TextM.lineHeight EG.TextM.toAbsolute
  cases lh with
  | pixels px =>
    simp only at hl ⊢
    have := satAsI32_bounds px; omega
  | percent p =>
    simp only at hl ⊢
    have := satAsI32_bounds (m.ch * p / 100); omega

theorem InDomain.lhv' {m : Metrics} {lh : LineHeight} {pos : Pt} {k n : Nat}
    (h : InDomain m lh pos k n) :
    PercentFits m.ch lh := by
  have hl := h.lhv
  cases lh with
  | pixels px => trivial
  | percent p => simp only [PercentFits] at hl ⊢; omega

/-- `Text::lines()`: every aligned position and every advance `position.y += line_height` (one per
line, also after the last) stays inside `i32`; line `i` sits at `linePos .. i`. -/
theorem lines_ok {m : Metrics} {lh : LineHeight} {bl : Baseline} (al : Alignment) {n : Nat}
    (hlh : PercentFits m.ch lh)
    (hH : 0 ≤ EG.TextM.lineHeight m lh ∧ EG.TextM.lineHeight m lh ≤ 1048576)
    (hm : m.ch ≤ 536870912 ∧ m.bl ≤ 536870912) (hn : n ≤ 4294967295)
    (hw : n * (m.cw + m.sp) ≤ 536870912) (hs : m.cw + m.sp ≤ 4294967295) :
    ∀ (k : Nat) (pos : Pt), (-1048576 ≤ pos.x ∧ pos.x ≤ 1048576) →
      (-1048576 ≤ pos.y ∧ pos.y + (k : Int) * 1048576 ≤ 1048576 + 1024 * 1048576) →
      lines m lh bl al n k pos =
        some ((List.range k).map (fun i => linePos m lh al pos n i)) := by
  intro k
  induction k with
  | zero => intro pos _ _; rfl
  | succ k ih =>
    intro pos hx hy
    unfold lines
    rw [alignedPos_ok al (by omega) hm hn hw hs, lineHeight_ok hlh]
    chk_simp
    have hk : ((k + 1 : Nat) : Int) * 1048576 = (k : Int) * 1048576 + 1048576 := by
      push_cast; omega
    rw [ih ⟨pos.x, pos.y + EG.TextM.lineHeight m lh⟩ hx (by simp only; omega)]
    chk_simp
    rw [List.range_succ_eq_map, List.map_cons, List.map_map]
    congr 1
    cases al <;> simp [linePos] <;> (intro a _; rw [Int.add_mul, Int.one_mul]; omega)

theorem linePos_bounds {m : Metrics} {lh : LineHeight} (al : Alignment) {pos : Pt} {n : Nat}
    (hx : -1048576 ≤ pos.x ∧ pos.x ≤ 1048576) (hy : -1048576 ≤ pos.y ∧ pos.y ≤ 1048576)
    (hH : 0 ≤ EG.TextM.lineHeight m lh ∧ EG.TextM.lineHeight m lh ≤ 1048576)
    (hw : n * (m.cw + m.sp) ≤ 134217728) {i : Nat} (hi : i < 1024) :
    (-268435456 ≤ (linePos m lh al pos n i).x ∧ (linePos m lh al pos n i).x ≤ 268435456) ∧
    (-268435456 ≤ (linePos m lh al pos n i).y ∧ (linePos m lh al pos n i).y ≤ 1048576 + 1024 * 1048576) := by
  have hlw : EG.TextM.lineWidth m n ≤ 134217728 := by unfold EG.TextM.lineWidth; omega
  have hi' : 0 ≤ (i : Int) * EG.TextM.lineHeight m lh ∧
      (i : Int) * EG.TextM.lineHeight m lh ≤ 1024 * 1048576 :=
    ⟨Int.mul_nonneg (by omega) hH.1, Int.mul_le_mul (by omega) hH.2 hH.1 (by omega)⟩
  have ht : ∀ d : Int, -1 ≤ d → d ≤ 134217728 → -1 ≤ tdiv2 d ∧ tdiv2 d ≤ 134217728 := by
    intro d h1 h2; unfold tdiv2; split <;> omega
  have h1 := ht ((EG.TextM.lineWidth m n : Int) - 1) (by omega) (by omega)
  unfold linePos
  cases al <;> simp only <;> omega

/-- `update_min_max` over measured lines at positions within +-2^29: never panics, and the
accumulated corners stay within +-2^30. -/
theorem minMax_some {m : Metrics} {bl : Baseline} {n : Nat}
    (hm : m.ch ≤ 1048576 ∧ m.bl ≤ 1048576) (hn : n ≤ 4294967295)
    (hw : n * (m.cw + m.sp) ≤ 268435456) (hs : m.cw + m.sp ≤ 4294967295) :
    ∀ (ps : List Pt) (acc : Option (Pt × Pt)),
      (∀ p ∈ ps, (-268435456 ≤ p.x ∧ p.x ≤ 268435456) ∧ (-268435456 ≤ p.y ∧ p.y ≤ 1074790400)) →
      (∀ mn mx, acc = some (mn, mx) →
        (-300000000 ≤ mn.x ∧ mn.x ≤ 600000000) ∧ (-300000000 ≤ mn.y ∧ mn.y ≤ 1100000000) ∧
        (-300000000 ≤ mx.x ∧ mx.x ≤ 600000000) ∧ (-300000000 ≤ mx.y ∧ mx.y ≤ 1100000000)) →
      ∃ r, minMax m bl n ps acc = some r ∧
        (∀ mn mx, r = some (mn, mx) →
          (-300000000 ≤ mn.x ∧ mn.x ≤ 600000000) ∧ (-300000000 ≤ mn.y ∧ mn.y ≤ 1100000000) ∧
          (-300000000 ≤ mx.x ∧ mx.x ≤ 600000000) ∧ (-300000000 ≤ mx.y ∧ mx.y ≤ 1100000000)) := by
  intro ps
  induction ps with
  | nil => intro acc _ hacc; exact ⟨acc, rfl, hacc⟩
  | cons p ps ih =>
    intro acc hps hacc
    have hp := hps p (List.mem_cons_self ..)
    have hps' : ∀ q ∈ ps, (-268435456 ≤ q.x ∧ q.x ≤ 268435456) ∧ (-268435456 ≤ q.y ∧ q.y ≤ 1074790400) :=
      fun q hq => hps q (List.mem_cons_of_mem _ hq)
    obtain ⟨⟨_, _⟩, ⟨_, _⟩⟩ := hp
    have hb := baselineOffset_bounds m bl
    have hlw : EG.TextM.lineWidth m n ≤ 268435456 := by unfold EG.TextM.lineWidth; omega
    unfold minMax
    rw [measureString_ok (by omega) (by omega) hn (by omega) hs]
    chk_simp
    have hbr : bottomRight ⟨⟨p.x, p.y - baselineOffset m bl⟩, ⟨EG.TextM.lineWidth m n, m.ch⟩⟩ =
        some (Rect.bottomRight ⟨⟨p.x, p.y - baselineOffset m bl⟩, ⟨EG.TextM.lineWidth m n, m.ch⟩⟩) := by
      unfold bottomRight Rect.bottomRight
      simp only
      split
      · rw [ptAddSize_ok (by simp only; omega) (by simp only; omega) (by simp only; omega)
          (by simp only; omega)]
        chk_simp
        rw [ptSub_ok (by simp only; omega) (by simp only; omega)]
        rfl
      · rfl
    rw [hbr]
    chk_simp
    cases hbrv : Rect.bottomRight ⟨⟨p.x, p.y - baselineOffset m bl⟩, ⟨EG.TextM.lineWidth m n, m.ch⟩⟩ with
    | none => simp only; exact ih acc hps' hacc
    | some br =>
      have hbe := bottomRight_eq hbrv
      simp only at hbe
      cases acc with
      | none =>
        simp only
        apply ih _ hps'
        intro mn mx he
        simp only [Option.some.injEq, Prod.mk.injEq] at he
        obtain ⟨rfl, rfl⟩ := he
        simp only
        omega
      | some a =>
        obtain ⟨mn0, mx0⟩ := a
        have := hacc mn0 mx0 rfl
        simp only
        apply ih _ hps'
        intro mn mx he
        simp only [Option.some.injEq, Prod.mk.injEq] at he
        obtain ⟨rfl, rfl⟩ := he
        simp only
        omega

/-- **`Text::bounding_box()` does not panic** in the text domain (display scale included). -/
theorem boundingBox_isSome {m : Metrics} {lh : LineHeight} (bl : Baseline) (al : Alignment) {pos : Pt}
    {k n : Nat} (h : InDomain m lh pos k n) :
    (boundingBox m lh bl al pos k n).isSome = true := by
  have hH := h.lineHeight_le
  have hg := h.glyph
  have hl := h.lines
  have hwd := h.width
  unfold boundingBox
  rw [lines_ok al h.lhv' hH (by omega) h.chars (by omega) h.cell k pos h.px
    (by have := h.py; constructor <;> omega)]
  chk_simp
  obtain ⟨r, hr, hb⟩ := minMax_some (m := m) (bl := bl) (n := n) (by omega) h.chars (by omega) h.cell
    ((List.range k).map (fun i => linePos m lh al pos n i)) none
    (by
      intro p hp
      simp only [List.mem_map, List.mem_range] at hp
      obtain ⟨i, hi, rfl⟩ := hp
      have := linePos_bounds (m := m) (lh := lh) al h.px h.py hH hwd (i := i) (by omega)
      omega)
    (by intro mn mx he; cases he)
  rw [hr]
  chk_simp
  cases r with
  | none => rfl
  | some a =>
    obtain ⟨mn, mx⟩ := a
    have := hb mn mx rfl
    simp only
    rw [withCorners_ok (by omega) (by omega)]
    rfl

end EG.Chk.TextM
