/-
  EG.Lemmas.ThickTranslate — a stroked line of any width commutes with translation.
  `ThickPoints` holds the `ParallelsIterator` (moved: `Joins.shiftIt`, state lemma
  `Joins.next_shift`, constructor `Joins.new_shift`) and the current parallel's Bresenham walker;
  these positions are the only absolute coordinates. Hence
  `thickPoints (l.translate d) w = (thickPoints l w).map (·.map (· + d))`, for every line, width
  and vector — no guard; likewise `Line::extents(w, None)` and the styled bounding box.
  `Thick.styledPixels` / `Thick.drawStyled` state what line/styled.rs does with the points:
  `StyledPixelsIterator` pairs them with `effective_stroke_color()` (nothing when it is `None`),
  `draw_styled` is one `draw_iter` call.
-/
import EG.Lemmas.JoinsExtents
import EG.Lemmas.ThickTotal
import EG.Lemmas.CallTranslate
namespace EG
namespace Thick
open Joins (shiftB shiftIt shiftItem shiftLines shiftPT)

/-! ### `ThickPoints` -/

/-- A `ThickPoints` iterator moved by `d`. -/
def shiftTP (it : ThickPointsIt) (d : Pt) : ThickPointsIt :=
  { it with parallel := shiftB it.parallel d, iter := shiftIt it.iter d }

theorem bresenham_next_shift (b : Bresenham) (p : BresenhamParameters) (d : Pt) :
    (shiftB b d).next p = ((b.next p).1 + d, shiftB (b.next p).2 d) := by
  unfold Bresenham.next shiftB
  by_cases h : b.error > p.errorThreshold
  · simp only [h, ↓reduceIte, Prod.mk.injEq, Bresenham.mk.injEq, and_true, Pt.ext_iff', Pt.add_x,
      Pt.add_y]
    refine ⟨⟨?_, ?_⟩, ?_, ?_⟩ <;> omega
  · simp only [h, ↓reduceIte, Prod.mk.injEq, Bresenham.mk.injEq, and_true, Pt.ext_iff', Pt.add_x,
      Pt.add_y, true_and]
    refine ⟨?_, ?_⟩ <;> omega

/-- One step of the moved iterator = the moved step. -/
theorem nextFuel_shift (fuel : Nat) (it : ThickPointsIt) (d : Pt) :
    (shiftTP it d).nextFuel fuel =
      (it.nextFuel fuel).map (·.map (fun r => (r.1 + d, shiftTP r.2 d))) := by
  induction fuel generalizing it with
  | zero => rfl
  | succ fuel ih =>
    unfold ThickPointsIt.nextFuel
    have e1 : (shiftTP it d).parallelPointsRemaining = it.parallelPointsRemaining := rfl
    have e2 : (shiftTP it d).iter = shiftIt it.iter d := rfl
    have e3 : (shiftTP it d).parallel = shiftB it.parallel d := rfl
    have e4 : (shiftIt it.iter d).parallelParameters = it.iter.parallelParameters := rfl
    have e5 : (shiftTP it d).parallelLength = it.parallelLength := rfl
    rw [e1, e2, e3, e4, e5]
    by_cases h : it.parallelPointsRemaining > 0
    · simp only [h, ↓reduceIte, bresenham_next_shift]
      rfl
    · simp only [h, ↓reduceIte]
      rw [Joins.next_shift]
      cases h1 : it.iter.next with
      | none => rfl
      | some r1 =>
        obtain ⟨o1, it1⟩ := r1
        cases o1 with
        | none => rfl
        | some bt =>
          obtain ⟨b, ty⟩ := bt
          simp only [Option.map_some, shiftItem]
          exact ih { it with parallel := b,
                             parallelPointsRemaining :=
                               if ty = .extra then it.parallelLength - 1 else it.parallelLength,
                             iter := it1 }

theorem next_shift (it : ThickPointsIt) (d : Pt) :
    (shiftTP it d).next = it.next.map (·.map (fun r => (r.1 + d, shiftTP r.2 d))) :=
  nextFuel_shift _ it d

/-- Draining the moved iterator yields the moved points (same budget). -/
theorem drainFuel_shift (fuel : Nat) (it : ThickPointsIt) (d : Pt) :
    (shiftTP it d).drainFuel fuel = (it.drainFuel fuel).map (·.map (· + d)) := by
  induction fuel generalizing it with
  | zero => rfl
  | succ fuel ih =>
    unfold ThickPointsIt.drainFuel
    rw [next_shift]
    cases h1 : it.next with
    | none => rfl
    | some r1 =>
      cases r1 with
      | none => rfl
      | some r =>
        obtain ⟨p, it'⟩ := r
        simp only [Option.map_some]
        rw [ih it']
        cases it'.drainFuel fuel with
        | none => rfl
        | some ps => rfl

/-- The first `fuel` items of the moved iterator are the moved items. -/
theorem toListFuel_shift (fuel : Nat) (it : ThickPointsIt) (d : Pt) :
    (shiftTP it d).toListFuel fuel = (it.toListFuel fuel).map (·.map (· + d)) := by
  induction fuel generalizing it with
  | zero => rfl
  | succ fuel ih =>
    unfold ThickPointsIt.toListFuel
    rw [next_shift]
    cases h1 : it.next with
    | none => rfl
    | some r1 =>
      cases r1 with
      | none => rfl
      | some r =>
        obtain ⟨p, it'⟩ := r
        simp only [Option.map_some]
        rw [ih it']
        cases it'.toListFuel fuel with
        | none => rfl
        | some ps => rfl

theorem majorLength_translate (l : Line) (d : Pt) : majorLength (l.translate d) = majorLength l := by
  unfold majorLength
  simp only [Joins.translate_start, Joins.translate_stop, Joins.pt_add_sub_add]

/-- `ThickPoints::new` of the moved line is the moved iterator. -/
theorem new_translate (l : Line) (t : Int) (d : Pt) :
    ThickPointsIt.new (l.translate d) t = (ThickPointsIt.new l t).map (shiftTP · d) := by
  unfold ThickPointsIt.new
  rw [Joins.new_shift, majorLength_translate]
  cases ParallelsIterator.new l t .none with
  | none => rfl
  | some it => rfl

/-- **A stroked line of any width commutes with translation**: the pixels of the moved line are
the moved pixels, in the same order — every line, width and vector. -/
theorem thickPoints_translate (l : Line) (w : Nat) (d : Pt) :
    thickPoints (l.translate d) w = (thickPoints l w).map (·.map (· + d)) := by
  unfold thickPoints
  rw [new_translate]
  cases ThickPointsIt.new l (satAsI32 w) with
  | none => rfl
  | some it =>
    simp only [Option.map_some]
    by_cases hw : w = 0
    · simp only [hw, ↓reduceIte, Option.map_some, List.map_nil]
    · simp only [hw, ↓reduceIte]
      have e : pixelBudget (l.translate d) (shiftTP it d).iter.thicknessThreshold =
          pixelBudget l it.iter.thicknessThreshold := by
        unfold pixelBudget
        rw [majorLength_translate]
        rfl
      rw [e, drainFuel_shift]

/-! ### `Line::extents(w, None)` and the styled bounding box -/

/-- **`Line::extents` commutes with translation.** -/
theorem extents_translate (l : Line) (w : Nat) (d : Pt) :
    extents (l.translate d) w = (extents l w).map (shiftLines · d) := by
  unfold extents
  rw [Joins.new_shift]
  cases hn : ParallelsIterator.new l (satAsI32 w) .none with
  | none => rfl
  | some it =>
    simp only [Option.map_some]
    have ep : (shiftIt it d).parallelParameters = it.parallelParameters := rfl
    have es : ((l.translate d).start, ParallelLineType.normal) =
        shiftPT (l.start, ParallelLineType.normal) d := rfl
    rw [ep, es, Joins.extentsLoop_shift]
    cases extentsLoop (2 * w + 4) it (l.start, ParallelLineType.normal)
        (l.start, ParallelLineType.normal) with
    | none => rfl
    | some r =>
      obtain ⟨⟨p1, t1⟩, ⟨p2, t2⟩⟩ := r
      simp only [Option.map_some, shiftPT, shiftLines, Line.translate, Joins.translate_start,
        Joins.translate_stop]
      cases t1 <;> cases t2 <;> pt_arith

theorem componentMin_add (a b d : Pt) : (a + d).componentMin (b + d) = a.componentMin b + d := by
  rw [Pt.ext_iff']; simp only [Pt.componentMin, Pt.add_x, Pt.add_y]; omega
theorem componentMax_add (a b d : Pt) : (a + d).componentMax (b + d) = a.componentMax b + d := by
  rw [Pt.ext_iff']; simp only [Pt.componentMax, Pt.add_x, Pt.add_y]; omega

/-- **The styled bounding box of the moved line is the moved box**, every line and width. -/
theorem styledBoundingBox_translate (l : Line) (w : Nat) (d : Pt) :
    styledBoundingBox (l.translate d) w = (styledBoundingBox l w).map (·.translate d) := by
  unfold styledBoundingBox
  rw [extents_translate]
  cases extents l w with
  | none => rfl
  | some r =>
    obtain ⟨lft, rgt⟩ := r
    simp only [Option.map_some, shiftLines, Joins.translate_start, Joins.translate_stop,
      componentMin_add, componentMax_add, Rect.withCorners_translate]

/-! ### the styled line: `pixels()` and `draw()` -/

/-- `line.into_styled(style).pixels()` (line/styled.rs `StyledPixelsIterator`): the points of
`ThickPoints::new(line, stroke_width)` paired with `effective_stroke_color()`; nothing when that is
`None` (no stroke colour or width 0). `sc` is the style's `stroke_color`. -/
def styledPixels (l : Line) (w : Nat) (sc : Option Color) : Option Writes :=
  match sc with
  | none => some []
  | some c => (thickPoints l w).map (·.map (fun p => (p, c)))

/-- `draw_styled`: `target.draw_iter(StyledPixelsIterator::new(self, style))`, one call. -/
def drawStyled (l : Line) (w : Nat) (sc : Option Color) : Option (List Call) :=
  (styledPixels l w sc).map (fun px => [Call.drawIter px])

theorem styledPixels_translate (l : Line) (w : Nat) (sc : Option Color) (d : Pt) :
    styledPixels (l.translate d) w sc = (styledPixels l w sc).map (Writes.translate d) := by
  unfold styledPixels
  cases sc with
  | none => rfl
  | some c =>
    simp only [thickPoints_translate]
    cases thickPoints l w with
    | none => rfl
    | some ps =>
      simp only [Option.map_some, Writes.translate, List.map_map]
      rfl

theorem drawStyled_translate (l : Line) (w : Nat) (sc : Option Color) (d : Pt) :
    drawStyled (l.translate d) w sc = (drawStyled l w sc).map (·.map (Call.translate d)) := by
  unfold drawStyled
  rw [styledPixels_translate]
  cases styledPixels l w sc with
  | none => rfl
  | some px => rfl

/-- The model of a styled line is total. -/
theorem drawStyled_total (l : Line) (w : Nat) (sc : Option Color) :
    ∃ calls, drawStyled l w sc = some calls := by
  unfold drawStyled styledPixels
  cases sc with
  | none => exact ⟨_, rfl⟩
  | some c =>
    obtain ⟨ps, h⟩ := thickPoints_total l w
    rw [h]
    exact ⟨_, rfl⟩

end Thick
end EG
