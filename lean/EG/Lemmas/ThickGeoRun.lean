/-
  EG.Lemmas.ThickGeoRun — the whole run of `ParallelsIterator` / `ThickPoints` of a stroked line:
  * `Run it xs`: `xs` is the complete list of parallels the iterator yields from the state `it`;
  * `thickPoints_run`: the pixel list of `thickPoints` is the concatenation of the points of these
    parallels (`segs`), in order;
  * `run_bands`: with `iL` / `jR` parallels already yielded on the left / right, the parallels of
    the rest of the run lie in the bands `tau n`, `n = iL + 1, iL + 2, ..` (left) and
    `n = -jR, -jR - 1, ..` (right), each exactly once, and each satisfies `ParOK`.
-/
import EG.Lemmas.ThickGeoSide
import EG.Lemmas.ThickAccumulator
set_option linter.unusedSimpArgs false
namespace EG
namespace Thick
open ParallelsIterator StrokeCtx

/-- The complete list of parallels the iterator yields from the state `it`. -/
inductive Run : ParallelsIterator → List ParItem → Prop
  | done {it it' : ParallelsIterator} : it.next = some (none, it') → Run it []
  | step {it it' : ParallelsIterator} {b : Bresenham} {ty : ParallelLineType} {xs : List ParItem} :
      it.next = some (some (b, ty), it') → Run it' xs → Run it ((it.nextSide, b, ty) :: xs)

/-- The points of a list of parallels, concatenated. -/
def segs (pp : BresenhamParameters) (len : Nat) (xs : List ParItem) : List Pt :=
  xs.flatMap (fun x => parPts (lenOf len x.2.2) x.2.1 pp)

theorem segs_cons (pp : BresenhamParameters) (len : Nat) (x : ParItem) (xs : List ParItem) :
    segs pp len (x :: xs) = parPts (lenOf len x.2.2) x.2.1 pp ++ segs pp len xs := by
  simp [segs]

/-- `next` never changes the parallel parameters. -/
theorem next_pp (it it' : ParallelsIterator) (o : Option (Bresenham × ParallelLineType))
    (h : it.next = some (o, it')) : it'.parallelParameters = it.parallelParameters := by
  unfold ParallelsIterator.next at h
  split at h
  · simp only [Option.some.injEq, Prod.mk.injEq] at h; rw [← h.2]
  · cases hnp : it.nextParallel it.nextSide with
    | none => rw [hnp] at h; simp at h
    | some v =>
      obtain ⟨⟨point, error⟩, it1⟩ := v
      rw [hnp] at h
      obtain ⟨f1, -, -, -, -, -, -⟩ := nextParallelFuel_sameFrame _ _ _ _ _ hnp
      cases point with
      | normal p =>
        simp only [Option.some.injEq, Prod.mk.injEq] at h
        obtain ⟨-, rfl⟩ := h
        split <;> exact f1
      | extra p =>
        simp only [Option.some.injEq, Prod.mk.injEq] at h
        obtain ⟨-, rfl⟩ := h
        split <;> exact f1

/-! ### `ThickPoints` emits the parallels of the run, one after the other -/

/-- `ps` is what `ThickPoints` still has to yield from the state `tp`. -/
def Rem (tp : ThickPointsIt) (ps : List Pt) : Prop :=
  ∃ xs, Run tp.iter xs ∧
    ps = parPts tp.parallelPointsRemaining tp.parallel tp.iter.parallelParameters ++
      segs tp.iter.parallelParameters tp.parallelLength xs

theorem lenOf_eq (len : Nat) (ty : ParallelLineType) :
    (if ty = ParallelLineType.extra then len - 1 else len) = lenOf len ty := by
  cases ty <;> simp [lenOf]

theorem nextFuel_none_rem : ∀ (lf : Nat) (tp : ThickPointsIt), tp.nextFuel lf = some none → Rem tp []
  | 0, _, h => by simp [ThickPointsIt.nextFuel] at h
  | lf + 1, tp, h => by
    unfold ThickPointsIt.nextFuel at h
    by_cases hr : tp.parallelPointsRemaining > 0
    · simp only [hr, ↓reduceIte, Option.some.injEq] at h; cases h
    · simp only [hr, ↓reduceIte] at h
      have hr0 : tp.parallelPointsRemaining = 0 := by omega
      cases hn : tp.iter.next with
      | none => rw [hn] at h; cases h
      | some r =>
        obtain ⟨o, iter'⟩ := r
        rw [hn] at h
        cases o with
        | none => exact ⟨[], Run.done hn, by rw [hr0]; simp [parPts, segs]⟩
        | some r1 =>
          obtain ⟨par, ty⟩ := r1
          simp only at h
          rw [lenOf_eq] at h
          obtain ⟨xs, hrun, hps⟩ := nextFuel_none_rem lf _ h
          simp only at hrun hps
          have hpp := next_pp _ _ _ hn
          refine ⟨_, Run.step hn hrun, ?_⟩
          rw [hr0, segs_cons, ← hpp]
          simpa [parPts] using hps

theorem nextFuel_some_rem : ∀ (lf : Nat) (tp tp' : ThickPointsIt) (q : Pt),
    tp.nextFuel lf = some (some (q, tp')) → ∀ ps', Rem tp' ps' → Rem tp (q :: ps')
  | 0, _, _, _, h => by simp [ThickPointsIt.nextFuel] at h
  | lf + 1, tp, tp', q, h => by
    unfold ThickPointsIt.nextFuel at h
    by_cases hr : tp.parallelPointsRemaining > 0
    · simp only [hr, ↓reduceIte, Option.some.injEq, Prod.mk.injEq] at h
      obtain ⟨hq, htp⟩ := h
      subst htp
      intro ps' ⟨xs, hrun, hps⟩
      simp only at hrun hps
      refine ⟨xs, hrun, ?_⟩
      obtain ⟨n, hn⟩ : ∃ n, tp.parallelPointsRemaining = n + 1 :=
        ⟨tp.parallelPointsRemaining - 1, by omega⟩
      rw [hn] at hps ⊢
      rw [hps]
      simp only [Nat.add_sub_cancel]
      show q :: _ = (tp.parallel.next tp.iter.parallelParameters).1 :: _ ++ _
      rw [hq]
      rfl
    · simp only [hr, ↓reduceIte] at h
      have hr0 : tp.parallelPointsRemaining = 0 := by omega
      cases hn : tp.iter.next with
      | none => rw [hn] at h; cases h
      | some r =>
        obtain ⟨o, iter'⟩ := r
        rw [hn] at h
        cases o with
        | none => simp only [Option.some.injEq] at h; cases h
        | some r1 =>
          obtain ⟨par, ty⟩ := r1
          simp only at h
          rw [lenOf_eq] at h
          intro ps' hrem
          obtain ⟨xs, hrun, hps⟩ := nextFuel_some_rem lf _ tp' q h ps' hrem
          simp only at hrun hps
          have hpp := next_pp _ _ _ hn
          refine ⟨_, Run.step hn hrun, ?_⟩
          rw [hr0, segs_cons, ← hpp]
          simpa [parPts] using hps

theorem drainFuel_rem : ∀ (fuel : Nat) (tp : ThickPointsIt) (ps : List Pt),
    tp.drainFuel fuel = some ps → Rem tp ps
  | 0, _, _, h => by simp [ThickPointsIt.drainFuel] at h
  | fuel + 1, tp, ps, h => by
    unfold ThickPointsIt.drainFuel at h
    cases hn : tp.next with
    | none => rw [hn] at h; cases h
    | some r =>
      rw [hn] at h
      cases r with
      | none =>
        simp only [Option.some.injEq] at h
        subst h
        exact nextFuel_none_rem _ _ hn
      | some r1 =>
        obtain ⟨p, tp'⟩ := r1
        simp only at h
        cases hr : ThickPointsIt.drainFuel fuel tp' with
        | none => rw [hr] at h; cases h
        | some rest =>
          rw [hr] at h
          simp only [Option.some.injEq] at h
          subst h
          exact nextFuel_some_rem _ _ _ _ hn rest (drainFuel_rem fuel tp' rest hr)

/-- **The pixels of a stroked line are the points of the parallels of the run, concatenated.** -/
theorem thickPoints_run (l : Line) (w : Nat) (hw : w ≠ 0) (ps : List Pt)
    (hps : thickPoints l w = some ps) :
    ∃ it xs, ParallelsIterator.new l (satAsI32 w) .none = some it ∧ Run it xs ∧
      ps = segs (ctxOf l).pp (majorLength l) xs := by
  obtain ⟨it0, hnew, _, _, _, hpp, _⟩ := new_fields l (satAsI32 w)
  unfold thickPoints ThickPointsIt.new at hps
  rw [hnew] at hps
  simp only [hw, ↓reduceIte] at hps
  obtain ⟨xs, hrun, h⟩ := drainFuel_rem _ _ ps hps
  simp only at hrun h
  refine ⟨it0, xs, hnew, hrun, ?_⟩
  rw [h, hpp]
  simp [parPts]

/-! ### The bands of the run -/

/-- The invariant of the iterator between two calls of `next`: `iL` / `jR` parallels have been
yielded on the left / right so far (the centre line is the first right one). -/
structure NInv (c : StrokeCtx) (s : Pt) (fl : Bool) (it : ParallelsIterator) (iL jR : Nat) : Prop where
  hperp : it.perpendicularParameters = c.perp
  hpp : it.parallelParameters = c.pp
  hflip : it.flip = fl
  hoff : it.strokeOffset = .none
  left : LNum c s it (iL : Int)
  right : RNum c s it (jR : Int)

/-- The band constant of a parallel. -/
def bandOf (c : StrokeCtx) (s : Pt) (x : ParItem) : Int := c.ph x.2.1.point - c.ph s - x.2.1.error

theorem LNum.of_eq {c : StrokeCtx} {s : Pt} {a b : ParallelsIterator} {i : Int} (h : LNum c s a i)
    (e1 : b.left = a.left) (e2 : b.leftError = a.leftError) : LNum c s b i := by
  obtain ⟨r1, r2, r3, r4, r5, r6, r7⟩ := h
  exact ⟨by rw [e1, e2]; exact r1, by rw [e1]; exact r2, by rw [e2]; exact r3,
    by rw [e2]; exact r4, by rw [e1]; exact r5, by rw [e1]; exact r6, by rw [e1]; exact r7⟩

theorem RNum.of_eq {c : StrokeCtx} {s : Pt} {a b : ParallelsIterator} {i : Int} (h : RNum c s a i)
    (e1 : b.right = a.right) (e2 : b.rightError = a.rightError) : RNum c s b i := by
  obtain ⟨r1, r2, r3, r4, r5, r6, r7⟩ := h
  exact ⟨by rw [e1, e2]; exact r1, by rw [e1]; exact r2, by rw [e2]; exact r3,
    by rw [e2]; exact r4, by rw [e1]; exact r5, by rw [e1]; exact r6, by rw [e1]; exact r7⟩

/-- One call of `next` that yields a parallel. -/
theorem next_geo (c : StrokeCtx) (hv : c.Valid) (fl : Bool) (hfr : c.FrameOK fl) (s : Pt)
    (it it' : ParallelsIterator) (iL jR : Nat) (hg : NInv c s fl it iL jR) (b : Bresenham)
    (ty : ParallelLineType) (h : it.next = some (some (b, ty), it')) :
    it'.nextSide = it.nextSide.swap ∧
    ((it.nextSide = .left ∧ NInv c s fl it' (iL + 1) jR ∧
        ParOK c s (c.ph c.M' * ((iL : Int) + 1)) b ty) ∨
     (it.nextSide = .right ∧ NInv c s fl it' iL (jR + 1) ∧
        ParOK c s (-(c.ph c.M' * (jR : Int))) b ty)) := by
  unfold ParallelsIterator.next at h
  by_cases hacc : it.thicknessAccumulator * it.thicknessAccumulator > it.thicknessThreshold
  · simp only [hacc, ↓reduceIte, Option.some.injEq, Prod.mk.injEq] at h
    exact absurd h.1 (by simp)
  · simp only [hacc, ↓reduceIte] at h
    cases hnp : it.nextParallel it.nextSide with
    | none => rw [hnp] at h; cases h
    | some r =>
      obtain ⟨⟨pt, e⟩, it1⟩ := r
      rw [hnp] at h
      simp only at h
      unfold ParallelsIterator.nextParallel at hnp
      cases hside : it.nextSide with
      | left =>
        rw [hside] at hnp
        obtain ⟨P', ty', hpt, g2, g3, g9⟩ :=
          nextParallel_left_geo c hv fl hfr s loopFuel it iL hg.hperp hg.hpp hg.hflip hg.left pt e it1 hnp
        have hoff1 : it1.strokeOffset = .none := by rw [g9]; exact hg.hoff
        have hns1 : it1.nextSide = .left := by rw [g9]; exact hside
        have hperp1 : it1.perpendicularParameters = c.perp := by rw [g9]; exact hg.hperp
        have hpp1 : it1.parallelParameters = c.pp := by rw [g9]; exact hg.hpp
        have hfl1 : it1.flip = fl := by rw [g9]; exact hg.hflip
        have hr1 : it1.right = it.right := by rw [g9]
        have hre1 : it1.rightError = it.rightError := by rw [g9]
        have hR : RNum c s it1 (jR : Int) := hg.right.of_eq hr1 hre1
        rcases hpt with ⟨rfl, rfl⟩ | ⟨rfl, rfl⟩
        all_goals
          simp only [hoff1, ↓reduceIte, Option.some.injEq, Prod.mk.injEq] at h
          obtain ⟨⟨hb, hty⟩, hit'⟩ := h
          subst hb hty hit'
          refine ⟨by show it1.nextSide.swap = _; rw [hns1], Or.inl ⟨rfl, ?_, g3⟩⟩
          have g2' : LNum c s it1 ((iL + 1 : Nat) : Int) := by push_cast; exact g2
          exact ⟨hperp1, hpp1, hfl1, rfl, g2'.of_eq rfl rfl, hR.of_eq rfl rfl⟩
      | right =>
        rw [hside] at hnp
        obtain ⟨P', ty', hpt, g2, g3, g9⟩ :=
          nextParallel_right_geo c hv fl hfr s loopFuel it jR hg.hperp hg.hpp hg.hflip hg.right pt e it1 hnp
        have hoff1 : it1.strokeOffset = .none := by rw [g9]; exact hg.hoff
        have hns1 : it1.nextSide = .right := by rw [g9]; exact hside
        have hperp1 : it1.perpendicularParameters = c.perp := by rw [g9]; exact hg.hperp
        have hpp1 : it1.parallelParameters = c.pp := by rw [g9]; exact hg.hpp
        have hfl1 : it1.flip = fl := by rw [g9]; exact hg.hflip
        have hl1 : it1.left = it.left := by rw [g9]
        have hle1 : it1.leftError = it.leftError := by rw [g9]
        have hL : LNum c s it1 (iL : Int) := hg.left.of_eq hl1 hle1
        rcases hpt with ⟨rfl, rfl⟩ | ⟨rfl, rfl⟩
        all_goals
          simp only [hoff1, ↓reduceIte, Option.some.injEq, Prod.mk.injEq] at h
          obtain ⟨⟨hb, hty⟩, hit'⟩ := h
          subst hb hty hit'
          refine ⟨by show it1.nextSide.swap = _; rw [hns1], Or.inr ⟨rfl, ?_, g3⟩⟩
          have g2' : RNum c s it1 ((jR + 1 : Nat) : Int) := by push_cast; exact g2
          exact ⟨hperp1, hpp1, hfl1, rfl, hL.of_eq rfl rfl, g2'.of_eq rfl rfl⟩

end Thick
end EG
