/-
  EG.Lemmas.Glue2RRectBBox — glue for C02 (rounded rectangles): what a styled rounded rectangle writes,
  for ALL inputs (no `FillInStroke`), and why every written point lies in the styled bounding box.

  * the stroked draw paths and `pixels()` write only points of the stroke area (`mem_lines_iff`),
  * the fill-only draw path writes exactly the fill area, whose BOX lies in the stroke area's box
    (`offset(-inside)` of a rectangle lies in `offset(+outside)` of it) — this holds also where the
    fill AREA is not inside the stroke AREA (the known `confine` defect of C06: there the escaping fill
    points are still inside the box),
  * `styled_bounding_box()` is the stroke area's box by definition.
-/
import EG.Lemmas.GlueRRectNested
namespace EG.Glue2
open EG EG.RoundedRect EG.Glue

/-- A rectangle shrunk by `kI` lies inside the same rectangle grown by `kO` (any `kI`, `kO`, also
collapsing shrinks), when the grown one is inside the `i32` range. -/
theorem rect_shrunk_in_grown (r : Rect) (kO kI : Nat) (hS : (r.offset (kO : Int)).InRange) (p : Pt)
    (hp : (r.offset (-(kI : Int))).contains p = true) : (r.offset (kO : Int)).contains p = true := by
  obtain ⟨gw, gh⟩ := grow_no_sat r kO hS
  rw [Rect.offset_grow r kO (by omega) (by omega), Rect.contains_iff]
  rw [Rect.offset_shrink r kI (by omega) (by omega), Rect.contains_iff] at hp
  simp only at hp ⊢
  omega

/-- The box of `fill_area()` lies in the box of `stroke_area()` (= the styled bounding box). -/
theorem fillArea_box_in_strokeArea_box (st : Style) (r : RoundedRect) (hS : (r.strokeArea st).InRange)
    (p : Pt) (hp : (r.fillArea st).boundingBox.contains p = true) :
    (r.strokeArea st).boundingBox.contains p = true := by
  unfold RoundedRect.InRange at hS
  have eS : (r.strokeArea st).rect = r.rect.offset ((min st.outsideStrokeWidth 2147483647 : Nat) : Int) := by
    show r.rect.offset st.strokeOffset = _
    unfold Style.strokeOffset; rw [satAsI32_eq_min]
  have eF : (r.fillArea st).rect = r.rect.offset (-((min st.insideStrokeWidth 2147483647 : Nat) : Int)) := by
    show r.rect.offset st.fillOffset = _
    unfold Style.fillOffset; rw [satAsI32_eq_min]
  unfold RoundedRect.boundingBox at hp ⊢
  rw [eS] at hS ⊢
  rw [eF] at hp
  exact rect_shrunk_in_grown r.rect _ _ hS p hp

/-- **What `draw()` writes, for all inputs**: with an effective stroke the fill colour on
`stroke_area ∩ fill_area` and the stroke colour on `stroke_area \ fill_area`; without one the fill
colour on `fill_area`; nothing when there is neither. -/
theorem mem_draw_all {st : Style} {r : RoundedRect} (hS : (r.strokeArea st).InRange)
    (hF : (r.fillArea st).InRange) (B : Rect) (p : Pt) (col : Color) :
    (p, col) ∈ (r.drawStyled st).flatMap (Call.lowerNative B) ↔
      match st.effectiveStrokeColor with
      | some sc =>
        ((r.strokeArea st).contains p = true ∧ (r.fillArea st).contains p = true ∧ st.fill = some col) ∨
        ((r.strokeArea st).contains p = true ∧ (r.fillArea st).contains p = false ∧ sc = col)
      | none => (r.fillArea st).contains p = true ∧ st.fill = some col := by
  unfold drawStyled
  cases hsc : st.effectiveStrokeColor with
  | none =>
    cases hfc : st.fill with
    | none => simp
    | some fc =>
      simp only
      rw [drawFillLines_lowerNative fc _ (scanline_wf hF), mem_fill_lines_iff hF]
      simp
  | some sc =>
    cases hfc : st.fill with
    | none =>
      simp only
      rw [drawLines_lowerNative sc none _ (lines_wf hS hF), mem_lines_iff hS hF]
      simp
    | some fc =>
      simp only
      rw [drawLines_lowerNative sc (some fc) _ (lines_wf hS hF), mem_lines_iff hS hF]
      simp

/-- Every point `draw()` writes lies in the box of the stroke area. -/
theorem mem_draw_in_box {st : Style} {r : RoundedRect} (hS : (r.strokeArea st).InRange)
    (hF : (r.fillArea st).InRange) (B : Rect) (p : Pt) (col : Color)
    (h : (p, col) ∈ (r.drawStyled st).flatMap (Call.lowerNative B)) :
    (r.strokeArea st).boundingBox.contains p = true := by
  rw [mem_draw_all hS hF] at h
  cases hsc : st.effectiveStrokeColor with
  | none =>
    rw [hsc] at h
    exact fillArea_box_in_strokeArea_box st r hS p (contains_imp_bbox _ hF h.1)
  | some sc =>
    rw [hsc] at h
    rcases h with ⟨hs, _⟩ | ⟨hs, _⟩ <;> exact contains_imp_bbox _ hS hs

/-- A pixel map entry comes from a write. -/
theorem write_of_apply_ne_none (ws : Writes) (p : Pt) (h : (PMap.empty.apply ws) p ≠ none) :
    ∃ c, (p, c) ∈ ws := by
  apply Classical.byContradiction
  intro hn
  apply h
  rw [Scan.apply_untouched ws PMap.empty p (fun c hc => hn ⟨c, hc⟩)]
  rfl

/-- What `pixels()` yields, for all inputs (it uses `stroke_color`, not the effective one). -/
theorem mem_pixels_all {st : Style} {r : RoundedRect} (hS : (r.strokeArea st).InRange)
    (hF : (r.fillArea st).InRange) (p : Pt) (col : Color) :
    (p, col) ∈ r.styledPixels st ↔
      ((r.strokeArea st).contains p = true ∧ (r.fillArea st).contains p = true ∧ st.fill = some col) ∨
      ((r.strokeArea st).contains p = true ∧ (r.fillArea st).contains p = false ∧ st.stroke = some col) := by
  unfold styledPixels styledPixelsIt
  rw [StyledPixelsIt.toList_new, mem_lines_iff hS hF]

end EG.Glue2
