/-
  EG.Lemmas.CheckedScanline — range theorems of the `Scanline` kernels and of the lazy
  consumption of `line::Points` (Model/CheckedScanline.lean).

  For a line with end points within `|x| <= 2^28` (`Chk.W`) every consumer of `line.points()`
  sees exactly the points of the plain walk (`Line.points`), however early it stops; hence
  `bresenham_intersection` and `any` agree with the plain model.
-/
import EG.Lemmas.CheckedLine
import EG.Lemmas.LineProps
import EG.Model.CheckedScanline
namespace EG.Chk
open EG

/-! ## `Points::new` and the lazy walk -/

theorem linePointsNew_ok {l : Line} (hs : W.pt l.start) (he : W.pt l.stop) :
    linePointsNew l = some (Line.pointsIt l) := by
  unfold linePointsNew
  rw [majorLength_ok hs he, bresenhamParametersNew_ok hs he]
  rfl

/-- The lazy checked walk equals the consumer run over the plain list, under the invariant of
`linePointsFuel_ok`. -/
theorem linePointsFoldFuel_ok {σ : Type} (f : σ → Pt → Option (σ × Bool))
    {P : BresenhamParameters} {T M : Int} (hT : P.errorThreshold = T)
    (hM : P.errorStep.major = M) (hm : P.errorStep.minor = 2 * T) (h0 : 0 ≤ M) (h1 : M ≤ 2 * T)
    (hTb : T ≤ 536870912) (hu : UnitSteps P) :
    ∀ (fuel : Nat) (b : Bresenham) (n : Nat) (B : Int) (s : σ), 0 ≤ B → B + fuel ≤ 1073741824 →
      (-B ≤ b.point.x ∧ b.point.x ≤ B) → (-B ≤ b.point.y ∧ b.point.y ≤ B) →
      (-T ≤ b.error ∧ b.error ≤ T + M) →
      linePointsFoldFuel f fuel ⟨P, b, n⟩ s = foldUntil f (Line.PointsIt.toListFuel fuel ⟨P, b, n⟩) s := by
  intro fuel
  induction fuel with
  | zero => intro b n B s _ _ _ _ _; rfl
  | succ fuel ih =>
    intro b n B s hB0 hBf hx hy he
    unfold linePointsFoldFuel Line.PointsIt.toListFuel
    simp only [Line.PointsIt.next]
    by_cases hn : n > 0
    · simp only [hn, ↓reduceIte]
      obtain ⟨h1', h2', h3', h4'⟩ :=
        bresenhamNext_ok hT hM hm h0 h1 hTb hu (B := B) ⟨hB0, by omega⟩ hx hy he
      rw [h1']
      simp only [Option.bind_eq_bind, Option.bind_some, foldUntil]
      cases hq : f s (b.next P).1 with
      | none => rfl
      | some q =>
        simp only [Option.bind_some]
        cases hq2 : q.2 with
        | false => simp
        | true =>
          simp only [↓reduceIte]
          exact ih (b.next P).2 (n - 1) (B + 1) q.1 (by omega) (by push_cast at hBf ⊢; omega) h2' h3' h4'
    · simp only [hn, ↓reduceIte]
      rfl

/-- **Lazy `line.points()`**: for end points within `|x| <= 2^28`, any consumer. -/
theorem linePointsFold_line {σ : Type} (f : σ → Pt → Option (σ × Bool)) {l : Line}
    (hs : W.pt l.start) (he : W.pt l.stop) (s : σ) :
    linePointsFoldFuel f (Line.pointsIt l).pointsRemaining (Line.pointsIt l) s =
      foldUntil f (Line.points l) s := by
  have hd := dmaj_le hs he
  have hd0 := Line.dmaj_nonneg l
  have hP := Line.params_new l
  obtain ⟨⟨_, _⟩, ⟨_, _⟩⟩ := hs
  have e : Line.pointsIt l = ⟨BresenhamParameters.new l, Bresenham.new l.start, EG.majorLength l⟩ := rfl
  rw [e]
  simp only
  rw [linePointsFoldFuel_ok f (T := Line.dmaj l) (M := 2 * Line.dmin l) (by rw [hP]) (by rw [hP]) (by rw [hP])
    (by have := Line.dmin_nonneg l; omega) (by have := Line.dmin_le_dmaj l; omega) hd
    (unitSteps_new l) (EG.majorLength l) (Bresenham.new l.start) (EG.majorLength l) 268435456 s (by omega)
    (by rw [Line.majorLength_eq]; push_cast; omega)
    (by simp only [Bresenham.new]; omega) (by simp only [Bresenham.new]; omega)
    (by simp only [Bresenham.new]; have := Line.dmin_nonneg l; omega)]
  rfl

/-- Points of a line lie between its end points. -/
theorem line_points_in_box {l : Line} {q : Pt} (h : q ∈ Line.points l) :
    min l.start.x l.stop.x ≤ q.x ∧ q.x ≤ max l.start.x l.stop.x ∧
    min l.start.y l.stop.y ≤ q.y ∧ q.y ≤ max l.start.y l.stop.y := by
  obtain ⟨k, hk, rfl⟩ := Line.mem_points.1 h
  exact Line.ptAt_in_box l k hk

/-! ## `any` -/

theorem foldUntil_any (p : Pt) : ∀ (L : List Pt) (found : Bool),
    foldUntil (anyStep p) L found = some (found || L.any (fun q => q == p)) := by
  intro L
  induction L with
  | nil => intro found; simp [foldUntil]
  | cons q L ih =>
    intro found
    rw [foldUntil]
    by_cases h : q = p
    · have e : anyStep p found q = some (true, false) := by simp [anyStep, h]
      rw [e]; simp [h]
    · have e : anyStep p found q = some (found, true) := by simp [anyStep, h]
      rw [e]
      simp only [Option.bind_eq_bind, Option.bind_some, ↓reduceIte, List.any_cons]
      rw [ih]
      have hb : (q == p) = false := by simpa using h
      rw [hb, Bool.false_or]

theorem linePointsAny_ok {l : Line} (hs : W.pt l.start) (he : W.pt l.stop) (p : Pt) :
    linePointsAny (Line.pointsIt l) p = some ((Line.points l).any (fun q => q == p)) := by
  unfold linePointsAny
  rw [linePointsFold_line _ hs he, foldUntil_any]
  simp

/-! ## `Scanline` -/

namespace Scanline

theorem extend_ok (s : EG.Scanline) {x : Int} (h : -2147483648 ≤ x + 1 ∧ x + 1 ≤ 2147483647) :
    extend s x = some (s.extend x) := by
  unfold extend EG.Scanline.extend
  split
  · chk_simp
  · split
    · rfl
    · split
      · chk_simp
      · rfl

theorem extend_y (s : EG.Scanline) (x : Int) : (s.extend x).y = s.y := by
  unfold EG.Scanline.extend
  split
  · rfl
  · split
    · rfl
    · split <;> rfl

/-- not skipping any more: the rest of `take_while` -/
theorem foldUntil_bint_take : ∀ (L : List Pt) (s : EG.Scanline),
    (∀ q ∈ L, -2147483648 ≤ q.x + 1 ∧ q.x + 1 ≤ 2147483647) →
    ∃ st, foldUntil bintStep L (false, s) = some st ∧
      st.2 = (L.takeWhile (fun p => p.y == s.y)).foldl (fun s p => s.extend p.x) s := by
  intro L
  induction L with
  | nil => intro s _; exact ⟨(false, s), rfl, rfl⟩
  | cons q L ih =>
    intro s hb
    have hq := hb q (List.mem_cons_self ..)
    unfold foldUntil bintStep
    by_cases h : q.y = s.y
    · simp only [h, ↓reduceIte, extend_ok s hq, Option.bind_eq_bind, Option.bind_some, Option.pure_def]
      obtain ⟨st, e1, e2⟩ := ih (s.extend q.x) (fun r hr => hb r (List.mem_cons_of_mem _ hr))
      refine ⟨st, e1, ?_⟩
      rw [e2, extend_y]
      simp [h]
    · refine ⟨(false, s), ?_, ?_⟩
      · simp [h]
      · simp [h]

/-- `skip_while(y != ).take_while(y == ).for_each(extend)` over a list. -/
theorem foldUntil_bint : ∀ (L : List Pt) (s : EG.Scanline),
    (∀ q ∈ L, -2147483648 ≤ q.x + 1 ∧ q.x + 1 ≤ 2147483647) →
    ∃ st, foldUntil bintStep L (true, s) = some st ∧
      st.2 = ((L.dropWhile (fun p => p.y != s.y)).takeWhile (fun p => p.y == s.y)).foldl
        (fun s p => s.extend p.x) s := by
  intro L
  induction L with
  | nil => intro s _; exact ⟨(true, s), rfl, rfl⟩
  | cons q L ih =>
    intro s hb
    have hq := hb q (List.mem_cons_self ..)
    by_cases h : q.y = s.y
    · unfold foldUntil bintStep
      simp only [h, ↓reduceIte, extend_ok s hq, Option.bind_eq_bind, Option.bind_some, Option.pure_def]
      obtain ⟨st, e1, e2⟩ := foldUntil_bint_take L (s.extend q.x)
        (fun r hr => hb r (List.mem_cons_of_mem _ hr))
      refine ⟨st, e1, ?_⟩
      rw [e2, extend_y]
      simp [h]
    · obtain ⟨st, e1, e2⟩ := ih s (fun r hr => hb r (List.mem_cons_of_mem _ hr))
      refine ⟨st, ?_, ?_⟩
      · unfold foldUntil bintStep
        simp only [h, ↓reduceIte, Option.bind_eq_bind, Option.bind_some, Option.pure_def]
        exact e1
      · rw [e2]
        simp [h]

/-- **`bresenham_intersection`** for a line with end points within `|x| <= 2^28`, any scanline. -/
theorem bresenhamIntersection_ok (s : EG.Scanline) {l : Line} (hs : W.pt l.start) (he : W.pt l.stop) :
    bresenhamIntersection s l = some (s.bresenhamIntersection l.start l.stop (Line.points l)) := by
  unfold bresenhamIntersection EG.Scanline.bresenhamIntersection
  simp only
  generalize (if l.start.y ≤ l.stop.y then decide (l.start.y ≤ s.y ∧ s.y ≤ l.stop.y)
    else decide (l.stop.y ≤ s.y ∧ s.y ≤ l.start.y)) = inY
  cases inY
  · simp
  · rw [linePointsNew_ok hs he]
    simp only [Bool.not_true, Bool.false_eq_true, ↓reduceIte, Option.bind_eq_bind, Option.bind_some]
    rw [linePointsFold_line _ hs he]
    obtain ⟨st, e1, e2⟩ := foldUntil_bint (Line.points l) s (by
      intro q hq
      have hb := line_points_in_box hq
      obtain ⟨⟨_, _⟩, ⟨_, _⟩⟩ := hs
      obtain ⟨⟨_, _⟩, ⟨_, _⟩⟩ := he
      omega)
    rw [e1]
    simp only [Option.bind_some, Option.pure_def, e2]

/-- `touches` for scanlines of one row whose ends are not `i32::MIN`. -/
theorem touches_ok {s o : EG.Scanline} (hy : s.y = o.y)
    (h1 : -2147483647 ≤ s.xs ∧ s.xs ≤ 2147483647) (h2 : -2147483647 ≤ s.xe ∧ s.xe ≤ 2147483647)
    (h3 : -2147483647 ≤ o.xs ∧ o.xs ≤ 2147483647) (h4 : -2147483647 ≤ o.xe ∧ o.xe ≤ 2147483647) :
    touches s o = some (s.touches o) := by
  unfold touches EG.Scanline.touches
  rw [assert_ok hy]
  simp only [Option.bind_eq_bind, Option.bind_some]
  split
  · rfl
  · chk_simp
    by_cases c1 : s.xs - 1 ≤ o.xs ∧ o.xs ≤ s.xe
    · simp only [c1, and_self, ↓reduceIte, decide_true, Bool.true_or]
    · by_cases c2 : s.xs - 1 ≤ o.xe - 1 ∧ o.xe - 1 ≤ s.xe
      · simp only [c1, c2, and_self, ↓reduceIte, decide_true, decide_false, Bool.true_or, Bool.or_true]
      · by_cases c3 : o.xs - 1 ≤ s.xs ∧ s.xs ≤ o.xe
        · simp only [c1, c2, c3, and_self, ↓reduceIte, decide_true, decide_false, Bool.true_or, Bool.or_true, Bool.false_or]
        · simp only [c1, c2, c3, ↓reduceIte, decide_false, Bool.false_or]

theorem tryExtend_ok {s o : EG.Scanline} (hy : s.y = o.y)
    (h1 : -2147483647 ≤ s.xs ∧ s.xs ≤ 2147483647) (h2 : -2147483647 ≤ s.xe ∧ s.xe ≤ 2147483647)
    (h3 : -2147483647 ≤ o.xs ∧ o.xs ≤ 2147483647) (h4 : -2147483647 ≤ o.xe ∧ o.xe ≤ 2147483647) :
    tryExtend s o = some (s.tryExtend o) := by
  unfold tryExtend EG.Scanline.tryExtend
  rw [assert_ok hy, touches_ok hy h1 h2 h3 h4]
  simp only [Option.bind_eq_bind, Option.bind_some]
  split <;> rfl

/-- `to_rectangle`: the `i32` difference `end - start` of a non-empty scanline with ends within
`|x| < 2^30`. -/
theorem toRectangle_ok {s : EG.Scanline} (h1 : -1073741823 ≤ s.xs ∧ s.xs ≤ 1073741823)
    (h2 : -1073741823 ≤ s.xe ∧ s.xe ≤ 1073741823) : toRectangle s = some s.toRectangle := by
  unfold toRectangle EG.Scanline.toRectangle
  by_cases he : s.isEmpty
  · simp [he]
  · have hlt : s.xs < s.xe := by
      unfold EG.Scanline.isEmpty at he; simpa using he
    obtain ⟨_, _⟩ := h1
    obtain ⟨_, _⟩ := h2
    simp only [he, Bool.not_false, ↓reduceIte]
    chk_simp

theorem drawRect_ok {s : EG.Scanline} (h1 : -1073741823 ≤ s.xs ∧ s.xs ≤ 1073741823)
    (h2 : -1073741823 ≤ s.xe ∧ s.xe ≤ 1073741823) :
    drawRect s = some (if s.isEmpty then none else some ⟨⟨s.xs, s.y⟩, ⟨(s.xe - s.xs).toNat, 1⟩⟩) := by
  unfold drawRect
  by_cases he : s.isEmpty
  · simp [he]
  · have hlt : s.xs < s.xe := by
      unfold EG.Scanline.isEmpty at he; simpa using he
    obtain ⟨_, _⟩ := h1
    obtain ⟨_, _⟩ := h2
    simp only [he, Bool.false_eq_true, ↓reduceIte]
    chk_simp

end Scanline
end EG.Chk
