/-
  EG.Lemmas.JoinsExtentsBound — where the edge lines of `Line::extents` lie, and with it the join
  guards of C07 at display scale.

  `Line::extents(thickness, offset)` walks the `ParallelsIterator`: every perpendicular step moves
  a walk by one unit step, `next_parallel` makes at most `loopFuel = 4` of them, and the loops of
  `extents` call `next` at most `2 (2 w + 4)` resp. `4 w + 8` times. So both edge lines start within
  `16 w + 37` (Chebyshev) of the line's start point - a crude bound (the true distance is about
  `w`), but all that is needed: for vertices within +-1024 and widths up to 128 the edge lines are
  in the domain `EdgeDS` of Lemmas/JoinsDisplayScale.lean, hence `JoinNoSat`, `PolyNoSat`,
  `TriNoSat` hold for every move `d` within +-2^30.
-/
import EG.Lemmas.JoinsDisplayScale
import EG.Lemmas.JoinsTriMove
namespace EG
namespace Joins
open Thick (LineSide StrokeOffset ParallelsIterator ParallelLineType extentsLoop)

/-- Chebyshev distance at most `k`. -/
def Cheb (k : Int) (a o : Pt) : Prop :=
  (-k ≤ a.x - o.x ∧ a.x - o.x ≤ k) ∧ (-k ≤ a.y - o.y ∧ a.y - o.y ≤ k)

theorem Cheb.mono {k k' : Int} {a o : Pt} (h : Cheb k a o) (hk : k ≤ k') : Cheb k' a o := by
  obtain ⟨⟨_, _⟩, ⟨_, _⟩⟩ := h
  unfold Cheb
  omega

/-- A unit step of a Bresenham walk: each component is -1, 0 or 1. -/
def Small (v : Pt) : Prop := (-1 ≤ v.x ∧ v.x ≤ 1) ∧ (-1 ≤ v.y ∧ v.y ≤ 1)

theorem params_small (l : Line) :
    Small (BresenhamParameters.new l).positionStep.major ∧ Small (BresenhamParameters.new l).positionStep.minor := by
  unfold BresenhamParameters.new Small
  simp only
  split <;> simp only [Pt.xAxis, Pt.yAxis] <;> (split <;> split <;> omega)

def bpPt : BresenhamPoint → Pt
  | .normal p => p
  | .extra p => p

theorem nextAll_near {b : Bresenham} {p : BresenhamParameters} (hM : Small p.positionStep.major)
    (hm : Small p.positionStep.minor) {o : Pt} {k : Int} (h : Cheb k b.point o) :
    Cheb (k + 1) (b.nextAll p).2.point o ∧ Cheb (k + 2) (bpPt (b.nextAll p).1) o := by
  obtain ⟨⟨_, _⟩, ⟨_, _⟩⟩ := hM
  obtain ⟨⟨_, _⟩, ⟨_, _⟩⟩ := hm
  obtain ⟨⟨_, _⟩, ⟨_, _⟩⟩ := h
  unfold Bresenham.nextAll Cheb
  simp only
  split
  · split <;> simp only [bpPt, Pt.add_x, Pt.add_y, Pt.sub_x, Pt.sub_y] <;> omega
  · simp only [bpPt, Pt.add_x, Pt.add_y] ; omega

theorem previousAll_near {b : Bresenham} {p : BresenhamParameters} (hM : Small p.positionStep.major)
    (hm : Small p.positionStep.minor) {o : Pt} {k : Int} (h : Cheb k b.point o) :
    Cheb (k + 1) (b.previousAll p).2.point o ∧ Cheb (k + 2) (bpPt (b.previousAll p).1) o := by
  obtain ⟨⟨_, _⟩, ⟨_, _⟩⟩ := hM
  obtain ⟨⟨_, _⟩, ⟨_, _⟩⟩ := hm
  obtain ⟨⟨_, _⟩, ⟨_, _⟩⟩ := h
  unfold Bresenham.previousAll Cheb
  simp only
  split
  · split <;> simp only [bpPt, Pt.add_x, Pt.add_y, Pt.sub_x, Pt.sub_y] <;> omega
  · simp only [bpPt, Pt.sub_x, Pt.sub_y] ; omega

/-- Both perpendicular walks of the iterator are within `k` of `o`; the steps are unit steps. -/
structure NearIt (k : Int) (o : Pt) (it : ParallelsIterator) : Prop where
  l : Cheb k it.left.point o
  r : Cheb k it.right.point o
  pM : Small it.perpendicularParameters.positionStep.major
  pm : Small it.perpendicularParameters.positionStep.minor
  qM : Small it.parallelParameters.positionStep.major
  qm : Small it.parallelParameters.positionStep.minor

theorem NearIt.mono {k k' : Int} {o : Pt} {it : ParallelsIterator} (h : NearIt k o it) (hk : k ≤ k') :
    NearIt k' o it := ⟨h.l.mono hk, h.r.mono hk, h.pM, h.pm, h.qM, h.qm⟩

theorem NearIt.setSideError {k : Int} {o : Pt} {it : ParallelsIterator} (h : NearIt k o it)
    (s : LineSide) (e : Int) : NearIt k o (it.setSideError s e) := by
  cases s <;> exact ⟨h.l, h.r, h.pM, h.pm, h.qM, h.qm⟩

theorem nextParallelFuel_near : ∀ (fuel : Nat) (it : ParallelsIterator) (side : LineSide) r it'
    (k : Int) (o : Pt), ParallelsIterator.nextParallelFuel fuel it side = some (r, it') → NearIt k o it →
    NearIt (k + fuel) o it' ∧ Cheb (k + fuel + 1) (bpPt r.1) o := by
  intro fuel
  induction fuel with
  | zero => intro it side r it' k o h; simp [ParallelsIterator.nextParallelFuel] at h
  | succ fuel ih =>
    intro it side r it' k o h hn
    unfold ParallelsIterator.nextParallelFuel at h
    have hcast : (k + ((fuel + 1 : Nat) : Int)) = k + 1 + fuel := by push_cast; omega
    cases side
    · simp only at h
      have hq := nextAll_near hn.pM hn.pm hn.l
      generalize it.left.nextAll it.perpendicularParameters = q at h hq
      obtain ⟨pt, b⟩ := q
      simp only at h hq
      have hs : NearIt (k + 1) o { it with left := b } := ⟨hq.1, hn.r.mono (by omega), hn.pM, hn.pm, hn.qM, hn.qm⟩
      cases pt with
      | normal p =>
        simp only [Option.some.injEq, Prod.mk.injEq] at h
        rw [← h.2, ← h.1, hcast]
        exact ⟨hs.mono (by omega), hq.2.mono (by omega)⟩
      | extra p =>
        simp only at h
        split at h
        · split at h
          · simp only [Option.some.injEq, Prod.mk.injEq] at h
            rw [← h.2, ← h.1, hcast]
            exact ⟨(hs.setSideError _ _).mono (by omega), hq.2.mono (by omega)⟩
          · have := ih _ _ _ _ (k + 1) o h (hs.setSideError _ _)
            rw [hcast]; exact this
        · split at h
          · simp only [Option.some.injEq, Prod.mk.injEq] at h
            rw [← h.2, ← h.1, hcast]
            exact ⟨(hs.setSideError _ _).mono (by omega), hq.2.mono (by omega)⟩
          · have := ih _ _ _ _ (k + 1) o h (hs.setSideError _ _)
            rw [hcast]; exact this
    · simp only at h
      have hq := previousAll_near hn.pM hn.pm hn.r
      generalize it.right.previousAll it.perpendicularParameters = q at h hq
      obtain ⟨pt, b⟩ := q
      simp only at h hq
      have hs : NearIt (k + 1) o { it with right := b } := ⟨hn.l.mono (by omega), hq.1, hn.pM, hn.pm, hn.qM, hn.qm⟩
      cases pt with
      | normal p =>
        simp only [Option.some.injEq, Prod.mk.injEq] at h
        rw [← h.2, ← h.1, hcast]
        exact ⟨hs.mono (by omega), hq.2.mono (by omega)⟩
      | extra p =>
        simp only at h
        split at h
        · split at h
          · simp only [Option.some.injEq, Prod.mk.injEq] at h
            rw [← h.2, ← h.1, hcast]
            exact ⟨(hs.setSideError _ _).mono (by omega), hq.2.mono (by omega)⟩
          · have := ih _ _ _ _ (k + 1) o h (hs.setSideError _ _)
            rw [hcast]; exact this
        · split at h
          · simp only [Option.some.injEq, Prod.mk.injEq] at h
            rw [← h.2, ← h.1, hcast]
            exact ⟨(hs.setSideError _ _).mono (by omega), hq.2.mono (by omega)⟩
          · have := ih _ _ _ _ (k + 1) o h (hs.setSideError _ _)
            rw [hcast]; exact this


theorem new_near {l : Line} {t : Int} {so : StrokeOffset} {it : ParallelsIterator}
    (h : ParallelsIterator.new l t so = some it) : NearIt 4 l.start it := by
  unfold ParallelsIterator.new at h
  simp only at h
  split at h
  · cases h
  · rename_i r it0 hnp
    simp only [Option.some.injEq] at h
    subst h
    have h0 : Cheb 0 l.start l.start := by unfold Cheb; omega
    have := (nextParallelFuel_near _ _ _ _ _ 0 l.start hnp
      ⟨h0, h0, (params_small _).1, (params_small _).2, (params_small _).1, (params_small _).2⟩).1
    exact this.mono (by unfold Thick.loopFuel; omega)

/-- One `ParallelsIterator::next` that yields a parallel: the walks move by at most 4, the parallel
starts within `k + 5`. -/
theorem next_near {it : ParallelsIterator} {b : Bresenham} {ty : ParallelLineType} {it' : ParallelsIterator}
    {k : Int} {o : Pt} (h : it.next = some (some (b, ty), it')) (hn : NearIt k o it) :
    NearIt (k + 4) o it' ∧ Cheb (k + 5) b.point o := by
  unfold ParallelsIterator.next at h
  split at h
  · simp at h
  · split at h
    · cases h
    · rename_i point error it1 hnp
      have hs := nextParallelFuel_near _ _ _ _ _ k o hnp hn
      have h4 : (k + ((Thick.loopFuel : Nat) : Int)) = k + 4 := by unfold Thick.loopFuel; omega
      rw [h4] at hs
      cases point with
      | normal p =>
        simp only [Option.some.injEq, Prod.mk.injEq] at h
        obtain ⟨⟨hb, _⟩, h2⟩ := h
        subst hb h2
        refine ⟨?_, hs.2.mono (by omega)⟩
        split <;> exact ⟨hs.1.l, hs.1.r, hs.1.pM, hs.1.pm, hs.1.qM, hs.1.qm⟩
      | extra p =>
        simp only [Option.some.injEq, Prod.mk.injEq] at h
        obtain ⟨⟨hb, _⟩, h2⟩ := h
        subst hb h2
        refine ⟨?_, hs.2.mono (by omega)⟩
        split <;> exact ⟨hs.1.l, hs.1.r, hs.1.pM, hs.1.pm, hs.1.qM, hs.1.qm⟩

theorem extentsLoop_near : ∀ (fuel : Nat) (it : ParallelsIterator) (left right : Pt × ParallelLineType)
    (res : (Pt × ParallelLineType) × (Pt × ParallelLineType)) (k : Int) (o : Pt),
    extentsLoop fuel it left right = some res → NearIt k o it →
    Cheb (k + 1) left.1 o → Cheb (k + 1) right.1 o →
    Cheb (k + 8 * fuel + 1) res.1.1 o ∧ Cheb (k + 8 * fuel + 1) res.2.1 o := by
  intro fuel
  induction fuel with
  | zero => intro it left right res k o h; simp [extentsLoop] at h
  | succ fuel ih =>
    intro it left right res k o h hn hl hr
    have hcast : (k + 8 * ((fuel + 1 : Nat) : Int) + 1) = k + 8 + 8 * fuel + 1 := by push_cast; omega
    rw [hcast]
    unfold extentsLoop at h
    split at h
    · cases h
    · simp only [Option.some.injEq] at h
      subst h
      exact ⟨hl.mono (by omega), hr.mono (by omega)⟩
    · rename_i b ty it1 hnx
      have h1 := next_near hnx hn
      simp only at h
      split at h
      · cases h
      · simp only [Option.some.injEq] at h
        subst h
        exact ⟨hl.mono (by omega), h1.2.mono (by omega)⟩
      · rename_i b2 ty2 it2 hnx2
        have h2 := next_near hnx2 h1.1
        have := ih it2 (b2.point, ty2) (b.point, ty) res (k + 8) o h (by
          have := h2.1; rw [show k + 4 + 4 = k + 8 by omega] at this; exact this)
          (h2.2.mono (by omega)) (h1.2.mono (by omega))
        exact this

theorem lastParallel_near : ∀ (fuel : Nat) (it : ParallelsIterator) (acc res : Option (Bresenham × ParallelLineType))
    (k : Int) (o : Pt), lastParallel fuel it acc = some res → NearIt k o it →
    (∀ a, acc = some a → Cheb (k + 1) a.1.point o) →
    ∀ a, res = some a → Cheb (k + 4 * fuel + 1) a.1.point o := by
  intro fuel
  induction fuel with
  | zero => intro it acc res k o h; simp [lastParallel] at h
  | succ fuel ih =>
    intro it acc res k o h hn hacc a ha
    have hcast : (k + 4 * ((fuel + 1 : Nat) : Int) + 1) = k + 4 + 4 * fuel + 1 := by push_cast; omega
    rw [hcast]
    unfold lastParallel at h
    split at h
    · cases h
    · simp only [Option.some.injEq] at h
      subst h
      exact (hacc a ha).mono (by omega)
    · rename_i r it1 hnx
      obtain ⟨b, ty⟩ := r
      have h1 := next_near hnx hn
      exact ih it1 (some (b, ty)) res (k + 4) o h h1.1
        (by intro a' ha'; cases ha'; exact h1.2.mono (by omega)) a ha

/-- `Line::extents`: the edge lines start within `8 * (2 w + 4) + 5` resp. `4 * (4 w + 8) + 5`
(at most `16 w + 37`) of the line's start point, and their delta is the line's delta minus at most
one diagonal unit step. -/
theorem extents_near {l : Line} {w : Nat} {off : StrokeOffset} {L R : Line}
    (h : extents l w off = some (L, R)) :
    (Cheb (16 * w + 37) L.start l.start ∧ Cheb 2 (L.stop - L.start) (l.stop - l.start)) ∧
    (Cheb (16 * w + 37) R.start l.start ∧ Cheb 2 (R.stop - R.start) (l.stop - l.start)) := by
  unfold extents at h
  cases hn : ParallelsIterator.new l (satAsI32 w) off with
  | none => simp [hn] at h
  | some it =>
    have hit := new_near hn
    simp only [hn, Option.bind_eq_bind, Option.bind_some] at h
    have h0 : Cheb 5 l.start l.start := by unfold Cheb; omega
    -- the shape of one edge line
    have mk : ∀ (s : Pt × ParallelLineType), Cheb (16 * w + 37) s.1 l.start →
        Cheb (16 * w + 37) (⟨s.1, s.1 + (l.stop - l.start) - (match s.2 with
          | .normal => Pt.zero
          | .extra => it.parallelParameters.positionStep.major + it.parallelParameters.positionStep.minor)⟩ : Line).start l.start ∧
        Cheb 2 ((⟨s.1, s.1 + (l.stop - l.start) - (match s.2 with
          | .normal => Pt.zero
          | .extra => it.parallelParameters.positionStep.major + it.parallelParameters.positionStep.minor)⟩ : Line).stop -
          (⟨s.1, s.1 + (l.stop - l.start) - (match s.2 with
          | .normal => Pt.zero
          | .extra => it.parallelParameters.positionStep.major + it.parallelParameters.positionStep.minor)⟩ : Line).start)
          (l.stop - l.start) := by
      intro s hs
      refine ⟨hs, ?_⟩
      obtain ⟨⟨_, _⟩, ⟨_, _⟩⟩ := hit.qM
      obtain ⟨⟨_, _⟩, ⟨_, _⟩⟩ := hit.qm
      obtain ⟨p, ty⟩ := s
      unfold Cheb
      cases ty <;> simp only [Pt.add_x, Pt.add_y, Pt.sub_x, Pt.sub_y, Pt.zero] <;> omega
    cases off with
    | none =>
      simp only at h
      cases hl : extentsLoop (2 * w + 4) it (l.start, ParallelLineType.normal) (l.start, ParallelLineType.normal) with
      | none => simp [hl] at h
      | some r =>
        have hb := extentsLoop_near _ _ _ _ r 4 l.start hl hit h0 h0
        simp only [hl, Option.bind_some, pure, Option.some.injEq, Prod.mk.injEq] at h
        obtain ⟨hL, hR⟩ := h
        subst hL hR
        have e : (4 + 8 * ((2 * w + 4 : Nat) : Int) + 1) = 16 * w + 37 := by push_cast; omega
        rw [e] at hb
        exact ⟨mk r.1 hb.1, mk r.2 hb.2⟩
    | left =>
      simp only at h
      cases hl : lastParallel (4 * w + 8) it none with
      | none => simp [hl] at h
      | some r =>
        have hb := lastParallel_near _ _ _ r 4 l.start hl hit (by intro a ha; cases ha)
        have e : (4 + 4 * ((4 * w + 8 : Nat) : Int) + 1) = 16 * w + 37 := by push_cast; omega
        rw [e] at hb
        have h00 : Cheb (16 * w + 37) l.start l.start := by unfold Cheb; omega
        cases r with
        | none =>
          simp only [hl, pure, Option.some.injEq, Prod.mk.injEq] at h
          obtain ⟨hL, hR⟩ := h
          subst hL hR
          exact ⟨mk (l.start, .normal) h00, mk (l.start, .normal) h00⟩
        | some bt =>
          obtain ⟨b, ty⟩ := bt
          simp only [hl, pure, Option.some.injEq, Prod.mk.injEq] at h
          obtain ⟨hL, hR⟩ := h
          subst hL hR
          exact ⟨mk (b.point, ty) (hb _ rfl), mk (l.start, .normal) h00⟩
    | right =>
      simp only at h
      cases hl : lastParallel (4 * w + 8) it none with
      | none => simp [hl] at h
      | some r =>
        have hb := lastParallel_near _ _ _ r 4 l.start hl hit (by intro a ha; cases ha)
        have e : (4 + 4 * ((4 * w + 8 : Nat) : Int) + 1) = 16 * w + 37 := by push_cast; omega
        rw [e] at hb
        have h00 : Cheb (16 * w + 37) l.start l.start := by unfold Cheb; omega
        cases r with
        | none =>
          simp only [hl, pure, Option.some.injEq, Prod.mk.injEq] at h
          obtain ⟨hL, hR⟩ := h
          subst hL hR
          exact ⟨mk (l.start, .normal) h00, mk (l.start, .normal) h00⟩
        | some bt =>
          obtain ⟨b, ty⟩ := bt
          simp only [hl, pure, Option.some.injEq, Prod.mk.injEq] at h
          obtain ⟨hL, hR⟩ := h
          subst hL hR
          exact ⟨mk (l.start, .normal) h00, mk (b.point, ty) (hb _ rfl)⟩

/-! ### Display scale -/

/-- A display-scale vertex: both coordinates within +-1024. -/
def VDS (p : Pt) : Prop := (-1024 ≤ p.x ∧ p.x ≤ 1024) ∧ (-1024 ≤ p.y ∧ p.y ≤ 1024)
instance (p : Pt) : Decidable (VDS p) := by unfold VDS; exact inferInstance

/-- A move within +-2^30. -/
def MoveDS (d : Pt) : Prop :=
  (-1073741824 ≤ d.x ∧ d.x ≤ 1073741824) ∧ (-1073741824 ≤ d.y ∧ d.y ≤ 1073741824)
instance (d : Pt) : Decidable (MoveDS d) := by unfold MoveDS; exact inferInstance

/-- The edge lines of a display-scale segment (stroke width up to 128) are in `EdgeDS`. -/
theorem extents_edgeDS {l : Line} (hs : VDS l.start) (he : VDS l.stop) {w : Nat} (hw : w ≤ 128)
    {off : StrokeOffset} {L R : Line} (h : extents l w off = some (L, R)) : EdgeDS L ∧ EdgeDS R := by
  obtain ⟨⟨⟨⟨_, _⟩, ⟨_, _⟩⟩, ⟨⟨_, _⟩, ⟨_, _⟩⟩⟩, ⟨⟨⟨_, _⟩, ⟨_, _⟩⟩, ⟨⟨_, _⟩, ⟨_, _⟩⟩⟩⟩ := extents_near h
  obtain ⟨⟨_, _⟩, ⟨_, _⟩⟩ := hs
  obtain ⟨⟨_, _⟩, ⟨_, _⟩⟩ := he
  unfold EdgeDS Line.delta
  simp only [Pt.sub_x, Pt.sub_y] at *
  refine ⟨⟨⟨⟨?_, ?_⟩, ⟨?_, ?_⟩⟩, ⟨⟨?_, ?_⟩, ⟨?_, ?_⟩⟩⟩, ⟨⟨⟨?_, ?_⟩, ⟨?_, ?_⟩⟩, ⟨⟨?_, ?_⟩, ⟨?_, ?_⟩⟩⟩⟩ <;> omega

/-- **`JoinNoSat` at display scale.** -/
theorem joinNoSat_display_scale {start mid stop : Pt} (h1 : VDS start) (h2 : VDS mid) (h3 : VDS stop)
    {w : Nat} (hw : w ≤ 128) (off : StrokeOffset) {d : Pt} (hd : MoveDS d) :
    JoinNoSat start mid stop w off d := by
  unfold JoinNoSat
  split
  · rename_i fl fr sl sr e1 e2
    have hf := extents_edgeDS (l := ⟨start, mid⟩) h1 h2 hw e1
    have hs := extents_edgeDS (l := ⟨mid, stop⟩) h2 h3 hw e2
    exact ⟨pointOK_display_scale hs.1 hf.1 hd, pointOK_display_scale hs.2 hf.2 hd⟩
  · trivial

/-- **`PolyNoSat` at display scale**: every join of a polyline with display-scale vertices. -/
theorem polyNoSat_display_scale {w : Nat} (hw : w ≤ 128) {d : Pt} (hd : MoveDS d) :
    ∀ (vs : List Pt), (∀ v ∈ vs, VDS v) → PolyNoSat w d vs
  | [], _ => trivial
  | [_], _ => trivial
  | [_, _], _ => trivial
  | a :: b :: c :: rest, h => by
    unfold PolyNoSat
    refine ⟨joinNoSat_display_scale (h a (by simp)) (h b (by simp)) (h c (by simp)) hw _ hd, ?_⟩
    exact polyNoSat_display_scale hw hd (b :: c :: rest) (fun v hv => h v (by simp at hv ⊢; tauto))

theorem sortTwoYx_VDS {a b : Pt} (ha : VDS a) (hb : VDS b) :
    VDS (Tri.sortTwoYx a b).1 ∧ VDS (Tri.sortTwoYx a b).2 := by
  unfold Tri.sortTwoYx; split <;> exact ⟨by assumption, by assumption⟩

theorem sortedClockwise_VDS {t : Tri} (h1 : VDS t.v1) (h2 : VDS t.v2) (h3 : VDS t.v3) :
    VDS t.sortedClockwise.v1 ∧ VDS t.sortedClockwise.v2 ∧ VDS t.sortedClockwise.v3 := by
  unfold Tri.sortedClockwise
  split
  · exact ⟨h2, h1, h3⟩
  · split
    · exact ⟨h1, h2, h3⟩
    · unfold Tri.sortedYx
      have a := sortTwoYx_VDS h1 h2
      have b := sortTwoYx_VDS h3 a.1
      have c := sortTwoYx_VDS b.2 a.2
      exact ⟨b.1, c.1, c.2⟩

/-- **`TriNoSat` at display scale** (any vertex order). -/
theorem triNoSat_display_scale {t : Tri} (h1 : VDS t.v1) (h2 : VDS t.v2) (h3 : VDS t.v3)
    {w : Nat} (hw : w ≤ 128) (off : StrokeOffset) {d : Pt} (hd : MoveDS d) : TriNoSat t w off d :=
  ⟨joinNoSat_display_scale h3 h1 h2 hw off hd, joinNoSat_display_scale h1 h2 h3 hw off hd,
    joinNoSat_display_scale h2 h3 h1 hw off hd⟩

end Joins
end EG
