/-
  EG.Lemmas.JoinsTranslate — translation lemmas for the integer kernels of the join code:
  `LinearEquation` (`from_line`, `distance`, `check_side`), `IntersectionParams`
  (`from_lines`, `nearly_colinear_has_error`, the numerators, `round_div`, `intersection`).
-/
import EG.Model.LineJoin
import Mathlib.Tactic.Ring
namespace EG
namespace Joins
open Thick (LineSide StrokeOffset)

/-! ### Points and lines -/

theorem translate_start (l : Line) (d : Pt) : (l.translate d).start = l.start + d := rfl
theorem translate_stop (l : Line) (d : Pt) : (l.translate d).stop = l.stop + d := rfl

theorem pt_add_sub_add (a b d : Pt) : (a + d) - (b + d) = a - b := by
  rw [Pt.ext_iff']; simp only [Pt.sub_x, Pt.sub_y, Pt.add_x, Pt.add_y]; omega

theorem delta_translate (l : Line) (d : Pt) : (l.translate d).delta = l.delta := by
  unfold Line.delta Line.translate; exact pt_add_sub_add _ _ _

/-! ### `LinearEquation` -/

theorem fromLine_translate_normal (l : Line) (d : Pt) :
    (LinearEquation.fromLine (l.translate d)).normalVector = (LinearEquation.fromLine l).normalVector := by
  unfold LinearEquation.fromLine; simp only [delta_translate]

theorem fromLine_translate_origin (l : Line) (d : Pt) :
    (LinearEquation.fromLine (l.translate d)).originDistance =
      (LinearEquation.fromLine l).originDistance + dot d (LinearEquation.fromLine l).normalVector := by
  unfold LinearEquation.fromLine
  simp only [delta_translate, translate_start, dot, Pt.add_x, Pt.add_y]
  ring

/-- The signed distance of a point from a line is unchanged when both are moved by `d`. -/
theorem distance_translate (l : Line) (d p : Pt) :
    (LinearEquation.fromLine (l.translate d)).distance (p + d) = (LinearEquation.fromLine l).distance p := by
  unfold LinearEquation.distance
  rw [fromLine_translate_normal, fromLine_translate_origin]
  simp only [dot, Pt.add_x, Pt.add_y]
  ring

/-- `check_side` is unchanged when line and point are moved by `d`. -/
theorem checkSide_translate (l : Line) (d p : Pt) (side : LineSide) :
    (LinearEquation.fromLine (l.translate d)).checkSide (p + d) side =
      (LinearEquation.fromLine l).checkSide p side := by
  unfold LinearEquation.checkSide
  simp only [distance_translate]

/-! ### `IntersectionParams` -/

theorem denominator_translate (l1 l2 : Line) (d : Pt) :
    (IntersectionParams.fromLines (l1.translate d) (l2.translate d)).denominator =
      (IntersectionParams.fromLines l1 l2).denominator := by
  unfold IntersectionParams.fromLines
  simp only [fromLine_translate_normal]

theorem nearlyColinearHasError_translate (l1 l2 : Line) (d : Pt) :
    (IntersectionParams.fromLines (l1.translate d) (l2.translate d)).nearlyColinearHasError =
      (IntersectionParams.fromLines l1 l2).nearlyColinearHasError := by
  unfold IntersectionParams.nearlyColinearHasError
  rw [denominator_translate]
  simp only [IntersectionParams.fromLines, delta_translate]
  rfl

/-- The x numerator moves by `d.x` times the denominator. -/
theorem xNumerator_translate (l1 l2 : Line) (d : Pt) :
    (IntersectionParams.fromLines (l1.translate d) (l2.translate d)).xNumerator =
      (IntersectionParams.fromLines l1 l2).xNumerator +
        d.x * (IntersectionParams.fromLines l1 l2).denominator := by
  unfold IntersectionParams.xNumerator IntersectionParams.fromLines
  simp only [fromLine_translate_normal, fromLine_translate_origin, det, dot]
  ring

/-- The y numerator moves by `d.y` times the denominator. -/
theorem yNumerator_translate (l1 l2 : Line) (d : Pt) :
    (IntersectionParams.fromLines (l1.translate d) (l2.translate d)).yNumerator =
      (IntersectionParams.fromLines l1 l2).yNumerator +
        d.y * (IntersectionParams.fromLines l1 l2).denominator := by
  unfold IntersectionParams.yNumerator IntersectionParams.fromLines
  simp only [fromLine_translate_normal, fromLine_translate_origin, det, dot]
  ring

/-- The `i64` quotient of `round_div`, before the saturating cast to `i32`. -/
def roundDivRaw (n d : Int) : Int := (2 * n * isignum d + iabs d) / (2 * iabs d)

theorem roundDiv_eq (n d : Int) : roundDiv n d = satI32 (roundDivRaw n d) := rfl

/-- **The repaired rounding is translation invariant**: adding `t` denominators to the numerator
adds exactly `t` to the rounded quotient, ties included. -/
theorem roundDivRaw_translate (n d t : Int) (hd : d ≠ 0) :
    roundDivRaw (n + t * d) d = roundDivRaw n d + t := by
  unfold roundDivRaw isignum iabs
  by_cases h : d < 0
  · simp only [h, ↓reduceIte]
    have e : 2 * (n + t * d) * -1 + -d = (2 * n * -1 + -d) + t * (2 * -d) := by ring
    rw [e, Int.add_mul_ediv_right _ _ (by omega)]
  · have h0 : ¬ d = 0 := hd
    simp only [h, h0, ↓reduceIte]
    have e : 2 * (n + t * d) * 1 + d = (2 * n * 1 + d) + t * (2 * d) := by ring
    rw [e, Int.add_mul_ediv_right _ _ (by omega)]

theorem satI32_of_inI32 {a : Int} (h : inI32 a) : satI32 a = a := by
  unfold inI32 at h; unfold satI32
  have h1 : ¬ a > 2147483647 := by omega
  have h2 : ¬ a < -2147483648 := by omega
  simp only [h1, h2, ↓reduceIte]

/-- `round_div` with the cast: translation invariant as long as the cast does not saturate. -/
theorem roundDiv_translate (n d t : Int) (hd : d ≠ 0) (h1 : inI32 (roundDivRaw n d))
    (h2 : inI32 (roundDivRaw n d + t)) : roundDiv (n + t * d) d = roundDiv n d + t := by
  rw [roundDiv_eq, roundDiv_eq, roundDivRaw_translate n d t hd, satI32_of_inI32 h1, satI32_of_inI32 h2]

/-- `Intersection` moved by `d`. -/
def Intersection.translate : Intersection → Pt → Intersection
  | .point p s, d => .point (p + d) s
  | .colinear, _ => .colinear

/-- The exact (`i64`) rounded intersection point, before the casts. -/
def IntersectionParams.rawPoint (p : IntersectionParams) : Pt :=
  ⟨roundDivRaw p.xNumerator p.denominator, roundDivRaw p.yNumerator p.denominator⟩

/-- "The casts of `intersection()` do not saturate, neither before nor after the move by `d`." -/
def IntersectionParams.NoSat (p : IntersectionParams) (d : Pt) : Prop :=
  inI32 p.rawPoint.x ∧ inI32 p.rawPoint.y ∧ inI32 (p.rawPoint.x + d.x) ∧ inI32 (p.rawPoint.y + d.y)

instance (p : IntersectionParams) (d : Pt) : Decidable (p.NoSat d) := by
  unfold IntersectionParams.NoSat; exact inferInstance

/-- The exact rounded intersection point moves with the lines, unconditionally. -/
theorem rawPoint_translate (l1 l2 : Line) (d : Pt)
    (hd : (IntersectionParams.fromLines l1 l2).denominator ≠ 0) :
    (IntersectionParams.fromLines (l1.translate d) (l2.translate d)).rawPoint =
      (IntersectionParams.fromLines l1 l2).rawPoint + d := by
  unfold IntersectionParams.rawPoint
  rw [xNumerator_translate, yNumerator_translate, denominator_translate, Pt.ext_iff']
  simp only [Pt.add_x, Pt.add_y]
  exact ⟨roundDivRaw_translate _ _ _ hd, roundDivRaw_translate _ _ _ hd⟩

/-- **`intersection()` commutes with translation** (outer side unchanged, point moved by `d`),
whenever the `i32` casts do not saturate. -/
theorem intersection_translate (l1 l2 : Line) (d : Pt)
    (h : (IntersectionParams.fromLines l1 l2).NoSat d) :
    (IntersectionParams.fromLines (l1.translate d) (l2.translate d)).intersection =
      (IntersectionParams.fromLines l1 l2).intersection.translate d := by
  unfold IntersectionParams.intersection
  rw [denominator_translate]
  by_cases hd : (IntersectionParams.fromLines l1 l2).denominator = 0
  · simp only [hd, ↓reduceIte, Intersection.translate]
  · simp only [hd, ↓reduceIte, Intersection.translate]
    obtain ⟨h1, h2, h3, h4⟩ := h
    rw [xNumerator_translate, yNumerator_translate]
    congr 1
    rw [Pt.ext_iff']
    simp only [Pt.add_x, Pt.add_y]
    exact ⟨roundDiv_translate _ _ _ hd h1 h3, roundDiv_translate _ _ _ hd h2 h4⟩

/-- Without any guard: moved lines are colinear iff the lines are, and the outer side (the sign of
the determinant) is the same; only the rounded point may be affected by a saturating cast. -/
theorem intersection_translate_shape (l1 l2 : Line) (d : Pt) :
    match (IntersectionParams.fromLines l1 l2).intersection with
    | .colinear =>
      (IntersectionParams.fromLines (l1.translate d) (l2.translate d)).intersection = .colinear
    | .point _ s =>
      ∃ p', (IntersectionParams.fromLines (l1.translate d) (l2.translate d)).intersection = .point p' s := by
  unfold IntersectionParams.intersection
  rw [denominator_translate]
  by_cases hd : (IntersectionParams.fromLines l1 l2).denominator = 0
  · simp only [hd, ↓reduceIte]
  · simp only [hd, ↓reduceIte]
    exact ⟨_, rfl⟩

/-- The rounded point of this pair of lines is either discarded (`nearly_colinear_has_error`) or
its casts do not saturate, before and after the move. -/
def IntersectionParams.PointOK (p : IntersectionParams) (d : Pt) : Prop :=
  p.nearlyColinearHasError = true ∨ p.NoSat d

instance (p : IntersectionParams) (d : Pt) : Decidable (p.PointOK d) := by
  unfold IntersectionParams.PointOK; exact inferInstance

end Joins
end EG
