/-
  EG.Lemmas.ThickGeoCover — which bands a stroked line consists of, and how many.
  * `next_acc`: a call of `next` that yields a parallel happens with `acc^2 <= threshold` and adds
    `2 D` (normal parallel) or `2 d` (extra parallel) to the accumulator;
  * `run_cover`: the run yields EVERY band `n` with `-nR < n <= nL` (`nL` / `nR` = number of
    left / right parallels, the centre line being the first right one), the sides alternate
    (`nR = nL` or `nL + 1`), and the accumulator value `A` that ends the run satisfies
    `A^2 > threshold`, `A <= D + d + 2 D (nL + nR)`.
-/
import EG.Lemmas.ThickGeoMain
set_option linter.unusedSimpArgs false
namespace EG
namespace Thick
open ParallelsIterator StrokeCtx Line

/-- What a parallel adds to the thickness accumulator. -/
def accStep (c : StrokeCtx) : ParallelLineType → Int
  | .normal => 2 * c.D
  | .extra => 2 * c.d

/-- A call of `next` that yields a parallel. -/
theorem next_acc (c : StrokeCtx) (it it' : ParallelsIterator) (b : Bresenham) (ty : ParallelLineType)
    (hperp : it.perpendicularParameters = c.perp) (h : it.next = some (some (b, ty), it')) :
    ¬ (it.thicknessAccumulator * it.thicknessAccumulator > it.thicknessThreshold) ∧
    it'.thicknessThreshold = it.thicknessThreshold ∧
    it'.thicknessAccumulator = it.thicknessAccumulator + accStep c ty := by
  obtain ⟨_, h2⟩ := next_adds_one_step it it' b ty h
  refine ⟨?_, ?_, ?_⟩
  · intro hacc
    rw [next_done it hacc] at h
    simp at h
  · unfold ParallelsIterator.next at h
    split at h
    · simp at h
    · cases hnp : it.nextParallel it.nextSide with
      | none => rw [hnp] at h; simp at h
      | some v =>
        obtain ⟨⟨point, error⟩, it1⟩ := v
        rw [hnp] at h
        obtain ⟨-, -, -, f4, -, -, -⟩ := nextParallelFuel_sameFrame _ _ _ _ _ hnp
        cases point with
        | normal p =>
          simp only [Option.some.injEq, Prod.mk.injEq] at h
          obtain ⟨-, rfl⟩ := h
          split <;> exact f4
        | extra p =>
          simp only [Option.some.injEq, Prod.mk.injEq] at h
          obtain ⟨-, rfl⟩ := h
          split <;> exact f4
  · rw [h2, hperp]
    cases ty <;> rfl

/-- A call of `next` that ends the run. -/
theorem next_none_acc (it it' : ParallelsIterator) (h : it.next = some (none, it')) :
    it.thicknessAccumulator * it.thicknessAccumulator > it.thicknessThreshold := by
  unfold ParallelsIterator.next at h
  split at h
  · assumption
  · cases hnp : it.nextParallel it.nextSide with
    | none => rw [hnp] at h; simp at h
    | some v =>
      obtain ⟨⟨point, error⟩, it1⟩ := v
      rw [hnp] at h
      cases point <;> simp at h

/-- The sides alternate, starting on the right. -/
def SideOK (it : ParallelsIterator) (iL jR : Nat) : Prop :=
  (it.nextSide = .right ∧ jR = iL) ∨ (it.nextSide = .left ∧ jR = iL + 1)

/-- **The run yields every band between the outermost ones**, and the accumulator that ends it is
bounded by the number of parallels. -/
theorem run_cover (c : StrokeCtx) (hv : c.Valid) (fl : Bool) (hfr : c.FrameOK fl) (s : Pt) (T : Int)
    {it : ParallelsIterator} {xs : List ParItem} (hrun : Run it xs) :
    ∀ (iL jR : Nat), NInv c s fl it iL jR → SideOK it iL jR → it.thicknessThreshold = T →
    it.thicknessAccumulator ≤ c.D + c.d + 2 * c.D * ((iL : Int) + jR) →
    0 ≤ it.thicknessAccumulator →
    ∃ (nL nR : Nat) (A : Int), iL ≤ nL ∧ jR ≤ nR ∧ (nR = nL ∨ nR = nL + 1) ∧
      0 ≤ A ∧ A * A > T ∧ A ≤ c.D + c.d + 2 * c.D * ((nL : Int) + nR) ∧
      ∀ n : Int, (((iL : Int) < n ∧ n ≤ nL) ∨ (-(nR : Int) < n ∧ n ≤ -(jR : Int))) →
        ∃ x ∈ xs, ParOK c s (c.ph c.M' * n) x.2.1 x.2.2 := by
  have hD := hv.hD
  have hdD := hv.hdD
  induction hrun with
  | @done it it' hn =>
    intro iL jR _ hside hT hA hA0
    refine ⟨iL, jR, it.thicknessAccumulator, Nat.le_refl _, Nat.le_refl _, ?_, hA0, ?_, hA, ?_⟩
    · rcases hside with ⟨_, h⟩ | ⟨_, h⟩ <;> omega
    · rw [← hT]; exact next_none_acc it it' hn
    · intro n hn; omega
  | @step it it' b ty xs hn _ ih =>
    intro iL jR hg hside hT hA hA0
    have hd0 := hv.hd0
    obtain ⟨hsw, hcase⟩ := next_geo c hv fl hfr s it it' iL jR hg b ty hn
    obtain ⟨_, a2, a3⟩ := next_acc c it it' b ty hg.hperp hn
    have hstep : accStep c ty ≤ 2 * c.D := by
      cases ty <;> simp only [accStep] <;> omega
    have hstep0 : 0 ≤ accStep c ty := by
      cases ty <;> simp only [accStep] <;> omega
    rcases hcase with ⟨hs, hg', hok⟩ | ⟨hs, hg', hok⟩
    · have hjR : jR = iL + 1 := by
        rcases hside with ⟨h1, _⟩ | ⟨_, h2⟩
        · rw [hs] at h1; cases h1
        · exact h2
      obtain ⟨nL, nR, A, b1, b2, b3, b0, b4, b5, b6⟩ := ih (iL + 1) jR hg'
        (Or.inl ⟨by rw [hsw, hs]; rfl, hjR⟩) (by rw [a2, hT])
        (by rw [a3]; push_cast; have : 2 * c.D * ((iL : Int) + 1 + jR) =
              2 * c.D * ((iL : Int) + jR) + 2 * c.D := by rw [Int.mul_add, Int.mul_add, Int.mul_add]; omega
            omega) (by rw [a3]; omega)
      refine ⟨nL, nR, A, by omega, b2, b3, b0, b4, b5, ?_⟩
      intro n hn'
      by_cases hn1 : n = (iL : Int) + 1
      · exact ⟨_, List.mem_cons_self, by rw [hn1]; exact hok⟩
      · obtain ⟨x, hx, hxo⟩ := b6 n (by push_cast; omega)
        exact ⟨x, List.mem_cons_of_mem _ hx, hxo⟩
    · have hjR : jR = iL := by
        rcases hside with ⟨_, h2⟩ | ⟨h1, _⟩
        · exact h2
        · rw [hs] at h1; cases h1
      obtain ⟨nL, nR, A, b1, b2, b3, b0, b4, b5, b6⟩ := ih iL (jR + 1) hg'
        (Or.inr ⟨by rw [hsw, hs]; rfl, by omega⟩) (by rw [a2, hT])
        (by rw [a3]; push_cast; have : 2 * c.D * ((iL : Int) + (jR + 1)) =
              2 * c.D * ((iL : Int) + jR) + 2 * c.D := by rw [Int.mul_add, Int.mul_add, Int.mul_add]; omega
            omega) (by rw [a3]; omega)
      refine ⟨nL, nR, A, b1, by omega, b3, b0, b4, b5, ?_⟩
      intro n hn'
      by_cases hn1 : n = -(jR : Int)
      · exact ⟨_, List.mem_cons_self, by rw [hn1, Int.mul_neg]; exact hok⟩
      · obtain ⟨x, hx, hxo⟩ := b6 n (by push_cast; omega)
        exact ⟨x, List.mem_cons_of_mem _ hx, hxo⟩

end Thick
end EG
