/-
  EG.Lemmas.FontTables — facts about the generated tables (`EG.Generated.FontTable`, rewritten from
  /repo's sources on every run), decided by kernel evaluation, and their lifting to statements about
  every character through the lemmas of `FontMapping`.
-/
import EG.Lemmas.FontMapping
namespace EG
namespace Font
open EG.Generated

/-- Number of glyphs of a mapping = number of characters it lists. -/
def glyphCount (m : MappingRec) : Nat := (expand m.data).length

/-- Per-mapping facts: the ranges of the string are plain and pairwise disjoint (so the expansion has
no duplicates), the replacement index designates a glyph, that glyph is the question mark, and the
string consists of scalar values. -/
def MappingOK (m : MappingRec) : Prop :=
  segsOK (segments m.data) = true ∧ m.replacement < glyphCount m ∧
  (expand m.data)[m.replacement]? = some 63 ∧
  ∀ c ∈ m.data, c ≤ 0x10FFFF ∧ ¬ isSurrogate c
instance (m : MappingRec) : Decidable (MappingOK m) := by unfold MappingOK; exact inferInstance

theorem mappingTable_ok : ∀ m ∈ mappingTable, MappingOK m := by decide +kernel

/-- Per-font facts: the mapping id is valid, the character size is positive, the atlas has EXACTLY as
many cells as the mapping lists characters (today all 292 fonts: 96, 160 or 192 glyphs in rows of 16),
and the atlas file has exactly the length `ImageRaw::new` demands for a 1-bpp image of the stated size
(rows padded to whole bytes).
The property needs only `≤` (every designated cell inside the image: `builtin_glyph_drawable`); `=` is
demanded because mapping string and atlas are independent artefacts and model and code read the same
string: a range that loses one character (all later glyphs shift by one cell) or an atlas with a
surplus row passes every other check. A future font whose last atlas row is only partly used would
have to relax this to `cells - glyphs < glyphs per row`. -/
def FontOK (r : FontRec) : Prop :=
  r.mapping < mappingTable.length ∧ 0 < r.cw ∧ 0 < r.ch ∧
  glyphCount (mappingTable.getD r.mapping ⟨"", [], 0⟩) = (r.imgW / r.cw) * (r.imgH / r.ch) ∧
  r.rawLen = ((r.imgW + 7) / 8) * r.imgH
instance (r : FontRec) : Decidable (FontOK r) := by unfold FontOK; exact inferInstance

theorem fontTable_ok : ∀ r ∈ fontTable, FontOK r := by decide +kernel

/-- Decoration rows of the built-in fonts: the strikethrough lies inside the character cell; the
underline starts inside or directly below it (it may extend below the cell: that is C02's topic). -/
def FontDecoOK (r : FontRec) : Prop :=
  r.stOff + r.stH ≤ r.ch ∧ 0 < r.stH ∧ 0 < r.ulH ∧ r.baseline < r.ch ∧ r.spacing = 0
instance (r : FontRec) : Decidable (FontDecoOK r) := by unfold FontDecoOK; exact inferInstance

theorem fontTable_deco_ok : ∀ r ∈ fontTable, FontDecoOK r := by decide +kernel

theorem builtinMapping_of_lt (r : FontRec) (h : r.mapping < mappingTable.length) :
    ∃ m ∈ mappingTable, builtinMapping r.mapping = mappingOfRec m ∧
      mappingTable.getD r.mapping ⟨"", [], 0⟩ = m := by
  refine ⟨mappingTable[r.mapping], List.getElem_mem h, ?_, ?_⟩
  · unfold builtinMapping; simp [h]
  · simp [List.getD, h]

/-- For every built-in font and EVERY character (mapped or not) the glyph cell lies completely inside
the font image, so `draw_sub_image`'s guard never suppresses a glyph. -/
theorem builtin_glyph_drawable (r : FontRec) (hr : r ∈ fontTable) (c : Nat) :
    (fontOfRec r).areaDrawable ((fontOfRec r).glyphArea c) = true := by
  obtain ⟨hm, hcw, hch, hcount, _⟩ := fontTable_ok r hr
  obtain ⟨m, hmem, hbm, hget⟩ := builtinMapping_of_lt r hm
  obtain ⟨_, hrepl, _, _⟩ := mappingTable_ok m hmem
  rw [hget] at hcount
  unfold MonoFont.glyphArea
  apply cell_inside_of_lt _ _ hcw hch
  have hlt : (fontOfRec r).index c < glyphCount m := by
    show (builtinMapping r.mapping).index c < _
    rw [hbm]
    exact index_lt (mappingOfRec m) hrepl c
  exact Nat.lt_of_lt_of_le hlt (Nat.le_of_eq hcount)

end Font
end EG
