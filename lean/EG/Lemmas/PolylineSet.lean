/-
  EG.Lemmas.PolylineSet — helper lemmas for the polyline part of C19: the point set of
  `Polyline::points()` is the union of the segment lines (`later_segments_set`), and the picture one
  `draw_iter` call with a one-colour point list leaves on a target (`picture_of_points`).
-/
import EG.Lemmas.Polyline
import EG.Lemmas.PMap
import EG.Lemmas.TriangleExact
namespace EG.Polyline
open EG

/-- The segment lines of a polyline (vertices shifted by the `translate` field). -/
def segments (tr : Pt) : List Pt → List Line
  | [] => []
  | [_] => []
  | a :: b :: rest => ⟨a + tr, b + tr⟩ :: segments tr (b :: rest)

theorem line_points_cons (l : Line) : Line.points l = l.start :: (Line.points l).tail := by
  rw [Line.points_eq, List.range_succ_eq_map]
  simp [Line.ptAt_zero]

theorem later_segments_set (tr : Pt) (p : Pt) : ∀ (rest : List Pt) (b : Pt),
    (p = b + tr ∨ p ∈ tailSegs tr (b :: rest)) ↔
      (p = b + tr ∨ ∃ l ∈ segments tr (b :: rest), p ∈ Line.points l) := by
  intro rest
  induction rest with
  | nil => intro b; simp [tailSegs, segments]
  | cons c r ih =>
    intro b
    have hcons := line_points_cons ⟨b + tr, c + tr⟩
    have hstop : c + tr ∈ Line.points ⟨b + tr, c + tr⟩ := Line.stop_mem_points ⟨b + tr, c + tr⟩
    simp only [tailSegs, segments, List.mem_append, List.mem_cons, exists_eq_or_imp]
    constructor
    · rintro (h | h | h)
      · exact Or.inl h
      · exact Or.inr (Or.inl (List.mem_of_mem_tail h))
      · rcases (ih c).mp (Or.inr h) with h' | h'
        · right; left; rw [h']; exact hstop
        · exact Or.inr (Or.inr h')
    · rintro (h | h | h)
      · exact Or.inl h
      · rw [hcons] at h
        rcases List.mem_cons.mp h with h | h
        · exact Or.inl h
        · exact Or.inr (Or.inl h)
      · rcases (ih c).mpr (Or.inr h) with h' | h'
        · rw [h', hcons] at *
          rcases List.mem_cons.mp hstop with h'' | h''
          · left; exact h''
          · exact Or.inr (Or.inl h'')
        · exact Or.inr (Or.inr h')

/-- The picture of one `draw_iter` call with a point list in one colour: exactly the points of the
list inside the target's box, in that colour. -/
theorem picture_of_points (B : Rect) (pts : List Pt) (c : Color) (p : Pt) :
    PMap.empty.apply (clipWrites B (pts.map (fun q => (q, c)))) p =
      if p ∈ pts ∧ B.contains p = true then some c else none := by
  by_cases h : p ∈ pts ∧ B.contains p = true
  · rw [if_pos h]
    apply PMap.apply_const
    · intro w hw
      obtain ⟨hw', _⟩ := mem_clipWrites.mp hw
      obtain ⟨q, _, rfl⟩ := List.mem_map.mp hw'
      rfl
    · exact ⟨(p, c), mem_clipWrites.mpr ⟨List.mem_map.mpr ⟨p, h.1, rfl⟩, h.2⟩, rfl⟩
  · rw [if_neg h, PMap.apply_clip_eq_none]
    rintro ⟨hB, c', hc'⟩
    obtain ⟨q, hq, e⟩ := List.mem_map.mp hc'
    simp only [Prod.mk.injEq] at e
    exact h ⟨e.1 ▸ hq, hB⟩

end EG.Polyline
