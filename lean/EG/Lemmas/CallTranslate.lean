/-
  EG.Lemmas.CallTranslate — the generic step from "the call list of `x.translate(d)` is the call
  list of `x` moved by `d`" to "the picture of `x.translate(d)` is the picture of `x` shifted by
  `d`", for both recording targets (`runNative` = R2 native fills, `runDefault` = R1 trait
  defaults). Side condition per call: the area handed to `fill_solid` / `fill_contiguous` lies in
  the `i32` range before and after the move (where `Rectangle::points` does not saturate) or is
  empty; `draw_iter` calls need nothing.
-/
import EG.Lemmas.PMapTranslate
import EG.Lemmas.ScanlinePaths
namespace EG
open EG.Tgt

/-- A rectangle whose `points()` move with it: empty (no points before or after), or inside the
`i32` range before and after the move by `d` (no saturation in `rows()` / `columns()`). Decidable. -/
def Rect.MoveOK (d : Pt) (a : Rect) : Prop :=
  a.isZeroSized = true ∨ (a.InRange ∧ (a.translate d).InRange)

instance (d : Pt) (a : Rect) : Decidable (a.MoveOK d) := by unfold Rect.MoveOK; exact inferInstance

theorem Rect.MoveOK.of_inRange {d : Pt} {a : Rect} (h : a.InRange) (h' : (a.translate d).InRange) :
    a.MoveOK d := Or.inr ⟨h, h'⟩

theorem Rect.pointsSpec_translate_of_moveOK {d : Pt} {a : Rect} (h : a.MoveOK d) :
    (a.translate d).pointsSpec = a.pointsSpec.map (fun p => p + d) := by
  rcases h with hz | ⟨h, h'⟩
  · unfold Rect.pointsSpec
    rw [Rect.isZeroSized_translate, if_pos hz, if_pos hz]
    rfl
  · exact Rect.pointsSpec_translate a d h h'

theorem Rect.points_translate_of_moveOK {d : Pt} {a : Rect} (h : a.MoveOK d) :
    (a.translate d).points = a.points.map (fun p => p + d) := by
  rw [Rect.points_eq_spec, Rect.points_eq_spec, Rect.pointsSpec_translate_of_moveOK h]

/-- The area a call hands to the target is empty or lies in the `i32` range before and after the
move by `d` (`clear` uses the target's box `B`). Decidable. -/
def Call.MoveOK (B : Rect) (d : Pt) : Call → Prop
  | .drawIter _ => True
  | .fillContiguous a _ => a.MoveOK d
  | .fillSolid a _ => a.MoveOK d
  | .clear _ => B.MoveOK d

instance (B : Rect) (d : Pt) (c : Call) : Decidable (c.MoveOK B d) := by
  cases c <;> unfold Call.MoveOK <;> exact inferInstance

theorem zip_map_left' {α β γ : Type} (f : α → γ) : ∀ (l : List α) (cs : List β),
    (l.map f).zip cs = (l.zip cs).map (fun w => (f w.1, w.2)) := by
  intro l
  induction l with
  | nil => intro cs; rfl
  | cons a l ih =>
    intro cs
    cases cs with
    | nil => rfl
    | cons c cs => simp only [List.map_cons, List.zip_cons_cons, ih]

/-- The native lowering of a moved call on the moved box = the moved lowering. -/
theorem Call.lowerNative_translate (B : Rect) (d : Pt) (c : Call) (h : c.MoveOK B d) :
    (c.translate d).lowerNative (B.translate d) = Writes.translate d (c.lowerNative B) := by
  cases c with
  | drawIter px => rfl
  | fillContiguous a cs =>
    unfold Call.MoveOK at h
    simp only [Call.translate, Call.lowerNative, Writes.translate]
    rw [Rect.pointsSpec_translate_of_moveOK h, zip_map_left']
  | fillSolid a col =>
    unfold Call.MoveOK at h
    simp only [Call.translate, Call.lowerNative, Writes.translate]
    rw [Rect.pointsSpec_translate_of_moveOK h, List.map_map, List.map_map]
    rfl
  | clear col =>
    unfold Call.MoveOK at h
    simp only [Call.translate, Call.lowerNative, Writes.translate]
    rw [Rect.pointsSpec_translate_of_moveOK h, List.map_map, List.map_map]
    rfl

/-- The trait-default lowering of a moved call on the moved box = the moved lowering. -/
theorem Call.lowerDefault_translate (B : Rect) (d : Pt) (c : Call) (h : c.MoveOK B d) :
    (c.translate d).lowerDefault (B.translate d) = Writes.translate d (c.lowerDefault B) := by
  cases c with
  | drawIter px => rfl
  | fillContiguous a cs =>
    unfold Call.MoveOK at h
    simp only [Call.translate, Call.lowerDefault, Writes.translate]
    rw [Rect.points_translate_of_moveOK h, zip_map_left']
  | fillSolid a col =>
    unfold Call.MoveOK at h
    simp only [Call.translate, Call.lowerDefault, Writes.translate]
    rw [Rect.points_translate_of_moveOK h, zip_map_left', List.length_map]
  | clear col =>
    unfold Call.MoveOK at h
    simp only [Call.translate, Call.lowerDefault, Writes.translate]
    rw [Rect.points_translate_of_moveOK h, zip_map_left', List.length_map]

theorem flatMap_map_translate {f f' : Call → Writes} (d : Pt) : ∀ (calls : List Call),
    (∀ c ∈ calls, f' (c.translate d) = Writes.translate d (f c)) →
    (calls.map (Call.translate d)).flatMap f' = Writes.translate d (calls.flatMap f) := by
  intro calls
  induction calls with
  | nil => intro _; rfl
  | cons c l ih =>
    intro h
    simp only [List.map_cons, List.flatMap_cons]
    rw [h c List.mem_cons_self, ih (fun b hb => h b (List.mem_cons_of_mem _ hb))]
    unfold Writes.translate
    rw [List.map_append]

/-- **Moved calls on the moved target box leave the shifted picture** (native fills, R2). -/
theorem runNative_map_translate (B : Rect) (d : Pt) (calls : List Call)
    (h : ∀ c ∈ calls, c.MoveOK B d) :
    runNative (B.translate d) (calls.map (Call.translate d)) = PMap.shift d (runNative B calls) := by
  unfold runNative
  rw [flatMap_writesNative, flatMap_writesNative,
    flatMap_map_translate d calls (fun c hc => Call.lowerNative_translate B d c (h c hc)),
    apply_clip_translate]

/-- **Moved calls on the moved target box leave the shifted picture** (trait defaults, R1). -/
theorem runDefault_map_translate (B : Rect) (d : Pt) (calls : List Call)
    (h : ∀ c ∈ calls, c.MoveOK B d) :
    runDefault (B.translate d) (calls.map (Call.translate d)) = PMap.shift d (runDefault B calls) := by
  unfold runDefault
  rw [flatMap_writesDefault, flatMap_writesDefault,
    flatMap_map_translate d calls (fun c hc => Call.lowerDefault_translate B d c (h c hc)),
    apply_clip_translate]

/-- A `draw_iter`-only call list needs no side condition. -/
theorem Call.moveOK_drawIter (B : Rect) (d : Pt) (px : Writes) : (Call.drawIter px).MoveOK B d := by
  unfold Call.MoveOK; trivial

end EG
