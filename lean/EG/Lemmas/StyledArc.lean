/-
  EG.Lemmas.StyledArc — the styled arc's pixel iterator equals its closed form:
  `pixels()` = the points of the outer edge circle's bounding box, filtered by "inside the ring and
  inside the plane sector", each paired with the stroke colour; nothing for a transparent style or
  a style without stroke colour. Consequences: the pixels lie in the styled bounding box, the
  picture commutes with translation.
  The plane sector is an arbitrary parameter throughout.
-/
import EG.Lemmas.Sector
import EG.Lemmas.PMapTranslate
import EG.Model.StyledArc
namespace EG

/-! ### `DistanceIterator::empty()` yields nothing -/

theorem DistIt.rest_empty : DistIt.empty.rest = [] := by
  simp [DistIt.rest, DistIt.empty, Rect.PointsIt.rest, Rect.PointsIt.empty]

/-- A circle's `distances()`: the bounding box's points decorated with `(delta, distance)`. -/
theorem Circle.distances_rest (c : Circle) :
    c.distances.rest = c.boundingBox.points.map (DistIt.item c.center2x) := DistIt.rest_new _ _

/-! ### `(circle.offset o).bounding_box() = circle.bounding_box().offset(o)` for `o >= 0` -/

theorem Circle.offset_boundingBox_of_nonneg (c : Circle) (o : Int) (h : 0 ≤ o) :
    (c.offset o).boundingBox = c.boundingBox.offset o := by
  have h' : o ≥ 0 := h
  simp only [Circle.offset, Circle.boundingBox, Circle.withCenter, Circle.center, Rect.offset, h',
    ↓reduceIte, Sz.satAdd, Sz.newEqual, Rect.withCenter, Nat.mul_comm]

theorem Style.strokeOffset_nonneg (st : Style) : 0 ≤ st.strokeOffset := by
  unfold Style.strokeOffset satAsI32; split <;> omega

/-! ### translation of a circle and of its offset -/

theorem Circle.translate_boundingBox (c : Circle) (t : Pt) :
    (c.translate t).boundingBox = c.boundingBox.translate t := rfl

theorem Circle.translate_center2x (c : Circle) (t : Pt) :
    (c.translate t).center2x = c.center2x + ⟨t.x * 2, t.y * 2⟩ := by
  unfold Circle.translate Circle.center2x
  rw [Pt.ext_iff']
  simp only [Pt.add_x, Pt.add_y]
  omega

set_option linter.unreachableTactic false in
set_option linter.unusedTactic false in
/-- `offset` (grow / shrink about the centre) commutes with translation. -/
theorem Circle.offset_translate (c : Circle) (t : Pt) (o : Int) :
    (c.translate t).offset o = (c.offset o).translate t := by
  unfold Circle.offset Circle.withCenter Circle.center
  simp only [Circle.translate_boundingBox, Rect.center_translate, Rect.withCenter_translate]
  -- the second alternative covers a definition of `offset` that branches on the sign of `o`
  first
  | rfl
  | (split
     · simp only [Circle.translate, Circle.mk.injEq, and_true]
       rw [Pt.ext_iff']
       simp only [Pt.add_x, Pt.add_y, Pt.sub_x, Pt.sub_y]
       omega
     · rfl)

theorem Circle.translate_threshold (c : Circle) (t : Pt) : (c.translate t).threshold = c.threshold := rfl

/-- The item of the moved point w.r.t. the moved centre has the same `delta` and `distance`. -/
theorem DistIt.item_translate (c2 t p : Pt) :
    DistIt.item (c2 + ⟨t.x * 2, t.y * 2⟩) (p + t) = (p + t, (DistIt.item c2 p).2) := by
  unfold DistIt.item
  have hd : (⟨(p + t).x * 2, (p + t).y * 2⟩ : Pt) - (c2 + ⟨t.x * 2, t.y * 2⟩) =
      (⟨p.x * 2, p.y * 2⟩ : Pt) - c2 := by
    rw [Pt.ext_iff']
    simp only [Pt.sub_x, Pt.sub_y, Pt.add_x, Pt.add_y]
    omega
  simp only [hd]

/-- The points of a `filterMap` whose function keeps the point are a sublist of the input. -/
theorem filterMap_fst_sublist {β : Type} (f : Pt → Option (Pt × β))
    (hf : ∀ p w, f p = some w → w.1 = p) (l : List Pt) :
    ((l.filterMap f).map (·.1)).Sublist l := by
  induction l with
  | nil => exact List.Sublist.slnil
  | cons p l ih =>
    rw [List.filterMap_cons]
    cases h : f p with
    | none => exact List.Sublist.cons _ ih
    | some w =>
      simp only [List.map_cons]
      rw [hf p w h]
      exact List.Sublist.cons_cons _ ih

/-- What a single `draw_iter` call leaves at a point nobody writes to. -/
theorem apply_clip_none (B : Rect) (ws : Writes) (p : Pt) (h : ∀ w ∈ ws, w.1 ≠ p) :
    PMap.empty.apply (clipWrites B ws) p = none := by
  rw [PMap.apply_of_not_mem]
  · rfl
  · intro w hw
    exact h w (mem_clipWrites.mp hw).1

/-- A point that ends up painted by a single `draw_iter` call was written by one of its pixels. -/
theorem exists_write_of_apply_clip (B : Rect) (ws : Writes) (p : Pt)
    (h : PMap.empty.apply (clipWrites B ws) p ≠ none) : ∃ w ∈ ws, w.1 = p := by
  by_cases hex : ∃ w ∈ ws, w.1 = p
  · exact hex
  · exfalso
    apply h
    apply apply_clip_none
    intro w hw e
    exact hex ⟨w, hw, e⟩

namespace Arc

/-! ### the iterator equals its closed form -/

/-- Closed form of what the iterator state still has to yield. -/
def StyledPixelsIt.rest (it : StyledPixelsIt) : Writes :=
  match it.strokeColor with
  | none => []
  | some c => (it.iter.rest.filter it.pred).map (fun x => (x.1, c))

theorem StyledPixelsIt.next_spec (it : StyledPixelsIt) :
    match it.next with
    | some (w, it') => it.rest = w :: it'.rest
    | none => it.rest = [] := by
  unfold StyledPixelsIt.next
  cases hc : it.strokeColor with
  | none => simp only [StyledPixelsIt.rest, hc]
  | some c =>
    simp only
    have h := it.iter.find_spec it.pred
    cases hf : it.iter.find it.pred with
    | none =>
      rw [hf] at h
      simp only at h ⊢
      simp only [StyledPixelsIt.rest, hc, h, List.map_nil]
    | some q =>
      obtain ⟨x, iter'⟩ := q
      rw [hf] at h
      simp only at h ⊢
      simp only [StyledPixelsIt.rest, hc, h, List.map_cons]
      rfl

theorem StyledPixelsIt.toListFuel_eq : ∀ (fuel : Nat) (it : StyledPixelsIt), it.rest.length < fuel →
    it.toListFuel fuel = it.rest := by
  intro fuel
  induction fuel with
  | zero => intro it h; omega
  | succ fuel ih =>
    intro it h
    unfold StyledPixelsIt.toListFuel
    have := it.next_spec
    split <;> rename_i heq <;> rw [heq] at this <;> simp only at this
    · rw [this] at h ⊢
      rw [ih _ (by simpa using h)]
    · exact this.symm

theorem StyledPixelsIt.rest_length_le (it : StyledPixelsIt) : it.rest.length ≤ it.iter.rest.length := by
  unfold StyledPixelsIt.rest
  split
  · simp
  · rw [List.length_map]
    exact List.length_filter_le _ _

theorem styledPixels_eq_rest (st : Style) (a : Arc) : a.styledPixels st = (a.styledPixelsIt st).rest := by
  unfold styledPixels
  simp only
  exact StyledPixelsIt.toListFuel_eq _ _ (by
    have h1 := (a.styledPixelsIt st).rest_length_le
    have h2 := (a.styledPixelsIt st).iter.rest_length_lt_budget
    omega)

/-- The stroke test of a styled arc on points: inside the outer edge circle, not inside the inner
edge circle (by the thresholds on the doubled distance to the outer edge's `center_2x`), inside the
plane sector. -/
def strokeAccepts (st : Style) (a : Arc) (p : Pt) : Bool :=
  (a.styledPixelsIt st).pred (DistIt.item (a.outsideEdge st).center2x p)

theorem strokeAccepts_eq (st : Style) (a : Arc) (p : Pt) :
    a.strokeAccepts st p =
      (Circle.hit (a.outsideEdge st).center2x (a.outsideEdge st).threshold p.y p.x &&
        decide ((DistIt.item (a.outsideEdge st).center2x p).2.2 ≥ (a.insideEdge st).threshold) &&
        a.ps.contains ((⟨p.x * 2, p.y * 2⟩ : Pt) - (a.outsideEdge st).center2x)) := by
  unfold strokeAccepts StyledPixelsIt.pred styledPixelsIt
  simp only [item_dist_lt, item_delta]

/-- **Closed form of `pixels()` of a styled arc.** -/
theorem styledPixels_eq (st : Style) (a : Arc) :
    a.styledPixels st =
      match st.stroke with
      | none => []
      | some c =>
        if st.isTransparent then []
        else ((a.outsideEdge st).boundingBox.points.filter (a.strokeAccepts st)).map (fun p => (p, c)) := by
  rw [styledPixels_eq_rest]
  unfold StyledPixelsIt.rest
  have hs : (a.styledPixelsIt st).strokeColor = st.stroke := rfl
  rw [hs]
  cases hst : st.stroke with
  | none => rfl
  | some c =>
    simp only
    by_cases ht : st.isTransparent = true
    · have hi : (a.styledPixelsIt st).iter = DistIt.empty := by
        unfold styledPixelsIt; simp [ht]
      rw [hi, DistIt.rest_empty, if_pos ht]
      rfl
    · have hi : (a.styledPixelsIt st).iter = (a.outsideEdge st).distances := by
        unfold styledPixelsIt; simp [ht]
      rw [hi, Circle.distances_rest, if_neg ht]
      have := filter_items (a.outsideEdge st).center2x (a.styledPixelsIt st).pred
        (a.outsideEdge st).boundingBox.points
      unfold strokeAccepts
      rw [← this, List.map_map]
      rfl

/-! ### C02: bounding box, transparency -/

/-- The styled bounding box is the bounding box of the outer edge circle (the box that is iterated). -/
theorem styledBoundingBox_eq (st : Style) (a : Arc) :
    a.styledBoundingBox st = (a.outsideEdge st).boundingBox := by
  unfold styledBoundingBox outsideEdge
  rw [Circle.offset_boundingBox_of_nonneg _ _ st.strokeOffset_nonneg]
  rfl

/-- Every item of `pixels()` is a point of the iterated box. -/
theorem mem_styledPixels_imp (st : Style) (a : Arc) (w : Pt × Color) (h : w ∈ a.styledPixels st) :
    w.1 ∈ (a.styledBoundingBox st).points ∧ a.strokeAccepts st w.1 = true ∧ st.stroke = some w.2 := by
  rw [styledPixels_eq] at h
  cases hst : st.stroke with
  | none => rw [hst] at h; cases h
  | some c =>
    rw [hst] at h
    simp only at h
    by_cases ht : st.isTransparent = true
    · rw [if_pos ht] at h; cases h
    · rw [if_neg ht, List.mem_map] at h
      obtain ⟨p, hp, rfl⟩ := h
      rw [List.mem_filter] at hp
      rw [styledBoundingBox_eq]
      exact ⟨hp.1, hp.2, rfl⟩

/-- A transparent style yields no pixel. -/
theorem styledPixels_transparent (st : Style) (a : Arc) (h : st.isTransparent = true) :
    a.styledPixels st = [] := by
  rw [styledPixels_eq]
  cases st.stroke with
  | none => rfl
  | some c => simp [h]

/-- A style without stroke colour yields no pixel (whatever its fill colour). -/
theorem styledPixels_no_stroke (st : Style) (a : Arc) (h : st.stroke = none) :
    a.styledPixels st = [] := by
  rw [styledPixels_eq, h]

/-- The points of `pixels()` are a sublist of the styled bounding box's points: row-major, each
point at most once. -/
theorem styledPixels_points_sublist (st : Style) (a : Arc) :
    ((a.styledPixels st).map (·.1)).Sublist (a.styledBoundingBox st).points := by
  rw [styledPixels_eq, styledBoundingBox_eq]
  cases st.stroke with
  | none => exact List.nil_sublist _
  | some c =>
    simp only
    by_cases ht : st.isTransparent = true
    · rw [if_pos ht]; exact List.nil_sublist _
    · rw [if_neg ht, List.map_map]
      have : ((fun (w : Pt × Color) => w.1) ∘ fun p => (p, c)) = id := rfl
      rw [this, List.map_id]
      exact List.filter_sublist

/-! ### C07: translation -/

theorem translate_outsideEdge (st : Style) (a : Arc) (t : Pt) :
    (a.translate t).outsideEdge st = (a.outsideEdge st).translate t := by
  unfold outsideEdge
  exact Circle.offset_translate a.toCircle t st.strokeOffset

theorem translate_insideEdge (st : Style) (a : Arc) (t : Pt) :
    (a.translate t).insideEdge st = (a.insideEdge st).translate t := by
  unfold insideEdge
  exact Circle.offset_translate a.toCircle t st.fillOffset

theorem strokeAccepts_translate (st : Style) (a : Arc) (t p : Pt) :
    (a.translate t).strokeAccepts st (p + t) = a.strokeAccepts st p := by
  unfold strokeAccepts
  have h1 : ((a.translate t).styledPixelsIt st).outerThreshold = (a.styledPixelsIt st).outerThreshold := by
    show ((a.translate t).outsideEdge st).threshold = (a.outsideEdge st).threshold
    rw [translate_outsideEdge, Circle.translate_threshold]
  have h2 : ((a.translate t).styledPixelsIt st).innerThreshold = (a.styledPixelsIt st).innerThreshold := by
    show ((a.translate t).insideEdge st).threshold = (a.insideEdge st).threshold
    rw [translate_insideEdge, Circle.translate_threshold]
  have h3 : ((a.translate t).styledPixelsIt st).planeSector = (a.styledPixelsIt st).planeSector := rfl
  have hp : ∀ x, ((a.translate t).styledPixelsIt st).pred x = (a.styledPixelsIt st).pred x := by
    intro x
    unfold StyledPixelsIt.pred
    rw [h1, h2, h3]
  rw [hp, translate_outsideEdge, Circle.translate_center2x, DistIt.item_translate]
  rfl

theorem translate_styledBoundingBox (st : Style) (a : Arc) (t : Pt) :
    (a.translate t).styledBoundingBox st = (a.styledBoundingBox st).translate t := by
  unfold styledBoundingBox
  exact Rect.offset_translate a.boundingBox t st.strokeOffset

/-- **`pixels()` of the translated styled arc are the translated pixels, in the same order** — under
the no-saturation guard of the two iterated boxes. -/
theorem styledPixels_translate (st : Style) (a : Arc) (t : Pt)
    (h1 : (a.styledBoundingBox st).InRange) (h2 : ((a.translate t).styledBoundingBox st).InRange) :
    (a.translate t).styledPixels st = Writes.translate t (a.styledPixels st) := by
  rw [styledPixels_eq, styledPixels_eq]
  cases st.stroke with
  | none => rfl
  | some c =>
    simp only
    by_cases ht : st.isTransparent = true
    · simp [ht, Writes.translate]
    · rw [if_neg ht, if_neg ht]
      rw [← styledBoundingBox_eq, ← styledBoundingBox_eq, translate_styledBoundingBox] at *
      rw [Rect.points_translate _ _ h1 h2, List.filter_map]
      unfold Writes.translate
      rw [List.map_map, List.map_map]
      have : (a.translate t).strokeAccepts st ∘ (fun p => p + t) = a.strokeAccepts st := by
        funext p
        exact strokeAccepts_translate st a t p
      rw [this]
      rfl

end Arc
end EG
