/-
  EG.Lemmas.GlueMockSwapMap — `MockDisplay::swap_xy` and `MockDisplay::map` of the model
  (`EG.Model.MockDisplay`): both are folds over the 64 x 64 display points that read one cell with
  the unchecked `get_pixel` and store one cell with `set_pixel_unchecked` into a fresh display.
  Same shape as `diff` (EG/Lemmas/MockArea.lean): never panic, cell-by-cell specification.
-/
import EG.Lemmas.MockArea
namespace EG.Glue
open EG EG.Mock

/-- A fold whose step stores `g q` into the cell of `q` (for every `q` of the display). -/
theorem copyFold (g : Pt → Option Color) (step : Option MD → Pt → Option MD)
    (hstep : ∀ (D : MD) (q : Pt), Inside q → step (some D) q = some (D.upd (idx q) (g q))) :
    ∀ (L : List Pt), (∀ q ∈ L, Inside q) → ∀ (D0 : MD),
    ∃ D1, L.foldl step (some D0) = some D1 ∧
      D1.allowOverdraw = D0.allowOverdraw ∧ D1.allowOob = D0.allowOob ∧
      ∀ p, Inside p → D1.cell p = if p ∈ L then g p else D0.cell p
  | [], _, D0 => ⟨D0, rfl, rfl, rfl, by intro p _; simp⟩
  | q :: L, hL, D0 => by
    have hq : Inside q := hL q (by simp)
    obtain ⟨D1, hf, ho, hb, hc⟩ := copyFold g step hstep L (fun r hr => hL r (by simp [hr]))
      (D0.upd (idx q) (g q))
    refine ⟨D1, by rw [List.foldl_cons, hstep D0 q hq]; exact hf, by simpa using ho,
      by simpa using hb, ?_⟩
    intro p hp
    rw [hc p hp]
    unfold MD.cell
    rw [get_upd _ _ _ _ (idx_lt hq)]
    by_cases hpL : p ∈ L
    · simp [hpL]
    · by_cases e : p = q
      · subst e; simp
      · have : ¬ idx p = idx q := fun h' => e (idx_inj hp hq h')
        simp [hpL, e, this]

theorem inside_swap {p : Pt} (hp : Inside p) : Inside ⟨p.y, p.x⟩ := by
  unfold Inside at *; simp only; omega

/-- `swap_xy` never panics; cell `(x, y)` of the result is cell `(y, x)` of the source; the result
has the default flags. -/
theorem swapXy_spec (a : MD) :
    ∃ D, a.swapXy = some D ∧ D.allowOverdraw = false ∧ D.allowOob = false ∧
      ∀ p, Inside p → D.cell p = a.cell ⟨p.y, p.x⟩ := by
  obtain ⟨D, hf, ho, hb, hc⟩ := copyFold (fun q => a.cell ⟨q.y, q.x⟩)
    (fun acc point =>
      match acc with
      | none => none
      | some m =>
        match a.getPixel ⟨point.y, point.x⟩ with
        | some c => m.setPixelUnchecked point c
        | none => none)
    (fun D q hq => by
      simp only [getPixel_inside a (inside_swap hq), setPixelUnchecked_inside D hq])
    displayArea.points (fun q hq => mem_displayPoints.mp hq) MD.new
  exact ⟨D, hf, ho, hb, fun p hp => by rw [hc p hp, if_pos (mem_displayPoints.mpr hp)]⟩

/-- `map` never panics; every cell of the result is the source cell with `f` applied to its colour
(empty cells stay empty); the result has the default flags. -/
theorem map_spec (a : MD) (f : Color → Color) :
    ∃ D, a.map f = some D ∧ D.allowOverdraw = false ∧ D.allowOob = false ∧
      ∀ p, Inside p → D.cell p = (a.cell p).map f := by
  obtain ⟨D, hf, ho, hb, hc⟩ := copyFold (fun q => (a.cell q).map f)
    (fun acc point =>
      match acc with
      | none => none
      | some m =>
        match a.getPixel point with
        | some c => m.setPixelUnchecked point (c.map f)
        | none => none)
    (fun D q hq => by
      simp only [getPixel_inside a hq, setPixelUnchecked_inside D hq])
    displayArea.points (fun q hq => mem_displayPoints.mp hq) MD.new
  exact ⟨D, hf, ho, hb, fun p hp => by rw [hc p hp, if_pos (mem_displayPoints.mpr hp)]⟩

end EG.Glue
