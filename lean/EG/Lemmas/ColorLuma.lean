/-
  EG.Lemmas.ColorLuma — C13: the luma of RGB -> gray / RGB -> binary against the exact ITU-R BT.601
  luma `0.299 R + 0.587 G + 0.114 B`, and the completeness of the conversion table.

  Everything is stated in integers: `Y = (299 R + 587 G + 114 B) / 1000` is never divided out.
  With `L` the model's 8-bit luma, `256000 * L` is compared with `256 * (299 R + 587 G + 114 B)`
  (= `256000 * Y`); a difference of at most `244280` is `|L - Y| ≤ 0.95422 < 1`.

  Where the bound comes from: `L = floor((77 R + 150 G + 29 B + 128) / 256)` is the sum
  `(77 R + 150 G + 29 B) / 256` rounded half up (error in `(-1/2, 1/2]`), and the weights differ
  from the coefficients by `77/256 - 0.299 = +456/256000`, `150/256 - 0.587 = -272/256000`,
  `29/256 - 0.114 = -184/256000` (they sum to 0), so the weighted sum is off by at most
  `255 * 456/256000 = 0.45422` for channels in `0..=255`.
-/
import EG.Lemmas.ColorConvLift
namespace EG.Conv
open EG EG.Generated EG.ColorSpec

/-! ### the conversion table is the complete matrix of ordered pairs -/

/-- the kind of `impl From<A> for B` that the kinds of `A` and `B` call for (`none`: both `BinaryColor`) -/
def kindFor : ColorKind → ColorKind → Option ConvKind
  | .binary, .binary => none
  | .binary, _ => some .fromBinary
  | .gray, .binary => some .grayBinary
  | .gray, .gray => some .grayGray
  | .gray, _ => some .grayRgb
  | _, .binary => some .rgbBinary
  | _, .gray => some .rgbGray
  | _, _ => some .rgbRgb

theorem table_complete_check :
    convTable.length = colorTable.length * (colorTable.length - 1)
    ∧ (∀ a ∈ colorTable, ∀ b ∈ colorTable, a.name ≠ b.name →
        ∃ e ∈ convTable, e.src = a.name ∧ e.dst = b.name ∧ some e.kind = kindFor a.kind b.kind)
    ∧ (convTable.map (fun e => (e.src, e.dst))).Nodup := by decide +kernel

/-! ### the weights -/

/-- `luma` divides by 256 after adding half of it, and each weight is THE integer nearest to its
BT.601 coefficient times 256 (`|1000 W - coeff*1000 * 256| ≤ 500`, i.e. `|W - coeff * 256| ≤ 1/2`;
none of `76.544`, `150.272`, `29.184` is a half-integer, so this determines `77`, `150`, `29`);
they sum to 256, so a gray input (`R = G = B`) is reproduced exactly. -/
theorem luma_weights_check :
    lumaDiv = 256 ∧ 2 * lumaRound = lumaDiv
    ∧ (1000 * lumaWR ≤ 299 * lumaDiv + 500 ∧ 299 * lumaDiv ≤ 1000 * lumaWR + 500)
    ∧ (1000 * lumaWG ≤ 587 * lumaDiv + 500 ∧ 587 * lumaDiv ≤ 1000 * lumaWG + 500)
    ∧ (1000 * lumaWB ≤ 114 * lumaDiv + 500 ∧ 114 * lumaDiv ≤ 1000 * lumaWB + 500)
    ∧ lumaWR + lumaWG + lumaWB = lumaDiv := by decide

/-- the luma expression of conversion.rs on three `u8` channel values -/
def lumaFormula (r g b : Nat) : Nat := ((r * lumaWR + g * lumaWG + b * lumaWB + lumaRound) / lumaDiv) % 256

theorem lumaOf_eq_formula (v : ColorSpec) (z : Nat) :
    lumaOf v z = lumaFormula (v.chanR z) (v.chanG z) (v.chanB z) := rfl

/-- for ALL `r, g, b ≤ 255`: the computed luma is within `244280 / 256000 = 0.95422` of the exact
`0.299 r + 0.587 g + 0.114 b`, and a gray input is reproduced -/
theorem lumaFormula_close (r g b : Nat) (hr : r ≤ 255) (hg : g ≤ 255) (hb : b ≤ 255) :
    256000 * lumaFormula r g b ≤ 256 * (299 * r + 587 * g + 114 * b) + 244280
    ∧ 256 * (299 * r + 587 * g + 114 * b) ≤ 256000 * lumaFormula r g b + 244280
    ∧ lumaFormula r g b ≤ 255
    ∧ (r = g → g = b → lumaFormula r g b = r) := by
  simp only [lumaFormula, lumaWR, lumaWG, lumaWB, lumaRound, lumaDiv]
  have b1 : (r * 77 + g * 150 + b * 29 + 128) / 256 < 256 := by omega
  rw [Nat.mod_eq_of_lt b1]
  refine ⟨by omega, by omega, by omega, ?_⟩
  intro h1 h2
  subst h1 h2
  omega

/-! ### facts about the helper types (decided on the generated table) -/

theorem via_maxima : ∀ s ∈ colorTable, s.name = lumaVia → s.maxR = 255 ∧ s.maxG = 255 ∧ s.maxB = 255 := by
  decide +kernel

theorem g8_maximum : ∀ s ∈ colorTable, s.name = grayVia → s.rawBpp = 8 ∧ maxLuma s = 255 := by decide +kernel

theorem nearest_refl (F v : Nat) : Nearest F F v v := by
  unfold Nearest
  have : 2 * F * v = 2 * v * F := by rw [Nat.mul_assoc, Nat.mul_comm F v, Nat.mul_assoc]
  omega

/-- the channels `luma` sees (`Rgb888::from(other)`) are the source channels scaled to 8 bits, to nearest -/
theorem toVia_channels_nearest {a v : ColorSpec} (ha : a ∈ colorTable) (hv : v ∈ colorTable)
    (hka : a.isRgb = true) (hkv : v.isRgb = true) (hn : v.name = lumaVia) (c : Nat) (hc : a.Valid c) :
    Nearest a.maxR 255 (a.chanR c) (v.chanR (toVia a v c))
    ∧ Nearest a.maxG 255 (a.chanG c) (v.chanG (toVia a v c))
    ∧ Nearest a.maxB 255 (a.chanB c) (v.chanB (toVia a v c)) := by
  obtain ⟨v1, v2, v3⟩ := via_maxima v hv hn
  unfold toVia
  by_cases hnm : a.name = v.name
  · have := names_unique a ha v hv hnm
    subst this
    simp only [beq_self_eq_true, ↓reduceIte]
    rw [v1, v2, v3]
    exact ⟨nearest_refl _ _, nearest_refl _ _, nearest_refl _ _⟩
  · have hb : (a.name == v.name) = false := by simp [hnm]
    simp only [hb, Bool.false_eq_true, ↓reduceIte]
    obtain ⟨e1, e2, e3⟩ := rgbToRgb_channels ha hv hka hkv c hc
    obtain ⟨_, hr, hg, hbl⟩ := Color.valid_eq_new _ ha hka c hc
    obtain ⟨ar, ag, ab, amr, amg, amb⟩ := rgb_max_table _ ha hka
    obtain ⟨_, _, _, vmr, vmg, vmb⟩ := rgb_max_table _ hv hkv
    rw [e1, e2, e3, v1, v2, v3]
    have n1 := cc_table_nearest _ amr _ vmr (a.chanR c) (mem_upTo.mpr (by omega))
    have n2 := cc_table_nearest _ amg _ vmg (a.chanG c) (mem_upTo.mpr (by omega))
    have n3 := cc_table_nearest _ amb _ vmb (a.chanB c) (mem_upTo.mpr (by omega))
    rw [v1] at n1; rw [v2] at n2; rw [v3] at n3
    exact ⟨n1, n2, n3⟩

/-- RGB -> gray, every generated conversion, every source colour: there are 8-bit channels `r8 g8 b8`
(each the value nearest to the source channel scaled to `0..=255`) and an 8-bit luma `L` within
`0.95422` of `0.299 r8 + 0.587 g8 + 0.114 b8`, such that the result's luma is the value nearest to `L`
scaled to the target's range (`L` itself for the 8-bit gray type). -/
theorem rgb_gray_close : ∀ y ∈ resolvedTable, y.kind = .rgbGray → ∀ c, y.a.Valid c →
    ∃ r8 g8 b8 L,
      Nearest y.a.maxR 255 (y.a.chanR c) r8 ∧ Nearest y.a.maxG 255 (y.a.chanG c) g8
      ∧ Nearest y.a.maxB 255 (y.a.chanB c) b8
      ∧ r8 ≤ 255 ∧ g8 ≤ 255 ∧ b8 ≤ 255
      ∧ 256000 * L ≤ 256 * (299 * r8 + 587 * g8 + 114 * b8) + 244280
      ∧ 256 * (299 * r8 + 587 * g8 + 114 * b8) ≤ 256000 * L + 244280
      ∧ L ≤ 255
      ∧ Nearest 255 (maxLuma y.b) L (y.b.luma (y.apply c)) := by
  intro y hy hk c hc
  obtain ⟨ha, hb, hka, hkb⟩ := typed_rgbGray y hy hk
  obtain ⟨hv, hkv, hvn, hg, hgk, hgn, _⟩ := typed_via y hy
  obtain ⟨h8, hm8⟩ := g8_maximum _ hg hgn
  obtain ⟨n1, n2, n3⟩ := toVia_channels_nearest ha hv hka hkv hvn c hc
  obtain ⟨c1, c2, c3⟩ := chan_le_255 y.via (toVia y.a y.via c)
  obtain ⟨l1, l2, l3, _⟩ := lumaFormula_close _ _ _ c1 c2 c3
  rw [← lumaOf_eq_formula] at l1 l2 l3
  refine ⟨_, _, _, rgbLuma y.a y.via c, n1, n2, n3, c1, c2, c3, l1, l2, l3, ?_⟩
  have hl := rgbLuma_le y.a y.via c
  have g1 : y.g8.grayNew (rgbLuma y.a y.via c) = rgbLuma y.a y.via c := by
    have := Color.gray_new_luma _ hg hgk (rgbLuma y.a y.via c) (by omega)
    rw [h8] at this; unfold luma at this; rw [this]; exact Nat.mod_eq_of_lt (by omega)
  rw [apply_rgbGray hk]
  unfold rgbToGray
  simp only [g1]
  by_cases hn : y.b.name = y.g8.name
  · have hbg := names_unique _ hb _ hg hn
    simp only [hn, beq_self_eq_true, ↓reduceIte]
    rw [hbg, hm8]
    unfold luma
    exact nearest_refl _ _
  · have hbn : (y.b.name == y.g8.name) = false := by simp [hn]
    simp only [hbn, Bool.false_eq_true, ↓reduceIte]
    have v1 : y.g8.Valid (rgbLuma y.a y.via c) := by rw [← g1]; exact Color.grayNew_valid _ hg hgk _
    rw [grayToGray_luma hg hb hgk hkb _ v1]
    have := cc_table_nearest _ (gray_max_table _ hg hgk).2.1 _ (gray_max_table _ hb hkb).2.1 _
      (mem_upTo.mpr (valid_gray_le hg hgk _ v1))
    unfold luma at this ⊢
    rw [hm8] at this ⊢
    exact this

theorem gray_maxLuma_values : ∀ s ∈ colorTable, s.kind = .gray →
    maxLuma s = 3 ∨ maxLuma s = 15 ∨ maxLuma s = 255 := by decide +kernel

/-- The same as one inequality per direction, in the form the harness oracle evaluates (with the
slightly weaker round constant `1` for `0.95422`): with `S = 299 r8 + 587 g8 + 114 b8` (1000 x the
exact luma of the 8-bit channels), `T` the target's `MAX_LUMA` and `out` the result's luma,
`|out - (S/1000) * T/255| ≤ 1/2 + T/255`, multiplied out by `510000`; for the 8-bit gray type (no second
rounding) `|out - S/1000| ≤ 1`. -/
theorem rgb_gray_within : ∀ y ∈ resolvedTable, y.kind = .rgbGray → ∀ c, y.a.Valid c →
    ∃ r8 g8 b8,
      Nearest y.a.maxR 255 (y.a.chanR c) r8 ∧ Nearest y.a.maxG 255 (y.a.chanG c) g8
      ∧ Nearest y.a.maxB 255 (y.a.chanB c) b8
      ∧ 510000 * y.b.luma (y.apply c)
          ≤ 2 * maxLuma y.b * (299 * r8 + 587 * g8 + 114 * b8) + 255000 + 2000 * maxLuma y.b
      ∧ 2 * maxLuma y.b * (299 * r8 + 587 * g8 + 114 * b8)
          ≤ 510000 * y.b.luma (y.apply c) + 255000 + 2000 * maxLuma y.b
      ∧ (maxLuma y.b = 255 →
          1000 * y.b.luma (y.apply c) ≤ 299 * r8 + 587 * g8 + 114 * b8 + 1000
          ∧ 299 * r8 + 587 * g8 + 114 * b8 ≤ 1000 * y.b.luma (y.apply c) + 1000) := by
  intro y hy hk c hc
  obtain ⟨_, hb, _, hkb⟩ := typed_rgbGray y hy hk
  obtain ⟨r8, g8, b8, L, n1, n2, n3, _, _, _, l1, l2, _, hn⟩ := rgb_gray_close y hy hk c hc
  refine ⟨r8, g8, b8, n1, n2, n3, ?_⟩
  unfold Nearest at hn
  rcases gray_maxLuma_values _ hb hkb with h | h | h <;> rw [h] at hn ⊢ <;>
    refine ⟨by omega, by omega, fun h' => ?_⟩ <;> omega

/-- RGB -> binary: `On` iff that same 8-bit luma `L` (within `0.95422` of the exact BT.601 luma of the
8-bit channels) is at least 128, the middle of `0..=255` -/
theorem rgb_binary_close : ∀ x ∈ resolvedTable, x.kind = .rgbBinary → ∀ c, x.a.Valid c →
    ∃ r8 g8 b8 L,
      Nearest x.a.maxR 255 (x.a.chanR c) r8 ∧ Nearest x.a.maxG 255 (x.a.chanG c) g8
      ∧ Nearest x.a.maxB 255 (x.a.chanB c) b8
      ∧ r8 ≤ 255 ∧ g8 ≤ 255 ∧ b8 ≤ 255
      ∧ 256000 * L ≤ 256 * (299 * r8 + 587 * g8 + 114 * b8) + 244280
      ∧ 256 * (299 * r8 + 587 * g8 + 114 * b8) ≤ 256000 * L + 244280
      ∧ (x.apply c = 1 ↔ 128 ≤ L) ∧ (x.apply c = 0 ∨ x.apply c = 1) := by
  intro x hx hk c hc
  obtain ⟨ha, hka, _⟩ := (typed_toBinary x hx).2 hk
  obtain ⟨hv, hkv, hvn, _⟩ := typed_via x hx
  obtain ⟨n1, n2, n3⟩ := toVia_channels_nearest ha hv hka hkv hvn c hc
  obtain ⟨c1, c2, c3⟩ := chan_le_255 x.via (toVia x.a x.via c)
  obtain ⟨l1, l2, _, _⟩ := lumaFormula_close _ _ _ c1 c2 c3
  rw [← lumaOf_eq_formula] at l1 l2
  obtain ⟨t1, t2, _⟩ := rgb_binary_threshold x hx hk c
  refine ⟨_, _, _, rgbLuma x.a x.via c, n1, n2, n3, c1, c2, c3, l1, l2, ?_, t2⟩
  rw [t1]
  omega

end EG.Conv
