/-
  EG.Lemmas.JoinsSegment — a `ThickSegment` moved by `d`: skeleton test, edges, box and outline move
  with it, and its scanline in row `y + d.y` is the scanline of the original in row `y`, moved.
  Empty scanlines carry a meaningless x range (`0..0`), so "moved" is the relation `SR`: same row
  up to `d.y`, and either both empty or exactly shifted.
-/
import EG.Lemmas.JoinsJoin
import EG.Lemmas.JoinsBox
import EG.Lemmas.RectTranslate
set_option linter.unusedSimpArgs false
namespace EG
namespace Joins
open Thick (LineSide StrokeOffset)

/-- `ThickSegment` moved by `d`. -/
def ThickSegment.translate (s : ThickSegment) (d : Pt) : ThickSegment :=
  ⟨s.startJoin.translate d, s.endJoin.translate d⟩

theorem pt_add_right_cancel_iff (a b d : Pt) : a + d = b + d ↔ a = b := by
  simp only [Pt.ext_iff', Pt.add_x, Pt.add_y]; omega

theorem pt_beq_add (a b d : Pt) : (a + d == b + d) = (a == b) := by
  rw [Bool.eq_iff_iff]; simp only [beq_iff_eq, pt_add_right_cancel_iff]

theorem isSkeleton_translate (s : ThickSegment) (d : Pt) :
    (s.translate d).isSkeleton = s.isSkeleton := by
  unfold ThickSegment.isSkeleton ThickSegment.translate LineJoin.translate EdgeCorners.translate
  exact pt_beq_add _ _ _

theorem edges_translate (s : ThickSegment) (d : Pt) :
    (s.translate d).edges = (s.edges.1.translate d, s.edges.2.translate d) := rfl

theorem componentMin_add (a b d : Pt) : (a + d).componentMin (b + d) = a.componentMin b + d := by
  rw [Pt.ext_iff']; simp only [Pt.componentMin, Pt.add_x, Pt.add_y]; omega

theorem componentMax_add (a b d : Pt) : (a + d).componentMax (b + d) = a.componentMax b + d := by
  rw [Pt.ext_iff']; simp only [Pt.componentMax, Pt.add_x, Pt.add_y]; omega

/-- `edges_bounding_box` moves with the segment. -/
theorem edgesBoundingBox_translate (s : ThickSegment) (d : Pt) :
    (s.translate d).edgesBoundingBox = s.edgesBoundingBox.translate d := by
  unfold ThickSegment.edgesBoundingBox
  rw [isSkeleton_translate, edges_translate]
  simp only [lineBoundingBox, translate_start, translate_stop, componentMin_add, componentMax_add,
    Rect.withCorners_translate]
  split <;> rfl

theorem midpoint_translate (l : Line) (d : Pt) : midpoint (l.translate d) = midpoint l + d := by
  unfold midpoint
  simp only [translate_start, translate_stop, pt_add_sub_add]
  rw [Pt.ext_iff']; simp only [Pt.add_x, Pt.add_y]; omega

theorem fillerLine_translate (j : LineJoin) (d : Pt) :
    (j.translate d).fillerLine = j.fillerLine.map (·.translate d) := by
  unfold LineJoin.fillerLine LineJoin.translate EdgeCorners.translate
  cases j.kind with
  | bevel side => cases side <;> rfl
  | degenerate side => cases side <;> rfl
  | miter => rfl
  | colinear => rfl
  | start => rfl
  | stop => rfl

/-- The pair of cap lines, moved by `d`. -/
def shiftCap (r : Line × Option Line) (d : Pt) : Line × Option Line :=
  (r.1.translate d, r.2.map (·.translate d))

theorem cap_translate (j : LineJoin) (c : EdgeCorners) (d : Pt) :
    (j.translate d).cap (c.translate d) = shiftCap (j.cap c) d := by
  unfold LineJoin.cap
  rw [fillerLine_translate]
  cases j.fillerLine with
  | none => rfl
  | some f =>
    simp only [Option.map_some, midpoint_translate]
    rfl

theorem startCapLines_translate (j : LineJoin) (d : Pt) :
    (j.translate d).startCapLines = shiftCap j.startCapLines d := cap_translate j _ d

theorem endCapLines_translate (j : LineJoin) (d : Pt) :
    (j.translate d).endCapLines = shiftCap j.endCapLines d := cap_translate j _ d

/-- The outline lines move with the segment. -/
theorem outline_translate (s : ThickSegment) (d : Pt) :
    (s.translate d).outline = s.outline.map (·.translate d) := by
  unfold ThickSegment.outline
  rw [isSkeleton_translate, edges_translate]
  by_cases h : s.isSkeleton = true
  · simp only [h, ↓reduceIte, List.map_cons, List.map_nil]
  · simp only [h, Bool.false_eq_true, ↓reduceIte]
    have e1 : (s.translate d).startJoin = s.startJoin.translate d := rfl
    have e2 : (s.translate d).endJoin = s.endJoin.translate d := rfl
    rw [e1, e2, startCapLines_translate, endCapLines_translate]
    obtain ⟨a1, a2⟩ := s.startJoin.startCapLines
    obtain ⟨b1, b2⟩ := s.endJoin.endCapLines
    cases a2 <;> cases b2 <;> rfl

/-! ### Scanlines up to translation -/

/-- A scanline moved by `d`. -/
def shiftS (s : Scanline) (d : Pt) : Scanline := ⟨s.y + d.y, s.xs + d.x, s.xe + d.x⟩

/-- `s'` is `s` moved by `d`: rows agree up to `d.y`, and both are empty or `s'` is `s` shifted. -/
def SR (d : Pt) (s' s : Scanline) : Prop :=
  s'.y = s.y + d.y ∧ ((s'.isEmpty = true ∧ s.isEmpty = true) ∨ s' = shiftS s d)

theorem SR_newEmpty (d : Pt) (y : Int) : SR d (Scanline.newEmpty (y + d.y)) (Scanline.newEmpty y) :=
  ⟨rfl, Or.inl ⟨rfl, rfl⟩⟩

theorem isEmpty_shiftS (s : Scanline) (d : Pt) : (shiftS s d).isEmpty = s.isEmpty := by
  unfold Scanline.isEmpty shiftS
  rw [Bool.eq_iff_iff]; simp only [Bool.not_eq_true', decide_eq_false_iff_not]; omega

theorem SR_isEmpty {d : Pt} {s' s : Scanline} (h : SR d s' s) : s'.isEmpty = s.isEmpty := by
  rcases h.2 with ⟨a, b⟩ | e
  · rw [a, b]
  · rw [e, isEmpty_shiftS]

theorem SR_of_nonempty {d : Pt} {s' s : Scanline} (h : SR d s' s) (hne : s.isEmpty = false) :
    s' = shiftS s d := by
  rcases h.2 with ⟨_, b⟩ | e
  · rw [hne] at b; exact absurd b (by decide)
  · exact e

/-- `extend` with the moved coordinate keeps the relation (and makes both sides non-empty). -/
theorem SR_extend {d : Pt} {s' s : Scanline} (h : SR d s' s) (x : Int) :
    SR d (s'.extend (x + d.x)) (s.extend x) := by
  have hy := h.1
  have he := SR_isEmpty h
  refine ⟨by rw [extend_y, extend_y, hy], Or.inr ?_⟩
  unfold Scanline.extend
  rw [he]
  by_cases hem : s.isEmpty = true
  · simp only [hem, ↓reduceIte, shiftS, Scanline.mk.injEq]
    refine ⟨hy, trivial, ?_⟩
    omega
  · have hem' : s.isEmpty = false := by simpa using hem
    have e := SR_of_nonempty h hem'
    subst e
    simp only [hem', Bool.false_eq_true, ↓reduceIte, shiftS]
    by_cases h1 : x < s.xs
    · have h1' : x + d.x < s.xs + d.x := by omega
      simp only [h1, h1', ↓reduceIte]
    · have h1' : ¬ x + d.x < s.xs + d.x := by omega
      simp only [h1, h1', ↓reduceIte]
      by_cases h2 : x ≥ s.xe
      · have h2' : x + d.x ≥ s.xe + d.x := by omega
        simp only [h2, h2', ↓reduceIte, Scanline.mk.injEq, true_and]; omega
      · have h2' : ¬ x + d.x ≥ s.xe + d.x := by omega
        simp only [h2, h2', ↓reduceIte]

theorem SR_foldl_extend {d : Pt} (ps : List Pt) {s' s : Scanline} (h : SR d s' s) :
    SR d ((ps.map (· + d)).foldl (fun s p => s.extend p.x) s') (ps.foldl (fun s p => s.extend p.x) s) := by
  induction ps generalizing s' s with
  | nil => exact h
  | cons p ps ih =>
    simp only [List.map_cons, List.foldl_cons, Pt.add_x]
    exact ih (SR_extend h p.x)

theorem inYb_translate (s' s : Scanline) (l : Line) (d : Pt) (hy : s'.y = s.y + d.y) :
    inYb s' (l.translate d) = inYb s l := by
  unfold inYb
  simp only [translate_start, translate_stop, Pt.add_y, hy]
  rw [Bool.eq_iff_iff]
  by_cases h : l.start.y ≤ l.stop.y
  · have h' : l.start.y + d.y ≤ l.stop.y + d.y := by omega
    simp only [h, h', ↓reduceIte, decide_eq_true_eq]; omega
  · have h' : ¬ l.start.y + d.y ≤ l.stop.y + d.y := by omega
    simp only [h, h', ↓reduceIte, decide_eq_true_eq]; omega

theorem rowPoints_translate (s' s : Scanline) (l : Line) (d : Pt) (hy : s'.y = s.y + d.y) :
    rowPoints s' (l.translate d) = (rowPoints s l).map (· + d) := by
  unfold rowPoints
  rw [Line.points_translate, List.dropWhile_map, List.takeWhile_map]
  have e1 : ((fun (p : Pt) => p.y != s'.y) ∘ fun (x : Pt) => x + d) = (fun p => p.y != s.y) := by
    funext p
    simp only [Function.comp, Pt.add_y, hy]
    rw [Bool.eq_iff_iff]; simp only [bne_iff_ne, ne_eq]; omega
  have e2 : ((fun (p : Pt) => p.y == s'.y) ∘ fun (x : Pt) => x + d) = (fun p => p.y == s.y) := by
    funext p
    simp only [Function.comp, Pt.add_y, hy]
    rw [Bool.eq_iff_iff]; simp only [beq_iff_eq]; omega
  rw [e1, e2]

/-- `bresenham_intersection` with the moved line keeps the relation. -/
theorem SR_bint {d : Pt} {s' s : Scanline} (h : SR d s' s) (l : Line) :
    SR d (bint s' (l.translate d)) (bint s l) := by
  rw [bint_eq, bint_eq, inYb_translate s' s l d h.1, rowPoints_translate s' s l d h.1]
  by_cases hb : inYb s l = true
  · simp only [hb, ↓reduceIte]; exact SR_foldl_extend _ h
  · simp only [hb, Bool.false_eq_true, ↓reduceIte]; exact h

theorem SR_foldl_bint {d : Pt} (ls : List Line) {s' s : Scanline} (h : SR d s' s) :
    SR d ((ls.map (·.translate d)).foldl bint s') (ls.foldl bint s) := by
  induction ls generalizing s' s with
  | nil => exact h
  | cons l ls ih =>
    simp only [List.map_cons, List.foldl_cons]
    exact ih (SR_bint h l)

/-- **The scanline of a moved segment in the moved row is the moved scanline.** -/
theorem intersection_translate_segment (s : ThickSegment) (d : Pt) (y : Int) :
    SR d ((s.translate d).intersection (y + d.y)) (s.intersection y) := by
  unfold ThickSegment.intersection
  rw [outline_translate]
  exact SR_foldl_bint _ (SR_newEmpty d y)

end Joins
end EG
