/-
  EG.Lemmas.Color — helper lemmas for C12 (colour types over the generated `colorTable`).

  Method: `|||` of the three disjoint channel fields is turned into `+` once, generically, for any
  well-formed layout (`rgbNew_eq_add`); everything else is done per generated record with literal
  widths: masks become `%`, shifts become `*` / `/`, and `omega` closes the goal. No enumeration of
  colour values anywhere.
-/
import EG.Generated.ColorTable
namespace EG.Color
open EG EG.Generated EG.ColorSpec

/-! ### bit operations as arithmetic -/

/-- structural log2 (so that `decide` can evaluate it on literals) -/
def lg : Nat → Nat → Nat
  | 0, _ => 0
  | f + 1, n => if n ≥ 2 then lg f (n / 2) + 1 else 0

/-- masking with a literal `2^k - 1` is `% 2^k` (side condition by `decide`) -/
theorem and_mask_eq_mod (x m : Nat) (h : m + 1 = 2 ^ lg 64 (m + 1)) : x &&& m = x % (m + 1) := by
  have h1 : m = 2 ^ lg 64 (m + 1) - 1 := by omega
  have h2 : x &&& (2 ^ lg 64 (m + 1) - 1) = x % 2 ^ lg 64 (m + 1) := Nat.and_two_pow_sub_one_eq_mod x _
  rw [← h1] at h2
  rw [h2, ← h]

theorem shl_lt {x p n q : Nat} (hx : x < 2 ^ n) (h : p + n ≤ q) : x <<< p < 2 ^ q := by
  rw [Nat.shiftLeft_eq]
  have h1 : x * 2 ^ p < 2 ^ n * 2 ^ p := Nat.mul_lt_mul_of_pos_right hx (Nat.pow_pos (by decide))
  have h2 : 2 ^ n * 2 ^ p = 2 ^ (n + p) := (Nat.pow_add 2 n p).symm
  have h3 : 2 ^ (n + p) ≤ 2 ^ q := Nat.pow_le_pow_right (by decide) (by omega)
  omega

theorem shl_add_shl_lt {x y p q r n m : Nat} (hx : x < 2 ^ n) (hy : y < 2 ^ m) (h1 : p + n ≤ q)
    (h2 : q + m ≤ r) : x <<< p + y <<< q < 2 ^ r := by
  have hxp : x <<< p < 2 ^ q := shl_lt hx h1
  rw [Nat.shiftLeft_eq y q]
  have h3 : (y + 1) * 2 ^ q ≤ 2 ^ m * 2 ^ q := Nat.mul_le_mul_right _ hy
  have h4 : 2 ^ m * 2 ^ q = 2 ^ (m + q) := (Nat.pow_add 2 m q).symm
  have h5 : 2 ^ (m + q) ≤ 2 ^ r := Nat.pow_le_pow_right (by decide) (by omega)
  have h6 : (y + 1) * 2 ^ q = y * 2 ^ q + 2 ^ q := by rw [Nat.add_mul, Nat.one_mul]
  omega

/-- three disjoint bit fields in ascending order: `|||` is `+` -/
theorem lor3_asc {x y z p q r n m : Nat} (hx : x < 2 ^ n) (hy : y < 2 ^ m) (h1 : p + n ≤ q)
    (h2 : q + m ≤ r) :
    x <<< p ||| y <<< q ||| z <<< r = x * 2 ^ p + y * 2 ^ q + z * 2 ^ r := by
  have e1 : x <<< p ||| y <<< q = x <<< p + y <<< q := by
    rw [Nat.or_comm, ← Nat.shiftLeft_add_eq_or_of_lt (shl_lt hx h1) y, Nat.add_comm]
  rw [e1, Nat.or_comm, ← Nat.shiftLeft_add_eq_or_of_lt (shl_add_shl_lt hx hy h1 h2) z]
  simp only [Nat.shiftLeft_eq]
  omega

theorem maxChan_lt (n : Nat) (_h : n ≤ 8) : maxChan n < 2 ^ n := by
  unfold maxChan
  rw [Nat.shiftLeft_eq, Nat.one_mul]
  have : 0 < 2 ^ n := Nat.pow_pos (by decide)
  have := Nat.mod_le (2 ^ n - 1) 256
  omega

theorem and_maxChan_lt (x n : Nat) (h : n ≤ 8) : x &&& maxChan n < 2 ^ n :=
  Nat.lt_of_le_of_lt Nat.and_le_right (maxChan_lt n h)

/-- `new(r, g, b)` of any well-formed RGB/BGR layout as a sum of its three fields. -/
theorem rgbNew_eq_add (s : ColorSpec) (hk : s.isRgb = true) (hw : s.WellFormed = true) (r g b : Nat) :
    s.rgbNew r g b
      = (r &&& s.maxR) * 2 ^ s.rpos + (g &&& s.maxG) * 2 ^ s.gpos + (b &&& s.maxB) * 2 ^ s.bpos := by
  unfold rgbNew
  unfold WellFormed at hw
  unfold isRgb at hk
  cases hkind : s.kind <;> simp only [hkind] at hw hk <;> try (exact absurd hk (by decide))
  · -- rgb: blue lowest
    simp only [packedAsc, Bool.and_eq_true, decide_eq_true_eq, beq_iff_eq] at hw
    have hb := and_maxChan_lt b s.bbits (by omega)
    have hg := and_maxChan_lt g s.gbits (by omega)
    have := lor3_asc (x := b &&& s.maxB) (y := g &&& s.maxG) (z := r &&& s.maxR)
      (p := s.bpos) (q := s.gpos) (r := s.rpos) hb hg (by omega) (by omega)
    rw [Nat.or_assoc, Nat.or_comm, Nat.or_comm ((g &&& s.maxG) <<< s.gpos), this]
    omega
  · -- bgr: red lowest
    simp only [packedAsc, Bool.and_eq_true, decide_eq_true_eq, beq_iff_eq] at hw
    have hr := and_maxChan_lt r s.rbits (by omega)
    have hg := and_maxChan_lt g s.gbits (by omega)
    exact lor3_asc hr hg (by omega) (by omega)


/-! ### per-record tactics -/

/-- split `hs : s ∈ colorTable` into one goal per generated record (works for any table length) -/
macro "each_color" hs:ident : tactic => `(tactic|
  (simp only [colorTable, List.mem_cons, List.mem_nil_iff, or_false] at $hs:ident
   repeat' (rcases $hs:ident with heq | $hs:ident)
   all_goals subst_vars))

/-- unfold the model on a literal record and turn masks / shifts into `%`, `*`, `/` -/
macro "color_norm" : tactic => `(tactic|
  (simp only [chanR, chanG, chanB, maxR, maxG, maxB, maxChan, rgbMask, rawMask, rawNew, rawFromU32,
     grayNew, luma, fromRaw, toRaw, intoStorage, Valid, usedBits]
   <;> try simp (disch := decide) only [and_mask_eq_mod, Nat.shiftLeft_eq, Nat.shiftRight_eq_div_pow,
     Nat.reducePow, Nat.reduceMul, Nat.reduceSub, Nat.reduceMod, Nat.reduceAdd, Nat.reduceDiv,
     Nat.reduceOr, Nat.one_mul, Nat.mul_one, Nat.div_one, Nat.shiftRight_zero]))

macro "color_norm_at" h:ident : tactic => `(tactic|
  (simp only [chanR, chanG, chanB, maxR, maxG, maxB, maxChan, rgbMask, rawMask, rawNew, rawFromU32,
     grayNew, luma, fromRaw, toRaw, intoStorage, Valid, usedBits] at $h:ident
   <;> try simp (disch := decide) only [and_mask_eq_mod, Nat.shiftLeft_eq, Nat.shiftRight_eq_div_pow,
     Nat.reducePow, Nat.reduceMul, Nat.reduceSub, Nat.reduceMod, Nat.reduceAdd, Nat.reduceDiv,
     Nat.reduceOr, Nat.one_mul, Nat.mul_one, Nat.div_one, Nat.shiftRight_zero] at $h:ident))

/-- reduce structure projections / literal powers in a hypothesis about a literal record -/
macro "lit_at" h:ident : tactic => `(tactic|
  (dsimp only at $h:ident
   try simp only [Nat.reducePow, Nat.reduceAdd, Nat.reduceMul] at $h:ident))

/-- split conjunctions and `if`s, then close every goal by `omega` -/
macro "color_close" : tactic => `(tactic|
  (try (repeat' apply And.intro)
   all_goals (repeat' split)
   all_goals (try simp only [↓reduceIte, Nat.reduceEqDiff, Nat.reduceMod, Nat.reduceDiv, ne_eq, not_true_eq_false,
     not_false_eq_true])
   all_goals (first | trivial | omega)))

/-! ### the generated table -/

theorem table_wellFormed : ∀ s ∈ colorTable, s.WellFormed = true := by decide

/-! ### `new`, channel accessors -/

theorem new_channels : ∀ s ∈ colorTable, s.isRgb = true → ∀ r g b, r < 256 → g < 256 → b < 256 →
    s.chanR (s.rgbNew r g b) = r % 2 ^ s.rbits ∧ s.chanG (s.rgbNew r g b) = g % 2 ^ s.gbits
      ∧ s.chanB (s.rgbNew r g b) = b % 2 ^ s.bbits := by
  intro s hs
  each_color hs
  all_goals (intro hk; first | exact absurd hk (by decide) | skip)
  all_goals (
    intro r g b hr hg hb
    rw [rgbNew_eq_add _ hk (by decide)]
    color_norm
    color_close)

theorem gray_new_luma : ∀ s ∈ colorTable, s.kind = .gray → ∀ l, l < 256 →
    s.luma (s.grayNew l) = l % 2 ^ s.rawBpp := by
  intro s hs
  each_color hs
  all_goals (intro hk; first | exact absurd hk (by decide) | skip)
  all_goals (intro l hl; color_norm; color_close)
/-- storage layout: the value `new` builds (and its raw value) is the three reduced channels at
their positions. -/
theorem new_layout : ∀ s ∈ colorTable, s.isRgb = true → ∀ r g b,
    s.rgbNew r g b = r % 2 ^ s.rbits * 2 ^ s.rpos + g % 2 ^ s.gbits * 2 ^ s.gpos + b % 2 ^ s.bbits * 2 ^ s.bpos
    ∧ s.toRaw (s.rgbNew r g b) = s.rgbNew r g b := by
  intro s hs
  each_color hs
  all_goals (intro hk; first | exact absurd hk (by decide) | skip)
  all_goals (
    intro r g b
    rw [rgbNew_eq_add _ hk (by decide)]
    color_norm
    color_close)

/-! ### validity -/

theorem new_valid : ∀ s ∈ colorTable, s.isRgb = true → ∀ r g b, s.Valid (s.rgbNew r g b) := by
  intro s hs
  each_color hs
  all_goals (intro hk; first | exact absurd hk (by decide) | skip)
  all_goals (
    intro r g b
    rw [rgbNew_eq_add _ hk (by decide)]
    color_norm
    color_close)

theorem grayNew_valid : ∀ s ∈ colorTable, s.kind = .gray → ∀ l, s.Valid (s.grayNew l) := by
  intro s hs
  each_color hs
  all_goals (intro hk; first | exact absurd hk (by decide) | skip)
  all_goals (intro l; color_norm; color_close)

theorem fromRaw_valid : ∀ s ∈ colorTable, ∀ raw, raw < 2 ^ s.rawBpp → s.Valid (s.fromRaw raw) := by
  intro s hs
  each_color hs
  all_goals (intro raw hraw; lit_at hraw; color_norm; color_close)

theorem rawFromU32_lt : ∀ s ∈ colorTable, ∀ v, s.rawFromU32 v < 2 ^ s.rawBpp := by
  intro s hs
  each_color hs
  all_goals (intro v; color_norm; color_close)

/-- exact: `from_u32` keeps the low `BITS_PER_PIXEL` bits of its argument and drops everything above
(bits beyond the storage type by the `as Storage` cast, bits beyond `BITS_PER_PIXEL` by `MASK`) -/
theorem rawFromU32_eq : ∀ s ∈ colorTable, ∀ v, s.rawFromU32 v = v % 2 ^ s.rawBpp := by
  intro s hs
  each_color hs
  all_goals (intro v; color_norm; color_close)

/-- any `u32` -> raw -> colour -> raw: the low `usedBits` bits of the argument, nothing else -/
theorem u32_raw_color_raw : ∀ s ∈ colorTable, ∀ v,
    s.toRaw (s.fromRaw (s.rawFromU32 v)) = v % 2 ^ s.usedBits := by
  intro s hs
  each_color hs
  all_goals (intro v; color_norm; color_close)

/-- a valid RGB value is `new` of its channels -/
theorem valid_eq_new : ∀ s ∈ colorTable, s.isRgb = true → ∀ c, s.Valid c →
    c = s.rgbNew (s.chanR c) (s.chanG c) (s.chanB c)
    ∧ s.chanR c < 2 ^ s.rbits ∧ s.chanG c < 2 ^ s.gbits ∧ s.chanB c < 2 ^ s.bbits := by
  intro s hs
  each_color hs
  all_goals (intro hk; first | exact absurd hk (by decide) | skip)
  all_goals (
    intro c hc
    rw [rgbNew_eq_add _ hk (by decide)]
    color_norm_at hc
    color_norm
    color_close)

/-! ### raw round trips -/

theorem raw_roundtrip : ∀ s ∈ colorTable, ∀ c, s.Valid c → s.fromRaw (s.toRaw c) = c := by
  intro s hs
  each_color hs
  all_goals (intro c hc; color_norm_at hc; color_norm; color_close)

theorem into_fits : ∀ s ∈ colorTable, ∀ c, s.Valid c → s.toRaw c < 2 ^ s.rawBpp := by
  intro s hs
  each_color hs
  all_goals (intro c hc; color_norm_at hc; color_norm; color_close)

/-- raw -> colour -> raw keeps the `usedBits` low bits and clears everything above -/
theorem raw_clears_unused_only : ∀ s ∈ colorTable, ∀ raw, raw < 2 ^ s.rawBpp →
    s.toRaw (s.fromRaw raw) = raw % 2 ^ s.usedBits := by
  intro s hs
  each_color hs
  all_goals (intro raw hraw; lit_at hraw; color_norm; color_close)

/-- raw -> colour -> raw is idempotent -/
theorem raw_idempotent : ∀ s ∈ colorTable, ∀ raw, raw < 2 ^ s.rawBpp →
    s.toRaw (s.fromRaw (s.toRaw (s.fromRaw raw))) = s.toRaw (s.fromRaw raw) := by
  intro s hs raw hraw
  rw [raw_roundtrip s hs _ (fromRaw_valid s hs raw hraw)]

/-! ### `into_storage`, `to_be_bytes`, `to_le_bytes` -/

theorem storage_bytes_agree : ∀ s ∈ colorTable, ∀ c, s.Valid c →
    s.intoStorage c = s.toRaw c
    ∧ ofBe (s.toBeBytes c) = s.intoStorage c ∧ ofLe (s.toLeBytes c) = s.intoStorage c
    ∧ (s.toBeBytes c).length = s.nbytes ∧ (s.toLeBytes c).length = s.nbytes
    ∧ s.toBeBytes c = (s.toLeBytes c).reverse
    ∧ (∀ x ∈ s.toBeBytes c, x < 256) := by
  intro s hs
  each_color hs
  all_goals (
    intro c hc
    color_norm_at hc
    simp only [toBeBytes, toLeBytes, beBytes, slice, leBytes, ofBe, ofLe, intoStorage, Nat.reduceDiv,
      List.reverse_cons, List.reverse_nil, List.nil_append, List.cons_append, List.take_succ_cons, List.take_zero,
      List.drop_succ_cons, List.drop_zero, List.length_cons, List.length_nil, List.mem_cons, List.mem_nil_iff, or_false,
      forall_eq_or_imp, forall_eq, List.take_nil]
    color_norm
    color_close)

/-- a gray value is `new` of its own luma -/
theorem grayNew_luma_id : ∀ s ∈ colorTable, s.kind = .gray → ∀ c, s.Valid c → s.grayNew (s.luma c) = c := by
  intro s hs
  each_color hs
  all_goals (intro hk; first | exact absurd hk (by decide) | skip)
  all_goals (intro c hc; color_norm_at hc; color_norm; color_close)

end EG.Color
