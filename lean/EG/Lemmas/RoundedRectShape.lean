/-
  EG.Lemmas.RoundedRectShape — what `RoundedRectangle::contains` accepts:
  * zero radii: the rectangle,
  * outside the corner boxes (the straight part): everything inside the bounding box,
  * inside corner boxes: the corner ellipse tests,
  * the corner ellipse test is "pixel centre strictly inside the ideal quarter ellipse"
    (doubled coordinates), except for the circular corners of radius 1 and 2 (special thresholds),
  * every row is one contiguous run.
-/
import EG.Lemmas.RoundedRectPoints
namespace EG

namespace CornerRadii

def zero : CornerRadii := ⟨Sz.zero, Sz.zero, Sz.zero, Sz.zero⟩

theorem confine_zero (bb : Sz) : zero.confine bb = zero :=
  confine_noop' zero bb (by simp [Fits, zero, Sz.zero])

end CornerRadii

namespace RoundedRect

/-! ### zero radii -/

theorem new_slStart (r : RoundedRect) : (RRContains.new r).slStart =
    (RRContains.new r).rowsStart + ((r.corners.confine r.rect.size).tl.h : Int) := rfl
theorem new_slEnd (r : RoundedRect) : (RRContains.new r).slEnd =
    (RRContains.new r).rowsEnd - ((r.corners.confine r.rect.size).bl.h : Int) := rfl
theorem new_srStart (r : RoundedRect) : (RRContains.new r).srStart =
    (RRContains.new r).rowsStart + ((r.corners.confine r.rect.size).tr.h : Int) := rfl
theorem new_srEnd (r : RoundedRect) : (RRContains.new r).srEnd =
    (RRContains.new r).rowsEnd - ((r.corners.confine r.rect.size).br.h : Int) := rfl

theorem leftCorner_zero (rect : Rect) (y : Int)
    (hy : (RRContains.new ⟨rect, CornerRadii.zero⟩).rowsStart ≤ y ∧
      y < (RRContains.new ⟨rect, CornerRadii.zero⟩).rowsEnd) :
    (RRContains.new ⟨rect, CornerRadii.zero⟩).leftCorner y = none := by
  unfold RRContains.leftCorner
  have e1 : (RRContains.new ⟨rect, CornerRadii.zero⟩).slStart =
      (RRContains.new ⟨rect, CornerRadii.zero⟩).rowsStart := by
    rw [new_slStart]; dsimp only; rw [CornerRadii.confine_zero]; simp [CornerRadii.zero, Sz.zero]
  have e2 : (RRContains.new ⟨rect, CornerRadii.zero⟩).slEnd =
      (RRContains.new ⟨rect, CornerRadii.zero⟩).rowsEnd := by
    rw [new_slEnd]; dsimp only; rw [CornerRadii.confine_zero]; simp [CornerRadii.zero, Sz.zero]
  rw [e1, e2, if_neg (by omega), if_neg (by omega)]

theorem rightCorner_zero (rect : Rect) (y : Int)
    (hy : (RRContains.new ⟨rect, CornerRadii.zero⟩).rowsStart ≤ y ∧
      y < (RRContains.new ⟨rect, CornerRadii.zero⟩).rowsEnd) :
    (RRContains.new ⟨rect, CornerRadii.zero⟩).rightCorner y = none := by
  unfold RRContains.rightCorner
  have e1 : (RRContains.new ⟨rect, CornerRadii.zero⟩).srStart =
      (RRContains.new ⟨rect, CornerRadii.zero⟩).rowsStart := by
    rw [new_srStart]; dsimp only; rw [CornerRadii.confine_zero]; simp [CornerRadii.zero, Sz.zero]
  have e2 : (RRContains.new ⟨rect, CornerRadii.zero⟩).srEnd =
      (RRContains.new ⟨rect, CornerRadii.zero⟩).rowsEnd := by
    rw [new_srEnd]; dsimp only; rw [CornerRadii.confine_zero]; simp [CornerRadii.zero, Sz.zero]
  rw [e1, e2, if_neg (by omega), if_neg (by omega)]

/-- With all radii zero `contains` is the rectangle's `contains`. -/
theorem zero_contains (rect : Rect) (h : rect.InRange) (p : Pt) :
    (⟨rect, CornerRadii.zero⟩ : RoundedRect).contains p = rect.contains p := by
  have hi : (⟨rect, CornerRadii.zero⟩ : RoundedRect).InRange := h
  rw [Bool.eq_iff_iff, Rect.contains_iff]
  unfold contains
  rw [RRContains.contains_iff]
  obtain ⟨r1, r2⟩ := new_rows _ hi
  obtain ⟨c1, c2⟩ := new_cols _ hi
  constructor
  · rintro ⟨hr, hc, _, _⟩
    rw [r1, r2] at hr; rw [c1, c2] at hc
    dsimp only at hr hc
    omega
  · intro hp
    have hr : (RRContains.new ⟨rect, CornerRadii.zero⟩).rowsStart ≤ p.y ∧
        p.y < (RRContains.new ⟨rect, CornerRadii.zero⟩).rowsEnd := by
      rw [r1, r2]; dsimp only; omega
    refine ⟨hr, by rw [c1, c2]; dsimp only; omega, ?_, ?_⟩
    · intro q hq; rw [leftCorner_zero rect p.y hr] at hq; cases hq
    · intro q hq; rw [rightCorner_zero rect p.y hr] at hq; cases hq

theorem filter_eq_self_of_all {α : Type} (p : α → Bool) : ∀ (l : List α), (∀ a ∈ l, p a = true) →
    l.filter p = l := by
  intro l
  induction l with
  | nil => intro _; rfl
  | cons a l ih =>
    intro h
    rw [List.filter_cons, h a List.mem_cons_self]
    simp only [↓reduceIte]
    rw [ih (fun b hb => h b (List.mem_cons_of_mem _ hb))]

/-- With all radii zero `points()` is the rectangle's `points()`. -/
theorem zero_points (rect : Rect) (h : rect.InRange) :
    (⟨rect, CornerRadii.zero⟩ : RoundedRect).points = rect.points := by
  rw [points_eq_filter _ (show (⟨rect, CornerRadii.zero⟩ : RoundedRect).InRange from h)]
  unfold boundingBox
  apply filter_eq_self_of_all
  intro p hp
  rw [zero_contains rect h]
  exact (Rect.mem_points h).mp hp

/-! ### straight part and corners -/

/-- A point of the bounding box that lies in no corner box of its row is inside (the straight
part is full). -/
theorem contains_straight (r : RoundedRect) (h : r.InRange) (p : Pt)
    (hb : r.boundingBox.contains p = true)
    (hl : ∀ q, (RRContains.new r).leftCorner p.y = some q → q.colsEnd ≤ p.x)
    (hr : ∀ q, (RRContains.new r).rightCorner p.y = some q → p.x < q.colsStart) :
    r.contains p = true := by
  unfold contains
  rw [RRContains.contains_iff, (new_rows r h).1, (new_rows r h).2, (new_cols r h).1, (new_cols r h).2]
  unfold boundingBox at hb
  rw [Rect.contains_iff] at hb
  refine ⟨by omega, by omega, ?_, ?_⟩
  · intro q hq hx; have := hl q hq; omega
  · intro q hq hx; have := hr q hq; omega

/-- A point of the bounding box is inside iff the left corner of its row accepts it (when the point
is in that corner's columns) and the right corner of its row accepts it (likewise): in a corner box
membership is the corner ellipse test, for both corners when opposite boxes overlap. -/
theorem contains_corners (r : RoundedRect) (h : r.InRange) (p : Pt)
    (hb : r.boundingBox.contains p = true) :
    r.contains p = true ↔
      (∀ q, (RRContains.new r).leftCorner p.y = some q → p.x < q.colsEnd → q.contains p = true) ∧
      (∀ q, (RRContains.new r).rightCorner p.y = some q → q.colsStart ≤ p.x → q.contains p = true) := by
  unfold contains
  rw [RRContains.contains_iff, (new_rows r h).1, (new_rows r h).2, (new_cols r h).1, (new_cols r h).2]
  unfold boundingBox at hb
  rw [Rect.contains_iff] at hb
  constructor
  · rintro ⟨_, _, h3, h4⟩; exact ⟨h3, h4⟩
  · rintro ⟨h3, h4⟩; exact ⟨by omega, by omega, h3, h4⟩

/-- Every row is one contiguous run. -/
theorem row_contiguous (r : RoundedRect) (h : r.InRange) (y x1 x2 x : Int)
    (h1 : r.contains ⟨x1, y⟩ = true) (h2 : r.contains ⟨x2, y⟩ = true) (hx : x1 ≤ x ∧ x ≤ x2) :
    r.contains ⟨x, y⟩ = true := by
  rw [contains_iff_row r h] at h1 h2 ⊢
  exact ⟨h1.1, by omega, by omega⟩

end RoundedRect

/-! ### the corner test is the ideal quarter ellipse -/

namespace EllipseQuadrant

/-- The inner corner of the quadrant's box = centre of its ellipse. -/
def innerCorner (tl : Pt) (r : Sz) : Quadrant → Pt
  | .topLeft => ⟨tl.x + r.w, tl.y + r.h⟩
  | .topRight => ⟨tl.x, tl.y + r.h⟩
  | .bottomRight => tl
  | .bottomLeft => ⟨tl.x + r.w, tl.y⟩

/-- `center_2x` is the doubled ellipse centre minus one: `2 p - center_2x` is the doubled vector
from the ellipse centre to the *centre of pixel* `p` (`2 p + 1 - 2 c`). -/
theorem new_center2x (tl : Pt) (r : Sz) (k : Quadrant) (hw : 1 ≤ r.w) (hh : 1 ≤ r.h) :
    (new tl r k).center2x = ⟨2 * (innerCorner tl r k).x - 1, 2 * (innerCorner tl r k).y - 1⟩ := by
  cases k <;> simp only [new, ellipseCenter2x, innerCorner, Pt.mk.injEq] <;> omega

/-- Doubled offset of the centre of pixel `p` from the ellipse centre, squared, as naturals. -/
def dx2 (tl : Pt) (r : Sz) (k : Quadrant) (p : Pt) : Nat :=
  ((p.x * 2 + 1 - 2 * (innerCorner tl r k).x) ^ 2).toNat
def dy2 (tl : Pt) (r : Sz) (k : Quadrant) (p : Pt) : Nat :=
  ((p.y * 2 + 1 - 2 * (innerCorner tl r k).y) ^ 2).toNat

theorem contains_eq (tl : Pt) (r : Sz) (k : Quadrant) (hw : 1 ≤ r.w) (hh : 1 ≤ r.h) (p : Pt) :
    (new tl r k).contains p =
      (EllipseContains.new ⟨r.w * 2, r.h * 2⟩).contains
        ⟨p.x * 2 + 1 - 2 * (innerCorner tl r k).x, p.y * 2 + 1 - 2 * (innerCorner tl r k).y⟩ := by
  unfold contains
  rw [new_center2x tl r k hw hh]
  have e1 : p.x * 2 - (2 * (innerCorner tl r k).x - 1) = p.x * 2 + 1 - 2 * (innerCorner tl r k).x := by
    omega
  have e2 : p.y * 2 - (2 * (innerCorner tl r k).y - 1) = p.y * 2 + 1 - 2 * (innerCorner tl r k).y := by
    omega
  simp only [e1, e2]
  rfl

/-- **Elliptic corners** (`rw ≠ rh`): the pixel is accepted iff its centre is strictly inside the
ideal ellipse with semi-axes `rw`, `rh` around the inner corner of the box
(`(2rh)^2 dx^2 + (2rw)^2 dy^2 < (2rw)^2 (2rh)^2` in doubled coordinates). -/
theorem contains_iff_ideal_ellipse (tl : Pt) (r : Sz) (k : Quadrant) (hw : 1 ≤ r.w) (hh : 1 ≤ r.h)
    (hne : r.w ≠ r.h) (p : Pt) :
    (new tl r k).contains p = true ↔
      (r.h * 2) ^ 2 * dx2 tl r k p + (r.w * 2) ^ 2 * dy2 tl r k p < (r.h * 2) ^ 2 * (r.w * 2) ^ 2 := by
  rw [contains_eq tl r k hw hh]
  unfold EllipseContains.contains EllipseContains.new dx2 dy2
  have hab : ¬ ((r.w * 2) ^ 2 = (r.h * 2) ^ 2) := by
    intro hc
    rcases Nat.lt_trichotomy (r.w * 2) (r.h * 2) with hlt | heq | hgt
    · have := Nat.pow_lt_pow_left hlt (n := 2) (by decide); omega
    · omega
    · have := Nat.pow_lt_pow_left hgt (n := 2) (by decide); omega
  have hwh : ¬ (r.w * 2 = r.h * 2) := by omega
  simp only [hab, hwh, ↓reduceIte, decide_eq_true_eq]

/-- **Circular corners of radius > 2**: the pixel is accepted iff its centre is strictly inside the
ideal circle of radius `r` around the inner corner of the box. -/
theorem contains_iff_ideal_circle (tl : Pt) (r : Sz) (k : Quadrant) (he : r.w = r.h) (h2 : 2 < r.w)
    (p : Pt) :
    (new tl r k).contains p = true ↔ dx2 tl r k p + dy2 tl r k p < (r.w * 2) ^ 2 := by
  rw [contains_eq tl r k (by omega) (by omega)]
  unfold EllipseContains.contains EllipseContains.new dx2 dy2 diameterToThreshold
  have h4 : ¬ (r.w * 2 ≤ 4) := by omega
  simp only [he, ↓reduceIte, decide_eq_true_eq] at h4 ⊢
  simp only [h4, ↓reduceIte]
  rw [Nat.pow_two]

/-- **Circular corners of radius 1 and 2** use the small-circle thresholds 3 (ideal 4) and 14
(ideal 16): within the half-pixel band. -/
theorem contains_iff_small_circle (tl : Pt) (r : Sz) (k : Quadrant) (he : r.w = r.h)
    (h1 : 1 ≤ r.w) (h2 : r.w ≤ 2) (p : Pt) :
    (new tl r k).contains p = true ↔
      dx2 tl r k p + dy2 tl r k p < (if r.w = 1 then 3 else 14) := by
  rw [contains_eq tl r k (by omega) (by omega)]
  unfold EllipseContains.contains EllipseContains.new dx2 dy2 diameterToThreshold
  have hr : r.w = 1 ∨ r.w = 2 := by omega
  rcases hr with hr | hr
  · have hh : r.h = 1 := by omega
    simp [hr, hh]
  · have hh : r.h = 2 := by omega
    simp [hr, hh]

end EllipseQuadrant
end EG
