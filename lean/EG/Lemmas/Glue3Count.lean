/-
  EG.Lemmas.Glue3Count — counting lemmas behind the step bounds of Props/C08/TerminationThick.lean:
  a duplicate-free list of points that all lie in a rectangle has at most `width * height` items
  (whatever the rectangle: `Rect.contains` is the unbounded "top left + size" test).
-/
import EG.Lemmas.RectPoints
namespace EG
namespace Glue3

/-- A duplicate-free list all of whose items occur in `m` is at most as long as `m`. -/
theorem nodup_length_le_of_subset {α : Type} [DecidableEq α] :
    ∀ (l m : List α), l.Nodup → (∀ a ∈ l, a ∈ m) → l.length ≤ m.length := by
  intro l
  induction l with
  | nil => intro m _ _; exact Nat.zero_le _
  | cons a l ih =>
    intro m hn hs
    rw [List.nodup_cons] at hn
    have ham : a ∈ m := hs a List.mem_cons_self
    have h1 : l.length ≤ (m.erase a).length := by
      apply ih _ hn.2
      intro b hb
      have hne : b ≠ a := fun e => hn.1 (e ▸ hb)
      exact (List.mem_erase_of_ne hne).mpr (hs b (List.mem_cons_of_mem _ hb))
    rw [List.length_erase_of_mem ham] at h1
    have : 0 < m.length := List.length_pos_of_mem ham
    simp only [List.length_cons]
    omega

/-- The points of the box `[x0, x0 + w) x [y0, y0 + h)`, row by row (no saturation). -/
def boxList (x0 y0 : Int) (w h : Nat) : List Pt :=
  (irange y0 (y0 + h)).flatMap (fun y => (irange x0 (x0 + w)).map (fun x => (⟨x, y⟩ : Pt)))

theorem boxList_length (x0 y0 : Int) (w h : Nat) : (boxList x0 y0 w h).length = w * h := by
  unfold boxList
  rw [Rect.length_flatMap_const _ _ w (by intro a _; simp only [List.length_map, irange_length]; omega),
    irange_length]
  have : (y0 + (h : Int) - y0).toNat = h := by omega
  rw [this, Nat.mul_comm]

theorem mem_boxList {x0 y0 : Int} {w h : Nat} {p : Pt} :
    p ∈ boxList x0 y0 w h ↔ x0 ≤ p.x ∧ p.x < x0 + w ∧ y0 ≤ p.y ∧ p.y < y0 + h := by
  unfold boxList
  simp only [List.mem_flatMap, List.mem_map, mem_irange]
  constructor
  · rintro ⟨y, hy, x, hx, rfl⟩; simp only; omega
  · intro hp; exact ⟨p.y, by omega, p.x, by omega, rfl⟩

/-- **A duplicate-free list of points inside a rectangle has at most `width * height` items.** -/
theorem nodup_in_rect_length_le (ps : List Pt) (hn : ps.Nodup) (r : Rect)
    (h : ∀ p ∈ ps, r.contains p = true) : ps.length ≤ r.size.w * r.size.h := by
  rw [← boxList_length r.tl.x r.tl.y r.size.w r.size.h]
  apply nodup_length_le_of_subset _ _ hn
  intro p hp
  have := h p hp
  rw [Rect.contains_iff] at this
  exact mem_boxList.mpr this

/-- Points filtered out of a rectangle's `points()`: at most as many as the rectangle has. -/
theorem filter_points_length_le (r : Rect) (f : Pt → Bool) :
    (r.points.filter f).length ≤ r.points.length := List.length_filter_le _ _

end Glue3
end EG
