/-
  EG.Lemmas.StyledArcSector — the styled sector's pixel iterator equals its closed form:
  `pixels()` = the points of the stroke area circle's bounding box, each mapped through
  "inside the circle? -> point type by the plane sector -> bevel -> circular stroke -> colour"
  (`pixelAt`), points without a colour dropped; nothing for a transparent style. Consequences: the
  pixels lie in the styled bounding box, the picture commutes with translation.
  The plane sector and the bevel are arbitrary parameters throughout.
-/
import EG.Lemmas.StyledArc
import EG.Model.StyledSector
namespace EG

/-- `filter` on the decorated items followed by `filterMap` = one `filterMap` on the points. -/
theorem filterMap_items {β : Type} (c2 : Pt) (pred : DistItem → Bool) (f : DistItem → Option β) (l : List Pt) :
    ((l.map (DistIt.item c2)).filter pred).filterMap f =
      l.filterMap (fun p => if pred (DistIt.item c2 p) then f (DistIt.item c2 p) else none) := by
  induction l with
  | nil => rfl
  | cons p l ih =>
    simp only [List.map_cons]
    by_cases hp : pred (DistIt.item c2 p) = true
    · rw [List.filter_cons_of_pos hp, List.filterMap_cons, List.filterMap_cons, if_pos hp, ih]
    · have hp' : pred (DistIt.item c2 p) = false := by simpa using hp
      rw [List.filter_cons_of_neg (by simp [hp']), List.filterMap_cons, ih]
      simp [hp']

namespace Sector

/-! ### the loop body as a function of `(delta, distance)` -/

/-- The colour the loop body of `next` gives to a point with the given `delta` and `distance`
(`none`: the point is skipped). Same arms as `StyledPixelsIt.pixel`. -/
def StyledPixelsIt.colorOf (it : StyledPixelsIt) (delta : Pt) (distance : Nat) : Option Color :=
  match it.planeSector.pointType delta it.strokeThresholdInside it.strokeThresholdOutside with
  | none => none
  | some pointType =>
    match (if pointType = .stroke then it.bevelStroke delta else some pointType) with
    | none => none
    | some pointType =>
      let pointType :=
        if pointType = .fill ∧ distance ≥ it.innerThreshold then SecPointType.stroke else pointType
      match pointType with
      | .stroke => it.strokeColor
      | .fill => it.fillColor

theorem StyledPixelsIt.pixel_eq (it : StyledPixelsIt) (x : DistItem) :
    it.pixel x = (it.colorOf x.2.1 x.2.2).map (fun c => (x.1, c)) := by
  unfold StyledPixelsIt.pixel StyledPixelsIt.colorOf
  simp only
  cases it.planeSector.pointType x.2.1 it.strokeThresholdInside it.strokeThresholdOutside with
  | none => rfl
  | some pt =>
    simp only
    cases (if pt = SecPointType.stroke then it.bevelStroke x.2.1 else some pt) with
    | none => rfl
    | some pt2 =>
      simp only
      cases (if pt2 = SecPointType.fill ∧ x.2.2 ≥ it.innerThreshold then SecPointType.stroke else pt2) with
      | stroke => simp only; cases it.strokeColor <;> rfl
      | fill => simp only; cases it.fillColor <;> rfl

/-- A pixel carries the point of its item. -/
theorem StyledPixelsIt.pixel_fst {it : StyledPixelsIt} {x : DistItem} {w : Pt × Color}
    (h : it.pixel x = some w) : w.1 = x.1 := by
  rw [StyledPixelsIt.pixel_eq] at h
  cases hc : it.colorOf x.2.1 x.2.2 with
  | none => rw [hc] at h; cases h
  | some c => rw [hc] at h; cases h; rfl

/-! ### the iterator equals its closed form -/

/-- Closed form of what the iterator state still has to yield. -/
def StyledPixelsIt.rest (it : StyledPixelsIt) : Writes :=
  (it.iter.rest.filter it.inOuter).filterMap it.pixel

theorem StyledPixelsIt.nextFuel_spec : ∀ (fuel : Nat) (it : StyledPixelsIt),
    (it.iter.rest.filter it.inOuter).length < fuel →
    match it.nextFuel fuel with
    | some (w, it') => it.rest = w :: it'.rest
    | none => it.rest = [] := by
  intro fuel
  induction fuel with
  | zero => intro it h; omega
  | succ fuel ih =>
    intro it h
    unfold StyledPixelsIt.nextFuel
    have hf := it.iter.find_spec it.inOuter
    cases hfind : it.iter.find it.inOuter with
    | none =>
      rw [hfind] at hf
      simp only at hf ⊢
      simp only [StyledPixelsIt.rest, hf, List.filterMap_nil]
    | some q =>
      obtain ⟨x, iter'⟩ := q
      rw [hfind] at hf
      simp only at hf ⊢
      have hrest : it.rest = (x :: iter'.rest.filter it.inOuter).filterMap it.pixel := by
        simp only [StyledPixelsIt.rest, hf]
      have hrest' : ({ it with iter := iter' } : StyledPixelsIt).rest =
          (iter'.rest.filter it.inOuter).filterMap it.pixel := rfl
      cases hpx : it.pixel x with
      | some w =>
        simp only
        rw [hrest, hrest', List.filterMap_cons, hpx]
      | none =>
        simp only
        have := ih { it with iter := iter' } (by
          have e : (({ it with iter := iter' } : StyledPixelsIt).iter.rest.filter
              ({ it with iter := iter' } : StyledPixelsIt).inOuter) = iter'.rest.filter it.inOuter := rfl
          rw [e]
          rw [hf] at h
          simpa using h)
        have e2 : it.rest = ({ it with iter := iter' } : StyledPixelsIt).rest := by
          rw [hrest, hrest', List.filterMap_cons, hpx]
        rw [e2]
        exact this

theorem StyledPixelsIt.next_spec (it : StyledPixelsIt) :
    match it.next with
    | some (w, it') => it.rest = w :: it'.rest
    | none => it.rest = [] :=
  StyledPixelsIt.nextFuel_spec _ it (by
    have h1 := List.length_filter_le it.inOuter it.iter.rest
    have h2 := it.iter.rest_length_lt_budget
    omega)

theorem StyledPixelsIt.toListFuel_eq : ∀ (fuel : Nat) (it : StyledPixelsIt), it.rest.length < fuel →
    it.toListFuel fuel = it.rest := by
  intro fuel
  induction fuel with
  | zero => intro it h; omega
  | succ fuel ih =>
    intro it h
    unfold StyledPixelsIt.toListFuel
    have := it.next_spec
    split <;> rename_i heq <;> rw [heq] at this <;> simp only at this
    · rw [this] at h ⊢
      rw [ih _ (by simpa using h)]
    · exact this.symm

theorem StyledPixelsIt.rest_length_le (it : StyledPixelsIt) : it.rest.length ≤ it.iter.rest.length := by
  unfold StyledPixelsIt.rest
  have h1 := List.length_filterMap_le it.pixel (it.iter.rest.filter it.inOuter)
  have h2 := List.length_filter_le it.inOuter it.iter.rest
  omega

theorem styledPixels_eq_rest (st : Style) (s : Sector) (bevel : SectorBevel) :
    s.styledPixels st bevel = (s.styledPixelsIt st bevel).rest := by
  unfold styledPixels
  simp only
  exact StyledPixelsIt.toListFuel_eq _ _ (by
    have h1 := (s.styledPixelsIt st bevel).rest_length_le
    have h2 := (s.styledPixelsIt st bevel).iter.rest_length_lt_budget
    omega)

/-- The circle whose bounding box is iterated: `stroke_area.to_circle()`. -/
def strokeCircle (st : Style) (s : Sector) : Circle := (s.strokeArea st).toCircle

/-- What `pixels()` yields for the point `p` of the iterated box (`none`: nothing). -/
def pixelAt (st : Style) (s : Sector) (bevel : SectorBevel) (p : Pt) : Option (Pt × Color) :=
  let it := s.styledPixelsIt st bevel
  let x := DistIt.item (s.strokeCircle st).center2x p
  if it.inOuter x then it.pixel x else none

/-- **Closed form of `pixels()` of a styled sector.** -/
theorem styledPixels_eq (st : Style) (s : Sector) (bevel : SectorBevel) :
    s.styledPixels st bevel =
      if st.isTransparent then []
      else (s.strokeCircle st).boundingBox.points.filterMap (s.pixelAt st bevel) := by
  rw [styledPixels_eq_rest]
  unfold StyledPixelsIt.rest
  by_cases ht : st.isTransparent = true
  · have hi : (s.styledPixelsIt st bevel).iter = DistIt.empty := by
      unfold styledPixelsIt; simp [ht]
    rw [hi, DistIt.rest_empty, if_pos ht]
    rfl
  · have hi : (s.styledPixelsIt st bevel).iter = (s.strokeCircle st).distances := by
      unfold styledPixelsIt strokeCircle; simp [ht]
    rw [hi, Circle.distances_rest, if_neg ht, filterMap_items]
    rfl

/-! ### C02: bounding box, transparency -/

theorem strokeCircle_eq (st : Style) (s : Sector) : s.strokeCircle st = s.toCircle.offset st.strokeOffset := rfl

/-- The styled bounding box is the bounding box of the stroke area's circle (the box that is iterated). -/
theorem styledBoundingBox_eq (st : Style) (s : Sector) :
    s.styledBoundingBox st = (s.strokeCircle st).boundingBox := by
  rw [strokeCircle_eq, Circle.offset_boundingBox_of_nonneg _ _ st.strokeOffset_nonneg]
  rfl

/-- Every item of `pixels()` is a point of the iterated box (= the styled bounding box), produced by
`pixelAt`. -/
theorem mem_styledPixels_imp (st : Style) (s : Sector) (bevel : SectorBevel) (w : Pt × Color)
    (h : w ∈ s.styledPixels st bevel) :
    w.1 ∈ (s.styledBoundingBox st).points ∧ s.pixelAt st bevel w.1 = some w := by
  rw [styledPixels_eq] at h
  by_cases ht : st.isTransparent = true
  · rw [if_pos ht] at h; cases h
  · rw [if_neg ht, List.mem_filterMap] at h
    obtain ⟨p, hp, hw⟩ := h
    have hfst : w.1 = p := by
      unfold pixelAt at hw
      simp only at hw
      split at hw
      · exact StyledPixelsIt.pixel_fst hw
      · cases hw
    rw [styledBoundingBox_eq, hfst]
    exact ⟨hp, hw⟩

theorem pixelAt_fst (st : Style) (s : Sector) (bevel : SectorBevel) (p : Pt) (w : Pt × Color)
    (hw : s.pixelAt st bevel p = some w) : w.1 = p := by
  unfold pixelAt at hw
  simp only at hw
  split at hw
  · exact StyledPixelsIt.pixel_fst hw
  · cases hw

/-- The points of `pixels()` are a sublist of the styled bounding box's points: row-major, each
point at most once. -/
theorem styledPixels_points_sublist (st : Style) (s : Sector) (bevel : SectorBevel) :
    ((s.styledPixels st bevel).map (·.1)).Sublist (s.styledBoundingBox st).points := by
  rw [styledPixels_eq, styledBoundingBox_eq]
  by_cases ht : st.isTransparent = true
  · rw [if_pos ht]; exact List.nil_sublist _
  · rw [if_neg ht]
    exact filterMap_fst_sublist _ (pixelAt_fst st s bevel) _

/-- A transparent style yields no pixel. -/
theorem styledPixels_transparent (st : Style) (s : Sector) (bevel : SectorBevel)
    (h : st.isTransparent = true) : s.styledPixels st bevel = [] := by
  rw [styledPixels_eq, if_pos h]

/-! ### C07: translation -/

theorem offset_translate (s : Sector) (t : Pt) (o : Int) :
    (s.translate t).offset o = (s.offset o).translate t := by
  unfold offset
  have : (s.translate t).toCircle = s.toCircle.translate t := rfl
  rw [this, Circle.offset_translate]
  rfl

theorem translate_strokeCircle (st : Style) (s : Sector) (t : Pt) :
    (s.translate t).strokeCircle st = (s.strokeCircle st).translate t := by
  unfold strokeCircle strokeArea
  rw [offset_translate]
  rfl

theorem translate_styledBoundingBox (st : Style) (s : Sector) (t : Pt) :
    (s.translate t).styledBoundingBox st = (s.styledBoundingBox st).translate t := by
  unfold styledBoundingBox
  exact Rect.offset_translate s.boundingBox t st.strokeOffset

/-- Everything of the iterator state except the distance iterator is translation independent. -/
theorem styledPixelsIt_translate (st : Style) (s : Sector) (bevel : SectorBevel) (t : Pt) :
    (s.translate t).styledPixelsIt st bevel =
      { s.styledPixelsIt st bevel with iter := ((s.translate t).styledPixelsIt st bevel).iter } := by
  have h1 : ((s.translate t).styledPixelsIt st bevel).outerThreshold =
      (s.styledPixelsIt st bevel).outerThreshold := by
    show ((s.translate t).strokeCircle st).threshold = (s.strokeCircle st).threshold
    rw [translate_strokeCircle, Circle.translate_threshold]
  have h2 : ((s.translate t).styledPixelsIt st bevel).innerThreshold =
      (s.styledPixelsIt st bevel).innerThreshold := by
    show (((s.translate t).fillArea st).toCircle).threshold = ((s.fillArea st).toCircle).threshold
    unfold fillArea
    rw [offset_translate]
    rfl
  cases hA : (s.translate t).styledPixelsIt st bevel with
  | mk i ps oT iT sI sO bv sc fc =>
    rw [hA] at h1 h2
    simp only at h1 h2
    have hps : ps = (s.styledPixelsIt st bevel).planeSector := by
      have : ((s.translate t).styledPixelsIt st bevel).planeSector = (s.styledPixelsIt st bevel).planeSector := rfl
      rw [hA] at this; exact this
    have hsI : sI = (s.styledPixelsIt st bevel).strokeThresholdInside := by
      have : ((s.translate t).styledPixelsIt st bevel).strokeThresholdInside =
          (s.styledPixelsIt st bevel).strokeThresholdInside := rfl
      rw [hA] at this; exact this
    have hsO : sO = (s.styledPixelsIt st bevel).strokeThresholdOutside := by
      have : ((s.translate t).styledPixelsIt st bevel).strokeThresholdOutside =
          (s.styledPixelsIt st bevel).strokeThresholdOutside := rfl
      rw [hA] at this; exact this
    have hbv : bv = (s.styledPixelsIt st bevel).bevel := by
      have : ((s.translate t).styledPixelsIt st bevel).bevel = (s.styledPixelsIt st bevel).bevel := rfl
      rw [hA] at this; exact this
    have hsc : sc = (s.styledPixelsIt st bevel).strokeColor := by
      have : ((s.translate t).styledPixelsIt st bevel).strokeColor = (s.styledPixelsIt st bevel).strokeColor := rfl
      rw [hA] at this; exact this
    have hfc : fc = (s.styledPixelsIt st bevel).fillColor := by
      have : ((s.translate t).styledPixelsIt st bevel).fillColor = (s.styledPixelsIt st bevel).fillColor := rfl
      rw [hA] at this; exact this
    rw [h1, h2, hps, hsI, hsO, hbv, hsc, hfc]

/-- `pixelAt` of the translated sector at the moved point is the moved pixel. -/
theorem pixelAt_translate (st : Style) (s : Sector) (bevel : SectorBevel) (t p : Pt) :
    (s.translate t).pixelAt st bevel (p + t) = (s.pixelAt st bevel p).map (fun w => (w.1 + t, w.2)) := by
  unfold pixelAt
  simp only
  rw [translate_strokeCircle, Circle.translate_center2x, DistIt.item_translate, styledPixelsIt_translate]
  have hin : ∀ (i : DistIt) (x : DistItem),
      ({ s.styledPixelsIt st bevel with iter := i } : StyledPixelsIt).inOuter x =
        (s.styledPixelsIt st bevel).inOuter x := fun _ _ => rfl
  have hco : ∀ (i : DistIt) (dl : Pt) (ds : Nat),
      ({ s.styledPixelsIt st bevel with iter := i } : StyledPixelsIt).colorOf dl ds =
        (s.styledPixelsIt st bevel).colorOf dl ds := fun _ _ _ => rfl
  rw [StyledPixelsIt.pixel_eq, StyledPixelsIt.pixel_eq, hin, hco]
  have hio : (s.styledPixelsIt st bevel).inOuter
      (p + t, (DistIt.item (s.strokeCircle st).center2x p).2) =
      (s.styledPixelsIt st bevel).inOuter (DistIt.item (s.strokeCircle st).center2x p) := rfl
  rw [hio]
  by_cases hb : (s.styledPixelsIt st bevel).inOuter (DistIt.item (s.strokeCircle st).center2x p) = true
  · rw [if_pos hb, if_pos hb]
    simp only
    cases (s.styledPixelsIt st bevel).colorOf (DistIt.item (s.strokeCircle st).center2x p).2.1
      (DistIt.item (s.strokeCircle st).center2x p).2.2 <;> rfl
  · rw [if_neg hb, if_neg hb]
    rfl

/-- **`pixels()` of the translated styled sector are the translated pixels, in the same order** —
under the no-saturation guard of the two iterated boxes. -/
theorem styledPixels_translate (st : Style) (s : Sector) (bevel : SectorBevel) (t : Pt)
    (h1 : (s.styledBoundingBox st).InRange) (h2 : ((s.translate t).styledBoundingBox st).InRange) :
    (s.translate t).styledPixels st bevel = Writes.translate t (s.styledPixels st bevel) := by
  rw [styledPixels_eq, styledPixels_eq]
  by_cases ht : st.isTransparent = true
  · simp [ht, Writes.translate]
  · rw [if_neg ht, if_neg ht]
    rw [← styledBoundingBox_eq, ← styledBoundingBox_eq, translate_styledBoundingBox] at *
    rw [Rect.points_translate _ _ h1 h2, List.filterMap_map]
    unfold Writes.translate
    rw [List.map_filterMap]
    congr 1
    funext p
    simp only [Function.comp]
    exact pixelAt_translate st s bevel t p

end Sector
end EG
