/-
  EG.Lemmas.CheckedFont — range theorems of the glyph-rendering kernels
  (Model/CheckedFont.lean).

  Domain `FontOk f`: character cell, spacing, baseline and decoration offsets up to 4096, atlas
  up to 65535 x 65535 (every built-in font: cell at most 10 x 20, atlas at most 480 x 200),
  glyph indices up to 65535 (`IndexOk`), positions within +-2^20, texts up to 65536 characters.
  `char_x` cannot overflow for ANY `u32` index (`glyph_char_x_fits`): it is below the atlas
  width.
-/
import EG.Lemmas.CheckedData
import EG.Lemmas.FontTables
import EG.Model.CheckedFont
namespace EG.Chk.Font
open EG EG.Chk

/-- metrics of a font inside the proof domain -/
structure FontOk (f : EG.Font.MonoFont) : Prop where
  cw : f.cw ≤ 4096
  ch : f.ch ≤ 4096
  sp : f.spacing ≤ 4096
  bl : f.baseline ≤ 4096
  ul : f.ulOff ≤ 4096
  st : f.stOff ≤ 4096
  iw : f.imgW ≤ 65535
  ih : f.imgH ≤ 65535

/-- the glyph indices of the characters of a text are below 65536 -/
def IndexOk (f : EG.Font.MonoFont) (text : List Nat) : Prop := ∀ c ∈ text, f.index c ≤ 65535

/-- `glyph_index % glyphs_per_row * character width` stays below the atlas width. -/
theorem glyph_char_x_fits {imgW cw : Nat} (hcw : 0 < cw) (hw : cw ≤ imgW) (gi : Nat) :
    gi / (imgW / cw) * (imgW / cw) ≤ gi ∧ (gi - gi / (imgW / cw) * (imgW / cw)) * cw ≤ imgW := by
  have hg : 0 < imgW / cw := Nat.div_pos hw hcw
  have h1 : gi / (imgW / cw) * (imgW / cw) ≤ gi := Nat.div_mul_le_self _ _
  have h2 : gi - gi / (imgW / cw) * (imgW / cw) = gi % (imgW / cw) := by
    have := Nat.div_add_mod gi (imgW / cw)
    rw [Nat.mul_comm] at this
    omega
  have h3 : gi % (imgW / cw) < imgW / cw := Nat.mod_lt _ hg
  have h4 : imgW / cw * cw ≤ imgW := Nat.div_mul_le_self _ _
  refine ⟨h1, ?_⟩
  rw [h2]
  calc gi % (imgW / cw) * cw ≤ imgW / cw * cw := Nat.mul_le_mul_right _ (Nat.le_of_lt h3)
    _ ≤ imgW := h4

/-- **`EG.Font.MonoFont::glyph`** for glyph indices below 65536. -/
theorem glyphAreaOfIndex_ok {f : EG.Font.MonoFont} (hf : FontOk f) {gi : Nat} (hg : gi ≤ 65535) :
    EG.Chk.Font.glyphAreaOfIndex f gi = some (f.glyphAreaOfIndex gi) := by
  have := hf.cw; have := hf.ch; have := hf.iw
  unfold EG.Chk.Font.glyphAreaOfIndex EG.Font.MonoFont.glyphAreaOfIndex
  split
  · rfl
  · rename_i hc
    have hcw : 0 < f.cw := by omega
    have hw : f.cw ≤ f.imgW := by omega
    obtain ⟨h1, h2⟩ := glyph_char_x_fits hcw hw gi
    have hg0 : 0 < f.imgW / f.cw := Nat.div_pos hw hcw
    have hrow : gi / (f.imgW / f.cw) ≤ gi := Nat.div_le_self _ _
    have hy : gi / (f.imgW / f.cw) * f.ch ≤ 65535 * 4096 := Nat.mul_le_mul (by omega) (by omega)
    rw [divU_ok hcw]
    simp only [Option.bind_eq_bind, Option.bind_some]
    rw [divU_ok hg0]
    simp only [Option.bind_some]
    rw [chkU32_ok (by omega)]
    simp only [Option.bind_some]
    rw [subU_ok h1]
    simp only [Option.bind_some]
    rw [chkU32_ok (by omega), chkU32_ok (by omega)]
    simp only [Option.bind_some, Option.pure_def]
    rw [u32AsI32_small (by omega), u32AsI32_small (by omega)]

theorem glyphArea_ok {f : EG.Font.MonoFont} (hf : FontOk f) {c : Nat} (hi : f.index c ≤ 65535) :
    EG.Chk.Font.glyphArea f c = some (f.glyphArea c) := by
  unfold EG.Chk.Font.glyphArea EG.Font.MonoFont.glyphArea
  rw [Nat.mod_eq_of_lt (by omega)]
  exact glyphAreaOfIndex_ok hf hi

/-- `data_width()` of an atlas up to 65535 wide. -/
theorem atlasDataWidth_ok {w : Nat} (hw : w ≤ 65535) :
    EG.Chk.Font.atlasDataWidth w = some ((w + 7) / 8 * 8) := by
  unfold EG.Chk.Font.atlasDataWidth imageDataWidth
  simp only [show (1 : Nat) < 8 by decide, ↓reduceIte]
  rw [divU_ok (by decide), bytesPerRow_ok (by omega) (by decide)]
  simp only [Option.bind_eq_bind, Option.bind_some, Img.bytesPerRow, Nat.mul_one]
  rw [Nat.mod_eq_of_lt (by omega)]
  exact chkU32_ok (by omega)

/-- **The guard and the skips of `draw_sub_image`** for an area with corner and size below 2^30:
the guard is the plain `areaDrawable`, and when it passes nothing overflows. -/
theorem subImageSkips_ok {f : EG.Font.MonoFont} (hf : FontOk f) {a : Rect}
    (hx : a.tl.x ≤ 1073741824) (hy : a.tl.y ≤ 1073741824) (hw : a.size.w ≤ 1073741824)
    (hh : a.size.h ≤ 1073741824) :
    ∃ r, EG.Chk.Font.subImageSkips f.imgW f.imgH a = some r ∧ r.isSome = f.areaDrawable a := by
  have := hf.iw; have := hf.ih
  unfold EG.Chk.Font.subImageSkips EG.Font.MonoFont.areaDrawable
  by_cases hz : a.isZeroSized = true
  · exact ⟨none, by simp [hz], by simp [hz]⟩
  · by_cases hnx : a.tl.x < 0
    · exact ⟨none, by simp [hnx], by simp [hnx]⟩
    · by_cases hny : a.tl.y < 0
      · exact ⟨none, by simp [hny], by simp [hny]⟩
      · have hzf : a.isZeroSized = false := by simpa using hz
        have e1 : i32AsU32 a.tl.x = a.tl.x.toNat := i32AsU32_nonneg (by omega)
        have e2 : i32AsU32 a.tl.y = a.tl.y.toNat := i32AsU32_nonneg (by omega)
        simp only [hzf, hnx, hny, Bool.false_eq_true, or_self, ↓reduceIte, e1, e2, Bool.false_or,
          decide_false]
        rw [chkU64_ok (by omega)]
        simp only [Option.bind_eq_bind, Option.bind_some]
        by_cases hxr : a.tl.x.toNat + a.size.w > f.imgW
        · exact ⟨none, by simp [hxr], by simp [hxr]⟩
        · simp only [hxr, ↓reduceIte, decide_false, Bool.false_or]
          rw [chkU64_ok (by omega)]
          simp only [Option.bind_some]
          by_cases hyb : a.tl.y.toNat + a.size.h > f.imgH
          · exact ⟨none, by simp [hyb], by simp [hyb]⟩
          · simp only [hyb, ↓reduceIte, decide_false, Bool.not_false]
            rw [atlasDataWidth_ok (by omega)]
            simp only [Option.bind_some]
            have hm : a.tl.y.toNat * ((f.imgW + 7) / 8 * 8) ≤ 65535 * 65543 :=
              Nat.mul_le_mul (by omega) (by omega)
            rw [chkUsize_ok (by omega), Option.bind_some, chkUsize_ok (by omega), Option.bind_some,
              subU_ok (by omega)]
            exact ⟨_, rfl, rfl⟩

/-- `Image::new(&glyph, p).draw(..)`: the plain model's call list. -/
theorem glyphCalls_ok {f : EG.Font.MonoFont} (hf : FontOk f) (atlas : Pt → Bool) {c : Nat}
    (hi : f.index c ≤ 65535) (p : Pt) : EG.Chk.Font.glyphCalls f atlas c p = some (f.glyphCalls atlas c p) := by
  have := hf.cw; have := hf.ch; have := hf.iw
  unfold EG.Chk.Font.glyphCalls EG.Font.MonoFont.glyphCalls
  rw [glyphArea_ok hf hi]
  simp only [Option.bind_eq_bind, Option.bind_some]
  -- the glyph area is small
  have hsmall : (f.glyphArea c).tl.x ≤ 1073741824 ∧ (f.glyphArea c).tl.y ≤ 1073741824 ∧
      (f.glyphArea c).size.w ≤ 1073741824 ∧ (f.glyphArea c).size.h ≤ 1073741824 := by
    unfold EG.Font.MonoFont.glyphArea EG.Font.MonoFont.glyphAreaOfIndex
    split
    · simp [Rect.zero, Pt.zero, Sz.zero]
    · rename_i hc
      have hcw : 0 < f.cw := by omega
      have hw : f.cw ≤ f.imgW := by omega
      obtain ⟨h1, h2⟩ := glyph_char_x_fits hcw hw (f.index c)
      have hrow : f.index c / (f.imgW / f.cw) ≤ f.index c := Nat.div_le_self _ _
      have hy : f.index c / (f.imgW / f.cw) * f.ch ≤ 65535 * 4096 := Nat.mul_le_mul (by omega) (by omega)
      simp only
      omega
  obtain ⟨r, e, hr⟩ := subImageSkips_ok hf hsmall.1 hsmall.2.1 hsmall.2.2.1 hsmall.2.2.2
  rw [e]
  simp only [Option.bind_some]
  cases r with
  | none => simp only [Option.isSome_none] at hr; rw [← hr]; rfl
  | some v => simp only [Option.isSome_some] at hr; rw [← hr]; rfl

/-! ## `line_elements` -/

/-- One call of the closure, and how far the position moves. -/
theorem lineNext_ok {f : EG.Font.MonoFont} (hf : FontOk f) {s : EG.Font.LineIt} {B : Int} (hB : 0 ≤ B ∧ B ≤ 1610612736)
    (hx : -B ≤ s.pos.x ∧ s.pos.x ≤ B) :
    EG.Chk.Font.lineNext f s = some (s.next f) ∧
    (-(B + 4096) ≤ (s.next f).2.pos.x ∧ (s.next f).2.pos.x ≤ B + 4096) ∧
    (-B ≤ (s.next f).1.1.x ∧ (s.next f).1.1.x ≤ B) := by
  have := hf.cw; have := hf.sp
  obtain ⟨_, _⟩ := hB
  obtain ⟨_, _⟩ := hx
  unfold EG.Chk.Font.lineNext EG.Font.LineIt.next
  split
  · rw [u32AsI32_small (by omega), chkI32_ok (by omega) (by omega)]
    refine ⟨rfl, ?_, ?_⟩ <;> simp only <;> omega
  · cases hr : s.rest with
    | nil => simp only; refine ⟨rfl, ?_, ?_⟩ <;> omega
    | cons c cs =>
      simp only
      rw [u32AsI32_small (by omega), chkI32_ok (by omega) (by omega)]
      refine ⟨rfl, ?_, ?_⟩ <;> first | omega | (simp only; omega)

/-- The whole element list: `fuel` calls move the position by at most `4096 * fuel`. -/
theorem lineToListFuel_ok {f : EG.Font.MonoFont} (hf : FontOk f) : ∀ (fuel : Nat) (s : EG.Font.LineIt) (B : Int),
    0 ≤ B → B + 4096 * fuel ≤ 1610612736 → (-B ≤ s.pos.x ∧ s.pos.x ≤ B) →
    EG.Chk.Font.lineToListFuel f fuel s = some (s.toListFuel f fuel) := by
  intro fuel
  induction fuel with
  | zero => intro s B _ _ _; rfl
  | succ fuel ih =>
    intro s B hB0 hBf hx
    obtain ⟨e, hn, _⟩ := lineNext_ok hf (s := s) (B := B) ⟨hB0, by omega⟩ hx
    unfold EG.Chk.Font.lineToListFuel EG.Font.LineIt.toListFuel
    rw [e]
    simp only [Option.bind_eq_bind, Option.bind_some]
    cases hr : s.next f with
    | mk item s' =>
      rw [hr] at hn
      obtain ⟨p, el⟩ := item
      cases el with
      | done => rfl
      | char c =>
        simp only
        rw [ih s' (B + 4096) (by omega) (by push_cast at hBf ⊢; omega) hn]
        rfl
      | spacing =>
        simp only
        rw [ih s' (B + 4096) (by omega) (by push_cast at hBf ⊢; omega) hn]
        rfl

/-- **`line_elements`** for a position within +-2^20 and a text of up to 65536 characters. -/
theorem lineElements_ok {f : EG.Font.MonoFont} (hf : FontOk f) {pos : Pt} (hx : -1048576 ≤ pos.x ∧ pos.x ≤ 1048576)
    {text : List Nat} (hn : text.length ≤ 65536) :
    EG.Chk.Font.lineElements f pos text = some (EG.Font.lineElements f pos text) := by
  unfold EG.Chk.Font.lineElements EG.Font.lineElements
  exact lineToListFuel_ok hf _ _ 1048576 (by omega) (by push_cast; omega) hx

/-- every character element of the list comes from the text -/
theorem toListFuel_chars (f : EG.Font.MonoFont) : ∀ (fuel : Nat) (s : EG.Font.LineIt) (p : Pt) (c : Nat),
    (p, EG.Font.Elem.char c) ∈ s.toListFuel f fuel → c ∈ s.rest := by
  intro fuel
  induction fuel with
  | zero => intro s p c h; simp [EG.Font.LineIt.toListFuel] at h
  | succ fuel ih =>
    intro s p c h
    unfold EG.Font.LineIt.toListFuel at h
    cases hr : s.next f with
    | mk item s' =>
      rw [hr] at h
      obtain ⟨q, el⟩ := item
      have hs' : ∀ d, d ∈ s'.rest → d ∈ s.rest := by
        intro d hd
        unfold EG.Font.LineIt.next at hr
        split at hr
        · simp only [Prod.mk.injEq] at hr; rw [← hr.2] at hd; exact hd
        · split at hr
          · rename_i c0 cs heq
            simp only [Prod.mk.injEq] at hr
            rw [← hr.2] at hd
            rw [heq]
            exact List.mem_cons_of_mem _ hd
          · simp only [Prod.mk.injEq] at hr; rw [← hr.2] at hd; exact hd
      cases el with
      | done => simp at h
      | spacing =>
        simp only [List.mem_cons, Prod.mk.injEq, reduceCtorEq, and_false, false_or] at h
        exact hs' c (ih s' p c h)
      | char c0 =>
        simp only [List.mem_cons, Prod.mk.injEq, EG.Font.Elem.char.injEq] at h
        rcases h with ⟨_, rfl⟩ | h
        · -- the element is the head of `s.rest`
          unfold EG.Font.LineIt.next at hr
          split at hr
          · simp only [Prod.mk.injEq, reduceCtorEq, and_false, false_and] at hr
          · cases hrest : s.rest with
            | nil => rw [hrest] at hr; simp only [Prod.mk.injEq, reduceCtorEq, and_false, false_and] at hr
            | cons c1 cs =>
              rw [hrest] at hr
              simp only [Prod.mk.injEq, EG.Font.Elem.char.injEq] at hr
              rw [← hr.1.2]
              exact List.mem_cons_self ..
        · exact hs' c (ih s' p c h)

theorem elemCallsAll_ok {f : EG.Font.MonoFont} (hf : FontOk f) (atlas : Pt → Bool) (hasBg : Bool) :
    ∀ (es : List (Pt × EG.Font.Elem)), (∀ p c, (p, EG.Font.Elem.char c) ∈ es → f.index c ≤ 65535) →
    EG.Chk.Font.elemCallsAll f atlas hasBg es = some (es.flatMap (f.elemCalls atlas hasBg)) := by
  intro es
  induction es with
  | nil => intro _; rfl
  | cons e rest ih =>
    intro h
    obtain ⟨p, el⟩ := e
    unfold EG.Chk.Font.elemCallsAll
    have he : EG.Chk.Font.elemCalls f atlas hasBg (p, el) = some (f.elemCalls atlas hasBg (p, el)) := by
      cases el with
      | char c => exact glyphCalls_ok hf atlas (h p c (List.mem_cons_self ..)) p
      | spacing => rfl
      | done => rfl
    rw [he, ih (fun q c hq => h q c (List.mem_cons_of_mem _ hq))]
    rfl

/-- **`draw_string_binary`**. -/
theorem drawStringBinary_ok {f : EG.Font.MonoFont} (hf : FontOk f) (atlas : Pt → Bool) (hasBg : Bool)
    {text : List Nat} (hn : text.length ≤ 65536) (hi : IndexOk f text) {pos : Pt}
    (hx : -1048576 ≤ pos.x ∧ pos.x ≤ 1048576) :
    EG.Chk.Font.drawStringBinary f atlas hasBg text pos = some (f.drawStringBinary atlas hasBg text pos) := by
  unfold EG.Chk.Font.drawStringBinary EG.Font.MonoFont.drawStringBinary
  rw [lineElements_ok hf hx hn]
  simp only [Option.bind_eq_bind, Option.bind_some]
  rw [elemCallsAll_ok hf atlas hasBg _ (by
    intro p c hm
    exact hi c (toListFuel_chars f _ _ p c hm))]
  rfl

/-! ## Decorations, `draw_string`, `draw_whitespace` -/

theorem decoRect_ok {off : Nat} (ho : off ≤ 4096) (h : Nat) {pos : Pt}
    (hx : -1073741824 ≤ pos.x ∧ pos.x ≤ 1073741824) (hy : -1073741824 ≤ pos.y ∧ pos.y ≤ 1073741824)
    (width : Nat) : EG.Chk.Font.decoRect off h pos width = some (EG.Font.decoRect off h pos width) := by
  obtain ⟨_, _⟩ := hx
  obtain ⟨_, _⟩ := hy
  unfold EG.Chk.Font.decoRect EG.Font.decoRect
  rw [ptAddSize_ok (by simp only; omega) (by simp only; omega) (by simp only; omega) (by simp only; omega)]
  simp

theorem drawDecorations_ok {f : EG.Font.MonoFont} (hf : FontOk f) (st : EG.Font.Style) (width : Nat) {pos : Pt}
    (hx : -1073741824 ≤ pos.x ∧ pos.x ≤ 1073741824) (hy : -1073741824 ≤ pos.y ∧ pos.y ≤ 1073741824) :
    EG.Chk.Font.drawDecorations f st width pos = some (f.drawDecorations st width pos) := by
  unfold EG.Chk.Font.drawDecorations EG.Font.MonoFont.drawDecorations
  rw [decoRect_ok hf.st f.stH hx hy width, decoRect_ok hf.ul f.ulH hx hy width]
  cases st.strikethrough.effective st.textColor <;> cases st.underline.effective st.textColor <;> rfl

theorem baselineOffset_bounds {f : EG.Font.MonoFont} (hf : FontOk f) (bl : EG.Font.Baseline) :
    0 ≤ f.baselineOffset bl ∧ f.baselineOffset bl ≤ 4096 := by
  have := hf.ch; have := hf.bl
  unfold EG.Font.MonoFont.baselineOffset satAsI32
  cases bl <;> simp only
  · omega
  · rw [if_pos (by omega)]; omega
  · rw [if_pos (by omega)]; omega
  · rw [if_pos (by omega)]; omega

/-- `draw_string_binary` returns a position on the same row, at most `8192 * length` to the right. -/
theorem lineToListFuel_done {f : EG.Font.MonoFont} (hf : FontOk f) : ∀ (fuel : Nat) (s : EG.Font.LineIt) (B : Int),
    (-B ≤ s.pos.x ∧ s.pos.x ≤ B) →
    ∀ p, (s.toListFuel f fuel).find? (fun e => e.2 == EG.Font.Elem.done) = some (p, EG.Font.Elem.done) →
      p.y = s.pos.y ∧ -(B + 4096 * fuel) ≤ p.x ∧ p.x ≤ B + 4096 * fuel := by
  intro fuel
  induction fuel with
  | zero => intro s B _ p h; simp [EG.Font.LineIt.toListFuel] at h
  | succ fuel ih =>
    intro s B hx p h
    have := hf.cw; have := hf.sp
    unfold EG.Font.LineIt.toListFuel at h
    cases hr : s.next f with
    | mk item s' =>
      rw [hr] at h
      obtain ⟨q, el⟩ := item
      have hstep : s'.pos.y = s.pos.y ∧ (-(B + 4096) ≤ s'.pos.x ∧ s'.pos.x ≤ B + 4096) ∧ q = s.pos := by
        unfold EG.Font.LineIt.next at hr
        split at hr
        · simp only [Prod.mk.injEq] at hr
          rw [← hr.2, ← hr.1.1]
          refine ⟨rfl, ?_, rfl⟩
          simp only; omega
        · cases hrest : s.rest with
          | nil =>
            rw [hrest] at hr; simp only [Prod.mk.injEq] at hr
            rw [← hr.2, ← hr.1.1]
            exact ⟨rfl, by omega, rfl⟩
          | cons c0 cs =>
            rw [hrest] at hr; simp only [Prod.mk.injEq] at hr
            rw [← hr.2, ← hr.1.1]
            refine ⟨rfl, ?_, rfl⟩
            simp only; omega
      obtain ⟨hy', hx', hq⟩ := hstep
      cases el with
      | done =>
        simp only [List.find?_cons, beq_self_eq_true, Option.some.injEq, Prod.mk.injEq, and_true] at h
        rw [← h, hq]
        push_cast
        omega
      | char c =>
        simp only [List.find?_cons] at h
        have hne : ((EG.Font.Elem.char c) == EG.Font.Elem.done) = false := by rfl
        simp only [hne] at h
        obtain ⟨a, b, c'⟩ := ih s' (B + 4096) hx' p h
        push_cast
        omega
      | spacing =>
        simp only [List.find?_cons] at h
        have hne : (EG.Font.Elem.spacing == EG.Font.Elem.done) = false := by decide
        simp only [hne] at h
        obtain ⟨a, b, c'⟩ := ih s' (B + 4096) hx' p h
        push_cast
        omega

theorem drawStringBinary_next {f : EG.Font.MonoFont} (hf : FontOk f) (atlas : Pt → Bool) (hasBg : Bool)
    {text : List Nat} (hn : text.length ≤ 65536) {pos : Pt} (hx : -1048576 ≤ pos.x ∧ pos.x ≤ 1048576) :
    (f.drawStringBinary atlas hasBg text pos).2.y = pos.y ∧
    -1073741824 ≤ (f.drawStringBinary atlas hasBg text pos).2.x ∧
    (f.drawStringBinary atlas hasBg text pos).2.x ≤ 1073741824 := by
  unfold EG.Font.MonoFont.drawStringBinary EG.Font.lineElements
  simp only
  cases hfind : ((EG.Font.lineIt pos text).toListFuel f (2 * text.length + 1)).find? (fun e => e.2 == EG.Font.Elem.done) with
  | none => exact ⟨rfl, by show -1073741824 ≤ pos.x; omega, by show pos.x ≤ 1073741824; omega⟩
  | some pe =>
    obtain ⟨p, el⟩ := pe
    have hel : el = EG.Font.Elem.done := by
      have := List.find?_some hfind
      simpa using this
    subst hel
    obtain ⟨a, b, c⟩ := lineToListFuel_done hf _ (EG.Font.lineIt pos text) 1048576 hx p hfind
    simp only
    have e : (EG.Font.lineIt pos text).pos = pos := rfl
    rw [e] at a
    push_cast at b c
    omega

/-- **`draw_string`**: font in the domain, glyph indices below 65536, up to 65536 characters,
position within +-2^20. -/
theorem drawString_ok {f : EG.Font.MonoFont} (hf : FontOk f) (atlas : Pt → Bool) (st : EG.Font.Style)
    {text : List Nat} (hn : text.length ≤ 65536) (hi : IndexOk f text) {position : Pt}
    (hx : -1048576 ≤ position.x ∧ position.x ≤ 1048576) (hy : -1048576 ≤ position.y ∧ position.y ≤ 1048576)
    (bl : EG.Font.Baseline) :
    EG.Chk.Font.drawString f atlas st text position bl = some (f.drawString atlas st text position bl) := by
  obtain ⟨b0, b1⟩ := baselineOffset_bounds hf bl
  have := hf.cw; have := hf.sp
  obtain ⟨_, _⟩ := hx
  obtain ⟨_, _⟩ := hy
  have hpos : (⟨position.x, position.y⟩ : Pt) - ⟨0, f.baselineOffset bl⟩ = ⟨position.x, position.y - f.baselineOffset bl⟩ := by
    show (⟨position.x - 0, position.y - f.baselineOffset bl⟩ : Pt) = _
    simp
  unfold EG.Chk.Font.drawString EG.Font.MonoFont.drawString
  rw [ptSub_ok (by simp only; omega) (by simp only; omega)]
  simp only [Option.bind_eq_bind, Option.bind_some]
  have epos : position - ⟨0, f.baselineOffset bl⟩ = ⟨position.x, position.y - f.baselineOffset bl⟩ := by
    cases position; exact hpos
  rw [epos]
  -- the frame after the (binary or transparent) middle part
  have frame : ∀ (calls : List Call) (next : Pt), next.y = position.y - f.baselineOffset bl →
      (-1073741824 ≤ next.x ∧ next.x ≤ 1073741824) →
      (do
        let deco ← if next.x > position.x then do
            let w ← chkI32 (next.x - position.x)
            EG.Chk.Font.drawDecorations f st (i32AsU32 w) ⟨position.x, position.y - f.baselineOffset bl⟩
          else pure []
        let ret ← ptAdd next ⟨0, f.baselineOffset bl⟩
        pure (calls ++ deco, ret)) =
      some (calls ++ (if next.x > position.x then
          f.drawDecorations st (next.x - position.x).toNat ⟨position.x, position.y - f.baselineOffset bl⟩
        else []), ⟨next.x, next.y + f.baselineOffset bl⟩) := by
    intro calls next hny hnx
    obtain ⟨_, _⟩ := hnx
    rw [ptAdd_ok (by simp only; omega) (by simp only; omega)]
    by_cases hgt : next.x > position.x
    · simp only [hgt, ↓reduceIte]
      rw [chkI32_ok (by omega) (by omega)]
      simp only [Option.bind_eq_bind, Option.bind_some]
      rw [i32AsU32_nonneg (by omega),
        drawDecorations_ok hf st _ (by simp only; omega) (by simp only; omega)]
      simp only [Option.bind_some, Option.pure_def, Option.some.injEq, Prod.mk.injEq, true_and]
      show (⟨next.x + 0, next.y + f.baselineOffset bl⟩ : Pt) = _
      simp
    · simp only [hgt, ↓reduceIte, Option.pure_def, Option.bind_eq_bind, Option.bind_some,
        Option.some.injEq, Prod.mk.injEq, true_and]
      show (⟨next.x + 0, next.y + f.baselineOffset bl⟩ : Pt) = _
      simp
  have hbx : -1048576 ≤ (⟨position.x, position.y - f.baselineOffset bl⟩ : Pt).x ∧
      (⟨position.x, position.y - f.baselineOffset bl⟩ : Pt).x ≤ 1048576 := ⟨by simp only; omega, by simp only; omega⟩
  cases htc : st.textColor with
  | some tc =>
    cases hbc : st.bgColor with
    | some bc =>
      simp only
      rw [drawStringBinary_ok hf atlas true hn hi hbx]
      obtain ⟨ny, nx1, nx2⟩ := drawStringBinary_next hf atlas true hn hbx
      simp only [Option.bind_some]
      exact frame _ _ ny ⟨nx1, nx2⟩
    | none =>
      simp only
      rw [drawStringBinary_ok hf atlas false hn hi hbx]
      obtain ⟨ny, nx1, nx2⟩ := drawStringBinary_next hf atlas false hn hbx
      simp only [Option.bind_some]
      exact frame _ _ ny ⟨nx1, nx2⟩
  | none =>
    cases hbc : st.bgColor with
    | some bc =>
      simp only
      rw [drawStringBinary_ok hf atlas true hn hi hbx]
      obtain ⟨ny, nx1, nx2⟩ := drawStringBinary_next hf atlas true hn hbx
      simp only [Option.bind_some]
      exact frame _ _ ny ⟨nx1, nx2⟩
    | none =>
      simp only
      have hprod : (f.cw + f.spacing) * text.length ≤ 8192 * 65536 := Nat.mul_le_mul (by omega) hn
      rw [chkU32_ok (by omega)]
      simp only [Option.bind_some]
      rw [Nat.mod_eq_of_lt (by omega), chkU32_ok (by omega)]
      simp only [Option.bind_some]
      rw [ptAddSize_ok (by simp only; omega) (by simp only; omega) (by simp only; omega) (by simp only; omega)]
      simp only [Option.bind_some, Int.natCast_zero, Int.add_zero]
      exact frame [] _ rfl ⟨by simp only; omega, by simp only; omega⟩

/-- **`draw_whitespace`** for widths up to 2^20. -/
theorem drawWhitespace_ok {f : EG.Font.MonoFont} (hf : FontOk f) (st : EG.Font.Style) {width : Nat}
    (hw : width ≤ 1048576) {position : Pt}
    (hx : -1048576 ≤ position.x ∧ position.x ≤ 1048576) (hy : -1048576 ≤ position.y ∧ position.y ≤ 1048576)
    (bl : EG.Font.Baseline) :
    EG.Chk.Font.drawWhitespace f st width position bl = some (f.drawWhitespace st width position bl) := by
  obtain ⟨b0, b1⟩ := baselineOffset_bounds hf bl
  obtain ⟨_, _⟩ := hx
  obtain ⟨_, _⟩ := hy
  have epos : position - ⟨0, f.baselineOffset bl⟩ = ⟨position.x, position.y - f.baselineOffset bl⟩ := by
    cases position
    show (⟨_ - 0, _⟩ : Pt) = _
    simp
  have hsat : satAsI32 width = width := by unfold satAsI32; rw [if_pos (by omega)]
  unfold EG.Chk.Font.drawWhitespace EG.Font.MonoFont.drawWhitespace
  rw [ptSub_ok (by simp only; omega) (by simp only; omega)]
  simp only [Option.bind_eq_bind, Option.bind_some, epos]
  rw [ptAdd_ok (by simp only [hsat]; omega) (by simp only; omega)]
  by_cases hz : width ≠ 0
  · simp only [hz, ↓reduceIte, ne_eq, not_false_eq_true]
    rw [drawDecorations_ok hf st _ (by simp only; omega) (by simp only; omega)]
    rfl
  · simp only [hz, ↓reduceIte]
    rfl

end EG.Chk.Font

/-! ## The built-in fonts are inside the domain -/

namespace EG.Chk.Font
open EG EG.Generated

/-- metrics of a generated font record inside the proof domain, cell count below 65536 -/
def RecOk (r : FontRec) : Prop :=
  r.cw ≤ 4096 ∧ r.ch ≤ 4096 ∧ r.spacing ≤ 4096 ∧ r.baseline ≤ 4096 ∧ r.ulOff ≤ 4096 ∧ r.stOff ≤ 4096 ∧
  r.imgW ≤ 65535 ∧ r.imgH ≤ 65535 ∧ (r.imgW / r.cw) * (r.imgH / r.ch) ≤ 65536
instance (r : FontRec) : Decidable (RecOk r) := by unfold RecOk; exact inferInstance

theorem fontTable_recOk : ∀ r ∈ fontTable, RecOk r := by decide +kernel

/-- **Every built-in font is in the domain of the glyph theorems**, and the glyph index of EVERY
character (mapped or replaced) is below 65536. -/
theorem builtin_fontOk (r : FontRec) (hr : r ∈ fontTable) :
    FontOk (EG.Font.fontOfRec r) ∧ ∀ c, (EG.Font.fontOfRec r).index c ≤ 65535 := by
  obtain ⟨a1, a2, a3, a4, a5, a6, a7, a8, a9⟩ := fontTable_recOk r hr
  refine ⟨⟨a1, a2, a3, a4, a5, a6, a7, a8⟩, ?_⟩
  intro c
  obtain ⟨hm, hcw, hch, hcount, _⟩ := EG.Font.fontTable_ok r hr
  obtain ⟨m, hmem, hbm, hget⟩ := EG.Font.builtinMapping_of_lt r hm
  obtain ⟨_, hrepl, _, _⟩ := EG.Font.mappingTable_ok m hmem
  rw [hget] at hcount
  have hlt : (EG.Font.fontOfRec r).index c < EG.Font.glyphCount m := by
    show (EG.Font.builtinMapping r.mapping).index c < _
    rw [hbm]
    exact EG.Font.index_lt (EG.Font.mappingOfRec m) hrepl c
  omega

end EG.Chk.Font
