/-
  EG.Lemmas.JoinsBBoxWidth1 — a polyline of stroke width 1: `draw` / `pixels()` emit `points()`,
  `styled_bounding_box` is the fold over the boxes of the WIDTH-1 segments. Every corner of a
  width-1 join is the vertex itself (EG.Lemmas.JoinsWidth1; `i32` vertices: the rounding division
  of the intersection saturates to `i32`), so every segment box holds its two vertices, and every
  point of `points()` lies on the thin line between two consecutive vertices.
-/
import EG.Lemmas.JoinsBBoxPolyMain
import EG.Lemmas.JoinsWidth1
import EG.Lemmas.Polyline
set_option linter.unusedSimpArgs false
namespace EG
namespace Joins
open Thick (LineSide StrokeOffset)

/-- `x`, `y` are consecutive vertices of the list. -/
def Consec : List Pt → Pt → Pt → Prop
  | a :: b :: rest, x, y => (x = a ∧ y = b) ∨ Consec (b :: rest) x y
  | _, _, _ => False

/-- All vertices have `i32` coordinates. -/
def AllI32 (vs : List Pt) : Prop := ∀ v ∈ vs, inI32 v.x ∧ inI32 v.y

instance (vs : List Pt) : Decidable (AllI32 vs) := by unfold AllI32; exact inferInstance

/-! ### `points()` lies on the segment lines -/

theorem tailSegs_consec (tr : Pt) : ∀ (vs : List Pt) (p : Pt), p ∈ Polyline.tailSegs tr vs →
    ∃ a b, Consec vs a b ∧ p ∈ Line.points ⟨a + tr, b + tr⟩
  | [], p, h => by simp [Polyline.tailSegs] at h
  | [_], p, h => by simp [Polyline.tailSegs] at h
  | a :: b :: rest, p, h => by
    simp only [Polyline.tailSegs, List.mem_append] at h
    rcases h with h | h
    · exact ⟨a, b, Or.inl ⟨rfl, rfl⟩, List.mem_of_mem_tail h⟩
    · obtain ⟨x, y, hc, hp⟩ := tailSegs_consec tr (b :: rest) p h
      exact ⟨x, y, Or.inr hc, hp⟩

theorem polyline_points_consec (pl : Polyline) (p : Pt) (h : p ∈ Polyline.points pl) :
    ∃ a b, Consec pl.vertices a b ∧ p ∈ Line.points ⟨a + pl.translate, b + pl.translate⟩ := by
  rw [Polyline.points_eq_spec] at h
  unfold Polyline.pointsSpec at h
  rcases hv : pl.vertices with _ | ⟨a, _ | ⟨b, rest⟩⟩
  · rw [hv] at h; cases h
  · rw [hv] at h; cases h
  · rw [hv] at h
    simp only [List.mem_append] at h
    rcases h with h | h
    · exact ⟨a, b, Or.inl ⟨rfl, rfl⟩, h⟩
    · obtain ⟨x, y, hc, hp⟩ := tailSegs_consec pl.translate (b :: rest) p h
      exact ⟨x, y, Or.inr hc, hp⟩

/-! ### The width-1 chain -/

theorem start_width1 (a b : Pt) : ∃ j, LineJoin.start a b 1 .none = some j ∧
    j.secondEdgeStart = ⟨a, a⟩ ∧ j.firstEdgeEnd = ⟨a, a⟩ := by
  unfold LineJoin.start
  rw [extents_width1_none]
  exact ⟨_, rfl, rfl, rfl⟩

theorem stop_width1 (a b : Pt) : ∃ j, LineJoin.stop a b 1 .none = some j ∧
    j.firstEdgeEnd = ⟨b, b⟩ := by
  unfold LineJoin.stop
  rw [extents_width1_none]
  exact ⟨_, rfl, rfl⟩

/-- Every pair of consecutive vertices is the (right = drawn) edge of a segment of the chain. -/
theorem chainFrom_width1 : ∀ (vs : List Pt) (sj : LineJoin) (L : List ThickSegment), AllI32 vs →
    chainFrom 1 sj vs = some L → (∀ a, vs.head? = some a → sj.secondEdgeStart.right = a) →
    ∀ a b, Consec vs a b → ∃ s ∈ L, s.edges.1 = ⟨a, b⟩
  | [], _, _, _, _, _, a, b, hc => by cases hc
  | [_], _, _, _, _, _, a, b, hc => by cases hc
  | [x, y], sj, L, _, h, hsj, a, b, hc => by
    rcases hc with ⟨rfl, rfl⟩ | hc
    · rw [chainFrom_two] at h
      obtain ⟨j, hj, c⟩ := stop_width1 a b
      rw [hj] at h
      simp only [Option.bind_some, Option.some.injEq] at h
      subst h
      refine ⟨_, List.mem_cons_self, ?_⟩
      unfold ThickSegment.edges
      simp only [hsj a rfl, c]
    · cases hc
  | x :: y :: z :: rest, sj, L, hi, h, hsj, a, b, hc => by
    rw [chainFrom_three] at h
    have hy := hi y (by simp)
    obtain ⟨j, hj, c1, c2⟩ := fromPoints_width1 x y z hy.1 hy.2
    rw [hj] at h
    simp only [Option.bind_some] at h
    cases hr : chainFrom 1 j (y :: z :: rest) with
    | none => rw [hr] at h; cases h
    | some r =>
      rw [hr] at h
      simp only [Option.bind_some, Option.some.injEq] at h
      subst h
      rcases hc with ⟨rfl, rfl⟩ | hc
      · refine ⟨_, List.mem_cons_self, ?_⟩
        unfold ThickSegment.edges
        simp only [hsj a rfl, c1]
      · obtain ⟨s, hs, he⟩ := chainFrom_width1 (y :: z :: rest) j r
          (fun v hv => hi v (List.mem_cons_of_mem _ hv)) hr
          (by intro a' ha'; simp only [List.head?_cons, Option.some.injEq] at ha'; subst ha'; rw [c2])
          a b hc
        exact ⟨s, List.mem_cons_of_mem _ hs, he⟩

theorem polyChain_width1 (vs : List Pt) (L : List ThickSegment) (hi : AllI32 vs)
    (h : polyChain vs 1 = some L) : ∀ a b, Consec vs a b → ∃ s ∈ L, s.edges.1 = ⟨a, b⟩ := by
  unfold polyChain at h
  rcases vs with _ | ⟨x, _ | ⟨y, rest⟩⟩
  · intro a b hc; cases hc
  · intro a b hc; cases hc
  · simp only at h
    obtain ⟨j, hj, c, _⟩ := start_width1 x y
    rw [hj] at h
    simp only [Option.bind_some] at h
    exact chainFrom_width1 _ j L hi h
      (by intro a' ha'; simp only [List.head?_cons, Option.some.injEq] at ha'; subst ha'; rw [c])

/-- The (drawn) right edge of a segment ends inside the segment's box. -/
theorem edge1_in_box (s : ThickSegment) :
    s.edgesBoundingBox.contains s.edges.1.start = true ∧
    s.edgesBoundingBox.contains s.edges.1.stop = true := by
  cases h : s.isSkeleton with
  | true => exact edgesBoundingBox_skeleton s h
  | false => exact ⟨(edgesBoundingBox_thick s h).1, (edgesBoundingBox_thick s h).2.1⟩

/-- **Every point of `points()` of a polyline with `i32` vertices lies inside the
`styled_bounding_box` for stroke width 1.** -/
theorem points_in_bbox_width1 (pl : Polyline) (hi : AllI32 pl.vertices) (bb : Rect)
    (hb : styledBoundingBox pl 1 = some bb) : ∀ p ∈ Polyline.points pl, bb.contains p = true := by
  intro p hp
  obtain ⟨a, b, hc, hl⟩ := polyline_points_consec pl p hp
  have hn : 2 ≤ pl.vertices.length := by
    rcases hv : pl.vertices with _ | ⟨x, _ | ⟨y, rest⟩⟩
    · rw [hv] at hc; cases hc
    · rw [hv] at hc; cases hc
    · simp
  unfold styledBoundingBox at hb
  rw [untranslatedBoundingBox_eq pl 1 ⟨by omega, by omega⟩] at hb
  cases hs : polySegments pl.vertices 1 with
  | none => rw [hs] at hb; cases hb
  | some segs =>
    rw [hs] at hb
    simp only [Option.map_some, Option.bind_eq_bind, Option.bind_some, pure, Option.some.injEq] at hb
    subst hb
    rw [polySegments_eq_chain _ _ hn] at hs
    obtain ⟨s, hsm, he⟩ := polyChain_width1 pl.vertices segs hi hs a b hc
    obtain ⟨e1, e2⟩ := edge1_in_box s
    rw [he] at e1 e2
    have ha := foldEdgeBoxes_boxIn segs s hsm a e1
    have hb' := foldEdgeBoxes_boxIn segs s hsm b e2
    have hbox := C17.line_points_in_box _ p hl
    simp only at hbox
    have ha' : ((foldEdgeBoxes segs).translate pl.translate).contains (a + pl.translate) = true := by
      rw [Rect.contains_translate]; exact ha
    have hb'' : ((foldEdgeBoxes segs).translate pl.translate).contains (b + pl.translate) = true := by
      rw [Rect.contains_translate]; exact hb'
    exact contains_between ha' hb'' ⟨by omega, by omega⟩ ⟨by omega, by omega⟩

end Joins
end EG
