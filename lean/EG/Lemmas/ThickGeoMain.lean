/-
  EG.Lemmas.ThickGeoMain — stroked lines: no pixel twice, and every pixel projects to within half a
  major step of the segment (hence within one pixel of its two ends).
  * `new_ninv`: the fresh iterator satisfies the band / position invariant with `iL = jR = 0`;
  * `run_bands`: every parallel of the run lies in its own band `tau n`;
  * `thickPoints_nodup`: bands of different parallels are disjoint, and within a parallel the major
    coordinate increases strictly;
  * `thickPoints_dt_bounds`: `-D <= 2 (dt q - dt start)` and `2 (dt q - dt start) <= 2 L2 + D`.
-/
import EG.Lemmas.ThickGeoRun
import Mathlib.Tactic.Ring
set_option linter.unusedSimpArgs false
namespace EG
namespace Thick
open ParallelsIterator StrokeCtx Line

theorem tau_cases {c : StrokeCtx} {fl : Bool} (hfr : c.FrameOK fl) :
    c.ph c.M' = 2 * c.D ∨ c.ph c.M' = -(2 * c.D) := by
  rcases hfr with ⟨_, h, _⟩ | ⟨_, _, _, t1, _⟩ | ⟨_, _, _, t1, _⟩ | ⟨_, _, _, _, t1, _⟩ |
      ⟨_, _, _, _, t1, _⟩
  · exact h
  · exact Or.inl t1
  · exact Or.inr t1
  · exact Or.inr t1
  · exact Or.inl t1

theorem dt_M'_eq {c : StrokeCtx} {fl : Bool} (hfr : c.FrameOK fl) : c.dt c.M' = sg c * c.d := by
  rcases hfr with ⟨h0, _, t3⟩ | ⟨_, hmir, _, _, _, t3, _⟩ | ⟨_, hmir, _, _, _, t3, _⟩ |
      ⟨_, hDd, hmir, _, _, _, t3, _⟩ | ⟨_, hDd, hmir, _, _, _, t3, _⟩
  · rw [t3, h0]; simp
  · rw [t3]; simp [sg, hmir]
  · rw [t3]; simp [sg, hmir]
  · rw [t3, hDd]; simp [sg, hmir]
  · rw [t3, hDd]; simp [sg, hmir]

/-- The fresh iterator satisfies the invariant: no parallel yielded on either side. -/
theorem new_ninv (l : Line) (t : Int) :
    ∃ it, ParallelsIterator.new l t .none = some it ∧ it.nextSide = .right ∧
      NInv (ctxOf l) l.start (flipOf l) it 0 0 ∧
      it.thicknessAccumulator = (ctxOf l).D + (ctxOf l).d ∧
      it.thicknessThreshold = t * 2 * (t * 2) *
        (dxOf (paramLine l) * dxOf (paramLine l) + dyOf (paramLine l) * dyOf (paramLine l)) := by
  obtain ⟨it, hnew, hfl, hs, hso, hpp, hperp, hl, hle, hr, hre, hacc, hthr⟩ := new_fields l t
  have hv := ctxOf_valid l
  have hD := hv.hD
  have hd0 := hv.hd0
  have hdD := hv.hdD
  have hfr := frameOK_ctxOf l
  refine ⟨it, hnew, hs, ⟨hperp, hpp, hfl, hso, ?_, ?_⟩, hacc, hthr⟩
  · refine ⟨?_, ?_, ?_, ?_, ?_, ?_, ?_⟩ <;> (try rw [hl]) <;> (try rw [hle])
    · show (ctxOf l).ph (l.start + (ctxOf l).M') - (ctxOf l).ph l.start - 0 = _
      rw [ph_add]; simp
    · show 2 * ((ctxOf l).dt (l.start + (ctxOf l).M') - (ctxOf l).dt l.start) =
        sg (ctxOf l) * (2 * (ctxOf l).d)
      rw [dt_add, dt_M'_eq hfr]; linarith
    · omega
    · omega
    · show -(ctxOf l).D < 2 * (ctxOf l).d; omega
    · show 2 * (ctxOf l).d ≤ (ctxOf l).D + 2 * (ctxOf l).d; omega
    · intro h0; show 2 * (ctxOf l).d = 0; omega
  · refine ⟨?_, ?_, ?_, ?_, ?_, ?_, ?_⟩ <;> (try rw [hr]) <;> (try rw [hre])
    · show (ctxOf l).ph l.start - (ctxOf l).ph l.start - 0 = _
      simp
    · show 2 * ((ctxOf l).dt l.start - (ctxOf l).dt l.start) = sg (ctxOf l) * 0
      simp
    · omega
    · omega
    · show -(ctxOf l).D - 2 * (ctxOf l).d < 0; omega
    · show (0 : Int) ≤ (ctxOf l).D; omega
    · intro _; rfl

/-- **Every parallel of the run lies in its own band.** -/
theorem run_bands (c : StrokeCtx) (hv : c.Valid) (fl : Bool) (hfr : c.FrameOK fl) (s : Pt)
    {it : ParallelsIterator} {xs : List ParItem} (hrun : Run it xs) :
    ∀ (iL jR : Nat), NInv c s fl it iL jR →
    (∀ x ∈ xs, ∃ n : Int, ((iL : Int) < n ∨ n ≤ -(jR : Int)) ∧
      ParOK c s (c.ph c.M' * n) x.2.1 x.2.2) ∧
    xs.Pairwise (fun x y => bandOf c s x ≠ bandOf c s y) := by
  have hD := hv.hD
  have htau0 : c.ph c.M' ≠ 0 := by rcases tau_cases hfr with h | h <;> rw [h] <;> omega
  induction hrun with
  | done _ => intro _ _ _; exact ⟨fun x hx => (by cases hx), List.Pairwise.nil⟩
  | @step it it' b ty xs hn _ ih =>
    intro iL jR hg
    obtain ⟨_, hcase⟩ := next_geo c hv fl hfr s it it' iL jR hg b ty hn
    rcases hcase with ⟨_, hg', hok⟩ | ⟨_, hg', hok⟩
    · obtain ⟨i1, i2⟩ := ih (iL + 1) jR hg'
      refine ⟨?_, List.Pairwise.cons ?_ i2⟩
      · intro x hx
        rcases List.mem_cons.mp hx with rfl | hx
        · exact ⟨(iL : Int) + 1, Or.inl (by omega), hok⟩
        · obtain ⟨n, hn1, hn2⟩ := i1 x hx
          exact ⟨n, by push_cast at hn1; omega, hn2⟩
      · intro y hy
        obtain ⟨n, hn1, hn2⟩ := i1 y hy
        unfold bandOf
        rw [hn2.1]
        show c.ph b.point - c.ph s - b.error ≠ _
        rw [hok.1]
        intro heq
        have := Int.eq_of_mul_eq_mul_left htau0 heq
        push_cast at hn1
        omega
    · obtain ⟨i1, i2⟩ := ih iL (jR + 1) hg'
      refine ⟨?_, List.Pairwise.cons ?_ i2⟩
      · intro x hx
        rcases List.mem_cons.mp hx with rfl | hx
        · exact ⟨-(jR : Int), Or.inr (by omega), by rw [Int.mul_neg]; exact hok⟩
        · obtain ⟨n, hn1, hn2⟩ := i1 x hx
          exact ⟨n, by push_cast at hn1; omega, hn2⟩
      · intro y hy
        obtain ⟨n, hn1, hn2⟩ := i1 y hy
        unfold bandOf
        rw [hn2.1]
        show c.ph b.point - c.ph s - b.error ≠ _
        rw [hok.1, ← Int.mul_neg]
        intro heq
        have := Int.eq_of_mul_eq_mul_left htau0 heq
        push_cast at hn1
        omega

/-- Different bands are disjoint. -/
theorem band_sep (D tau : Int) (hD : 0 < D) (ht : tau = 2 * D ∨ tau = -(2 * D)) (n m : Int)
    (hne : n ≠ m) (X : Int) (h1 : -D < X - tau * n) (h2 : X - tau * n ≤ D) (h3 : -D < X - tau * m)
    (h4 : X - tau * m ≤ D) : False := by
  rcases Int.lt_or_gt_of_ne hne with h | h
  · have : D * (n + 1) ≤ D * m := Int.mul_le_mul_of_nonneg_left (by omega) (by omega)
    rcases ht with rfl | rfl <;> nlinarith
  · have : D * (m + 1) ≤ D * n := Int.mul_le_mul_of_nonneg_left (by omega) (by omega)
    rcases ht with rfl | rfl <;> nlinarith

/-- The error bounds `parPts_mem_geo` needs follow from `ParOK`. -/
theorem parOK_err {c : StrokeCtx} (hv : c.Valid) {s : Pt} {K : Int} {b : Bresenham}
    {ty : ParallelLineType} (h : ParOK c s K b ty) : -c.D < b.error ∧ b.error ≤ 3 * c.D := by
  have hD := hv.hD
  have hdD := hv.hdD
  obtain ⟨_, h1, h2, h3⟩ := h
  cases ty with
  | normal => have := (h2 rfl).1; omega
  | extra => have := (h3 rfl).1; omega

/-- A point of a parallel in band `K` satisfies the band inequality, relative to `start`. -/
theorem parPts_band {c : StrokeCtx} (hv : c.Valid) {s : Pt} {K : Int} {b : Bresenham}
    {ty : ParallelLineType} (h : ParOK c s K b ty) (n : Nat) (q : Pt) (hq : q ∈ parPts n b c.pp) :
    -c.D < c.ph q - c.ph s - K ∧ c.ph q - c.ph s - K ≤ c.D := by
  obtain ⟨e1, e2⟩ := parOK_err hv h
  obtain ⟨k, _, _, _, hb⟩ := parPts_mem_geo c hv n b e1 e2 q hq
  unfold InBandK bandK at hb
  have := h.1
  constructor <;> omega

theorem segs_nodup (c : StrokeCtx) (hv : c.Valid) (fl : Bool) (hfr : c.FrameOK fl) (s : Pt) (len : Nat) :
    ∀ (xs : List ParItem), (∀ x ∈ xs, ∃ n : Int, ParOK c s (c.ph c.M' * n) x.2.1 x.2.2) →
    xs.Pairwise (fun x y => bandOf c s x ≠ bandOf c s y) → (segs c.pp len xs).Nodup
  | [], _, _ => by simp [segs]
  | x :: xs, hall, hpw => by
    rw [segs_cons, List.nodup_append]
    obtain ⟨hx, hrest⟩ := List.pairwise_cons.mp hpw
    obtain ⟨n, hok⟩ := hall x List.mem_cons_self
    obtain ⟨e1, e2⟩ := parOK_err hv hok
    refine ⟨parPts_nodup c hv _ _ e1 e2, segs_nodup c hv fl hfr s len xs
      (fun y hy => hall y (List.mem_cons_of_mem _ hy)) hrest, ?_⟩
    intro p hp q hq hpq
    subst hpq
    obtain ⟨y, hy, hqy⟩ := List.mem_flatMap.mp hq
    obtain ⟨m, hoky⟩ := hall y (List.mem_cons_of_mem _ hy)
    have hne := hx y hy
    unfold bandOf at hne
    rw [hok.1, hoky.1] at hne
    have hnm : n ≠ m := fun h => hne (by rw [h])
    obtain ⟨a1, a2⟩ := parPts_band hv hok _ p hp
    obtain ⟨a3, a4⟩ := parPts_band hv hoky _ p hqy
    exact band_sep c.D (c.ph c.M') hv.hD (tau_cases hfr) n m hnm (c.ph p - c.ph s) a1 a2 a3 a4

/-- **A stroked line yields no pixel twice.** -/
theorem thickPoints_nodup (l : Line) (w : Nat) (ps : List Pt) (hps : thickPoints l w = some ps) :
    ps.Nodup := by
  by_cases hw : w = 0
  · rw [hw, thickPoints_width0] at hps
    simp only [Option.some.injEq] at hps
    subst hps; exact List.nodup_nil
  obtain ⟨it, xs, hnew, hrun, rfl⟩ := thickPoints_run l w hw ps hps
  obtain ⟨it', hnew', _, hg, _, _⟩ := new_ninv l (satAsI32 w)
  rw [hnew] at hnew'
  simp only [Option.some.injEq] at hnew'
  subst hnew'
  have hv := ctxOf_valid l
  have hfr := frameOK_ctxOf l
  obtain ⟨h1, h2⟩ := run_bands (ctxOf l) hv _ hfr l.start hrun 0 0 hg
  exact segs_nodup (ctxOf l) hv _ hfr l.start _ xs
    (fun x hx => by obtain ⟨n, _, hn⟩ := h1 x hx; exact ⟨n, hn⟩) h2

/-! ### Position along the line -/

/-- `dt` is the dot product with the direction of the stroke (`paramLine l`: the line itself, or
`HORIZONTAL_LINE` for a zero-length line). -/
theorem dt_eq (l : Line) (p : Pt) :
    (ctxOf l).dt p = dxOf (paramLine l) * p.x + dyOf (paramLine l) * p.y := by
  have h := delta_decomp (paramLine l)
  rw [Pt.ext_iff'] at h
  simp only [Pt.sub_x, Pt.sub_y, Pt.add_x, Pt.add_y, smul_x, smul_y] at h
  obtain ⟨hx, hy⟩ := h
  have hx' : dxOf (paramLine l) = (ctxOf l).D * (ctxOf l).M.x + (ctxOf l).d * (ctxOf l).m.x := hx
  have hy' : dyOf (paramLine l) = (ctxOf l).D * (ctxOf l).M.y + (ctxOf l).d * (ctxOf l).m.y := hy
  rw [hx', hy']
  unfold dt amaj amin
  ring

theorem L2_eq (l : Line) :
    dxOf (paramLine l) * dxOf (paramLine l) + dyOf (paramLine l) * dyOf (paramLine l) =
      (ctxOf l).D * (ctxOf l).D + (ctxOf l).d * (ctxOf l).d :=
  (dmaj_dmin_squares (paramLine l)).symm

/-- The number of points of a parallel. -/
theorem lenOf_le (l : Line) (ty : ParallelLineType) :
    (ty = .normal → (lenOf (majorLength l) ty : Int) ≤ (ctxOf l).D + 1) ∧
    (ty = .extra → (lenOf (majorLength l) ty : Int) ≤ (ctxOf l).D) := by
  have hD := (ctxOf_valid l).hD
  have hlen : (majorLength l : Int) ≤ (ctxOf l).D + 1 := by
    by_cases hdeg : l.start = l.stop
    · rw [majorLength_eq, (dmaj_zero_iff l).mpr hdeg]
      simp only [Int.toNat_zero, Nat.zero_add, Nat.cast_one]
      omega
    · have hp : paramLine l = l := by simp [paramLine, hdeg]
      have : (ctxOf l).D = dmaj l := by unfold ctxOf; rw [hp]
      rw [majorLength_eq, this]
      have := dmaj_nonneg l
      omega
  have hpos := majorLength_pos l
  constructor
  · intro h; subst h; exact hlen
  · intro h; subst h
    show ((majorLength l - 1 : Nat) : Int) ≤ _
    omega

theorem par_dt_arith (D d e k j : Int) (hD : 0 < D) (hd0 : 0 ≤ d) (_hk0 : 0 ≤ k)
    (_hj0 : 0 ≤ j) (hb : 2 * D * j < e + 2 * d * k + D) :
    (e ≤ D → k ≤ D → D * k + d * j ≤ D * D + d * d) ∧
    (e ≤ 2 * d - D → k ≤ D - 1 → 1 ≤ d → D * k + d * j ≤ D * D + d * d - D - d) := by
  constructor
  · intro he hk
    have hj : j ≤ d := by
      by_contra hc
      have h1 : D * (d + 1) ≤ D * j := Int.mul_le_mul_of_nonneg_left (by omega) (by omega)
      have h2 : d * k ≤ d * D := Int.mul_le_mul_of_nonneg_left hk hd0
      nlinarith
    have h1 : D * k ≤ D * D := Int.mul_le_mul_of_nonneg_left hk (by omega)
    have h2 : d * j ≤ d * d := Int.mul_le_mul_of_nonneg_left hj hd0
    omega
  · intro he hk hd1
    have hj : j ≤ d - 1 := by
      by_contra hc
      have h1 : D * d ≤ D * j := Int.mul_le_mul_of_nonneg_left (by omega) (by omega)
      have h2 : d * k ≤ d * (D - 1) := Int.mul_le_mul_of_nonneg_left hk hd0
      nlinarith
    have h1 : D * k ≤ D * (D - 1) := Int.mul_le_mul_of_nonneg_left hk (by omega)
    have h2 : d * j ≤ d * (d - 1) := Int.mul_le_mul_of_nonneg_left hj hd0
    nlinarith

/-- The points of one parallel: their position along the line. -/
theorem par_dt_bounds (l : Line) (K : Int) (b : Bresenham) (ty : ParallelLineType)
    (hok : ParOK (ctxOf l) l.start K b ty) (q : Pt)
    (hq : q ∈ parPts (lenOf (majorLength l) ty) b (ctxOf l).pp) :
    (ctxOf l).dt b.point ≤ (ctxOf l).dt q ∧
    (ty = .normal → (ctxOf l).dt q - (ctxOf l).dt b.point ≤
      (ctxOf l).D * (ctxOf l).D + (ctxOf l).d * (ctxOf l).d) ∧
    (ty = .extra → (ctxOf l).dt q - (ctxOf l).dt b.point ≤
      (ctxOf l).D * (ctxOf l).D + (ctxOf l).d * (ctxOf l).d - (ctxOf l).D - (ctxOf l).d) := by
  have hv := ctxOf_valid l
  have hD := hv.hD
  have hd0 := hv.hd0
  obtain ⟨e1, e2⟩ := parOK_err hv hok
  obtain ⟨k, hk, ha, hm, hb⟩ := parPts_mem_geo (ctxOf l) hv _ b e1 e2 q hq
  obtain ⟨hb1, _⟩ := hb
  unfold bandK ph at hb1
  obtain ⟨hlen1, hlen2⟩ := lenOf_le l ty
  obtain ⟨j, hj⟩ : ∃ j, (ctxOf l).amin q = (ctxOf l).amin b.point + j :=
    ⟨(ctxOf l).amin q - (ctxOf l).amin b.point, by omega⟩
  have hj0 : 0 ≤ j := by omega
  have hkey : 2 * (ctxOf l).D * j < b.error + 2 * (ctxOf l).d * (k : Int) + (ctxOf l).D := by
    rw [ha, hj] at hb1; linarith
  obtain ⟨a1, a2⟩ := par_dt_arith (ctxOf l).D (ctxOf l).d b.error k j hD hd0 (by omega) hj0 hkey
  have hdt : (ctxOf l).dt q - (ctxOf l).dt b.point = (ctxOf l).D * (k : Int) + (ctxOf l).d * j := by
    unfold dt; rw [ha, hj]; ring
  have hk0 : 0 ≤ (ctxOf l).D * (k : Int) := Int.mul_nonneg (by omega) (by omega)
  have hj0' : 0 ≤ (ctxOf l).d * j := Int.mul_nonneg hd0 hj0
  refine ⟨by omega, ?_, ?_⟩
  · intro hty
    rw [hdt]
    have := hlen1 hty
    exact a1 ((hok.2.2.1 hty).1) (by omega)
  · intro hty
    rw [hdt]
    have := hlen2 hty
    obtain ⟨g1, g2, _, _⟩ := hok.2.2.2 hty
    exact a2 g1 (by omega) (by omega)

/-- **Every pixel of a stroked line projects to within half a major step of the segment**:
`-D <= 2 (dt q - dt start)` and `2 (dt q - dt start) <= 2 L2 + D`. -/
theorem thickPoints_dt_bounds (l : Line) (w : Nat) (ps : List Pt) (hps : thickPoints l w = some ps) :
    ∀ q ∈ ps, -(ctxOf l).D ≤ 2 * ((ctxOf l).dt q - (ctxOf l).dt l.start) ∧
      2 * ((ctxOf l).dt q - (ctxOf l).dt l.start) ≤
        2 * ((ctxOf l).D * (ctxOf l).D + (ctxOf l).d * (ctxOf l).d) + (ctxOf l).D := by
  by_cases hw : w = 0
  · rw [hw, thickPoints_width0] at hps
    simp only [Option.some.injEq] at hps
    subst hps; intro q hq; cases hq
  obtain ⟨it, xs, hnew, hrun, rfl⟩ := thickPoints_run l w hw ps hps
  obtain ⟨it', hnew', _, hg, _, _⟩ := new_ninv l (satAsI32 w)
  rw [hnew] at hnew'
  simp only [Option.some.injEq] at hnew'
  subst hnew'
  have hv := ctxOf_valid l
  have hD := hv.hD
  have hd0 := hv.hd0
  have hfr := frameOK_ctxOf l
  obtain ⟨h1, _⟩ := run_bands (ctxOf l) hv _ hfr l.start hrun 0 0 hg
  intro q hq
  obtain ⟨x, hx, hqx⟩ := List.mem_flatMap.mp hq
  obtain ⟨n, _, hok⟩ := h1 x hx
  obtain ⟨b1, b2, b3⟩ := par_dt_bounds l _ x.2.1 x.2.2 hok q hqx
  obtain ⟨_, _, o1, o2⟩ := hok
  cases hty : x.2.2 with
  | normal =>
    obtain ⟨_, g1, g2⟩ := o1 hty
    have := b2 hty
    constructor <;> omega
  | extra =>
    obtain ⟨_, _, g1, g2⟩ := o2 hty
    have := b3 hty
    constructor <;> omega

end Thick
end EG
