/-
  EG.Lemmas.CheckedThick — range theorems of the thick-line scalars (`ParallelsIterator`) and of
  the intersection kernels (`LinearEquation::from_line`, `IntersectionParams`, miter length).

  Largest uniform bounds proved:
    * thickness threshold (`i64`): thickness `0..=32767`, `|delta| <= 32767` per axis (the
      largest deltas whose `length_squared` fits `i32`): `(2 t)^2 * |delta|^2 < 2^63`;
    * accumulator: while `acc^2 <= threshold <= 2^60` and `|step| < 2^30`, `acc + step` fits `i32`;
      `i64::from(acc).pow(2)` fits for every `i32`;
    * intersections: coordinates of the start points and deltas within `+-32767` (`J.coord`), the
      largest uniform bound for which `origin_distance = start . normal` fits `i32`
      (`2 * 32767^2 < 2^31`); the `i64` numerators then stay below `2^48`.
-/
import EG.Lemmas.CheckedLine
namespace EG.Chk
open EG

/-! ## Products under bounds -/

theorem mul_bounds {a b A B : Int} (ha : -A ≤ a ∧ a ≤ A) (hb : -B ≤ b ∧ b ≤ B) :
    -(A * B) ≤ a * b ∧ a * b ≤ A * B := by
  obtain ⟨h1, h2⟩ := ha
  obtain ⟨h3, h4⟩ := hb
  constructor
  · nlinarith [mul_nonneg (show 0 ≤ A - a by omega) (show 0 ≤ B + b by omega),
      mul_nonneg (show 0 ≤ A + a by omega) (show 0 ≤ B - b by omega)]
  · nlinarith [mul_nonneg (show 0 ≤ A - a by omega) (show 0 ≤ B - b by omega),
      mul_nonneg (show 0 ≤ A + a by omega) (show 0 ≤ B + b by omega)]

theorem mul_bounds_nonneg {a b A B : Int} (ha : 0 ≤ a ∧ a ≤ A) (hb : 0 ≤ b ∧ b ≤ B) :
    0 ≤ a * b ∧ a * b ≤ A * B :=
  ⟨mul_nonneg ha.1 hb.1, mul_le_mul ha.2 hb.2 hb.1 (by omega)⟩

/-! ## Thick lines -/

/-- The plain threshold, as in `Thick.ParallelsIterator.new`. -/
def plainThickThreshold (thickness : Int) (delta : Pt) : Int :=
  (thickness * 2) * (thickness * 2) * delta.lengthSquared

theorem thickThreshold_ok {t : Int} (ht : 0 ≤ t ∧ t ≤ 32767) {d : Pt}
    (hx : -32767 ≤ d.x ∧ d.x ≤ 32767) (hy : -32767 ≤ d.y ∧ d.y ≤ 32767) :
    thickThreshold t d = some (plainThickThreshold t d) := by
  have h1 := sq_le_of_abs_le hx.1 hx.2
  have h2 := sq_le_of_abs_le hy.1 hy.2
  have h3 := sq_nonneg' d.x
  have h4 := sq_nonneg' d.y
  have h5 : 0 ≤ (t * 2) * (t * 2) ∧ (t * 2) * (t * 2) ≤ 65534 * 65534 :=
    mul_bounds_nonneg (by omega) (by omega)
  have h6 : 0 ≤ (t * 2) * (t * 2) * (d.x * d.x + d.y * d.y) ∧
      (t * 2) * (t * 2) * (d.x * d.x + d.y * d.y) ≤ (65534 * 65534) * 2147352578 :=
    mul_bounds_nonneg h5 (by omega)
  unfold thickThreshold plainThickThreshold Pt.lengthSquared
  chk_simp
  rw [lengthSquared_ok hx hy]
  unfold EG.lengthSquared
  chk_simp

theorem thickAccumulator_ok {P : BresenhamParameters}
    (h1 : -1073741823 ≤ P.errorStep.minor ∧ P.errorStep.minor ≤ 1073741823)
    (h2 : -1073741823 ≤ P.errorStep.major ∧ P.errorStep.major ≤ 1073741823) :
    thickAccumulator P = some (tdiv2 (P.errorStep.minor + P.errorStep.major)) := by
  unfold thickAccumulator
  chk_simp

/-- The scalars of `ParallelsIterator::new` for end points within `+-16383` and thickness up to
32767. -/
theorem thickScalars_ok {l : Line} (hs : (-16383 ≤ l.start.x ∧ l.start.x ≤ 16383) ∧ (-16383 ≤ l.start.y ∧ l.start.y ≤ 16383))
    (he : (-16383 ≤ l.stop.x ∧ l.stop.x ≤ 16383) ∧ (-16383 ≤ l.stop.y ∧ l.stop.y ≤ 16383))
    {t : Int} (ht : 0 ≤ t ∧ t ≤ 32767) :
    thickScalars l t =
      let line := if l.start = l.stop then Thick.horizontalLine else l
      let pp := BresenhamParameters.new line
      some (plainThickThreshold t line.delta, tdiv2 (pp.errorStep.minor + pp.errorStep.major)) := by
  obtain ⟨⟨_, _⟩, ⟨_, _⟩⟩ := hs
  obtain ⟨⟨_, _⟩, ⟨_, _⟩⟩ := he
  unfold thickScalars
  simp only
  generalize hl : (if l.start = l.stop then Thick.horizontalLine else l) = line
  have hb : ((-16383 ≤ line.start.x ∧ line.start.x ≤ 16383) ∧ (-16383 ≤ line.start.y ∧ line.start.y ≤ 16383)) ∧
      ((-16383 ≤ line.stop.x ∧ line.stop.x ≤ 16383) ∧ (-16383 ≤ line.stop.y ∧ line.stop.y ≤ 16383)) := by
    subst hl; split
    · simp only [Thick.horizontalLine]; omega
    · omega
  obtain ⟨⟨⟨_, _⟩, ⟨_, _⟩⟩, ⟨⟨_, _⟩, ⟨_, _⟩⟩⟩ := hb
  have hws : W.pt line.start := by unfold W.pt W.coord; omega
  have hwe : W.pt line.stop := by unfold W.pt W.coord; omega
  rw [bresenhamParametersNew_ok hws hwe]
  chk_simp
  unfold lineDelta
  rw [ptSub_ok (by omega) (by omega)]
  chk_simp
  have hd : line.delta = line.stop - line.start := rfl
  rw [thickThreshold_ok ht (by simp only [Pt.sub_x]; omega) (by simp only [Pt.sub_y]; omega)]
  chk_simp
  have hP := Line.params_new line
  have hd1 := Line.dmin_nonneg line
  have hd2 := Line.dmin_le_dmaj line
  have hd3 : Line.dmaj line ≤ 32766 := by
    unfold Line.dmaj Line.aabs Line.dxOf Line.dyOf
    split <;> split <;> omega
  rw [thickAccumulator_ok (by rw [hP]; simp only; omega) (by rw [hP]; simp only; omega)]
  rw [hd]
  rfl

/-- `i64::from(acc).pow(2)` fits for every `i32` accumulator; while the iterator continues
(`acc^2 <= threshold`, threshold at most `2^60`) the increment `acc + step` fits `i32`. -/
theorem thickAccStep_ok {acc th step : Int} (ha : -2147483648 ≤ acc ∧ acc ≤ 2147483647)
    (hth : th ≤ 1152921504606846976) (hs : -1073741823 ≤ step ∧ step ≤ 1073741823) :
    thickAccStep acc th step =
      some (if acc * acc > th then none else some (acc + step)) := by
  have h1 : acc * acc ≤ 2147483648 * 2147483648 := sq_le_of_abs_le (by omega) (by omega)
  have h2 := sq_nonneg' acc
  unfold thickAccStep
  chk_simp
  split
  · rfl
  · rename_i hc
    have h3 : acc * acc ≤ 1073741824 * 1073741824 := by omega
    have h4 : -1073741824 ≤ acc ∧ acc ≤ 1073741824 := by
      constructor
      · by_contra hcon
        have : (1073741825 : Int) * 1073741825 ≤ acc * acc := by nlinarith
        omega
      · by_contra hcon
        have : (1073741825 : Int) * 1073741825 ≤ acc * acc := by nlinarith
        omega
    chk_simp

/-! ## Intersections -/

/-- `|x| <= 32767` -/
def J.coord (x : Int) : Prop := -32767 ≤ x ∧ x ≤ 32767
def J.pt (p : Pt) : Prop := J.coord p.x ∧ J.coord p.y
/-- start point and delta of the line within `+-32767` -/
def J.line (l : Line) : Prop := J.pt l.start ∧ J.pt (l.stop - l.start)
instance (x : Int) : Decidable (J.coord x) := by unfold J.coord; exact inferInstance
instance (p : Pt) : Decidable (J.pt p) := by unfold J.pt; exact inferInstance
instance (l : Line) : Decidable (J.line l) := by unfold J.line; exact inferInstance

theorem Isect.dot_ok {a b : Pt} (ha : J.pt a) (hb : J.pt b) :
    Isect.dot a b = some (EG.Isect.dot a b) ∧
      -2147352578 ≤ EG.Isect.dot a b ∧ EG.Isect.dot a b ≤ 2147352578 := by
  obtain ⟨hax, hay⟩ := ha
  obtain ⟨hbx, hby⟩ := hb
  have h1 := mul_bounds hax hbx
  have h2 := mul_bounds hay hby
  unfold Isect.dot EG.Isect.dot
  refine ⟨?_, ?_, ?_⟩
  · chk_simp
  · omega
  · omega

theorem Isect.det_ok {a b : Pt} (ha : J.pt a) (hb : J.pt b) :
    Isect.det a b = some (EG.Isect.det a b) ∧
      -2147352578 ≤ EG.Isect.det a b ∧ EG.Isect.det a b ≤ 2147352578 := by
  obtain ⟨hax, hay⟩ := ha
  obtain ⟨hbx, hby⟩ := hb
  have h1 := mul_bounds hax hby
  have h2 := mul_bounds hay hbx
  unfold Isect.det EG.Isect.det
  refine ⟨?_, ?_, ?_⟩
  · chk_simp
  · omega
  · omega

theorem Isect.delta_fits {l : Line} (h : J.line l) :
    (-2147483648 ≤ l.stop.x - l.start.x ∧ l.stop.x - l.start.x ≤ 2147483647) ∧
    (-2147483648 ≤ l.stop.y - l.start.y ∧ l.stop.y - l.start.y ≤ 2147483647) := by
  obtain ⟨_, ⟨⟨_, _⟩, ⟨_, _⟩⟩⟩ := h
  simp only [Pt.sub_x, Pt.sub_y] at *
  omega

/-- `LinearEquation::from_line`: the result, and the bounds the later stages need. -/
theorem Isect.fromLine_ok {l : Line} (h : J.line l) :
    Isect.fromLine l = some (EG.Isect.fromLine l) ∧ J.pt (EG.Isect.fromLine l).normal ∧
      -2147352578 ≤ (EG.Isect.fromLine l).originDistance ∧
      (EG.Isect.fromLine l).originDistance ≤ 2147352578 := by
  have hf := Isect.delta_fits h
  obtain ⟨hs, hd⟩ := h
  have hn : J.pt (EG.Isect.rotate90 l.delta) := by
    obtain ⟨⟨_, _⟩, ⟨_, _⟩⟩ := hd
    simp only [Pt.sub_x, Pt.sub_y] at *
    unfold J.pt J.coord EG.Isect.rotate90 Line.delta
    simp only [Pt.sub_x, Pt.sub_y]
    omega
  obtain ⟨h1, h2, h3⟩ := Isect.dot_ok hs hn
  unfold Isect.fromLine lineDelta
  rw [ptSub_ok hf.1 hf.2]
  chk_simp
  have hr : Isect.rotate90 (l.stop - l.start) = some (EG.Isect.rotate90 l.delta) := by
    obtain ⟨⟨_, _⟩, ⟨_, _⟩⟩ := hd
    simp only [Pt.sub_x, Pt.sub_y] at *
    unfold Isect.rotate90
    rw [chkI32_ok (by simp only [Pt.sub_y]; omega) (by simp only [Pt.sub_y]; omega)]
    rfl
  rw [hr]
  chk_simp
  rw [h1]
  exact ⟨rfl, hn, h2, h3⟩

/-- `LinearEquation::distance` / `check_side` (the self-intersection test of a join): points
within `+-8191`, normal vectors within `+-16382` (deltas of such points), origin distance within
`+-2^30`. -/
theorem Isect.distance_ok {le : EG.Isect.LinearEquation} {p : Pt}
    (hn : (-16382 ≤ le.normal.x ∧ le.normal.x ≤ 16382) ∧ (-16382 ≤ le.normal.y ∧ le.normal.y ≤ 16382))
    (hp : (-8191 ≤ p.x ∧ p.x ≤ 8191) ∧ (-8191 ≤ p.y ∧ p.y ≤ 8191))
    (ho : -1073741824 ≤ le.originDistance ∧ le.originDistance ≤ 1073741824) :
    Isect.distance le p = some (EG.Isect.distance le p) := by
  have h1 := mul_bounds hp.1 hn.1
  have h2 := mul_bounds hp.2 hn.2
  unfold Isect.distance EG.Isect.distance Isect.dot EG.Isect.dot
  chk_simp

/-- `IntersectionParams::from_lines`. -/
theorem Isect.fromLines_ok {l1 l2 : Line} (h1 : J.line l1) (h2 : J.line l2) :
    Isect.fromLines l1 l2 =
      some (EG.Isect.fromLine l1, EG.Isect.fromLine l2, EG.Isect.denominator l1 l2) ∧
      -2147352578 ≤ EG.Isect.denominator l1 l2 ∧ EG.Isect.denominator l1 l2 ≤ 2147352578 := by
  obtain ⟨e1, n1, _, _⟩ := Isect.fromLine_ok h1
  obtain ⟨e2, n2, _, _⟩ := Isect.fromLine_ok h2
  obtain ⟨e3, b1, b2⟩ := Isect.det_ok n1 n2
  unfold Isect.fromLines
  rw [e1, e2]
  chk_simp
  rw [e3]
  exact ⟨rfl, b1, b2⟩

/-- `nearly_colinear_has_error` for every `i32` denominator. -/
theorem Isect.nearlyColinear_ok {l1 l2 : Line} (h1 : J.line l1) (h2 : J.line l2) {den : Int}
    (hden : -2147483648 ≤ den ∧ den ≤ 2147483647) :
    Isect.nearlyColinearHasError l1 l2 den =
      some (let d := EG.Isect.dot l1.delta l2.delta
            decide (den * den < (if d < 0 then -d else d))) := by
  have hf1 := Isect.delta_fits h1
  have hf2 := Isect.delta_fits h2
  obtain ⟨e, b1, b2⟩ := Isect.dot_ok h1.2 h2.2
  have hsq : den * den ≤ 2147483648 * 2147483648 := sq_le_of_abs_le (by omega) (by omega)
  have hsq0 := sq_nonneg' den
  unfold Isect.nearlyColinearHasError lineDelta
  rw [ptSub_ok hf1.1 hf1.2, ptSub_ok hf2.1 hf2.2]
  chk_simp
  rw [e]
  chk_simp
  have hd1 : l1.delta = l1.stop - l1.start := rfl
  have hd2 : l2.delta = l2.stop - l2.start := rfl
  rw [hd1, hd2]

theorem signum_cases (a : Int) : EG.Isect.signum a = 1 ∨ EG.Isect.signum a = -1 ∨ EG.Isect.signum a = 0 := by
  unfold EG.Isect.signum; split <;> (try split) <;> omega

/-- `round_div` for numerators below `2^60` and a positive denominator below `2^32`. -/
theorem Isect.roundDiv_ok {sign den num : Int}
    (hs : sign = 1 ∨ sign = -1 ∨ sign = 0) (hd : 0 < den ∧ den ≤ 4294967296)
    (hn : -1152921504606846976 ≤ num ∧ num ≤ 1152921504606846976) :
    Isect.roundDiv sign den num = some (EG.Isect.roundDiv sign den num) := by
  unfold Isect.roundDiv EG.Isect.roundDiv
  have h1 : -(2 * 1152921504606846976) ≤ 2 * num * sign ∧ 2 * num * sign ≤ 2 * 1152921504606846976 := by
    rcases hs with h | h | h <;> subst h <;> omega
  chk_simp
  have : 2 * den ≠ 0 := by omega
  simp only [this, ↓reduceIte]

/-- `IntersectionParams::intersection` for equations whose normal vectors are within `+-32767`
and whose origin distances fit `i32`, and every `i32` denominator. -/
theorem Isect.intersection_ok {le1 le2 : EG.Isect.LinearEquation} (hn1 : J.pt le1.normal)
    (hn2 : J.pt le2.normal)
    (ho1 : -2147483648 ≤ le1.originDistance ∧ le1.originDistance ≤ 2147483647)
    (ho2 : -2147483648 ≤ le2.originDistance ∧ le2.originDistance ≤ 2147483647) {den : Int}
    (hden : -2147483648 ≤ den ∧ den ≤ 2147483647) :
    Isect.intersection le1 le2 den = some (EG.Isect.intersection le1 le2 den) := by
  obtain ⟨n1x, n1y⟩ := hn1
  obtain ⟨n2x, n2y⟩ := hn2
  have p1 := mul_bounds (A := 2147483648) (B := 32767) (a := le1.originDistance) (by omega) n2y
  have p2 := mul_bounds (A := 2147483648) (B := 32767) (a := le2.originDistance) (by omega) n1y
  have q1 := mul_bounds (A := 32767) (B := 2147483648) n1x (b := le2.originDistance) (by omega)
  have q2 := mul_bounds (A := 32767) (B := 2147483648) n2x (b := le1.originDistance) (by omega)
  unfold Isect.intersection EG.Isect.intersection
  by_cases hz : den = 0
  · simp only [hz, ↓reduceIte]; rfl
  · simp only [hz, ↓reduceIte]
    chk_simp
    have hdpos : 0 < (if den < 0 then -den else den) ∧ (if den < 0 then -den else den) ≤ 4294967296 := by
      split <;> omega
    rw [Isect.roundDiv_ok (signum_cases den) hdpos (by omega),
      Isect.roundDiv_ok (signum_cases den) hdpos (by omega)]
    rfl

/-- The `i64` miter length fits for every pair of `i32` differences that are not both
`i32::MIN`; `(width * 2).pow(2)` fits `u32` for widths up to 32767. -/
theorem Isect.miterWithinLimit_ok {d : Pt} (hx : -2147483647 ≤ d.x ∧ d.x ≤ 2147483647)
    (hy : -2147483647 ≤ d.y ∧ d.y ≤ 2147483647) {w : Nat} (hw : w ≤ 32767) :
    Isect.miterWithinLimit d w = some (EG.Isect.miterWithinLimit d w) := by
  have h1 : d.x * d.x ≤ 2147483647 * 2147483647 := sq_le_of_abs_le (by omega) (by omega)
  have h2 : d.y * d.y ≤ 2147483647 * 2147483647 := sq_le_of_abs_le (by omega) (by omega)
  have h3 := sq_nonneg' d.x
  have h4 := sq_nonneg' d.y
  have h5 : (w * 2) * (w * 2) ≤ 65534 * 65534 := Nat.mul_le_mul (by omega) (by omega)
  unfold Isect.miterWithinLimit EG.Isect.miterWithinLimit
  chk_simp

/-! ## Why the widenings were needed: display-scale witnesses for the old `i32` arithmetic -/

/-- before 2947525: a 1024 px horizontal line of width 23: `46^2 * 1024^2 > i32::MAX`. -/
theorem Old.thickThreshold_overflows :
    Old.thickThreshold 23 ⟨1024, 0⟩ = none ∧ (Chk.thickThreshold 23 ⟨1024, 0⟩).isSome = true := by
  constructor <;> decide

/-- before 2947525: the squared accumulator of a display-scale diagonal of width 128
(`acc` reaches `2 * 128 * 2897 > 46340`). -/
theorem Old.thickAccSquare_overflows : Old.thickAccSquare 46341 = none := by decide

/-- before 5970db5: the squared denominator of two perpendicular 257 px edges:
`denominator = 257 * 257 = 66049`, `66049^2 > i32::MAX`. -/
theorem Old.denominatorSquare_overflows :
    EG.Isect.denominator ⟨⟨0, 0⟩, ⟨257, 0⟩⟩ ⟨⟨257, 0⟩, ⟨257, 257⟩⟩ = 66049 ∧
    Old.denominatorSquare 66049 = none := by
  constructor <;> decide

/-- before 02cb64a: the numerators of the join of the edges (-1024,-1024)-(1024,-1024) and
(1024,-1024)-(0,1024) of a display-scale triangle. -/
theorem Old.xNumerator_overflows :
    Old.xNumerator (EG.Isect.fromLine ⟨⟨-1024, -1024⟩, ⟨1024, -1024⟩⟩)
      (EG.Isect.fromLine ⟨⟨1024, -1024⟩, ⟨0, 1024⟩⟩) = none := by decide

/-- before 77b3eec: a miter 40000 px away (sharp display-scale corner): `40000^2 > i32::MAX`. -/
theorem Old.miterLengthSquared_overflows :
    Old.miterLengthSquared ⟨40000, 30000⟩ = none ∧
    (Chk.Isect.miterWithinLimit ⟨40000, 30000⟩ 58).isSome = true := by
  constructor <;> decide

end EG.Chk
