/-
  EG.Lemmas.AdaptersCropIndex — element `j * w + i` of the cropped colour stream is element
  `(y0 + j) * W + x0 + i` of the original stream (also for short streams), and the crop area used by
  `Clipped::fill_contiguous` is the translated intersection itself.
-/
import EG.Lemmas.AdaptersCroppedIter
import EG.Lemmas.TargetRectIndex
namespace EG
open Tgt

theorem croppedRows_getElem? (cs : List Color) (W w : Nat) (hw : w ≤ W) :
    ∀ (h a j i : Nat), j < h → i < w →
      ((List.range h).flatMap (fun j => (cs.drop (a + j * W)).take w))[j * w + i]? = cs[a + j * W + i]? := by
  intro h
  induction h with
  | zero => intro a j i hj; omega
  | succ h ih =>
    intro a j i hj hi
    rw [List.range_succ_eq_map, List.flatMap_cons, List.flatMap_map]
    have hrest : (List.range h).flatMap (fun k => (cs.drop (a + k.succ * W)).take w)
        = (List.range h).flatMap (fun j => (cs.drop ((a + W) + j * W)).take w) := by
      apply flatMap_congr_left
      intro k _
      have : a + k.succ * W = a + W + k * W := by rw [Nat.succ_mul]; omega
      rw [this]
    rw [hrest]
    simp only [Nat.zero_mul, Nat.add_zero]
    by_cases hlen : a + w ≤ cs.length
    · have hl0 : ((cs.drop a).take w).length = w := by
        rw [List.length_take, List.length_drop]; omega
      cases j with
      | zero =>
        rw [List.getElem?_append_left (by omega)]
        simp only [Nat.zero_mul, Nat.zero_add, Nat.add_zero]
        rw [List.getElem?_take, if_pos hi, List.getElem?_drop]
      | succ j =>
        rw [List.getElem?_append_right (by rw [hl0, Nat.succ_mul]; omega)]
        have e1 : (j + 1) * w + i - ((cs.drop a).take w).length = j * w + i := by
          rw [hl0, Nat.succ_mul]; omega
        have e2 : a + (j + 1) * W + i = a + W + j * W + i := by rw [Nat.succ_mul]; omega
        rw [e1, e2]
        exact ih (a + W) j i (by omega) hi
    · have hnil : (List.range h).flatMap (fun j => (cs.drop ((a + W) + j * W)).take w) = [] := by
        apply CropIt.flatMap_eq_nil_of
        intro k _
        rw [List.drop_eq_nil_of_le (by omega)]; simp
      rw [hnil, List.append_nil, List.getElem?_take, List.getElem?_drop]
      cases j with
      | zero =>
        simp only [Nat.zero_mul, Nat.zero_add, Nat.add_zero]
        rw [if_pos hi]
      | succ j =>
        have : ¬ (j + 1) * w + i < w := by rw [Nat.succ_mul]; omega
        rw [if_neg this]
        symm
        rw [List.getElem?_eq_none_iff, Nat.succ_mul]
        omega

/-- Indexing the closed form of the cropped stream. -/
theorem croppedSpec_getElem? (cs : List Color) (size : Sz) (cropArea : Rect)
    (hw : (CropIt.cropOf size cropArea).size.w ≤ size.w) (j i : Nat)
    (hj : j < (CropIt.cropOf size cropArea).size.h) (hi : i < (CropIt.cropOf size cropArea).size.w) :
    (croppedSpec cs size cropArea)[j * (CropIt.cropOf size cropArea).size.w + i]? =
      cs[((CropIt.cropOf size cropArea).tl.y.toNat + j) * size.w
          + ((CropIt.cropOf size cropArea).tl.x.toNat + i)]? := by
  unfold croppedSpec
  simp only
  generalize CropIt.cropOf size cropArea = crop at *
  have hrows : (List.range crop.size.h).flatMap
        (fun j => (cs.drop ((crop.tl.y.toNat + j) * size.w + crop.tl.x.toNat)).take crop.size.w)
      = (List.range crop.size.h).flatMap
        (fun j => (cs.drop ((crop.tl.y.toNat * size.w + crop.tl.x.toNat) + j * size.w)).take crop.size.w) := by
    apply flatMap_congr_left
    intro k _
    have : (crop.tl.y.toNat + k) * size.w + crop.tl.x.toNat
        = crop.tl.y.toNat * size.w + crop.tl.x.toNat + k * size.w := by rw [Nat.add_mul]; omega
    rw [this]
  rw [hrows, croppedRows_getElem? cs size.w crop.size.w hw crop.size.h _ j i hj hi]
  congr 1
  rw [Nat.add_mul]; omega

namespace Rect

/-- Intersecting with a non-empty rectangle that lies inside gives that rectangle. -/
theorem intersection_eq_of_subset (A C : Rect) (hw : 0 < C.size.w) (hh : 0 < C.size.h)
    (hx0 : A.tl.x ≤ C.tl.x) (hx1 : C.tl.x + C.size.w ≤ A.tl.x + A.size.w)
    (hy0 : A.tl.y ≤ C.tl.y) (hy1 : C.tl.y + C.size.h ≤ A.tl.y + A.size.h) :
    A.intersection C = C := by
  rw [intersection_eq_of_common A C C.tl (by rw [contains_iff, contains_iff]; omega)]
  cases C with
  | mk tl size =>
    cases tl; cases size
    simp only [Rect.mk.injEq, Pt.mk.injEq, Sz.mk.injEq] at *
    omega

/-- A non-empty intersection is the common rectangle (closed form on its fields). -/
theorem intersection_fields (a b : Rect) (hw : 0 < (a.intersection b).size.w)
    (hh : 0 < (a.intersection b).size.h) :
    (a.intersection b).tl.x = max a.tl.x b.tl.x ∧ (a.intersection b).tl.y = max a.tl.y b.tl.y ∧
    ((a.intersection b).size.w : Int) = min (a.tl.x + a.size.w) (b.tl.x + b.size.w) - max a.tl.x b.tl.x ∧
    ((a.intersection b).size.h : Int) = min (a.tl.y + a.size.h) (b.tl.y + b.size.h) - max a.tl.y b.tl.y ∧
    max a.tl.x b.tl.x < min (a.tl.x + a.size.w) (b.tl.x + b.size.w) ∧
    max a.tl.y b.tl.y < min (a.tl.y + a.size.h) (b.tl.y + b.size.h) := by
  have hc : (a.intersection b).contains (a.intersection b).tl = true := by
    rw [contains_iff]; omega
  have hab := (mem_intersection a b _).mp hc
  have hcl := intersection_eq_of_common a b _ hab
  have h1 := hab.1; have h2 := hab.2
  rw [contains_iff] at h1 h2
  have e1 : (a.intersection b).tl.x = max a.tl.x b.tl.x := by rw [hcl]
  have e2 : (a.intersection b).tl.y = max a.tl.y b.tl.y := by rw [hcl]
  have e3 : (a.intersection b).size.w
      = (min (a.tl.x + a.size.w) (b.tl.x + b.size.w) - max a.tl.x b.tl.x).toNat := by rw [hcl]
  have e4 : (a.intersection b).size.h
      = (min (a.tl.y + a.size.h) (b.tl.y + b.size.h) - max a.tl.y b.tl.y).toNat := by rw [hcl]
  omega

end Rect
end EG
