/-
  EG.Lemmas.JoinsDisplayScale — the guard `IntersectionParams.PointOK` (the rounded intersection
  point of two edge lines is either discarded by `nearly_colinear_has_error` or its `i32` casts do
  not saturate, before and after a move by `d`) holds for all edge lines at display scale.

  Why this is not a plain range argument: two display-scale lines that are nearly parallel meet
  far away (numerators up to 2^37 over a denominator that may be 1), so `NoSat` alone is not a
  consequence of the C08 bounds (`J.line`: the checked kernel's cast SATURATES there, it does not
  panic). What saves the join code is `nearly_colinear_has_error`: the point is used only if
  `den^2 >= |dot(d1, d2)|`, and with Lagrange's identity `|d1|^2 |d2|^2 = dot^2 + den^2` this
  forces `|d1|^2 |d2|^2 <= den^4 + den^2`; the exact point is
  `A1 + d1 * det(A2 - A1, d2) / den`, whose distance from `A1` is then at most 2^27 (+1 for the
  rounding) for start points and deltas within +-4096.
-/
import EG.Lemmas.JoinsTranslate
import Mathlib.Tactic.Linarith
import Mathlib.Tactic.Ring
namespace EG
namespace Joins

/-! ### Integer core -/

theorem sq_le_of_abs {a B : Int} (h : -B ≤ a ∧ a ≤ B) : a * a ≤ B * B := by
  nlinarith [h.1, h.2]

/-- `X <= u^2 + u`, `u >= 1`, `X <= 2^50` imply `X <= 2^27 u`. -/
theorem x_le_of_lagrange {X u : Int} (h1 : X ≤ u * u + u) (hu : 1 ≤ u) (hX : X ≤ 1125899906842624) :
    X ≤ 134217728 * u := by
  by_contra hcon
  have hgt : 134217728 * u < X := by omega
  have hu2 : 33554432 ≤ u := by
    -- u^2 + u >= X > 2^27 u  =>  u + 1 > 2^27
    by_contra h
    have : u < 33554432 := by omega
    nlinarith
  -- then X > 2^27 * 2^25 = 2^52 > 2^50
  omega

theorem dt_sq_le {dt u : Int} (h1 : dt ≤ u) (h2 : -dt ≤ u) : dt * dt ≤ u * u := by
  have a : 0 ≤ u - dt := by omega
  have b : 0 ≤ u + dt := by omega
  nlinarith [mul_nonneg a b]

theorem cauchy (x y r s : Int) : (x * s - y * r) * (x * s - y * r) ≤ (x * x + y * y) * (r * r + s * s) := by
  nlinarith [mul_self_nonneg (x * r + y * s)]

theorem lagrange (p q r s : Int) :
    (p * p + q * q) * (r * r + s * s) = (p * r + q * s) * (p * r + q * s) + (p * s - q * r) * (p * s - q * r) := by ring

theorem one_le_mul_self {a : Int} (h : a ≠ 0) : 1 ≤ a * a := by
  rcases Int.lt_or_gt_of_ne h with h | h <;> nlinarith

theorem core_sq_bound {p q r s x y c : Int}
    (hp : -4096 ≤ p ∧ p ≤ 4096) (hq : -4096 ≤ q ∧ q ≤ 4096)
    (hr : -4096 ≤ r ∧ r ≤ 4096) (hs : -4096 ≤ s ∧ s ≤ 4096)
    (hx : -8192 ≤ x ∧ x ≤ 8192) (hy : -8192 ≤ y ∧ y ≤ 8192)
    (hc : c * c ≤ p * p + q * q)
    (hden : p * s - q * r ≠ 0)
    (hu1 : p * r + q * s ≤ (p * s - q * r) * (p * s - q * r))
    (hu2 : -(p * r + q * s) ≤ (p * s - q * r) * (p * s - q * r)) :
    (c * (x * s - y * r)) * (c * (x * s - y * r)) ≤
      18014398509481984 * ((p * s - q * r) * (p * s - q * r)) := by
  have hpp := sq_le_of_abs hp; have hqq := sq_le_of_abs hq
  have hrr := sq_le_of_abs hr; have hss := sq_le_of_abs hs
  have hxx := sq_le_of_abs hx; have hyy := sq_le_of_abs hy
  have hp0 := mul_self_nonneg p; have hq0 := mul_self_nonneg q
  have hr0 := mul_self_nonneg r; have hs0 := mul_self_nonneg s
  have hP0 : 0 ≤ p * p + q * q := by omega
  have hR0 : 0 ≤ r * r + s * s := by omega
  have hPle : p * p + q * q ≤ 33554432 := by omega
  have hRle : r * r + s * s ≤ 33554432 := by omega
  have hM : x * x + y * y ≤ 134217728 := by omega
  have hE0 : 0 ≤ (x * s - y * r) * (x * s - y * r) := mul_self_nonneg _
  have hc0 : 0 ≤ c * c := mul_self_nonneg c
  -- X = |d1|^2 |d2|^2 <= 2^50
  have hXle : (p * p + q * q) * (r * r + s * s) ≤ 1125899906842624 :=
    le_trans (mul_le_mul hPle hRle hR0 (by omega)) (by norm_num)
  -- E^2 <= 2^27 (r^2 + s^2)
  have hE2 : (x * s - y * r) * (x * s - y * r) ≤ 134217728 * (r * r + s * s) :=
    le_trans (cauchy x y r s) (mul_le_mul_of_nonneg_right hM hR0)
  -- (cE)^2 <= 2^27 X
  have hN : (c * (x * s - y * r)) * (c * (x * s - y * r)) ≤
      134217728 * ((p * p + q * q) * (r * r + s * s)) := by
    have e : (c * (x * s - y * r)) * (c * (x * s - y * r)) = (c * c) * ((x * s - y * r) * (x * s - y * r)) := by ring
    have e2 : 134217728 * ((p * p + q * q) * (r * r + s * s)) = (p * p + q * q) * (134217728 * (r * r + s * s)) := by ring
    rw [e, e2]
    exact le_trans (mul_le_mul_of_nonneg_right hc hE0) (mul_le_mul_of_nonneg_left hE2 hP0)
  -- X <= u^2 + u
  have hu : 1 ≤ (p * s - q * r) * (p * s - q * r) := one_le_mul_self hden
  have hX2 : (p * p + q * q) * (r * r + s * s) ≤
      ((p * s - q * r) * (p * s - q * r)) * ((p * s - q * r) * (p * s - q * r)) + (p * s - q * r) * (p * s - q * r) := by
    rw [lagrange]
    have := dt_sq_le hu1 hu2
    omega
  have key := x_le_of_lagrange hX2 hu hXle
  omega

/-! ### `round_div` and the numerators relative to the first start point -/

theorem le_of_sq_le {N a K : Int} (ha : 0 ≤ a) (hK : 0 ≤ K) (h : N * N ≤ (K * K) * (a * a)) :
    -(K * a) ≤ N ∧ N ≤ K * a := by
  have hKa : 0 ≤ K * a := mul_nonneg hK ha
  constructor
  · by_contra hc
    have : N < -(K * a) := by omega
    nlinarith
  · by_contra hc
    have : K * a < N := by omega
    nlinarith

theorem iabs_mul_self (d : Int) : iabs d * iabs d = d * d := by
  unfold iabs; split <;> ring

theorem iabs_pos {d : Int} (h : d ≠ 0) : 0 < iabs d := by
  unfold iabs; split <;> omega

/-- `|n| <= K |d|` implies `|round_div(n, d)| <= K` (before the cast). -/
theorem roundDivRaw_bound {n d K : Int} (hd : d ≠ 0) (h1 : -(K * iabs d) ≤ n) (h2 : n ≤ K * iabs d) :
    -K ≤ roundDivRaw n d ∧ roundDivRaw n d ≤ K := by
  unfold roundDivRaw
  have ha := iabs_pos hd
  generalize iabs d = a at *
  have hs : isignum d = 1 ∨ isignum d = -1 := by
    unfold isignum; split
    · right; rfl
    · left; rfl
  have h2a : 0 < 2 * a := by omega
  rcases hs with hs | hs <;> rw [hs]
  · constructor
    · apply Int.le_ediv_of_mul_le h2a
      have : -K * (2 * a) = 2 * (-(K * a)) := by ring
      omega
    · have : (2 * n * 1 + a) / (2 * a) < K + 1 := by
        apply Int.ediv_lt_of_lt_mul h2a
        have : (K + 1) * (2 * a) = 2 * (K * a) + 2 * a := by ring
        omega
      omega
  · constructor
    · apply Int.le_ediv_of_mul_le h2a
      have : -K * (2 * a) = 2 * (-(K * a)) := by ring
      omega
    · have : (2 * n * -1 + a) / (2 * a) < K + 1 := by
        apply Int.ediv_lt_of_lt_mul h2a
        have : (K + 1) * (2 * a) = 2 * (K * a) + 2 * a := by ring
        omega
      omega

/-- The x numerator relative to the first line's start point. -/
theorem xNumerator_rel (l1 l2 : Line) :
    (IntersectionParams.fromLines l1 l2).xNumerator =
      l1.start.x * (IntersectionParams.fromLines l1 l2).denominator +
        l1.delta.x * ((l2.start.x - l1.start.x) * l2.delta.y - (l2.start.y - l1.start.y) * l2.delta.x) := by
  unfold IntersectionParams.xNumerator IntersectionParams.fromLines LinearEquation.fromLine
  simp only [det, dot, rotate90]
  ring

theorem yNumerator_rel (l1 l2 : Line) :
    (IntersectionParams.fromLines l1 l2).yNumerator =
      l1.start.y * (IntersectionParams.fromLines l1 l2).denominator +
        l1.delta.y * ((l2.start.x - l1.start.x) * l2.delta.y - (l2.start.y - l1.start.y) * l2.delta.x) := by
  unfold IntersectionParams.yNumerator IntersectionParams.fromLines LinearEquation.fromLine
  simp only [det, dot, rotate90]
  ring

theorem denominator_eq_det (l1 l2 : Line) :
    (IntersectionParams.fromLines l1 l2).denominator = l1.delta.x * l2.delta.y - l1.delta.y * l2.delta.x := by
  unfold IntersectionParams.fromLines LinearEquation.fromLine
  simp only [det, rotate90]
  ring


/-! ### The display-scale bound -/

theorem roundDivRaw_zero (n : Int) : roundDivRaw n 0 = 0 := by
  unfold roundDivRaw isignum iabs; simp

/-- Display-scale domain of an edge line handed to `IntersectionParams`: start point and delta
within +-4096 (vertices within +-1024, stroke widths up to 128: the edge lines of `Line::extents`
start within the stroke width of a vertex and have the segment's delta, possibly reduced by one
unit step). -/
def EdgeDS (l : Line) : Prop :=
  ((-4096 ≤ l.start.x ∧ l.start.x ≤ 4096) ∧ (-4096 ≤ l.start.y ∧ l.start.y ≤ 4096)) ∧
  ((-4096 ≤ l.delta.x ∧ l.delta.x ≤ 4096) ∧ (-4096 ≤ l.delta.y ∧ l.delta.y ≤ 4096))
instance (l : Line) : Decidable (EdgeDS l) := by unfold EdgeDS; exact inferInstance

/-- One coordinate: `A + round_div(c * E, den)` with `c^2 <= |d1|^2`. -/
theorem coord_bound {l1 l2 : Line} (h1 : EdgeDS l1) (h2 : EdgeDS l2)
    (hden : (IntersectionParams.fromLines l1 l2).denominator ≠ 0)
    (hnc : (IntersectionParams.fromLines l1 l2).nearlyColinearHasError = false)
    {c : Int} (hc : c * c ≤ l1.delta.x * l1.delta.x + l1.delta.y * l1.delta.y) :
    -134217728 ≤ roundDivRaw (c * ((l2.start.x - l1.start.x) * l2.delta.y - (l2.start.y - l1.start.y) * l2.delta.x))
        (IntersectionParams.fromLines l1 l2).denominator ∧
    roundDivRaw (c * ((l2.start.x - l1.start.x) * l2.delta.y - (l2.start.y - l1.start.y) * l2.delta.x))
        (IntersectionParams.fromLines l1 l2).denominator ≤ 134217728 := by
  obtain ⟨⟨hsx1, hsy1⟩, ⟨hdx1, hdy1⟩⟩ := h1
  obtain ⟨⟨hsx2, hsy2⟩, ⟨hdx2, hdy2⟩⟩ := h2
  have hdot : iabs (dot l1.delta l2.delta) ≤
      (IntersectionParams.fromLines l1 l2).denominator * (IntersectionParams.fromLines l1 l2).denominator := by
    unfold IntersectionParams.nearlyColinearHasError at hnc
    have := of_decide_eq_false hnc
    have e1 : (IntersectionParams.fromLines l1 l2).line1 = l1 := rfl
    have e2 : (IntersectionParams.fromLines l1 l2).line2 = l2 := rfl
    rw [e1, e2] at this
    omega
  rw [denominator_eq_det] at hden hdot ⊢
  have hu1 : l1.delta.x * l2.delta.x + l1.delta.y * l2.delta.y ≤
      (l1.delta.x * l2.delta.y - l1.delta.y * l2.delta.x) * (l1.delta.x * l2.delta.y - l1.delta.y * l2.delta.x) := by
    unfold iabs dot at hdot; split at hdot <;> omega
  have hu2 : -(l1.delta.x * l2.delta.x + l1.delta.y * l2.delta.y) ≤
      (l1.delta.x * l2.delta.y - l1.delta.y * l2.delta.x) * (l1.delta.x * l2.delta.y - l1.delta.y * l2.delta.x) := by
    unfold iabs dot at hdot; split at hdot <;> omega
  have hx : -8192 ≤ l2.start.x - l1.start.x ∧ l2.start.x - l1.start.x ≤ 8192 := by omega
  have hy : -8192 ≤ l2.start.y - l1.start.y ∧ l2.start.y - l1.start.y ≤ 8192 := by omega
  have hsq := core_sq_bound hdx1 hdy1 hdx2 hdy2 hx hy hc hden hu1 hu2
  rw [← iabs_mul_self (l1.delta.x * l2.delta.y - l1.delta.y * l2.delta.x)] at hsq
  have h54 : (134217728 : Int) * 134217728 = 18014398509481984 := by norm_num
  rw [← h54] at hsq
  have hb := le_of_sq_le (Int.le_of_lt (iabs_pos hden)) (by omega) hsq
  exact roundDivRaw_bound hden hb.1 hb.2


/-- **The exact rounded intersection point of two display-scale edge lines whose point is USED
(`nearly_colinear_has_error = false`) lies within 2^27 + 1 of the first line's start point.** -/
theorem rawPoint_near_start {l1 l2 : Line} (h1 : EdgeDS l1) (h2 : EdgeDS l2)
    (hnc : (IntersectionParams.fromLines l1 l2).nearlyColinearHasError = false) :
    (-134217728 ≤ (IntersectionParams.fromLines l1 l2).rawPoint.x - l1.start.x ∧
      (IntersectionParams.fromLines l1 l2).rawPoint.x - l1.start.x ≤ 134217728) ∧
    (-134217728 ≤ (IntersectionParams.fromLines l1 l2).rawPoint.y - l1.start.y ∧
      (IntersectionParams.fromLines l1 l2).rawPoint.y - l1.start.y ≤ 134217728) := by
  unfold IntersectionParams.rawPoint
  by_cases hden : (IntersectionParams.fromLines l1 l2).denominator = 0
  · -- both deltas degenerate (den = 0 and dot = 0): Lean's `x / 0 = 0`; Rust never gets here
    -- (`intersection()` returns `Colinear` first)
    obtain ⟨⟨hsx1, hsy1⟩, _⟩ := h1
    rw [hden, roundDivRaw_zero, roundDivRaw_zero]
    dsimp only
    omega
  · have hx := coord_bound h1 h2 hden hnc (c := l1.delta.x)
      (by nlinarith [mul_self_nonneg l1.delta.y])
    have hy := coord_bound h1 h2 hden hnc (c := l1.delta.y)
      (by nlinarith [mul_self_nonneg l1.delta.x])
    rw [xNumerator_rel, yNumerator_rel]
    have ex : ∀ a n : Int, a * (IntersectionParams.fromLines l1 l2).denominator + n =
        n + a * (IntersectionParams.fromLines l1 l2).denominator := fun a n => by ring
    rw [ex, ex, roundDivRaw_translate _ _ _ hden, roundDivRaw_translate _ _ _ hden]
    dsimp only
    omega

/-- **`PointOK` at display scale**: for edge lines with start points and deltas within +-4096 and
every move `d` within +-2^30, the rounded intersection point is discarded or no cast saturates. -/
theorem pointOK_display_scale {l1 l2 : Line} (h1 : EdgeDS l1) (h2 : EdgeDS l2) {d : Pt}
    (hd : (-1073741824 ≤ d.x ∧ d.x ≤ 1073741824) ∧ (-1073741824 ≤ d.y ∧ d.y ≤ 1073741824)) :
    (IntersectionParams.fromLines l1 l2).PointOK d := by
  unfold IntersectionParams.PointOK
  cases hnc : (IntersectionParams.fromLines l1 l2).nearlyColinearHasError with
  | true => exact Or.inl rfl
  | false =>
    right
    obtain ⟨⟨hx1, hx2⟩, ⟨hy1, hy2⟩⟩ := rawPoint_near_start h1 h2 hnc
    obtain ⟨⟨hsx1, hsy1⟩, _⟩ := h1
    obtain ⟨⟨_, _⟩, ⟨_, _⟩⟩ := hd
    unfold IntersectionParams.NoSat inI32
    refine ⟨⟨?_, ?_⟩, ⟨?_, ?_⟩, ⟨?_, ?_⟩, ⟨?_, ?_⟩⟩ <;> omega

end Joins
end EG
