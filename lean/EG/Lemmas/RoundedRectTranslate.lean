/-
  EG.Lemmas.RoundedRectTranslate — the styled rounded rectangle commutes with translation at the
  scanline level: `offset`, the areas, the corner quadrants, `RoundedRectangleContains`
  (`contains`, `x_start`, `x_end`, the scanline of a row), the scanline and styled-scanline
  iterators, hence the call list of `draw()` and the pixel list of `pixels()` — for ALL corner
  radii (no `FillInStroke` / fitting-radii guard: nothing here looks at what the picture is).
  Guards: `RoundedRect.InRange` of the iterated areas before and after the move.
-/
import EG.Lemmas.ScanlineTranslate
import EG.Lemmas.RoundedRectStyled
namespace EG

/-! ### corner quadrants -/

namespace EllipseQuadrant

/-- A corner quadrant moved by `d`. -/
def shift (d : Pt) (q : EllipseQuadrant) : EllipseQuadrant :=
  ⟨q.bbox.translate d, ⟨q.center2x.x + 2 * d.x, q.center2x.y + 2 * d.y⟩, q.ellipse⟩

theorem new_add (tl d : Pt) (radius : Sz) (k : Quadrant) :
    new (tl + d) radius k = (new tl radius k).shift d := by
  unfold new shift ellipseCenter2x
  cases k <;>
    simp only [Rect.translate, EllipseQuadrant.mk.injEq, Pt.ext_iff', Pt.add_x, Pt.add_y, true_and,
      and_true, and_self] <;> (refine ⟨?_, ?_⟩ <;> omega)

theorem shift_contains (d : Pt) (q : EllipseQuadrant) (x y : Int) :
    (q.shift d).contains ⟨x + d.x, y + d.y⟩ = q.contains ⟨x, y⟩ := by
  unfold contains shift
  have e : ((⟨(x + d.x) * 2 - (q.center2x.x + 2 * d.x), (y + d.y) * 2 - (q.center2x.y + 2 * d.y)⟩ : Pt)) =
      (⟨x * 2 - q.center2x.x, y * 2 - q.center2x.y⟩ : Pt) := by
    rw [Pt.ext_iff']; constructor <;> (dsimp only; omega)
  dsimp only
  rw [e]

theorem shift_colsStart (d : Pt) (q : EllipseQuadrant) : (q.shift d).colsStart = q.colsStart + d.x := rfl

theorem shift_colsEnd (d : Pt) (q : EllipseQuadrant) (h : q.bbox.InRange)
    (h' : (q.bbox.translate d).InRange) : (q.shift d).colsEnd = q.colsEnd + d.x := by
  unfold colsEnd shift
  dsimp only
  rw [Rect.columnsEnd_eq h', Rect.columnsEnd_eq h]
  simp only [Rect.translate_tl, Rect.translate_size, Pt.add_x]
  omega

end EllipseQuadrant

/-! ### `RoundedRectangleContains` -/

namespace RRContains

/-- The state moved by `d`. -/
def shift (d : Pt) (c : RRContains) : RRContains :=
  { rowsStart := c.rowsStart + d.y, rowsEnd := c.rowsEnd + d.y,
    colsStart := c.colsStart + d.x, colsEnd := c.colsEnd + d.x,
    slStart := c.slStart + d.y, slEnd := c.slEnd + d.y,
    srStart := c.srStart + d.y, srEnd := c.srEnd + d.y,
    topLeft := c.topLeft.shift d, topRight := c.topRight.shift d,
    bottomLeft := c.bottomLeft.shift d, bottomRight := c.bottomRight.shift d }

/-- The column ends of the four corner boxes move with the boxes (no `i32` saturation). -/
structure ColsOK (d : Pt) (c : RRContains) : Prop where
  tl : (c.topLeft.shift d).colsEnd = c.topLeft.colsEnd + d.x
  tr : (c.topRight.shift d).colsEnd = c.topRight.colsEnd + d.x
  bl : (c.bottomLeft.shift d).colsEnd = c.bottomLeft.colsEnd + d.x
  br : (c.bottomRight.shift d).colsEnd = c.bottomRight.colsEnd + d.x

theorem leftCorner_shift (d : Pt) (c : RRContains) (y : Int) :
    (c.shift d).leftCorner (y + d.y) = (c.leftCorner y).map (EllipseQuadrant.shift d) := by
  unfold leftCorner shift
  dsimp only
  by_cases h1 : y < c.slStart
  · have h1' : y + d.y < c.slStart + d.y := by omega
    simp only [h1, h1', ↓reduceIte, Option.map_some]
  · have h1' : ¬ y + d.y < c.slStart + d.y := by omega
    by_cases h2 : y ≥ c.slEnd
    · have h2' : y + d.y ≥ c.slEnd + d.y := by omega
      simp only [h1, h1', h2, h2', ↓reduceIte, Option.map_some]
    · have h2' : ¬ y + d.y ≥ c.slEnd + d.y := by omega
      simp only [h1, h1', h2, h2', ↓reduceIte, Option.map_none]

theorem rightCorner_shift (d : Pt) (c : RRContains) (y : Int) :
    (c.shift d).rightCorner (y + d.y) = (c.rightCorner y).map (EllipseQuadrant.shift d) := by
  unfold rightCorner shift
  dsimp only
  by_cases h1 : y < c.srStart
  · have h1' : y + d.y < c.srStart + d.y := by omega
    simp only [h1, h1', ↓reduceIte, Option.map_some]
  · have h1' : ¬ y + d.y < c.srStart + d.y := by omega
    by_cases h2 : y ≥ c.srEnd
    · have h2' : y + d.y ≥ c.srEnd + d.y := by omega
      simp only [h1, h1', h2, h2', ↓reduceIte, Option.map_some]
    · have h2' : ¬ y + d.y ≥ c.srEnd + d.y := by omega
      simp only [h1, h1', h2, h2', ↓reduceIte, Option.map_none]

theorem colsEnd_of_left {d : Pt} {c : RRContains} (ok : ColsOK d c) {y : Int} {q : EllipseQuadrant}
    (h : c.leftCorner y = some q) : (q.shift d).colsEnd = q.colsEnd + d.x := by
  unfold leftCorner at h
  split at h
  · cases h; exact ok.tl
  · split at h
    · cases h; exact ok.bl
    · cases h

theorem colsEnd_of_right {d : Pt} {c : RRContains} (ok : ColsOK d c) {y : Int} {q : EllipseQuadrant}
    (h : c.rightCorner y = some q) : (q.shift d).colsEnd = q.colsEnd + d.x := by
  unfold rightCorner at h
  split at h
  · cases h; exact ok.tr
  · split at h
    · cases h; exact ok.br
    · cases h

theorem xStart_shift {d : Pt} {c : RRContains} (ok : ColsOK d c) (y : Int) :
    (c.shift d).xStart (y + d.y) = c.xStart y + d.x := by
  unfold xStart
  rw [leftCorner_shift]
  cases hl : c.leftCorner y with
  | none => rfl
  | some q =>
    simp only [Option.map_some, Option.getD_some]
    rw [colsEnd_of_left ok hl, EllipseQuadrant.shift_colsStart,
      rangeFind_shift d.x (p := fun x => q.contains ⟨x, y⟩)
        (fun x => EllipseQuadrant.shift_contains d q x y)]
    cases rangeFind (fun x => q.contains ⟨x, y⟩) q.colsStart q.colsEnd <;> rfl

theorem xEnd_shift {d : Pt} {c : RRContains} (ok : ColsOK d c) (y : Int) :
    (c.shift d).xEnd (y + d.y) = c.xEnd y + d.x := by
  unfold xEnd
  rw [rightCorner_shift]
  cases hl : c.rightCorner y with
  | none => rfl
  | some q =>
    simp only [Option.map_some, Option.getD_some]
    rw [colsEnd_of_right ok hl, EllipseQuadrant.shift_colsStart,
      rangeRFind_shift d.x (p := fun x => q.contains ⟨x, y⟩)
        (fun x => EllipseQuadrant.shift_contains d q x y)]
    cases rangeRFind (fun x => q.contains ⟨x, y⟩) q.colsStart q.colsEnd with
    | none => rfl
    | some x =>
      simp only [Option.map_some, Option.getD_some]
      omega

/-- **The scanline of a row of the moved state is the moved scanline.** -/
theorem row_shift {d : Pt} {c : RRContains} (ok : ColsOK d c) (y : Int) :
    (c.shift d).row (y + d.y) = (c.row y).shift d := by
  unfold row Scanline.shift
  rw [xStart_shift ok, xEnd_shift ok]

theorem toList_shift {d : Pt} {c : RRContains} (ok : ColsOK d c) :
    (c.shift d).toList = c.toList.map (Scanline.shift d) := by
  rw [toList_eq, toList_eq]
  have e1 : (c.shift d).rowsStart = c.rowsStart + d.y := rfl
  have e2 : (c.shift d).rowsEnd = c.rowsEnd + d.y := rfl
  rw [e1, e2, irange_shift, List.map_map, List.map_map]
  apply List.map_congr_left
  intro y _
  exact row_shift ok y

/-- **`contains` of the moved state at the moved point.** -/
theorem contains_shift {d : Pt} {c : RRContains} (ok : ColsOK d c) (x y : Int) :
    (c.shift d).contains ⟨x + d.x, y + d.y⟩ = c.contains ⟨x, y⟩ := by
  rw [Bool.eq_iff_iff, contains_iff, contains_iff]
  dsimp only
  rw [leftCorner_shift, rightCorner_shift]
  have e1 : (c.shift d).rowsStart = c.rowsStart + d.y := rfl
  have e2 : (c.shift d).rowsEnd = c.rowsEnd + d.y := rfl
  have e3 : (c.shift d).colsStart = c.colsStart + d.x := rfl
  have e4 : (c.shift d).colsEnd = c.colsEnd + d.x := rfl
  rw [e1, e2, e3, e4]
  apply and_congr (by omega)
  apply and_congr (by omega)
  apply and_congr
  · cases hl : c.leftCorner y with
    | none => simp
    | some q =>
      have hce := colsEnd_of_left ok hl
      simp only [Option.map_some, Option.some.injEq, forall_eq']
      rw [hce, EllipseQuadrant.shift_contains]
      constructor
      · intro h hx; exact h (by omega)
      · intro h hx; exact h (by omega)
  · cases hl : c.rightCorner y with
    | none => simp
    | some q =>
      simp only [Option.map_some, Option.some.injEq, forall_eq']
      rw [EllipseQuadrant.shift_colsStart, EllipseQuadrant.shift_contains]
      constructor
      · intro h hx; exact h (by omega)
      · intro h hx; exact h (by omega)

end RRContains

/-! ### the rounded rectangle -/

namespace RoundedRect

theorem translate_rect (r : RoundedRect) (d : Pt) : (r.translate d).rect = r.rect.translate d := rfl
theorem translate_corners (r : RoundedRect) (d : Pt) : (r.translate d).corners = r.corners := rfl
theorem translate_boundingBox (r : RoundedRect) (d : Pt) :
    (r.translate d).boundingBox = r.boundingBox.translate d := rfl

/-- `offset` commutes with translation, for every offset. -/
theorem translate_offset (r : RoundedRect) (d : Pt) (o : Int) :
    (r.translate d).offset o = (r.offset o).translate d := by
  unfold offset translate
  simp only [Rect.offset_translate]

theorem translate_strokeArea (st : Style) (r : RoundedRect) (d : Pt) :
    (r.translate d).strokeArea st = (r.strokeArea st).translate d := translate_offset r d _

theorem translate_fillArea (st : Style) (r : RoundedRect) (d : Pt) :
    (r.translate d).fillArea st = (r.fillArea st).translate d := translate_offset r d _

theorem translate_styledBoundingBox (st : Style) (r : RoundedRect) (d : Pt) :
    (r.translate d).styledBoundingBox st = (r.styledBoundingBox st).translate d := by
  unfold styledBoundingBox
  rw [translate_boundingBox, Rect.offset_translate]

/-- The corner quadrants of the moved rounded rectangle are the moved quadrants. -/
theorem translate_cornerQuadrant (r : RoundedRect) (d : Pt) (k : Quadrant) :
    (r.translate d).cornerQuadrant k = (r.cornerQuadrant k).shift d := by
  cases k
  · rw [cq_tl, cq_tl, ← EllipseQuadrant.new_add]; rfl
  · rw [cq_tr, cq_tr, ← EllipseQuadrant.new_add]
    simp only [translate_rect, translate_corners, Rect.translate_tl, Rect.translate_size, Pt.add_x,
      Pt.add_y]
    congr 1
    rw [Pt.ext_iff']; simp only [Pt.add_x, Pt.add_y, and_true, true_and]; first | omega | (constructor <;> omega)
  · rw [cq_br, cq_br, ← EllipseQuadrant.new_add]
    simp only [translate_rect, translate_corners, Rect.translate_tl, Rect.translate_size, Pt.add_x,
      Pt.add_y]
    congr 1
    rw [Pt.ext_iff']; simp only [Pt.add_x, Pt.add_y, and_true, true_and]; first | omega | (constructor <;> omega)
  · rw [cq_bl, cq_bl, ← EllipseQuadrant.new_add]
    simp only [translate_rect, translate_corners, Rect.translate_tl, Rect.translate_size, Pt.add_x,
      Pt.add_y]
    congr 1
    rw [Pt.ext_iff']; simp only [Pt.add_x, Pt.add_y, and_true, true_and]; first | omega | (constructor <;> omega)

/-- Every corner box of a rounded rectangle in the `i32` range is in the `i32` range. -/
theorem cornerQuadrant_bbox_inRange (r : RoundedRect) (h : r.InRange) (k : Quadrant) :
    (r.cornerQuadrant k).bbox.InRange := by
  obtain ⟨c1, c2, c3, c4, c5, c6, c7, c8⟩ := CornerRadii.confine_radius_le r.corners r.rect.size
  unfold InRange Rect.InRange inI32 at h
  obtain ⟨⟨x1, x2⟩, ⟨y1, y2⟩, hw, hh, hxw, hyh⟩ := h
  cases k
  · rw [cq_tl, EllipseQuadrant.new_bbox]; unfold Rect.InRange inI32; dsimp only; omega
  · rw [cq_tr, EllipseQuadrant.new_bbox]; unfold Rect.InRange inI32; dsimp only; omega
  · rw [cq_br, EllipseQuadrant.new_bbox]; unfold Rect.InRange inI32; dsimp only; omega
  · rw [cq_bl, EllipseQuadrant.new_bbox]; unfold Rect.InRange inI32; dsimp only; omega

theorem cornerQuadrant_colsEnd_shift (r : RoundedRect) (d : Pt) (h : r.InRange)
    (h' : (r.translate d).InRange) (k : Quadrant) :
    ((r.cornerQuadrant k).shift d).colsEnd = (r.cornerQuadrant k).colsEnd + d.x := by
  apply EllipseQuadrant.shift_colsEnd d _ (cornerQuadrant_bbox_inRange r h k)
  have := cornerQuadrant_bbox_inRange (r.translate d) h' k
  rw [translate_cornerQuadrant] at this
  exact this

theorem new_colsOK (r : RoundedRect) (d : Pt) (h : r.InRange) (h' : (r.translate d).InRange) :
    RRContains.ColsOK d (RRContains.new r) :=
  ⟨cornerQuadrant_colsEnd_shift r d h h' .topLeft, cornerQuadrant_colsEnd_shift r d h h' .topRight,
    cornerQuadrant_colsEnd_shift r d h h' .bottomLeft, cornerQuadrant_colsEnd_shift r d h h' .bottomRight⟩

/-- **`RoundedRectangleContains::new` of the moved rounded rectangle is the moved state.** -/
theorem new_translate (r : RoundedRect) (d : Pt) (h : r.InRange) (h' : (r.translate d).InRange) :
    RRContains.new (r.translate d) = (RRContains.new r).shift d := by
  have h'' : (r.rect.translate d).InRange := h'
  have hr : (r.rect.translate d).rowsEnd = r.rect.rowsEnd + d.y := by
    rw [Rect.rowsEnd_eq h'', Rect.rowsEnd_eq h]
    simp only [translate_rect, Rect.translate_tl, Rect.translate_size, Pt.add_y]; omega
  have hc : (r.rect.translate d).columnsEnd = r.rect.columnsEnd + d.x := by
    rw [Rect.columnsEnd_eq h'', Rect.columnsEnd_eq h]
    simp only [translate_rect, Rect.translate_tl, Rect.translate_size, Pt.add_x]; omega
  unfold RRContains.new RRContains.shift
  simp only [translate_cornerQuadrant, hr, hc, translate_rect, Rect.translate_tl, Pt.add_x, Pt.add_y,
    RRContains.mk.injEq, and_true, true_and]
  simp only [EllipseQuadrant.shift, Rect.translate_size]
  refine ⟨?_, ?_, ?_, ?_⟩ <;> omega

/-- `contains` of the moved rounded rectangle at the moved point. -/
theorem translate_contains (r : RoundedRect) (d : Pt) (h : r.InRange) (h' : (r.translate d).InRange)
    (p : Pt) : (r.translate d).contains (p + d) = r.contains p := by
  unfold contains
  rw [new_translate r d h h']
  exact RRContains.contains_shift (new_colsOK r d h h') p.x p.y

/-- **The scanlines of the moved rounded rectangle are the moved scanlines.** -/
theorem scanlines_toList_translate (r : RoundedRect) (d : Pt) (h : r.InRange)
    (h' : (r.translate d).InRange) :
    (r.translate d).scanlines.toList = r.scanlines.toList.map (Scanline.shift d) := by
  unfold scanlines
  rw [new_translate r d h h', RRContains.toList_shift (new_colsOK r d h h')]

/-! ### the styled scanline iterator -/

theorem fillRange_shift {d : Pt} (S F : RRContains) (okF : RRContains.ColsOK d F) (s : Scanline) :
    (⟨S.shift d, F.shift d⟩ : StyledScanlinesIt).fillRange (s.shift d) =
      ((⟨S, F⟩ : StyledScanlinesIt).fillRange s).map (fun r => (r.1 + d.x, r.2 + d.x)) := by
  unfold StyledScanlinesIt.fillRange Scanline.shift
  dsimp only
  have e1 : (F.shift d).rowsStart = F.rowsStart + d.y := rfl
  have e2 : (F.shift d).rowsEnd = F.rowsEnd + d.y := rfl
  rw [e1, e2]
  by_cases hy : F.rowsStart ≤ s.y ∧ s.y < F.rowsEnd
  · have hy' : F.rowsStart + d.y ≤ s.y + d.y ∧ s.y + d.y < F.rowsEnd + d.y := by omega
    simp only [hy, hy', and_self, ↓reduceIte]
    rw [rangeFind_shift d.x (p := fun x => F.contains ⟨x, s.y⟩)
        (fun x => RRContains.contains_shift okF x s.y),
      rangeRFind_shift d.x (p := fun x => F.contains ⟨x, s.y⟩)
        (fun x => RRContains.contains_shift okF x s.y)]
    cases rangeFind (fun x => F.contains ⟨x, s.y⟩) s.xs s.xe with
    | none => rfl
    | some a =>
      cases rangeRFind (fun x => F.contains ⟨x, s.y⟩) s.xs s.xe with
      | none => rfl
      | some b =>
        simp only [Option.map_some, Option.some.injEq, Prod.mk.injEq, true_and]
        omega
  · have hy' : ¬ (F.rowsStart + d.y ≤ s.y + d.y ∧ s.y + d.y < F.rowsEnd + d.y) := by omega
    simp only [hy, hy', ↓reduceIte, Option.map_none]

theorem style_shift {d : Pt} (S F : RRContains) (okF : RRContains.ColsOK d F) (s : Scanline) :
    (⟨S.shift d, F.shift d⟩ : StyledScanlinesIt).style (s.shift d) =
      ((⟨S, F⟩ : StyledScanlinesIt).style s).shift d := by
  unfold StyledScanlinesIt.style
  rw [fillRange_shift S F okF, ← StyledScanline.new_shift]
  rfl

/-- **The styled scanlines of the moved areas are the moved styled scanlines.** -/
theorem styledScanlines_toList_translate (S F : RoundedRect) (d : Pt) (hS : S.InRange)
    (hS' : (S.translate d).InRange) (hF : F.InRange) (hF' : (F.translate d).InRange) :
    (styledScanlines (S.translate d) (F.translate d)).toList =
      (styledScanlines S F).toList.map (StyledScanline.shift d) := by
  rw [StyledScanlinesIt.toList_eq, StyledScanlinesIt.toList_eq]
  unfold styledScanlines scanlines
  dsimp only
  rw [new_translate S d hS hS', new_translate F d hF hF']
  have e1 : ((RRContains.new S).shift d).rowsStart = (RRContains.new S).rowsStart + d.y := rfl
  have e2 : ((RRContains.new S).shift d).rowsEnd = (RRContains.new S).rowsEnd + d.y := rfl
  rw [e1, e2, irange_shift, List.map_map, List.map_map]
  apply List.map_congr_left
  intro y _
  simp only [Function.comp]
  rw [RRContains.row_shift (new_colsOK S d hS hS')]
  exact style_shift _ _ (new_colsOK F d hF hF') _

/-! ### `draw()` and `pixels()` -/

/-- **`draw()` of the moved styled rounded rectangle makes the moved calls** — all corner radii. -/
theorem drawStyled_translate (st : Style) (r : RoundedRect) (d : Pt)
    (hS : (r.strokeArea st).InRange) (hF : (r.fillArea st).InRange)
    (hS' : ((r.translate d).strokeArea st).InRange) (hF' : ((r.translate d).fillArea st).InRange) :
    (r.translate d).drawStyled st = (r.drawStyled st).map (Call.translate d) := by
  rw [translate_strokeArea] at hS'
  rw [translate_fillArea] at hF'
  unfold drawStyled
  rw [translate_strokeArea, translate_fillArea]
  cases st.effectiveStrokeColor with
  | none =>
    cases st.fill with
    | none => rfl
    | some fc =>
      simp only
      rw [scanlines_toList_translate _ d hF hF', drawFillLines_shift]
  | some sc =>
    cases st.fill with
    | none =>
      simp only
      rw [styledScanlines_toList_translate _ _ d hS hS' hF hF', drawLines_shift]
    | some fc =>
      simp only
      rw [styledScanlines_toList_translate _ _ d hS hS' hF hF', drawLines_shift]

/-- **`pixels()` of the moved styled rounded rectangle are the moved pixels**, same order. -/
theorem styledPixels_translate (st : Style) (r : RoundedRect) (d : Pt)
    (hS : (r.strokeArea st).InRange) (hF : (r.fillArea st).InRange)
    (hS' : ((r.translate d).strokeArea st).InRange) (hF' : ((r.translate d).fillArea st).InRange) :
    (r.translate d).styledPixels st = Writes.translate d (r.styledPixels st) := by
  rw [translate_strokeArea] at hS'
  rw [translate_fillArea] at hF'
  unfold styledPixels styledPixelsIt
  rw [translate_strokeArea, translate_fillArea,
    styledScanlines_toList_translate _ _ d hS hS' hF hF', StyledPixelsIt.toList_new_shift]

end RoundedRect
end EG
