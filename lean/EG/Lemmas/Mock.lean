/-
  EG.Lemmas.Mock — helper lemmas about the `MockDisplay` model: cells, `get_pixel`, stores,
  `draw_pixel`, histories.
-/
import EG.Model.MockDisplay
import EG.Lemmas.RectPoints
namespace EG
namespace Mock

/-! ### Cells -/

/-- `p` is one of the 64 x 64 cells of the display. -/
def Inside (p : Pt) : Prop := 0 ≤ p.x ∧ p.x < 64 ∧ 0 ≤ p.y ∧ p.y < 64
instance (p : Pt) : Decidable (Inside p) := by unfold Inside; exact inferInstance

/-- Index of the cell of `p` in the pixel array (`x + y * 64`). -/
def idx (p : Pt) : Nat := (p.x + p.y * 64).toNat

/-- Content of array slot `i` (`none` beyond the array). -/
def MD.get (d : MD) (i : Nat) : Option Color := if h : i < 4096 then d.pixels[i] else none

/-- Content of the cell of `p`. -/
def MD.cell (d : MD) (p : Pt) : Option Color := d.get (idx p)

/-- Slot `i` overwritten. -/
def MD.upd (d : MD) (i : Nat) (c : Option Color) : MD :=
  if h : i < 4096 then { d with pixels := d.pixels.set i c h } else d

theorem contains_iff_inside {p : Pt} : displayArea.contains p = true ↔ Inside p := by
  rw [Rect.contains_iff]; unfold displayArea Inside; simp only; omega

theorem idx_lt {p : Pt} (hp : Inside p) : idx p < 4096 := by
  unfold idx; unfold Inside at hp; omega

theorem idx_inj {p q : Pt} (hp : Inside p) (hq : Inside q) (h : idx p = idx q) : p = q := by
  unfold idx at h; unfold Inside at hp hq
  rw [Pt.ext_iff']; omega

theorem idx_eq_iff {p q : Pt} (hp : Inside p) (hq : Inside q) : idx p = idx q ↔ p = q :=
  ⟨idx_inj hp hq, fun h => by rw [h]⟩

theorem get_upd (d : MD) (i j : Nat) (c : Option Color) (hi : i < 4096) :
    (d.upd i c).get j = if j = i then c else d.get j := by
  unfold MD.upd MD.get
  simp only [hi, ↓reduceDIte]
  by_cases hj : j < 4096
  · simp only [hj, ↓reduceDIte, Vector.getElem_set]
    by_cases hij : i = j
    · simp [hij]
    · have : ¬ j = i := fun h => hij h.symm
      simp [hij, this]
  · have : ¬ j = i := by omega
    simp [hj, this]

@[simp] theorem upd_allowOverdraw (d : MD) (i : Nat) (c : Option Color) :
    (d.upd i c).allowOverdraw = d.allowOverdraw := by
  unfold MD.upd; split <;> rfl

@[simp] theorem upd_allowOob (d : MD) (i : Nat) (c : Option Color) :
    (d.upd i c).allowOob = d.allowOob := by
  unfold MD.upd; split <;> rfl

theorem get_new (i : Nat) : MD.new.get i = none := by
  unfold MD.get MD.new
  split
  · simp
  · rfl

theorem cell_new (p : Pt) : MD.new.cell p = none := get_new _

/-- Two displays have the same pixel array iff all slots agree. -/
theorem pixels_ext {a b : MD} (h : ∀ i, i < 4096 → a.get i = b.get i) : a.pixels = b.pixels := by
  apply Vector.ext
  intro i hi
  have := h i hi
  unfold MD.get at this
  simpa [hi] using this

/-- ... iff all 64 x 64 cells agree. -/
theorem pixels_ext_cells {a b : MD} (h : ∀ p, Inside p → a.cell p = b.cell p) : a.pixels = b.pixels := by
  apply pixels_ext
  intro i hi
  have hp : Inside ⟨((i % 64 : Nat) : Int), ((i / 64 : Nat) : Int)⟩ := by unfold Inside; simp only; omega
  have := h _ hp
  unfold MD.cell idx at this
  simp only at this
  have e : (((i % 64 : Nat) : Int) + ((i / 64 : Nat) : Int) * 64).toNat = i := by omega
  rwa [e] at this

/-! ### `get_pixel` -/

theorem asUsize_nonneg {a : Int} (h : 0 ≤ a) : asUsize a = a.toNat := by simp [asUsize, h]

/-- Inside the display `get_pixel` reads the cell of the point. -/
theorem getPixel_inside (d : MD) {p : Pt} (hp : Inside p) : d.getPixel p = some (d.cell p) := by
  have hi := idx_lt hp
  obtain ⟨hx0, hx1, hy0, hy1⟩ := hp
  unfold MD.getPixel
  rw [asUsize_nonneg hy0, asUsize_nonneg hx0]
  have h1 : ckMul p.y.toNat SIZE = some (p.y.toNat * 64) := by
    unfold ckMul SIZE U64; rw [if_pos]; omega
  have h2 : ckAdd p.x.toNat (p.y.toNat * 64) = some (idx p) := by
    unfold ckAdd U64 idx; rw [if_pos (by omega)]; congr 1; omega
  simp only [h1, h2]
  unfold MD.cell MD.get
  simp [hi]

/-- Observation (not part of the property): negative coordinates always panic in a checked
build — the sign-extended operand makes the index arithmetic overflow or leave the array. -/
theorem getPixel_negative (d : MD) {p : Pt} (h : p.x < 0 ∨ p.y < 0)
    (hr : -2147483648 ≤ p.x ∧ p.x ≤ 2147483647 ∧ -2147483648 ≤ p.y ∧ p.y ≤ 2147483647) :
    d.getPixel p = none := by
  by_cases hy : 0 ≤ p.y
  · have hx : p.x < 0 := by omega
    unfold MD.getPixel
    have h1 : ckMul (asUsize p.y) SIZE = some (p.y.toNat * 64) := by
      rw [asUsize_nonneg hy]; unfold ckMul SIZE U64; rw [if_pos]; omega
    rw [h1]; simp only
    have hax : asUsize p.x = 18446744073709551616 - (-p.x).toNat := by
      unfold asUsize U64; rw [if_neg (by omega)]
    rw [hax]
    unfold ckAdd U64
    by_cases hs : 18446744073709551616 - (-p.x).toNat + p.y.toNat * 64 < 18446744073709551616
    · simp only [hs, ↓reduceIte]; rw [dif_neg]; omega
    · simp only [hs, ↓reduceIte]
  · unfold MD.getPixel
    have h1 : ckMul (asUsize p.y) SIZE = none := by
      unfold ckMul asUsize SIZE U64; rw [if_neg hy, if_neg]; omega
    rw [h1]

/-- Observation (not part of the property): for `x ≥ 64` the unchecked index aliases the cell
`(x % 64, y + x / 64)` as long as that is inside the array, and panics beyond it. -/
theorem getPixel_alias (d : MD) {p : Pt} (hx : 0 ≤ p.x) (hy : 0 ≤ p.y)
    (hr : p.x ≤ 2147483647 ∧ p.y ≤ 2147483647) :
    d.getPixel p = if p.x + p.y * 64 < 4096 then some (d.cell ⟨p.x % 64, p.y + p.x / 64⟩) else none := by
  unfold MD.getPixel
  rw [asUsize_nonneg hy, asUsize_nonneg hx]
  have h1 : ckMul p.y.toNat SIZE = some (p.y.toNat * 64) := by
    unfold ckMul SIZE U64; rw [if_pos]; omega
  have h2 : ckAdd p.x.toNat (p.y.toNat * 64) = some (idx p) := by
    unfold ckAdd U64 idx; rw [if_pos (by omega)]; congr 1; omega
  simp only [h1, h2]
  by_cases h : p.x + p.y * 64 < 4096
  · have hi : idx p < 4096 := by unfold idx; omega
    have e : idx (⟨p.x % 64, p.y + p.x / 64⟩ : Pt) = idx p := by unfold idx; simp only; omega
    simp only [h, ↓reduceIte, hi, ↓reduceDIte]
    unfold MD.cell MD.get
    rw [e]; simp [hi]
  · have hi : ¬ idx p < 4096 := by unfold idx; omega
    simp [h, hi]

/-! ### Stores -/

theorem setPixelUnchecked_inside (d : MD) {p : Pt} (hp : Inside p) (c : Option Color) :
    d.setPixelUnchecked p c = some (d.upd (idx p) c) := by
  have hi := idx_lt hp
  unfold Inside at hp
  have e : asUsize (p.x + p.y * 64) = idx p := by rw [asUsize_nonneg (by omega)]; rfl
  unfold MD.setPixelUnchecked
  simp only [e, hi, ↓reduceDIte]
  unfold MD.upd
  simp [hi]

theorem setPixel_spec (d : MD) (p : Pt) (c : Option Color) :
    d.setPixel p c = if Inside p then some (d.upd (idx p) c) else none := by
  unfold MD.setPixel
  by_cases hp : Inside p
  · have h' : p.x ≥ 0 ∧ p.y ≥ 0 ∧ p.x < 64 ∧ p.y < 64 := by unfold Inside at hp; omega
    simp only [h', hp, and_self, ↓reduceIte]
    exact setPixelUnchecked_inside d hp c
  · have h' : ¬ (p.x ≥ 0 ∧ p.y ≥ 0 ∧ p.x < 64 ∧ p.y < 64) := by unfold Inside at hp; omega
    simp only [hp, ↓reduceIte]
    rw [if_neg h']

/-! ### `draw_pixel` -/

/-- `draw_pixel` in closed form, in the order the source tests: bounds first, then overdraw. -/
theorem drawPixel_spec (d : MD) (p : Pt) (c : Color) :
    d.drawPixel p c =
      if ¬ Inside p then (if d.allowOob = false then .panic d else .ok d)
      else if d.allowOverdraw = false ∧ (d.cell p).isSome = true then .panic d
      else .ok (d.upd (idx p) (some c)) := by
  unfold MD.drawPixel
  by_cases hp : Inside p
  · have hc : displayArea.contains p = true := contains_iff_inside.mpr hp
    simp only [hc, Bool.not_true, Bool.false_eq_true, ↓reduceIte, hp, not_true_eq_false,
      getPixel_inside d hp, setPixelUnchecked_inside d hp]
    cases hov : d.allowOverdraw <;> cases hs : (d.cell p).isSome <;> simp
  · have hc : displayArea.contains p = false := by
      cases h : displayArea.contains p
      · rfl
      · exact absurd (contains_iff_inside.mp h) hp
    simp only [hc, Bool.not_false, ↓reduceIte, hp, not_false_eq_true]
    cases d.allowOob <;> simp

/-! ### Last-write-wins specification of a history -/

/-- A write to a cell: `some c` draws, `none` erases (`set_pixel(p, None)`). -/
abbrev CellWrites := List (Pt × Option Color)

/-- The content of `p` after the writes `ws`, starting from `init`: the last write to `p` wins. -/
def lastTo (ws : CellWrites) (p : Pt) (init : Option Color) : Option Color :=
  ws.foldl (fun acc w => if w.1 = p then w.2 else acc) init

theorem lastTo_nil (p : Pt) (init : Option Color) : lastTo [] p init = init := rfl

theorem lastTo_cons (w : Pt × Option Color) (ws : CellWrites) (p : Pt) (init : Option Color) :
    lastTo (w :: ws) p init = lastTo ws p (if w.1 = p then w.2 else init) := rfl

theorem lastTo_append (a b : CellWrites) (p : Pt) (init : Option Color) :
    lastTo (a ++ b) p init = lastTo b p (lastTo a p init) := by
  unfold lastTo; rw [List.foldl_append]

/-- `lastTo` in lookup form: the last entry for `p`, else the old content. -/
theorem lastTo_eq_find (ws : CellWrites) (p : Pt) (init : Option Color) :
    lastTo ws p init = match ws.reverse.find? (fun w => decide (w.1 = p)) with
      | some w => w.2
      | none => init := by
  induction ws generalizing init with
  | nil => rfl
  | cons w ws ih =>
    rw [lastTo_cons, ih, List.reverse_cons, List.find?_append]
    cases h : ws.reverse.find? (fun w => decide (w.1 = p)) with
    | some v => simp
    | none =>
      by_cases hw : w.1 = p <;> simp [hw]

/-- The cell writes of a pixel list (`draw_iter`). -/
def drawWrites (ws : Writes) : CellWrites := ws.map (fun w => (w.1, some w.2))

/-- For drawing-only histories `lastTo` is `lastWrite` of `EG.Model.Target` (the pixel map
semantics shared with the recording targets). -/
theorem lastTo_drawWrites (ws : Writes) (p : Pt) :
    lastTo (drawWrites ws) p none = lastWrite ws p := by
  rw [lastTo_eq_find]
  unfold lastWrite drawWrites
  rw [← List.map_reverse, List.find?_map]
  have : ((fun (w : Pt × Option Color) => decide (w.1 = p)) ∘ fun (w : Pt × Color) => (w.1, some w.2))
      = (fun w : Pt × Color => w.1 == p) := by
    funext w; rfl
  rw [this]
  cases ws.reverse.find? (fun w => w.1 == p) <;> rfl

/-- What an operation writes, as cell writes in program order (flags write nothing). -/
def Op.writes : Op → CellWrites
  | .drawPixel p c => [(p, some c)]
  | .call c => drawWrites (c.lowerDefault displayArea)
  | .setPixel p c => [(p, c)]
  | .setOverdraw _ => []
  | .setOob _ => []

/-! ### One step -/

theorem drawPixel_ok_cell {d d' : MD} {q : Pt} {c : Color} (h : d.drawPixel q c = .ok d')
    {p : Pt} (hp : Inside p) : d'.cell p = if q = p then some c else d.cell p := by
  rw [drawPixel_spec] at h
  by_cases hq : Inside q
  · simp only [hq, not_true_eq_false, ↓reduceIte] at h
    split at h
    · cases h
    · cases h
      unfold MD.cell
      rw [get_upd _ _ _ _ (idx_lt hq)]
      by_cases e : q = p
      · simp [e]
      · have : ¬ idx p = idx q := fun h' => e (idx_inj hq hp h'.symm)
        simp [e, this]
  · simp only [hq, not_false_eq_true, ↓reduceIte] at h
    have e : ¬ q = p := fun h' => hq (h' ▸ hp)
    split at h
    · cases h
    · cases h; simp [e]

theorem drawPixel_ok_flags {d d' : MD} {q : Pt} {c : Color} (h : d.drawPixel q c = .ok d') :
    d'.allowOverdraw = d.allowOverdraw ∧ d'.allowOob = d.allowOob := by
  rw [drawPixel_spec] at h
  split at h
  · split at h
    · cases h
    · cases h; exact ⟨rfl, rfl⟩
  · split at h
    · cases h
    · cases h; simp

/-- A panicking `draw_pixel` leaves the display as it was. -/
theorem drawPixel_panic_state {d d' : MD} {q : Pt} {c : Color} (h : d.drawPixel q c = .panic d') :
    d' = d := by
  rw [drawPixel_spec] at h
  split at h
  · split at h
    · cases h; rfl
    · cases h
  · split at h
    · cases h; rfl
    · cases h

theorem drawIter_ok_cell : ∀ (ws : Writes) {d d' : MD}, d.drawIter ws = .ok d' →
    ∀ {p : Pt}, Inside p → d'.cell p = lastTo (drawWrites ws) p (d.cell p)
  | [], d, d', h, p, _ => by
    unfold MD.drawIter at h; cases h; rfl
  | w :: rest, d, d', h, p, hp => by
    unfold MD.drawIter at h
    cases h1 : d.drawPixel w.1 w.2 with
    | ok d1 =>
      rw [h1] at h
      rw [drawIter_ok_cell rest h hp, drawPixel_ok_cell h1 hp]
      rfl
    | panic d1 => rw [h1] at h; cases h

theorem drawIter_ok_flags : ∀ (ws : Writes) {d d' : MD}, d.drawIter ws = .ok d' →
    d'.allowOverdraw = d.allowOverdraw ∧ d'.allowOob = d.allowOob
  | [], d, d', h => by unfold MD.drawIter at h; cases h; exact ⟨rfl, rfl⟩
  | w :: rest, d, d', h => by
    unfold MD.drawIter at h
    cases h1 : d.drawPixel w.1 w.2 with
    | ok d1 =>
      rw [h1] at h
      have a := drawIter_ok_flags rest h
      have b := drawPixel_ok_flags h1
      exact ⟨a.1.trans b.1, a.2.trans b.2⟩
    | panic d1 => rw [h1] at h; cases h

theorem step_ok_cell {d d' : MD} {o : Op} (h : d.step o = .ok d') {p : Pt} (hp : Inside p) :
    d'.cell p = lastTo o.writes p (d.cell p) := by
  cases o with
  | drawPixel q c =>
    simp only [MD.step] at h
    rw [drawPixel_ok_cell h hp]; rfl
  | call c =>
    simp only [MD.step, MD.drawCall] at h
    exact drawIter_ok_cell _ h hp
  | setPixel q c =>
    simp only [MD.step, setPixel_spec] at h
    by_cases hq : Inside q
    · simp only [hq, ↓reduceIte] at h
      cases h
      unfold MD.cell
      rw [get_upd _ _ _ _ (idx_lt hq)]
      simp only [Op.writes, lastTo_cons, lastTo_nil]
      by_cases e : q = p
      · simp [e]
      · have : ¬ idx p = idx q := fun h' => e (idx_inj hq hp h'.symm)
        simp [e, this]
    · simp only [hq, ↓reduceIte] at h; cases h
  | setOverdraw v => simp only [MD.step] at h; cases h; rfl
  | setOob v => simp only [MD.step] at h; cases h; rfl

/-- Any history that completes: every cell holds the value last written to it. -/
theorem run_ok_cell : ∀ (ops : List Op) {d d' : MD}, d.run ops = .ok d' →
    ∀ {p : Pt}, Inside p → d'.cell p = lastTo (ops.flatMap Op.writes) p (d.cell p)
  | [], d, d', h, p, _ => by unfold MD.run at h; cases h; rfl
  | o :: rest, d, d', h, p, hp => by
    unfold MD.run at h
    cases h1 : d.step o with
    | ok d1 =>
      rw [h1] at h
      rw [List.flatMap_cons, lastTo_append, run_ok_cell rest h hp, step_ok_cell h1 hp]
    | panic d1 => rw [h1] at h; cases h

/-! ### When does drawing panic -/

/-- The guard under which `draw_pixel` panics, in the order of the source: the bounds test decides
alone for a point outside; the overdraw test is only reached inside the display. -/
def Offends (allowOverdraw allowOob : Bool) (p : Pt) (content : Option Color) : Prop :=
  (¬ Inside p ∧ allowOob = false) ∨ (Inside p ∧ allowOverdraw = false ∧ content.isSome = true)

theorem drawPixel_isOk_false_iff (d : MD) (p : Pt) (c : Color) :
    (d.drawPixel p c).isOk = false ↔ Offends d.allowOverdraw d.allowOob p (d.cell p) := by
  rw [drawPixel_spec]
  unfold Offends
  by_cases hp : Inside p
  · simp only [hp, not_true_eq_false, ↓reduceIte, false_and, true_and, false_or]
    by_cases h : d.allowOverdraw = false ∧ (d.cell p).isSome = true
    · simp [h, Res.isOk]
    · simp only [h, ↓reduceIte, Res.isOk]; simp
  · simp only [hp, not_false_eq_true, ↓reduceIte, true_and, false_and, or_false]
    cases d.allowOob <;> simp [Res.isOk]

/-- `draw_iter` panics iff some pixel of the batch offends in the state produced by the pixels
before it (`lastTo` of the prefix = what the history so far has drawn to that point). -/
theorem drawIter_isOk_false_iff : ∀ (ws : Writes) (d : MD),
    (d.drawIter ws).isOk = false ↔
      ∃ pre w post, ws = pre ++ w :: post ∧
        Offends d.allowOverdraw d.allowOob w.1 (lastTo (drawWrites pre) w.1 (d.cell w.1))
  | [], d => by
    unfold MD.drawIter
    simp only [Res.isOk]
    constructor
    · intro h; cases h
    · rintro ⟨pre, w, post, h, _⟩
      cases pre <;> cases h
  | x :: rest, d => by
    unfold MD.drawIter
    cases h1 : d.drawPixel x.1 x.2 with
    | panic d1 =>
      simp only [Res.isOk, true_iff]
      refine ⟨[], x, rest, rfl, ?_⟩
      have := (drawPixel_isOk_false_iff d x.1 x.2).mp (by rw [h1]; rfl)
      exact this
    | ok d1 =>
      simp only
      have hf := drawPixel_ok_flags h1
      have hno : ¬ Offends d.allowOverdraw d.allowOob x.1 (d.cell x.1) := by
        rw [← drawPixel_isOk_false_iff d x.1 x.2, h1]; simp [Res.isOk]
      rw [drawIter_isOk_false_iff rest d1, hf.1, hf.2]
      have key : ∀ (pre : Writes) (w : Pt × Color), Inside w.1 →
          lastTo (drawWrites pre) w.1 (d1.cell w.1) = lastTo (drawWrites (x :: pre)) w.1 (d.cell w.1) := by
        intro pre w hw
        rw [drawPixel_ok_cell h1 hw]; rfl
      constructor
      · rintro ⟨pre, w, post, hws, ho⟩
        refine ⟨x :: pre, w, post, by rw [hws]; rfl, ?_⟩
        unfold Offends at ho ⊢
        rcases ho with ho | ⟨hi, ha, hc⟩
        · exact Or.inl ho
        · exact Or.inr ⟨hi, ha, by rw [← key pre w hi]; exact hc⟩
      · rintro ⟨pre, w, post, hws, ho⟩
        cases pre with
        | nil =>
          simp only [List.nil_append, List.cons.injEq] at hws
          obtain ⟨rfl, _⟩ := hws
          exact absurd ho hno
        | cons y pre' =>
          simp only [List.cons_append, List.cons.injEq] at hws
          obtain ⟨rfl, hrest⟩ := hws
          refine ⟨pre', w, post, hrest, ?_⟩
          unfold Offends at ho ⊢
          rcases ho with ho | ⟨hi, ha, hc⟩
          · exact Or.inl ho
          · exact Or.inr ⟨hi, ha, by rw [key pre' w hi]; exact hc⟩

/-- The state a panicking `draw_iter` leaves behind: the pixels before the offending one are drawn. -/
theorem drawIter_panic_state : ∀ (ws : Writes) {d d' : MD}, d.drawIter ws = .panic d' →
    ∃ pre w post, ws = pre ++ w :: post ∧ d.drawIter pre = .ok d' ∧ (d'.drawPixel w.1 w.2).isOk = false
  | [], d, d', h => by unfold MD.drawIter at h; cases h
  | x :: rest, d, d', h => by
    unfold MD.drawIter at h
    cases h1 : d.drawPixel x.1 x.2 with
    | panic d1 =>
      rw [h1] at h
      cases h
      have := drawPixel_panic_state h1
      subst this
      exact ⟨[], x, rest, rfl, rfl, by rw [h1]; rfl⟩
    | ok d1 =>
      rw [h1] at h
      obtain ⟨pre, w, post, hws, hok, hp⟩ := drawIter_panic_state rest h
      refine ⟨x :: pre, w, post, by rw [hws]; rfl, ?_, hp⟩
      unfold MD.drawIter; rw [h1]; exact hok

end Mock
end EG
