/-
  EG.Lemmas.JoinsBBoxTriMain — **the `fill_solid` rectangles of `draw_styled` and the points of
  `pixels()` of a styled triangle lie inside `styled_bounding_box`**, for
  * stroke alignment Center / Outside with stroke width > 1 (the box is the fold of the boxes of the
    three closed segments), under the decidable guard `TriStrokeGuard` (`adjOK` for the three joins,
    see EG.Lemmas.JoinsBBoxCover; the top row of the box is an `i32`; if there is a fill colour: the
    three vertices lie in the box);
  * stroke width 0 (fill only), any alignment (the box is the plain vertex box);
  * stroke alignment Inside when the inside stroke is collapsed (`is_collapsed`: the stroke is the
    plain filled triangle).
  Not covered: width 1 (any alignment), and the non-collapsed Inside stroke of width > 1 (its inner
  corners are rounded intersections of the inner edge lines; that they stay in the vertex box is
  carried by correspondence + oracle only).
-/
import EG.Lemmas.JoinsBBoxTri
import EG.Lemmas.JoinsBBoxPolyMain
set_option linter.unusedSimpArgs false
namespace EG
namespace Joins
open Thick (LineSide StrokeOffset)

/-! ### Vertices -/

theorem vertex_mod (t : Tri) (i : Nat) :
    (i % 3 = 0 → t.vertex i = t.v1) ∧ (i % 3 = 1 → t.vertex i = t.v2) ∧ (i % 3 = 2 → t.vertex i = t.v3) := by
  unfold Tri.vertex
  have h : i % 3 = 0 ∨ i % 3 = 1 ∨ i % 3 = 2 := by omega
  rcases h with h | h | h <;> rw [h] <;> simp

/-- `sorted_clockwise` permutes the vertices. -/
theorem sortedClockwise_all (P : Pt → Prop) (t : Tri) (h1 : P t.v1) (h2 : P t.v2) (h3 : P t.v3) :
    P t.sortedClockwise.v1 ∧ P t.sortedClockwise.v2 ∧ P t.sortedClockwise.v3 := by
  unfold Tri.sortedClockwise
  split
  · exact ⟨h2, h1, h3⟩
  · split
    · exact ⟨h1, h2, h3⟩
    · exact sortedYx_all P t h1 h2 h3

theorem tri_boundingBox_contains (t : Tri) :
    t.boundingBox.contains t.v1 = true ∧ t.boundingBox.contains t.v2 = true ∧
      t.boundingBox.contains t.v3 = true := by
  unfold Tri.boundingBox
  refine ⟨?_, ?_, ?_⟩ <;> rw [Rect.contains_withCorners] <;> dsimp only <;> omega

/-- The vertices of the clockwise-sorted triangle lie in the columns of any rectangle that contains
the three vertices. -/
theorem verts_in_columns (t : Tri) (U : Rect) (h : U.contains t.v1 = true ∧ U.contains t.v2 = true ∧
    U.contains t.v3 = true) :
    (U.tl.x ≤ t.sortedClockwise.v1.x ∧ t.sortedClockwise.v1.x ≤ U.tl.x + U.size.w - 1) ∧
    (U.tl.x ≤ t.sortedClockwise.v2.x ∧ t.sortedClockwise.v2.x ≤ U.tl.x + U.size.w - 1) ∧
    (U.tl.x ≤ t.sortedClockwise.v3.x ∧ t.sortedClockwise.v3.x ≤ U.tl.x + U.size.w - 1) := by
  have hP : ∀ p : Pt, U.contains p = true → (U.tl.x ≤ p.x ∧ p.x ≤ U.tl.x + U.size.w - 1) := by
    intro p hp; rw [Rect.contains_iff] at hp; omega
  exact sortedClockwise_all (fun p => U.tl.x ≤ p.x ∧ p.x ≤ U.tl.x + U.size.w - 1) t
    (hP _ h.1) (hP _ h.2.1) (hP _ h.2.2)

/-! ### The row iterator `draw_styled` and `StyledPixelsIterator::new` construct -/

/-- The iterator constructed for a styled triangle is the empty one or satisfies the invariant. -/
theorem triScanlines_inv (t : Tri) (style : TriStyle) (bb : Rect)
    (hbb : triStyledBoundingBox t style = some bb)
    (ctx : ∀ c, t.sortedClockwise.isCollapsed style.strokeWidth style.strokeAlignment.toOffset = some c →
      TriCtx t.sortedClockwise style.strokeWidth style.strokeAlignment.toOffset bb.tl.x
        (bb.tl.x + bb.size.w - 1) (c && style.strokeAlignment.toOffset == .right) style.fillColor.isSome)
    (it : TriScanlines) (h : triScanlines t style = some it) :
    it = TriScanlines.empty ∨
    ∃ c, TriCtx t.sortedClockwise style.strokeWidth style.strokeAlignment.toOffset bb.tl.x
        (bb.tl.x + bb.size.w - 1) c style.fillColor.isSome ∧
      TriRowsInv t.sortedClockwise style.strokeWidth style.strokeAlignment.toOffset
        style.fillColor.isSome c bb.tl.x (bb.tl.x + bb.size.w - 1) bb.tl.y bb.rowsEnd it := by
  unfold triScanlines at h
  rw [hbb] at h
  simp only [Option.bind_eq_bind, Option.bind_some] at h
  unfold TriScanlines.new at h
  simp only at h
  by_cases hr : bb.tl.y < bb.rowsEnd
  · simp only [hr, ↓reduceIte, Option.bind_eq_bind] at h
    cases hn : TriIntersections.new t.sortedClockwise style.strokeWidth style.strokeAlignment.toOffset
        style.fillColor.isSome bb.tl.y with
    | none => rw [hn] at h; cases h
    | some ints =>
      rw [hn] at h
      simp only [Option.bind_some, pure, Option.some.injEq] at h
      subst h
      right
      unfold TriIntersections.new at hn
      cases hc : t.sortedClockwise.isCollapsed style.strokeWidth style.strokeAlignment.toOffset with
      | none => rw [hc] at hn; cases hn
      | some c =>
        rw [hc] at hn
        simp only [Option.bind_eq_bind, Option.bind_some] at hn
        have hctx := ctx c hc
        refine ⟨_, hctx, ?_, by show bb.tl.y ≤ bb.tl.y + 1; omega, rfl⟩
        exact TriIntersections.reset_inv hctx _ rfl rfl rfl rfl rfl bb.tl.y (Int.le_refl _) hr ints hn
  · simp only [hr, ↓reduceIte, Option.some.injEq] at h
    left; exact h.symm

/-- **`draw_styled`: every `fill_solid` rectangle lies in the box** (generic form). -/
theorem triDraw_in_box (t : Tri) (style : TriStyle) (bb : Rect)
    (hbb : triStyledBoundingBox t style = some bb) (hmin : -2147483648 ≤ bb.tl.y)
    (ctx : ∀ c, t.sortedClockwise.isCollapsed style.strokeWidth style.strokeAlignment.toOffset = some c →
      TriCtx t.sortedClockwise style.strokeWidth style.strokeAlignment.toOffset bb.tl.x
        (bb.tl.x + bb.size.w - 1) (c && style.strokeAlignment.toOffset == .right) style.fillColor.isSome)
    (calls : List (Rect × Nat)) (hd : triDraw t style = some calls) :
    ∀ rc ∈ calls, ∀ p, rc.1.contains p = true → bb.contains p = true := by
  unfold triDraw at hd
  by_cases htr : style.isTransparent = true
  · simp only [htr, ↓reduceIte, Option.some.injEq] at hd
    subst hd; intro rc hrc; cases hrc
  · simp only [htr, Bool.false_eq_true, ↓reduceIte, Option.bind_eq_bind] at hd
    cases hit : triScanlines t style with
    | none => rw [hit] at hd; cases hd
    | some it =>
      rw [hit] at hd
      simp only [Option.bind_some] at hd
      cases hl : it.toList with
      | none => rw [hl] at hd; cases hd
      | some lines =>
        rw [hl] at hd
        simp only [Option.bind_some, pure, Option.some.injEq] at hd
        subst hd
        have hgood : ∀ x ∈ lines, GoodLine bb.tl.x (bb.tl.x + bb.size.w - 1) bb.tl.y bb.rowsEnd x.1 := by
          rcases triScanlines_inv t style bb hbb ctx it hit with he | ⟨c, hctx, hinv⟩
          · rw [he, TriScanlines.empty_toList] at hl
            cases hl
            intro x hx; cases hx
          · exact TriScanlines.toListFuel_inv hctx _ it hinv lines hl
        intro rc hrc p hp
        rw [List.mem_filterMap] at hrc
        obtain ⟨⟨line, kind⟩, hx, hf⟩ := hrc
        simp only at hf
        cases hcol : style.colorOf kind with
        | none => rw [hcol] at hf; cases hf
        | some color =>
          rw [hcol] at hf
          simp only at hf
          by_cases hz : line.toRectangle.isZeroSized = true
          · simp only [hz, Bool.not_true, Bool.false_eq_true, ↓reduceIte] at hf; cases hf
          · have hz' : line.toRectangle.isZeroSized = false := by simpa using hz
            simp only [hz', Bool.not_false, ↓reduceIte, Option.some.injEq] at hf
            subst hf
            exact goodLine_rect_in_box hmin (hgood _ hx) p hp

/-- **`pixels()`: every point lies in the box** (generic form). -/
theorem triPixels_in_box (t : Tri) (style : TriStyle) (bb : Rect)
    (hbb : triStyledBoundingBox t style = some bb) (hmin : -2147483648 ≤ bb.tl.y)
    (ctx : ∀ c, t.sortedClockwise.isCollapsed style.strokeWidth style.strokeAlignment.toOffset = some c →
      TriCtx t.sortedClockwise style.strokeWidth style.strokeAlignment.toOffset bb.tl.x
        (bb.tl.x + bb.size.w - 1) (c && style.strokeAlignment.toOffset == .right) style.fillColor.isSome)
    (px : List (Pt × Nat)) (hpx : triPixels t style = some px) :
    ∀ pc ∈ px, bb.contains pc.1 = true := by
  unfold triPixels at hpx
  cases hfuel : triPixelFuel t style with
  | none => rw [hfuel] at hpx; cases hpx
  | some fuel0 =>
  rw [hfuel] at hpx
  simp only [Option.bind_eq_bind, Option.bind_some] at hpx
  cases hnew : TriPixels.new t style with
  | none => rw [hnew] at hpx; cases hpx
  | some it0 =>
    rw [hnew] at hpx
    simp only [Option.bind_some] at hpx
    unfold TriPixels.new at hnew
    cases hit : triScanlines t style with
    | none => rw [hit] at hnew; cases hnew
    | some si =>
      rw [hit] at hnew
      simp only [Option.bind_eq_bind, Option.bind_some] at hnew
      rcases triScanlines_inv t style bb hbb ctx si hit with he | ⟨c, hctx, hinv⟩
      · -- the empty iterator: nothing is yielded
        subst he
        rw [TriScanlines.empty_next] at hnew
        simp only [Option.bind_some, pure, Option.getD_none, Option.some.injEq] at hnew
        subst hnew
        rw [TriPixels.empty_toListFuel] at hpx
        cases hpx
        intro pc hpc; cases hpc
      · have hinv0 : TPInv t.sortedClockwise style.strokeWidth style.strokeAlignment.toOffset
            style.fillColor.isSome c bb.tl.x (bb.tl.x + bb.size.w - 1) bb.tl.y bb.rowsEnd it0 := by
          cases hn : si.next with
          | none => rw [hn] at hnew; cases hnew
          | some x =>
            rw [hn] at hnew
            obtain ⟨first, si2⟩ := x
            cases first with
            | none =>
              simp only [Option.bind_some, pure, Option.getD_none, Option.some.injEq] at hnew
              subst hnew
              exact ⟨Or.inr (TriScanlines.next_none_inv hctx si hinv si2 hn), lineOK_newEmpty _ _ _ _ _⟩
            | some y =>
              obtain ⟨l, ty⟩ := y
              simp only [Option.bind_some, pure, Option.getD_some, Option.some.injEq] at hnew
              subst hnew
              obtain ⟨a, b⟩ := TriScanlines.next_inv hctx si hinv l ty si2
                ((TriScanlines.next_some_iff si si2 (l, ty)).mp hn)
              exact ⟨Or.inr a, Or.inr b⟩
        -- drain
        have key : ∀ (fuel : Nat) (it : TriPixels),
            TPInv t.sortedClockwise style.strokeWidth style.strokeAlignment.toOffset
              style.fillColor.isSome c bb.tl.x (bb.tl.x + bb.size.w - 1) bb.tl.y bb.rowsEnd it →
            ∀ l, it.toListFuel fuel = some l → ∀ pc ∈ l, bb.contains pc.1 = true := by
          intro fuel
          induction fuel with
          | zero =>
            intro it _ l h
            simp only [TriPixels.toListFuel, Option.some.injEq] at h
            subst h; intro pc hpc; cases hpc
          | succ fuel ih =>
            intro it hi' l h
            unfold TriPixels.toListFuel at h
            cases hn : it.next with
            | none => rw [hn] at h; cases h
            | some x =>
              rw [hn] at h
              cases x with
              | none =>
                simp only [Option.bind_eq_bind, Option.bind_some, pure, Option.some.injEq] at h
                subst h; intro pc hpc; cases hpc
              | some y =>
                obtain ⟨⟨p, col⟩, it1⟩ := y
                simp only [Option.bind_eq_bind, Option.bind_some] at h
                obtain ⟨a, b⟩ := TriPixels.nextFuel_inv hctx _ it hi' p col it1 hn
                cases hr : TriPixels.toListFuel fuel it1 with
                | none => rw [hr] at h; cases h
                | some rest =>
                  rw [hr] at h
                  simp only [Option.bind_some, pure, Option.some.injEq] at h
                  subst h
                  intro pc hpc
                  rcases List.mem_cons.mp hpc with rfl | hpc
                  · exact point_in_box hmin b
                  · exact ih it1 a rest hr pc hpc
        exact key _ it0 hinv0 px hpx

/-! ### Instances of `TriCtx` -/

/-- The plain vertex box (`w < 2` or Inside): the vertices are in its columns. -/
theorem triCtx_vertexBox_verts (t : Tri) :
    (t.boundingBox.tl.x ≤ t.sortedClockwise.v1.x ∧
      t.sortedClockwise.v1.x ≤ t.boundingBox.tl.x + t.boundingBox.size.w - 1) ∧
    (t.boundingBox.tl.x ≤ t.sortedClockwise.v2.x ∧
      t.sortedClockwise.v2.x ≤ t.boundingBox.tl.x + t.boundingBox.size.w - 1) ∧
    (t.boundingBox.tl.x ≤ t.sortedClockwise.v3.x ∧
      t.sortedClockwise.v3.x ≤ t.boundingBox.tl.x + t.boundingBox.size.w - 1) :=
  verts_in_columns t t.boundingBox (tri_boundingBox_contains t)

/-- The guard of the Center / Outside stroke theorems (width > 1), see the file header. -/
def TriStrokeGuard (t : Tri) (style : TriStyle) : Prop :=
  match closedSegments3 t.sortedClockwise style.strokeWidth style.strokeAlignment.toOffset with
  | some [a, b, c] =>
    let U := foldEdgeBoxes [a, b, c]
    (-2147483648 : Int) ≤ U.tl.y ∧ adjOK U a b = true ∧ adjOK U b c = true ∧ adjOK U c a = true ∧
      (style.fillColor.isSome = true →
        U.contains t.v1 = true ∧ U.contains t.v2 = true ∧ U.contains t.v3 = true)
  | _ => True

instance (t : Tri) (style : TriStyle) : Decidable (TriStrokeGuard t style) := by
  unfold TriStrokeGuard; split <;> exact inferInstance

/-- The three closed segments of a triangle: every outline line ends in the fold of their boxes. -/
theorem closed3_outline_covered (a b c : ThickSegment) (hab : a.endJoin = b.startJoin)
    (hbc : b.endJoin = c.startJoin) (hca : c.endJoin = a.startJoin)
    (g1 : adjOK (foldEdgeBoxes [a, b, c]) a b = true) (g2 : adjOK (foldEdgeBoxes [a, b, c]) b c = true)
    (g3 : adjOK (foldEdgeBoxes [a, b, c]) c a = true) :
    ∀ s ∈ [a, b, c], ∀ l ∈ s.outline, Covered (foldEdgeBoxes [a, b, c]) l := by
  have hb := fun s hs => foldEdgeBoxes_boxIn [a, b, c] s hs
  have ha' := hb a (by simp)
  have hc' := hb c (by simp)
  refine chain_outline_covered (foldEdgeBoxes [a, b, c]) [a, b, c] ⟨hab, hbc, trivial⟩ ?_ hb ?_ ?_
  · simp [chainOK, g1, g2]
  · intro s hs hsk f hf
    simp only [List.head?_cons, Option.some.injEq] at hs
    subst hs
    rw [← hca] at hf
    exact filler_midpoint_covered hca hc' ha' g3 f hf (Or.inr hsk)
  · intro s hs hsk f hf
    simp only [List.getLast?_cons_cons, List.getLast?_singleton, Option.some.injEq] at hs
    subst hs
    exact filler_midpoint_covered hca hc' ha' g3 f hf (Or.inl hsk)

/-- `TriCtx` for a Center / Outside stroke of width > 1 under the guard. -/
theorem triCtx_stroke (t : Tri) (style : TriStyle) (hw : 2 ≤ style.strokeWidth)
    (hal : style.strokeAlignment ≠ .inside) (hg : TriStrokeGuard t style) (bb : Rect)
    (hbb : triStyledBoundingBox t style = some bb) :
    -2147483648 ≤ bb.tl.y ∧
    ∀ c, TriCtx t.sortedClockwise style.strokeWidth style.strokeAlignment.toOffset bb.tl.x
      (bb.tl.x + bb.size.w - 1) (c && style.strokeAlignment.toOffset == .right) style.fillColor.isSome := by
  rw [triStyledBoundingBox_eq] at hbb
  have hcond : ¬ (style.strokeWidth < 2 ∨ style.strokeAlignment = .inside) := by
    intro h; rcases h with h | h
    · omega
    · exact hal h
  simp only [hcond, ↓reduceIte] at hbb
  have hoff : (style.strokeAlignment.toOffset == StrokeOffset.right) = false := by
    cases hs : style.strokeAlignment with
    | inside => exact absurd hs hal
    | center => rfl
    | outside => rfl
  unfold TriStrokeGuard at hg
  unfold closedSegments3 at hbb hg
  cases h0 : LineJoin.fromPoints t.sortedClockwise.v3 t.sortedClockwise.v1 t.sortedClockwise.v2
      style.strokeWidth style.strokeAlignment.toOffset with
  | none => rw [h0] at hbb; cases hbb
  | some j0 =>
    cases h1 : LineJoin.fromPoints t.sortedClockwise.v1 t.sortedClockwise.v2 t.sortedClockwise.v3
        style.strokeWidth style.strokeAlignment.toOffset with
    | none => rw [h0, h1] at hbb; cases hbb
    | some j1 =>
      cases h2 : LineJoin.fromPoints t.sortedClockwise.v2 t.sortedClockwise.v3 t.sortedClockwise.v1
          style.strokeWidth style.strokeAlignment.toOffset with
      | none => rw [h0, h1, h2] at hbb; cases hbb
      | some j2 =>
        rw [h0, h1, h2] at hbb hg
        simp only [Option.bind_eq_bind, Option.bind_some, pure, Option.map_some, Option.some.injEq] at hbb hg
        subst hbb
        obtain ⟨hmin, g1, g2, g3, gv⟩ := hg
        have hcov := closed3_outline_covered ⟨j0, j1⟩ ⟨j1, j2⟩ ⟨j2, j0⟩ rfl rfl rfl g1 g2 g3
        refine ⟨hmin, ?_⟩
        intro c
        rw [hoff, Bool.and_false]
        constructor
        · intro _ _ idx a b ha hb
          obtain ⟨m0, m1, m2⟩ := vertex_mod t.sortedClockwise idx
          obtain ⟨n0, n1, n2⟩ := vertex_mod t.sortedClockwise (idx + 1)
          obtain ⟨o0, o1, o2⟩ := vertex_mod t.sortedClockwise (idx + 2)
          obtain ⟨p0, p1, p2⟩ := vertex_mod t.sortedClockwise (idx + 1 + 1)
          obtain ⟨q0, q1, q2⟩ := vertex_mod t.sortedClockwise (idx + 1 + 2)
          have hmod : idx % 3 = 0 ∨ idx % 3 = 1 ∨ idx % 3 = 2 := by omega
          rcases hmod with hm | hm | hm
          · rw [m0 hm, n1 (by omega), o2 (by omega), h1] at ha
            rw [n1 (by omega), p2 (by omega), q0 (by omega), h2] at hb
            cases ha; cases hb
            exact covered_segOK (hcov _ (by simp))
          · rw [m1 hm, n2 (by omega), o0 (by omega), h2] at ha
            rw [n2 (by omega), p0 (by omega), q1 (by omega), h0] at hb
            cases ha; cases hb
            exact covered_segOK (hcov _ (by simp))
          · rw [m2 hm, n0 (by omega), o1 (by omega), h0] at ha
            rw [n0 (by omega), p1 (by omega), q2 (by omega), h1] at hb
            cases ha; cases hb
            exact covered_segOK (hcov _ (by simp))
        · intro h
          rcases h with h | h
          · cases h
          · exact verts_in_columns t _ (gv h)

/-- `TriCtx` for the plain vertex box when no edge segment is drawn (width 0, or the collapsed
Inside stroke). -/
theorem triCtx_vertexBox (t : Tri) (w : Nat) (off : StrokeOffset) (collapsed hasFill : Bool)
    (h : w = 0 ∨ collapsed = true) :
    TriCtx t.sortedClockwise w off t.boundingBox.tl.x
      (t.boundingBox.tl.x + t.boundingBox.size.w - 1) collapsed hasFill := by
  constructor
  · intro hw hc
    rcases h with h | h
    · exact absurd h hw
    · rw [h] at hc; cases hc
  · intro _
    exact triCtx_vertexBox_verts t

/-! ### The generic reduction: outline end points in the box -/

/-- The segment drawn by the edge closure for index `idx` is one of the three closed segments. -/
theorem edge_segment_mem (tc : Tri) (w : Nat) (off : StrokeOffset) (segs : List ThickSegment)
    (hs : closedSegments3 tc w off = some segs) (idx : Nat) (a b : LineJoin)
    (ha : LineJoin.fromPoints (tc.vertex idx) (tc.vertex (idx + 1)) (tc.vertex (idx + 2)) w off = some a)
    (hb : LineJoin.fromPoints (tc.vertex (idx + 1)) (tc.vertex (idx + 1 + 1)) (tc.vertex (idx + 1 + 2)) w off
      = some b) : (⟨a, b⟩ : ThickSegment) ∈ segs := by
  unfold closedSegments3 at hs
  cases h0 : LineJoin.fromPoints tc.v3 tc.v1 tc.v2 w off with
  | none => rw [h0] at hs; cases hs
  | some j0 =>
    cases h1 : LineJoin.fromPoints tc.v1 tc.v2 tc.v3 w off with
    | none => rw [h0, h1] at hs; cases hs
    | some j1 =>
      cases h2 : LineJoin.fromPoints tc.v2 tc.v3 tc.v1 w off with
      | none => rw [h0, h1, h2] at hs; cases hs
      | some j2 =>
        rw [h0, h1, h2] at hs
        simp only [Option.bind_eq_bind, Option.bind_some, pure, Option.some.injEq] at hs
        subst hs
        obtain ⟨m0, m1, m2⟩ := vertex_mod tc idx
        obtain ⟨n0, n1, n2⟩ := vertex_mod tc (idx + 1)
        obtain ⟨o0, o1, o2⟩ := vertex_mod tc (idx + 2)
        obtain ⟨p0, p1, p2⟩ := vertex_mod tc (idx + 1 + 1)
        obtain ⟨q0, q1, q2⟩ := vertex_mod tc (idx + 1 + 2)
        have hmod : idx % 3 = 0 ∨ idx % 3 = 1 ∨ idx % 3 = 2 := by omega
        rcases hmod with hm | hm | hm
        · rw [m0 hm, n1 (by omega), o2 (by omega), h1] at ha
          rw [n1 (by omega), p2 (by omega), q0 (by omega), h2] at hb
          cases ha; cases hb; simp
        · rw [m1 hm, n2 (by omega), o0 (by omega), h2] at ha
          rw [n2 (by omega), p0 (by omega), q1 (by omega), h0] at hb
          cases ha; cases hb; simp
        · rw [m2 hm, n0 (by omega), o1 (by omega), h0] at ha
          rw [n0 (by omega), p1 (by omega), q2 (by omega), h1] at hb
          cases ha; cases hb; simp

/-- The guard of the generic reduction: the end points of the outline lines of the three closed
segments (at most 24 points) and the three vertices lie in the bounding box, whose top row is an
`i32`. -/
def TriOutlineGuard (t : Tri) (style : TriStyle) : Prop :=
  match triStyledBoundingBox t style with
  | some bb =>
    (-2147483648 : Int) ≤ bb.tl.y ∧
    match closedSegments3 t.sortedClockwise style.strokeWidth style.strokeAlignment.toOffset with
    | some segs =>
      (∀ s ∈ segs, ∀ l ∈ s.outline, bb.contains l.start = true ∧ bb.contains l.stop = true) ∧
      (bb.contains t.v1 = true ∧ bb.contains t.v2 = true ∧ bb.contains t.v3 = true)
    | none => True
  | none => True

instance (t : Tri) (style : TriStyle) : Decidable (TriOutlineGuard t style) := by
  unfold TriOutlineGuard
  split
  · refine @instDecidableAnd _ _ _ ?_
    split <;> exact inferInstance
  · exact inferInstance

/-- `TriCtx` from the generic guard (any width, any alignment). -/
theorem triCtx_outline (t : Tri) (style : TriStyle) (hg : TriOutlineGuard t style) (bb : Rect)
    (hbb : triStyledBoundingBox t style = some bb) (c : Bool)
    (hc : t.sortedClockwise.isCollapsed style.strokeWidth style.strokeAlignment.toOffset = some c) :
    TriCtx t.sortedClockwise style.strokeWidth style.strokeAlignment.toOffset bb.tl.x
      (bb.tl.x + bb.size.w - 1) (c && style.strokeAlignment.toOffset == .right) style.fillColor.isSome := by
  unfold TriOutlineGuard at hg
  rw [hbb] at hg
  simp only at hg
  obtain ⟨_, hg⟩ := hg
  -- `is_collapsed` succeeded, so the three joins exist
  have hsegs : ∃ segs, closedSegments3 t.sortedClockwise style.strokeWidth
      style.strokeAlignment.toOffset = some segs := by
    unfold Tri.isCollapsed Tri.joins at hc
    unfold closedSegments3
    cases h0 : LineJoin.fromPoints t.sortedClockwise.v3 t.sortedClockwise.v1 t.sortedClockwise.v2
        style.strokeWidth style.strokeAlignment.toOffset with
    | none => rw [h0] at hc; cases hc
    | some j0 =>
      cases h1 : LineJoin.fromPoints t.sortedClockwise.v1 t.sortedClockwise.v2 t.sortedClockwise.v3
          style.strokeWidth style.strokeAlignment.toOffset with
      | none => rw [h0, h1] at hc; cases hc
      | some j1 =>
        cases h2 : LineJoin.fromPoints t.sortedClockwise.v2 t.sortedClockwise.v3 t.sortedClockwise.v1
            style.strokeWidth style.strokeAlignment.toOffset with
        | none => rw [h0, h1, h2] at hc; cases hc
        | some j2 => exact ⟨_, rfl⟩
  obtain ⟨segs, hs⟩ := hsegs
  rw [hs] at hg
  simp only at hg
  obtain ⟨hout, hv⟩ := hg
  refine ⟨?_, ?_⟩
  · intro _ _ idx a b ha hb
    exact covered_segOK (hout _ (edge_segment_mem _ _ _ segs hs idx a b ha hb))
  · intro _
    exact verts_in_columns t bb hv

theorem triOutlineGuard_top (t : Tri) (style : TriStyle) (hg : TriOutlineGuard t style) (bb : Rect)
    (hbb : triStyledBoundingBox t style = some bb) : -2147483648 ≤ bb.tl.y := by
  unfold TriOutlineGuard at hg
  rw [hbb] at hg
  exact hg.1

end Joins
end EG
