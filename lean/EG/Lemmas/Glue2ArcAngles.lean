/-
  EG.Lemmas.Glue2ArcAngles — arcs and sectors GIVEN BY THEIR ANGLES, for the `fixed_point` build.

  `EG.Model.Sector` / `StyledArc` / `StyledSector` take the plane sector (and the sector's bevel) as
  parameters of the shape; `EG.Model.PlaneSectorNew` computes them from the raw angle bits. Here the
  two are put together: what `Arc::new(tl, d, start, sweep)` / `Sector::new(..)` is to the styled
  iterators of the fixed_point build. `none` = the checked build panics in the trigonometry.
-/
import EG.Model.PlaneSectorNew
import EG.Lemmas.StyledArcSector
namespace EG.Glue2
open EG

/-- The arc `Arc::new(tl, d, start, sweep)` with the plane sector the fixed_point build computes. -/
def arcOfAngles (tl : Pt) (d : Nat) (start sweep : Int) : Option Arc :=
  (Fx.planeSectorNew start sweep).map (fun ps => ⟨tl, d, ps⟩)

/-- The sector `Sector::new(tl, d, start, sweep)` with the plane sector and the bevel the fixed_point
build computes (`StyledPixelsIterator::new`: plane sector first, then the bevel). -/
def sectorOfAngles (tl : Pt) (d : Nat) (start sweep : Int) : Option (Sector × SectorBevel) :=
  (Fx.styledSectorTrig start sweep).map (fun t => (⟨tl, d, t.1⟩, t.2))

theorem arcOfAngles_translate (tl : Pt) (d : Nat) (start sweep : Int) (t : Pt) :
    arcOfAngles (tl + t) d start sweep = (arcOfAngles tl d start sweep).map (fun a => a.translate t) := by
  unfold arcOfAngles
  cases Fx.planeSectorNew start sweep <;> rfl

theorem sectorOfAngles_translate (tl : Pt) (d : Nat) (start sweep : Int) (t : Pt) :
    sectorOfAngles (tl + t) d start sweep =
      (sectorOfAngles tl d start sweep).map (fun x => (x.1.translate t, x.2)) := by
  unfold sectorOfAngles
  cases Fx.styledSectorTrig start sweep <;> rfl

end EG.Glue2
