/-
  EG.Lemmas.RoundedRectRow — the row structure of `RoundedRectangleContains`:
  * `Range::rfind` (`rangeRFind`), first / last hit of a monotone predicate,
  * the corner quadrants accept an interval of every row that reaches the inner edge of the corner
    box (monotonicity of `b x^2 + a y^2` in `|x|`),
  * hence `contains (x, y) ↔ xStart y ≤ x < xEnd y` in every row (left and right corner are checked
    independently, so this also holds when opposite corner boxes overlap),
  * the `Scanlines` and `Points` iterators in closed form.
-/
import EG.Lemmas.Scanline
import EG.Lemmas.RoundedRectConfine
namespace EG

/-! ### `Range::rfind` -/

theorem irange_snoc {a b : Int} (h : a < b) : irange a b = irange a (b - 1) ++ [b - 1] := by
  unfold irange
  have : (b - a).toNat = (b - 1 - a).toNat + 1 := by omega
  rw [this, List.range_succ, List.map_append]
  congr 1
  simp only [List.map_cons, List.map_nil, List.cons.injEq, and_true]
  omega

theorem rangeRFind_none {p : Int → Bool} {a b : Int} :
    rangeRFind p a b = none ↔ ∀ x, a ≤ x → x < b → p x = false := by
  unfold rangeRFind
  rw [List.find?_eq_none]
  constructor
  · intro h x h1 h2
    have := h x (List.mem_reverse.mpr (mem_irange.mpr ⟨h1, h2⟩))
    simpa using this
  · intro h x hx
    rw [List.mem_reverse, mem_irange] at hx
    simp [h x hx.1 hx.2]

theorem rangeRFind_some_aux (p : Int → Bool) : ∀ (n : Nat) (a b x0 : Int), (b - a).toNat = n →
    (rangeRFind p a b = some x0 ↔
      a ≤ x0 ∧ x0 < b ∧ p x0 = true ∧ ∀ x, x0 < x → x < b → p x = false) := by
  intro n
  induction n with
  | zero =>
    intro a b x0 hn
    unfold rangeRFind
    rw [irange_empty (a := a) (b := b) (by omega)]
    simp only [List.reverse_nil, List.find?_nil]
    constructor
    · intro h; cases h
    · intro h; omega
  | succ n ih =>
    intro a b x0 hn
    have hab : a < b := by omega
    unfold rangeRFind
    rw [irange_snoc hab, List.reverse_append, List.reverse_cons, List.reverse_nil, List.nil_append,
      List.singleton_append, List.find?_cons]
    by_cases hpb : p (b - 1) = true
    · rw [hpb]
      simp only [Option.some.injEq]
      constructor
      · intro h; subst h
        exact ⟨by omega, by omega, hpb, fun x h1 h2 => by omega⟩
      · rintro ⟨_, h2, _, h4⟩
        by_cases hx : b - 1 = x0
        · exact hx
        · have := h4 (b - 1) (by omega) (by omega)
          rw [hpb] at this; cases this
    · have hpb' : p (b - 1) = false := by simpa using hpb
      rw [hpb']
      have := ih a (b - 1) x0 (by omega)
      unfold rangeRFind at this
      simp only
      rw [this]
      constructor
      · rintro ⟨h1, h2, h3, h4⟩
        refine ⟨h1, by omega, h3, ?_⟩
        intro x hx1 hx2
        by_cases hxb : x = b - 1
        · subst hxb; exact hpb'
        · exact h4 x hx1 (by omega)
      · rintro ⟨h1, h2, h3, h4⟩
        have : b - 1 ≠ x0 := by
          intro hc; subst hc; rw [hpb'] at h3; cases h3
        exact ⟨h1, by omega, h3, fun x hx1 hx2 => h4 x hx1 (by omega)⟩

/-- `Range::rfind`: the result is the last hit. -/
theorem rangeRFind_some {p : Int → Bool} {a b x0 : Int} :
    rangeRFind p a b = some x0 ↔
      a ≤ x0 ∧ x0 < b ∧ p x0 = true ∧ ∀ x, x0 < x → x < b → p x = false :=
  rangeRFind_some_aux p _ a b x0 rfl

/-! ### first / last hit of a monotone predicate -/

/-- `find(..).unwrap_or(end)` for a predicate whose hits in `a..b` are closed to the right: the hits
are exactly the `x` from the result on. -/
theorem firstHit_spec {p : Int → Bool} {a b : Int} (hab : a ≤ b)
    (hm : ∀ x x', a ≤ x → x ≤ x' → x' < b → p x = true → p x' = true) :
    a ≤ (rangeFind p a b).getD b ∧ (rangeFind p a b).getD b ≤ b ∧
      ∀ x, a ≤ x → x < b → (p x = true ↔ (rangeFind p a b).getD b ≤ x) := by
  cases hf : rangeFind p a b with
  | none =>
    simp only [Option.getD_none]
    refine ⟨hab, Int.le_refl _, ?_⟩
    intro x h1 h2
    rw [rangeFind_none.mp hf x h1 h2]
    constructor
    · intro h; cases h
    · intro h; omega
  | some x0 =>
    simp only [Option.getD_some]
    obtain ⟨h1, h2, h3, h4⟩ := rangeFind_some.mp hf
    refine ⟨h1, by omega, ?_⟩
    intro x hx1 hx2
    constructor
    · intro hp
      by_cases hlt : x < x0
      · rw [h4 x hx1 hlt] at hp; cases hp
      · omega
    · intro hle
      exact hm x0 x h1 hle hx2 h3

/-- `rfind(..).map(|x| x + 1).unwrap_or(start)` for a predicate whose hits in `a..b` are closed to
the left: the hits are exactly the `x` below the result. -/
theorem lastHit_spec {p : Int → Bool} {a b : Int} (hab : a ≤ b)
    (hm : ∀ x x', a ≤ x' → x' ≤ x → x < b → p x = true → p x' = true) :
    a ≤ ((rangeRFind p a b).map (· + 1)).getD a ∧ ((rangeRFind p a b).map (· + 1)).getD a ≤ b ∧
      ∀ x, a ≤ x → x < b → (p x = true ↔ x < ((rangeRFind p a b).map (· + 1)).getD a) := by
  cases hf : rangeRFind p a b with
  | none =>
    simp only [Option.map_none, Option.getD_none]
    refine ⟨Int.le_refl _, hab, ?_⟩
    intro x h1 h2
    rw [rangeRFind_none.mp hf x h1 h2]
    constructor
    · intro h; cases h
    · intro h; omega
  | some x0 =>
    simp only [Option.map_some, Option.getD_some]
    obtain ⟨h1, h2, h3, h4⟩ := rangeRFind_some.mp hf
    refine ⟨by omega, by omega, ?_⟩
    intro x hx1 hx2
    constructor
    · intro hp
      by_cases hgt : x0 < x
      · rw [h4 x hgt hx2] at hp; cases hp
      · omega
    · intro hlt
      exact hm x0 x hx1 (by omega) h2 h3

/-! ### the corner quadrants -/

theorem int_sq_eq (u : Int) : u ^ 2 = u * u := by
  rw [Int.pow_succ, Int.pow_succ, Int.pow_zero, Int.one_mul]

theorem int_sq_le_of_nonpos {u v : Int} (h1 : u ≤ v) (h2 : v ≤ 0) : v ^ 2 ≤ u ^ 2 := by
  rw [int_sq_eq, int_sq_eq]
  have : (-v) * (-v) ≤ (-u) * (-u) := Int.mul_le_mul (by omega) (by omega) (by omega) (by omega)
  rw [Int.neg_mul_neg, Int.neg_mul_neg] at this
  exact this

theorem int_sq_le_of_nonneg {u v : Int} (h1 : 0 ≤ v) (h2 : v ≤ u) : v ^ 2 ≤ u ^ 2 := by
  rw [int_sq_eq, int_sq_eq]
  exact Int.mul_le_mul h2 h2 h1 (by omega)

/-- The ellipse test is monotone in `x^2` (for a fixed `y`). -/
theorem EllipseContains.contains_mono (e : EllipseContains) {p q : Pt} (hy : q.y = p.y)
    (hx : q.x ^ 2 ≤ p.x ^ 2) (h : e.contains p = true) : e.contains q = true := by
  unfold EllipseContains.contains at h ⊢
  have hx' : (q.x ^ 2).toNat ≤ (p.x ^ 2).toNat := Int.toNat_le_toNat hx
  rw [hy]
  by_cases hab : e.a = e.b
  · simp only [hab, ↓reduceIte, decide_eq_true_eq] at h ⊢
    omega
  · simp only [hab, ↓reduceIte, decide_eq_true_eq] at h ⊢
    have := Nat.mul_le_mul_left e.b hx'
    omega

namespace EllipseQuadrant

/-- accepted points of a row are closed towards the right end of the box -/
def LeftMono (q : EllipseQuadrant) : Prop :=
  ∀ y x x', q.colsStart ≤ x → x ≤ x' → x' < q.colsEnd →
    q.contains ⟨x, y⟩ = true → q.contains ⟨x', y⟩ = true

/-- accepted points of a row are closed towards the left end of the box -/
def RightMono (q : EllipseQuadrant) : Prop :=
  ∀ y x x', q.colsStart ≤ x' → x' ≤ x → x < q.colsEnd →
    q.contains ⟨x, y⟩ = true → q.contains ⟨x', y⟩ = true

theorem new_bbox (tl : Pt) (r : Sz) (k : Quadrant) : (new tl r k).bbox = ⟨tl, r⟩ := rfl

theorem new_colsStart (tl : Pt) (r : Sz) (k : Quadrant) : (new tl r k).colsStart = tl.x := rfl

theorem new_colsEnd (tl : Pt) (r : Sz) (k : Quadrant) (h : (⟨tl, r⟩ : Rect).InRange) :
    (new tl r k).colsEnd = tl.x + r.w := by
  unfold colsEnd; rw [new_bbox, Rect.columnsEnd_eq h]

/-- Doubled x centre of the quadrants whose ellipse lies to the right of the box start
(top left, bottom left): `2 tl.x + 2 rw - 1`. -/
theorem new_center_x_left (tl : Pt) (r : Sz) (k : Quadrant) (hk : k = .topLeft ∨ k = .bottomLeft)
    (hr : 1 ≤ r.w) : (new tl r k).center2x.x = tl.x * 2 + 2 * r.w - 1 := by
  rcases hk with rfl | rfl <;> simp only [new, ellipseCenter2x] <;> omega

/-- Doubled x centre of the right quadrants: `2 tl.x - 1`. -/
theorem new_center_x_right (tl : Pt) (r : Sz) (k : Quadrant) (hk : k = .topRight ∨ k = .bottomRight)
    (hr : 1 ≤ r.w) : (new tl r k).center2x.x = tl.x * 2 - 1 := by
  rcases hk with rfl | rfl <;> simp only [new, ellipseCenter2x] <;> omega

theorem new_leftMono (tl : Pt) (r : Sz) (k : Quadrant) (hk : k = .topLeft ∨ k = .bottomLeft)
    (h : (⟨tl, r⟩ : Rect).InRange) : (new tl r k).LeftMono := by
  intro y x x' h1 h2 h3 hc
  rw [new_colsStart] at h1
  rw [new_colsEnd tl r k h] at h3
  have hr : 1 ≤ r.w := by omega
  unfold contains at hc ⊢
  apply EllipseContains.contains_mono _ (by rfl) _ hc
  simp only [new_center_x_left tl r k hk hr]
  exact int_sq_le_of_nonpos (by omega) (by omega)

theorem new_rightMono (tl : Pt) (r : Sz) (k : Quadrant) (hk : k = .topRight ∨ k = .bottomRight)
    (h : (⟨tl, r⟩ : Rect).InRange) : (new tl r k).RightMono := by
  intro y x x' h1 h2 h3 hc
  rw [new_colsStart] at h1
  rw [new_colsEnd tl r k h] at h3
  have hr : 1 ≤ r.w := by omega
  unfold contains at hc ⊢
  apply EllipseContains.contains_mono _ (by rfl) _ hc
  simp only [new_center_x_right tl r k hk hr]
  exact int_sq_le_of_nonneg (by omega) (by omega)

end EllipseQuadrant

/-! ### geometry of a `RoundedRectangleContains` -/

namespace RRContains

/-- A left corner box starts at the first column, ends within the columns, and its accepted points
reach the inner edge of the box. -/
def LeftOK (c : RRContains) (q : EllipseQuadrant) : Prop :=
  q.colsStart = c.colsStart ∧ q.colsStart ≤ q.colsEnd ∧ q.colsEnd ≤ c.colsEnd ∧ q.LeftMono

def RightOK (c : RRContains) (q : EllipseQuadrant) : Prop :=
  q.colsEnd = c.colsEnd ∧ q.colsStart ≤ q.colsEnd ∧ c.colsStart ≤ q.colsStart ∧ q.RightMono

structure Geo (c : RRContains) : Prop where
  cols : c.colsStart ≤ c.colsEnd
  tl : c.LeftOK c.topLeft
  bl : c.LeftOK c.bottomLeft
  tr : c.RightOK c.topRight
  br : c.RightOK c.bottomRight

theorem leftCorner_ok {c : RRContains} (hg : c.Geo) {y : Int} {q : EllipseQuadrant}
    (h : c.leftCorner y = some q) : c.LeftOK q := by
  unfold leftCorner at h
  split at h
  · cases h; exact hg.tl
  · split at h
    · cases h; exact hg.bl
    · cases h

theorem rightCorner_ok {c : RRContains} (hg : c.Geo) {y : Int} {q : EllipseQuadrant}
    (h : c.rightCorner y = some q) : c.RightOK q := by
  unfold rightCorner at h
  split at h
  · cases h; exact hg.tr
  · split at h
    · cases h; exact hg.br
    · cases h

/-- `contains` as a conjunction: inside the rows and columns, and accepted by the left corner of the
row if `x` is left of that corner box's end, and by the right corner of the row if `x` is not left
of that corner box's start. -/
theorem contains_iff (c : RRContains) (p : Pt) :
    c.contains p = true ↔
      (c.rowsStart ≤ p.y ∧ p.y < c.rowsEnd) ∧ (c.colsStart ≤ p.x ∧ p.x < c.colsEnd) ∧
      (∀ q, c.leftCorner p.y = some q → p.x < q.colsEnd → q.contains p = true) ∧
      (∀ q, c.rightCorner p.y = some q → q.colsStart ≤ p.x → q.contains p = true) := by
  unfold contains
  by_cases hr : c.rowsStart ≤ p.y ∧ p.y < c.rowsEnd
  · by_cases hc : c.colsStart ≤ p.x ∧ p.x < c.colsEnd
    · simp only [hr, hc, and_self, decide_true, Bool.and_self, Bool.not_true, Bool.false_eq_true,
        ↓reduceIte, List.all_append, Bool.and_eq_true, true_and]
      apply and_congr
      · cases hl : c.leftCorner p.y with
        | none => simp
        | some q =>
          by_cases hx : p.x < q.colsEnd
          · simp [Option.filter, hx]
          · simp [Option.filter, hx]
      · cases hl : c.rightCorner p.y with
        | none => simp
        | some q =>
          by_cases hx : q.colsStart ≤ p.x
          · simp [Option.filter, hx]
          · simp [Option.filter, hx]
    · simp [hc]
  · simp [hr]

theorem xStart_spec {c : RRContains} (hg : c.Geo) (y : Int) :
    c.colsStart ≤ c.xStart y ∧ c.xStart y ≤ c.colsEnd ∧
      ∀ x, c.colsStart ≤ x → x < c.colsEnd →
        ((∀ q, c.leftCorner y = some q → x < q.colsEnd → q.contains ⟨x, y⟩ = true) ↔
          c.xStart y ≤ x) := by
  unfold xStart
  cases hl : c.leftCorner y with
  | none =>
    simp only [Option.map_none, Option.getD_none]
    refine ⟨Int.le_refl _, hg.cols, ?_⟩
    intro x h1 _
    constructor
    · intro _; exact h1
    · intro _ q hq; cases hq
  | some q =>
    simp only [Option.map_some, Option.getD_some]
    obtain ⟨e1, e2, e3, hm⟩ := leftCorner_ok hg hl
    obtain ⟨f1, f2, f3⟩ := firstHit_spec (p := fun x => q.contains ⟨x, y⟩) e2
      (fun x x' a b c' d => hm y x x' a b c' d)
    refine ⟨by omega, by omega, ?_⟩
    intro x h1 h2
    constructor
    · intro h
      by_cases hx : x < q.colsEnd
      · exact (f3 x (by omega) hx).mp (h q rfl hx)
      · omega
    · intro h q' hq' hx
      cases hq'
      exact (f3 x (by omega) hx).mpr h

theorem xEnd_spec {c : RRContains} (hg : c.Geo) (y : Int) :
    c.colsStart ≤ c.xEnd y ∧ c.xEnd y ≤ c.colsEnd ∧
      ∀ x, c.colsStart ≤ x → x < c.colsEnd →
        ((∀ q, c.rightCorner y = some q → q.colsStart ≤ x → q.contains ⟨x, y⟩ = true) ↔
          x < c.xEnd y) := by
  unfold xEnd
  cases hl : c.rightCorner y with
  | none =>
    simp only [Option.map_none, Option.getD_none]
    refine ⟨hg.cols, Int.le_refl _, ?_⟩
    intro x _ h2
    constructor
    · intro _; exact h2
    · intro _ q hq; cases hq
  | some q =>
    simp only [Option.map_some, Option.getD_some]
    obtain ⟨e1, e2, e3, hm⟩ := rightCorner_ok hg hl
    obtain ⟨f1, f2, f3⟩ := lastHit_spec (p := fun x => q.contains ⟨x, y⟩) e2
      (fun x x' a b c' d => hm y x x' a b c' d)
    refine ⟨by omega, by omega, ?_⟩
    intro x h1 h2
    constructor
    · intro h
      by_cases hx : q.colsStart ≤ x
      · exact (f3 x hx (by omega)).mp (h q rfl hx)
      · omega
    · intro h q' hq' hx
      cases hq'
      exact (f3 x hx (by omega)).mpr h

/-- **Row lemma.** In every row of the shape `contains` accepts exactly the scanline of that row:
`x_start ≤ x < x_end`; the scanline lies within the columns. -/
theorem contains_row_iff {c : RRContains} (hg : c.Geo) (x y : Int) :
    c.contains ⟨x, y⟩ = true ↔
      (c.rowsStart ≤ y ∧ y < c.rowsEnd) ∧ c.xStart y ≤ x ∧ x < c.xEnd y := by
  obtain ⟨a1, a2, a3⟩ := xStart_spec hg y
  obtain ⟨b1, b2, b3⟩ := xEnd_spec hg y
  rw [contains_iff]
  constructor
  · rintro ⟨hr, hc, hl, hrr⟩
    exact ⟨hr, (a3 x hc.1 hc.2).mp hl, (b3 x hc.1 hc.2).mp hrr⟩
  · rintro ⟨hr, h1, h2⟩
    have hc : c.colsStart ≤ x ∧ x < c.colsEnd := ⟨by omega, by omega⟩
    exact ⟨hr, hc, (a3 x hc.1 hc.2).mpr h1, (b3 x hc.1 hc.2).mpr h2⟩

/-! ### the `Scanlines` iterator -/

theorem row_advance (c : RRContains) (k : Int) : ({ c with rowsStart := k } : RRContains).row = c.row := rfl

theorem toListFuel_eq : ∀ (fuel : Nat) (c : RRContains), (c.rowsEnd - c.rowsStart).toNat < fuel →
    c.toListFuel fuel = (irange c.rowsStart c.rowsEnd).map c.row := by
  intro fuel
  induction fuel with
  | zero => intro c h; omega
  | succ fuel ih =>
    intro c h
    unfold toListFuel next
    by_cases hy : c.rowsStart < c.rowsEnd
    · simp only [hy, ↓reduceIte]
      rw [ih _ (by dsimp only; omega), irange_cons hy]
      simp only [List.map_cons, row_advance]
    · simp only [hy, ↓reduceIte]
      rw [irange_empty (a := c.rowsStart) (b := c.rowsEnd) (by omega)]; rfl

/-- A `for` loop over `Scanlines` sees one scanline per row (the iterator never ends early). -/
theorem toList_eq (c : RRContains) : c.toList = (irange c.rowsStart c.rowsEnd).map c.row :=
  toListFuel_eq _ c (by omega)

end RRContains
end EG
