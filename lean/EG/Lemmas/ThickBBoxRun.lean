/-
  EG.Lemmas.ThickBBoxRun — the whole run of the `ParallelsIterator` of a stroked line
  (`StrokeOffset::None`): the list of parallels it yields, and the order theorem: in the quadrant
  order of the perpendicular walk, every parallel starts between the LAST right and the LAST left
  parallel, and so does its (shortened) end - the two pairs of corners `Line::extents` returns.
-/
import EG.Lemmas.ThickBBoxSide
set_option linter.unusedSimpArgs false
namespace EG
namespace Thick
open ParallelsIterator

/-- A parallel of the run: the side it was taken from, its Bresenham start state, its type. -/
abbrev ParItem := LineSide × Bresenham × ParallelLineType

/-- The parallels the iterator yields within `fuel` calls of `next` (until the first `None`). -/
def runPar : Nat → ParallelsIterator → List ParItem
  | 0, _ => []
  | f + 1, it =>
    match it.next with
    | some (some r, it') => (it.nextSide, r.1, r.2) :: runPar f it'
    | _ => []

/-- Start point and type of a parallel. -/
abbrev Last := Pt × ParallelLineType

/-- The last left and the last right parallel of a list of parallels (`Line::extents`). -/
def lasts : List ParItem → Last × Last → Last × Last
  | [], acc => acc
  | (.left, b, ty) :: xs, (_, R) => lasts xs ((b.point, ty), R)
  | (.right, b, ty) :: xs, (L, _) => lasts xs (L, (b.point, ty))

/-- The start of a parallel minus its shortening. -/
def adj (c : StrokeCtx) (x : Last) : Pt := x.1 - c.redOf x.2

/-- The invariant of the iterator between two calls of `next`: `L`, `R` are the last left / right
parallels so far (the centre line `ctr` stands in before the first one). -/
structure GInv (c : StrokeCtx) (ctr : Pt) (it : ParallelsIterator) (L R : Last) : Prop where
  hperp : it.perpendicularParameters = c.perp
  hpp : it.parallelParameters = c.pp
  hoff : it.strokeOffset = .none
  left : LeftInv c it.left L.1 L.2
  le1 : -c.D < it.leftError
  le2 : it.leftError ≤ c.D
  right : RightInv c it.right R.1 R.2
  re1 : -c.D < it.rightError
  re2 : it.rightError ≤ c.D
  oL : Cone c.M' c.m' (L.1 - ctr)
  oLa : Cone c.M' c.m' (adj c L - ctr)
  oR : Cone c.M' c.m' (ctr - R.1)
  oRa : Cone c.M' c.m' (ctr - adj c R)

/-- The bound on the initial error of a parallel. -/
def ErrOK (c : StrokeCtx) (b : Bresenham) (ty : ParallelLineType) : Prop :=
  (ty = .normal → b.error ≤ c.D) ∧ (ty = .extra → b.error ≤ 2 * c.d - c.D ∧ 0 < c.d)

/-- One call of `next` that yields a parallel. -/
theorem next_spec (c : StrokeCtx) (hv : c.Valid) (ctr : Pt) (it it' : ParallelsIterator) (L R : Last)
    (hg : GInv c ctr it L R) (b : Bresenham) (ty : ParallelLineType)
    (h : it.next = some (some (b, ty), it')) :
    ErrOK c b ty ∧ it'.nextSide = it.nextSide.swap ∧
    ((it.nextSide = .left ∧ GInv c ctr it' (b.point, ty) R ∧ Cone c.M' c.m' (b.point - L.1) ∧
        Cone c.M' c.m' (adj c (b.point, ty) - adj c L)) ∨
     (it.nextSide = .right ∧ GInv c ctr it' L (b.point, ty) ∧ Cone c.M' c.m' (R.1 - b.point) ∧
        Cone c.M' c.m' (adj c R - adj c (b.point, ty)))) := by
  unfold ParallelsIterator.next at h
  by_cases hacc : it.thicknessAccumulator * it.thicknessAccumulator > it.thicknessThreshold
  · simp only [hacc, ↓reduceIte, Option.some.injEq, Prod.mk.injEq] at h
    exact absurd h.1 (by simp)
  · simp only [hacc, ↓reduceIte] at h
    cases hnp : it.nextParallel it.nextSide with
    | none => rw [hnp] at h; cases h
    | some r =>
      obtain ⟨⟨pt, e⟩, it1⟩ := r
      rw [hnp] at h
      simp only at h
      unfold ParallelsIterator.nextParallel at hnp
      cases hside : it.nextSide with
      | left =>
        rw [hside] at hnp
        obtain ⟨P', ty', hpt, g2, g3, g4, g5, g6, g7, g8, g9⟩ :=
          nextParallel_left_spec c hv loopFuel it L.1 L.2 hg.hperp hg.hpp hg.left hg.le1 hg.le2 pt e it1 hnp
        have hoff1 : it1.strokeOffset = .none := by rw [g9]; exact hg.hoff
        have hns1 : it1.nextSide = .left := by rw [g9]; exact hside
        have hperp1 : it1.perpendicularParameters = c.perp := by rw [g9]; exact hg.hperp
        have hpp1 : it1.parallelParameters = c.pp := by rw [g9]; exact hg.hpp
        have hr1 : it1.right = it.right := by rw [g9]
        have hre1 : it1.rightError = it.rightError := by rw [g9]
        rcases hpt with ⟨rfl, rfl⟩ | ⟨rfl, rfl⟩
        · simp only [hoff1, ↓reduceIte, Option.some.injEq, Prod.mk.injEq] at h
          obtain ⟨⟨hb, hty⟩, hit'⟩ := h
          subst hb hty hit'
          refine ⟨⟨fun _ => g7 rfl, (by intro hc; cases hc)⟩, (by show it1.nextSide.swap = _; rw [hns1]),
            Or.inl ⟨rfl, ?_, g2, g3⟩⟩
          exact ⟨hperp1, hpp1, rfl, g4, g5, g6, by show RightInv c it1.right _ _; rw [hr1]; exact hg.right,
            by show _ < it1.rightError; rw [hre1]; exact hg.re1,
            by show it1.rightError ≤ _; rw [hre1]; exact hg.re2,
            cone_trans hv.ax' hg.oL g2, cone_trans hv.ax' hg.oLa g3, hg.oR, hg.oRa⟩
        · simp only [hoff1, ↓reduceIte, Option.some.injEq, Prod.mk.injEq] at h
          obtain ⟨⟨hb, hty⟩, hit'⟩ := h
          subst hb hty hit'
          refine ⟨⟨(by intro hc; cases hc), fun _ => g8 rfl⟩, (by show it1.nextSide.swap = _; rw [hns1]),
            Or.inl ⟨rfl, ?_, g2, g3⟩⟩
          exact ⟨hperp1, hpp1, rfl, g4, g5, g6, by show RightInv c it1.right _ _; rw [hr1]; exact hg.right,
            by show _ < it1.rightError; rw [hre1]; exact hg.re1,
            by show it1.rightError ≤ _; rw [hre1]; exact hg.re2,
            cone_trans hv.ax' hg.oL g2, cone_trans hv.ax' hg.oLa g3, hg.oR, hg.oRa⟩
      | right =>
        rw [hside] at hnp
        obtain ⟨P', ty', hpt, g2, g3, g4, g5, g6, g7, g8, g9⟩ :=
          nextParallel_right_spec c hv loopFuel it R.1 R.2 hg.hperp hg.hpp hg.right hg.re1 hg.re2 pt e it1 hnp
        have hoff1 : it1.strokeOffset = .none := by rw [g9]; exact hg.hoff
        have hns1 : it1.nextSide = .right := by rw [g9]; exact hside
        have hperp1 : it1.perpendicularParameters = c.perp := by rw [g9]; exact hg.hperp
        have hpp1 : it1.parallelParameters = c.pp := by rw [g9]; exact hg.hpp
        have hl1 : it1.left = it.left := by rw [g9]
        have hle1 : it1.leftError = it.leftError := by rw [g9]
        rcases hpt with ⟨rfl, rfl⟩ | ⟨rfl, rfl⟩
        · simp only [hoff1, ↓reduceIte, Option.some.injEq, Prod.mk.injEq] at h
          obtain ⟨⟨hb, hty⟩, hit'⟩ := h
          subst hb hty hit'
          refine ⟨⟨fun _ => g7 rfl, (by intro hc; cases hc)⟩, (by show it1.nextSide.swap = _; rw [hns1]),
            Or.inr ⟨rfl, ?_, g2, g3⟩⟩
          exact ⟨hperp1, hpp1, rfl, by show LeftInv c it1.left _ _; rw [hl1]; exact hg.left,
            by show _ < it1.leftError; rw [hle1]; exact hg.le1,
            by show it1.leftError ≤ _; rw [hle1]; exact hg.le2, g4, g5, g6,
            hg.oL, hg.oLa, cone_trans hv.ax' g2 hg.oR, cone_trans hv.ax' g3 hg.oRa⟩
        · simp only [hoff1, ↓reduceIte, Option.some.injEq, Prod.mk.injEq] at h
          obtain ⟨⟨hb, hty⟩, hit'⟩ := h
          subst hb hty hit'
          refine ⟨⟨(by intro hc; cases hc), fun _ => g8 rfl⟩, (by show it1.nextSide.swap = _; rw [hns1]),
            Or.inr ⟨rfl, ?_, g2, g3⟩⟩
          exact ⟨hperp1, hpp1, rfl, by show LeftInv c it1.left _ _; rw [hl1]; exact hg.left,
            by show _ < it1.leftError; rw [hle1]; exact hg.le1,
            by show it1.leftError ≤ _; rw [hle1]; exact hg.le2, g4, g5, g6,
            hg.oL, hg.oLa, cone_trans hv.ax' g2 hg.oR, cone_trans hv.ax' g3 hg.oRa⟩

/-- **The order theorem for the run.** With `(Lf, Rf)` the last left / right parallels of the run
from a state satisfying the invariant: `Lf >= L`, `R >= Rf`, `Lf >= ctr >= Rf` (starts and
shortened ends), and every parallel `x` of the run lies between: `Lf >= x >= Rf` (starts and
shortened ends), with the bound on its initial error. -/
theorem run_order (c : StrokeCtx) (hv : c.Valid) (ctr : Pt) :
    ∀ (F : Nat) (it : ParallelsIterator) (L R : Last), GInv c ctr it L R →
    Cone c.M' c.m' ((lasts (runPar F it) (L, R)).1.1 - L.1) ∧
    Cone c.M' c.m' (adj c (lasts (runPar F it) (L, R)).1 - adj c L) ∧
    Cone c.M' c.m' (R.1 - (lasts (runPar F it) (L, R)).2.1) ∧
    Cone c.M' c.m' (adj c R - adj c (lasts (runPar F it) (L, R)).2) ∧
    ∀ x ∈ runPar F it,
      Cone c.M' c.m' ((lasts (runPar F it) (L, R)).1.1 - x.2.1.point) ∧
      Cone c.M' c.m' (x.2.1.point - (lasts (runPar F it) (L, R)).2.1) ∧
      Cone c.M' c.m' (adj c (lasts (runPar F it) (L, R)).1 - adj c (x.2.1.point, x.2.2)) ∧
      Cone c.M' c.m' (adj c (x.2.1.point, x.2.2) - adj c (lasts (runPar F it) (L, R)).2) ∧
      ErrOK c x.2.1 x.2.2
  | 0, it, L, R, _ => by
    simp only [runPar, lasts]
    exact ⟨cone_zero _ _ _, cone_zero _ _ _, cone_zero _ _ _, cone_zero _ _ _, by intro x hx; cases hx⟩
  | F + 1, it, L, R, hg => by
    unfold runPar
    cases hn : it.next with
    | none =>
      simp only [lasts]
      exact ⟨cone_zero _ _ _, cone_zero _ _ _, cone_zero _ _ _, cone_zero _ _ _, by intro x hx; cases hx⟩
    | some r =>
      obtain ⟨o, it'⟩ := r
      cases o with
      | none =>
        simp only [lasts]
        exact ⟨cone_zero _ _ _, cone_zero _ _ _, cone_zero _ _ _, cone_zero _ _ _,
          by intro x hx; cases hx⟩
      | some r' =>
        obtain ⟨b, ty⟩ := r'
        simp only
        obtain ⟨herr, _, hcase⟩ := next_spec c hv ctr it it' L R hg b ty hn
        rcases hcase with ⟨hs, hg', c1, c2⟩ | ⟨hs, hg', c1, c2⟩
        · rw [hs]
          simp only [lasts]
          obtain ⟨i1, i2, i3, i4, i5⟩ := run_order c hv ctr F it' (b.point, ty) R hg'
          refine ⟨cone_trans hv.ax' c1 i1, cone_trans hv.ax' c2 i2, i3, i4, ?_⟩
          intro x hx
          rcases List.mem_cons.mp hx with rfl | hx
          · refine ⟨i1, ?_, i2, ?_, herr⟩
            · exact cone_trans hv.ax' i3 (cone_trans hv.ax' hg'.oR hg'.oL)
            · exact cone_trans hv.ax' i4 (cone_trans hv.ax' hg'.oRa hg'.oLa)
          · exact i5 x hx
        · rw [hs]
          simp only [lasts]
          obtain ⟨i1, i2, i3, i4, i5⟩ := run_order c hv ctr F it' L (b.point, ty) hg'
          refine ⟨i1, i2, cone_trans hv.ax' i3 c1, cone_trans hv.ax' i4 c2, ?_⟩
          intro x hx
          rcases List.mem_cons.mp hx with rfl | hx
          · refine ⟨?_, i3, ?_, i4, herr⟩
            · exact cone_trans hv.ax' (cone_trans hv.ax' hg'.oR hg'.oL) i1
            · exact cone_trans hv.ax' (cone_trans hv.ax' hg'.oRa hg'.oLa) i2
          · exact i5 x hx

end Thick
end EG
