/-
  EG.Lemmas.TriangleExact — the converse of EG.Lemmas.TriangleCover: for a triangle with non-zero
  area every point of `points()` is accepted by `contains()`, hence
  `points() = bounding_box().points().filter(contains)`.

  Ingredients: the pixels of a downward line within one row are contiguous (`row_contiguous`), so a
  lattice point that is no pixel of an edge has all pixels of that edge in its row strictly on one
  side, and then it lies strictly on that side of the ideal edge (`pixel_left` / `pixel_right`
  contraposed). A point of the row hull that is no edge pixel therefore lies strictly between the
  long edge `p1 p3` and one of the short edges; the third half-plane follows from the barycentric
  identity of the row.
-/
import EG.Lemmas.TriangleCover
import EG.Lemmas.Scanline
namespace EG
namespace Line

theorem pt_eta (q : Pt) : (⟨q.x, q.y⟩ : Pt) = q := by cases q; rfl

theorem ptAt_y_le {l : Line} (h : 0 ≤ dyOf l) {i j : Nat} (hij : i ≤ j) :
    (ptAt l i).y ≤ (ptAt l j).y := by
  have := ptAt_y_mono h i (j - i)
  have e : i + (j - i) = j := by omega
  rwa [e] at this

/-- Within one row the pixels of a downward line are contiguous. -/
theorem row_contiguous {l : Line} (h : 0 ≤ dyOf l) {q q' : Pt} (hq : q ∈ points l)
    (hq' : q' ∈ points l) (hy : q.y = q'.y) {x : Int} (h1 : q.x ≤ x) (h2 : x ≤ q'.x) :
    (⟨x, q.y⟩ : Pt) ∈ points l := by
  obtain ⟨k, hk, rfl⟩ := mem_points.mp hq
  obtain ⟨k', hk', rfl⟩ := mem_points.mp hq'
  by_cases hm : yMajor l
  · rw [ptAt_of_yMajor hm, ptAt_of_yMajor hm] at hy
    dsimp only at hy
    rw [sgn_of_nonneg h] at hy
    have e : k = k' := by omega
    subst e
    have : x = (ptAt l k).x := by omega
    rw [this, pt_eta]
    exact mem_points.mpr ⟨k, hk, rfl⟩
  · have ex : ∀ m : Nat, (ptAt l m).x = l.start.x + (m : Int) * sgn (dxOf l) := by
      intro m; rw [ptAt_of_xMajor hm]
    rw [ex k] at h1
    rw [ex k'] at h2
    rcases sgn_cases (dxOf l) with ⟨_, hs, _⟩ | ⟨_, hs, _⟩
    · rw [hs] at h1 h2
      have hm0 : 0 ≤ x - l.start.x := by omega
      obtain ⟨m, em⟩ := Int.eq_ofNat_of_zero_le hm0
      have hkm : k ≤ m := by omega
      have hmk : m ≤ k' := by omega
      have y1 := ptAt_y_le h hkm
      have y2 := ptAt_y_le h hmk
      refine mem_points.mpr ⟨m, by omega, ?_⟩
      rw [Pt.ext_iff']
      refine ⟨?_, ?_⟩
      · rw [ex m, hs]; dsimp only; omega
      · dsimp only; omega
    · rw [hs] at h1 h2
      have hm0 : 0 ≤ l.start.x - x := by omega
      obtain ⟨m, em⟩ := Int.eq_ofNat_of_zero_le hm0
      have hkm : k' ≤ m := by omega
      have hmk : m ≤ k := by omega
      have y1 := ptAt_y_le h hkm
      have y2 := ptAt_y_le h hmk
      refine mem_points.mpr ⟨m, by omega, ?_⟩
      rw [Pt.ext_iff']
      refine ⟨?_, ?_⟩
      · rw [ex m, hs]; dsimp only; omega
      · dsimp only; omega

/-- All pixels of the line in `p`'s row are strictly left of `p`. -/
def AllLeft (l : Line) (p : Pt) : Prop := ∀ q ∈ points l, q.y = p.y → q.x < p.x
/-- All pixels of the line in `p`'s row are strictly right of `p`. -/
def AllRight (l : Line) (p : Pt) : Prop := ∀ q ∈ points l, q.y = p.y → p.x < q.x

/-- A lattice point that is no pixel of a downward line has the line's pixels of its row on one
side. -/
theorem allLeft_or_allRight {l : Line} (h : 0 ≤ dyOf l) {p : Pt} (hp : p ∉ points l) :
    AllLeft l p ∨ AllRight l p := by
  by_cases hl : AllLeft l p
  · exact Or.inl hl
  · right
    unfold AllLeft at hl
    simp only [not_forall] at hl
    obtain ⟨q', hq', hy', hx'⟩ := hl
    intro q hq hy
    by_contra hc
    apply hp
    have := row_contiguous h hq hq' (by omega) (show q.x ≤ p.x by omega) (show p.x ≤ q'.x by omega)
    rw [hy, pt_eta] at this
    exact this

/-- If all pixels of a strictly downward line in `p`'s row are left of `p`, then `p` is strictly
right of the ideal line. -/
theorem side_neg_of_allLeft {l : Line} (hdy : 0 < dyOf l) {p : Pt} (h1 : l.start.y ≤ p.y)
    (h2 : p.y ≤ l.stop.y) (h : AllLeft l p) : side l p < 0 := by
  by_contra hc
  obtain ⟨q, hq, hy, hx⟩ := pixel_right hdy p h1 h2 (by omega)
  have := h q hq hy
  omega

theorem side_pos_of_allRight {l : Line} (hdy : 0 < dyOf l) {p : Pt} (h1 : l.start.y ≤ p.y)
    (h2 : p.y ≤ l.stop.y) (h : AllRight l p) : 0 < side l p := by
  by_contra hc
  obtain ⟨q, hq, hy, hx⟩ := pixel_left hdy p h1 h2 (by omega)
  have := h q hq hy
  omega

theorem start_mem_points (l : Line) : l.start ∈ points l :=
  mem_points.mpr ⟨0, by have := dmaj_nonneg l; omega, (ptAt_zero l).symm⟩

theorem stop_mem_points (l : Line) : l.stop ∈ points l := by
  have hd := dmaj_nonneg l
  exact mem_points.mpr ⟨(dmaj l).toNat, by omega, (ptAt_last l _ (by omega)).symm⟩

end Line

namespace Triangle
open Line

/-- Sign of the third edge function in the upper part of the triangle (rows `y1 .. y2`). -/
theorem third_sign_top {e12 e23 e31 y1 y2 y3 py : Int} (hy1 : y1 ≤ py) (hy2 : py ≤ y2)
    (h12 : y1 < y2) (h23 : y2 ≤ y3)
    (I : (e12 + e23 + e31) * (py - y1) = e31 * (y2 - y1) + e12 * (y3 - y1))
    (p12 : 0 < e12) (p31 : 0 < e31) : 0 ≤ e23 := by
  have hpy : y1 < py := by
    by_contra hc
    have e : py = y1 := by omega
    rw [e] at I
    nlinarith [mul_pos p31 (show 0 < y2 - y1 by omega), mul_pos p12 (show 0 < y3 - y1 by omega)]
  by_contra hc
  nlinarith [mul_pos (show 0 < -e23 by omega) (show 0 < py - y1 by omega),
    mul_nonneg (Int.le_of_lt p31) (show 0 ≤ y2 - py by omega),
    mul_nonneg (Int.le_of_lt p12) (show 0 ≤ y3 - py by omega)]

/-- Sign of the third edge function in the lower part of the triangle (rows `y2 .. y3`). -/
theorem third_sign_bottom {e12 e23 e31 y1 y2 y3 py : Int} (hy2 : y2 ≤ py) (hy3 : py ≤ y3)
    (h12 : y1 ≤ y2) (h23 : y2 < y3)
    (I : (e12 + e23 + e31) * (y3 - py) = e23 * (y3 - y1) + e31 * (y3 - y2))
    (p23 : 0 < e23) (p31 : 0 < e31) : 0 ≤ e12 := by
  have hpy : py < y3 := by
    by_contra hc
    have e : py = y3 := by omega
    rw [e] at I
    nlinarith [mul_pos p31 (show 0 < y3 - y2 by omega), mul_pos p23 (show 0 < y3 - y1 by omega)]
  by_contra hc
  nlinarith [mul_pos (show 0 < -e12 by omega) (show 0 < y3 - py by omega),
    mul_nonneg (Int.le_of_lt p31) (show 0 ≤ py - y2 by omega),
    mul_nonneg (Int.le_of_lt p23) (show 0 ≤ py - y1 by omega)]

/-- **A point of `points()` that is no edge pixel lies in the closed mathematical triangle**
(non-zero area, bounding box within the `i32` range). -/
theorem closedIn_of_mem_points (t : Triangle) (h : t.boundingBox.InRange) (ha : t.areaDoubled ≠ 0)
    (p : Pt) (hp : p ∈ t.points) (hne : p ∉ t.edgePoints) : ClosedIn t p := by
  have hso := sortedYx_mem_orders t
  rw [← closedIn_of_mem_orders hso p]
  have ha' : t.sortedYx.areaDoubled ≠ 0 := fun c => ha ((areaDoubled_eq_zero_iff_of_mem_orders hso).mp c)
  obtain ⟨hy12, hy23⟩ := sortedYx_y_le t
  have hused : usedLines t = [⟨t.sortedYx.v1, t.sortedYx.v2⟩, ⟨t.sortedYx.v1, t.sortedYx.v3⟩,
      ⟨t.sortedYx.v2, t.sortedYx.v3⟩] := by
    rw [usedLines_of_nonzero ha]; rfl
  have hedge : t.edgePoints = Line.points ⟨t.sortedYx.v1, t.sortedYx.v2⟩ ++
      (Line.points ⟨t.sortedYx.v1, t.sortedYx.v3⟩ ++ Line.points ⟨t.sortedYx.v2, t.sortedYx.v3⟩) := by
    unfold edgePoints edgeLines; simp
  rw [hedge] at hne
  simp only [List.mem_append, not_or] at hne
  obtain ⟨n12, n13, n23⟩ := hne
  obtain ⟨q1, q2, hq1, hq2, hx1, hx2⟩ := (mem_points_iff_between t h p).mp hp
  obtain ⟨l1, hl1, hq1, hy1⟩ := mem_rowPix.mp hq1
  obtain ⟨l2, hl2, hq2, hy2⟩ := mem_rowPix.mp hq2
  rw [hused] at hl1 hl2
  rw [← edgeFn_area] at ha'
  unfold ClosedIn
  generalize t.sortedYx.v1 = p1 at *
  generalize t.sortedYx.v2 = p2 at *
  generalize t.sortedYx.v3 = p3 at *
  have hsum := edgeFn_sum p1 p2 p3 p
  have s12 : side ⟨p1, p2⟩ p = edgeFn p1 p2 p := rfl
  have s23 : side ⟨p2, p3⟩ p = edgeFn p2 p3 p := rfl
  have s13 : side ⟨p1, p3⟩ p = -edgeFn p3 p1 p := by
    rw [← edgeFn_swap]; rfl
  have I1 : (edgeFn p1 p2 p + edgeFn p2 p3 p + edgeFn p3 p1 p) * (p.y - p1.y) =
      edgeFn p3 p1 p * (p2.y - p1.y) + edgeFn p1 p2 p * (p3.y - p1.y) := by
    unfold edgeFn; ring
  have I2 : (edgeFn p1 p2 p + edgeFn p2 p3 p + edgeFn p3 p1 p) * (p3.y - p.y) =
      edgeFn p2 p3 p * (p3.y - p1.y) + edgeFn p3 p1 p * (p3.y - p2.y) := by
    unfold edgeFn; ring
  have I1n : (-edgeFn p1 p2 p + -edgeFn p2 p3 p + -edgeFn p3 p1 p) * (p.y - p1.y) =
      -edgeFn p3 p1 p * (p2.y - p1.y) + -edgeFn p1 p2 p * (p3.y - p1.y) := by
    unfold edgeFn; ring
  have I2n : (-edgeFn p1 p2 p + -edgeFn p2 p3 p + -edgeFn p3 p1 p) * (p3.y - p.y) =
      -edgeFn p2 p3 p * (p3.y - p1.y) + -edgeFn p3 p1 p * (p3.y - p2.y) := by
    unfold edgeFn; ring
  have hy13 : p1.y < p3.y := by
    by_contra hc
    have e1 : p3.y = p1.y := by omega
    have e2 : p2.y = p1.y := by omega
    apply ha'
    unfold edgeFn; rw [e1, e2]; ring
  -- the status of the three edges
  have d12 : 0 ≤ dyOf ⟨p1, p2⟩ := by unfold dyOf; dsimp only; omega
  have d13 : 0 ≤ dyOf ⟨p1, p3⟩ := by unfold dyOf; dsimp only; omega
  have d23 : 0 ≤ dyOf ⟨p2, p3⟩ := by unfold dyOf; dsimp only; omega
  have st12 := allLeft_or_allRight d12 n12
  have st13 := allLeft_or_allRight d13 n13
  have st23 := allLeft_or_allRight d23 n23
  -- rows of the witnesses
  have b1 : ∀ (l : Line) (q : Pt), q ∈ Line.points l → q.y = p.y →
      min l.start.y l.stop.y ≤ p.y ∧ p.y ≤ max l.start.y l.stop.y := by
    intro l q hq hy
    obtain ⟨k, hk, rfl⟩ := Line.mem_points.mp hq
    have := ptAt_in_box l k hk
    omega
  -- strictness of the witnesses
  have hx1' : q1.x < p.x := by
    by_contra hc
    have e : q1 = p := by rw [Pt.ext_iff']; exact ⟨by omega, hy1⟩
    rw [e] at hq1
    simp only [List.mem_cons, List.mem_nil_iff, or_false] at hl1
    rcases hl1 with rfl | rfl | rfl
    · exact n12 hq1
    · exact n13 hq1
    · exact n23 hq1
  have hx2' : p.x < q2.x := by
    by_contra hc
    have e : q2 = p := by rw [Pt.ext_iff']; exact ⟨by omega, hy2⟩
    rw [e] at hq2
    simp only [List.mem_cons, List.mem_nil_iff, or_false] at hl2
    rcases hl2 with rfl | rfl | rfl
    · exact n12 hq2
    · exact n13 hq2
    · exact n23 hq2
  -- facts about each edge: left / right status gives the sign of its edge function
  have r13 : p1.y ≤ p.y ∧ p.y ≤ p3.y := by
    simp only [List.mem_cons, List.mem_nil_iff, or_false] at hl1
    rcases hl1 with rfl | rfl | rfl <;> have := b1 _ q1 hq1 hy1 <;> dsimp only at this <;> omega
  have L13 : AllLeft ⟨p1, p3⟩ p → 0 < edgeFn p3 p1 p := by
    intro hl
    have := side_neg_of_allLeft (l := ⟨p1, p3⟩) (by unfold dyOf; dsimp only; omega) r13.1 r13.2 hl
    rw [s13] at this; omega
  have R13 : AllRight ⟨p1, p3⟩ p → edgeFn p3 p1 p < 0 := by
    intro hl
    have := side_pos_of_allRight (l := ⟨p1, p3⟩) (by unfold dyOf; dsimp only; omega) r13.1 r13.2 hl
    rw [s13] at this; omega
  -- a vertex in `p`'s row that is a pixel of two edges forces the same status for both
  have hp1_12 : p1 ∈ Line.points ⟨p1, p2⟩ := start_mem_points ⟨p1, p2⟩
  have hp1_13 : p1 ∈ Line.points ⟨p1, p3⟩ := start_mem_points ⟨p1, p3⟩
  have hp2_12 : p2 ∈ Line.points ⟨p1, p2⟩ := stop_mem_points ⟨p1, p2⟩
  have hp2_23 : p2 ∈ Line.points ⟨p2, p3⟩ := start_mem_points ⟨p2, p3⟩
  have hp3_13 : p3 ∈ Line.points ⟨p1, p3⟩ := stop_mem_points ⟨p1, p3⟩
  have hp3_23 : p3 ∈ Line.points ⟨p2, p3⟩ := stop_mem_points ⟨p2, p3⟩
  -- which edges carry the witnesses
  have A1 : ∀ l : Line, q1 ∈ Line.points l → AllLeft l p ∨ AllRight l p → AllLeft l p := by
    intro l hq st
    rcases st with st | st
    · exact st
    · have := st q1 hq hy1; omega
  have A2 : ∀ l : Line, q2 ∈ Line.points l → AllLeft l p ∨ AllRight l p → AllRight l p := by
    intro l hq st
    rcases st with st | st
    · have := st q2 hq hy2; omega
    · exact st
  simp only [List.mem_cons, List.mem_nil_iff, or_false] at hl1 hl2
  -- the four genuine configurations
  have top_pos : AllLeft ⟨p1, p3⟩ p → AllRight ⟨p1, p2⟩ p → p.y ≤ p2.y →
      (0 ≤ edgeFn p1 p2 p ∧ 0 ≤ edgeFn p2 p3 p ∧ 0 ≤ edgeFn p3 p1 p) := by
    intro l13 r12 hrow
    have e31 := L13 l13
    by_cases hflat : p1.y = p2.y
    · exfalso
      have hp1y : p1.y = p.y := by omega
      have := l13 p1 hp1_13 hp1y
      have := r12 p1 hp1_12 hp1y
      omega
    · have e12 : 0 < edgeFn p1 p2 p := by
        have := side_pos_of_allRight (l := ⟨p1, p2⟩) (by unfold dyOf; dsimp only; omega) r13.1 hrow r12
        rw [s12] at this; exact this
      exact ⟨by omega, third_sign_top r13.1 hrow (by omega) hy23 I1 e12 e31, by omega⟩
  have top_neg : AllRight ⟨p1, p3⟩ p → AllLeft ⟨p1, p2⟩ p → p.y ≤ p2.y →
      (edgeFn p1 p2 p ≤ 0 ∧ edgeFn p2 p3 p ≤ 0 ∧ edgeFn p3 p1 p ≤ 0) := by
    intro r13' l12 hrow
    have e31 := R13 r13'
    by_cases hflat : p1.y = p2.y
    · exfalso
      have hp1y : p1.y = p.y := by omega
      have := r13' p1 hp1_13 hp1y
      have := l12 p1 hp1_12 hp1y
      omega
    · have e12 : edgeFn p1 p2 p < 0 := by
        have := side_neg_of_allLeft (l := ⟨p1, p2⟩) (by unfold dyOf; dsimp only; omega) r13.1 hrow l12
        rw [s12] at this; exact this
      have := third_sign_top r13.1 hrow (by omega) hy23 I1n (show 0 < -edgeFn p1 p2 p by omega)
        (show 0 < -edgeFn p3 p1 p by omega)
      exact ⟨by omega, by omega, by omega⟩
  have bot_pos : AllLeft ⟨p1, p3⟩ p → AllRight ⟨p2, p3⟩ p → p2.y ≤ p.y →
      (0 ≤ edgeFn p1 p2 p ∧ 0 ≤ edgeFn p2 p3 p ∧ 0 ≤ edgeFn p3 p1 p) := by
    intro l13 r23 hrow
    have e31 := L13 l13
    by_cases hflat : p2.y = p3.y
    · exfalso
      have hp3y : p3.y = p.y := by omega
      have := l13 p3 hp3_13 hp3y
      have := r23 p3 hp3_23 hp3y
      omega
    · have e23 : 0 < edgeFn p2 p3 p := by
        have := side_pos_of_allRight (l := ⟨p2, p3⟩) (by unfold dyOf; dsimp only; omega) hrow r13.2 r23
        rw [s23] at this; exact this
      exact ⟨third_sign_bottom hrow r13.2 hy12 (by omega) I2 e23 e31, by omega, by omega⟩
  have bot_neg : AllRight ⟨p1, p3⟩ p → AllLeft ⟨p2, p3⟩ p → p2.y ≤ p.y →
      (edgeFn p1 p2 p ≤ 0 ∧ edgeFn p2 p3 p ≤ 0 ∧ edgeFn p3 p1 p ≤ 0) := by
    intro r13' l23 hrow
    have e31 := R13 r13'
    by_cases hflat : p2.y = p3.y
    · exfalso
      have hp3y : p3.y = p.y := by omega
      have := r13' p3 hp3_13 hp3y
      have := l23 p3 hp3_23 hp3y
      omega
    · have e23 : edgeFn p2 p3 p < 0 := by
        have := side_neg_of_allLeft (l := ⟨p2, p3⟩) (by unfold dyOf; dsimp only; omega) hrow r13.2 l23
        rw [s23] at this; exact this
      have := third_sign_bottom hrow r13.2 hy12 (by omega) I2n (show 0 < -edgeFn p2 p3 p by omega)
        (show 0 < -edgeFn p3 p1 p by omega)
      exact ⟨by omega, by omega, by omega⟩
  -- the short edges meet in `p2`: they cannot carry witnesses on different sides
  have mid : AllLeft ⟨p1, p2⟩ p → AllRight ⟨p2, p3⟩ p → p.y = p2.y → False := by
    intro l12 r23 hrow
    have := l12 p2 hp2_12 hrow.symm
    have := r23 p2 hp2_23 hrow.symm
    omega
  have mid' : AllRight ⟨p1, p2⟩ p → AllLeft ⟨p2, p3⟩ p → p.y = p2.y → False := by
    intro r12 l23 hrow
    have := r12 p2 hp2_12 hrow.symm
    have := l23 p2 hp2_23 hrow.symm
    omega
  rcases hl1 with rfl | rfl | rfl <;> rcases hl2 with rfl | rfl | rfl
  · -- 12, 12
    have := A1 _ hq1 st12 q2 hq2 hy2; omega
  · -- 12 left, 13 right
    have hb := b1 _ q1 hq1 hy1; dsimp only at hb
    exact Or.inr (top_neg (A2 _ hq2 st13) (A1 _ hq1 st12) (by omega))
  · -- 12 left, 23 right
    have hb1 := b1 _ q1 hq1 hy1; dsimp only at hb1
    have hb2 := b1 _ q2 hq2 hy2; dsimp only at hb2
    exact (mid (A1 _ hq1 st12) (A2 _ hq2 st23) (by omega)).elim
  · -- 13 left, 12 right
    have hb := b1 _ q2 hq2 hy2; dsimp only at hb
    exact Or.inl (top_pos (A1 _ hq1 st13) (A2 _ hq2 st12) (by omega))
  · -- 13, 13
    have := A1 _ hq1 st13 q2 hq2 hy2; omega
  · -- 13 left, 23 right
    have hb := b1 _ q2 hq2 hy2; dsimp only at hb
    exact Or.inl (bot_pos (A1 _ hq1 st13) (A2 _ hq2 st23) (by omega))
  · -- 23 left, 12 right
    have hb1 := b1 _ q1 hq1 hy1; dsimp only at hb1
    have hb2 := b1 _ q2 hq2 hy2; dsimp only at hb2
    exact (mid' (A2 _ hq2 st12) (A1 _ hq1 st23) (by omega)).elim
  · -- 23 left, 13 right
    have hb := b1 _ q1 hq1 hy1; dsimp only at hb
    exact Or.inr (bot_neg (A2 _ hq2 st13) (A1 _ hq1 st23) (by omega))
  · -- 23, 23
    have := A1 _ hq1 st23 q2 hq2 hy2; omega


/-- **Every point of `points()` is accepted by `contains()`** (non-zero area). -/
theorem contains_of_mem_points (t : Triangle) (h : t.boundingBox.InRange) (ha : t.areaDoubled ≠ 0)
    (p : Pt) (hp : p ∈ t.points) : t.contains p = true := by
  rw [contains_iff]
  refine ⟨points_in_bbox t h p hp, ha, ?_⟩
  by_cases he : p ∈ t.edgePoints
  · exact Or.inr he
  · left
    have hc := closedIn_of_mem_points t h ha p hp he
    have hsum := edgeFn_sum t.v1 t.v2 t.v3 p
    have harea := edgeFn_area t
    rw [isInside_iff_half_planes t p ha]
    unfold ClosedIn at hc
    rcases hc with ⟨h1, h2, h3⟩ | ⟨h1, h2, h3⟩
    · exact Or.inl ⟨h1, h2, h3, by omega⟩
    · exact Or.inr ⟨h1, h2, h3, by omega⟩

/-- Everything `contains()` accepts is a point of `points()`. -/
theorem mem_points_of_contains (t : Triangle) (h : t.boundingBox.InRange) (p : Pt)
    (hc : t.contains p = true) : p ∈ t.points := by
  obtain ⟨_, ha, hin | hedge⟩ := (contains_iff t p).mp hc
  · apply closed_triangle_covered t h ha p
    rcases (isInside_iff_half_planes t p ha).mp hin with ⟨h1, h2, h3, _⟩ | ⟨h1, h2, h3, _⟩
    · exact Or.inl ⟨h1, h2, h3⟩
    · exact Or.inr ⟨h1, h2, h3⟩
  · unfold edgePoints at hedge
    obtain ⟨l, hl, hpl⟩ := List.mem_flatMap.mp hedge
    exact edge_pixel_mem_points t h (by rw [usedLines_of_nonzero ha]; exact hl) hpl

/-- For non-zero area: `p ∈ points() ↔ contains(p)`. -/
theorem mem_points_iff_contains (t : Triangle) (h : t.boundingBox.InRange) (ha : t.areaDoubled ≠ 0)
    (p : Pt) : p ∈ t.points ↔ t.contains p = true :=
  ⟨contains_of_mem_points t h ha p, mem_points_of_contains t h p⟩

theorem flatMap_congr' {α β : Type} {f g : α → List β} : ∀ (l : List α),
    (∀ a ∈ l, f a = g a) → l.flatMap f = l.flatMap g := by
  intro l
  induction l with
  | nil => intro _; rfl
  | cons a l ih =>
    intro h
    rw [List.flatMap_cons, List.flatMap_cons, h a List.mem_cons_self,
      ih (fun b hb => h b (List.mem_cons_of_mem _ hb))]

/-- **`points()` is `bounding_box().points()` filtered by `contains()`**, as lists (same points,
same row-major order, same multiplicity), for every triangle with non-zero area whose bounding box
is within the `i32` range. -/
theorem points_eq_filter_contains (t : Triangle) (h : t.boundingBox.InRange)
    (ha : t.areaDoubled ≠ 0) : t.points = t.boundingBox.points.filter t.contains := by
  obtain ⟨etl, ew, eh⟩ := boundingBox_eq t
  have hnz : t.boundingBox.isZeroSized = false := by
    cases hz : t.boundingBox.isZeroSized with
    | false => rfl
    | true =>
      rw [Rect.isZeroSized_iff] at hz
      unfold boundingBox Rect.withCorners at hz
      dsimp only at hz
      omega
  have hrows : t.boundingBox.rows = rowList t := by
    have := Rect.rowsEnd_eq h
    unfold Rect.rowsEnd at this
    unfold Rect.rows rowList
    rw [this, etl]; dsimp only
    congr 1; omega
  have hcols : t.boundingBox.columns = irange (xMin t) (xMax t + 1) := by
    have := Rect.columnsEnd_eq h
    unfold Rect.columnsEnd at this
    unfold Rect.columns
    rw [this, etl]; dsimp only
    congr 1; omega
  rw [points_eq_rows t h, Rect.points_eq_spec]
  unfold Rect.pointsSpec
  simp only [hnz, Bool.false_eq_true, ↓reduceIte, hrows, hcols, List.filter_flatMap]
  apply flatMap_congr'
  intro y hy
  unfold rowList at hy
  rw [mem_irange] at hy
  rw [List.filter_map]
  have hne := span_nonempty t y hy.1 (by omega)
  have hw := span_within t y
  have hfil : (irange (xMin t) (xMax t + 1)).filter (t.contains ∘ fun x => (⟨x, y⟩ : Pt)) =
      irange (t.span y).xs (t.span y).xe := by
    apply filter_irange_interval _ _ _ _ _ _ rfl _ (by omega) (by omega)
    intro x _ _
    simp only [Function.comp]
    rw [← mem_points_iff_contains t h ha, mem_points_iff t h]
    unfold Scanline.Covers
    dsimp only
    constructor
    · rintro ⟨_, _, h3⟩; exact h3
    · intro h3; exact ⟨hy.1, by omega, h3⟩
  rw [hfil]
  unfold Scanline.points
  rw [span_y]

end Triangle
end EG
