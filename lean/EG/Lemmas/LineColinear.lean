/-
  EG.Lemmas.LineColinear — `Line::points()` of a colinear sub-segment.
  For a lattice point `B` on the segment `A C` (`Between A B C`: colinear and inside the box of
  `A`, `C`) the Bresenham walk from `A` to `B` is a prefix of the walk from `A` to `C`, and the walk
  from `B` to `C` is its suffix: `points(A C) = points(A B) ++ tail (points(B C))`.
  Reason: the minor-step counter `mAt dmaj dmin k` is the only integer within the error bounds
  `-dmaj < 2 (dmin k - dmaj m) ≤ dmaj` (`mAt_unique`); the bounds are invariant under scaling
  `(dmaj, dmin)` by a positive rational (`mAt_proportional`) and under restarting the walk in a
  point that lies exactly on the ideal line, where the error is 0 (`mAt_shift`).
  Used by EG.Lemmas.TriangleColinear: a zero-area triangle is rasterised as the single line between
  its `(y, x)`-extreme vertices, and that line contains the pixels of all three edge lines.
-/
import EG.Lemmas.LineProps
import Mathlib.Tactic.Linarith
import Mathlib.Tactic.Ring
namespace EG
namespace Line

/-! ## the minor-step counter is determined by the error bounds -/

/-- `mAt dmaj dmin k` is the only integer within the error bounds of call `k`. -/
theorem mAt_unique {dmaj dmin : Int} (h0 : 0 ≤ dmin) (h1 : dmin ≤ dmaj) (hpos : 0 < dmaj) (k : Nat)
    (m : Int) (hl : -dmaj < 2 * (dmin * (k : Int) - dmaj * m))
    (hu : 2 * (dmin * (k : Int) - dmaj * m) ≤ dmaj) : mAt dmaj dmin k = m := by
  obtain ⟨_, h3, h4⟩ := err_bounds h0 h1 hpos k
  by_contra hne
  rcases Int.lt_or_gt_of_ne hne with hlt | hgt
  · have a1 : dmaj * (mAt dmaj dmin k + 1) ≤ dmaj * m :=
      Int.mul_le_mul_of_nonneg_left (by omega) (by omega)
    rw [Int.mul_add, Int.mul_one] at a1
    omega
  · have a1 : dmaj * (m + 1) ≤ dmaj * mAt dmaj dmin k :=
      Int.mul_le_mul_of_nonneg_left (by omega) (by omega)
    rw [Int.mul_add, Int.mul_one] at a1
    omega

/-- Scaling `(dmaj, dmin)` by a positive rational does not change the walk. -/
theorem mAt_proportional {D d D' d' : Int} (h0 : 0 ≤ d) (h1 : d ≤ D) (hpos : 0 < D)
    (h0' : 0 ≤ d') (h1' : d' ≤ D') (hpos' : 0 < D') (hp : D' * d = D * d') (k : Nat) :
    mAt D' d' k = mAt D d k := by
  obtain ⟨_, h3, h4⟩ := err_bounds h0 h1 hpos k
  generalize mAt D d k = m at *
  have key : D * (2 * (d' * (k : Int) - D' * m)) = D' * (2 * (d * (k : Int) - D * m)) := by
    have e1 : D * (2 * (d' * (k : Int) - D' * m)) = 2 * ((D * d') * (k : Int)) - 2 * (D * D' * m) := by
      ring
    have e2 : D' * (2 * (d * (k : Int) - D * m)) = 2 * ((D' * d) * (k : Int)) - 2 * (D * D' * m) := by
      ring
    rw [e1, e2, hp]
  have bl : -D' < 2 * (d' * (k : Int) - D' * m) ∧ 2 * (d' * (k : Int) - D' * m) ≤ D' := by
    generalize 2 * (d' * (k : Int) - D' * m) = E' at *
    generalize 2 * (d * (k : Int) - D * m) = E at *
    constructor
    · by_contra hc
      have a1 : D * E' ≤ D * (-D') := Int.mul_le_mul_of_nonneg_left (by omega) (by omega)
      have a2 : D' * (-D) < D' * E := Int.mul_lt_mul_of_pos_left h3 hpos'
      have e : D * (-D') = D' * (-D) := by ring
      omega
    · by_contra hc
      have a1 : D * (D' + 1) ≤ D * E' := Int.mul_le_mul_of_nonneg_left (by omega) (by omega)
      have a2 : D' * E ≤ D' * D := Int.mul_le_mul_of_nonneg_left h4 (by omega)
      have e : D * (D' + 1) = D' * D + D := by ring
      omega
  exact mAt_unique h0' h1' hpos' k m bl.1 bl.2

/-- Restarting the walk in a point exactly on the ideal line (`dmin k0 = dmaj m0`: the error is 0
there) continues the same walk. -/
theorem mAt_shift {D d : Int} (h0 : 0 ≤ d) (h1 : d ≤ D) (hpos : 0 < D) (k0 : Nat) (m0 : Int)
    (hon : d * (k0 : Int) = D * m0) (j : Nat) : mAt D d (k0 + j) = m0 + mAt D d j := by
  obtain ⟨_, h3, h4⟩ := err_bounds h0 h1 hpos j
  apply mAt_unique h0 h1 hpos
  all_goals
    rw [Int.natCast_add, Int.mul_add, Int.mul_add, hon]
    omega

/-! ## lines of the same direction -/

/-- `l'` and `l` are non-degenerate and point in the same direction (their deltas are positive
rational multiples of each other). -/
def SameDir (l' l : Line) : Prop :=
  dxOf l' * dyOf l = dyOf l' * dxOf l ∧ 0 ≤ dxOf l' * dxOf l ∧ 0 ≤ dyOf l' * dyOf l ∧
  l'.start ≠ l'.stop ∧ l.start ≠ l.stop

theorem nonneg_iff_of_dir {a b a' b' : Int} (hp : a * b' = a' * b) (h : 0 ≤ a * b)
    (he : a ≠ 0 ∨ a' ≠ 0) (hd : b ≠ 0 ∨ b' ≠ 0) : (0 ≤ a ↔ 0 ≤ b) := by
  constructor
  · intro ha
    by_contra hb
    have h1 : a * b ≤ 0 := Int.mul_nonpos_of_nonneg_of_nonpos ha (by omega)
    have h2 : a * b = 0 := by omega
    rcases Int.mul_eq_zero.mp h2 with h3 | h3
    · subst h3
      rw [Int.zero_mul] at hp
      rcases Int.mul_eq_zero.mp hp.symm with h4 | h4 <;> omega
    · omega
  · intro hb
    by_contra ha
    have h1 : a * b ≤ 0 := Int.mul_nonpos_of_nonpos_of_nonneg (by omega) hb
    have h2 : a * b = 0 := by omega
    rcases Int.mul_eq_zero.mp h2 with h3 | h3
    · omega
    · subst h3
      rw [Int.mul_zero] at hp
      rcases Int.mul_eq_zero.mp hp with h4 | h4 <;> omega

theorem sgn_eq_of_nonneg_iff {a b : Int} (h : 0 ≤ a ↔ 0 ≤ b) : sgn a = sgn b := by
  unfold sgn
  by_cases ha : a ≥ 0
  · have hb : b ≥ 0 := h.mp ha
    simp only [ha, hb, ↓reduceIte]
  · have hb : ¬ b ≥ 0 := fun c => ha (h.mpr c)
    simp only [ha, hb, ↓reduceIte]

theorem aabs_nonneg (a : Int) : 0 ≤ aabs a := by unfold aabs; omega
theorem aabs_eq_zero_iff (a : Int) : aabs a = 0 ↔ a = 0 := by unfold aabs; omega

theorem dir_core {ex ey dx dy : Int} (hp : ex * dy = ey * dx) (hx : 0 ≤ ex * dx) (hy : 0 ≤ ey * dy)
    (he : ex ≠ 0 ∨ ey ≠ 0) (hd : dx ≠ 0 ∨ dy ≠ 0) :
    sgn ex = sgn dx ∧ sgn ey = sgn dy ∧ aabs ex * aabs dy = aabs ey * aabs dx ∧
    (aabs ey ≥ aabs ex ↔ aabs dy ≥ aabs dx) := by
  have ix := nonneg_iff_of_dir hp hx he hd
  have iy := nonneg_iff_of_dir hp.symm hy he.symm hd.symm
  have habs : aabs ex * aabs dy = aabs ey * aabs dx := by
    rcases sgn_cases ex with ⟨c1, _, a1⟩ | ⟨c1, _, a1⟩ <;>
      rcases sgn_cases ey with ⟨c2, _, a2⟩ | ⟨c2, _, a2⟩ <;>
      rcases sgn_cases dx with ⟨c3, _, a3⟩ | ⟨c3, _, a3⟩ <;>
      rcases sgn_cases dy with ⟨c4, _, a4⟩ | ⟨c4, _, a4⟩ <;>
      rw [a1, a2, a3, a4] <;>
      (try simp only [Int.neg_mul, Int.mul_neg, Int.neg_neg]) <;> omega
  refine ⟨sgn_eq_of_nonneg_iff ix, sgn_eq_of_nonneg_iff iy, habs, ?_⟩
  have n1 := aabs_nonneg ex
  have n2 := aabs_nonneg ey
  have n3 := aabs_nonneg dx
  have n4 := aabs_nonneg dy
  have he' : aabs ex ≠ 0 ∨ aabs ey ≠ 0 := by
    rcases he with h | h
    · exact Or.inl (fun c => h ((aabs_eq_zero_iff _).mp c))
    · exact Or.inr (fun c => h ((aabs_eq_zero_iff _).mp c))
  have hd' : aabs dx ≠ 0 ∨ aabs dy ≠ 0 := by
    rcases hd with h | h
    · exact Or.inl (fun c => h ((aabs_eq_zero_iff _).mp c))
    · exact Or.inr (fun c => h ((aabs_eq_zero_iff _).mp c))
  generalize aabs ex = a at *
  generalize aabs ey = E at *
  generalize aabs dx = b at *
  generalize aabs dy = D at *
  constructor
  · intro h
    by_contra hc
    have hE : 0 < E := by omega
    have a1 : 0 < E * (b - D) := Int.mul_pos hE (by omega)
    have a2 : 0 ≤ (E - a) * D := Int.mul_nonneg (by omega) n4
    nlinarith
  · intro h
    by_contra hc
    have hD : 0 < D := by omega
    have a1 : 0 < (a - E) * D := Int.mul_pos (by omega) hD
    have a2 : 0 ≤ E * (D - b) := Int.mul_nonneg n2 (by omega)
    nlinarith

theorem ne_iff_delta (l : Line) : l.start ≠ l.stop ↔ (dxOf l ≠ 0 ∨ dyOf l ≠ 0) := by
  unfold dxOf dyOf
  rw [Ne, Pt.ext_iff']
  omega

/-- Same direction: same signs, same major axis, proportional `(dmaj, dmin)`. -/
theorem sameDir_facts {l' l : Line} (h : SameDir l' l) :
    sgn (dxOf l') = sgn (dxOf l) ∧ sgn (dyOf l') = sgn (dyOf l) ∧ (yMajor l' ↔ yMajor l) ∧
    pmaj l' = pmaj l ∧ pmin l' = pmin l ∧ 0 < dmaj l' ∧ 0 < dmaj l ∧
    dmaj l' * dmin l = dmaj l * dmin l' := by
  obtain ⟨hp, hx, hy, hn', hn⟩ := h
  obtain ⟨sx, sy, habs, hmaj⟩ := dir_core hp hx hy ((ne_iff_delta l').mp hn') ((ne_iff_delta l).mp hn)
  have hiff : yMajor l' ↔ yMajor l := hmaj
  have p' : 0 < dmaj l' := by
    have := dmaj_nonneg l'
    have := (dmaj_zero_iff l').not.mpr hn'
    omega
  have p : 0 < dmaj l := by
    have := dmaj_nonneg l
    have := (dmaj_zero_iff l).not.mpr hn
    omega
  refine ⟨sx, sy, hiff, ?_, ?_, p', p, ?_⟩
  · unfold pmaj
    by_cases hm : yMajor l
    · have hm' := hiff.mpr hm
      simp only [hm, hm', ↓reduceIte, sy]
    · have hm' : ¬ yMajor l' := fun c => hm (hiff.mp c)
      simp only [hm, hm', ↓reduceIte, sx]
  · unfold pmin
    by_cases hm : yMajor l
    · have hm' := hiff.mpr hm
      simp only [hm, hm', ↓reduceIte, sx]
    · have hm' : ¬ yMajor l' := fun c => hm (hiff.mp c)
      simp only [hm, hm', ↓reduceIte, sy]
  · unfold dmaj dmin
    by_cases hm : yMajor l
    · have hm' := hiff.mpr hm
      simp only [hm, hm', ↓reduceIte]
      rw [← habs]; exact Int.mul_comm _ _
    · have hm' : ¬ yMajor l' := fun c => hm (hiff.mp c)
      simp only [hm, hm', ↓reduceIte]
      rw [habs]; exact Int.mul_comm _ _

/-- A line of the same direction from the same start point walks the same pixels. -/
theorem ptAt_sameDir_start {l' l : Line} (h : SameDir l' l) (hs : l'.start = l.start) (k : Nat) :
    ptAt l' k = ptAt l k := by
  obtain ⟨_, _, _, e1, e2, p', p, hp⟩ := sameDir_facts h
  unfold ptAt ptAtG
  rw [hs, e1, e2,
    mAt_proportional (dmin_nonneg l) (dmin_le_dmaj l) p (dmin_nonneg l') (dmin_le_dmaj l') p' hp k]

/-- A line of the same direction that starts in pixel `k0` of `l`, a point exactly on the ideal
line (`m0` minor steps, `dmin k0 = dmaj m0`), continues the walk of `l`. -/
theorem ptAt_sameDir_shift {l' l : Line} (h : SameDir l' l) (k0 : Nat) (m0 : Int)
    (hs : l'.start = ⟨l.start.x + (k0 : Int) * (pmaj l).x + m0 * (pmin l).x,
                     l.start.y + (k0 : Int) * (pmaj l).y + m0 * (pmin l).y⟩)
    (hon : dmin l * (k0 : Int) = dmaj l * m0) (j : Nat) : ptAt l' j = ptAt l (k0 + j) := by
  obtain ⟨_, _, _, e1, e2, p', p, hp⟩ := sameDir_facts h
  unfold ptAt ptAtG
  rw [hs, e1, e2,
    mAt_proportional (dmin_nonneg l) (dmin_le_dmaj l) p (dmin_nonneg l') (dmin_le_dmaj l') p' hp j,
    mAt_shift (dmin_nonneg l) (dmin_le_dmaj l) p k0 m0 hon j, Pt.ext_iff']
  simp only [Int.natCast_add, Int.add_mul]
  refine ⟨?_, ?_⟩ <;> omega

/-! ## a lattice point on a segment -/

/-- `B` lies on the closed segment `A C`: colinear, and inside the box spanned by `A` and `C`. -/
def Between (A B C : Pt) : Prop :=
  (B.x - A.x) * (C.y - A.y) = (B.y - A.y) * (C.x - A.x) ∧
  min A.x C.x ≤ B.x ∧ B.x ≤ max A.x C.x ∧ min A.y C.y ≤ B.y ∧ B.y ≤ max A.y C.y

instance (A B C : Pt) : Decidable (Between A B C) := by unfold Between; exact inferInstance

theorem mul_nonneg_of_between {a b c : Int} (h1 : min a c ≤ b) (h2 : b ≤ max a c) :
    0 ≤ (b - a) * (c - a) ∧ 0 ≤ (c - b) * (c - a) := by
  by_cases h : a ≤ c
  · exact ⟨Int.mul_nonneg (by omega) (by omega), Int.mul_nonneg (by omega) (by omega)⟩
  · have e1 : (b - a) * (c - a) = (a - b) * (a - c) := by ring
    have e2 : (c - b) * (c - a) = (b - c) * (a - c) := by ring
    rw [e1, e2]
    exact ⟨Int.mul_nonneg (by omega) (by omega), Int.mul_nonneg (by omega) (by omega)⟩

namespace Between
variable {A B C : Pt}

theorem sameDir_left (h : Between A B C) (hne : A ≠ B) : SameDir ⟨A, B⟩ ⟨A, C⟩ := by
  obtain ⟨hc, b1, b2, b3, b4⟩ := h
  refine ⟨hc, (mul_nonneg_of_between b1 b2).1, (mul_nonneg_of_between b3 b4).1, hne, ?_⟩
  intro e
  apply hne
  have e' : A = C := e
  rw [Pt.ext_iff'] at e' ⊢
  omega

theorem sameDir_right (h : Between A B C) (hne : B ≠ C) : SameDir ⟨B, C⟩ ⟨A, C⟩ := by
  obtain ⟨hc, b1, b2, b3, b4⟩ := h
  refine ⟨?_, (mul_nonneg_of_between b1 b2).2, (mul_nonneg_of_between b3 b4).2, hne, ?_⟩
  · show (C.x - B.x) * (C.y - A.y) = (C.y - B.y) * (C.x - A.x)
    have : (C.x - B.x) * (C.y - A.y) - (C.y - B.y) * (C.x - A.x) =
        -((B.x - A.x) * (C.y - A.y) - (B.y - A.y) * (C.x - A.x)) := by ring
    omega
  · intro e
    apply hne
    have e' : A = C := e
    rw [Pt.ext_iff'] at e' ⊢
    omega

/-- The major-axis lengths add up. -/
theorem dmaj_add (h : Between A B C) : dmaj ⟨A, B⟩ + dmaj ⟨B, C⟩ = dmaj ⟨A, C⟩ := by
  by_cases h1 : A = B
  · subst h1
    rw [(dmaj_zero_iff ⟨A, A⟩).mpr rfl]; omega
  by_cases h2 : B = C
  · subst h2
    rw [(dmaj_zero_iff ⟨B, B⟩).mpr rfl]; omega
  obtain ⟨sx1, sy1, m1, _⟩ := sameDir_facts (h.sameDir_left h1)
  obtain ⟨sx2, sy2, m2, _⟩ := sameDir_facts (h.sameDir_right h2)
  unfold dmaj
  by_cases hm : yMajor ⟨A, C⟩
  · have hm1 := m1.mpr hm
    have hm2 := m2.mpr hm
    simp only [hm, hm1, hm2, ↓reduceIte]
    unfold dyOf at *
    dsimp only at *
    rcases sgn_cases (C.y - A.y) with ⟨_, s, a⟩ | ⟨_, s, a⟩ <;>
      rcases sgn_cases (B.y - A.y) with ⟨_, s', a'⟩ | ⟨_, s', a'⟩ <;>
      rcases sgn_cases (C.y - B.y) with ⟨_, s'', a''⟩ | ⟨_, s'', a''⟩ <;> omega
  · have hm1 : ¬ yMajor ⟨A, B⟩ := fun c => hm (m1.mp c)
    have hm2 : ¬ yMajor ⟨B, C⟩ := fun c => hm (m2.mp c)
    simp only [hm, hm1, hm2, ↓reduceIte]
    unfold dxOf at *
    dsimp only at *
    rcases sgn_cases (C.x - A.x) with ⟨_, s, a⟩ | ⟨_, s, a⟩ <;>
      rcases sgn_cases (B.x - A.x) with ⟨_, s', a'⟩ | ⟨_, s', a'⟩ <;>
      rcases sgn_cases (C.x - B.x) with ⟨_, s'', a''⟩ | ⟨_, s'', a''⟩ <;> omega

/-- The walk to `B` is the beginning of the walk to `C`. -/
theorem ptAt_left (h : Between A B C) (hne : A ≠ B) (k : Nat) : ptAt ⟨A, B⟩ k = ptAt ⟨A, C⟩ k :=
  ptAt_sameDir_start (h.sameDir_left hne) rfl k

/-- The walk from `B` is the rest of the walk from `A`. -/
theorem ptAt_right (h : Between A B C) (hne : B ≠ C) (j : Nat) :
    ptAt ⟨B, C⟩ j = ptAt ⟨A, C⟩ ((dmaj ⟨A, B⟩).toNat + j) := by
  by_cases h1 : A = B
  · subst h1
    rw [(dmaj_zero_iff ⟨A, A⟩).mpr rfl]; simp
  have hl := h.sameDir_left h1
  obtain ⟨_, _, _, e1, e2, p', p, hp⟩ := sameDir_facts hl
  have hk : (((dmaj ⟨A, B⟩).toNat : Nat) : Int) = dmaj ⟨A, B⟩ := by omega
  apply ptAt_sameDir_shift (h.sameDir_right hne) _ (dmin ⟨A, B⟩)
  · have hlast := ptAt_last ⟨A, B⟩ _ hk
    unfold ptAt ptAtG at hlast
    rw [mAt_end (dmin_nonneg _) (dmin_le_dmaj _) p' _ hk, e1, e2] at hlast
    exact hlast.symm
  · rw [hk, Int.mul_comm]; exact hp

/-- **`points(A B)` is a prefix of `points(A C)`.** -/
theorem points_left (h : Between A B C) :
    points ⟨A, B⟩ = (points ⟨A, C⟩).take ((dmaj ⟨A, B⟩).toNat + 1) := by
  by_cases h1 : A = B
  · subst h1
    rw [points_zero_length, (dmaj_zero_iff ⟨A, A⟩).mpr rfl, points_eq, List.range_succ_eq_map]
    simp [ptAt_zero]
  have hadd := h.dmaj_add
  have n1 := dmaj_nonneg ⟨A, B⟩
  have n2 := dmaj_nonneg ⟨B, C⟩
  rw [points_eq, points_eq, ← List.map_take, List.take_range]
  have e : min ((dmaj ⟨A, B⟩).toNat + 1) ((dmaj ⟨A, C⟩).toNat + 1) = (dmaj ⟨A, B⟩).toNat + 1 := by
    omega
  rw [e]
  apply List.map_congr_left
  intro k _
  exact h.ptAt_left h1 k

/-- **`points(B C)` is a suffix of `points(A C)`.** -/
theorem points_right (h : Between A B C) :
    points ⟨B, C⟩ = (points ⟨A, C⟩).drop (dmaj ⟨A, B⟩).toNat := by
  have hadd := h.dmaj_add
  have n1 := dmaj_nonneg ⟨A, B⟩
  have n2 := dmaj_nonneg ⟨B, C⟩
  by_cases h2 : B = C
  · subst h2
    have hz : dmaj ⟨B, B⟩ = 0 := (dmaj_zero_iff ⟨B, B⟩).mpr rfl
    rw [points_zero_length, points_eq, ← List.map_drop, List.range_eq_range', List.drop_range']
    have e : (dmaj ⟨A, B⟩).toNat + 1 - (dmaj ⟨A, B⟩).toNat = 1 := by omega
    rw [e]
    simp only [List.range'_one, List.map_cons, List.map_nil, Nat.zero_add]
    rw [ptAt_last ⟨A, B⟩ _ (by omega)]
  rw [points_eq, points_eq, ← List.map_drop, List.range_eq_range', List.range_eq_range',
    List.drop_range']
  have e : (dmaj ⟨A, C⟩).toNat + 1 - (dmaj ⟨A, B⟩).toNat = (dmaj ⟨B, C⟩).toNat + 1 := by omega
  rw [e, Nat.zero_add, Nat.mul_one, List.range'_eq_map_range (s := (dmaj ⟨A, B⟩).toNat), List.map_map,
    ← List.range_eq_range']
  apply List.map_congr_left
  intro j _
  exact h.ptAt_right h2 j

/-- **The line through a colinear middle point is the two segment lines with the joint emitted
once**: `points(A C) = points(A B) ++ tail (points(B C))`. -/
theorem points_append (h : Between A B C) :
    points ⟨A, C⟩ = points ⟨A, B⟩ ++ (points ⟨B, C⟩).tail := by
  rw [h.points_left, h.points_right, List.tail_drop, List.take_append_drop]

theorem mem_left (h : Between A B C) {p : Pt} (hp : p ∈ points ⟨A, B⟩) : p ∈ points ⟨A, C⟩ := by
  rw [h.points_left] at hp
  exact List.mem_of_mem_take hp

theorem mem_right (h : Between A B C) {p : Pt} (hp : p ∈ points ⟨B, C⟩) : p ∈ points ⟨A, C⟩ := by
  rw [h.points_right] at hp
  exact List.mem_of_mem_drop hp

end Between

end Line
end EG
