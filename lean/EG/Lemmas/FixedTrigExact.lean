/-
  EG.Lemmas.FixedTrigExact — the `fixed_point` build against the EXACT geometry: for every raw angle
  `a` (I16F16 bits, i.e. the angle `a / 65536` radians) on which `with_angle` does not panic, the
  integer normal vector it computes is within 10.32 (of 1024), componentwise, of the exact scaled
  normal `1024 (-sin (a / 65536), cos (a / 65536))` (`Real.sin`, `Real.cos`). This is the hypothesis
  `NormalWithin` of `sector_angular_partial` (EG/Props/C18/Sector.lean), so the angular claim of C18
  follows relative to the exact boundary lines with the property's 1.5 px, with no hypothesis left.

  Error budget of one component, in units of 1/1024:
      63/64      truncation of `1024 sin` to an integer                         (`t64_err`)
    + 1/128      the table entry against the real sine of its whole degree      (`sinT_accurate`)
    + 9.3184     whole-degree rounding: `|a / 65536 - k π / 180| <= 0.0091` rad (`angle_error`):
                 half a degree + 2^-16 degree of the truncating division + the code's `PI` (205887
                 bits = 3.1415863) against π over up to 29 turns (`|k| <= 10432`)
    + 0.0046     `FRAC_PI_2` (102944 bits) against π / 2, cosine only
    = 10.3152 <= 10.32 < 16.
-/
import Mathlib.Analysis.SpecialFunctions.Trigonometric.Bounds
import EG.Lemmas.SineTable
import EG.Lemmas.FixedTrigSector
namespace EG.Fx
open EG EG.Generated Real

/-! ### the table sine of every integer degree against the real sine -/

theorem sinT_accurate_q1 (m : Int) (h0 : 0 ≤ m) (h1 : m ≤ 90) :
    |(sinT m : ℝ) - 65536 * Real.sin ((m : ℝ) * π / 180)| ≤ 1 / 2 := by
  have e : m = ((m.toNat : Nat) : Int) := (Int.toNat_of_nonneg h0).symm
  have h := SineTable.sine_table_accurate m.toNat (by omega)
  rw [← sinT_eq_table m.toNat (by omega), ← e] at h
  have e2 : ((m.toNat : Nat) : ℝ) = (m : ℝ) := by
    have : ((m.toNat : Nat) : Int) = m := Int.toNat_of_nonneg h0
    exact_mod_cast this
  rw [e2] at h
  exact h

theorem sinT_accurate_half (m : Int) (h0 : 0 ≤ m) (h1 : m ≤ 180) :
    |(sinT m : ℝ) - 65536 * Real.sin ((m : ℝ) * π / 180)| ≤ 1 / 2 := by
  by_cases h : m ≤ 90
  · exact sinT_accurate_q1 m h0 h
  · have hq := sinT_accurate_q1 (180 - m) (by omega) (by omega)
    have e2 : Real.sin (((180 - m : Int) : ℝ) * π / 180) = Real.sin ((m : ℝ) * π / 180) := by
      have : ((180 - m : Int) : ℝ) * π / 180 = π - (m : ℝ) * π / 180 := by push_cast; ring
      rw [this, Real.sin_pi_sub]
    rw [sinT_reflect m, e2] at hq
    exact hq

theorem sinT_accurate_turn (m : Int) (h0 : 0 ≤ m) (h1 : m < 360) :
    |(sinT m : ℝ) - 65536 * Real.sin ((m : ℝ) * π / 180)| ≤ 1 / 2 := by
  by_cases h : m ≤ 180
  · exact sinT_accurate_half m h0 h
  · have hq := sinT_accurate_half (m - 180) (by omega) (by omega)
    have e1 : sinT m = -sinT (m - 180) := by
      have := sinT_half_turn (m - 180)
      have e : m - 180 + 180 = m := by omega
      rw [e] at this
      exact this
    have e2 : Real.sin ((m : ℝ) * π / 180) = -Real.sin (((m - 180 : Int) : ℝ) * π / 180) := by
      have : (m : ℝ) * π / 180 = ((m - 180 : Int) : ℝ) * π / 180 + π := by push_cast; ring
      rw [this, Real.sin_add_pi]
    rw [e1, e2]
    have : ((-sinT (m - 180) : Int) : ℝ) - 65536 * -Real.sin (((m - 180 : Int) : ℝ) * π / 180) =
        -(((sinT (m - 180) : Int) : ℝ) - 65536 * Real.sin (((m - 180 : Int) : ℝ) * π / 180)) := by
      push_cast; ring
    rw [this, abs_neg]
    exact hq

/-- **The table sine of every integer degree is the correctly rounded real sine.** -/
theorem sinT_accurate (k : Int) :
    |(sinT k : ℝ) - 65536 * Real.sin ((k : ℝ) * π / 180)| ≤ 1 / 2 := by
  have h := sinT_accurate_turn (k % 360) (by omega) (by omega)
  have e1 : sinT (k % 360) = sinT k := sinT_congr (by omega)
  have e2 : Real.sin (((k % 360 : Int) : ℝ) * π / 180) = Real.sin ((k : ℝ) * π / 180) := by
    have hk : k = k % 360 + 360 * (k / 360) := by omega
    have : (k : ℝ) * π / 180 = ((k % 360 : Int) : ℝ) * π / 180 + ((k / 360 : Int) : ℝ) * (2 * π) := by
      have hk' : (k : ℝ) = ((k % 360 : Int) : ℝ) + 360 * ((k / 360 : Int) : ℝ) := by exact_mod_cast hk
      rw [hk']
      ring
    rw [this, Real.sin_add_int_mul_two_pi]
  rw [e1, e2] at h
  exact h

/-! ### the whole degree against the exact angle -/

/-- The degrees of angles that do not overflow are at most 10432 in absolute value. -/
theorem deg_bound (b : Int) (h : DegFits b) : -10432 ≤ deg b ∧ deg b ≤ 10432 := by
  unfold DegFits at h
  have := deg_nearest b
  constructor <;> omega

/-- **Whole-degree rounding against the exact angle**: the raw angle `b` is `b / 65536` radians, the
code rounds it to `deg b` degrees; the two differ by at most 0.0091 rad (0.5214 degrees). -/
theorem angle_error (b : Int) (h : DegFits b) :
    |(b : ℝ) / 65536 - (deg b : ℝ) * π / 180| ≤ 0.0091 := by
  obtain ⟨k1, k2⟩ := deg_bound b h
  obtain ⟨n1, n2⟩ := deg_nearest b
  have hl := Real.pi_gt_d20
  have hh := Real.pi_lt_d20
  have k1' : (-10432 : ℝ) ≤ (deg b : ℝ) := by exact_mod_cast k1
  have k2' : (deg b : ℝ) ≤ 10432 := by exact_mod_cast k2
  have n1' : (11796480 : ℝ) * b - 13493010432 * (deg b : ℝ) ≤ 6746505216 + 205886 := by exact_mod_cast n1
  have n2' : -(6746505216 + 205886 : ℝ) ≤ 11796480 * b - 13493010432 * (deg b : ℝ) := by exact_mod_cast n2
  -- b / 65536 - k π / 180 = E / (11796480 * 65536) + k * (205887 / 11796480 - π / 180)
  have hδ : |(205887 / 11796480 - π / 180 : ℝ)| ≤ 0.0000000353 := by
    rw [abs_le]; constructor <;> linarith
  have hk : |(deg b : ℝ)| ≤ 10432 := by rw [abs_le]; exact ⟨k1', k2'⟩
  have hprod : |(deg b : ℝ) * (205887 / 11796480 - π / 180)| ≤ 10432 * 0.0000000353 := by
    rw [abs_mul]
    exact mul_le_mul hk hδ (abs_nonneg _) (by norm_num)
  have e : (b : ℝ) / 65536 - (deg b : ℝ) * π / 180 =
      (11796480 * (b : ℝ) - 13493010432 * (deg b : ℝ)) / 773094113280 +
      (deg b : ℝ) * (205887 / 11796480 - π / 180) := by ring
  rw [e]
  rw [abs_le] at hprod ⊢
  constructor <;> linarith [hprod.1, hprod.2]

/-- **One component**: the truncated `1024 * sinT (deg b)` against `1024 sin (b / 65536)`. -/
theorem component_error (b : Int) (h : DegFits b) :
    |(t64 (sinT (deg b)) : ℝ) - 1024 * Real.sin ((b : ℝ) / 65536)| ≤ 10.3107 := by
  have h1 := t64_err (sinT (deg b))
  have h1' : |(64 : ℝ) * (t64 (sinT (deg b)) : ℝ) - (sinT (deg b) : ℝ)| ≤ 63 := by exact_mod_cast h1
  have h2 := sinT_accurate (deg b)
  have h3 := Real.abs_sin_sub_sin_le ((deg b : ℝ) * π / 180) ((b : ℝ) / 65536)
  have h4 := angle_error b h
  rw [abs_sub_comm] at h4
  have h5 := le_trans h3 h4
  rw [abs_le] at h1' h2 h5 ⊢
  constructor <;> linarith [h1'.1, h1'.2, h2.1, h2.2, h5.1, h5.2]

/-- `FRAC_PI_2` (102944 bits) against π / 2. -/
theorem frac_pi_2_error : |(102944 : ℝ) / 65536 - π / 2| ≤ 0.0000045 := by
  have hl := Real.pi_gt_d20
  have hh := Real.pi_lt_d20
  rw [abs_le]; constructor <;> linarith

/-- **The normal vector against the exact normal**, every raw angle: `NormalWithin` with 10.32. -/
theorem withAngle_exact (a : Int) (n : Pt) (h : withAngle a = some n) :
    NormalWithin (K := ℝ) n (1024 * -Real.sin ((a : ℝ) / 65536), 1024 * Real.cos ((a : ℝ) / 65536)) 10.32 := by
  by_cases hf : AngleFits a
  · rw [withAngle_eq a hf] at h
    have hn := (Option.some.inj h).symm
    unfold NormalWithin
    rw [hn]
    unfold tableNormal
    simp only
    constructor
    · have hx := component_error a hf.1
      have e : ((-(t64 (sinT (deg a))) : Int) : ℝ) - 1024 * -Real.sin ((a : ℝ) / 65536) =
          -((t64 (sinT (deg a)) : ℝ) - 1024 * Real.sin ((a : ℝ) / 65536)) := by push_cast; ring
      rw [e, abs_neg]
      linarith
    · have hy := component_error (a + 102944) hf.2
      have e1 : (((a + 102944 : Int) : ℝ)) / 65536 = (a : ℝ) / 65536 + 102944 / 65536 := by push_cast; ring
      rw [e1] at hy
      have hc : Real.cos ((a : ℝ) / 65536) = Real.sin ((a : ℝ) / 65536 + π / 2) := by
        rw [Real.sin_add_pi_div_two]
      have hs := Real.abs_sin_sub_sin_le ((a : ℝ) / 65536 + 102944 / 65536) ((a : ℝ) / 65536 + π / 2)
      have e2 : (a : ℝ) / 65536 + 102944 / 65536 - ((a : ℝ) / 65536 + π / 2) = 102944 / 65536 - π / 2 := by ring
      rw [e2] at hs
      have hs' := le_trans hs frac_pi_2_error
      rw [hc]
      rw [abs_le] at hy hs' ⊢
      constructor <;> linarith [hy.1, hy.2, hs'.1, hs'.2]
  · rw [withAngle_none a hf] at h; cases h

/-! ### unresolved sweeps: boundaries at most one table degree apart -/

/-- Table degrees at most one apart: the raw angles are at most 2290 bits (2.002 degrees) apart. -/
theorem close_of_deg_close (s w : Int) (h : deg (s + w) - deg s ≤ 1) : w ≤ 2290 := by
  unfold deg roundHalfAway q16 truncDiv at h
  split at h <;> split at h <;> split at h <;> split at h <;> omega

/-- Exact signed distance from the boundary line of the exact angle `t` (radians), scale 1024. -/
noncomputable def exactLineDist (t : ℝ) (delta : Pt) : ℝ :=
  exactDist (K := ℝ) (1024 * -Real.sin t, 1024 * Real.cos t) delta

/-- Two exact boundary lines at most 0.035 rad apart are never both 1.5 px away (with the sector
between them) inside a circle of diameter 128: such sweeps make no acceptance claim. -/
theorem exact_adjacent (tr tl : ℝ) (h0 : 0 ≤ tl - tr) (h1 : tl - tr ≤ 0.035) (delta : Pt)
    (hd : delta.x * delta.x + delta.y * delta.y < 128 * 128) :
    ¬ (exactLineDist tl delta ≤ -3072 ∧ 3072 ≤ exactLineDist tr delta) := by
  rintro ⟨hl, hr⟩
  unfold exactLineDist exactDist at hl hr
  simp only at hl hr
  -- u = sin tl - sin tr, v = cos tr - cos tl
  set dx : ℝ := (delta.x : ℝ) with hdx
  set dy : ℝ := (delta.y : ℝ) with hdy
  have hd' : dx * dx + dy * dy < 16384 := by
    have : ((delta.x * delta.x + delta.y * delta.y : Int) : ℝ) < ((128 * 128 : Int) : ℝ) := by exact_mod_cast hd
    push_cast at this
    linarith
  have hsum : 6 ≤ dx * (Real.sin tl - Real.sin tr) + dy * (Real.cos tr - Real.cos tl) := by
    have : 6144 ≤ 1024 * (dx * (Real.sin tl - Real.sin tr) + dy * (Real.cos tr - Real.cos tl)) := by
      linarith
    linarith
  -- u^2 + v^2 = 2 - 2 cos (tl - tr) <= (tl - tr)^2
  have hcos := Real.one_sub_sq_div_two_le_cos (x := tl - tr)
  rw [Real.cos_sub] at hcos
  have e1 := Real.sin_sq_add_cos_sq tl
  have e2 := Real.sin_sq_add_cos_sq tr
  have huv : (Real.sin tl - Real.sin tr) ^ 2 + (Real.cos tr - Real.cos tl) ^ 2 ≤ (tl - tr) ^ 2 := by
    nlinarith
  have hφ : (tl - tr) ^ 2 ≤ 0.035 ^ 2 := pow_le_pow_left₀ h0 h1 2
  -- Cauchy-Schwarz
  have cs : (dx * (Real.sin tl - Real.sin tr) + dy * (Real.cos tr - Real.cos tl)) ^ 2 ≤
      (dx * dx + dy * dy) * ((Real.sin tl - Real.sin tr) ^ 2 + (Real.cos tr - Real.cos tl) ^ 2) := by
    nlinarith [sq_nonneg (dx * (Real.cos tr - Real.cos tl) - dy * (Real.sin tl - Real.sin tr))]
  have hsq : (36 : ℝ) ≤ (dx * (Real.sin tl - Real.sin tr) + dy * (Real.cos tr - Real.cos tl)) ^ 2 := by
    nlinarith
  have huv0 : 0 ≤ (Real.sin tl - Real.sin tr) ^ 2 + (Real.cos tr - Real.cos tl) ^ 2 := by positivity
  have : (dx * dx + dy * dy) * ((Real.sin tl - Real.sin tr) ^ 2 + (Real.cos tr - Real.cos tl) ^ 2) ≤
      16384 * 0.035 ^ 2 := by
    apply mul_le_mul hd'.le (le_trans huv hφ) huv0 (by norm_num)
  norm_num at this
  linarith

/-! ### the angular claim against the exact boundary lines -/

/-- **The angular claim of C18 for the fixed_point build against the EXACT boundary lines**: every
raw angle pair on which `PlaneSector::new` returns, sweep below a full turn; `tr`, `tl` the exact
angles (radians) of the lower and the upper boundary; 1.5 px = 3072 (scale 1024, half pixels). -/
theorem fixed_contains_exact (start sweep : Int) (ps : PlaneSector)
    (h : planeSectorNew start sweep = some ps) (hne : ps.op ≠ .entirePlane)
    (delta : Pt) (hd : delta.x * delta.x + delta.y * delta.y < 128 * 128) :
    (ps.op = .intersection →
      (exactLineDist (((boundaryAngles start sweep).2 : ℝ) / 65536) delta ≤ -3072 ∧
        3072 ≤ exactLineDist (((boundaryAngles start sweep).1 : ℝ) / 65536) delta → ps.contains delta = true) ∧
      (3072 < exactLineDist (((boundaryAngles start sweep).2 : ℝ) / 65536) delta ∨
        exactLineDist (((boundaryAngles start sweep).1 : ℝ) / 65536) delta < -3072 → ps.contains delta = false)) ∧
    (ps.op = .union →
      (exactLineDist (((boundaryAngles start sweep).2 : ℝ) / 65536) delta ≤ -3072 ∨
        3072 ≤ exactLineDist (((boundaryAngles start sweep).1 : ℝ) / 65536) delta → ps.contains delta = true) ∧
      (3072 < exactLineDist (((boundaryAngles start sweep).2 : ℝ) / 65536) delta ∧
        exactLineDist (((boundaryAngles start sweep).1 : ℝ) / 65536) delta < -3072 → ps.contains delta = false)) := by
  obtain ⟨hw, hps⟩ := planeSectorNew_cases start sweep ps h hne
  obtain ⟨_, _, h3⟩ := planeSectorNew_some_fits start sweep ps h
  obtain ⟨_, hfr, hfl⟩ := h3 hw
  obtain ⟨hdiff, hw0⟩ := boundary_diff start sweep
  generalize (boundaryAngles start sweep).1 = s at *
  generalize (boundaryAngles start sweep).2 = e at *
  have hnr : NormalWithin (K := ℝ) ps.right (1024 * -Real.sin ((s : ℝ) / 65536), 1024 * Real.cos ((s : ℝ) / 65536)) 10.32 := by
    apply withAngle_exact s; rw [hps, withAngle_eq s hfr]
  have hnl : NormalWithin (K := ℝ) ps.left (1024 * -Real.sin ((e : ℝ) / 65536), 1024 * Real.cos ((e : ℝ) / 65536)) 10.32 := by
    apply withAngle_exact e; rw [hps, withAngle_eq e hfl]
  have hm := margin_le_3072 (K := ℝ) ps.left _ 10.32 hnl (by norm_num) delta hd
  have hplain := containsPlain_of_margin ps _ _ 10.32 3072 hnl hnr delta hm
  unfold exactLineDist
  refine ⟨fun hi => ⟨?_, ?_⟩, fun hu => ⟨?_, ?_⟩⟩
  · -- acceptance, intersection: the bisector test must not interfere
    intro hacc
    have hlt : sweepAbs sweep < 205887 := by
      by_contra hc
      rw [hps] at hi
      simp only at hi
      rw [if_pos (by omega)] at hi
      cases hi
    have hD := deg_diff_intersection s (sweepAbs sweep) hw0 hlt
    rw [← hdiff] at hD
    by_cases hD2 : 2 ≤ deg e - deg s
    · have ho := orient_hplain (deg s) (deg (s + 102944)) (deg e) (deg (e + 102944)) ps.op
        (orient_ok (deg s) (deg e) _ _ ⟨hD2, hD.2⟩ (deg_shift s) (deg_shift e))
      have e1 : ps.contains delta = ps.containsPlain delta := by
        have hps' : ps = ⟨ps.op, tableNormal (deg e) (deg (e + 102944)), tableNormal (deg s) (deg (s + 102944))⟩ := by
          rw [hps]
        rw [hps']
        rcases ho with ho | ho
        · exact PlaneSector.contains_eq_plain_of_cross_pos _ ho delta
        · exact PlaneSector.contains_eq_plain_of_dot_nonpos _ (Or.inr ho) delta
      rw [e1]
      exact ((hplain.1 hi).1 hacc)
    · exfalso
      have hclose := close_of_deg_close s (sweepAbs sweep) (by rw [← hdiff]; omega)
      have hes : (e : ℝ) = (s : ℝ) + (sweepAbs sweep : ℝ) := by exact_mod_cast hdiff
      have hw0' : (0 : ℝ) ≤ (sweepAbs sweep : ℝ) := by exact_mod_cast hw0
      have hcl' : (sweepAbs sweep : ℝ) ≤ 2290 := by exact_mod_cast hclose
      apply exact_adjacent ((s : ℝ) / 65536) ((e : ℝ) / 65536) (by rw [hes]; linarith)
        (by rw [hes]; linarith) delta hd
      unfold exactLineDist
      exact hacc
  · intro hrej
    exact contains_false_of_plain_false ps delta ((hplain.1 hi).2 hrej)
  · intro hacc
    have e1 : ps.contains delta = ps.containsPlain delta :=
      PlaneSector.contains_eq_plain_of_dot_nonpos ps (Or.inl (by rw [hu]; decide)) delta
    rw [e1]
    exact (hplain.2 hu).1 hacc
  · intro hrej
    exact contains_false_of_plain_false ps delta ((hplain.2 hu).2 hrej)

end EG.Fx
