/-
  EG.Lemmas.GlueRRectNested — a rounded rectangle shrunk by `k` on every side, with every corner
  radius reduced by `k` (saturating), lies inside the original one — when the radii of both fit their
  rectangles (so that `confine` changes neither).

  This is the geometric core of `FillInStroke` (C06): `fill_area()` is the shape offset by
  `-inside`, `stroke_area()` the shape offset by `+outside`; the former is the latter shrunk by
  `k = inside + outside`. With fitting radii corresponding corner ellipses are concentric and the
  fill's semi-axes are the stroke's minus `k`, so the corner test is monotone
  (`Ellipse.hit_nested`, the lemma behind the ellipse's own `fill_area ⊆ stroke_area`).
-/
import EG.Lemmas.RoundedRectStyled
import EG.Lemmas.EllipseStyled
import EG.Lemmas.StyledRect
namespace EG.Glue
open EG EG.RoundedRect

/-! ### `contains` with fitting radii, in plain data -/

/-- The four corner conditions of `contains` written with the radii themselves (no `confine`, no
`leftCorner` / `rightCorner` case split): valid when the radii fit the rectangle. -/
def CornerConds (r : RoundedRect) (p : Pt) : Prop :=
  (p.y < r.rect.tl.y + r.corners.tl.h → p.x < r.rect.tl.x + r.corners.tl.w →
    (EllipseQuadrant.new r.rect.tl r.corners.tl .topLeft).contains p = true) ∧
  (r.rect.tl.y + r.rect.size.h - r.corners.bl.h ≤ p.y → p.x < r.rect.tl.x + r.corners.bl.w →
    (EllipseQuadrant.new ⟨r.rect.tl.x, r.rect.tl.y + r.rect.size.h - r.corners.bl.h⟩ r.corners.bl
      .bottomLeft).contains p = true) ∧
  (p.y < r.rect.tl.y + r.corners.tr.h → r.rect.tl.x + r.rect.size.w - r.corners.tr.w ≤ p.x →
    (EllipseQuadrant.new ⟨r.rect.tl.x + r.rect.size.w - r.corners.tr.w, r.rect.tl.y⟩ r.corners.tr
      .topRight).contains p = true) ∧
  (r.rect.tl.y + r.rect.size.h - r.corners.br.h ≤ p.y →
    r.rect.tl.x + r.rect.size.w - r.corners.br.w ≤ p.x →
    (EllipseQuadrant.new ⟨r.rect.tl.x + r.rect.size.w - r.corners.br.w,
      r.rect.tl.y + r.rect.size.h - r.corners.br.h⟩ r.corners.br .bottomRight).contains p = true)

theorem contains_iff_of_fits (r : RoundedRect) (h : r.InRange) (hf : r.corners.Fits r.rect.size) (p : Pt) :
    r.contains p = true ↔ r.rect.contains p = true ∧ CornerConds r p := by
  have hcf : r.corners.confine r.rect.size = r.corners := CornerRadii.confine_noop' _ _ hf
  obtain ⟨f1, f2, f3, f4⟩ := hf
  have hR := h
  unfold InRange Rect.InRange inI32 at hR
  obtain ⟨⟨x1, x2⟩, ⟨y1, y2⟩, hw, hh, hxw, hyh⟩ := hR
  have sl1 : (RRContains.new r).slStart = r.rect.tl.y + r.corners.tl.h := by
    rw [new_slStart, (new_rows r h).1, hcf]
  have sl2 : (RRContains.new r).slEnd = r.rect.tl.y + r.rect.size.h - r.corners.bl.h := by
    rw [new_slEnd, (new_rows r h).2, hcf]
  have sr1 : (RRContains.new r).srStart = r.rect.tl.y + r.corners.tr.h := by
    rw [new_srStart, (new_rows r h).1, hcf]
  have sr2 : (RRContains.new r).srEnd = r.rect.tl.y + r.rect.size.h - r.corners.br.h := by
    rw [new_srEnd, (new_rows r h).2, hcf]
  have etl : (RRContains.new r).topLeft = EllipseQuadrant.new r.rect.tl r.corners.tl .topLeft := by
    show r.cornerQuadrant .topLeft = _; rw [cq_tl, hcf]
  have ebl : (RRContains.new r).bottomLeft =
      EllipseQuadrant.new ⟨r.rect.tl.x, r.rect.tl.y + r.rect.size.h - r.corners.bl.h⟩ r.corners.bl
        .bottomLeft := by
    show r.cornerQuadrant .bottomLeft = _; rw [cq_bl, hcf]
  have etr : (RRContains.new r).topRight =
      EllipseQuadrant.new ⟨r.rect.tl.x + r.rect.size.w - r.corners.tr.w, r.rect.tl.y⟩ r.corners.tr
        .topRight := by
    show r.cornerQuadrant .topRight = _; rw [cq_tr, hcf]
  have ebr : (RRContains.new r).bottomRight =
      EllipseQuadrant.new ⟨r.rect.tl.x + r.rect.size.w - r.corners.br.w,
        r.rect.tl.y + r.rect.size.h - r.corners.br.h⟩ r.corners.br .bottomRight := by
    show r.cornerQuadrant .bottomRight = _; rw [cq_br, hcf]
  have ctl : (EllipseQuadrant.new r.rect.tl r.corners.tl .topLeft).colsEnd =
      r.rect.tl.x + r.corners.tl.w :=
    EllipseQuadrant.new_colsEnd _ _ _ (by unfold Rect.InRange inI32; dsimp only; omega)
  have cbl : (EllipseQuadrant.new ⟨r.rect.tl.x, r.rect.tl.y + r.rect.size.h - r.corners.bl.h⟩ r.corners.bl
      .bottomLeft).colsEnd = r.rect.tl.x + r.corners.bl.w :=
    EllipseQuadrant.new_colsEnd _ _ _ (by unfold Rect.InRange inI32; dsimp only; omega)
  unfold contains
  rw [RRContains.contains_iff, (new_rows r h).1, (new_rows r h).2, (new_cols r h).1, (new_cols r h).2,
    Rect.contains_iff]
  unfold CornerConds
  constructor
  · rintro ⟨hr, hc, hL, hRt⟩
    refine ⟨by omega, ?_, ?_, ?_, ?_⟩
    · intro hy hx
      have hq : (RRContains.new r).leftCorner p.y = some (RRContains.new r).topLeft := by
        unfold RRContains.leftCorner; rw [sl1, if_pos hy]
      have := hL _ hq (by rw [etl, ctl]; exact hx)
      rw [etl] at this; exact this
    · intro hy hx
      have hq : (RRContains.new r).leftCorner p.y = some (RRContains.new r).bottomLeft := by
        unfold RRContains.leftCorner; rw [sl1, sl2, if_neg (by omega), if_pos (by omega)]
      have := hL _ hq (by rw [ebl, cbl]; exact hx)
      rw [ebl] at this; exact this
    · intro hy hx
      have hq : (RRContains.new r).rightCorner p.y = some (RRContains.new r).topRight := by
        unfold RRContains.rightCorner; rw [sr1, if_pos hy]
      have := hRt _ hq (by rw [etr, EllipseQuadrant.new_colsStart]; exact hx)
      rw [etr] at this; exact this
    · intro hy hx
      have hq : (RRContains.new r).rightCorner p.y = some (RRContains.new r).bottomRight := by
        unfold RRContains.rightCorner; rw [sr1, sr2, if_neg (by omega), if_pos (by omega)]
      have := hRt _ hq (by rw [ebr, EllipseQuadrant.new_colsStart]; exact hx)
      rw [ebr] at this; exact this
  · rintro ⟨hb, c1, c2, c3, c4⟩
    refine ⟨by omega, by omega, ?_, ?_⟩
    · intro q hq hx
      unfold RRContains.leftCorner at hq
      rw [sl1, sl2] at hq
      split at hq
      · cases hq; rw [etl] at hx ⊢; rw [ctl] at hx; exact c1 (by assumption) hx
      · split at hq
        · cases hq; rw [ebl] at hx ⊢; rw [cbl] at hx; exact c2 (by omega) hx
        · cases hq
    · intro q hq hx
      unfold RRContains.rightCorner at hq
      rw [sr1, sr2] at hq
      split at hq
      · cases hq; rw [etr] at hx ⊢; rw [EllipseQuadrant.new_colsStart] at hx; exact c3 (by assumption) hx
      · split at hq
        · cases hq; rw [ebr] at hx ⊢; rw [EllipseQuadrant.new_colsStart] at hx; exact c4 (by omega) hx
        · cases hq

/-! ### nested corner quadrants -/

/-- Two quadrants of the same kind whose ellipses have the same centre: the one with the smaller
semi-axes is inside the other (a circular outer one needs a circular inner one, so that both use the
circle test). -/
theorem quadrant_nested {tlF tlS : Pt} {rF rS : Sz} {k : Quadrant}
    (hc : (EllipseQuadrant.new tlF rF k).center2x = (EllipseQuadrant.new tlS rS k).center2x)
    (hw : rF.w ≤ rS.w) (hh : rF.h ≤ rS.h) (hcls : rS.w = rS.h → rF.w = rF.h) {p : Pt}
    (h : (EllipseQuadrant.new tlF rF k).contains p = true) :
    (EllipseQuadrant.new tlS rS k).contains p = true := by
  have h' : Ellipse.hit (EllipseQuadrant.new tlF rF k).center2x
      (EllipseContains.new ⟨rF.w * 2, rF.h * 2⟩) p.y p.x = true := h
  have := Ellipse.hit_nested (sF := ⟨rF.w * 2, rF.h * 2⟩) (sS := ⟨rS.w * 2, rS.h * 2⟩)
    (by simp only; omega) (by simp only; omega) (by simp only; intro e; have := hcls (by omega); omega) h'
  rw [hc] at this
  exact this

/-! ### the shrunk shape lies inside -/

/-- `F` is `S` shrunk by `k` on every side with every radius reduced by `k` (saturating at 0). -/
structure ShrunkBy (S F : RoundedRect) (k : Nat) : Prop where
  x : F.rect.tl.x = S.rect.tl.x + k
  y : F.rect.tl.y = S.rect.tl.y + k
  w : F.rect.size.w + 2 * k = S.rect.size.w
  h : F.rect.size.h + 2 * k = S.rect.size.h
  tlw : F.corners.tl.w = S.corners.tl.w - k
  tlh : F.corners.tl.h = S.corners.tl.h - k
  trw : F.corners.tr.w = S.corners.tr.w - k
  trh : F.corners.tr.h = S.corners.tr.h - k
  brw : F.corners.br.w = S.corners.br.w - k
  brh : F.corners.br.h = S.corners.br.h - k
  blw : F.corners.bl.w = S.corners.bl.w - k
  blh : F.corners.bl.h = S.corners.bl.h - k

/-- **Nested rounded rectangles**: if `F` is `S` shrunk by `k` and the radii of both fit their
rectangles, every point of `F` is a point of `S`. -/
theorem nested_contains {S F : RoundedRect} {k : Nat} (hk : ShrunkBy S F k) (hS : S.InRange)
    (hF : F.InRange) (hSf : S.corners.Fits S.rect.size) (hFf : F.corners.Fits F.rect.size) {p : Pt}
    (h : F.contains p = true) : S.contains p = true := by
  rw [contains_iff_of_fits F hF hFf] at h
  rw [contains_iff_of_fits S hS hSf]
  obtain ⟨hb, c1, c2, c3, c4⟩ := h
  obtain ⟨kx, ky, kw, kh, k1, k2, k3, k4, k5, k6, k7, k8⟩ := hk
  rw [Rect.contains_iff] at hb ⊢
  refine ⟨by omega, ?_, ?_, ?_, ?_⟩
  · clear c2 c3 c4 k3 k4 k5 k6 k7 k8
    intro hy hx
    have hq := c1 (by omega) (by omega)
    refine quadrant_nested ?_ (by omega) (by omega) (by omega) hq
    simp only [EllipseQuadrant.new, EllipseQuadrant.ellipseCenter2x, Pt.mk.injEq]
    constructor <;> omega
  · clear c1 c3 c4 k1 k2 k3 k4 k5 k6
    intro hy hx
    have hq := c2 (by omega) (by omega)
    refine quadrant_nested ?_ (by omega) (by omega) (by omega) hq
    simp only [EllipseQuadrant.new, EllipseQuadrant.ellipseCenter2x, Pt.mk.injEq]
    constructor <;> omega
  · clear c1 c2 c4 k1 k2 k5 k6 k7 k8
    intro hy hx
    have hq := c3 (by omega) (by omega)
    refine quadrant_nested ?_ (by omega) (by omega) (by omega) hq
    simp only [EllipseQuadrant.new, EllipseQuadrant.ellipseCenter2x, Pt.mk.injEq]
    constructor <;> omega
  · clear c1 c2 c3 k1 k2 k3 k4 k7 k8
    intro hy hx
    have hq := c4 (by omega) (by omega)
    refine quadrant_nested ?_ (by omega) (by omega) (by omega) hq
    simp only [EllipseQuadrant.new, EllipseQuadrant.ellipseCenter2x, Pt.mk.injEq]
    constructor <;> omega

/-! ### `offset(+kO)` and `offset(-kI)` of one shape -/

theorem rect_offset_size_grow (r : Rect) (k : Nat) :
    (r.offset (k : Int)).size = ⟨satAddU32 r.size.w (k * 2), satAddU32 r.size.h (k * 2)⟩ := by
  unfold Rect.offset
  have h0 : (k : Int) ≥ 0 := by omega
  simp only [h0, ↓reduceIte, Rect.withCenter, Sz.satAdd, Sz.newEqual, Int.toNat_natCast]

/-- An in-range grown rectangle did not saturate `u32`. -/
theorem grow_no_sat (r : Rect) (k : Nat) (h : (r.offset (k : Int)).InRange) :
    r.size.w + 2 * k ≤ 2147483647 ∧ r.size.h + 2 * k ≤ 2147483647 := by
  have hw := h.w_le
  have hh := h.h_le
  rw [rect_offset_size_grow] at hw hh
  simp only [satAddU32] at hw hh
  constructor
  · split at hw <;> omega
  · split at hh <;> omega

theorem satAddU32_of_le {a k n : Nat} (h : satAddU32 a k ≤ n) (hn : n ≤ 2147483647) :
    satAddU32 a k = a + k := by
  unfold satAddU32 at h ⊢
  split <;> simp_all <;> omega

theorem offset_corners_grow (r : RoundedRect) (k : Nat) :
    (r.offset (k : Int)).corners =
      ⟨⟨satAddU32 r.corners.tl.w k, satAddU32 r.corners.tl.h k⟩,
       ⟨satAddU32 r.corners.tr.w k, satAddU32 r.corners.tr.h k⟩,
       ⟨satAddU32 r.corners.br.w k, satAddU32 r.corners.br.h k⟩,
       ⟨satAddU32 r.corners.bl.w k, satAddU32 r.corners.bl.h k⟩⟩ := by
  unfold RoundedRect.offset
  have h0 : (k : Int) ≥ 0 := by omega
  simp only [h0, ↓reduceIte, Sz.satAdd, Sz.newEqual, Int.toNat_natCast]

theorem offset_corners_shrink (r : RoundedRect) (k : Nat) (hk : 1 ≤ k) :
    (r.offset (-(k : Int))).corners =
      ⟨⟨r.corners.tl.w - k, r.corners.tl.h - k⟩, ⟨r.corners.tr.w - k, r.corners.tr.h - k⟩,
       ⟨r.corners.br.w - k, r.corners.br.h - k⟩, ⟨r.corners.bl.w - k, r.corners.bl.h - k⟩⟩ := by
  unfold RoundedRect.offset
  have h0 : ¬ (-(k : Int) ≥ 0) := by omega
  simp only [h0, ↓reduceIte, Sz.satSub, Sz.newEqual, Int.neg_neg, Int.toNat_natCast]

/-- **`fill_area` is `stroke_area` shrunk by `inside + outside`**: `offset(-kI)` of a shape against
`offset(+kO)` of the same shape, when the grown shape is in range with fitting radii and the shrunk
one is not collapsed. -/
theorem shrunkBy_offsets (r : RoundedRect) (kO kI : Nat)
    (hS : (r.offset (kO : Int)).InRange)
    (hFw : 0 < (r.offset (-(kI : Int))).rect.size.w) (hFh : 0 < (r.offset (-(kI : Int))).rect.size.h)
    (hSf : (r.offset (kO : Int)).corners.Fits (r.offset (kO : Int)).rect.size) :
    ShrunkBy (r.offset (kO : Int)) (r.offset (-(kI : Int))) (kI + kO) := by
  obtain ⟨gw, gh⟩ := grow_no_sat r.rect kO hS
  have eSr : (r.offset (kO : Int)).rect = r.rect.offset (kO : Int) := rfl
  have eFr : (r.offset (-(kI : Int))).rect = r.rect.offset (-(kI : Int)) := rfl
  have eS := Rect.offset_grow r.rect kO (by omega) (by omega)
  have eF := Rect.offset_shrink r.rect kI (by omega) (by omega)
  rw [eFr, eF] at hFw hFh
  simp only at hFw hFh
  have eSc := offset_corners_grow r kO
  obtain ⟨f1, f2, f3, f4⟩ := hSf
  rw [eSr, eS, eSc] at f1 f2 f3 f4
  simp only at f1 f2 f3 f4
  have a1 := satAddU32_of_le (a := r.corners.tl.w) (k := kO) (n := r.rect.size.w + 2 * kO) (by omega) (by omega)
  have a2 := satAddU32_of_le (a := r.corners.tl.h) (k := kO) (n := r.rect.size.h + 2 * kO) (by omega) (by omega)
  have a3 := satAddU32_of_le (a := r.corners.tr.w) (k := kO) (n := r.rect.size.w + 2 * kO) (by omega) (by omega)
  have a4 := satAddU32_of_le (a := r.corners.tr.h) (k := kO) (n := r.rect.size.h + 2 * kO) (by omega) (by omega)
  have a5 := satAddU32_of_le (a := r.corners.br.w) (k := kO) (n := r.rect.size.w + 2 * kO) (by omega) (by omega)
  have a6 := satAddU32_of_le (a := r.corners.br.h) (k := kO) (n := r.rect.size.h + 2 * kO) (by omega) (by omega)
  have a7 := satAddU32_of_le (a := r.corners.bl.w) (k := kO) (n := r.rect.size.w + 2 * kO) (by omega) (by omega)
  have a8 := satAddU32_of_le (a := r.corners.bl.h) (k := kO) (n := r.rect.size.h + 2 * kO) (by omega) (by omega)
  have eFc : (r.offset (-(kI : Int))).corners =
      ⟨⟨r.corners.tl.w - kI, r.corners.tl.h - kI⟩, ⟨r.corners.tr.w - kI, r.corners.tr.h - kI⟩,
       ⟨r.corners.br.w - kI, r.corners.br.h - kI⟩, ⟨r.corners.bl.w - kI, r.corners.bl.h - kI⟩⟩ := by
    by_cases hI : kI = 0
    · subst hI
      have := offset_corners_grow r 0
      simp only [Int.natCast_zero, Int.neg_zero] at this ⊢
      rw [this]
      have z : ∀ a : Nat, a + kO ≤ 2147483647 → satAddU32 a 0 = a := by
        intro a ha; unfold satAddU32; rw [if_pos (by omega)]; rfl
      rw [z _ (by omega), z _ (by omega), z _ (by omega), z _ (by omega), z _ (by omega), z _ (by omega),
        z _ (by omega), z _ (by omega)]
      simp only [Nat.sub_zero]
    · exact offset_corners_shrink r kI (by omega)
  constructor
  all_goals simp only [eSr, eS, eFr, eF, eSc, eFc, a1, a2, a3, a4, a5, a6, a7, a8]
  all_goals omega

/-! ### `FillInStroke` for fitting radii -/

theorem satAsI32_eq_min (n : Nat) : satAsI32 n = ((min n 2147483647 : Nat) : Int) := by
  unfold satAsI32; split <;> omega

/-- **`FillInStroke` when `confine` changes neither area**: if the radii of `stroke_area()` fit its
rectangle and the radii of `fill_area()` fit its rectangle, every point of the fill area lies in the
stroke area — every alignment, every width, unequal corner radii included. -/
theorem fillInStroke_of_fits (st : Style) (r : RoundedRect) (hS : (r.strokeArea st).InRange)
    (hF : (r.fillArea st).InRange)
    (hSf : (r.strokeArea st).corners.Fits (r.strokeArea st).rect.size)
    (hFf : (r.fillArea st).corners.Fits (r.fillArea st).rect.size) : FillInStroke st r := by
  by_cases hz : (r.fillArea st).rect.size.w = 0 ∨ (r.fillArea st).rect.size.h = 0
  · exact fillInStroke_of_collapsed st r hF hz
  · intro p hp
    unfold strokeArea fillArea Style.strokeOffset Style.fillOffset at *
    rw [satAsI32_eq_min] at *
    exact nested_contains (shrunkBy_offsets r _ _ hS (by omega) (by omega) hSf) hS hF hSf hFf hp

/-- Radii that fit the shape also fit the stroke area (both grow by the outside width). -/
theorem strokeArea_fits (st : Style) (r : RoundedRect) (hS : (r.strokeArea st).InRange)
    (hf : r.corners.Fits r.rect.size) :
    (r.strokeArea st).corners.Fits (r.strokeArea st).rect.size := by
  unfold strokeArea Style.strokeOffset at *
  rw [satAsI32_eq_min] at *
  obtain ⟨gw, gh⟩ := grow_no_sat r.rect _ hS
  obtain ⟨f1, f2, f3, f4⟩ := hf
  have eSr : (r.offset ((min st.outsideStrokeWidth 2147483647 : Nat) : Int)).rect =
      r.rect.offset ((min st.outsideStrokeWidth 2147483647 : Nat) : Int) := rfl
  rw [eSr, Rect.offset_grow r.rect _ (by omega) (by omega), offset_corners_grow]
  have z : ∀ a : Nat, a ≤ 2147483647 - 2 * min st.outsideStrokeWidth 2147483647 →
      satAddU32 a (min st.outsideStrokeWidth 2147483647) = a + min st.outsideStrokeWidth 2147483647 := by
    intro a ha; unfold satAddU32; rw [if_pos (by omega)]
  unfold CornerRadii.Fits
  simp only
  rw [z _ (by omega), z _ (by omega), z _ (by omega), z _ (by omega), z _ (by omega), z _ (by omega),
    z _ (by omega), z _ (by omega)]
  omega

/-- No corner radius exceeds half the side it lies along (e.g. equal radii that fit). -/
def HalfFits (c : CornerRadii) (bb : Sz) : Prop :=
  2 * c.tl.w ≤ bb.w ∧ 2 * c.tl.h ≤ bb.h ∧ 2 * c.tr.w ≤ bb.w ∧ 2 * c.tr.h ≤ bb.h ∧
  2 * c.br.w ≤ bb.w ∧ 2 * c.br.h ≤ bb.h ∧ 2 * c.bl.w ≤ bb.w ∧ 2 * c.bl.h ≤ bb.h
instance (c : CornerRadii) (bb : Sz) : Decidable (HalfFits c bb) := by unfold HalfFits; exact inferInstance

theorem HalfFits.fits {c : CornerRadii} {bb : Sz} (h : HalfFits c bb) : c.Fits bb := by
  unfold HalfFits at h; unfold CornerRadii.Fits; omega

/-- The rectangle and the corners of `fill_area()` in closed form (`kI` = the saturated inside
width), given only that the shape's sizes and radii are below the `i32` bound. -/
theorem fillArea_fields (r : RoundedRect) (kI : Nat) (hw : r.rect.size.w ≤ 2147483647)
    (hh : r.rect.size.h ≤ 2147483647) (hc : r.corners.Fits r.rect.size) :
    (r.offset (-(kI : Int))).rect.size = ⟨r.rect.size.w - 2 * kI, r.rect.size.h - 2 * kI⟩ ∧
    (r.offset (-(kI : Int))).corners =
      ⟨⟨r.corners.tl.w - kI, r.corners.tl.h - kI⟩, ⟨r.corners.tr.w - kI, r.corners.tr.h - kI⟩,
       ⟨r.corners.br.w - kI, r.corners.br.h - kI⟩, ⟨r.corners.bl.w - kI, r.corners.bl.h - kI⟩⟩ := by
  have eFr : (r.offset (-(kI : Int))).rect = r.rect.offset (-(kI : Int)) := rfl
  refine ⟨by rw [eFr, Rect.offset_shrink r.rect kI (by omega) (by omega)], ?_⟩
  obtain ⟨f1, f2, f3, f4⟩ := hc
  by_cases hI : kI = 0
  · subst hI
    have := offset_corners_grow r 0
    simp only [Int.natCast_zero, Int.neg_zero] at this ⊢
    rw [this]
    have z : ∀ a : Nat, a ≤ 2147483647 → satAddU32 a 0 = a := by
      intro a ha; unfold satAddU32; rw [if_pos (by omega)]; rfl
    rw [z _ (by omega), z _ (by omega), z _ (by omega), z _ (by omega), z _ (by omega), z _ (by omega),
      z _ (by omega), z _ (by omega)]
    simp only [Nat.sub_zero]
  · exact offset_corners_shrink r kI (by omega)

/-- With no radius above half its side the radii of `fill_area()` fit it. -/
theorem fillArea_fits_of_half (st : Style) (r : RoundedRect) (hw : r.rect.size.w ≤ 2147483647)
    (hh : r.rect.size.h ≤ 2147483647) (hc : HalfFits r.corners r.rect.size) :
    (r.fillArea st).corners.Fits (r.fillArea st).rect.size := by
  unfold fillArea Style.fillOffset at *
  rw [satAsI32_eq_min] at *
  obtain ⟨e1, e2⟩ := fillArea_fields r (min st.insideStrokeWidth 2147483647) hw hh hc.fits
  rw [e1, e2]
  unfold HalfFits at hc
  unfold CornerRadii.Fits
  simp only
  omega

/-- Inside width 0 (`Outside` alignment, or width 0): `fill_area()` has the shape's own radii. -/
theorem fillArea_fits_of_inside_zero (st : Style) (r : RoundedRect) (h0 : st.insideStrokeWidth = 0)
    (hw : r.rect.size.w ≤ 2147483647) (hh : r.rect.size.h ≤ 2147483647)
    (hc : r.corners.Fits r.rect.size) :
    (r.fillArea st).corners.Fits (r.fillArea st).rect.size := by
  unfold fillArea Style.fillOffset
  rw [satAsI32_eq_min, h0]
  obtain ⟨e1, e2⟩ := fillArea_fields r 0 hw hh hc
  simp only [Nat.zero_min, Int.natCast_zero, Int.neg_zero, Nat.mul_zero, Nat.sub_zero] at e1 e2 ⊢
  rw [e1, e2]
  exact hc

/-- The shape's own sizes are below the `i32` bound when its stroke area is in range. -/
theorem size_le_of_strokeArea (st : Style) (r : RoundedRect) (hS : (r.strokeArea st).InRange) :
    r.rect.size.w ≤ 2147483647 ∧ r.rect.size.h ≤ 2147483647 := by
  unfold strokeArea Style.strokeOffset at hS
  rw [satAsI32_eq_min] at hS
  obtain ⟨gw, gh⟩ := grow_no_sat r.rect _ hS
  omega

end EG.Glue
