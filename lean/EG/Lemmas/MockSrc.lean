/-
  EG.Lemmas.MockSrc — laws of the panic monad `MutRes` of EG/Model/MockSrcPrelude.lean and of `for` loops in it
  (used by EG/Props/C20/Generated*.lean to compare the regenerated MockDisplay code with the hand model).
-/
import EG.Model.MockSrcPrelude
namespace EG.MockSrcLemmas
open EG EG.Mock EG.MockSrcPrelude

/-- forget the panic message and state: the hand model's `Option`. -/
def toOpt {σ α : Type} : MutRes σ α → Option α
  | .ok v => some v
  | .panic _ _ => none

theorem bind_def {σ α β : Type} (r : MutRes σ α) (k : α → MutRes σ β) : (r >>= k) = r.bind k := rfl
theorem pure_def {σ α : Type} (v : α) : (pure v : MutRes σ α) = .ok v := rfl
/- The two reduction laws are deliberately NOT `rfl` lemmas: `simp` would use a `rfl` lemma by `dsimp`, leaving the kernel to
   re-check `(ok v).bind k ≡ k v` by unfolding, and when `k v` is again a `bind` whose first argument is a 4096-step loop
   the kernel evaluates that loop (deep recursion). -/
theorem bind_ok {σ α β : Type} (v : α) (k : α → MutRes σ β) : (MutRes.ok v).bind k = k v := by
  cases h : k v <;> simp only [MutRes.bind, h]
theorem bind_panic {σ α β : Type} (m : String) (s : σ) (k : α → MutRes σ β) :
    (MutRes.panic m s).bind k = .panic m s := by
  simp only [MutRes.bind]
theorem bind_ok_right {σ α : Type} (r : MutRes σ α) : r.bind MutRes.ok = r := by cases r <;> rfl
theorem at_state_ok {σ σ' α : Type} (s : σ') (v : α) : at_state s (MutRes.ok v : MutRes σ α) = .ok v := rfl
theorem at_state_panic {σ σ' α : Type} (s : σ') (m : String) (t : σ) :
    at_state s (MutRes.panic m t : MutRes σ α) = .panic m s := rfl
theorem toOpt_at_state {σ σ' α : Type} (s : σ') (r : MutRes σ α) : toOpt (at_state s r) = toOpt r := by
  cases r <;> rfl
theorem toOpt_ok {σ α : Type} (v : α) : toOpt (MutRes.ok v : MutRes σ α) = some v := rfl
theorem toOpt_panic {σ α : Type} (m : String) (s : σ) : toOpt (MutRes.panic m s : MutRes σ α) = none := rfl

/-- a `for` loop whose body only continues (no `break` / `return` inside), written out. -/
def loopM {σ α β : Type} (F : α → β → MutRes σ β) : List α → β → MutRes σ β
  | [], b => .ok b
  | a :: as, b => (F a b).bind (fun v => loopM F as v)

theorem forIn_yield {σ α β : Type} (F : α → β → MutRes σ β) : ∀ (l : List α) (init : β),
    forIn l init (fun a b => (F a b).bind (fun v => MutRes.ok (ForInStep.yield v))) = loopM F l init := by
  intro l
  induction l with
  | nil => intro b; rfl
  | cons a as ih =>
    intro b
    rw [List.forIn_cons]
    simp only [loopM, bind, MutRes.bind]
    cases F a b with
    | ok v => simp only []; exact ih v
    | panic m s => rfl

theorem bind_assoc {σ α β γ : Type} (r : MutRes σ α) (f : α → MutRes σ β) (g : β → MutRes σ γ) :
    (r.bind f).bind g = r.bind (fun x => (f x).bind g) := by
  cases r with
  | ok v => rw [bind_ok, bind_ok]
  | panic m s => rw [bind_panic, bind_panic, bind_panic]

/-- `forIn_yield` for a body given as it comes out of the `do` notation. -/
theorem forIn_yield' {σ α β : Type} (body : α → β → MutRes σ (ForInStep β)) (F : α → β → MutRes σ β)
    (h : ∀ a b, body a b = (F a b).bind (fun v => MutRes.ok (ForInStep.yield v))) (l : List α) (init : β) :
    forIn l init body = loopM F l init := by
  have hb : body = fun a b => (F a b).bind (fun v => MutRes.ok (ForInStep.yield v)) := by
    funext a b; exact h a b
  rw [hb]; exact forIn_yield F l init

theorem foldl_none {α β : Type} (G : Option β → α → Option β) (hG : ∀ a, G none a = none) :
    ∀ l : List α, l.foldl G none = none := by
  intro l; induction l with
  | nil => rfl
  | cons a as ih => rw [List.foldl_cons, hG, ih]

/-- a loop in the panic monad against a `foldl` over `Option` (`none` = panicked), as the hand model writes loops. -/
theorem loopM_foldl {σ α β : Type} (F : α → β → MutRes σ β) (G : Option β → α → Option β) (hG : ∀ a, G none a = none)
    (h : ∀ a b, toOpt (F a b) = G (some b) a) : ∀ (l : List α) (b : β), toOpt (loopM F l b) = l.foldl G (some b) := by
  intro l
  induction l with
  | nil => intro b; rfl
  | cons a as ih =>
    intro b
    have hab := h a b
    rw [List.foldl_cons, ← hab]
    simp only [loopM, MutRes.bind]
    cases F a b with
    | ok v => simp only [toOpt]; exact ih v
    | panic m s => simp only [toOpt]; exact (foldl_none G hG as).symm

theorem toOpt_eq_some {σ α : Type} {r : MutRes σ α} {v : α} (h : toOpt r = some v) : ∃ _u : Unit, r = .ok v := by
  cases r with
  | ok w => simp only [toOpt, Option.some.injEq] at h; subst h; exact ⟨(), rfl⟩
  | panic m s => cases h

/-! ### lazy iterators: pulling every element -/

theorem toOpt_bind {σ α β : Type} (r : MutRes σ α) (k : α → MutRes σ β) :
    toOpt (r.bind k) = (toOpt r).bind (fun v => toOpt (k v)) := by
  cases r with
  | ok v => rw [bind_ok]; rfl
  | panic m s => rw [bind_panic]; rfl

/-- pulling every element of a lazy iterator, panics as `none`: all the values, or `none` at the first panic. -/
def seqO {α : Type} : List (Option α) → Option (List α)
  | [] => some []
  | a :: rest => a.bind fun v => (seqO rest).bind fun vs => some (v :: vs)

theorem seqO_some {α : Type} : ∀ l : List α, seqO (l.map some) = some l
  | [] => rfl
  | a :: rest => by simp [seqO, seqO_some rest]

theorem seqO_append {α : Type} : ∀ (A B : List (Option α)),
    seqO (A ++ B) = (seqO A).bind (fun a => (seqO B).map (fun b => a ++ b))
  | [], B => by cases h : seqO B <;> simp [seqO, h]
  | a :: rest, B => by
    have ih := seqO_append rest B
    cases a with
    | none => simp [seqO]
    | some v =>
      simp only [List.cons_append, seqO, Option.bind_some, ih]
      cases seqO rest with
      | none => simp
      | some vs => cases seqO B <;> simp

theorem seqO_length {α : Type} : ∀ (l : List (Option α)) (vs : List α), seqO l = some vs → vs.length = l.length
  | [], vs, h => by simp [seqO] at h; subst h; rfl
  | a :: rest, vs, h => by
    cases a with
    | none => simp [seqO] at h
    | some v =>
      cases hr : seqO rest with
      | none => simp [seqO, hr] at h
      | some ws =>
        simp [seqO, hr] at h
        subst h
        simp [seqO_length rest ws hr]

/-! ### `chunks` / `rchunks` of a slice of `64 * n` elements against the hand model's `chunks64` -/

theorem chunksFuel_eq_chunks64 : ∀ (n fuel : Nat) (l : List (Option Color)), l.length = 64 * n → n ≤ fuel →
    chunksFuel 64 fuel l = chunks64 l n
  | 0, fuel, l, hl, _ => by
    have : l = [] := List.eq_nil_of_length_eq_zero (by omega)
    subst this
    cases fuel <;> rfl
  | n + 1, 0, l, _, hf => by omega
  | n + 1, fuel + 1, l, hl, hf => by
    have hne : l.isEmpty = false := by
      cases l with
      | nil => simp at hl
      | cons a as => rfl
    simp only [chunksFuel, hne, Bool.false_eq_true, ↓reduceIte, chunks64]
    rw [chunksFuel_eq_chunks64 n fuel (l.drop 64) (by rw [List.length_drop]; omega) (by omega)]

theorem chunks64_snoc : ∀ (n : Nat) (l : List (Option Color)),
    chunks64 l (n + 1) = chunks64 (l.take (64 * n)) n ++ [(l.drop (64 * n)).take 64]
  | 0, l => by simp [chunks64]
  | n + 1, l => by
    rw [chunks64, chunks64_snoc n (l.drop 64)]
    rw [show chunks64 (List.take (64 * (n + 1)) l) (n + 1)
        = List.take 64 (List.take (64 * (n + 1)) l) :: chunks64 (List.drop 64 (List.take (64 * (n + 1)) l)) n from rfl]
    have h1 : List.take 64 (List.take (64 * (n + 1)) l) = List.take 64 l := by
      rw [List.take_take, Nat.min_eq_left (by omega)]
    have h2 : List.drop 64 (List.take (64 * (n + 1)) l) = List.take (64 * n) (List.drop 64 l) := by
      have e : 64 * (n + 1) - 64 = 64 * n := by omega
      rw [List.drop_take, e]
    have h3 : List.drop (64 * n) (List.drop 64 l) = List.drop (64 * (n + 1)) l := by
      have e : 64 * n + 64 = 64 * (n + 1) := by omega
      have e' : 64 + 64 * n = 64 * (n + 1) := by omega
      rw [List.drop_drop]
      first | rw [e] | rw [e']
    rw [h1, h2, h3]; rfl

theorem rchunksFuel_eq_chunks64 : ∀ (n fuel : Nat) (l : List (Option Color)), l.length = 64 * n → n ≤ fuel →
    rchunksFuel 64 fuel l = (chunks64 l n).reverse
  | 0, fuel, l, hl, _ => by
    have : l = [] := List.eq_nil_of_length_eq_zero (by omega)
    subst this
    cases fuel <;> rfl
  | n + 1, 0, l, _, hf => by omega
  | n + 1, fuel + 1, l, hl, hf => by
    have hne : l.isEmpty = false := by
      cases l with
      | nil => simp at hl
      | cons a as => rfl
    have hlen : l.length - 64 = 64 * n := by omega
    simp only [rchunksFuel, hne, Bool.false_eq_true, ↓reduceIte, hlen]
    rw [rchunksFuel_eq_chunks64 n fuel (l.take (64 * n)) (by rw [List.length_take]; omega) (by omega), chunks64_snoc n l,
      List.reverse_append, List.reverse_singleton, List.singleton_append]
    congr 1
    rw [List.take_of_length_le (by rw [List.length_drop]; omega)]

end EG.MockSrcLemmas
