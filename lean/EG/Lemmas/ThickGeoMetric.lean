/-
  EG.Lemmas.ThickGeoMetric — the metrics of the harness oracle for stroked lines (header of
  harness/src/m_thick.rs) as Lean definitions, and their translation into the forms `dt`, `ph` of
  EG.Lemmas.ThickGeoFrame. Used by the statements of EG/Props/C17/Stroke.lean.
-/
import EG.Lemmas.ThickGeoMain
import Mathlib.Tactic.Ring
namespace EG.C17.Stroke
open EG

/-- The direction a stroke is measured in: `end - start`, or `(1, 0)` for a zero-length line
(`ParallelsIterator::new` replaces it by `HORIZONTAL_LINE`; the oracle does the same). -/
def strokeDir (l : Line) : Pt := if l.start = l.stop then ⟨1, 0⟩ else l.stop - l.start

/-- `dot(p)` of the oracle. -/
def dot (l : Line) (p : Pt) : Int :=
  (strokeDir l).x * (p.x - l.start.x) + (strokeDir l).y * (p.y - l.start.y)

/-- `cross(p)` of the oracle. -/
def cross (l : Line) (p : Pt) : Int :=
  (strokeDir l).x * (p.y - l.start.y) - (strokeDir l).y * (p.x - l.start.x)

/-- `L2` of the oracle. -/
def L2 (l : Line) : Int := (strokeDir l).x ^ 2 + (strokeDir l).y ^ 2

/-- `max(|dx|, |dy|)` of the stroke direction. -/
def majorLen (l : Line) : Int := max (strokeDir l).x.natAbs (strokeDir l).y.natAbs

/-- `min(|dx|, |dy|)` of the stroke direction. -/
def minorLen (l : Line) : Int := min (strokeDir l).x.natAbs (strokeDir l).y.natAbs

theorem strokeDir_eq (l : Line) :
    (strokeDir l).x = Line.dxOf (Thick.paramLine l) ∧ (strokeDir l).y = Line.dyOf (Thick.paramLine l) := by
  unfold strokeDir Thick.paramLine Line.dxOf Line.dyOf
  by_cases h : l.start = l.stop
  · simp only [h, ↓reduceIte, Thick.horizontalLine]; decide
  · simp only [h, ↓reduceIte, Pt.sub_x, Pt.sub_y]; exact ⟨trivial, trivial⟩

theorem dot_eq (l : Line) (p : Pt) :
    dot l p = (Thick.ctxOf l).dt p - (Thick.ctxOf l).dt l.start := by
  rw [Thick.dt_eq, Thick.dt_eq]
  obtain ⟨hx, hy⟩ := strokeDir_eq l
  unfold dot
  rw [hx, hy, Int.mul_sub, Int.mul_sub]
  omega

theorem L2_eq (l : Line) :
    L2 l = (Thick.ctxOf l).D * (Thick.ctxOf l).D + (Thick.ctxOf l).d * (Thick.ctxOf l).d := by
  rw [← Thick.L2_eq]
  obtain ⟨hx, hy⟩ := strokeDir_eq l
  unfold L2
  rw [hx, hy, Int.pow_succ, Int.pow_succ, Int.pow_succ, Int.pow_succ, Int.pow_zero, Int.pow_zero,
    Int.one_mul, Int.one_mul]

theorem majorLen_eq (l : Line) : majorLen l = (Thick.ctxOf l).D := by
  obtain ⟨hx, hy⟩ := strokeDir_eq l
  show _ = Line.dmaj (Thick.paramLine l)
  unfold majorLen Line.dmaj Line.yMajor Line.aabs
  rw [hx, hy]
  split <;> omega


theorem minorLen_eq (l : Line) : minorLen l = (Thick.ctxOf l).d := by
  obtain ⟨hx, hy⟩ := strokeDir_eq l
  show _ = Line.dmin (Thick.paramLine l)
  unfold minorLen Line.dmin Line.yMajor Line.aabs
  rw [hx, hy]
  split <;> omega

/-- The band form is twice the cross product, up to the orientation of the line's step pair. -/
theorem ph_cross (l : Line) (p : Pt) :
    (Thick.ctxOf l).ph p - (Thick.ctxOf l).ph l.start = 2 * cross l p ∨
    (Thick.ctxOf l).ph p - (Thick.ctxOf l).ph l.start = -(2 * cross l p) := by
  obtain ⟨hx, hy⟩ := strokeDir_eq l
  have h := Thick.delta_decomp (Thick.paramLine l)
  rw [Pt.ext_iff'] at h
  simp only [Pt.sub_x, Pt.sub_y, Pt.add_x, Pt.add_y, Thick.smul_x, Thick.smul_y] at h
  obtain ⟨hdx, hdy⟩ := h
  have hx' : (strokeDir l).x =
      (Thick.ctxOf l).D * (Thick.ctxOf l).M.x + (Thick.ctxOf l).d * (Thick.ctxOf l).m.x := by
    rw [hx]; exact hdx
  have hy' : (strokeDir l).y =
      (Thick.ctxOf l).D * (Thick.ctxOf l).M.y + (Thick.ctxOf l).d * (Thick.ctxOf l).m.y := by
    rw [hy]; exact hdy
  unfold cross
  rw [hx', hy']
  unfold Thick.StrokeCtx.ph Thick.StrokeCtx.amaj Thick.StrokeCtx.amin
  rcases (Thick.ctxOf_valid l).ax with ⟨e1 | e1, e2 | e2⟩ | ⟨e1 | e1, e2 | e2⟩ <;> rw [e1, e2] <;>
    simp only <;> first | (left; ring1) | (right; ring1)


/-- The same, with one sign for all points. -/
theorem ph_cross_uniform (l : Line) :
    (∀ p, (Thick.ctxOf l).ph p - (Thick.ctxOf l).ph l.start = 2 * cross l p) ∨
    (∀ p, (Thick.ctxOf l).ph p - (Thick.ctxOf l).ph l.start = -(2 * cross l p)) := by
  obtain ⟨hx, hy⟩ := strokeDir_eq l
  have h := Thick.delta_decomp (Thick.paramLine l)
  rw [Pt.ext_iff'] at h
  simp only [Pt.sub_x, Pt.sub_y, Pt.add_x, Pt.add_y, Thick.smul_x, Thick.smul_y] at h
  obtain ⟨hdx, hdy⟩ := h
  have hx' : (strokeDir l).x =
      (Thick.ctxOf l).D * (Thick.ctxOf l).M.x + (Thick.ctxOf l).d * (Thick.ctxOf l).m.x := by
    rw [hx]; exact hdx
  have hy' : (strokeDir l).y =
      (Thick.ctxOf l).D * (Thick.ctxOf l).M.y + (Thick.ctxOf l).d * (Thick.ctxOf l).m.y := by
    rw [hy]; exact hdy
  unfold cross
  rw [hx', hy']
  unfold Thick.StrokeCtx.ph Thick.StrokeCtx.amaj Thick.StrokeCtx.amin
  rcases (Thick.ctxOf_valid l).ax with ⟨e1 | e1, e2 | e2⟩ | ⟨e1 | e1, e2 | e2⟩ <;> rw [e1, e2] <;>
    simp only <;> first | (left; intro p; ring1) | (right; intro p; ring1)

theorem ph_sq (l : Line) (p : Pt) :
    ((Thick.ctxOf l).ph p - (Thick.ctxOf l).ph l.start) *
      ((Thick.ctxOf l).ph p - (Thick.ctxOf l).ph l.start) = 4 * cross l p ^ 2 := by
  rcases ph_cross l p with h | h <;> rw [h] <;> ring

end EG.C17.Stroke
