/-
  EG.Lemmas.C01ThickStream — what a `for` loop sees of a model iterator, without fuel.

  The join models (EG.Model.ThickPolyline, EG.Model.ThickTriangle) give every Rust iterator as a
  state type `σ` with `next : σ → Option (Option (α × σ))` (outer `none` = a step budget of the
  model ran out; `some none` = Rust's `None`) and drain it with explicit fuel (`toListFuel`, which
  returns the prefix seen so far when the fuel is used up). `Run next s l` says, without any fuel,
  that a `for` loop started in state `s` sees exactly the items `l` and then `None`.
  * `listFuel_run`: a fuelled drain that returned fewer items than its fuel saw the whole run;
  * `Run.listFuel`: conversely, with more fuel than items the fuelled drain returns the run;
  * `Run.unique`: the run is unique.
  Also here: permuting a write list whose points are pairwise distinct does not change the map.
-/
import EG.Lemmas.PMap
namespace EG
namespace C01Thick
open EG.Tgt

/-- The complete run of an iterator: the items a `for` loop sees, up to the first `None`. -/
inductive Run {σ α : Type} (next : σ → Option (Option (α × σ))) : σ → List α → Prop
  | done {s : σ} : next s = some none → Run next s []
  | step {s s' : σ} {a : α} {l : List α} : next s = some (some (a, s')) → Run next s' l →
      Run next s (a :: l)

/-- The fuelled drain all `toListFuel`s of the join models are instances of. -/
def listFuel {σ α : Type} (next : σ → Option (Option (α × σ))) : Nat → σ → Option (List α)
  | 0, _ => some []
  | fuel + 1, s =>
    match next s with
    | none => none
    | some none => some []
    | some (some (a, s')) =>
      match listFuel next fuel s' with
      | none => none
      | some rest => some (a :: rest)

theorem Run.unique {σ α : Type} {next : σ → Option (Option (α × σ))} {s : σ} {l l' : List α}
    (h : Run next s l) (h' : Run next s l') : l = l' := by
  induction h generalizing l' with
  | done h1 =>
    cases h' with
    | done _ => rfl
    | step h2 _ => rw [h1] at h2; cases h2
  | step h1 _ ih =>
    cases h' with
    | done h2 => rw [h1] at h2; cases h2
    | step h2 hr =>
      rw [h1] at h2
      simp only [Option.some.injEq, Prod.mk.injEq] at h2
      obtain ⟨rfl, rfl⟩ := h2
      rw [ih hr]

/-- A fuelled drain that did not use up its fuel saw the complete run. -/
theorem listFuel_run {σ α : Type} {next : σ → Option (Option (α × σ))} :
    ∀ (fuel : Nat) (s : σ) (l : List α), listFuel next fuel s = some l → l.length < fuel →
      Run next s l := by
  intro fuel
  induction fuel with
  | zero => intro s l _ h; omega
  | succ n ih =>
    intro s l h hlen
    rw [listFuel] at h
    cases hn : next s with
    | none => rw [hn] at h; cases h
    | some r =>
      rw [hn] at h
      cases r with
      | none =>
        simp only [Option.some.injEq] at h
        subst h
        exact Run.done hn
      | some p =>
        obtain ⟨a, s'⟩ := p
        dsimp only at h
        cases hr : listFuel next n s' with
        | none => rw [hr] at h; cases h
        | some rest =>
          rw [hr] at h
          simp only [Option.some.injEq] at h
          subst h
          exact Run.step hn (ih s' rest hr (by simp only [List.length_cons] at hlen; omega))

/-- With more fuel than items the fuelled drain returns the complete run. -/
theorem Run.listFuel {σ α : Type} {next : σ → Option (Option (α × σ))} {s : σ} {l : List α}
    (h : Run next s l) : ∀ fuel, l.length < fuel → C01Thick.listFuel next fuel s = some l := by
  induction h with
  | done h1 =>
    intro fuel hf
    obtain ⟨n, rfl⟩ : ∃ n, fuel = n + 1 := ⟨fuel - 1, by omega⟩
    rw [C01Thick.listFuel, h1]
  | step h1 _ ih =>
    intro fuel hf
    obtain ⟨n, rfl⟩ : ∃ n, fuel = n + 1 := ⟨fuel - 1, by simp only [List.length_cons] at hf; omega⟩
    rw [C01Thick.listFuel, h1]
    dsimp only
    rw [ih n (by simp only [List.length_cons] at hf; omega)]

/-- Whatever the fuel, the fuelled drain returns the first `fuel` items of the complete run. -/
theorem Run.listFuel_take {σ α : Type} {next : σ → Option (Option (α × σ))} {s : σ} {l : List α}
    (h : Run next s l) : ∀ fuel, C01Thick.listFuel next fuel s = some (l.take fuel) := by
  induction h with
  | done h1 =>
    intro fuel
    cases fuel with
    | zero => rfl
    | succ n => rw [C01Thick.listFuel, h1]; rfl
  | step h1 _ ih =>
    intro fuel
    cases fuel with
    | zero => rfl
    | succ n =>
      rw [C01Thick.listFuel, h1]
      dsimp only
      rw [ih n]
      rfl

/-- A fuelled drain never returns more items than it has fuel. -/
theorem listFuel_length {σ α : Type} {next : σ → Option (Option (α × σ))} :
    ∀ (fuel : Nat) (s : σ) (l : List α), listFuel next fuel s = some l → l.length ≤ fuel := by
  intro fuel
  induction fuel with
  | zero => intro s l h; simp only [listFuel, Option.some.injEq] at h; subst h; exact Nat.le_refl _
  | succ n ih =>
    intro s l h
    rw [listFuel] at h
    cases hn : next s with
    | none => rw [hn] at h; cases h
    | some r =>
      rw [hn] at h
      cases r with
      | none => simp only [Option.some.injEq] at h; subst h; simp
      | some p =>
        obtain ⟨a, s'⟩ := p
        dsimp only at h
        cases hr : listFuel next n s' with
        | none => rw [hr] at h; cases h
        | some rest =>
          rw [hr] at h
          simp only [Option.some.injEq] at h
          subst h
          have := ih s' rest hr
          simp only [List.length_cons]; omega

/-- If every returned item lowers a measure `mu`, a fuelled drain returns at most `mu` items. -/
theorem listFuel_length_le_mu {σ α : Type} {next : σ → Option (Option (α × σ))} (Inv : σ → Prop)
    (mu : σ → Nat)
    (hstep : ∀ s a s', Inv s → next s = some (some (a, s')) → Inv s' ∧ mu s' < mu s) :
    ∀ (fuel : Nat) (s : σ) (l : List α), Inv s → listFuel next fuel s = some l → l.length ≤ mu s := by
  intro fuel
  induction fuel with
  | zero => intro s l _ h; simp only [listFuel, Option.some.injEq] at h; subst h; exact Nat.zero_le _
  | succ n ih =>
    intro s l hinv h
    rw [listFuel] at h
    cases hn : next s with
    | none => rw [hn] at h; cases h
    | some r =>
      rw [hn] at h
      cases r with
      | none => simp only [Option.some.injEq] at h; subst h; exact Nat.zero_le _
      | some p =>
        obtain ⟨a, s'⟩ := p
        dsimp only at h
        cases hr : listFuel next n s' with
        | none => rw [hr] at h; cases h
        | some rest =>
          rw [hr] at h
          simp only [Option.some.injEq] at h
          subst h
          obtain ⟨hinv', hmu⟩ := hstep s a s' hinv hn
          have := ih s' rest hinv' hr
          simp only [List.length_cons]; omega

/-- Every item of a run satisfies a property that `next` guarantees for what it returns. -/
theorem Run.forall {σ α : Type} {next : σ → Option (Option (α × σ))} (P : α → Prop)
    (hP : ∀ s a s', next s = some (some (a, s')) → P a) {s : σ} {l : List α} (h : Run next s l) :
    ∀ a ∈ l, P a := by
  induction h with
  | done _ => intro a ha; cases ha
  | step h1 _ ih =>
    intro a ha
    rcases List.mem_cons.mp ha with rfl | ha
    · exact hP _ _ _ h1
    · exact ih a ha

/-! ### order of writes to pairwise distinct points -/

/-- **Permuting a write list whose points are pairwise distinct leaves the same pixel map** (on
every target box): no point is written twice, so "last write wins" never decides anything. -/
theorem apply_clip_perm (B : Rect) {ws ws' : Writes} (hperm : ws.Perm ws')
    (hn : (ws.map Prod.fst).Nodup) :
    PMap.empty.apply (clipWrites B ws) = PMap.empty.apply (clipWrites B ws') := by
  have hn' : (ws'.map Prod.fst).Nodup := (hperm.map Prod.fst).nodup_iff.mp hn
  funext p
  cases h : PMap.empty.apply (clipWrites B ws') p with
  | none =>
    rw [PMap.apply_clip_eq_none] at h ⊢
    intro ⟨hb, c, hc⟩
    exact h ⟨hb, c, hperm.mem_iff.mp hc⟩
  | some c =>
    rw [PMap.apply_clip_nodup B ws' hn'] at h
    rw [PMap.apply_clip_nodup B ws hn]
    exact ⟨hperm.mem_iff.mpr h.1, h.2⟩

end C01Thick
end EG
