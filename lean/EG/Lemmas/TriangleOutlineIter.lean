/-
  EG.Lemmas.TriangleOutlineIter — part 2 of the one-pixel outline: the iterators
  (`StyledPixelsIterator` → `ScanlineIterator` → `ScanlineIntersections`) for stroke width 1 without
  fill, against a closed form: every row contributes its `rowPend` pieces (`first`, then `second`).
-/
import EG.Lemmas.TriangleOutline
namespace EG
open Scanline

namespace Triangle

/-- The three edge lines of the outline, in the order `edge_intersections` visits them:
`v2 v3`, `v3 v1`, `v1 v2`. -/
def outlineLine (w : Triangle) (i : Nat) : Line := ⟨w.vertex (i + 1), w.vertex (i + 2)⟩

/-- The per-edge scanline of a row. -/
def outlineSeg (w : Triangle) (y : Int) (i : Nat) : Scanline := w.skeletonSeg i y

theorem outlineSeg_y (w : Triangle) (y : Int) (i : Nat) : (outlineSeg w y i).y = y :=
  edgeSpan_y _ y

theorem outlineSeg_covers (w : Triangle) (y x : Int) (i : Nat) :
    (outlineSeg w y i).Covers x ↔ (⟨x, y⟩ : Pt) ∈ Line.points (outlineLine w i) :=
  edgeSpan_covers_iff _ y x

theorem outlineLine_0 (w : Triangle) : outlineLine w 0 = ⟨w.v2, w.v3⟩ := rfl
theorem outlineLine_1 (w : Triangle) : outlineLine w 1 = ⟨w.v3, w.v1⟩ := rfl
theorem outlineLine_2 (w : Triangle) : outlineLine w 2 = ⟨w.v1, w.v2⟩ := rfl

theorem touch_of_common {s o : Scanline} {x : Int} (h1 : s.Covers x) (h2 : o.Covers x) :
    Touch s o := by
  unfold Covers at h1 h2; unfold Touch; omega

/-- Two of the three edges of a row share a vertex of that row: the three per-edge scanlines are
never non-empty and pairwise separated. -/
theorem outline_not_separated (w : Triangle) (y : Int) :
    ¬ ((outlineSeg w y 0).xs < (outlineSeg w y 0).xe ∧ (outlineSeg w y 1).xs < (outlineSeg w y 1).xe ∧
      (outlineSeg w y 2).xs < (outlineSeg w y 2).xe ∧
      ¬ Touch (outlineSeg w y 0) (outlineSeg w y 1) ∧ ¬ Touch (outlineSeg w y 0) (outlineSeg w y 2) ∧
      ¬ Touch (outlineSeg w y 1) (outlineSeg w y 2)) := by
  rintro ⟨n0, n1, n2, t01, t02, t12⟩
  -- a pixel of each edge in the row bounds the row by the edge's end points
  have rowOf : ∀ i, (outlineSeg w y i).xs < (outlineSeg w y i).xe →
      min (outlineLine w i).start.y (outlineLine w i).stop.y ≤ y ∧
      y ≤ max (outlineLine w i).start.y (outlineLine w i).stop.y := by
    intro i hne
    have hc : (outlineSeg w y i).Covers (outlineSeg w y i).xs := by unfold Covers; omega
    rw [outlineSeg_covers] at hc
    obtain ⟨k, hk, e⟩ := Line.mem_points.mp hc
    have hb := Line.ptAt_in_box (outlineLine w i) k hk
    rw [← e] at hb
    dsimp only at hb
    omega
  have r0 := rowOf 0 n0
  have r1 := rowOf 1 n1
  have r2 := rowOf 2 n2
  rw [outlineLine_0] at r0
  rw [outlineLine_1] at r1
  rw [outlineLine_2] at r2
  dsimp only at r0 r1 r2
  -- the end points are pixels
  have c0a : w.v2.y = y → (outlineSeg w y 0).Covers w.v2.x := by
    intro e; rw [outlineSeg_covers, ← e, Line.pt_eta]; exact Line.start_mem_points ⟨w.v2, w.v3⟩
  have c0b : w.v3.y = y → (outlineSeg w y 0).Covers w.v3.x := by
    intro e; rw [outlineSeg_covers, ← e, Line.pt_eta]; exact Line.stop_mem_points ⟨w.v2, w.v3⟩
  have c1a : w.v3.y = y → (outlineSeg w y 1).Covers w.v3.x := by
    intro e; rw [outlineSeg_covers, ← e, Line.pt_eta]; exact Line.start_mem_points ⟨w.v3, w.v1⟩
  have c1b : w.v1.y = y → (outlineSeg w y 1).Covers w.v1.x := by
    intro e; rw [outlineSeg_covers, ← e, Line.pt_eta]; exact Line.stop_mem_points ⟨w.v3, w.v1⟩
  have c2a : w.v1.y = y → (outlineSeg w y 2).Covers w.v1.x := by
    intro e; rw [outlineSeg_covers, ← e, Line.pt_eta]; exact Line.start_mem_points ⟨w.v1, w.v2⟩
  have c2b : w.v2.y = y → (outlineSeg w y 2).Covers w.v2.x := by
    intro e; rw [outlineSeg_covers, ← e, Line.pt_eta]; exact Line.stop_mem_points ⟨w.v1, w.v2⟩
  -- some vertex lies in the row
  have hv : w.v1.y = y ∨ w.v2.y = y ∨ w.v3.y = y := by omega
  rcases hv with e | e | e
  · exact t12 (touch_of_common (c1b e) (c2a e))
  · exact t02 (touch_of_common (c0a e) (c2b e))
  · exact t01 (touch_of_common (c0b e) (c1a e))

/-- The pieces of a row of the outline. -/
def outlinePend (w : Triangle) (y : Int) : List Scanline := EdgeIt.rowPend (outlineSeg w y) y

theorem outlinePend_spec (w : Triangle) (y : Int) :
    (∀ p ∈ outlinePend w y, p.xs < p.xe ∧ p.y = y) ∧
    (∀ x, (∃ p ∈ outlinePend w y, p.Covers x) ↔
      ((⟨x, y⟩ : Pt) ∈ Line.points (outlineLine w 0) ∨ (⟨x, y⟩ : Pt) ∈ Line.points (outlineLine w 1) ∨
        (⟨x, y⟩ : Pt) ∈ Line.points (outlineLine w 2))) := by
  obtain ⟨h1, h2⟩ := EdgeIt.rowPend_spec (outlineSeg w y) y (outlineSeg_y w y)
    (outline_not_separated w y)
  refine ⟨h1, ?_⟩
  intro x
  unfold outlinePend
  rw [h2 x, outlineSeg_covers, outlineSeg_covers, outlineSeg_covers]

end Triangle

/-! ## `ScanlineIntersections` for stroke width 1 without fill -/

/-- The non-empty ones of `first`, `second`, in the order they are handed out. -/
def pendOf (f s : Scanline) : List Scanline :=
  (if f.isEmpty then [] else [f]) ++ (if s.isEmpty then [] else [s])

/-- Rows up to the first one without any piece (the iterators are not fused). -/
def moreRows (pend : Int → List Scanline) : List Int → List Scanline
  | [] => []
  | y :: ys => if pend y = [] then [] else pend y ++ moreRows pend ys

namespace ScanlineIntersections

theorem generateLines_stroke (it : ScanlineIntersections) (y : Int) (h1 : it.strokeWidth = 1)
    (h2 : it.hasFill = false) (h3 : it.isCollapsed = false) :
    it.generateLines y =
      ⟨(EdgeIt.next 1 (Triangle.outlineSeg it.triangle y) y
          ⟨0, Scanline.newEmpty y, Scanline.newEmpty y⟩).1.getD (Scanline.newEmpty y),
       (EdgeIt.next 1 (Triangle.outlineSeg it.triangle y) y
          (EdgeIt.next 1 (Triangle.outlineSeg it.triangle y) y
            ⟨0, Scanline.newEmpty y, Scanline.newEmpty y⟩).2).1.getD (Scanline.newEmpty y),
       Scanline.newEmpty y, .fill⟩ := by
  unfold generateLines
  simp only [h1, h2, h3, Bool.false_eq_true, ↓reduceIte]
  rfl

theorem optPend (o : Option Scanline) (y : Int) (h : ∀ s, o = some s → s.xs < s.xe) :
    (if (o.getD (Scanline.newEmpty y)).isEmpty then [] else [o.getD (Scanline.newEmpty y)]) =
      o.toList := by
  cases o with
  | none => simp [Scanline.newEmpty_isEmpty]
  | some s =>
    have := (Scanline.isEmpty_false_iff s).mpr (h s rfl)
    simp [this]

/-- The pieces of a freshly generated row are the row's `outlinePend`. -/
theorem pendOf_generateLines (it : ScanlineIntersections) (y : Int) (h1 : it.strokeWidth = 1)
    (h2 : it.hasFill = false) (h3 : it.isCollapsed = false) :
    pendOf (it.generateLines y).first (it.generateLines y).second =
      Triangle.outlinePend it.triangle y ∧
    (it.generateLines y).internal.isEmpty = true := by
  rw [generateLines_stroke it y h1 h2 h3]
  dsimp only
  refine ⟨?_, Scanline.newEmpty_isEmpty y⟩
  have hsp := (Triangle.outlinePend_spec it.triangle y).1
  unfold Triangle.outlinePend EdgeIt.rowPend at hsp
  dsimp only at hsp
  unfold pendOf Triangle.outlinePend EdgeIt.rowPend
  dsimp only
  rw [optPend _ y (fun s hs => (hsp s (by rw [hs]; simp)).1),
    optPend _ y (fun s hs => (hsp s (by rw [hs]; simp)).1)]

theorem next_stroke (it : ScanlineIntersections) (hi : it.lines.internal.isEmpty = true) :
    it.next =
      if it.lines.first.isEmpty then
        (if it.lines.second.isEmpty then (none, it)
         else (some (it.lines.second, .stroke),
               { it with lines := { it.lines with second := ⟨it.lines.second.y, 0, 0⟩ } }))
      else (some (it.lines.first, .stroke),
            { it with lines := { it.lines with first := ⟨it.lines.first.y, 0, 0⟩ } }) := by
  unfold next
  rw [Scanline.tryTake_of_empty hi]
  dsimp only
  by_cases h1 : it.lines.first.isEmpty = true
  · rw [Scanline.tryTake_of_empty h1]
    dsimp only
    by_cases h2 : it.lines.second.isEmpty = true
    · rw [Scanline.tryTake_of_empty h2]
      simp only [h1, h2, ↓reduceIte]
    · have h2' : it.lines.second.isEmpty = false := by simpa using h2
      rw [Scanline.tryTake_of_nonempty h2']
      simp only [h1, h2', ↓reduceIte, Bool.false_eq_true]
  · have h1' : it.lines.first.isEmpty = false := by simpa using h1
    rw [Scanline.tryTake_of_nonempty h1']
    simp only [h1', ↓reduceIte, Bool.false_eq_true]

end ScanlineIntersections

/-! ## `ScanlineIterator` -/

namespace ScanlineIterator

/-- Invariant of the stroke-only path. -/
structure StrokeInv (w : Triangle) (si : ScanlineIterator) : Prop where
  sw : si.intersections.strokeWidth = 1
  hf : si.intersections.hasFill = false
  nc : si.intersections.isCollapsed = false
  tri : si.intersections.triangle = w
  ie : si.intersections.lines.internal.isEmpty = true

/-- The pieces a `for` loop over the iterator still sees. -/
def seenS (w : Triangle) (si : ScanlineIterator) : List Scanline :=
  pendOf si.intersections.lines.first si.intersections.lines.second ++
    moreRows (Triangle.outlinePend w) (irange si.rowsStart si.rowsEnd)

theorem nextS_some {w : Triangle} {si si' : ScanlineIterator} {l : Scanline} {ty : PointType}
    (inv : StrokeInv w si) (h : si.next = (some (l, ty), si')) :
    StrokeInv w si' ∧ l.isEmpty = false ∧ ty = .stroke ∧ seenS w si = l :: seenS w si' := by
  obtain ⟨sw, hf, nc, htri, ie⟩ := inv
  unfold next at h
  rw [ScanlineIntersections.next_stroke _ ie] at h
  by_cases h1 : si.intersections.lines.first.isEmpty = true
  · by_cases h2 : si.intersections.lines.second.isEmpty = true
    · -- nothing pending: fetch the next row
      simp only [h1, h2, ↓reduceIte] at h
      by_cases hr : si.rowsStart < si.rowsEnd
      · simp only [hr, ↓reduceIte] at h
        obtain ⟨hpend, hie⟩ := ScanlineIntersections.pendOf_generateLines si.intersections
          si.rowsStart sw hf nc
        rw [ScanlineIntersections.next_stroke _ (by
          simp only [ScanlineIntersections.reset]; exact hie)] at h
        simp only [ScanlineIntersections.reset] at h
        rw [htri] at hpend
        have hseen : seenS w si = Triangle.outlinePend w si.rowsStart ++
            moreRows (Triangle.outlinePend w) (irange (si.rowsStart + 1) si.rowsEnd) ∨
            (Triangle.outlinePend w si.rowsStart = [] ∧ seenS w si = []) := by
          unfold seenS pendOf
          simp only [h1, h2, ↓reduceIte, List.append_nil, List.nil_append]
          rw [irange_cons hr, moreRows]
          by_cases he : Triangle.outlinePend w si.rowsStart = []
          · right; exact ⟨he, by simp only [he, ↓reduceIte]⟩
          · left; simp only [he, ↓reduceIte]
        by_cases g1 : (si.intersections.generateLines si.rowsStart).first.isEmpty = true
        · by_cases g2 : (si.intersections.generateLines si.rowsStart).second.isEmpty = true
          · simp only [g1, g2, ↓reduceIte, Prod.mk.injEq] at h
            exact absurd h.1 (by simp)
          · have g2' : (si.intersections.generateLines si.rowsStart).second.isEmpty = false := by
              simpa using g2
            simp only [g1, g2', ↓reduceIte, Bool.false_eq_true, Prod.mk.injEq, Option.some.injEq] at h
            obtain ⟨⟨rfl, rfl⟩, rfl⟩ := h
            refine ⟨⟨sw, hf, nc, htri, hie⟩, g2', rfl, ?_⟩
            have hp : Triangle.outlinePend w si.rowsStart =
                [(si.intersections.generateLines si.rowsStart).second] := by
              rw [← hpend]; unfold pendOf; simp only [g1, g2', ↓reduceIte, Bool.false_eq_true,
                List.nil_append]
            rcases hseen with hs | ⟨he, _⟩
            · rw [hs, hp]
              unfold seenS pendOf
              simp only [g1, ↓reduceIte, Scanline.cleared_isEmpty, List.nil_append, List.append_nil,
                List.cons_append]
            · rw [hp] at he; cases he
        · have g1' : (si.intersections.generateLines si.rowsStart).first.isEmpty = false := by
            simpa using g1
          simp only [g1', ↓reduceIte, Bool.false_eq_true, Prod.mk.injEq, Option.some.injEq] at h
          obtain ⟨⟨rfl, rfl⟩, rfl⟩ := h
          refine ⟨⟨sw, hf, nc, htri, hie⟩, g1', rfl, ?_⟩
          have hp : Triangle.outlinePend w si.rowsStart =
              (si.intersections.generateLines si.rowsStart).first ::
                (if (si.intersections.generateLines si.rowsStart).second.isEmpty then []
                 else [(si.intersections.generateLines si.rowsStart).second]) := by
            rw [← hpend]; unfold pendOf; simp only [g1', ↓reduceIte, Bool.false_eq_true,
              List.cons_append, List.nil_append]
          rcases hseen with hs | ⟨he, _⟩
          · rw [hs, hp]
            unfold seenS pendOf
            simp only [Scanline.cleared_isEmpty, ↓reduceIte, List.nil_append, List.cons_append]
          · rw [hp] at he; cases he
      · simp only [hr, ↓reduceIte, Prod.mk.injEq] at h
        exact absurd h.1 (by simp)
    · have h2' : si.intersections.lines.second.isEmpty = false := by simpa using h2
      simp only [h1, h2', ↓reduceIte, Bool.false_eq_true, Prod.mk.injEq, Option.some.injEq] at h
      obtain ⟨⟨rfl, rfl⟩, rfl⟩ := h
      refine ⟨⟨sw, hf, nc, htri, ie⟩, h2', rfl, ?_⟩
      unfold seenS pendOf
      simp only [h1, h2', ↓reduceIte, Bool.false_eq_true, Scanline.cleared_isEmpty, List.nil_append,
        List.append_nil, List.cons_append]
  · have h1' : si.intersections.lines.first.isEmpty = false := by simpa using h1
    simp only [h1', ↓reduceIte, Bool.false_eq_true, Prod.mk.injEq, Option.some.injEq] at h
    obtain ⟨⟨rfl, rfl⟩, rfl⟩ := h
    refine ⟨⟨sw, hf, nc, htri, ie⟩, h1', rfl, ?_⟩
    unfold seenS pendOf
    simp only [h1', ↓reduceIte, Bool.false_eq_true, Scanline.cleared_isEmpty, List.nil_append,
      List.cons_append]

theorem nextS_none {w : Triangle} {si si' : ScanlineIterator}
    (inv : StrokeInv w si) (h : si.next = (none, si')) : seenS w si = [] := by
  obtain ⟨sw, hf, nc, htri, ie⟩ := inv
  unfold next at h
  rw [ScanlineIntersections.next_stroke _ ie] at h
  by_cases h1 : si.intersections.lines.first.isEmpty = true
  · by_cases h2 : si.intersections.lines.second.isEmpty = true
    · simp only [h1, h2, ↓reduceIte] at h
      unfold seenS pendOf
      simp only [h1, h2, ↓reduceIte, List.append_nil, List.nil_append]
      by_cases hr : si.rowsStart < si.rowsEnd
      · simp only [hr, ↓reduceIte] at h
        obtain ⟨hpend, hie⟩ := ScanlineIntersections.pendOf_generateLines si.intersections
          si.rowsStart sw hf nc
        rw [ScanlineIntersections.next_stroke _ (by
          simp only [ScanlineIntersections.reset]; exact hie)] at h
        simp only [ScanlineIntersections.reset] at h
        rw [htri] at hpend
        rw [irange_cons hr, moreRows]
        by_cases g1 : (si.intersections.generateLines si.rowsStart).first.isEmpty = true
        · by_cases g2 : (si.intersections.generateLines si.rowsStart).second.isEmpty = true
          · have : Triangle.outlinePend w si.rowsStart = [] := by
              rw [← hpend]; unfold pendOf; simp only [g1, g2, ↓reduceIte, List.append_nil]
            simp only [this, ↓reduceIte]
          · have g2' : (si.intersections.generateLines si.rowsStart).second.isEmpty = false := by
              simpa using g2
            simp only [g1, g2', ↓reduceIte, Bool.false_eq_true, Prod.mk.injEq] at h
            exact absurd h.1 (by simp)
        · have g1' : (si.intersections.generateLines si.rowsStart).first.isEmpty = false := by
            simpa using g1
          simp only [g1', ↓reduceIte, Bool.false_eq_true, Prod.mk.injEq] at h
          exact absurd h.1 (by simp)
      · rw [irange_empty (a := si.rowsStart) (b := si.rowsEnd) (by omega)]; rfl
    · have h2' : si.intersections.lines.second.isEmpty = false := by simpa using h2
      simp only [h1, h2', ↓reduceIte, Bool.false_eq_true, Prod.mk.injEq] at h
      exact absurd h.1 (by simp)
  · have h1' : si.intersections.lines.first.isEmpty = false := by simpa using h1
    simp only [h1', ↓reduceIte, Bool.false_eq_true, Prod.mk.injEq] at h
    exact absurd h.1 (by simp)

end ScanlineIterator

/-! ## `StyledPixelsIterator` -/

namespace TriPixelsIt
open ScanlineIterator

/-- Invariant of the one-colour stroke path. -/
structure PInv (w : Triangle) (c : Nat) (it : TriPixelsIt) : Prop where
  li : StrokeInv w it.linesIter
  cc : it.currentColor = some c
  sc : it.strokeColor = some c

/-- Everything a `for` loop over the pixel iterator still sees. -/
def rest (w : Triangle) (c : Nat) (it : TriPixelsIt) : List (Pt × Nat) :=
  (it.currentLine.points ++ (seenS w it.linesIter).flatMap Scanline.points).map (fun p => (p, c))

theorem nextFuel_hit {c : Nat} {it : TriPixelsIt} (cc : it.currentColor = some c)
    (h : it.currentLine.isEmpty = false) (fuel : Nat) :
    it.nextFuel (fuel + 1) =
      some ((⟨it.currentLine.xs, it.currentLine.y⟩, c),
        { it with currentLine := { it.currentLine with xs := it.currentLine.xs + 1 } }) := by
  unfold nextFuel
  simp only [cc, Scanline.next_of_nonempty h]

theorem nextFuel_fetch_none {c : Nat} {it : TriPixelsIt} (cc : it.currentColor = some c)
    (h : it.currentLine.isEmpty = true) (fuel : Nat) (hn : it.linesIter.next.1 = none) :
    it.nextFuel (fuel + 1) = none := by
  conv => lhs; unfold nextFuel
  simp only [cc, Scanline.next_of_isEmpty h, hn]

theorem nextFuel_fetch_stroke {c : Nat} {it : TriPixelsIt} (cc : it.currentColor = some c)
    (h : it.currentLine.isEmpty = true) (fuel : Nat) {l : Scanline}
    (hn : it.linesIter.next.1 = some (l, .stroke)) :
    it.nextFuel (fuel + 1) =
      nextFuel fuel { it with linesIter := it.linesIter.next.2, currentLine := l,
                              currentColor := it.strokeColor } := by
  conv => lhs; unfold nextFuel
  simp only [cc, Scanline.next_of_isEmpty h, hn]

theorem loopBudget_ge (it : TriPixelsIt) : ∃ f, it.loopBudget = f + 2 := by
  unfold loopBudget; exact ⟨3 * (it.linesIter.rowsEnd - it.linesIter.rowsStart).toNat + 3, by omega⟩

theorem next_some {w : Triangle} {c : Nat} {it it' : TriPixelsIt} {pc : Pt × Nat}
    (inv : PInv w c it) (h : it.next = some (pc, it')) :
    PInv w c it' ∧ it.rest w c = pc :: it'.rest w c := by
  obtain ⟨li, cc, sc⟩ := inv
  unfold next at h
  obtain ⟨f, hf⟩ := loopBudget_ge it
  rw [hf] at h
  by_cases hc : it.currentLine.isEmpty = true
  · cases hn : it.linesIter.next with
    | mk r si' =>
      cases r with
      | none =>
        rw [nextFuel_fetch_none cc hc _ (by rw [hn])] at h
        simp at h
      | some lt =>
        obtain ⟨l, ty⟩ := lt
        obtain ⟨inv', hl, hty, hseen⟩ := nextS_some li hn
        subst hty
        rw [nextFuel_fetch_stroke cc hc _ (l := l) (by rw [hn]), hn] at h
        dsimp only at h
        rw [nextFuel_hit (c := c) (by dsimp only; exact sc) (by dsimp only; exact hl)] at h
        simp only [Option.some.injEq, Prod.mk.injEq] at h
        obtain ⟨rfl, rfl⟩ := h
        refine ⟨⟨inv', sc, sc⟩, ?_⟩
        unfold rest
        dsimp only
        rw [hseen, Scanline.points_of_isEmpty hc, List.flatMap_cons,
          Scanline.points_cons ((Scanline.isEmpty_false_iff l).mp hl)]
        simp
  · have hc' : it.currentLine.isEmpty = false := by simpa using hc
    rw [nextFuel_hit cc hc'] at h
    simp only [Option.some.injEq, Prod.mk.injEq] at h
    obtain ⟨rfl, rfl⟩ := h
    refine ⟨⟨li, cc, sc⟩, ?_⟩
    unfold rest
    dsimp only
    rw [Scanline.points_cons ((Scanline.isEmpty_false_iff _).mp hc')]
    simp

theorem next_none {w : Triangle} {c : Nat} {it : TriPixelsIt}
    (inv : PInv w c it) (h : it.next = none) : it.rest w c = [] := by
  obtain ⟨li, cc, sc⟩ := inv
  unfold next at h
  obtain ⟨f, hf⟩ := loopBudget_ge it
  rw [hf] at h
  by_cases hc : it.currentLine.isEmpty = true
  · cases hn : it.linesIter.next with
    | mk r si' =>
      cases r with
      | none =>
        unfold rest
        rw [nextS_none li hn, Scanline.points_of_isEmpty hc]; rfl
      | some lt =>
        obtain ⟨l, ty⟩ := lt
        obtain ⟨_, hl, hty, _⟩ := nextS_some li hn
        subst hty
        rw [nextFuel_fetch_stroke cc hc _ (l := l) (by rw [hn]), hn] at h
        dsimp only at h
        rw [nextFuel_hit (c := c) (by dsimp only; exact sc) (by dsimp only; exact hl)] at h
        simp at h
  · have hc' : it.currentLine.isEmpty = false := by simpa using hc
    rw [nextFuel_hit cc hc'] at h
    simp at h

theorem toListFuel_eq_take (w : Triangle) (c : Nat) : ∀ (fuel : Nat) (it : TriPixelsIt),
    PInv w c it → it.toListFuel fuel = (it.rest w c).take fuel := by
  intro fuel
  induction fuel with
  | zero => intro it _; simp [toListFuel]
  | succ fuel ih =>
    intro it inv
    unfold toListFuel
    cases hn : it.next with
    | none => simp only [next_none inv hn, List.take_nil]
    | some r =>
      obtain ⟨pc, it'⟩ := r
      obtain ⟨inv', hrest⟩ := next_some inv hn
      simp only [hrest, List.take_succ_cons, ih it' inv']

end TriPixelsIt
end EG
