/-
  EG.Lemmas.TriangleOutlineIter — part 2 of the one-pixel outline: the iterators
  (`StyledPixelsIterator` → `ScanlineIterator` → `ScanlineIntersections`) for stroke width 1 without
  fill, against a closed form: every row contributes its `rowPend` pieces (`first`, then `second`).
-/
import EG.Lemmas.TriangleOutline
namespace EG
open Scanline

namespace Triangle

/-- The three edge lines of the outline, in the order `edge_intersections` visits them:
`v2 v3`, `v3 v1`, `v1 v2`. -/
def outlineLine (w : Triangle) (i : Nat) : Line := ⟨w.vertex (i + 1), w.vertex (i + 2)⟩

/-- The per-edge scanline of a row. -/
def outlineSeg (w : Triangle) (y : Int) (i : Nat) : Scanline := w.skeletonSeg i y

theorem outlineSeg_y (w : Triangle) (y : Int) (i : Nat) : (outlineSeg w y i).y = y :=
  edgeSpan_y _ y

theorem outlineSeg_covers (w : Triangle) (y x : Int) (i : Nat) :
    (outlineSeg w y i).Covers x ↔ (⟨x, y⟩ : Pt) ∈ Line.points (outlineLine w i) :=
  edgeSpan_covers_iff _ y x

theorem outlineLine_0 (w : Triangle) : outlineLine w 0 = ⟨w.v2, w.v3⟩ := rfl
theorem outlineLine_1 (w : Triangle) : outlineLine w 1 = ⟨w.v3, w.v1⟩ := rfl
theorem outlineLine_2 (w : Triangle) : outlineLine w 2 = ⟨w.v1, w.v2⟩ := rfl

theorem touch_of_common {s o : Scanline} {x : Int} (h1 : s.Covers x) (h2 : o.Covers x) :
    Touch s o := by
  unfold Covers at h1 h2; unfold Touch; omega

/-- Two of the three edges of a row share a vertex of that row: the three per-edge scanlines are
never non-empty and pairwise separated. -/
theorem outline_not_separated (w : Triangle) (y : Int) :
    ¬ ((outlineSeg w y 0).xs < (outlineSeg w y 0).xe ∧ (outlineSeg w y 1).xs < (outlineSeg w y 1).xe ∧
      (outlineSeg w y 2).xs < (outlineSeg w y 2).xe ∧
      ¬ Touch (outlineSeg w y 0) (outlineSeg w y 1) ∧ ¬ Touch (outlineSeg w y 0) (outlineSeg w y 2) ∧
      ¬ Touch (outlineSeg w y 1) (outlineSeg w y 2)) := by
  rintro ⟨n0, n1, n2, t01, t02, t12⟩
  -- a pixel of each edge in the row bounds the row by the edge's end points
  have rowOf : ∀ i, (outlineSeg w y i).xs < (outlineSeg w y i).xe →
      min (outlineLine w i).start.y (outlineLine w i).stop.y ≤ y ∧
      y ≤ max (outlineLine w i).start.y (outlineLine w i).stop.y := by
    intro i hne
    have hc : (outlineSeg w y i).Covers (outlineSeg w y i).xs := by unfold Covers; omega
    rw [outlineSeg_covers] at hc
    obtain ⟨k, hk, e⟩ := Line.mem_points.mp hc
    have hb := Line.ptAt_in_box (outlineLine w i) k hk
    rw [← e] at hb
    dsimp only at hb
    omega
  have r0 := rowOf 0 n0
  have r1 := rowOf 1 n1
  have r2 := rowOf 2 n2
  rw [outlineLine_0] at r0
  rw [outlineLine_1] at r1
  rw [outlineLine_2] at r2
  dsimp only at r0 r1 r2
  -- the end points are pixels
  have c0a : w.v2.y = y → (outlineSeg w y 0).Covers w.v2.x := by
    intro e; rw [outlineSeg_covers, ← e, Line.pt_eta]; exact Line.start_mem_points ⟨w.v2, w.v3⟩
  have c0b : w.v3.y = y → (outlineSeg w y 0).Covers w.v3.x := by
    intro e; rw [outlineSeg_covers, ← e, Line.pt_eta]; exact Line.stop_mem_points ⟨w.v2, w.v3⟩
  have c1a : w.v3.y = y → (outlineSeg w y 1).Covers w.v3.x := by
    intro e; rw [outlineSeg_covers, ← e, Line.pt_eta]; exact Line.start_mem_points ⟨w.v3, w.v1⟩
  have c1b : w.v1.y = y → (outlineSeg w y 1).Covers w.v1.x := by
    intro e; rw [outlineSeg_covers, ← e, Line.pt_eta]; exact Line.stop_mem_points ⟨w.v3, w.v1⟩
  have c2a : w.v1.y = y → (outlineSeg w y 2).Covers w.v1.x := by
    intro e; rw [outlineSeg_covers, ← e, Line.pt_eta]; exact Line.start_mem_points ⟨w.v1, w.v2⟩
  have c2b : w.v2.y = y → (outlineSeg w y 2).Covers w.v2.x := by
    intro e; rw [outlineSeg_covers, ← e, Line.pt_eta]; exact Line.stop_mem_points ⟨w.v1, w.v2⟩
  -- some vertex lies in the row
  have hv : w.v1.y = y ∨ w.v2.y = y ∨ w.v3.y = y := by omega
  rcases hv with e | e | e
  · exact t12 (touch_of_common (c1b e) (c2a e))
  · exact t02 (touch_of_common (c0a e) (c2b e))
  · exact t01 (touch_of_common (c0b e) (c1a e))

/-- The pieces of a row of the outline. -/
def outlinePend (w : Triangle) (y : Int) : List Scanline := EdgeIt.rowPend (outlineSeg w y) y

theorem outlinePend_spec (w : Triangle) (y : Int) :
    (∀ p ∈ outlinePend w y, p.xs < p.xe ∧ p.y = y) ∧
    (∀ x, (∃ p ∈ outlinePend w y, p.Covers x) ↔
      ((⟨x, y⟩ : Pt) ∈ Line.points (outlineLine w 0) ∨ (⟨x, y⟩ : Pt) ∈ Line.points (outlineLine w 1) ∨
        (⟨x, y⟩ : Pt) ∈ Line.points (outlineLine w 2))) := by
  obtain ⟨h1, h2⟩ := EdgeIt.rowPend_spec (outlineSeg w y) y (outlineSeg_y w y)
    (outline_not_separated w y)
  refine ⟨h1, ?_⟩
  intro x
  unfold outlinePend
  rw [h2 x, outlineSeg_covers, outlineSeg_covers, outlineSeg_covers]

end Triangle
end EG
