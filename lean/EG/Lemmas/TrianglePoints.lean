/-
  EG.Lemmas.TrianglePoints — the `triangle::Points` state machine (Points → ScanlineIterator →
  ScanlineIntersections → Scanline) against a closed form.

  For stroke width 0 with fill (what `Points::new` passes) every row `y` of the bounding box
  contributes the span `span y = triangle.sorted_clockwise().scanline_intersection(y)`; the
  iterators are not fused, so a `for` loop sees the rows up to the first empty span — except that
  an empty FIRST row is skipped (`ScanlineIterator::next` falls through to the next row once).
  `rowsSpec span rows` is that closed form; `points_eq_take` says `points` is its prefix of length
  `pointsBudget` (the fuel of the model's `toList`), for every triangle.
-/
import EG.Lemmas.Scanline
import EG.Lemmas.Triangle
namespace EG

namespace Scanline

theorem isEmpty_iff (s : Scanline) : s.isEmpty = true ↔ ¬ s.xs < s.xe := by
  unfold isEmpty; simp

theorem isEmpty_false_iff (s : Scanline) : s.isEmpty = false ↔ s.xs < s.xe := by
  unfold isEmpty; simp

theorem newEmpty_isEmpty (y : Int) : (newEmpty y).isEmpty = true := by
  simp [newEmpty, isEmpty]

theorem cleared_isEmpty (y : Int) : (⟨y, 0, 0⟩ : Scanline).isEmpty = true := by
  simp [isEmpty]

theorem tryTake_of_empty {s : Scanline} (h : s.isEmpty = true) : s.tryTake = (none, s) := by
  unfold tryTake; simp [h]

theorem tryTake_of_nonempty {s : Scanline} (h : s.isEmpty = false) :
    s.tryTake = (some s, ⟨s.y, 0, 0⟩) := by
  unfold tryTake; simp [h]

theorem points_of_isEmpty {s : Scanline} (h : s.isEmpty = true) : s.points = [] :=
  points_empty ((isEmpty_iff s).mp h)

theorem next_of_isEmpty {s : Scanline} (h : s.isEmpty = true) : s.next = none := by
  have := (isEmpty_iff s).mp h
  unfold next; simp [this]

theorem next_of_nonempty {s : Scanline} (h : s.isEmpty = false) :
    s.next = some (⟨s.xs, s.y⟩, { s with xs := s.xs + 1 }) := by
  have := (isEmpty_false_iff s).mp h
  unfold next; simp [this]

end Scanline

namespace Triangle

/-- The spans a `for` loop sees from a list of rows: up to the first empty one. -/
def untilEmpty (span : Int → Scanline) : List Int → List Scanline
  | [] => []
  | y :: ys => if (span y).isEmpty then [] else span y :: untilEmpty span ys

/-- The spans still to come: the pending one (if not empty), then the remaining rows. -/
def seen (span : Int → Scanline) (pending : Scanline) (rs re : Int) : List Scanline :=
  if pending.isEmpty then untilEmpty span (irange rs re)
  else pending :: untilEmpty span (irange rs re)

/-- Closed form of `points()`: an empty first row is skipped, then rows up to the first empty one. -/
def rowsSpec (span : Int → Scanline) (rs re : Int) : List Pt :=
  if rs < re then ((seen span (span rs) (rs + 1) re).flatMap Scanline.points) else []

end Triangle

/-! ## `ScanlineIntersections` for stroke width 0 with fill -/

namespace ScanlineIntersections

theorem generateLines_fill (it : ScanlineIntersections) (y : Int) (h1 : it.strokeWidth = 0)
    (h2 : it.hasFill = true) (h3 : it.isCollapsed = false) :
    it.generateLines y =
      ⟨Scanline.newEmpty y, Scanline.newEmpty y, it.triangle.scanlineIntersection y, .fill⟩ := by
  unfold generateLines EdgeIt.next
  simp [h1, h2, h3]

theorem next_eq (it : ScanlineIntersections) (h1 : it.lines.first.isEmpty = true)
    (h2 : it.lines.second.isEmpty = true) :
    it.next =
      if it.lines.internal.isEmpty then (none, it)
      else (some (it.lines.internal, it.lines.internalType),
            { it with lines := { it.lines with internal := ⟨it.lines.internal.y, 0, 0⟩ } }) := by
  unfold next
  by_cases h : it.lines.internal.isEmpty = true
  · simp only [Scanline.tryTake_of_empty h, Scanline.tryTake_of_empty h1,
      Scanline.tryTake_of_empty h2, h, ↓reduceIte]
  · have h' : it.lines.internal.isEmpty = false := by simpa using h
    simp only [Scanline.tryTake_of_nonempty h', h', Bool.false_eq_true, ↓reduceIte]

end ScanlineIntersections

/-! ## `ScanlineIterator` -/

namespace ScanlineIterator

/-- Invariant of the fill-only path. -/
structure FillInv (tri : Triangle) (si : ScanlineIterator) : Prop where
  sw : si.intersections.strokeWidth = 0
  hf : si.intersections.hasFill = true
  nc : si.intersections.isCollapsed = false
  tri : si.intersections.triangle = tri
  fe : si.intersections.lines.first.isEmpty = true
  se : si.intersections.lines.second.isEmpty = true

/-- The spans a `for` loop over the iterator still sees. -/
def seenOf (tri : Triangle) (si : ScanlineIterator) : List Scanline :=
  Triangle.seen tri.scanlineIntersection si.intersections.lines.internal si.rowsStart si.rowsEnd

theorem next_some {tri : Triangle} {si si' : ScanlineIterator} {l : Scanline} {ty : PointType}
    (inv : FillInv tri si) (h : si.next = (some (l, ty), si')) :
    FillInv tri si' ∧ l.isEmpty = false ∧ seenOf tri si = l :: seenOf tri si' := by
  obtain ⟨sw, hf, nc, htri, fe, se⟩ := inv
  unfold next at h
  rw [ScanlineIntersections.next_eq _ fe se] at h
  by_cases hi : si.intersections.lines.internal.isEmpty = true
  · -- nothing pending: fetch the next row
    simp only [hi, ↓reduceIte] at h
    by_cases hr : si.rowsStart < si.rowsEnd
    · simp only [hr, ↓reduceIte] at h
      have hgen := ScanlineIntersections.generateLines_fill si.intersections si.rowsStart sw hf nc
      rw [ScanlineIntersections.next_eq _
        (by simp only [ScanlineIntersections.reset, hgen]; exact Scanline.newEmpty_isEmpty _)
        (by simp only [ScanlineIntersections.reset, hgen]; exact Scanline.newEmpty_isEmpty _)] at h
      simp only [ScanlineIntersections.reset, hgen] at h
      by_cases hs : (si.intersections.triangle.scanlineIntersection si.rowsStart).isEmpty = true
      · simp only [hs, ↓reduceIte, Prod.mk.injEq] at h
        exact absurd h.1 (by simp)
      · have hs' : (si.intersections.triangle.scanlineIntersection si.rowsStart).isEmpty = false := by
          simpa using hs
        simp only [hs', Bool.false_eq_true, ↓reduceIte, Prod.mk.injEq, Option.some.injEq] at h
        obtain ⟨⟨rfl, _⟩, rfl⟩ := h
        refine ⟨⟨sw, hf, nc, htri, Scanline.newEmpty_isEmpty _, Scanline.newEmpty_isEmpty _⟩, hs', ?_⟩
        unfold seenOf Triangle.seen
        simp only [hi, ↓reduceIte, Scanline.cleared_isEmpty]
        rw [irange_cons hr, Triangle.untilEmpty, ← htri]
        simp only [hs', Bool.false_eq_true, ↓reduceIte]
    · simp only [hr, ↓reduceIte, Prod.mk.injEq] at h
      exact absurd h.1 (by simp)
  · have hi' : si.intersections.lines.internal.isEmpty = false := by simpa using hi
    simp only [hi', Bool.false_eq_true, ↓reduceIte, Prod.mk.injEq, Option.some.injEq] at h
    obtain ⟨⟨rfl, _⟩, rfl⟩ := h
    refine ⟨⟨sw, hf, nc, htri, fe, se⟩, hi', ?_⟩
    unfold seenOf Triangle.seen
    simp only [hi', Bool.false_eq_true, ↓reduceIte, Scanline.cleared_isEmpty]

theorem next_none {tri : Triangle} {si si' : ScanlineIterator}
    (inv : FillInv tri si) (h : si.next = (none, si')) : seenOf tri si = [] := by
  obtain ⟨sw, hf, nc, htri, fe, se⟩ := inv
  unfold next at h
  rw [ScanlineIntersections.next_eq _ fe se] at h
  by_cases hi : si.intersections.lines.internal.isEmpty = true
  · simp only [hi, ↓reduceIte] at h
    unfold seenOf Triangle.seen
    simp only [hi, ↓reduceIte]
    by_cases hr : si.rowsStart < si.rowsEnd
    · simp only [hr, ↓reduceIte] at h
      have hgen := ScanlineIntersections.generateLines_fill si.intersections si.rowsStart sw hf nc
      rw [ScanlineIntersections.next_eq _
        (by simp only [ScanlineIntersections.reset, hgen]; exact Scanline.newEmpty_isEmpty _)
        (by simp only [ScanlineIntersections.reset, hgen]; exact Scanline.newEmpty_isEmpty _)] at h
      simp only [ScanlineIntersections.reset, hgen] at h
      by_cases hs : (si.intersections.triangle.scanlineIntersection si.rowsStart).isEmpty = true
      · rw [irange_cons hr, Triangle.untilEmpty, ← htri]
        simp only [hs, ↓reduceIte]
      · have hs' : (si.intersections.triangle.scanlineIntersection si.rowsStart).isEmpty = false := by
          simpa using hs
        simp only [hs', Bool.false_eq_true, ↓reduceIte, Prod.mk.injEq] at h
        exact absurd h.1 (by simp)
    · rw [irange_empty (a := si.rowsStart) (b := si.rowsEnd) (by omega)]; rfl
  · have hi' : si.intersections.lines.internal.isEmpty = false := by simpa using hi
    simp only [hi', Bool.false_eq_true, ↓reduceIte, Prod.mk.injEq] at h
    exact absurd h.1 (by simp)

end ScanlineIterator

/-! ## `Points` -/

namespace Triangle
open ScanlineIterator

/-- Everything a `for` loop over the `Points` state still sees. -/
def PointsIt.rest (tri : Triangle) (it : PointsIt) : List Pt :=
  it.currentLine.points ++ (seenOf tri it.scanlineIter).flatMap Scanline.points

theorem PointsIt.next_some {tri : Triangle} {it it' : PointsIt} {p : Pt}
    (inv : FillInv tri it.scanlineIter) (h : it.next = some (p, it')) :
    FillInv tri it'.scanlineIter ∧ it.rest tri = p :: it'.rest tri := by
  unfold PointsIt.next at h
  by_cases hc : it.currentLine.isEmpty = true
  · rw [Scanline.next_of_isEmpty hc] at h
    dsimp only at h
    cases hn : it.scanlineIter.next with
    | mk r si' =>
      rw [hn] at h
      cases r with
      | none => simp at h
      | some lt =>
        obtain ⟨l, ty⟩ := lt
        obtain ⟨inv', hl, hseen⟩ := ScanlineIterator.next_some inv hn
        dsimp only at h
        rw [Scanline.next_of_nonempty hl] at h
        simp only [Option.some.injEq, Prod.mk.injEq] at h
        obtain ⟨rfl, rfl⟩ := h
        refine ⟨inv', ?_⟩
        unfold PointsIt.rest
        rw [hseen, Scanline.points_of_isEmpty hc, List.flatMap_cons,
          Scanline.points_cons ((Scanline.isEmpty_false_iff l).mp hl)]
        simp
  · have hc' : it.currentLine.isEmpty = false := by simpa using hc
    rw [Scanline.next_of_nonempty hc'] at h
    simp only [Option.some.injEq, Prod.mk.injEq] at h
    obtain ⟨rfl, rfl⟩ := h
    refine ⟨inv, ?_⟩
    unfold PointsIt.rest
    rw [Scanline.points_cons ((Scanline.isEmpty_false_iff _).mp hc')]
    simp

theorem PointsIt.next_none {tri : Triangle} {it : PointsIt}
    (inv : FillInv tri it.scanlineIter) (h : it.next = none) : it.rest tri = [] := by
  unfold PointsIt.next at h
  by_cases hc : it.currentLine.isEmpty = true
  · rw [Scanline.next_of_isEmpty hc] at h
    dsimp only at h
    cases hn : it.scanlineIter.next with
    | mk r si' =>
      rw [hn] at h
      cases r with
      | none =>
        unfold PointsIt.rest
        rw [ScanlineIterator.next_none inv hn, Scanline.points_of_isEmpty hc]; rfl
      | some lt =>
        obtain ⟨l, ty⟩ := lt
        obtain ⟨_, hl, _⟩ := ScanlineIterator.next_some inv hn
        dsimp only at h
        rw [Scanline.next_of_nonempty hl] at h
        simp at h
  · have hc' : it.currentLine.isEmpty = false := by simpa using hc
    rw [Scanline.next_of_nonempty hc'] at h
    simp at h

theorem PointsIt.toListFuel_eq_take (tri : Triangle) : ∀ (fuel : Nat) (it : PointsIt),
    FillInv tri it.scanlineIter → it.toListFuel fuel = (it.rest tri).take fuel := by
  intro fuel
  induction fuel with
  | zero => intro it _; simp [PointsIt.toListFuel]
  | succ fuel ih =>
    intro it inv
    unfold PointsIt.toListFuel
    cases hn : it.next with
    | none => simp only [PointsIt.next_none inv hn, List.take_nil]
    | some r =>
      obtain ⟨p, it'⟩ := r
      obtain ⟨inv', hrest⟩ := PointsIt.next_some inv hn
      simp only [hrest, List.take_succ_cons, ih it' inv']

/-- The row span used by `points()`. -/
def span (t : Triangle) (y : Int) : Scanline := t.sortedClockwise.scanlineIntersection y

theorem _root_.EG.ScanlineIntersections.new_fill (t : Triangle) (y : Int) :
    ScanlineIntersections.new t 0 true y =
      { lines := ⟨Scanline.newEmpty y, Scanline.newEmpty y, t.scanlineIntersection y, .fill⟩
        triangle := t, strokeWidth := 0, hasFill := true, isCollapsed := false } := by
  unfold ScanlineIntersections.new ScanlineIntersections.reset
  rw [ScanlineIntersections.generateLines_fill _ _ rfl rfl rfl]

theorem PointsIt.empty_next :
    (⟨ScanlineIterator.empty, Scanline.newEmpty 0⟩ : PointsIt).next = none := by decide

/-- **`points()` in closed form** (up to the step budget of the model's `toList`): rows of the
bounding box in order, each contributing its span, up to the first empty span. -/
theorem points_eq_take (t : Triangle) :
    t.points = (rowsSpec t.span t.boundingBox.tl.y t.boundingBox.rowsEnd).take t.pointsBudget := by
  unfold points pointsIt ScanlineIterator.new rowsSpec
  dsimp only
  by_cases hr : t.boundingBox.tl.y < t.boundingBox.rowsEnd
  · simp only [hr, ↓reduceIte]
    rw [PointsIt.toListFuel_eq_take t.sortedClockwise]
    · unfold PointsIt.rest seenOf
      simp only [ScanlineIntersections.new_fill,
        Scanline.points_of_isEmpty (Scanline.newEmpty_isEmpty 0), List.nil_append]
      rfl
    · simp only [ScanlineIntersections.new_fill]
      exact ⟨rfl, rfl, rfl, rfl, Scanline.newEmpty_isEmpty _, Scanline.newEmpty_isEmpty _⟩
  · simp only [hr, ↓reduceIte, List.take_nil]
    generalize t.pointsBudget = n
    cases n with
    | zero => rfl
    | succ n => unfold PointsIt.toListFuel; rw [PointsIt.empty_next]


/-! ## vertex-order independence of `points()` -/

theorem span_of_mem_orders {t t' : Triangle} (h : t' ∈ orders t) : t'.span = t.span := by
  funext y
  unfold span
  rw [scanlineIntersection_of_mem_orders (sortedClockwise_mem_orders t'),
    scanlineIntersection_of_mem_orders (sortedClockwise_mem_orders t),
    scanlineIntersection_of_mem_orders h]

theorem pointsBudget_of_mem_orders {t t' : Triangle} (h : t' ∈ orders t) :
    t'.pointsBudget = t.pointsBudget := by
  unfold pointsBudget; rw [boundingBox_of_mem_orders h]

/-- `points()` is the same list for all six vertex orders. -/
theorem points_of_mem_orders {t t' : Triangle} (h : t' ∈ orders t) : t'.points = t.points := by
  rw [points_eq_take, points_eq_take, span_of_mem_orders h, boundingBox_of_mem_orders h,
    pointsBudget_of_mem_orders h]

/-- `points()` only depends on the sorted triple. -/
theorem points_sortedYx (t : Triangle) : t.sortedYx.points = t.points :=
  points_of_mem_orders (sortedYx_mem_orders t)

end Triangle
end EG
