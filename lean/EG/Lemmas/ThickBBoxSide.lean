/-
  EG.Lemmas.ThickBBoxSide — one call of `ParallelsIterator::next_parallel(side)`: where the next
  parallel of that side starts relative to the previous one, and the bound on its initial error.

  The perpendicular walker of a side is, relative to the last parallel `(P, ty)` of that side (or
  the centre line), in one of the states of `LeftInv` / `RightInv`:
    A      after a normal parallel at `P`: the walker stands one major step further;
    skip   after an extra point that gave no parallel (the parallel's error did not wrap);
    extra  after an extra parallel at `P`: the walker stands one major or one minor step further,
           according to `mirror_extra_points`.
  The next parallel `(P', ty')` then satisfies, in the quadrant order `Cone` of the walk,
  `P' >= P` and `P' - red(ty') >= P - red(ty)` (`red(extra) = major + minor` of the line: the
  shortening of extra parallels in `Line::extents`), and its initial error is at most the
  threshold, resp. at most `2 dmin - dmaj` for an extra parallel.
-/
import EG.Lemmas.ThickBBoxBres
set_option linter.unusedSimpArgs false
namespace EG
namespace Thick
open ParallelsIterator

/-- The constants of a stroke: major / minor lengths, the step vectors of the line (`M`, `m`) and
of its perpendicular (`M'`, `m'`). -/
structure StrokeCtx where
  D : Int
  d : Int
  M : Pt
  m : Pt
  M' : Pt
  m' : Pt

namespace StrokeCtx

/-- `BresenhamParameters::new(line)`. -/
def pp (c : StrokeCtx) : BresenhamParameters := ⟨c.D, ⟨2 * c.d, 2 * c.D⟩, ⟨c.M, c.m⟩⟩
/-- `BresenhamParameters::new(line.perpendicular())`. -/
def perp (c : StrokeCtx) : BresenhamParameters := ⟨c.D, ⟨2 * c.d, 2 * c.D⟩, ⟨c.M', c.m'⟩⟩

structure Valid (c : StrokeCtx) : Prop where
  hD : 0 < c.D
  hd0 : 0 ≤ c.d
  hdD : c.d ≤ c.D
  ax : AxisPair c.M c.m
  ax' : AxisPair c.M' c.m'
  red : 0 < c.d → (c.perp.mirrorExtraPoints = true → c.M + c.m = c.m' - c.M') ∧
    (c.perp.mirrorExtraPoints = false → c.M + c.m = c.M' - c.m')

/-- The shortening of a parallel in `Line::extents`. -/
def redOf (c : StrokeCtx) : ParallelLineType → Pt
  | .normal => ⟨0, 0⟩
  | .extra => c.M + c.m

end StrokeCtx

/-- Point (in)equalities by coordinates. -/
macro "pt_arith" : tactic =>
  `(tactic| (simp only [Pt.ext_iff', Pt.add_x, Pt.add_y, Pt.sub_x, Pt.sub_y, Pt.zero,
      StrokeCtx.redOf] at * <;> omega))

theorem cone_of_major {A a v : Pt} (h : AxisPair A a) (e : v = A) : Cone A a v := by
  subst e
  unfold Cone
  rcases h with ⟨h1 | h1, h2 | h2⟩ | ⟨h1 | h1, h2 | h2⟩ <;> subst h1 <;> subst h2 <;>
    simp only [Pt.add_x, Pt.add_y] <;> omega

theorem cone_of_minor {A a v : Pt} (h : AxisPair A a) (e : v = a) : Cone A a v := by
  subst e
  unfold Cone
  rcases h with ⟨h1 | h1, h2 | h2⟩ | ⟨h1 | h1, h2 | h2⟩ <;> subst h1 <;> subst h2 <;>
    simp only [Pt.add_x, Pt.add_y] <;> omega

theorem cone_of_sum {A a v : Pt} (h : AxisPair A a) (e : v = A + a) : Cone A a v := by
  subst e
  unfold Cone
  rcases h with ⟨h1 | h1, h2 | h2⟩ | ⟨h1 | h1, h2 | h2⟩ <;> subst h1 <;> subst h2 <;>
    simp only [Pt.add_x, Pt.add_y] <;> omega

theorem cone_of_zero (A a : Pt) {v : Pt} (e : v = ⟨0, 0⟩) : Cone A a v := by
  subst e; unfold Cone; simp

/-! ### `Bresenham::next_all` / `previous_all` -/

theorem nextAll_normal (b : Bresenham) (p : BresenhamParameters) (h : ¬ b.error > p.errorThreshold) :
    b.nextAll p = (.normal b.point, ⟨b.point + p.positionStep.major, b.error + p.errorStep.major⟩) := by
  unfold Bresenham.nextAll; simp only [h, ↓reduceIte]

theorem nextAll_extra (b : Bresenham) (p : BresenhamParameters) (h : b.error > p.errorThreshold) :
    b.nextAll p =
      (.extra (if p.mirrorExtraPoints then b.point + p.positionStep.minor - p.positionStep.major
          else b.point),
        ⟨b.point + p.positionStep.minor, b.error - p.errorStep.minor⟩) := by
  unfold Bresenham.nextAll; simp only [h, ↓reduceIte]

theorem previousAll_normal (b : Bresenham) (p : BresenhamParameters)
    (h : ¬ b.error ≤ -p.errorThreshold) :
    b.previousAll p =
      (.normal b.point, ⟨b.point - p.positionStep.major, b.error - p.errorStep.major⟩) := by
  unfold Bresenham.previousAll; simp only [h, ↓reduceIte]

theorem previousAll_extra (b : Bresenham) (p : BresenhamParameters) (h : b.error ≤ -p.errorThreshold) :
    b.previousAll p =
      (.extra (if !p.mirrorExtraPoints then b.point - p.positionStep.minor + p.positionStep.major
          else b.point),
        ⟨b.point - p.positionStep.minor, b.error + p.errorStep.minor⟩) := by
  unfold Bresenham.previousAll; simp only [h, ↓reduceIte]

/-! ### One iteration of `next_parallel` -/

theorem npf_left_normal (fuel : Nat) (it : ParallelsIterator)
    (h : ¬ it.left.error > it.perpendicularParameters.errorThreshold) :
    nextParallelFuel (fuel + 1) it .left =
      some ((.normal it.left.point, it.leftError),
        { it with left := ⟨it.left.point + it.perpendicularParameters.positionStep.major,
                           it.left.error + it.perpendicularParameters.errorStep.major⟩ }) := by
  rw [nextParallelFuel]
  simp only [nextAll_normal _ _ h, sideError]

theorem npf_left_extra (fuel : Nat) (it : ParallelsIterator)
    (h : it.left.error > it.perpendicularParameters.errorThreshold) :
    nextParallelFuel (fuel + 1) it .left =
      (let X := if it.perpendicularParameters.mirrorExtraPoints then
          it.left.point + it.perpendicularParameters.positionStep.minor -
            it.perpendicularParameters.positionStep.major
        else it.left.point
       let w : Bresenham := ⟨it.left.point + it.perpendicularParameters.positionStep.minor,
          it.left.error - it.perpendicularParameters.errorStep.minor⟩
       if it.flip then
         if (it.parallelParameters.decreaseError it.leftError).2 then
           some ((.extra X, it.leftError),
             { it with left := w, leftError := (it.parallelParameters.decreaseError it.leftError).1 })
         else nextParallelFuel fuel
           { it with left := w, leftError := (it.parallelParameters.decreaseError it.leftError).1 } .left
       else
         if (it.parallelParameters.increaseError it.leftError).2 then
           some ((.extra X, (it.parallelParameters.increaseError it.leftError).1),
             { it with left := w, leftError := (it.parallelParameters.increaseError it.leftError).1 })
         else nextParallelFuel fuel
           { it with left := w, leftError := (it.parallelParameters.increaseError it.leftError).1 } .left) := by
  rw [nextParallelFuel]
  simp only [nextAll_extra _ _ h, sideError, setSideError]

theorem npf_right_normal (fuel : Nat) (it : ParallelsIterator)
    (h : ¬ it.right.error ≤ -it.perpendicularParameters.errorThreshold) :
    nextParallelFuel (fuel + 1) it .right =
      some ((.normal it.right.point, it.rightError),
        { it with right := ⟨it.right.point - it.perpendicularParameters.positionStep.major,
                            it.right.error - it.perpendicularParameters.errorStep.major⟩ }) := by
  rw [nextParallelFuel]
  simp only [previousAll_normal _ _ h, sideError]

theorem npf_right_extra (fuel : Nat) (it : ParallelsIterator)
    (h : it.right.error ≤ -it.perpendicularParameters.errorThreshold) :
    nextParallelFuel (fuel + 1) it .right =
      (let X := if !it.perpendicularParameters.mirrorExtraPoints then
          it.right.point - it.perpendicularParameters.positionStep.minor +
            it.perpendicularParameters.positionStep.major
        else it.right.point
       let w : Bresenham := ⟨it.right.point - it.perpendicularParameters.positionStep.minor,
          it.right.error + it.perpendicularParameters.errorStep.minor⟩
       if !it.flip then
         if (it.parallelParameters.decreaseError it.rightError).2 then
           some ((.extra X, it.rightError),
             { it with right := w, rightError := (it.parallelParameters.decreaseError it.rightError).1 })
         else nextParallelFuel fuel
           { it with right := w, rightError := (it.parallelParameters.decreaseError it.rightError).1 } .right
       else
         if (it.parallelParameters.increaseError it.rightError).2 then
           some ((.extra X, (it.parallelParameters.increaseError it.rightError).1),
             { it with right := w, rightError := (it.parallelParameters.increaseError it.rightError).1 })
         else nextParallelFuel fuel
           { it with right := w, rightError := (it.parallelParameters.increaseError it.rightError).1 } .right) := by
  rw [nextParallelFuel]
  simp only [previousAll_extra _ _ h, sideError, setSideError]

/-! ### The error updates of the parallels -/

theorem decreaseError_spec (c : StrokeCtx) (e : Int) :
    (c.pp.decreaseError e = (e - 2 * c.d + 2 * c.D, true) ∧ e - 2 * c.d ≤ -c.D) ∨
    (c.pp.decreaseError e = (e - 2 * c.d, false) ∧ -c.D < e - 2 * c.d) := by
  unfold BresenhamParameters.decreaseError StrokeCtx.pp
  simp only
  by_cases h : e - 2 * c.d ≤ -c.D
  · left; simp only [h, ↓reduceIte]; exact ⟨trivial, trivial⟩
  · right; simp only [h, ↓reduceIte]; exact ⟨trivial, by omega⟩

theorem increaseError_spec (c : StrokeCtx) (e : Int) :
    (c.pp.increaseError e = (e + 2 * c.d - 2 * c.D, true) ∧ c.D < e + 2 * c.d) ∨
    (c.pp.increaseError e = (e + 2 * c.d, false) ∧ e + 2 * c.d ≤ c.D) := by
  unfold BresenhamParameters.increaseError StrokeCtx.pp
  simp only
  by_cases h : e + 2 * c.d > c.D
  · left; simp only [h, ↓reduceIte]; exact ⟨trivial, trivial⟩
  · right; simp only [h, ↓reduceIte]; exact ⟨trivial, by omega⟩

/-! ### The left side -/

/-- The left walker `w` relative to the last left parallel `(P, ty)` (or the centre line). -/
def LeftInv (c : StrokeCtx) (w : Bresenham) (P : Pt) (ty : ParallelLineType) : Prop :=
  (ty = .normal ∧ w.point = P + c.M' ∧ w.error ≤ 3 * c.D ∧ (c.d = 0 → w.error = 0)) ∨
  (ty = .normal ∧ w.point = P + c.M' + c.m' ∧ w.error ≤ c.D ∧ 0 < c.d) ∨
  (ty = .extra ∧ w.error ≤ c.D ∧ 0 < c.d ∧
    ((w.point = P + c.M' ∧ c.M + c.m = c.m' - c.M') ∨ (w.point = P + c.m' ∧ c.M + c.m = c.M' - c.m')))

/-- What one call of `next_parallel(Left)` returns. -/
def LeftOut (c : StrokeCtx) (it it' : ParallelsIterator) (P : Pt) (ty : ParallelLineType)
    (pt : BresenhamPoint) (e : Int) : Prop :=
  ∃ P' ty', ((pt = .normal P' ∧ ty' = .normal) ∨ (pt = .extra P' ∧ ty' = .extra)) ∧
    Cone c.M' c.m' (P' - P) ∧
    Cone c.M' c.m' ((P' - c.redOf ty') - (P - c.redOf ty)) ∧
    LeftInv c it'.left P' ty' ∧ -c.D < it'.leftError ∧ it'.leftError ≤ c.D ∧
    (ty' = .normal → e ≤ c.D) ∧ (ty' = .extra → e ≤ 2 * c.d - c.D ∧ 0 < c.d) ∧
    it' = { it with left := it'.left, leftError := it'.leftError }

theorem nextParallel_left_spec (c : StrokeCtx) (hv : c.Valid) :
    ∀ (fuel : Nat) (it : ParallelsIterator) (P : Pt) (ty : ParallelLineType),
    it.perpendicularParameters = c.perp → it.parallelParameters = c.pp →
    LeftInv c it.left P ty → -c.D < it.leftError → it.leftError ≤ c.D →
    ∀ pt e it', nextParallelFuel fuel it .left = some ((pt, e), it') → LeftOut c it it' P ty pt e
  | 0, _, _, _, _, _, _, _, _, _, _, _, h => by simp [nextParallelFuel] at h
  | fuel + 1, it, P, ty, hperp, hpp, hinv, hl1, hl2, pt, e, it', h => by
    have hD := hv.hD
    have hd0 := hv.hd0
    have hdD := hv.hdD
    have hthr : it.perpendicularParameters.errorThreshold = c.D := by rw [hperp]; rfl
    have hMaj : it.perpendicularParameters.positionStep.major = c.M' := by rw [hperp]; rfl
    have hMin : it.perpendicularParameters.positionStep.minor = c.m' := by rw [hperp]; rfl
    have hEMaj : it.perpendicularParameters.errorStep.major = 2 * c.d := by rw [hperp]; rfl
    have hEMin : it.perpendicularParameters.errorStep.minor = 2 * c.D := by rw [hperp]; rfl
    have hMir : it.perpendicularParameters.mirrorExtraPoints = c.perp.mirrorExtraPoints := by rw [hperp]
    by_cases hE : it.left.error > it.perpendicularParameters.errorThreshold
    · -- an extra perpendicular point: only possible after a normal parallel
      rw [npf_left_extra fuel it hE] at h
      simp only [hMaj, hMin, hEMin, hMir] at h
      rw [hthr] at hE
      rcases hinv with ⟨hty, hpt, hle, hz⟩ | ⟨_, _, hle, _⟩ | ⟨_, hle, _, _⟩
      · have hd : 0 < c.d := by
          by_contra hc
          have : c.d = 0 := by omega
          have := hz this
          omega
        obtain ⟨hm1, hm2⟩ := hv.red hd
        -- the two outcomes of the error update
        have key :
            (∃ eret e', eret ≤ 2 * c.d - c.D ∧ -c.D < e' ∧ e' ≤ c.D ∧
              some ((BresenhamPoint.extra
                  (if c.perp.mirrorExtraPoints = true then it.left.point + c.m' - c.M' else it.left.point),
                  eret),
                ({ it with left := ⟨it.left.point + c.m', it.left.error - 2 * c.D⟩, leftError := e' } :
                  ParallelsIterator)) = some ((pt, e), it')) ∨
            (∃ e', -c.D < e' ∧ e' ≤ c.D ∧
              nextParallelFuel fuel
                { it with left := ⟨it.left.point + c.m', it.left.error - 2 * c.D⟩, leftError := e' } .left =
                some ((pt, e), it')) := by
          have hdecE : it.parallelParameters.decreaseError it.leftError =
              c.pp.decreaseError it.leftError := by rw [hpp]
          have hincE : it.parallelParameters.increaseError it.leftError =
              c.pp.increaseError it.leftError := by rw [hpp]
          by_cases hf : it.flip = true
          · rw [if_pos hf] at h
            rcases decreaseError_spec c it.leftError with ⟨hs, hb⟩ | ⟨hs, hb⟩
            · rw [hdecE, hs] at h
              simp only [↓reduceIte] at h
              exact Or.inl ⟨it.leftError, it.leftError - 2 * c.d + 2 * c.D, by omega, by omega,
                by omega, h⟩
            · rw [hdecE, hs] at h
              simp only [Bool.false_eq_true, ↓reduceIte] at h
              exact Or.inr ⟨it.leftError - 2 * c.d, hb, by omega, h⟩
          · rw [if_neg hf] at h
            rcases increaseError_spec c it.leftError with ⟨hs, hb⟩ | ⟨hs, hb⟩
            · rw [hincE, hs] at h
              simp only [↓reduceIte] at h
              exact Or.inl ⟨it.leftError + 2 * c.d - 2 * c.D, it.leftError + 2 * c.d - 2 * c.D,
                by omega, by omega, by omega, h⟩
            · rw [hincE, hs] at h
              simp only [Bool.false_eq_true, ↓reduceIte] at h
              exact Or.inr ⟨it.leftError + 2 * c.d, by omega, hb, h⟩
        rcases key with ⟨eret, e', b1, b2, b3, heq⟩ | ⟨e', b2, b3, hrec⟩
        · -- an extra parallel
          simp only [Option.some.injEq, Prod.mk.injEq] at heq
          obtain ⟨⟨hpt', he'⟩, hit'⟩ := heq
          subst hpt' he' hit'
          by_cases hmir : c.perp.mirrorExtraPoints = true
          · have hred := hm1 hmir
            simp only [hmir, ↓reduceIte]
            refine ⟨it.left.point + c.m' - c.M', .extra, Or.inr ⟨rfl, rfl⟩, ?_, ?_, ?_, b2, b3,
              ?_, ?_, rfl⟩
            · exact cone_of_minor hv.ax' (by subst hty; pt_arith)
            · exact cone_of_major hv.ax' (by subst hty; pt_arith)
            · right; right
              refine ⟨rfl, ?_, hd, Or.inl ⟨?_, hred⟩⟩
              · show it.left.error - 2 * c.D ≤ c.D; omega
              · show it.left.point + c.m' = _; pt_arith
            · intro hc; cases hc
            · intro _; exact ⟨b1, hd⟩
          · have hmir' : c.perp.mirrorExtraPoints = false := by simpa using hmir
            have hred := hm2 hmir'
            simp only [hmir', Bool.false_eq_true, ↓reduceIte]
            refine ⟨it.left.point, .extra, Or.inr ⟨rfl, rfl⟩, ?_, ?_, ?_, b2, b3,
              ?_, ?_, rfl⟩
            · exact cone_of_major hv.ax' (by subst hty; pt_arith)
            · exact cone_of_minor hv.ax' (by subst hty; pt_arith)
            · right; right
              refine ⟨rfl, ?_, hd, Or.inr ⟨?_, hred⟩⟩
              · show it.left.error - 2 * c.D ≤ c.D; omega
              · show it.left.point + c.m' = _; pt_arith
            · intro hc; cases hc
            · intro _; exact ⟨b1, hd⟩
        · -- the extra point gives no parallel: go on (state `skip`)
          have hrec' := nextParallel_left_spec c hv fuel
            { it with left := ⟨it.left.point + c.m', it.left.error - 2 * c.D⟩, leftError := e' } P ty
            hperp hpp
            (Or.inr (Or.inl ⟨hty, (by show it.left.point + c.m' = _; rw [hpt]),
              (by show it.left.error - 2 * c.D ≤ c.D; omega), hd⟩))
            b2 b3 pt e it' hrec
          obtain ⟨P', ty', g1, g2, g3, g4, g5, g6, g7, g8, g9⟩ := hrec'
          refine ⟨P', ty', g1, g2, g3, g4, g5, g6, g7, g8, ?_⟩
          rw [g9]
      · omega
      · omega
    · -- a normal perpendicular point
      rw [npf_left_normal fuel it hE] at h
      simp only [hMaj, hEMaj, Option.some.injEq, Prod.mk.injEq] at h
      obtain ⟨⟨hpt', he'⟩, hit'⟩ := h
      subst hpt' he' hit'
      rw [hthr] at hE
      refine ⟨it.left.point, .normal, Or.inl ⟨rfl, rfl⟩, ?_, ?_, ?_, hl1, hl2, fun _ => hl2,
        ?_, rfl⟩
      rotate_right
      · intro hc; cases hc
      · rcases hinv with ⟨hty, hpt, hle, hz⟩ | ⟨hty, hpt, hle, hd⟩ | ⟨hty, hle, hd, ⟨hpt, hr⟩ | ⟨hpt, hr⟩⟩
        · exact cone_of_major hv.ax' (by pt_arith)
        · exact cone_of_sum hv.ax' (by pt_arith)
        · exact cone_of_major hv.ax' (by pt_arith)
        · exact cone_of_minor hv.ax' (by pt_arith)
      · rcases hinv with ⟨hty, hpt, hle, hz⟩ | ⟨hty, hpt, hle, hd⟩ | ⟨hty, hle, hd, ⟨hpt, hr⟩ | ⟨hpt, hr⟩⟩
        · subst hty; exact cone_of_major hv.ax' (by pt_arith)
        · subst hty; exact cone_of_sum hv.ax' (by pt_arith)
        · subst hty; exact cone_of_minor hv.ax' (by pt_arith)
        · subst hty; exact cone_of_major hv.ax' (by pt_arith)
      · left
        refine ⟨rfl, rfl, ?_, ?_⟩
        · show it.left.error + 2 * c.d ≤ 3 * c.D; omega
        · intro hz0
          show it.left.error + 2 * c.d = 0
          rcases hinv with ⟨_, _, _, hz⟩ | ⟨_, _, _, hd⟩ | ⟨_, _, hd, _⟩
          · have := hz hz0; omega
          · omega
          · omega

/-! ### The right side -/

/-- The right walker `w` relative to the last right parallel `(P, ty)` (or, before the first call,
the centre line that the first call will yield). -/
def RightInv (c : StrokeCtx) (w : Bresenham) (P : Pt) (ty : ParallelLineType) : Prop :=
  (ty = .normal ∧ w.point = P ∧ w.error = 0) ∨
  (ty = .normal ∧ w.point = P - c.M' ∧ -3 * c.D < w.error ∧ (c.d = 0 → w.error = 0)) ∨
  (ty = .normal ∧ w.point = P - c.M' - c.m' ∧ -c.D < w.error ∧ 0 < c.d) ∨
  (ty = .extra ∧ -c.D < w.error ∧ 0 < c.d ∧
    ((w.point = P - c.m' ∧ c.M + c.m = c.m' - c.M') ∨ (w.point = P - c.M' ∧ c.M + c.m = c.M' - c.m')))

/-- What one call of `next_parallel(Right)` returns. -/
def RightOut (c : StrokeCtx) (it it' : ParallelsIterator) (P : Pt) (ty : ParallelLineType)
    (pt : BresenhamPoint) (e : Int) : Prop :=
  ∃ P' ty', ((pt = .normal P' ∧ ty' = .normal) ∨ (pt = .extra P' ∧ ty' = .extra)) ∧
    Cone c.M' c.m' (P - P') ∧
    Cone c.M' c.m' ((P - c.redOf ty) - (P' - c.redOf ty')) ∧
    RightInv c it'.right P' ty' ∧ -c.D < it'.rightError ∧ it'.rightError ≤ c.D ∧
    (ty' = .normal → e ≤ c.D) ∧ (ty' = .extra → e ≤ 2 * c.d - c.D ∧ 0 < c.d) ∧
    it' = { it with right := it'.right, rightError := it'.rightError }

theorem nextParallel_right_spec (c : StrokeCtx) (hv : c.Valid) :
    ∀ (fuel : Nat) (it : ParallelsIterator) (P : Pt) (ty : ParallelLineType),
    it.perpendicularParameters = c.perp → it.parallelParameters = c.pp →
    RightInv c it.right P ty → -c.D < it.rightError → it.rightError ≤ c.D →
    ∀ pt e it', nextParallelFuel fuel it .right = some ((pt, e), it') → RightOut c it it' P ty pt e
  | 0, _, _, _, _, _, _, _, _, _, _, _, h => by simp [nextParallelFuel] at h
  | fuel + 1, it, P, ty, hperp, hpp, hinv, hl1, hl2, pt, e, it', h => by
    have hD := hv.hD
    have hd0 := hv.hd0
    have hdD := hv.hdD
    have hthr : it.perpendicularParameters.errorThreshold = c.D := by rw [hperp]; rfl
    have hMaj : it.perpendicularParameters.positionStep.major = c.M' := by rw [hperp]; rfl
    have hMin : it.perpendicularParameters.positionStep.minor = c.m' := by rw [hperp]; rfl
    have hEMaj : it.perpendicularParameters.errorStep.major = 2 * c.d := by rw [hperp]; rfl
    have hEMin : it.perpendicularParameters.errorStep.minor = 2 * c.D := by rw [hperp]; rfl
    have hMir : it.perpendicularParameters.mirrorExtraPoints = c.perp.mirrorExtraPoints := by rw [hperp]
    by_cases hE : it.right.error ≤ -it.perpendicularParameters.errorThreshold
    · -- an extra perpendicular point: only possible after a normal parallel
      rw [npf_right_extra fuel it hE] at h
      simp only [hMaj, hMin, hEMin, hMir] at h
      rw [hthr] at hE
      rcases hinv with ⟨_, _, hle⟩ | ⟨hty, hpt, hle, hz⟩ | ⟨_, _, hle, _⟩ | ⟨_, hle, _, _⟩
      · omega
      · have hd : 0 < c.d := by
          by_contra hc
          have : c.d = 0 := by omega
          have := hz this
          omega
        obtain ⟨hm1, hm2⟩ := hv.red hd
        have key :
            (∃ eret e', eret ≤ 2 * c.d - c.D ∧ -c.D < e' ∧ e' ≤ c.D ∧
              some ((BresenhamPoint.extra
                  (if (!c.perp.mirrorExtraPoints) = true then it.right.point - c.m' + c.M'
                    else it.right.point),
                  eret),
                ({ it with right := ⟨it.right.point - c.m', it.right.error + 2 * c.D⟩, rightError := e' } :
                  ParallelsIterator)) = some ((pt, e), it')) ∨
            (∃ e', -c.D < e' ∧ e' ≤ c.D ∧
              nextParallelFuel fuel
                { it with right := ⟨it.right.point - c.m', it.right.error + 2 * c.D⟩, rightError := e' }
                .right = some ((pt, e), it')) := by
          have hdecE : it.parallelParameters.decreaseError it.rightError =
              c.pp.decreaseError it.rightError := by rw [hpp]
          have hincE : it.parallelParameters.increaseError it.rightError =
              c.pp.increaseError it.rightError := by rw [hpp]
          by_cases hf : (!it.flip) = true
          · rw [if_pos hf] at h
            rcases decreaseError_spec c it.rightError with ⟨hs, hb⟩ | ⟨hs, hb⟩
            · rw [hdecE, hs] at h
              simp only [↓reduceIte] at h
              exact Or.inl ⟨it.rightError, it.rightError - 2 * c.d + 2 * c.D, by omega, by omega,
                by omega, h⟩
            · rw [hdecE, hs] at h
              simp only [Bool.false_eq_true, ↓reduceIte] at h
              exact Or.inr ⟨it.rightError - 2 * c.d, hb, by omega, h⟩
          · rw [if_neg hf] at h
            rcases increaseError_spec c it.rightError with ⟨hs, hb⟩ | ⟨hs, hb⟩
            · rw [hincE, hs] at h
              simp only [↓reduceIte] at h
              exact Or.inl ⟨it.rightError + 2 * c.d - 2 * c.D, it.rightError + 2 * c.d - 2 * c.D,
                by omega, by omega, by omega, h⟩
            · rw [hincE, hs] at h
              simp only [Bool.false_eq_true, ↓reduceIte] at h
              exact Or.inr ⟨it.rightError + 2 * c.d, by omega, hb, h⟩
        rcases key with ⟨eret, e', b1, b2, b3, heq⟩ | ⟨e', b2, b3, hrec⟩
        · simp only [Option.some.injEq, Prod.mk.injEq] at heq
          obtain ⟨⟨hpt', he'⟩, hit'⟩ := heq
          subst hpt' he' hit'
          by_cases hmir : c.perp.mirrorExtraPoints = true
          · have hred := hm1 hmir
            simp only [hmir, Bool.not_true, Bool.false_eq_true, ↓reduceIte]
            refine ⟨it.right.point, .extra, Or.inr ⟨rfl, rfl⟩, ?_, ?_, ?_, b2, b3, ?_, ?_, rfl⟩
            · exact cone_of_major hv.ax' (by subst hty; pt_arith)
            · exact cone_of_minor hv.ax' (by subst hty; pt_arith)
            · right; right; right
              refine ⟨rfl, ?_, hd, Or.inl ⟨?_, hred⟩⟩
              · show -c.D < it.right.error + 2 * c.D; omega
              · show it.right.point - c.m' = _; pt_arith
            · intro hc; cases hc
            · intro _; exact ⟨b1, hd⟩
          · have hmir' : c.perp.mirrorExtraPoints = false := by simpa using hmir
            have hred := hm2 hmir'
            simp only [hmir', Bool.not_false, ↓reduceIte]
            refine ⟨it.right.point - c.m' + c.M', .extra, Or.inr ⟨rfl, rfl⟩, ?_, ?_, ?_, b2, b3,
              ?_, ?_, rfl⟩
            · exact cone_of_minor hv.ax' (by subst hty; pt_arith)
            · exact cone_of_major hv.ax' (by subst hty; pt_arith)
            · right; right; right
              refine ⟨rfl, ?_, hd, Or.inr ⟨?_, hred⟩⟩
              · show -c.D < it.right.error + 2 * c.D; omega
              · show it.right.point - c.m' = _; pt_arith
            · intro hc; cases hc
            · intro _; exact ⟨b1, hd⟩
        · have hrec' := nextParallel_right_spec c hv fuel
            { it with right := ⟨it.right.point - c.m', it.right.error + 2 * c.D⟩, rightError := e' } P ty
            hperp hpp
            (Or.inr (Or.inr (Or.inl ⟨hty, (by show it.right.point - c.m' = _; rw [hpt]),
              (by show -c.D < it.right.error + 2 * c.D; omega), hd⟩)))
            b2 b3 pt e it' hrec
          obtain ⟨P', ty', g1, g2, g3, g4, g5, g6, g7, g8, g9⟩ := hrec'
          refine ⟨P', ty', g1, g2, g3, g4, g5, g6, g7, g8, ?_⟩
          rw [g9]
      · omega
      · omega
    · -- a normal perpendicular point
      rw [npf_right_normal fuel it hE] at h
      simp only [hMaj, hEMaj, Option.some.injEq, Prod.mk.injEq] at h
      obtain ⟨⟨hpt', he'⟩, hit'⟩ := h
      subst hpt' he' hit'
      rw [hthr] at hE
      refine ⟨it.right.point, .normal, Or.inl ⟨rfl, rfl⟩, ?_, ?_, ?_, hl1, hl2, fun _ => hl2,
        ?_, rfl⟩
      rotate_right
      · intro hc; cases hc
      · rcases hinv with ⟨hty, hpt, hle⟩ | ⟨hty, hpt, hle, hz⟩ | ⟨hty, hpt, hle, hd⟩ |
          ⟨hty, hle, hd, ⟨hpt, hr⟩ | ⟨hpt, hr⟩⟩
        · exact cone_of_zero _ _ (by pt_arith)
        · exact cone_of_major hv.ax' (by pt_arith)
        · exact cone_of_sum hv.ax' (by pt_arith)
        · exact cone_of_minor hv.ax' (by pt_arith)
        · exact cone_of_major hv.ax' (by pt_arith)
      · rcases hinv with ⟨hty, hpt, hle⟩ | ⟨hty, hpt, hle, hz⟩ | ⟨hty, hpt, hle, hd⟩ |
          ⟨hty, hle, hd, ⟨hpt, hr⟩ | ⟨hpt, hr⟩⟩
        · subst hty; exact cone_of_zero _ _ (by pt_arith)
        · subst hty; exact cone_of_major hv.ax' (by pt_arith)
        · subst hty; exact cone_of_sum hv.ax' (by pt_arith)
        · subst hty; exact cone_of_major hv.ax' (by pt_arith)
        · subst hty; exact cone_of_minor hv.ax' (by pt_arith)
      · right; left
        refine ⟨rfl, rfl, ?_, ?_⟩
        · show -3 * c.D < it.right.error - 2 * c.d; omega
        · intro hz0
          show it.right.error - 2 * c.d = 0
          rcases hinv with ⟨_, _, hle⟩ | ⟨_, _, _, hz⟩ | ⟨_, _, _, hd⟩ | ⟨_, _, hd, _⟩
          · omega
          · have := hz hz0; omega
          · omega
          · omega

end Thick
end EG
