/-
  EG.Lemmas.JoinsBBoxPoly — every scanline a stroked polyline (width > 1) fills lies in the
  columns `lo ..= hi` and the rows `r0 .. rEnd` whenever every outline line of every segment of its
  chain ends in these columns (`SegOK`) and the row iterator runs over `r0 .. rEnd`.
  Invariants of `ScanlineIntersections` (`PIInv`), `ScanlineIterator` (`PSInv`) and
  `StyledPixelsIterator` (`PPInv`) of polyline/*.rs.
-/
import EG.Lemmas.JoinsBBoxChain
import EG.Lemmas.JoinsPolyScan
import EG.Lemmas.JoinsPixels
set_option linter.unusedSimpArgs false
namespace EG
namespace Joins
open Thick (LineSide StrokeOffset)

/-- Every outline line of the segment ends in the columns `lo ..= hi`. -/
def SegOK (lo hi : Int) (s : ThickSegment) : Prop :=
  ∀ l ∈ s.outline, lo ≤ l.start.x ∧ lo ≤ l.stop.x ∧ l.start.x ≤ hi ∧ l.stop.x ≤ hi

/-- A non-empty scanline inside the columns `lo ..= hi` and the rows `r0 .. rEnd`. -/
def GoodLine (lo hi r0 rEnd : Int) (sc : Scanline) : Prop :=
  sc.xs < sc.xe ∧ lo ≤ sc.xs ∧ sc.xe ≤ hi + 1 ∧ r0 ≤ sc.y ∧ sc.y < rEnd

/-! ### Scanline operations and `Within` -/

theorem tryExtend_within {a b : Scanline} {lo hi : Int} (ha : Within a lo hi) (hb : Within b lo hi) :
    Within (a.tryExtend b).2 lo hi ∧ (a.tryExtend b).2.y = a.y := by
  unfold Scanline.tryExtend
  by_cases ht : a.touches b = true
  · simp only [ht, ↓reduceIte]
    obtain ⟨n1, n2, _⟩ := (touches_iff a b).mp ht
    rcases ha with ha | ha
    · rw [isEmpty_iff] at ha; omega
    rcases hb with hb | hb
    · rw [isEmpty_iff] at hb; omega
    refine ⟨Or.inr ?_, trivial⟩
    dsimp only
    omega
  · simp only [ht, Bool.false_eq_true, ↓reduceIte]
    exact ⟨ha, trivial⟩

theorem tryTake_within {a : Scanline} {lo hi : Int} (ha : Within a lo hi) :
    Within a.tryTake.2 lo hi ∧ a.tryTake.2.y = a.y ∧
      ∀ sc, a.tryTake.1 = some sc → sc = a := by
  unfold Scanline.tryTake
  by_cases he : a.isEmpty = true
  · simp only [he, Bool.not_true, Bool.false_eq_true, ↓reduceIte]
    exact ⟨ha, trivial, by intro sc h; cases h⟩
  · have he' : a.isEmpty = false := by simpa using he
    simp only [he', Bool.not_false, ↓reduceIte]
    refine ⟨Or.inl ?_, trivial, ?_⟩
    · rw [isEmpty_iff]; dsimp only; omega
    · intro sc h; cases h; rfl

theorem within_newEmpty (y lo hi : Int) : Within (Scanline.newEmpty y) lo hi := Or.inl rfl

theorem goodLine_of_within {lo hi r0 rEnd : Int} {sc : Scanline} (hw : Within sc lo hi)
    (hne : sc.isEmpty = false) (h1 : r0 ≤ sc.y) (h2 : sc.y < rEnd) : GoodLine lo hi r0 rEnd sc := by
  have hne' : sc.xs < sc.xe := by
    by_cases h : sc.xs < sc.xe
    · exact h
    · rw [(isEmpty_iff sc).mpr h] at hne; cases hne
  rcases hw with hw | hw
  · rw [hne] at hw; cases hw
  · exact ⟨hne', hw.1, hw.2, h1, h2⟩

/-! ### `ScanlineIntersections` -/

/-- The invariant of `polyline::scanline_intersections::ScanlineIntersections` for the polyline
`vs`, width `w`, whose segments all satisfy `SegOK lo hi`. -/
structure PIInv (vs : List Pt) (w : Nat) (lo hi : Int) (it : PolyIntersections) : Prop where
  points : it.points = vs
  width : it.width = w
  within : Within it.scanline lo hi
  chain : ∀ sj, it.nextStartJoin = some sj →
    ∃ L, chainFrom w sj it.remainingPoints = some L ∧ ∀ s ∈ L, SegOK lo hi s

theorem PolyIntersections.nextFuel_inv {vs : List Pt} {w : Nat} {lo hi : Int} :
    ∀ (fuel : Nat) (it : PolyIntersections), PIInv vs w lo hi it →
    ∀ r it', it.nextFuel fuel = some (r, it') →
      PIInv vs w lo hi it' ∧ it'.scanline.y = it.scanline.y ∧
        ∀ sc, r = some sc → Within sc lo hi ∧ sc.y = it.scanline.y
  | 0, it, _, r, it', h => by simp [PolyIntersections.nextFuel] at h
  | fuel + 1, it, hi', r, it', h => by
    unfold PolyIntersections.nextFuel at h
    -- what `next_segment` returns
    have hseg : (it.nextSegment = some none) ∨
        (∃ s it1, it.nextSegment = some (some (s, it1)) ∧ SegOK lo hi s ∧
          PIInv vs w lo hi it1 ∧ it1.scanline = it.scanline) := by
      cases hn : it.nextStartJoin with
      | none =>
        left
        unfold PolyIntersections.nextSegment
        rw [hn]
      | some sj =>
        obtain ⟨L, hL, hok⟩ := hi'.chain sj hn
        rw [← hi'.width] at hL
        rcases PolyIntersections.nextSegment_chain it sj L hn hL with ⟨_, h0⟩ |
          ⟨s, L', it1, e1, e2, e3, e4, e5, e6, e7, _⟩
        · left; exact h0
        · right
          refine ⟨s, it1, e2, hok s (by rw [e1]; exact List.mem_cons_self), ?_, e7⟩
          refine ⟨by rw [e5, hi'.points], by rw [e6, hi'.width], by rw [e7]; exact hi'.within, ?_⟩
          intro sj' hsj'
          rw [e3] at hsj'
          cases hsj'
          rw [e6, hi'.width] at e4
          exact ⟨L', e4, fun t ht => hok t (by rw [e1]; exact List.mem_cons_of_mem _ ht)⟩
    rcases hseg with h0 | ⟨s, it1, h1, hs, hinv1, hsc⟩
    · rw [h0] at h
      simp only [Option.some.injEq, Prod.mk.injEq] at h
      obtain ⟨hr, hit⟩ := h
      obtain ⟨t1, t2, t3⟩ := tryTake_within hi'.within
      subst hit
      refine ⟨⟨hi'.points, hi'.width, t1, hi'.chain⟩, t2, ?_⟩
      intro sc hsc'
      rw [← hr] at hsc'
      rw [t3 sc hsc']
      exact ⟨hi'.within, rfl⟩
    · rw [h1] at h
      simp only at h
      have hy : it1.scanline.y = it.scanline.y := by rw [hsc]
      obtain ⟨hn1, hn2⟩ := intersection_within_outline s it1.scanline.y lo hi hs
      obtain ⟨hx1, hx2⟩ := tryExtend_within hinv1.within hn1
      by_cases he : (it1.scanline.tryExtend (s.intersection it1.scanline.y)).1 = true
      · simp only [he, Bool.not_true, Bool.false_eq_true, ↓reduceIte] at h
        have hinv2 : PIInv vs w lo hi
            { it1 with scanline := (it1.scanline.tryExtend (s.intersection it1.scanline.y)).2 } :=
          ⟨hinv1.points, hinv1.width, hx1, hinv1.chain⟩
        obtain ⟨a, b, c⟩ := PolyIntersections.nextFuel_inv fuel _ hinv2 r it' h
        simp only at b c
        rw [hx2, hy] at b c
        exact ⟨a, b, c⟩
      · simp only [he, Bool.not_false, ↓reduceIte, Option.some.injEq, Prod.mk.injEq] at h
        obtain ⟨hr, hit⟩ := h
        subst hit
        refine ⟨⟨hinv1.points, hinv1.width, hn1, hinv1.chain⟩, by show (s.intersection _).y = _; rw [hn2, hy], ?_⟩
        intro sc hsc'
        rw [← hr] at hsc'
        cases hsc'
        exact ⟨hinv1.within, hy⟩

theorem PolyIntersections.next_inv {vs : List Pt} {w : Nat} {lo hi : Int} (it : PolyIntersections)
    (hi' : PIInv vs w lo hi it) (r : Option Scanline) (it' : PolyIntersections)
    (h : it.next = some (r, it')) :
    PIInv vs w lo hi it' ∧ it'.scanline.y = it.scanline.y ∧
      ∀ sc, r = some sc → Within sc lo hi ∧ sc.y = it.scanline.y :=
  PolyIntersections.nextFuel_inv _ it hi' r it' h

/-- A freshly constructed `ScanlineIntersections` for a polyline whose chain is `segs`. -/
theorem PolyIntersections.new_inv {vs : List Pt} {w : Nat} {lo hi : Int} {segs : List ThickSegment}
    (hc : polyChain vs w = some segs) (hok : ∀ s ∈ segs, SegOK lo hi s) (y : Int)
    (it : PolyIntersections) (h : PolyIntersections.new vs w y = some it) :
    PIInv vs w lo hi it ∧ it.scanline.y = y := by
  unfold PolyIntersections.new at h
  rcases vs with _ | ⟨a, _ | ⟨b, rest⟩⟩
  · simp only [Option.bind_eq_bind, Option.bind_some, pure, Option.some.injEq] at h
    subst h
    exact ⟨⟨rfl, rfl, within_newEmpty _ _ _, by intro sj h; cases h⟩, rfl⟩
  · simp only [Option.bind_eq_bind, Option.bind_some, pure, Option.some.injEq] at h
    subst h
    exact ⟨⟨rfl, rfl, within_newEmpty _ _ _, by intro sj h; cases h⟩, rfl⟩
  · unfold polyChain at hc
    simp only at hc h
    cases hs : LineJoin.start a b w .none with
    | none => rw [hs] at hc; cases hc
    | some sj =>
      rw [hs] at hc h
      simp only [Option.bind_some, Option.map_some, Option.bind_eq_bind, pure, Option.some.injEq] at hc h
      subst h
      refine ⟨⟨rfl, rfl, within_newEmpty _ _ _, ?_⟩, rfl⟩
      intro sj' hsj'
      cases hsj'
      exact ⟨segs, hc, hok⟩

/-! ### `ScanlineIterator` -/

/-- The invariant of `polyline::scanline_iterator::ScanlineIterator`. -/
structure PSInv (vs : List Pt) (w : Nat) (segs : List ThickSegment) (lo hi r0 rEnd : Int)
    (it : PolyScanlines) : Prop where
  pi : PIInv vs w lo hi it.intersections
  ylo : r0 ≤ it.intersections.scanline.y
  yhi : it.intersections.scanline.y < rEnd
  rows : r0 ≤ it.rowsStart
  rend : it.rowsEnd = rEnd

theorem PolyScanlines.nextFuel_inv {vs : List Pt} {w : Nat} {segs : List ThickSegment}
    {lo hi r0 rEnd : Int} (hc : polyChain vs w = some segs) (hok : ∀ s ∈ segs, SegOK lo hi s) :
    ∀ (fuel : Nat) (it : PolyScanlines), PSInv vs w segs lo hi r0 rEnd it →
    ∀ sc it', it.nextFuel fuel = some (some (sc, it')) →
      PSInv vs w segs lo hi r0 rEnd it' ∧ GoodLine lo hi r0 rEnd sc
  | 0, it, _, sc, it', h => by simp [PolyScanlines.nextFuel] at h
  | fuel + 1, it, hi', sc, it', h => by
    unfold PolyScanlines.nextFuel at h
    cases hn : it.intersections.next with
    | none => rw [hn] at h; cases h
    | some x =>
      obtain ⟨r, ints⟩ := x
      obtain ⟨a, b, c⟩ := PolyIntersections.next_inv it.intersections hi'.pi r ints hn
      rw [hn] at h
      cases r with
      | some nxt =>
        simp only at h
        have hinv : PSInv vs w segs lo hi r0 rEnd { it with intersections := ints } :=
          ⟨a, by show r0 ≤ ints.scanline.y; rw [b]; exact hi'.ylo,
            by show ints.scanline.y < rEnd; rw [b]; exact hi'.yhi, hi'.rows, hi'.rend⟩
        by_cases he : nxt.isEmpty = true
        · simp only [he, Bool.not_true, Bool.false_eq_true, ↓reduceIte] at h
          exact PolyScanlines.nextFuel_inv hc hok fuel _ hinv sc it' h
        · have he' : nxt.isEmpty = false := by simpa using he
          simp only [he', Bool.not_false, ↓reduceIte, Option.some.injEq, Prod.mk.injEq] at h
          obtain ⟨h1, h2⟩ := h
          subst h1 h2
          obtain ⟨c1, c2⟩ := c _ rfl
          exact ⟨hinv, goodLine_of_within c1 he' (by rw [c2]; exact hi'.ylo) (by rw [c2]; exact hi'.yhi)⟩
      | none =>
        simp only at h
        by_cases hr : it.rowsStart < it.rowsEnd
        · simp only [hr, ↓reduceIte] at h
          unfold PolyIntersections.resetWithNewScanline at h
          cases hnew : PolyIntersections.new ints.points ints.width it.rowsStart with
          | none => rw [hnew] at h; cases h
          | some ints2 =>
            rw [hnew] at h
            simp only at h
            rw [a.points, a.width] at hnew
            obtain ⟨n1, n2⟩ := PolyIntersections.new_inv hc hok _ _ hnew
            have hinv : PSInv vs w segs lo hi r0 rEnd
                { it with rowsStart := it.rowsStart + 1, scanlineY := it.rowsStart, intersections := ints2 } :=
              ⟨n1, by show r0 ≤ ints2.scanline.y; rw [n2]; exact hi'.rows,
                by show ints2.scanline.y < rEnd; rw [n2, ← hi'.rend]; exact hr,
                by show r0 ≤ it.rowsStart + 1; have := hi'.rows; omega, hi'.rend⟩
            exact PolyScanlines.nextFuel_inv hc hok fuel _ hinv sc it' h
        · simp only [hr, ↓reduceIte] at h
          cases h

theorem PolyScanlines.toListFuel_inv {vs : List Pt} {w : Nat} {segs : List ThickSegment}
    {lo hi r0 rEnd : Int} (hc : polyChain vs w = some segs) (hok : ∀ s ∈ segs, SegOK lo hi s) :
    ∀ (fuel : Nat) (it : PolyScanlines), PSInv vs w segs lo hi r0 rEnd it →
    ∀ l, it.toListFuel fuel = some l → ∀ sc ∈ l, GoodLine lo hi r0 rEnd sc
  | 0, it, _, l, h => by
    simp only [PolyScanlines.toListFuel, Option.some.injEq] at h
    subst h; intro sc hsc; cases hsc
  | fuel + 1, it, hi', l, h => by
    unfold PolyScanlines.toListFuel at h
    cases hn : it.next with
    | none => rw [hn] at h; cases h
    | some x =>
      rw [hn] at h
      cases x with
      | none =>
        simp only [Option.bind_eq_bind, Option.bind_some, pure, Option.some.injEq] at h
        subst h; intro sc hsc; cases hsc
      | some y =>
        obtain ⟨sc0, it1⟩ := y
        simp only [Option.bind_eq_bind, Option.bind_some] at h
        obtain ⟨a, b⟩ := PolyScanlines.nextFuel_inv hc hok _ it hi' sc0 it1 hn
        cases hr : PolyScanlines.toListFuel fuel it1 with
        | none => rw [hr] at h; cases h
        | some rest =>
          rw [hr] at h
          simp only [Option.bind_some, pure, Option.some.injEq] at h
          subst h
          intro sc hsc
          rcases List.mem_cons.mp hsc with rfl | hsc
          · exact b
          · exact PolyScanlines.toListFuel_inv hc hok fuel it1 a rest hr sc hsc

/-! ### `StyledPixelsIterator` (the `Thick` arm) -/

/-- The row iterator is the empty one or satisfies the invariant. -/
def SIOk (vs : List Pt) (w : Nat) (segs : List ThickSegment) (lo hi r0 rEnd : Int)
    (si : PolyScanlines) : Prop :=
  si = PolyScanlines.empty ∨ PSInv vs w segs lo hi r0 rEnd si

/-- The invariant of the `Thick` arm of `polyline::styled::StyledPixelsIterator`. -/
structure PPInv (vs : List Pt) (w : Nat) (segs : List ThickSegment) (lo hi r0 rEnd : Int)
    (it : PolyThickPixels) : Prop where
  si : SIOk vs w segs lo hi r0 rEnd it.scanlineIter
  line : ¬ it.lineIter.xs < it.lineIter.xe ∨ GoodLine lo hi r0 rEnd it.lineIter

theorem scanline_next_good {lo hi r0 rEnd : Int} {s s' : Scanline} {p : Pt}
    (hg : ¬ s.xs < s.xe ∨ GoodLine lo hi r0 rEnd s) (h : s.next = some (p, s')) :
    (lo ≤ p.x ∧ p.x ≤ hi ∧ r0 ≤ p.y ∧ p.y < rEnd) ∧
      (¬ s'.xs < s'.xe ∨ GoodLine lo hi r0 rEnd s') := by
  unfold Scanline.next at h
  by_cases hlt : s.xs < s.xe
  · simp only [hlt, ↓reduceIte, Option.some.injEq, Prod.mk.injEq] at h
    obtain ⟨h1, h2⟩ := h
    subst h1 h2
    rcases hg with hg | ⟨g1, g2, g3, g4, g5⟩
    · exact absurd hlt hg
    · refine ⟨⟨g2, by dsimp only; omega, g4, g5⟩, ?_⟩
      by_cases hlt' : s.xs + 1 < s.xe
      · right; exact ⟨hlt', by dsimp only; omega, g3, g4, g5⟩
      · left; exact hlt'
  · simp only [hlt, ↓reduceIte] at h
    cases h

theorem PolyThickPixels.next_inv {vs : List Pt} {w : Nat} {segs : List ThickSegment}
    {lo hi r0 rEnd : Int} (hc : polyChain vs w = some segs) (hok : ∀ s ∈ segs, SegOK lo hi s)
    (it : PolyThickPixels) (hi' : PPInv vs w segs lo hi r0 rEnd it) (q : Pt) (it' : PolyThickPixels)
    (h : it.next = some (some (q, it'))) :
    PPInv vs w segs lo hi r0 rEnd it' ∧ it'.translate = it.translate ∧
      ∃ p, q = p + it.translate ∧ lo ≤ p.x ∧ p.x ≤ hi ∧ r0 ≤ p.y ∧ p.y < rEnd := by
  unfold PolyThickPixels.next at h
  cases hl : it.lineIter.next with
  | some x =>
    obtain ⟨p, li⟩ := x
    rw [hl] at h
    simp only [Option.some.injEq, Prod.mk.injEq] at h
    obtain ⟨h1, h2⟩ := h
    subst h1 h2
    obtain ⟨a, b⟩ := scanline_next_good hi'.line hl
    exact ⟨⟨hi'.si, b⟩, rfl, p, rfl, a⟩
  | none =>
    rw [hl] at h
    simp only [Option.bind_eq_bind] at h
    cases hn : it.scanlineIter.next with
    | none => rw [hn] at h; cases h
    | some x =>
      rw [hn] at h
      cases x with
      | none => simp only [Option.bind_some, pure, Option.some.injEq] at h; cases h
      | some y =>
        obtain ⟨li, si⟩ := y
        simp only [Option.bind_some] at h
        rcases hi'.si with he | hinv
        · rw [he, PolyScanlines.empty_next] at hn; cases hn
        · obtain ⟨a, b⟩ := PolyScanlines.nextFuel_inv hc hok _ _ hinv li si hn
          cases hl2 : li.next with
          | none => rw [hl2] at h; simp only [pure, Option.some.injEq] at h; cases h
          | some z =>
            obtain ⟨p, li2⟩ := z
            rw [hl2] at h
            simp only [pure, Option.some.injEq, Prod.mk.injEq] at h
            obtain ⟨h1, h2⟩ := h
            subst h1 h2
            obtain ⟨c, d⟩ := scanline_next_good (Or.inr b) hl2
            exact ⟨⟨Or.inr a, d⟩, rfl, p, rfl, c⟩

theorem PolyThickPixels.toListFuel_inv {vs : List Pt} {w : Nat} {segs : List ThickSegment}
    {lo hi r0 rEnd : Int} (hc : polyChain vs w = some segs) (hok : ∀ s ∈ segs, SegOK lo hi s) :
    ∀ (fuel : Nat) (it : PolyThickPixels), PPInv vs w segs lo hi r0 rEnd it →
    ∀ l, it.toListFuel fuel = some l →
      ∀ q ∈ l, ∃ p, q = p + it.translate ∧ lo ≤ p.x ∧ p.x ≤ hi ∧ r0 ≤ p.y ∧ p.y < rEnd
  | 0, it, _, l, h => by
    simp only [PolyThickPixels.toListFuel, Option.some.injEq] at h
    subst h; intro q hq; cases hq
  | fuel + 1, it, hi', l, h => by
    unfold PolyThickPixels.toListFuel at h
    cases hn : it.next with
    | none => rw [hn] at h; cases h
    | some x =>
      rw [hn] at h
      cases x with
      | none =>
        simp only [Option.bind_eq_bind, Option.bind_some, pure, Option.some.injEq] at h
        subst h; intro q hq; cases hq
      | some y =>
        obtain ⟨q0, it1⟩ := y
        simp only [Option.bind_eq_bind, Option.bind_some] at h
        obtain ⟨a, b, c⟩ := PolyThickPixels.next_inv hc hok it hi' q0 it1 hn
        cases hr : PolyThickPixels.toListFuel fuel it1 with
        | none => rw [hr] at h; cases h
        | some rest =>
          rw [hr] at h
          simp only [Option.bind_some, pure, Option.some.injEq] at h
          subst h
          intro q hq
          rcases List.mem_cons.mp hq with rfl | hq
          · exact c
          · have := PolyThickPixels.toListFuel_inv hc hok fuel it1 a rest hr q hq
            rw [b] at this
            exact this

end Joins
end EG
