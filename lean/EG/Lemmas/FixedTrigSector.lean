/-
  EG.Lemmas.FixedTrigSector — the angular claim of C18 for the `fixed_point` build, with no
  hypothesis about the trigonometry: the plane sector `PlaneSector::new` computes from two raw angles
  accepts every pixel (of a circle of diameter up to 128) that is at least 1.5 px inside both boundary
  lines and rejects every pixel more than 1.5 px outside — the boundary lines being those through the
  centre in the TABLE directions `(cosT k, sinT k)` of the whole degrees `k` the code rounds the two
  boundary angles to.

  Scale: `tableDist k delta = delta · (-sinT k, cosT k)` is the signed distance of the pixel centre
  `delta` (doubled coordinates: half pixels) from that line in units of 1/65536 half pixel (the table
  entries are I16F16 bits), so 1.5 px = 3 half pixels = 196608.

  Error budget (all in these units, `|dx|, |dy| <= 127`):
    * truncation of `1024 sin` / `1024 cos` to integers: the code's distance, times 64, differs from
      `tableDist` by at most `63 (|dx| + |dy|) <= 11403` (0.087 px);
    * the cosine's degree off by one (`deg_shift`; about one raw angle in 4600): `1144 |dy|` more, at
      most `63 |dx| + 1207 |dy| <= 161290` (1.23 px);
  both below 196608. What this does NOT contain is the rounding of the angle to whole degrees
  (`deg_nearest`: up to half a degree, 0.56 px at radius 64) and the accuracy of the table itself
  against the real sine: relative to the EXACT lines the fixed_point build needs about 0.09 + 0.56 px
  (proved with 1.5 px in EG.Lemmas.FixedTrigExact over `Real.sin`; the oracle of the C18 check measures
  0.55 px on half-degree angles at d = 128).
-/
import EG.Lemmas.FixedTrigNormals
import EG.Lemmas.SectorAngular
namespace EG.Fx
open EG EG.Generated

/-- Signed distance (1/65536 half pixel) of `delta` from the line through the centre in the table
direction of the whole degree `k`; positive on the right side (the side a positive sweep turns to). -/
def tableDist (k : Int) (delta : Pt) : Int := delta.x * (-(sinT k)) + delta.y * cosT k

theorem t64_err (s : Int) : |64 * t64 s - s| ≤ 63 := by
  unfold t64 truncDiv
  rw [abs_le]
  split <;> constructor <;> omega

theorem sinT_step' (k : Int) : |sinT (k + 1) - sinT k| ≤ 1144 := by
  have h := sinT_step (k - 90)
  have e1 : k - 90 + 91 = k + 1 := by omega
  have e2 : k - 90 + 90 = k := by omega
  rw [e1, e2] at h
  rw [abs_le]; constructor <;> omega

theorem prod_bound (a b B : Int) (hb : |b| ≤ B) : |a * b| ≤ |a| * B :=
  abs_mul_le_of_abs_le a b B hb

/-- The bound on the cosine component's error: 63 when the cosine's degree is exact, 1207 else. -/
def cosErr (d c : Int) : Int := if c = d + 90 then 63 else 1207

/-- **Error of the code's distance against the table line.** -/
theorem dist_err (d c : Int) (hc : c = d + 90 ∨ c = d + 91) (delta : Pt) :
    |64 * PlaneSector.distance (tableNormal d c) delta - tableDist d delta| ≤
      63 * |delta.x| + cosErr d c * |delta.y| := by
  unfold PlaneSector.distance dotProduct tableNormal tableDist cosT
  simp only
  have hx : |64 * (-(t64 (sinT d))) - -(sinT d)| ≤ 63 := by
    have := t64_err (sinT d)
    rw [abs_le] at this ⊢
    constructor <;> omega
  have hy : |64 * t64 (sinT c) - sinT (d + 90)| ≤ cosErr d c := by
    have h1 := t64_err (sinT c)
    unfold cosErr
    rcases hc with hc | hc
    · subst hc; rw [if_pos rfl]; exact h1
    · rw [if_neg (by omega)]
      have h2 := sinT_step' (d + 90)
      have e : d + 90 + 1 = c := by omega
      rw [e] at h2
      rw [abs_le] at h1 h2 ⊢
      constructor <;> omega
  have e : 64 * (delta.x * -(t64 (sinT d)) + delta.y * t64 (sinT c)) - (delta.x * -(sinT d) + delta.y * sinT (d + 90)) =
      delta.x * (64 * (-(t64 (sinT d))) - -(sinT d)) + delta.y * (64 * t64 (sinT c) - sinT (d + 90)) := by ring
  rw [e]
  have h1 := prod_bound delta.x _ 63 hx
  have h2 := prod_bound delta.y _ (cosErr d c) hy
  have h3 := abs_add_le (delta.x * (64 * (-(t64 (sinT d))) - -(sinT d))) (delta.y * (64 * t64 (sinT c) - sinT (d + 90)))
  have e1 : |delta.x| * 63 = 63 * |delta.x| := by ring
  have e2 : |delta.y| * cosErr d c = cosErr d c * |delta.y| := by ring
  omega

/-- Beyond the error margin `m` the two half-plane tests on the computed normal are the tests on the
table line. -/
theorem halfplane_facts (d c : Int) (hc : c = d + 90 ∨ c = d + 91) (delta : Pt) (m : Int)
    (hm : 63 * |delta.x| + cosErr d c * |delta.y| ≤ m) :
    (m ≤ tableDist d delta → PlaneSector.checkRight (tableNormal d c) delta = true) ∧
    (tableDist d delta < -m → PlaneSector.checkRight (tableNormal d c) delta = false) ∧
    (tableDist d delta ≤ -m → PlaneSector.checkLeft (tableNormal d c) delta = true) ∧
    (m < tableDist d delta → PlaneSector.checkLeft (tableNormal d c) delta = false) := by
  have h := dist_err d c hc delta
  rw [abs_le] at h
  unfold PlaneSector.checkRight PlaneSector.checkLeft
  refine ⟨fun h1 => ?_, fun h1 => ?_, fun h1 => ?_, fun h1 => ?_⟩
  · rw [decide_eq_true_iff]; omega
  · rw [decide_eq_false_iff_not]; omega
  · rw [decide_eq_true_iff]; omega
  · rw [decide_eq_false_iff_not]; omega

theorem abs_le_127 (delta : Pt) (hd : delta.x * delta.x + delta.y * delta.y < 128 * 128) :
    |delta.x| ≤ 127 ∧ |delta.y| ≤ 127 := by
  constructor
  · rw [abs_le]; constructor <;> nlinarith [mul_self_nonneg delta.y]
  · rw [abs_le]; constructor <;> nlinarith [mul_self_nonneg delta.x]

theorem cosErr_le (d c : Int) : 0 ≤ cosErr d c ∧ cosErr d c ≤ 1207 := by
  unfold cosErr; split <;> omega

/-- Error margin for every raw angle: at most 161290 < 196608 (1.5 px). -/
theorem margin_le (d c : Int) (delta : Pt) (hd : delta.x * delta.x + delta.y * delta.y < 128 * 128) :
    63 * |delta.x| + cosErr d c * |delta.y| ≤ 196608 := by
  obtain ⟨hx, hy⟩ := abs_le_127 delta hd
  obtain ⟨h0, h1⟩ := cosErr_le d c
  have : cosErr d c * |delta.y| ≤ 1207 * 127 := mul_le_mul h1 hy (abs_nonneg _) (by omega)
  omega

/-- Error margin when the cosine's degree is exact: `63 (|dx| + |dy|) <= 63 * 181 = 11403`. -/
theorem margin_le_exact (d : Int) (delta : Pt) (hd : delta.x * delta.x + delta.y * delta.y < 128 * 128) :
    63 * |delta.x| + cosErr d (d + 90) * |delta.y| ≤ 11403 := by
  have h := norm1_le_181 (K := Int) delta hd
  unfold norm1 at h
  simp only [Int.cast_id] at h
  unfold cosErr
  rw [if_pos rfl]
  omega

/-- The repaired `contains` only ever rejects more than the plain half-plane test. -/
theorem contains_false_of_plain_false (ps : PlaneSector) (p : Pt) (h : ps.containsPlain p = false) :
    ps.contains p = false := by
  unfold PlaneSector.contains
  unfold PlaneSector.containsPlain at h
  split
  · rfl
  · exact h

/-- Two table lines one degree apart are never both 1.5 px away (with the sector between them)
inside a circle of diameter 128: the degenerate one-degree sweeps make no acceptance claim. -/
theorem tableDist_adjacent (k : Int) (delta : Pt) (hd : delta.x * delta.x + delta.y * delta.y < 128 * 128) :
    |tableDist k delta - tableDist (k + 1) delta| ≤ 290576 := by
  unfold tableDist cosT
  have e : delta.x * -(sinT k) + delta.y * sinT (k + 90) - (delta.x * -(sinT (k + 1)) + delta.y * sinT (k + 1 + 90)) =
      delta.x * (sinT (k + 1) - sinT k) + delta.y * (-(sinT (k + 90 + 1) - sinT (k + 90))) := by
    have : k + 1 + 90 = k + 90 + 1 := by omega
    rw [this]; ring
  rw [e]
  obtain ⟨hx, hy⟩ := abs_le_127 delta hd
  have h1 := prod_bound delta.x _ 1144 (sinT_step' k)
  have h2 := prod_bound delta.y (-(sinT (k + 90 + 1) - sinT (k + 90))) 1144 (by rw [abs_neg]; exact sinT_step' (k + 90))
  have h3 := abs_add_le (delta.x * (sinT (k + 1) - sinT k)) (delta.y * (-(sinT (k + 90 + 1) - sinT (k + 90))))
  omega

/-- The data of a plane sector below a full turn, as `planeSectorNew_eq` gives them. -/
theorem planeSectorNew_cases (start sweep : Int) (ps : PlaneSector)
    (h : planeSectorNew start sweep = some ps) (hne : ps.op ≠ .entirePlane) :
    sweepAbs sweep < 411775 ∧
    ps = ⟨if 205887 ≤ sweepAbs sweep then .union else .intersection,
       tableNormal (deg (boundaryAngles start sweep).2) (deg ((boundaryAngles start sweep).2 + 102944)),
       tableNormal (deg (boundaryAngles start sweep).1) (deg ((boundaryAngles start sweep).1 + 102944))⟩ := by
  obtain ⟨h1, h2, h3⟩ := planeSectorNew_some_fits start sweep ps h
  by_cases hw : sweepAbs sweep < 411775
  · obtain ⟨hsum, hr, hl⟩ := h3 hw
    have := planeSectorNew_eq start sweep h1 h2 hw hsum hr hl
    rw [h] at this
    exact ⟨hw, Option.some.inj this⟩
  · have := planeSectorNew_entire start sweep h1 h2 (by omega)
    rw [h] at this
    have e := Option.some.inj this
    rw [e] at hne
    exact absurd rfl hne

theorem boundary_diff (start sweep : Int) :
    (boundaryAngles start sweep).2 = (boundaryAngles start sweep).1 + sweepAbs sweep ∧ 0 ≤ sweepAbs sweep := by
  unfold boundaryAngles sweepAbs
  by_cases h : sweep < 0
  · simp only [h, ↓reduceIte]; constructor <;> first | trivial | omega
  · simp only [h, ↓reduceIte]; constructor <;> first | trivial | omega

/-- `cross` and the dot product of two table normals, in the shape `orientOK` tests. -/
theorem orient_hplain (dr cr dl cl : Int) (op : PlaneOp)
    (h : orientOK (t64 (sinT dr)) (t64 (sinT cr)) (t64 (sinT dl)) (t64 (sinT cl)) = true) :
    let ps : PlaneSector := ⟨op, tableNormal dl cl, tableNormal dr cr⟩
    0 < ps.cross ∨ dotProduct ps.left ps.right ≤ 0 := by
  unfold orientOK at h
  simp only [Bool.or_eq_true, decide_eq_true_eq] at h
  unfold PlaneSector.cross dotProduct tableNormal
  simp only
  rcases h with h | h
  · left
    have e : -t64 (sinT dr) * t64 (sinT cl) - t64 (sinT cr) * -t64 (sinT dl) =
        t64 (sinT dl) * t64 (sinT cr) - t64 (sinT dr) * t64 (sinT cl) := by ring
    rw [e]; exact h
  · right
    have e : -t64 (sinT dl) * -t64 (sinT dr) + t64 (sinT cl) * t64 (sinT cr) =
        t64 (sinT dl) * t64 (sinT dr) + t64 (sinT cl) * t64 (sinT cr) := by ring
    rw [e]; exact h

/-- Core of both angular theorems: a plane sector of two table normals, margins `m` covering both
error bounds, and — for the acceptance half of an intersection — the orientation fact whenever the
acceptance hypothesis can hold at all. -/
theorem contains_of_margin (op : PlaneOp) (dr cr dl cl : Int)
    (hcr : cr = dr + 90 ∨ cr = dr + 91) (hcl : cl = dl + 90 ∨ cl = dl + 91) (delta : Pt) (m : Int)
    (hmr : 63 * |delta.x| + cosErr dr cr * |delta.y| ≤ m)
    (hml : 63 * |delta.x| + cosErr dl cl * |delta.y| ≤ m)
    (horient : op = .intersection → tableDist dl delta ≤ -m → m ≤ tableDist dr delta →
      orientOK (t64 (sinT dr)) (t64 (sinT cr)) (t64 (sinT dl)) (t64 (sinT cl)) = true) :
    let ps : PlaneSector := ⟨op, tableNormal dl cl, tableNormal dr cr⟩
    (op = .intersection →
      (tableDist dl delta ≤ -m ∧ m ≤ tableDist dr delta → ps.contains delta = true) ∧
      (m < tableDist dl delta ∨ tableDist dr delta < -m → ps.contains delta = false)) ∧
    (op = .union →
      (tableDist dl delta ≤ -m ∨ m ≤ tableDist dr delta → ps.contains delta = true) ∧
      (m < tableDist dl delta ∧ tableDist dr delta < -m → ps.contains delta = false)) := by
  intro ps
  obtain ⟨R1, R0, _, _⟩ := halfplane_facts dr cr hcr delta m hmr
  obtain ⟨_, _, L1, L0⟩ := halfplane_facts dl cl hcl delta m hml
  refine ⟨fun hi => ⟨?_, ?_⟩, fun hu => ⟨?_, ?_⟩⟩
  · rintro ⟨h1, h2⟩
    have ho := orient_hplain dr cr dl cl op (horient hi h1 h2)
    have e : ps.contains delta = ps.containsPlain delta := by
      rcases ho with ho | ho
      · exact PlaneSector.contains_eq_plain_of_cross_pos ps ho delta
      · exact PlaneSector.contains_eq_plain_of_dot_nonpos ps (Or.inr ho) delta
    rw [e]
    show op.execute (PlaneSector.checkLeft (tableNormal dl cl) delta) (PlaneSector.checkRight (tableNormal dr cr) delta) = true
    rw [hi, L1 h1, R1 h2]; rfl
  · intro h
    apply contains_false_of_plain_false
    show op.execute (PlaneSector.checkLeft (tableNormal dl cl) delta) (PlaneSector.checkRight (tableNormal dr cr) delta) = false
    rw [hi]
    rcases h with h | h
    · rw [L0 h]; rfl
    · rw [R0 h]; simp [PlaneOp.execute]
  · intro h
    have e : ps.contains delta = ps.containsPlain delta :=
      PlaneSector.contains_eq_plain_of_dot_nonpos ps (Or.inl (by show op ≠ .intersection; rw [hu]; decide)) delta
    rw [e]
    show op.execute (PlaneSector.checkLeft (tableNormal dl cl) delta) (PlaneSector.checkRight (tableNormal dr cr) delta) = true
    rw [hu]
    rcases h with h | h
    · rw [L1 h]; rfl
    · rw [R1 h]; simp [PlaneOp.execute]
  · rintro ⟨h1, h2⟩
    apply contains_false_of_plain_false
    show op.execute (PlaneSector.checkLeft (tableNormal dl cl) delta) (PlaneSector.checkRight (tableNormal dr cr) delta) = false
    rw [hu, L0 h1, R0 h2]; rfl

/-- **The angular claim for the fixed_point build, every raw angle pair** (1.5 px = 196608). -/
theorem fixed_contains_margin (start sweep : Int) (ps : PlaneSector)
    (h : planeSectorNew start sweep = some ps) (hne : ps.op ≠ .entirePlane)
    (delta : Pt) (hd : delta.x * delta.x + delta.y * delta.y < 128 * 128) :
    (ps.op = .intersection →
      (tableDist (deg (boundaryAngles start sweep).2) delta ≤ -196608 ∧
        196608 ≤ tableDist (deg (boundaryAngles start sweep).1) delta → ps.contains delta = true) ∧
      (196608 < tableDist (deg (boundaryAngles start sweep).2) delta ∨
        tableDist (deg (boundaryAngles start sweep).1) delta < -196608 → ps.contains delta = false)) ∧
    (ps.op = .union →
      (tableDist (deg (boundaryAngles start sweep).2) delta ≤ -196608 ∨
        196608 ≤ tableDist (deg (boundaryAngles start sweep).1) delta → ps.contains delta = true) ∧
      (196608 < tableDist (deg (boundaryAngles start sweep).2) delta ∧
        tableDist (deg (boundaryAngles start sweep).1) delta < -196608 → ps.contains delta = false)) := by
  obtain ⟨hw, hps⟩ := planeSectorNew_cases start sweep ps h hne
  obtain ⟨hdiff, hw0⟩ := boundary_diff start sweep
  generalize (boundaryAngles start sweep).1 = s at *
  generalize (boundaryAngles start sweep).2 = e at *
  have hcr := deg_shift s
  have hcl := deg_shift e
  rw [hps]
  apply contains_of_margin _ (deg s) (deg (s + 102944)) (deg e) (deg (e + 102944)) hcr hcl delta 196608
    (margin_le _ _ delta hd) (margin_le _ _ delta hd)
  intro hi h1 h2
  have hlt : sweepAbs sweep < 205887 := by
    by_contra hc
    rw [if_pos (by omega)] at hi
    cases hi
  have hD := deg_diff_intersection s (sweepAbs sweep) hw0 hlt
  rw [← hdiff] at hD
  by_cases hD2 : 2 ≤ deg e - deg s
  · exact orient_ok (deg s) (deg e) _ _ ⟨hD2, hD.2⟩ hcr hcl
  · exfalso
    by_cases hD0 : deg e = deg s
    · rw [hD0] at h1; omega
    · have e1 : deg e = deg s + 1 := by omega
      rw [e1] at h1
      have := tableDist_adjacent (deg s) delta hd
      rw [abs_le] at this
      omega

/-- **The same with the truncation error alone** (0.087 px = 11403) when both cosine degrees are exact
(`deg (a + FRAC_PI_2) = deg a + 90` for both boundary angles: all but about one raw angle in 4600). -/
theorem fixed_contains_margin_exact_cos (start sweep : Int) (ps : PlaneSector)
    (h : planeSectorNew start sweep = some ps) (hne : ps.op ≠ .entirePlane)
    (hcr : deg ((boundaryAngles start sweep).1 + 102944) = deg (boundaryAngles start sweep).1 + 90)
    (hcl : deg ((boundaryAngles start sweep).2 + 102944) = deg (boundaryAngles start sweep).2 + 90)
    (delta : Pt) (hd : delta.x * delta.x + delta.y * delta.y < 128 * 128) :
    (ps.op = .intersection →
      (tableDist (deg (boundaryAngles start sweep).2) delta ≤ -11403 ∧
        11403 ≤ tableDist (deg (boundaryAngles start sweep).1) delta → ps.contains delta = true) ∧
      (11403 < tableDist (deg (boundaryAngles start sweep).2) delta ∨
        tableDist (deg (boundaryAngles start sweep).1) delta < -11403 → ps.contains delta = false)) ∧
    (ps.op = .union →
      (tableDist (deg (boundaryAngles start sweep).2) delta ≤ -11403 ∨
        11403 ≤ tableDist (deg (boundaryAngles start sweep).1) delta → ps.contains delta = true) ∧
      (11403 < tableDist (deg (boundaryAngles start sweep).2) delta ∧
        tableDist (deg (boundaryAngles start sweep).1) delta < -11403 → ps.contains delta = false)) := by
  obtain ⟨hw, hps⟩ := planeSectorNew_cases start sweep ps h hne
  obtain ⟨hdiff, hw0⟩ := boundary_diff start sweep
  generalize (boundaryAngles start sweep).1 = s at *
  generalize (boundaryAngles start sweep).2 = e at *
  rw [hps, hcr, hcl]
  apply contains_of_margin _ (deg s) (deg s + 90) (deg e) (deg e + 90) (Or.inl rfl) (Or.inl rfl) delta 11403
    (margin_le_exact _ delta hd) (margin_le_exact _ delta hd)
  intro hi h1 h2
  have hlt : sweepAbs sweep < 205887 := by
    by_contra hc
    rw [if_pos (by omega)] at hi
    cases hi
  have hD := deg_diff_intersection s (sweepAbs sweep) hw0 hlt
  rw [← hdiff] at hD
  by_cases hD2 : 2 ≤ deg e - deg s
  · exact orient_ok (deg s) (deg e) _ _ ⟨hD2, hD.2⟩ (Or.inl rfl) (Or.inl rfl)
  · by_cases hD0 : deg e = deg s
    · exfalso; rw [hD0] at h1; omega
    · have e1 : deg e = deg s + 1 := by omega
      rw [e1]
      exact orient_ok_one (deg s)

end EG.Fx
