/-
  EG.Lemmas.ThickGeoMidMetric — the middle-slab extents of EG.Lemmas.ThickGeoMid2 in the oracle's
  metrics `dot`, `cross`, `L2` (EG.Lemmas.ThickGeoMetric).
-/
import EG.Lemmas.ThickGeoMid2
import EG.Lemmas.ThickGeoMetric
set_option linter.unusedSimpArgs false
namespace EG.C17.Stroke
open EG

/-- Two pixels in the middle slab whose band values differ by `(2 w - 4) L`, in the oracle's form. -/
theorem mid_metric (l : Line) (p q : Pt) (w : Int)
    (m1 : Thick.MidP ((Thick.ctxOf l).D * (Thick.ctxOf l).D + (Thick.ctxOf l).d * (Thick.ctxOf l).d)
      ((Thick.ctxOf l).tmid l.start p))
    (m2 : Thick.MidP ((Thick.ctxOf l).D * (Thick.ctxOf l).D + (Thick.ctxOf l).d * (Thick.ctxOf l).d)
      ((Thick.ctxOf l).tmid l.start q))
    (hext : (2 * w - 4) * (2 * w - 4) *
        ((Thick.ctxOf l).D * (Thick.ctxOf l).D + (Thick.ctxOf l).d * (Thick.ctxOf l).d) ≤
      ((Thick.ctxOf l).ph p - (Thick.ctxOf l).ph q) * ((Thick.ctxOf l).ph p - (Thick.ctxOf l).ph q)) :
    (2 * dot l p - L2 l) ^ 2 ≤ 4 * L2 l ∧ (2 * dot l q - L2 l) ^ 2 ≤ 4 * L2 l ∧
      (w - 2) ^ 2 * L2 l ≤ (cross l p - cross l q) ^ 2 := by
  have hsq : ∀ t : Int, t ^ 2 = t * t := fun t => by ring
  refine ⟨?_, ?_, ?_⟩
  · unfold Thick.MidP Thick.StrokeCtx.tmid at m1
    rw [dot_eq, L2_eq, hsq]; exact m1
  · unfold Thick.MidP Thick.StrokeCtx.tmid at m2
    rw [dot_eq, L2_eq, hsq]; exact m2
  · rw [← L2_eq] at hext
    have hX : ((Thick.ctxOf l).ph p - (Thick.ctxOf l).ph q) * ((Thick.ctxOf l).ph p - (Thick.ctxOf l).ph q) =
        4 * (cross l p - cross l q) ^ 2 := by
      have e : (Thick.ctxOf l).ph p - (Thick.ctxOf l).ph q =
          ((Thick.ctxOf l).ph p - (Thick.ctxOf l).ph l.start) -
          ((Thick.ctxOf l).ph q - (Thick.ctxOf l).ph l.start) := by omega
      rw [e]
      rcases ph_cross_uniform l with hu | hu <;> rw [hu p, hu q] <;> ring
    rw [hX] at hext
    have e2 : (2 * w - 4) * (2 * w - 4) * L2 l = 4 * ((w - 2) ^ 2 * L2 l) := by ring
    omega

end EG.C17.Stroke
