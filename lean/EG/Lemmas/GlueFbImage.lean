/-
  EG.Lemmas.GlueFbImage — the framebuffer model's private image `EG.Fb.Img` (C10) IS the shared
  raw image model `EG.Img.ImageRaw` (C09) over the same depth / order / bytes / size.

  `EG.Model.Framebuffer` carries a minimal transcription of `ImageRaw::{new, data_width, pixel}`
  because the image model did not exist when it was written. Here the two transcriptions are
  identified: same `data_width`, same `new` (length check), same `pixel` function (up to the
  `as i32` wrap of sizes above `i32::MAX`, which the framebuffer model compares in `Int`), and the
  image `Framebuffer::as_image()` returns is a well-formed (`ImageRaw.WF`) raw image.
-/
import EG.Lemmas.FramebufferHist
import EG.Lemmas.ImageRawImage
namespace EG.Glue
open EG EG.Raw

/-- The C09 raw image with the fields of the C10 image. -/
def toRaw (im : Fb.Img) : Img.ImageRaw := ⟨im.bits, im.order, im.data, ⟨im.w, im.h⟩⟩

/-- The two `bytes_per_row` transcriptions are the same function. -/
theorem bytesPerRow_agree (w bits : Nat) : Fb.bytesPerRow w bits = Img.bytesPerRow w bits := rfl

/-- The two `data_width` transcriptions agree. -/
theorem dataWidth_agree (im : Fb.Img) : im.dataWidth = (toRaw im).dataWidth := rfl

/-- The two `ImageRaw::new` transcriptions accept the same buffers and build the same image. -/
theorem new_agree (bits : Nat) (o : Order) (data : List Nat) (w h : Nat) :
    (Fb.Img.new bits o data w h).map toRaw = (Img.ImageRaw.new bits o data ⟨w, h⟩).toOption := by
  unfold Fb.Img.new Img.ImageRaw.new
  simp only [bytesPerRow_agree]
  by_cases hl : data.length = Img.bytesPerRow w bits * h
  · rw [hl]; simp [Except.toOption, toRaw]
  · have hb : (data.length != Img.bytesPerRow w bits * h) = true := by simpa using hl
    simp only [ne_eq, hl, not_false_eq_true, ↓reduceIte, hb, Option.map_none, Except.toOption]

theorem asI32_of_le {n : Nat} (h : n ≤ 2147483647) : Img.asI32 n = (n : Int) := by
  unfold Img.asI32
  have h1 : n % 4294967296 = n := Nat.mod_eq_of_lt (by omega)
  rw [h1]
  have h2 : n < 2147483648 := by omega
  simp only [h2, ↓reduceIte]

/-- **`pixel_agree`**: the framebuffer model's image and the C09 image have the same `pixel`
function (for every point, inside or outside), as long as width and height survive `as i32`. -/
theorem pixel_agree (im : Fb.Img) (hw : im.w ≤ 2147483647) (hh : im.h ≤ 2147483647) (p : Pt) :
    im.pixel p = (toRaw im).pixel p := by
  unfold Fb.Img.pixel Img.ImageRaw.pixel
  have e1 : Img.asI32 (toRaw im).size.w = (im.w : Int) := asI32_of_le hw
  have e2 : Img.asI32 (toRaw im).size.h = (im.h : Int) := asI32_of_le hh
  rw [e1, e2]
  rfl

/-- Without the guard the two differ: the framebuffer model compares in `Int`, the real
`ImageRaw::pixel` (and the C09 model) with `width as i32`. Witness `2^31 x 1` at one bit. -/
theorem pixel_agree_needs_guard :
    ∃ (im : Fb.Img) (p : Pt), (toRaw im).pixel p = none ∧ ¬ (p.x < 0 ∨ p.y < 0 ∨ p.x ≥ (im.w : Int) ∨ p.y ≥ (im.h : Int)) := by
  refine ⟨⟨1, .le, [], 2147483648, 1⟩, ⟨0, 0⟩, ?_, by simp⟩
  exact Img.ImageRaw.pixel_none_of_width_wraps (toRaw ⟨1, .le, [], 2147483648, 1⟩) rfl _

/-- The `ImageRaw` that `Framebuffer::as_image()` returns, as a C09 image. -/
def asRaw (fb : Fb.Fb) : Img.ImageRaw :=
  ⟨fb.bits, fb.order, fb.data.take fb.bufSize, ⟨fb.width, fb.height⟩⟩

/-- `as_image()` of a well-formed framebuffer is (the C10 view of) `asRaw`. -/
theorem asImage_toRaw (fb : Fb.Fb) (hw : fb.Wf) : fb.asImage.map toRaw = some (asRaw fb) := by
  rw [Fb.asImage_eq fb hw]; rfl

/-- `as_image()` is exactly what C09's `ImageRaw::new` makes of the first `BUFFER_SIZE` bytes. -/
theorem asRaw_eq_new (fb : Fb.Fb) (hw : fb.Wf) :
    Img.ImageRaw.new fb.bits fb.order (fb.data.take fb.bufSize) ⟨fb.width, fb.height⟩ = .ok (asRaw fb) := by
  rw [Img.ImageRaw.new_ok_iff]
  refine ⟨?_, rfl⟩
  have hs := hw.size
  have : fb.bufSize = Img.bytesPerRow fb.width fb.bits * fb.height := rfl
  simp only [List.length_take]; omega

/-- It is a well-formed C09 image (the hypothesis of every C09 theorem), provided WIDTH and HEIGHT
survive the `as i32` casts of `ImageRaw::pixel`. -/
theorem asRaw_wf (fb : Fb.Fb) (hw : fb.Wf) (hW : fb.width ≤ 2147483647) (hH : fb.height ≤ 2147483647) :
    (asRaw fb).WF := by
  refine Img.ImageRaw.wf_of_new (asRaw_eq_new fb hw) hw.bits hW hH ?_
  unfold Img.Fits
  have h1 := pixelCount_le hw.bits (fb.data.take fb.bufSize).length
  have h2 := hw.fits
  have h3 : (fb.data.take fb.bufSize).length ≤ fb.data.length := by
    simp only [List.length_take]; omega
  omega

/-- `Framebuffer::pixel` is the `pixel` of the C09 image `asRaw` — for every point. -/
theorem fb_pixel_eq_raw_pixel (fb : Fb.Fb) (hw : fb.Wf) (hW : fb.width ≤ 2147483647)
    (hH : fb.height ≤ 2147483647) (p : Pt) : fb.pixel p = (asRaw fb).pixel p := by
  unfold Fb.Fb.pixel
  rw [Fb.asImage_eq fb hw]
  exact pixel_agree ⟨fb.bits, fb.order, fb.data.take fb.bufSize, fb.width, fb.height⟩ hW hH p

/-- `inside` is membership in the image's bounding box. -/
theorem inside_iff_contains (fb : Fb.Fb) (p : Pt) :
    fb.inside p ↔ (asRaw fb).boundingBox.contains p = true := by
  rw [Img.ImageRaw.contains_boundingBox]
  unfold Fb.Fb.inside asRaw
  simp only
  omega

end EG.Glue
