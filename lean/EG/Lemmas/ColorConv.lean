/-
  EG.Lemmas.ColorConv — helper lemmas for C13 (colour conversions over the generated tables).

  `convert_channel` facts are decided by kernel evaluation over the finite table
  (channel maxima occurring in `colorTable`)² x (all values up to the source maximum); they are
  lifted to whole colours by arithmetic lemmas (every generated conversion is channel-wise `new`
  of converted channels, and C12 says what `new` and the accessors do for ALL values).
-/
import EG.Lemmas.Color
import EG.Model.Conv
namespace EG.Conv
open EG EG.Generated EG.ColorSpec

/-! ### the finite table `convert_channel` is used on -/

/-- the channel maxima (`MAX_R/G/B`, `MAX_LUMA`) of the generated colour types -/
def chanMaxima : List Nat :=
  (colorTable.flatMap fun s =>
    match s.kind with
    | .binary => []
    | .gray => [maxLuma s]
    | .rgb | .bgr => [s.maxR, s.maxG, s.maxB]).eraseDups

/-- all values `0..=F` -/
def upTo (F : Nat) : List Nat := List.range (F + 1)

theorem mem_upTo {v F : Nat} : v ∈ upTo F ↔ v ≤ F := by
  unfold upTo; rw [List.mem_range]; omega

theorem cc_table_extremes : ∀ F ∈ chanMaxima, ∀ T ∈ chanMaxima,
    convertChannel F T 0 = 0 ∧ convertChannel F T F = T := by decide +kernel

theorem cc_table_range : ∀ F ∈ chanMaxima, ∀ T ∈ chanMaxima, ∀ v ∈ upTo F,
    convertChannel F T v ≤ T := by decide +kernel

/-- nearest representable value: `|out - v*T/F| ≤ 1/2`, multiplied out -/
theorem cc_table_nearest : ∀ F ∈ chanMaxima, ∀ T ∈ chanMaxima, ∀ v ∈ upTo F,
    2 * F * convertChannel F T v ≤ 2 * v * T + F ∧ 2 * v * T ≤ 2 * F * convertChannel F T v + F := by
  decide +kernel

theorem cc_table_step : ∀ F ∈ chanMaxima, ∀ T ∈ chanMaxima, ∀ v ∈ upTo F,
    convertChannel F T v ≤ convertChannel F T (v + 1) ∨ v = F := by decide +kernel

theorem cc_table_widen_narrow : ∀ F ∈ chanMaxima, ∀ T ∈ chanMaxima, F ≤ T → ∀ v ∈ upTo F,
    convertChannel T F (convertChannel F T v) = v := by decide +kernel

/-- the intermediate `u32` values of `convert_channel` do not overflow on the table -/
theorem cc_table_no_overflow : ∀ F ∈ chanMaxima, ∀ T ∈ chanMaxima, ∀ v ∈ upTo F,
    T <<< ccShift < 2 ^ 32 ∧ v * ((T <<< ccShift) / F) + (1 <<< (ccShift - 1)) < 2 ^ 32 := by decide +kernel

/-- monotone on `0..=F`, from the step fact -/
theorem cc_monotone {F T : Nat} (hF : F ∈ chanMaxima) (hT : T ∈ chanMaxima) :
    ∀ w, w ≤ F → ∀ v, v ≤ w → convertChannel F T v ≤ convertChannel F T w := by
  intro w
  induction w with
  | zero => intro _ v hv; have : v = 0 := by omega
            subst this; exact Nat.le_refl _
  | succ n ih =>
    intro hw v hv
    by_cases h : v = n + 1
    · subst h; exact Nat.le_refl _
    · have h1 := ih (by omega) v (by omega)
      have h2 := cc_table_step F hF T hT n (mem_upTo.mpr (by omega))
      rcases h2 with h2 | h2
      · exact Nat.le_trans h1 h2
      · omega

/-! ### facts about the generated tables (decided) -/

theorem rgb_max_table : ∀ s ∈ colorTable, s.isRgb = true →
    s.maxR + 1 = 2 ^ s.rbits ∧ s.maxG + 1 = 2 ^ s.gbits ∧ s.maxB + 1 = 2 ^ s.bbits
    ∧ s.maxR ∈ chanMaxima ∧ s.maxG ∈ chanMaxima ∧ s.maxB ∈ chanMaxima := by decide +kernel

theorem gray_max_table : ∀ s ∈ colorTable, s.kind = .gray →
    maxLuma s + 1 = 2 ^ s.rawBpp ∧ maxLuma s ∈ chanMaxima ∧ maxLuma s < 256 := by decide +kernel

theorem resolved_all : resolvedTable.length = convTable.length := by decide +kernel

theorem typed_rgbRgb : ∀ x ∈ resolvedTable, x.kind = .rgbRgb →
    x.a ∈ colorTable ∧ x.b ∈ colorTable ∧ x.a.isRgb = true ∧ x.b.isRgb = true := by decide +kernel
theorem typed_grayGray : ∀ x ∈ resolvedTable, x.kind = .grayGray →
    x.a ∈ colorTable ∧ x.b ∈ colorTable ∧ x.a.kind = .gray ∧ x.b.kind = .gray := by decide +kernel
theorem typed_grayRgb : ∀ x ∈ resolvedTable, x.kind = .grayRgb →
    x.a ∈ colorTable ∧ x.b ∈ colorTable ∧ x.a.kind = .gray ∧ x.b.isRgb = true := by decide +kernel
theorem typed_rgbGray : ∀ x ∈ resolvedTable, x.kind = .rgbGray →
    x.a ∈ colorTable ∧ x.b ∈ colorTable ∧ x.a.isRgb = true ∧ x.b.kind = .gray := by decide +kernel
theorem typed_toBinary : ∀ x ∈ resolvedTable, (x.kind = .grayBinary → x.a ∈ colorTable ∧ x.a.kind = .gray ∧ x.b.kind = .binary)
    ∧ (x.kind = .rgbBinary → x.a ∈ colorTable ∧ x.a.isRgb = true ∧ x.b.kind = .binary) := by decide +kernel
/-- the helper types of RGB -> gray / binary are the ones the source names, and the conversions the
bodies call (`Rgb888::from(other)`, `.into()` from `Gray8`) are themselves in the table (or reflexive) -/
theorem typed_via : ∀ x ∈ resolvedTable,
    x.via ∈ colorTable ∧ x.via.isRgb = true ∧ x.via.name = lumaVia ∧ x.g8 ∈ colorTable ∧ x.g8.kind = .gray ∧ x.g8.name = grayVia
    ∧ ((x.kind = .rgbGray ∨ x.kind = .rgbBinary) → x.a.name ≠ x.via.name → (⟨x.a.name, x.via.name, .rgbRgb⟩ : ConvSpec) ∈ convTable)
    ∧ (x.kind = .rgbGray → x.b.name ≠ x.g8.name → (⟨x.g8.name, x.b.name, .grayGray⟩ : ConvSpec) ∈ convTable) := by
  decide +kernel

/-- black and white, for every generated conversion (binary: `Off` / `On`) -/
theorem black_white_table : ∀ x ∈ resolvedTable,
    x.apply (black x.a) = black x.b ∧ x.apply (white x.a) = white x.b := by decide +kernel

theorem maxChan_lt_256 (n : Nat) : maxChan n < 256 := by
  unfold maxChan; exact Nat.mod_lt _ (by decide)

/-! ### every generated conversion is channel-wise -/

theorem rgbToRgb_channels {a b : ColorSpec} (ha : a ∈ colorTable) (hb : b ∈ colorTable)
    (hka : a.isRgb = true) (hkb : b.isRgb = true) (c : Nat) (hc : a.Valid c) :
    b.chanR (rgbToRgb a b c) = convertChannel a.maxR b.maxR (a.chanR c)
    ∧ b.chanG (rgbToRgb a b c) = convertChannel a.maxG b.maxG (a.chanG c)
    ∧ b.chanB (rgbToRgb a b c) = convertChannel a.maxB b.maxB (a.chanB c) := by
  obtain ⟨_, hr, hg, hbl⟩ := Color.valid_eq_new a ha hka c hc
  obtain ⟨ar, ag, ab, amr, amg, amb⟩ := rgb_max_table a ha hka
  obtain ⟨br, bg, bb, bmr, bmg, bmb⟩ := rgb_max_table b hb hkb
  have r1 := cc_table_range _ amr _ bmr (a.chanR c) (mem_upTo.mpr (by omega))
  have r2 := cc_table_range _ amg _ bmg (a.chanG c) (mem_upTo.mpr (by omega))
  have r3 := cc_table_range _ amb _ bmb (a.chanB c) (mem_upTo.mpr (by omega))
  have m1 : b.maxR < 256 := maxChan_lt_256 _
  have m2 : b.maxG < 256 := maxChan_lt_256 _
  have m3 : b.maxB < 256 := maxChan_lt_256 _
  have h := Color.new_channels b hb hkb _ _ _ (Nat.lt_of_le_of_lt r1 m1) (Nat.lt_of_le_of_lt r2 m2)
    (Nat.lt_of_le_of_lt r3 m3)
  unfold rgbToRgb
  rw [h.1, h.2.1, h.2.2]
  refine ⟨Nat.mod_eq_of_lt (by omega), Nat.mod_eq_of_lt (by omega), Nat.mod_eq_of_lt (by omega)⟩

theorem grayToGray_luma {a b : ColorSpec} (ha : a ∈ colorTable) (hb : b ∈ colorTable)
    (hka : a.kind = .gray) (hkb : b.kind = .gray) (c : Nat) (hc : a.Valid c) :
    b.luma (grayToGray a b c) = convertChannel (maxLuma a) (maxLuma b) (a.luma c) := by
  obtain ⟨am, amm, _⟩ := gray_max_table a ha hka
  obtain ⟨bm, bmm, b256⟩ := gray_max_table b hb hkb
  have hv : a.luma c ≤ maxLuma a := by
    unfold Valid at hc; rw [hka] at hc; unfold luma; simp only at hc; omega
  have r1 := cc_table_range _ amm _ bmm (a.luma c) (mem_upTo.mpr hv)
  unfold grayToGray
  rw [Color.gray_new_luma b hb hkb _ (by omega)]
  exact Nat.mod_eq_of_lt (by omega)

theorem grayToRgb_channels {a b : ColorSpec} (ha : a ∈ colorTable) (hb : b ∈ colorTable)
    (hka : a.kind = .gray) (hkb : b.isRgb = true) (c : Nat) (hc : a.Valid c) :
    b.chanR (grayToRgb a b c) = convertChannel (maxLuma a) b.maxR (a.luma c)
    ∧ b.chanG (grayToRgb a b c) = convertChannel (maxLuma a) b.maxG (a.luma c)
    ∧ b.chanB (grayToRgb a b c) = convertChannel (maxLuma a) b.maxB (a.luma c) := by
  obtain ⟨am, amm, _⟩ := gray_max_table a ha hka
  obtain ⟨br, bg, bb, bmr, bmg, bmb⟩ := rgb_max_table b hb hkb
  have hv : a.luma c ≤ maxLuma a := by
    unfold Valid at hc; rw [hka] at hc; unfold luma; simp only at hc; omega
  have r1 := cc_table_range _ amm _ bmr (a.luma c) (mem_upTo.mpr hv)
  have r2 := cc_table_range _ amm _ bmg (a.luma c) (mem_upTo.mpr hv)
  have r3 := cc_table_range _ amm _ bmb (a.luma c) (mem_upTo.mpr hv)
  have m1 : b.maxR < 256 := maxChan_lt_256 _
  have m2 : b.maxG < 256 := maxChan_lt_256 _
  have m3 : b.maxB < 256 := maxChan_lt_256 _
  have h := Color.new_channels b hb hkb _ _ _ (Nat.lt_of_le_of_lt r1 m1) (Nat.lt_of_le_of_lt r2 m2)
    (Nat.lt_of_le_of_lt r3 m3)
  unfold grayToRgb
  rw [h.1, h.2.1, h.2.2]
  refine ⟨Nat.mod_eq_of_lt (by omega), Nat.mod_eq_of_lt (by omega), Nat.mod_eq_of_lt (by omega)⟩

/-! ### unfolding `Resolved.apply` by kind -/

theorem apply_rgbRgb {x : Resolved} (hk : x.kind = .rgbRgb) (c : Nat) : x.apply c = rgbToRgb x.a x.b c := by
  unfold Resolved.apply; rw [hk]
theorem apply_grayGray {x : Resolved} (hk : x.kind = .grayGray) (c : Nat) : x.apply c = grayToGray x.a x.b c := by
  unfold Resolved.apply; rw [hk]
theorem apply_grayRgb {x : Resolved} (hk : x.kind = .grayRgb) (c : Nat) : x.apply c = grayToRgb x.a x.b c := by
  unfold Resolved.apply; rw [hk]
theorem apply_rgbGray {x : Resolved} (hk : x.kind = .rgbGray) (c : Nat) :
    x.apply c = rgbToGray x.a x.via x.g8 x.b c := by
  unfold Resolved.apply; rw [hk]
theorem apply_grayBinary {x : Resolved} (hk : x.kind = .grayBinary) (c : Nat) : x.apply c = grayToBinary x.a c := by
  unfold Resolved.apply; rw [hk]
theorem apply_rgbBinary {x : Resolved} (hk : x.kind = .rgbBinary) (c : Nat) : x.apply c = rgbToBinary x.a x.via c := by
  unfold Resolved.apply; rw [hk]

/-- `out` is the representable value nearest to `v * T / F`: `|out - v*T/F| ≤ 1/2`, multiplied out -/
def Nearest (F T v out : Nat) : Prop := 2 * F * out ≤ 2 * v * T + F ∧ 2 * v * T ≤ 2 * F * out + F

theorem le_of_succ_eq_pow {ma mb na nb : Nat} (ha : ma + 1 = 2 ^ na) (hb : mb + 1 = 2 ^ nb) (h : na ≤ nb) :
    ma ≤ mb := by
  have := Nat.pow_le_pow_right (by decide : 0 < 2) h
  omega

theorem valid_gray_le {a : ColorSpec} (ha : a ∈ colorTable) (hka : a.kind = .gray) (c : Nat) (hc : a.Valid c) :
    a.luma c ≤ maxLuma a := by
  obtain ⟨am, _, _⟩ := gray_max_table a ha hka
  unfold Valid at hc; rw [hka] at hc; unfold luma; simp only at hc; omega

/-- gray -> RGB -> gray gives the gray back whenever every RGB channel is at least as wide as the
gray type: decided over every such pair of generated conversions and every gray value. -/
theorem gray_rgb_gray_table : ∀ x ∈ resolvedTable, ∀ y ∈ resolvedTable,
    x.kind = .grayRgb → y.kind = .rgbGray → y.a = x.b → y.b = x.a →
    x.a.rawBpp ≤ x.b.rbits → x.a.rawBpp ≤ x.b.gbits → x.a.rawBpp ≤ x.b.bbits →
    ∀ c ∈ upTo (maxLuma x.a), y.apply (x.apply c) = c := by decide +kernel

/-- gray -> binary: `On` exactly for the upper half of the luma range -/
theorem gray_binary_table : ∀ x ∈ resolvedTable, x.kind = .grayBinary → ∀ c ∈ upTo (maxLuma x.a),
    (x.apply c = 1 ↔ maxLuma x.a + 1 ≤ 2 * x.a.luma c) ∧ (x.apply c = 0 ∨ x.apply c = 1) := by decide +kernel

end EG.Conv
